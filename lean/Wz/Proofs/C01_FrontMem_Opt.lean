/-
C01 (front end with memory accesses): the validator `optOK` / `optValid` (no-op shifts become aliases, operands are
resolved, dead code is deleted) is sound: accepted pairs of one-block functions have the same outcome.
Invariant `VInv` between the run of the original (`st`) and of the optimised function (`st'`): same memory and trace;
the environments agree on every value that is neither dead nor aliased; an aliased value equals its target in the
ORIGINAL run, and the target is neither dead nor aliased; recorded types and constants hold in the original run;
everything mentioned is already defined, and every new definition is fresh.
-/
import Wz.Proofs.C01_FrontMem_Dce
import Wz.Proofs.C01_SsaPass_Nop

set_option linter.unusedSimpArgs false
set_option linter.unusedVariables false

namespace Wz.Proofs.FrontMem
open Wz.Spec Wz.Model.SsaPass Wz.Model.FrontendSL Wz.Model.FrontendMem Wz.Proofs.Front

theorem aliasGet_mem : ∀ (al : List (Val × Val)) (v x : Nat), aliasGet al v = some x → (v, x) ∈ al := by
  intro al
  induction al with
  | nil => intro v x h; cases h
  | cons e rest ih =>
    intro v x h
    obtain ⟨k, t⟩ := e
    simp only [aliasGet] at h
    split at h
    · rename_i hk; subst hk; cases h; exact List.mem_cons_self ..
    · exact List.mem_cons_of_mem _ (ih v x h)

theorem lookupConst_mem : ∀ (cs : List (Val × Ty × Nat)) (v : Nat) (e : Ty × Nat),
    lookupConst cs v = some e → (v, e) ∈ cs := by
  intro cs
  induction cs with
  | nil => intro v e h; cases h
  | cons p rest ih =>
    intro v e h
    obtain ⟨k, e0⟩ := p
    simp only [lookupConst] at h
    split at h
    · rename_i hk; subst hk; cases h; exact List.mem_cons_self ..
    · exact List.mem_cons_of_mem _ (ih v e h)

/-- an instruction changes the environment only at its results -/
theorem stepM_frame (w : World) (i : MInstr) (st : St) (v : Nat) (h : v ∉ i.results) :
    (stepM w i st).st.env v = st.env v := by
  cases i with
  | base j =>
    have := exec_frame w st.env j st v h
    simp only [stepM]
    cases hc : execInstr w st.env j st <;> rw [hc] at this <;> exact this
  | extload op r ty p off =>
    simp only [MInstr.results, List.mem_singleton] at h
    simp [stepM, Ctl.st, St.set, upd, h]

theorem evalExt_lt (op : ExtOp) (ty : Ty) (raw : Nat) : evalExt op ty raw < 2 ^ ty.bits := by
  unfold evalExt
  split
  · exact BitVec.isLt _
  · exact norm_lt _ _

/-- the results of a single-result instruction are within their declared types -/
theorem stepM_typed (w : World) (i : MInstr) (st st1 : St) (h : stepM w i st = .next st1) (hc : i.isCall = false) :
    ∀ r t, (r, t) ∈ i.typedResults → st1.env r < 2 ^ t.bits := by
  intro r t hm
  cases i with
  | extload op r0 ty p off =>
    simp only [MInstr.typedResults, List.mem_singleton, Prod.mk.injEq] at hm
    obtain ⟨rfl, rfl⟩ := hm
    simp only [stepM, Ctl.next.injEq] at h
    subst h
    simp only [St.set, upd, if_true]
    exact evalExt_lt _ _ _
  | base j =>
    simp only [stepM] at h
    cases j <;> simp only [MInstr.isCall, Bool.true_eq_false] at hc <;>
      simp only [MInstr.typedResults, Instr.typedResults, List.mem_singleton, Prod.mk.injEq, List.not_mem_nil] at hm <;>
      simp only [execInstr] at h
    case iconst r0 ty c =>
      obtain ⟨rfl, rfl⟩ := hm; cases h; simp only [St.set, upd, if_true]; exact norm_lt _ _
    case bin op r0 ty x y =>
      obtain ⟨rfl, rfl⟩ := hm; cases h; simp only [St.set, upd, if_true]; exact evalBin_lt _ _ _ _
    case icmp r0 ty c x y =>
      obtain ⟨rfl, rfl⟩ := hm; cases h; simp only [St.set, upd, if_true]; exact evalCond_lt _ _ _ _
    case select r0 ty c x y =>
      obtain ⟨rfl, rfl⟩ := hm; cases h; simp only [St.set, upd, if_true]; exact norm_lt _ _
    case un op r0 ty x =>
      obtain ⟨rfl, rfl⟩ := hm; cases h; simp only [St.set, upd, if_true]; exact evalUn_lt _ _ _
    case load r0 ty p off =>
      obtain ⟨rfl, rfl⟩ := hm; cases h; simp only [St.set, upd, if_true]; exact norm_lt _ _
    case div op r0 ty x y ctx =>
      obtain ⟨rfl, rfl⟩ := hm
      split at h
      · rename_i v hv
        cases h; simp only [St.set, upd, if_true]; exact evalDiv_lt _ _ _ _ _ hv
      · cases h

/-! ### the same instruction with renamed operands -/

/-- the two post-states: same memory and trace; equal on the results and wherever the pre-states were equal -/
def Post (i : MInstr) (st' st s1' s1 : St) : Prop :=
  s1'.mem = s1.mem ∧ s1'.trace = s1.trace ∧
  ∀ v : Nat, (v ∈ i.results ∨ st'.env v = st.env v) → s1'.env v = s1.env v

def CRelP (i : MInstr) (st' st : St) : Ctl → Ctl → Prop
  | .next s', .next s => Post i st' st s' s
  | .goto b' a' s', .goto b a s => b' = b ∧ a' = a ∧ s'.mem = s.mem ∧ s'.trace = s.trace
  | .ret vs' s', .ret vs s => vs' = vs ∧ s'.mem = s.mem ∧ s'.trace = s.trace
  | .trap c' s', .trap c s => c' = c ∧ s'.mem = s.mem ∧ s'.trace = s.trace
  | _, _ => False

theorem post_same {i : MInstr} {st' st : St} (hres : i.results = []) (hm : st'.mem = st.mem)
    (ht : st'.trace = st.trace) : Post i st' st st' st :=
  ⟨hm, ht, fun v hv => by
    rcases hv with h | h
    · rw [hres] at h; cases h
    · exact h⟩

theorem post_set {i : MInstr} {st' st : St} (r : Val) (x : Nat) (hres : i.results = [r]) (hm : st'.mem = st.mem)
    (ht : st'.trace = st.trace) : Post i st' st (st'.set r x) (st.set r x) := by
  refine ⟨hm, ht, ?_⟩
  intro v hv
  simp only [St.set, upd]
  split
  · rfl
  · rename_i hne
    rcases hv with h | h
    · rw [hres] at h; simp only [List.mem_singleton] at h; exact absurd h hne
    · exact h

theorem bindVals_post : ∀ (rs : List (Val × Ty)) (vs : List Nat) (e' e : Val → Nat) (v : Nat),
    (v ∈ rs.map (·.1) ∨ e' v = e v) → bindVals e' rs vs v = bindVals e rs vs v := by
  intro rs
  induction rs with
  | nil =>
    intro vs e' e v h
    rcases h with h | h
    · cases h
    · exact h
  | cons p rs ih =>
    intro vs e' e v h
    obtain ⟨r, ty⟩ := p
    simp only [bindVals]
    apply ih
    by_cases hv : v = r
    · right; subst hv; simp only [upd, if_true]
    · rcases h with h | h
      · simp only [List.map_cons, List.mem_cons] at h
        rcases h with h | h
        · exact absurd h hv
        · exact .inl h
      · right; simp only [upd, if_neg hv]; exact h

/-- the instruction with its operands renamed by `g`, in a state that holds at `g o` what the other holds at `o` -/
theorem exec_congr_map (w : World) (g : Val → Val) (i : Instr) (st' st : St) (hm : st'.mem = st.mem)
    (ht : st'.trace = st.trace) (hops : ∀ o ∈ i.operands, st'.env (g o) = st.env o) :
    CRelP (.base i) st' st (execInstr w st'.env (i.mapOperands g) st') (execInstr w st.env i st) := by
  have hmap : ∀ l : List Val, (∀ o ∈ l, o ∈ i.operands) → (l.map g).map st'.env = l.map st.env := by
    intro l hl
    rw [List.map_map]
    apply List.map_congr_left
    intro o ho
    exact hops o (hl o ho)
  cases i with
  | iconst r ty c => exact post_set r _ rfl hm ht
  | bin op r ty x y =>
    simp only [Instr.mapOperands, execInstr, CRelP]
    rw [hops x (by simp [Instr.operands]), hops y (by simp [Instr.operands])]
    exact post_set r _ rfl hm ht
  | icmp r ty c x y =>
    simp only [Instr.mapOperands, execInstr, CRelP]
    rw [hops x (by simp [Instr.operands]), hops y (by simp [Instr.operands])]
    exact post_set r _ rfl hm ht
  | select r ty c x y =>
    simp only [Instr.mapOperands, execInstr, CRelP]
    rw [hops c (by simp [Instr.operands]), hops x (by simp [Instr.operands]), hops y (by simp [Instr.operands])]
    exact post_set r _ rfl hm ht
  | un op r ty x =>
    simp only [Instr.mapOperands, execInstr, CRelP]
    rw [hops x (by simp [Instr.operands])]
    exact post_set r _ rfl hm ht
  | load r ty p off =>
    simp only [Instr.mapOperands, execInstr, CRelP]
    rw [hops p (by simp [Instr.operands]), hm]
    exact post_set r _ rfl hm ht
  | store op ty v p off =>
    simp only [Instr.mapOperands, execInstr, CRelP]
    rw [hops p (by simp [Instr.operands]), hops v (by simp [Instr.operands]), hm]
    exact ⟨rfl, ht, fun x hx => by
      rcases hx with h | h
      · cases h
      · exact h⟩
  | call fn sig rs args =>
    simp only [Instr.mapOperands, execInstr]
    rw [hmap args (fun o ho => by simp [Instr.operands, ho]), hm, ht]
    cases hc : w.call fn (args.map st.env) st.mem with
    | none => exact ⟨rfl, rfl, rfl⟩
    | some res =>
      obtain ⟨m, outs⟩ := res
      exact ⟨rfl, rfl, fun v hv => bindVals_post rs outs _ _ v hv⟩
  | div op r ty x y ctx =>
    simp only [Instr.mapOperands, execInstr]
    rw [hops x (by simp [Instr.operands]), hops y (by simp [Instr.operands])]
    cases hd : evalDiv op ty (st.env x) (st.env y) with
    | ok v => exact post_set r _ rfl hm ht
    | error code => exact ⟨rfl, hm, ht⟩
  | exitIf ctx c code =>
    simp only [Instr.mapOperands, execInstr]
    rw [hops c (by simp [Instr.operands])]
    split
    · exact ⟨rfl, hm, ht⟩
    · exact post_same rfl hm ht
  | exit ctx code => exact ⟨rfl, hm, ht⟩
  | jump t args =>
    simp only [Instr.mapOperands, execInstr]
    exact ⟨rfl, hmap args (fun o ho => by simp [Instr.operands, ho]), hm, ht⟩
  | brz c t args =>
    simp only [Instr.mapOperands, execInstr]
    rw [hops c (by simp [Instr.operands])]
    split
    · exact ⟨rfl, hmap args (fun o ho => by simp [Instr.operands, ho]), hm, ht⟩
    · exact post_same rfl hm ht
  | brnz c t args =>
    simp only [Instr.mapOperands, execInstr]
    rw [hops c (by simp [Instr.operands])]
    split
    · exact ⟨rfl, hmap args (fun o ho => by simp [Instr.operands, ho]), hm, ht⟩
    · exact post_same rfl hm ht
  | ret vs =>
    simp only [Instr.mapOperands, execInstr, CRelP]
    exact ⟨hmap vs (fun o ho => by simp [Instr.operands, ho]), hm, ht⟩

theorem stepM_congr_map (w : World) (g : Val → Val) (i : MInstr) (st' st : St) (hm : st'.mem = st.mem)
    (ht : st'.trace = st.trace) (hops : ∀ o ∈ i.operands, st'.env (g o) = st.env o) :
    CRelP i st' st (stepM w (i.mapOperands g) st') (stepM w i st) ∧
    instrAcc st'.env (i.mapOperands g) = instrAcc st.env i := by
  cases i with
  | base j =>
    refine ⟨exec_congr_map w g j st' st hm ht hops, ?_⟩
    cases j <;> try rfl
    case load r ty p off =>
      simp only [MInstr.mapOperands, Instr.mapOperands, instrAcc]
      rw [hops p (by simp [MInstr.operands, Instr.operands])]
    case store op ty v p off =>
      simp only [MInstr.mapOperands, Instr.mapOperands, instrAcc]
      rw [hops p (by simp [MInstr.operands, Instr.operands])]
  | extload op r ty p off =>
    have hp := hops p (by simp [MInstr.operands])
    refine ⟨?_, by simp only [MInstr.mapOperands, instrAcc, hp]⟩
    simp only [MInstr.mapOperands, stepM, CRelP]
    rw [hp, hm]
    exact post_set r _ rfl hm ht

/-! ### the invariant -/

structure VInv (s : VSt) (st' st : St) : Prop where
  mem : st'.mem = st.mem
  tr : st'.trace = st.trace
  agree : ∀ v : Nat, v ∉ s.dead → aliasGet s.al v = none → st'.env v = st.env v
  al : ∀ k x : Nat, (k, x) ∈ s.al →
    st.env k = st.env x ∧ x ∉ s.dead ∧ aliasGet s.al x = none ∧ k ∈ s.seen ∧ x ∈ s.seen
  tys : ∀ (v : Nat) (t : Ty), (v, t) ∈ s.tys → st.env v < 2 ^ t.bits ∧ v ∈ s.seen
  consts : ∀ (v : Nat) (cty : Ty) (c : Nat), (v, cty, c) ∈ s.consts → st.env v = norm cty c ∧ v ∈ s.seen
  dead : ∀ v : Nat, v ∈ s.dead → v ∈ s.seen

variable {w : World} {s : VSt} {st' st : St}

/-- what the optimised run finds at a resolved operand is what the original finds at the operand -/
theorem VInv.operand (h : VInv s st' st) (o : Nat) (hd : res s.al o ∉ s.dead) : st'.env (res s.al o) = st.env o := by
  unfold res at hd ⊢
  cases hg : aliasGet s.al o with
  | none =>
    rw [hg] at hd
    exact h.agree o hd hg
  | some x =>
    rw [hg] at hd
    obtain ⟨e1, _, e3, _, _⟩ := h.al o x (aliasGet_mem _ _ _ hg)
    simp only [Option.getD_some] at hd ⊢
    rw [h.agree x hd e3, e1]

/-- a resolved value is not aliased, is not … and the original run holds the same there -/
theorem VInv.res_facts (h : VInv s st' st) (x : Nat) (hx : x ∈ s.seen) :
    st.env (res s.al x) = st.env x ∧ aliasGet s.al (res s.al x) = none ∧ res s.al x ∈ s.seen := by
  unfold res
  cases hg : aliasGet s.al x with
  | none => exact ⟨rfl, hg, hx⟩
  | some y =>
    obtain ⟨e1, _, e3, _, e5⟩ := h.al x y (aliasGet_mem _ _ _ hg)
    exact ⟨e1.symm, e3, e5⟩

theorem typedResults_fst (i : MInstr) : i.typedResults.map (·.1) = i.results := by
  cases i with
  | extload => rfl
  | base j => cases j <;> first | rfl | simp [MInstr.typedResults, MInstr.results, Instr.typedResults, Instr.results]

/-- the part of the invariant that only concerns the ORIGINAL run, after it has executed `i` (fresh results) -/
theorem VInv.orig_step (h : VInv s st' st) (i : MInstr) (st1 : St) (hstep : stepM w i st = .next st1)
    (hfresh : ∀ r ∈ i.results, r ∉ s.seen) :
    (∀ v : Nat, v ∈ s.seen → st1.env v = st.env v) ∧
    (∀ (v : Nat) (t : Ty), (v, t) ∈ (s.define i).tys → st1.env v < 2 ^ t.bits ∧ v ∈ (s.define i).seen) ∧
    (∀ (v : Nat) (cty : Ty) (c : Nat), (v, cty, c) ∈ (s.define i).consts →
      st1.env v = norm cty c ∧ v ∈ (s.define i).seen) := by
  have hframe : ∀ v : Nat, v ∈ s.seen → st1.env v = st.env v := by
    intro v hv
    have := stepM_frame w i st v (fun hm => hfresh v hm hv)
    rw [hstep] at this
    exact this
  refine ⟨hframe, ?_, ?_⟩
  · intro v t hm
    simp only [VSt.define] at hm ⊢
    rcases List.mem_append.mp hm with hm | hm
    · by_cases hc : i.isCall = true
      · rw [if_pos hc] at hm; cases hm
      · rw [if_neg hc] at hm
        refine ⟨stepM_typed w i st st1 hstep (by simpa using hc) v t hm, List.mem_append_left _ ?_⟩
        rw [← typedResults_fst]
        exact List.mem_map.mpr ⟨(v, t), hm, rfl⟩
    · obtain ⟨h1, h2⟩ := h.tys v t hm
      exact ⟨by rw [hframe v h2]; exact h1, List.mem_append_right _ h2⟩
  · intro v cty c hm
    simp only [VSt.define] at hm ⊢
    rcases List.mem_append.mp hm with hm | hm
    · cases i with
      | extload => cases hm
      | base j =>
        cases j <;> try (cases hm; done)
        case iconst r ty c0 =>
          simp only [List.mem_singleton, Prod.mk.injEq] at hm
          obtain ⟨rfl, rfl, rfl⟩ := hm
          simp only [stepM, execInstr, Ctl.next.injEq] at hstep
          subst hstep
          exact ⟨by simp only [St.set, upd, if_true], List.mem_append_left _ (by simp [MInstr.results, Instr.results])⟩
    · obtain ⟨h1, h2⟩ := h.consts v cty c hm
      exact ⟨by rw [hframe v h2]; exact h1, List.mem_append_right _ h2⟩

/-- KEEP: both runs execute the instruction (the optimised one with resolved operands) -/
theorem VInv.keep (h : VInv s st' st) (i : MInstr) (s1' s1 : St) (hstep : stepM w i st = .next s1)
    (hpost : Post i st' st s1' s1) (hfresh : ∀ r ∈ i.results, r ∉ s.seen) : VInv (s.define i) s1' s1 := by
  obtain ⟨hframe, htys, hconsts⟩ := h.orig_step i s1 hstep hfresh
  refine ⟨hpost.1, hpost.2.1, ?_, ?_, htys, hconsts, ?_⟩
  · intro v hd hg
    apply hpost.2.2
    by_cases hv : v ∈ i.results
    · exact .inl hv
    · exact .inr (h.agree v hd hg)
  · intro k x hm
    obtain ⟨e1, e2, e3, e4, e5⟩ := h.al k x hm
    exact ⟨by rw [hframe k e4, hframe x e5]; exact e1, e2, e3, List.mem_append_right _ e4, List.mem_append_right _ e5⟩
  · intro v hv
    exact List.mem_append_right _ (h.dead v hv)

/-- DELETE: only the original run executes the instruction; its results become dead -/
theorem VInv.delete (h : VInv s st' st) (i : MInstr) (s1 : St) (hstep : stepM w i st = .next s1)
    (hmem : s1.mem = st.mem) (htr : s1.trace = st.trace) (hfresh : ∀ r ∈ i.results, r ∉ s.seen) :
    VInv { s.define i with dead := i.results ++ s.dead } st' s1 := by
  obtain ⟨hframe, htys, hconsts⟩ := h.orig_step i s1 hstep hfresh
  have hfr2 : ∀ v : Nat, v ∉ i.results → s1.env v = st.env v := by
    intro v hv
    have := stepM_frame w i st v hv
    rw [hstep] at this
    exact this
  refine ⟨by rw [hmem]; exact h.mem, by rw [htr]; exact h.tr, ?_, ?_, htys, hconsts, ?_⟩
  · intro v hd hg
    have hd1 : v ∉ i.results := fun hm => hd (List.mem_append_left _ hm)
    have hd2 : v ∉ s.dead := fun hm => hd (List.mem_append_right _ hm)
    rw [hfr2 v hd1]
    exact h.agree v hd2 hg
  · intro k x hm
    obtain ⟨e1, e2, e3, e4, e5⟩ := h.al k x hm
    refine ⟨by rw [hframe k e4, hframe x e5]; exact e1, ?_, e3, List.mem_append_right _ e4, List.mem_append_right _ e5⟩
    intro hx
    rcases List.mem_append.mp hx with hx | hx
    · exact hfresh x hx e5
    · exact e2 hx
  · intro v hv
    rcases List.mem_append.mp hv with hv | hv
    · exact List.mem_append_left _ hv
    · exact List.mem_append_right _ (h.dead v hv)

theorem removable_step (w : World) (i : MInstr) (hr : i.removable = true) (st : St) :
    ∃ st1, stepM w i st = .next st1 ∧ st1.mem = st.mem ∧ st1.trace = st.trace := by
  obtain ⟨st1, h1, h2, h3, _⟩ := stepM_removable w i hr st
  exact ⟨st1, h1, h2, h3⟩

/-- ALIAS: the original run executes a no-op shift; its result is aliased to the resolved operand -/
theorem VInv.alias (h : VInv s st' st) (i : MInstr) (a : Val × Val) (ha : nopAlias s i = some a)
    (hfresh : ∀ r ∈ i.results, r ∉ s.seen) :
    i.removable = true ∧ ∀ s1, stepM w i st = .next s1 → VInv { s.define i with al := a :: s.al } st' s1 := by
  cases i with
  | extload => cases ha
  | base j =>
    cases j <;> try (cases ha; done)
    case bin op r ty x c =>
      simp only [nopAlias] at ha
      split at ha
      · rename_i hop
        cases hc : lookupConst s.consts c with
        | none => rw [hc] at ha; cases ha
        | some e =>
          obtain ⟨cty, cv⟩ := e
          rw [hc] at ha
          simp only at ha
          split at ha
          · rename_i hcond
            obtain ⟨hmod, hty, hnd⟩ := hcond
            simp only [Option.some.injEq] at ha
            subst ha
            refine ⟨rfl, ?_⟩
            intro s1 hstep
            have hstep0 := hstep
            obtain ⟨hframe, htys, hconsts⟩ := h.orig_step (.base (.bin op r ty x c)) s1 hstep
              hfresh
            have hrfresh : r ∉ s.seen := hfresh r (by simp [MInstr.results, Instr.results])
            obtain ⟨hxlt, hxseen⟩ := h.tys x ty hty
            obtain ⟨hcval, hcseen⟩ := h.consts c cty cv (lookupConst_mem _ _ _ hc)
            obtain ⟨hrx, hrnone, hrseen⟩ := h.res_facts x hxseen
            have hshift : isShift op := by
              rcases hop with h1 | h1 | h1
              · exact .inl h1
              · exact .inr (.inr h1)
              · exact .inr (.inl h1)
            -- the value of the shift in the original run
            have hval : s1.env r = st.env x := by
              simp only [stepM, execInstr, Ctl.next.injEq] at hstep
              subst hstep
              simp only [St.set, upd, if_true]
              rw [hcval]
              exact evalBin_shift_zero hshift ty hxlt (amount_zero cty ty cv hmod)
            have hfr2 : ∀ v : Nat, v ≠ r → s1.env v = st.env v := by
              intro v hv
              have := stepM_frame w (.base (.bin op r ty x c)) st v
                (by simp only [MInstr.results, Instr.results, List.mem_singleton]; exact hv)
              rw [hstep0] at this
              exact this
            have hmem : s1.mem = st.mem := by
              simp only [stepM, execInstr, Ctl.next.injEq] at hstep; subst hstep; rfl
            have htr : s1.trace = st.trace := by
              simp only [stepM, execInstr, Ctl.next.injEq] at hstep; subst hstep; rfl
            have hne : res s.al x ≠ r := fun e => hrfresh (e ▸ hrseen)
            refine ⟨by rw [hmem]; exact h.mem, by rw [htr]; exact h.tr, ?_, ?_, htys, hconsts, ?_⟩
            · intro v hd hg
              simp only [aliasGet] at hg
              split at hg
              · cases hg
              · rename_i hvr
                rw [hfr2 v (fun e => hvr e.symm)]
                exact h.agree v hd hg
            · intro k y hm
              rcases List.mem_cons.mp hm with heq | hm
              · simp only [Prod.mk.injEq] at heq
                obtain ⟨rfl, rfl⟩ := heq
                refine ⟨by rw [hval, hfr2 _ hne, hrx], hnd, ?_, List.mem_append_left _ (by simp [MInstr.results, Instr.results]),
                  List.mem_append_right _ hrseen⟩
                simp only [aliasGet, if_neg (Ne.symm hne)]
                exact hrnone
              · obtain ⟨e1, e2, e3, e4, e5⟩ := h.al k y hm
                refine ⟨by rw [hframe k e4, hframe y e5]; exact e1, e2, ?_, List.mem_append_right _ e4,
                  List.mem_append_right _ e5⟩
                have hyr : r ≠ y := fun e => hrfresh (e ▸ e5)
                simp only [aliasGet, if_neg hyr]
                exact e3
            · intro v hv
              exact List.mem_append_right _ (h.dead v hv)
          · cases ha
      · cases ha

/-! ### the induction -/

/-- final outcomes: same payload, same memory, same trace -/
def FRel : Ctl → Ctl → Prop
  | .next s', .next s => s'.mem = s.mem ∧ s'.trace = s.trace
  | .goto b' a' s', .goto b a s => b' = b ∧ a' = a ∧ s'.mem = s.mem ∧ s'.trace = s.trace
  | .ret vs' s', .ret vs s => vs' = vs ∧ s'.mem = s.mem ∧ s'.trace = s.trace
  | .trap c' s', .trap c s => c' = c ∧ s'.mem = s.mem ∧ s'.trace = s.trace
  | _, _ => False

def ORel2 (r' r : Option Ctl × List Acc) : Prop :=
  r'.2.Sublist r.2 ∧
  match r'.1, r.1 with
  | none, none => True
  | some c', some c => FRel c' c
  | _, _ => False

theorem mapOperands_operands (g : Val → Val) (i : MInstr) : (i.mapOperands g).operands = i.operands.map g := by
  cases i with
  | extload => rfl
  | base j => cases j <;> simp [MInstr.mapOperands, MInstr.operands, Instr.mapOperands, Instr.operands]

theorem opt_sound (w : World) : ∀ (is js : List MInstr) (s : VSt) (st' st : St) (log' log : List Acc),
    optOK s is js = true → VInv s st' st → log'.Sublist log →
    ORel2 (execBodyL w js st' log') (execBodyL w is st log) := by
  intro is
  induction is with
  | nil =>
    intro js s st' st log' log hok hI hlog
    cases js with
    | nil => exact ⟨hlog, trivial⟩
    | cons j js => simp [optOK] at hok
  | cons i is ih =>
    intro js s st' st log' log hok hI hlog
    simp only [optOK, Bool.and_eq_true] at hok
    obtain ⟨hfr, hrest⟩ := hok
    have hfresh : ∀ r ∈ i.results, r ∉ s.seen := by
      intro r hr
      have := List.all_eq_true.mp hfr r hr
      simpa using this
    -- the original run alone executes `i` (alias or delete)
    have hskip : ∀ js, (match nopAlias s i with
          | some a => optOK { s.define i with al := a :: s.al } is js
          | none => i.removable && optOK { s.define i with dead := i.results ++ s.dead } is js) = true →
        ORel2 (execBodyL w js st' log') (execBodyL w (i :: is) st log) := by
      intro js h
      cases ha : nopAlias s i with
      | some a =>
        rw [ha] at h
        obtain ⟨hrem, hal⟩ := hI.alias (w := w) i a ha hfresh
        obtain ⟨st1, hs, _, _⟩ := removable_step w i hrem st
        simp only [execBodyL, hs]
        exact ih js _ st' st1 log' _ h (hal st1 hs) (hlog.trans (List.sublist_append_left _ _))
      | none =>
        rw [ha] at h
        simp only [Bool.and_eq_true] at h
        obtain ⟨st1, hs, hm1, ht1⟩ := removable_step w i h.1 st
        simp only [execBodyL, hs]
        exact ih js _ st' st1 log' _ h.2 (hI.delete i st1 hs hm1 ht1 hfresh)
          (hlog.trans (List.sublist_append_left _ _))
    cases js with
    | nil => exact hskip [] hrest
    | cons j js =>
      simp only at hrest
      split at hrest
      · rename_i hcond
        obtain ⟨rfl, hall⟩ := hcond
        have hops : ∀ o ∈ i.operands, st'.env (res s.al o) = st.env o := by
          intro o ho
          apply hI.operand
          have hmem : res s.al o ∈ (i.mapOperands (res s.al)).operands := by
            rw [mapOperands_operands]; exact List.mem_map.mpr ⟨o, ho, rfl⟩
          have := List.all_eq_true.mp hall _ hmem
          simpa using this
        obtain ⟨hc, hacc⟩ := stepM_congr_map w (res s.al) i st' st hI.mem hI.tr hops
        simp only [execBodyL]
        rw [hacc]
        have hlog2 : (log' ++ instrAcc st.env i).Sublist (log ++ instrAcc st.env i) :=
          List.Sublist.append hlog (List.Sublist.refl _)
        cases hs : stepM w i st with
        | next s1 =>
          cases hs' : stepM w (i.mapOperands (res s.al)) st' with
          | next s1' =>
            rw [hs, hs'] at hc
            exact ih js _ s1' s1 _ _ hrest (hI.keep i s1' s1 hs hc hfresh) hlog2
          | goto _ _ _ => rw [hs, hs'] at hc; exact absurd hc id
          | ret _ _ => rw [hs, hs'] at hc; exact absurd hc id
          | trap _ _ => rw [hs, hs'] at hc; exact absurd hc id
        | goto b a s1 =>
          cases hs' : stepM w (i.mapOperands (res s.al)) st' with
          | goto b' a' s1' => rw [hs, hs'] at hc; exact ⟨hlog2, hc⟩
          | next _ => rw [hs, hs'] at hc; exact absurd hc id
          | ret _ _ => rw [hs, hs'] at hc; exact absurd hc id
          | trap _ _ => rw [hs, hs'] at hc; exact absurd hc id
        | ret vs s1 =>
          cases hs' : stepM w (i.mapOperands (res s.al)) st' with
          | ret vs' s1' => rw [hs, hs'] at hc; exact ⟨hlog2, hc⟩
          | next _ => rw [hs, hs'] at hc; exact absurd hc id
          | goto _ _ _ => rw [hs, hs'] at hc; exact absurd hc id
          | trap _ _ => rw [hs, hs'] at hc; exact absurd hc id
        | trap c s1 =>
          cases hs' : stepM w (i.mapOperands (res s.al)) st' with
          | trap c' s1' => rw [hs, hs'] at hc; exact ⟨hlog2, hc⟩
          | next _ => rw [hs, hs'] at hc; exact absurd hc id
          | goto _ _ _ => rw [hs, hs'] at hc; exact absurd hc id
          | ret _ _ => rw [hs, hs'] at hc; exact absurd hc id
      · exact hskip (j :: js) hrest

theorem bindVals_typed_seen : ∀ (ps : List (Val × Ty)) (vs : List Nat) (e : Val → Nat),
    (ps.map (·.1)).Nodup → ∀ v t, (v, t) ∈ ps → bindVals e ps vs v < 2 ^ t.bits := by
  intro ps
  induction ps with
  | nil => intro vs e _ v t h; cases h
  | cons p ps ih =>
    intro vs e hnd v t hm
    obtain ⟨r, ty⟩ := p
    simp only [List.map_cons, List.nodup_cons] at hnd
    simp only [bindVals]
    rcases List.mem_cons.mp hm with heq | hm
    · simp only [Prod.mk.injEq] at heq
      obtain ⟨rfl, rfl⟩ := heq
      rw [bindVals_frame _ _ _ _ hnd.1]
      simp only [upd, if_true]
      exact norm_lt _ _
    · exact ih _ _ hnd.2 v t hm

/-- whole functions: a pair accepted by `optValid` has the same outcome; the accesses of the second are among those
of the first -/
theorem opt_validated (w : World) (g g' : MFunc) (hv : optValid g g' = true) (args : List Nat) (mem0 : Mem) :
    (runM w g' args mem0).1 = (runM w g args mem0).1 ∧ (runM w g' args mem0).2.Sublist (runM w g args mem0).2 := by
  simp only [optValid, Bool.and_eq_true, beq_iff_eq, decide_eq_true_eq] at hv
  obtain ⟨⟨hp, hnd⟩, hok⟩ := hv
  simp only [runM, ← hp]
  split
  · exact ⟨rfl, List.Sublist.refl _⟩
  · let st0 : St := { St.init with env := bindVals St.init.env g.params args, mem := mem0 }
    have hI : VInv (VSt.init g.params) st0 st0 := by
      refine ⟨rfl, rfl, fun _ _ _ => rfl, ?_, ?_, ?_, ?_⟩
      · intro k x hm; cases hm
      · intro v t hm
        exact ⟨bindVals_typed_seen g.params args _ hnd v t hm, List.mem_map.mpr ⟨(v, t), hm, rfl⟩⟩
      · intro v cty c hm; cases hm
      · intro v hm; cases hm
    have h := opt_sound w g.instrs g'.instrs _ st0 st0 [] [] hok hI (List.Sublist.refl _)
    obtain ⟨hsub, hrel⟩ := h
    show ((match execBodyL w g'.instrs st0 [] with
        | (some (.ret vs st'), log) => (Outcome.values vs st'.mem st'.trace, log)
        | (some (.trap c st'), log) => (Outcome.trap c st'.mem st'.trace, log)
        | (_, log) => (Outcome.error, log)).1 = _) ∧ _
    generalize execBodyL w g'.instrs st0 [] = r' at hsub hrel
    generalize execBodyL w g.instrs st0 [] = r at hsub hrel
    obtain ⟨o', l'⟩ := r'
    obtain ⟨o, l⟩ := r
    simp only at hsub hrel ⊢
    cases o' with
    | none =>
      cases o with
      | none => exact ⟨rfl, hsub⟩
      | some c => exact absurd hrel id
    | some c' =>
      cases o with
      | none => exact absurd hrel id
      | some c =>
        cases c' <;> cases c <;> simp only [FRel] at hrel
        · exact ⟨rfl, hsub⟩
        · exact ⟨rfl, hsub⟩
        · obtain ⟨rfl, hm, ht⟩ := hrel
          exact ⟨by dsimp only; rw [hm, ht], hsub⟩
        · obtain ⟨rfl, hm, ht⟩ := hrel
          exact ⟨by dsimp only; rw [hm, ht], hsub⟩

end Wz.Proofs.FrontMem
