import Wz.Proofs.C01_SsaPass_PhiA

/-! Removing one redundant block parameter (`removeParam`) preserves the semantics of a well-formed function. -/
namespace Wz.Model.SsaPass

set_option linter.unusedSectionVars false

/-- every (resolved) incoming value of the parameter is the parameter itself or the unique value -/
def Redundant (f : Func) (b : BlockId) (idx : Nat) (p u : Val) : Prop :=
  ∀ a ∈ f.branchArgs b idx, a = p ∨ a = res f.alias u

theorem mem_branchArgs {f : Func} {b : BlockId} {idx : Nat} {i : Instr} (hi : i ∈ f.allInstrs) {as : List Val}
    (hbr : i.branch? = some (b, as)) {a : Val} (ha : as[idx]? = some a) : res f.alias a ∈ f.branchArgs b idx := by
  simp only [Func.branchArgs, List.mem_filterMap]
  exact ⟨i, hi, by simp [hbr, ha]⟩

theorem branch_cases {i : Instr} {b : BlockId} {as : List Val} (h : i.branch? = some (b, as)) :
    i = .jump b as ∨ (∃ cv, i = .brz cv b as) ∨ (∃ cv, i = .brnz cv b as) := by
  cases i <;> simp only [Instr.branch?] at h <;> cases h
  · exact Or.inl rfl
  · exact Or.inr (Or.inl ⟨_, rfl⟩)
  · exact Or.inr (Or.inr ⟨_, rfl⟩)

theorem branch_args_operands {i : Instr} {b : BlockId} {as : List Val} (h : i.branch? = some (b, as)) :
    ∀ a ∈ as, a ∈ i.operands := by
  intro a ha
  rcases branch_cases h with h | ⟨cv, h⟩ | ⟨cv, h⟩ <;> subst h <;> simp [Instr.operands, ha]

theorem branch_results {i : Instr} {b : BlockId} {as : List Val} (h : i.branch? = some (b, as)) : i.results = [] := by
  rcases branch_cases h with h | ⟨cv, h⟩ | ⟨cv, h⟩ <;> subst h <;> rfl

theorem sublist_flatMap {α β} {g g' : α → List β} (l : List α) (h : ∀ a ∈ l, (g' a).Sublist (g a)) :
    (l.flatMap g').Sublist (l.flatMap g) := by
  induction l with
  | nil => exact List.Sublist.refl _
  | cons a l ih =>
    simp only [List.flatMap_cons]
    exact List.Sublist.append (h a (List.mem_cons_self ..)) (ih (fun x hx => h x (List.mem_cons_of_mem _ hx)))

/-- an element that disappears when one index is erased sits at that index -/
theorem getElem?_of_mem_not_mem_eraseIdx {α} {l : List α} {k : Nat} {x : α} (hx : x ∈ l) (hn : x ∉ l.eraseIdx k) :
    l[k]? = some x := by
  induction l generalizing k with
  | nil => cases hx
  | cons a l ih =>
    cases k with
    | zero =>
      simp only [List.eraseIdx_cons_zero] at hn
      cases hx with
      | head => rfl
      | tail _ hx => exact absurd hx hn
    | succ k =>
      simp only [List.eraseIdx_cons_succ, List.mem_cons, not_or] at hn
      cases hx with
      | head => exact absurd rfl hn.1
      | tail _ hx => simpa using ih hx hn.2

theorem block_eq_of_id {f : Func} (hu : UniqueIds f) {B C : Block} (hB : B ∈ f.blocks) (hC : C ∈ f.blocks)
    (h : B.id = C.id) : B = C := by
  have h1 := find_of_nodup_ids f.blocks hu hB
  have h2 := find_of_nodup_ids f.blocks hu hC
  rw [h] at h1; rw [h1] at h2; exact Option.some.inj h2

theorem dropArg_branch_target (b : BlockId) (idx : Nat) (i : Instr) :
    (i.dropArg b idx).branch?.map (·.1) = i.branch?.map (·.1) := by
  rw [dropArg_branch]
  cases i.branch? <;> rfl

theorem dropArg_constNoKey (al : List (Val × Val)) (b : BlockId) (idx : Nat) (i : Instr)
    (h : ConstNoKey al i) : ConstNoKey al (i.dropArg b idx) := by
  cases i <;> try exact h
  case jump t as => by_cases ht : t = b <;> simp [Instr.dropArg, Instr.branch?, Instr.setBranchArgs, ConstNoKey, ht]
  case brz cv t as => by_cases ht : t = b <;> simp [Instr.dropArg, Instr.branch?, Instr.setBranchArgs, ConstNoKey, ht]
  case brnz cv t as => by_cases ht : t = b <;> simp [Instr.dropArg, Instr.branch?, Instr.setBranchArgs, ConstNoKey, ht]

section step

variable {c : Cert} {f : Func} (hwf : WF c f) {b : BlockId} {idx : Nat} {p u : Val} {pty : Ty} {B0 : Block}
  (hB0 : f.findBlock b = some B0) (hbne : b ≠ f.entry) (hp : B0.params[idx]? = some (p, pty))
  (hred : Redundant f b idx p u)

include hwf hB0 hbne hp hred

private theorem B0_facts : B0 ∈ f.blocks ∧ B0.id = b ∧ B0.invalid = false ∧ BlockOK c f B0 := by
  obtain ⟨h1, h2, h3⟩ := findBlock_mem hB0
  exact ⟨h1, h2, h3, hwf.blocks B0 h1 h3⟩

private theorem p_mem : (p, pty) ∈ B0.params := List.mem_of_getElem? hp

private theorem p_facts : p ∈ c.pdefs b ∧ c.cty p = pty ∧ aliasGet f.alias p = none ∧ c.rank p = c.bidx b * c.M := by
  obtain ⟨_, hid, _, hok⟩ := B0_facts hwf hB0 hbne hp hred
  have := hok.1 (p, pty) (p_mem hwf hB0 hbne hp hred)
  rw [hid] at this
  refine ⟨this.1, this.2.1, this.2.2, ?_⟩
  have h2 := hok.2.1 p (hid ▸ this.1)
  rw [hid] at h2; exact h2

/-- what a branch to `b` in a valid block passes for the parameter -/
private theorem branch_arg {B : Block} (hB : B ∈ f.blocks) {V : List Val} {i : Instr} (hiB : i ∈ B.instrs)
    (hok : InstrOK c f B V i) {as : List Val} (hbr : i.branch? = some (b, as)) :
    as.length = B0.params.length ∧ ∃ a, as[idx]? = some a ∧ (res f.alias a = p ∨ res f.alias a = res f.alias u) ∧
      (∃ v ∈ V, res f.alias a = res f.alias v) ∧ c.cty a = pty := by
  have h6 := hok.2.2.2.2.2
  rw [hbr] at h6
  simp only [hB0] at h6
  obtain ⟨hlen, _, htys, _⟩ := h6
  have hidx : idx < as.length := by
    rw [hlen]
    cases hlt : decide (idx < B0.params.length) with
    | true => simpa using hlt
    | false =>
      have : B0.params.length ≤ idx := by simpa using hlt
      rw [List.getElem?_eq_none this] at hp; cases hp
  have ha : as[idx]? = some as[idx] := List.getElem?_eq_getElem hidx
  refine ⟨hlen, as[idx], ha, ?_, ?_, ?_⟩
  · exact hred _ (mem_branchArgs (mem_allInstrs.mpr ⟨B, hB, hiB⟩) hbr ha)
  · exact hok.1 _ (branch_args_operands hbr _ (List.mem_of_getElem? ha))
  · have hz : (as[idx], (p, pty)) ∈ as.zip B0.params :=
      List.mem_of_getElem? (List.getElem?_zip_eq_some.mpr ⟨ha, hp⟩)
    exact htys _ hz

/-- the unique value lies below the parameter -/
private theorem rank_t : c.rank (res f.alias u) < c.rank p ∧ c.cty (res f.alias u) = pty := by
  obtain ⟨hB0m, hid, hB0v, hok0⟩ := B0_facts hwf hB0 hbne hp hred
  obtain ⟨_, _, _, hrkp⟩ := p_facts hwf hB0 hbne hp hred
  obtain ⟨P, hP, hPv, hlt, i, hiP, hbr⟩ := hok0.2.2.2.2.2 (by rw [hid]; exact hbne)
  rw [hid] at hlt hbr
  cases hbr' : i.branch? with
  | none => rw [hbr'] at hbr; cases hbr
  | some q =>
    obtain ⟨t', as⟩ := q
    rw [hbr'] at hbr
    simp only [Option.map_some, Option.some.injEq] at hbr
    subst hbr
    obtain ⟨pre, post, hsplit⟩ := List.append_of_mem hiP
    have hPok := hwf.blocks P hP hPv
    have hbody := hPok.2.2.2.2.1
    rw [hsplit] at hbody
    have hok := BodyOK_split pre _ i post hbody
    obtain ⟨_, a, ha, hcase, ⟨v, hv, hav⟩, hcty⟩ := branch_arg hwf hB0 hbne hp hred hP hiP hok hbr'
    have hvb := avail_bounded hwf.Mpos hPok pre (i :: post) hsplit v hv
    have hle : (c.bidx P.id + 1) * c.M ≤ c.bidx t' * c.M := Nat.mul_le_mul_right _ hlt
    have hrv := rank_res_le hwf.alRank v
    have hne : res f.alias a ≠ p := by
      intro h; rw [hav] at h; rw [h] at hrv; omega
    rcases hcase with h | h
    · exact absurd h hne
    · constructor
      · rw [← h, hav]; omega
      · rw [← h, cty_res hwf.alTy a]; exact hcty

private theorem t_ne : res f.alias u ≠ p := by
  intro h
  have := (rank_t hwf hB0 hbne hp hred).1
  rw [h] at this; omega

private theorem res_new (v : Val) :
    res (aliasInsert f.alias p u) v = if res f.alias v = p then res f.alias u else res f.alias v :=
  res_aliasInsert p u (t_ne hwf hB0 hbne hp hred) (p_facts hwf hB0 hbne hp hred).2.2.1 v

private theorem alRank_new : ∀ e ∈ aliasInsert f.alias p u, c.rank e.2 < c.rank e.1 := by
  intro e he
  have hrk := (rank_t hwf hB0 hbne hp hred).1
  rcases mem_aliasInsert (t_ne hwf hB0 hbne hp hred) (p_facts hwf hB0 hbne hp hred).2.2.1 he with
    h | ⟨e0, he0, hk, ht | ⟨ht1, ht2⟩⟩
  · subst h; exact hrk
  · rw [hk, ht]; exact hwf.alRank e0 he0
  · have := hwf.alRank e0 he0
    rw [hk, ht2]; rw [ht1] at this; omega

/-- `p` is a parameter, not the result of an instruction -/
private theorem p_not_result {i : Instr} (hi : i ∈ f.allInstrs) : p ∉ i.results := by
  obtain ⟨hB0m, _, _, _⟩ := B0_facts hwf hB0 hbne hp hred
  exact param_not_result hwf.uniq hB0m (List.mem_map_of_mem (p_mem hwf hB0 hbne hp hred)) hi

/-- The invariant after one instruction that both runs execute. -/
private theorem inv_next {B : Block} {V : List Val} {i : Instr} (hi : i ∈ f.allInstrs)
    (hok : InstrOK c f B V i) {st st' st1 st1' : St}
    (hinv : Inv c f (aliasInsert f.alias p u) (· ≠ p) V st st')
    (w : World) (ρ ρ' : Val → Nat)
    (hex : execInstr w ρ i st = .next st1) (hex' : execInstr w ρ' i st' = .next st1')
    (hrel : StRel (· ≠ p) st1 st1') :
    Inv c f (aliasInsert f.alias p u) (· ≠ p) (V ++ i.results) st1 st1' := by
  have hR' := alRank_new hwf hB0 hbne hp hred
  have hfr : ∀ v, v ∉ i.results → st1.env v = st.env v := by
    intro v hv
    have := exec_frame w ρ i st v hv
    rw [hex] at this; exact this
  have hfr' : ∀ v, v ∉ i.results → st1'.env v = st'.env v := by
    intro v hv
    have := exec_frame w ρ' i st' v hv
    rw [hex'] at this; exact this
  have hty : Typed c.cty st1.env := by
    have := exec_typed w ρ i st hinv.ty hok.2.2.2.1
    rw [hex] at this; exact this
  obtain ⟨hJ, hK⟩ := hinv.step_old hwf.alRank hR' i.results (fun r0 hr0 => (hok.2.2.1 r0 hr0).1) hfr hfr'
  refine ⟨hrel, ?_, hty, ?_⟩
  · intro v hv
    rcases List.mem_append.mp hv with hv | hv
    · exact hJ v hv
    · have hvp : v ≠ p := fun h => p_not_result hwf hB0 hbne hp hred hi (h ▸ hv)
      rcases hok.2.1 v hv with hself | ⟨v', hv', hvv'⟩
      · rw [res_new hwf hB0 hbne hp hred, hself, if_neg hvp]
        exact (hrel.env v hvp).symm
      · rw [ext_insert p u v v' hvv', hvv']
        exact hJ v' hv'
  · intro v hv r0 ty0 k0 hc hr0
    rcases List.mem_append.mp hv with hv | hv
    · exact hK v hv r0 ty0 k0 hc hr0
    · rcases hok.2.1 v hv with hself | ⟨v', hv', hvv'⟩
      · rw [hself] at hr0
        subst hr0
        have hii : i = .iconst v ty0 k0 := instr_unique hwf.uniq hi hc hv (by simp [Instr.results])
        subst hii
        simp only [execInstr, Ctl.next.injEq] at hex
        subst hex
        simp [St.set, upd]
      · rw [hvv'] at hr0
        exact hK v' hv' r0 ty0 k0 hc hr0

/-- what must hold when control enters a block -/
private def ER (c : Cert) (f : Func) (b : BlockId) (idx : Nat) (p u : Val) (B0 : Block)
    (b' : BlockId) (as as' : List Nat) (st st' : St) : Prop :=
  ∃ V1, Inv c f (aliasInsert f.alias p u) (· ≠ p) V1 st st' ∧ (∀ v ∈ c.avail b', v ∈ V1) ∧
    (∀ T, f.findBlock b' = some T → ∀ q ∈ c.pdefs b', q ∉ T.params.map (·.1) →
      ∃ v ∈ V1, res f.alias q = res f.alias v) ∧
    (b' ≠ b → as' = as) ∧
    (b' = b → as' = as.eraseIdx idx ∧ as.length = B0.params.length ∧
      ∀ val, as[idx]? = some val → st'.env (res f.alias u) = val ∧ val < 2 ^ (c.cty p).bits)

/-- a taken branch to `b`: the relation at the entry of `b` -/
private theorem er_branch {B : Block} (hB : B ∈ f.blocks) {V : List Val} {i : Instr} (hiB : i ∈ B.instrs)
    (hok : InstrOK c f B V i) {as : List Val} (hbr : i.branch? = some (b, as)) {st st' : St}
    (hinv : Inv c f (aliasInsert f.alias p u) (· ≠ p) V st st') :
    ER c f b idx p u B0 b (as.map (fun v => st.env (res f.alias v)))
      ((as.eraseIdx idx).map (fun v => st'.env (res (aliasInsert f.alias p u) v))) st st' := by
  obtain ⟨hlen, a, ha, hcase, ⟨v, hv, hav⟩, hcty⟩ := branch_arg hwf hB0 hbne hp hred hB hiB hok hbr
  have h6 := hok.2.2.2.2.2
  rw [hbr] at h6
  simp only [hB0] at h6
  refine ⟨V, hinv, h6.2.1, ?_, fun h => absurd rfl h, fun _ => ⟨?_, by simpa using hlen, ?_⟩⟩
  · intro T hT q hq hqn
    rw [hB0] at hT; cases hT
    exact h6.2.2.2 q hq hqn
  · rw [map_eraseIdx]
    congr 1
    apply List.map_congr_left
    intro o ho
    apply hinv.read (ext_insert p u)
    exact hok.1 _ (branch_args_operands hbr _ ho)
  · intro val hval
    rw [List.getElem?_map, ha] at hval
    simp only [Option.map_some, Option.some.injEq] at hval
    subst hval
    constructor
    · have hJ := hinv.J v hv
      rw [res_new hwf hB0 hbne hp hred] at hJ
      rw [hav]
      rcases hcase with h | h
      · rw [hav] at h; rw [h] at hJ ⊢; simpa using hJ
      · rw [hav] at h
        rw [h, if_neg (t_ne hwf hB0 hbne hp hred)] at hJ
        rw [h]; exact hJ
    · have := hinv.ty (res f.alias a)
      rw [cty_res hwf.alTy a, hcty] at this
      rw [(p_facts hwf hB0 hbne hp hred).2.1]; exact this

private theorem body_sim (w : World) {B : Block} (hB : B ∈ f.blocks) (hBv : B.invalid = false) :
    ∀ (is pre : List Instr) (st st' : St), B.instrs = pre ++ is →
      Inv c f (aliasInsert f.alias p u) (· ≠ p)
        (c.avail B.id ++ c.pdefs B.id ++ pre.flatMap (·.results)) st st' →
      BodyOut (ER c f b idx p u B0) (execBody w f.alias is st)
        (execBody w (aliasInsert f.alias p u) (is.map (Instr.dropArg b idx)) st') := by
  have hBok := hwf.blocks B hB hBv
  intro is
  induction is with
  | nil => intro pre st st' _ _; exact .none
  | cons i is ih =>
    intro pre st st' hsplit hinv
    have hbody := hBok.2.2.2.2.1
    rw [hsplit] at hbody
    have hok := BodyOK_split pre _ i is hbody
    have hiB : i ∈ B.instrs := by rw [hsplit]; simp
    have hi : i ∈ f.allInstrs := mem_allInstrs.mpr ⟨B, hB, hiB⟩
    have hread : ∀ o ∈ i.operands,
        (fun v => st.env (res f.alias v)) o = (fun v => st'.env (res (aliasInsert f.alias p u) v)) o :=
      fun o ho => (hinv.read (ext_insert p u) (hok.1 o ho)).symm
    have hnext : ∀ st1 st1', Inv c f (aliasInsert f.alias p u) (· ≠ p)
        (c.avail B.id ++ c.pdefs B.id ++ pre.flatMap (·.results) ++ i.results) st1 st1' →
        BodyOut (ER c f b idx p u B0) (execBody w f.alias is st1)
          (execBody w (aliasInsert f.alias p u) (is.map (Instr.dropArg b idx)) st1') := by
      intro st1 st1' h
      apply ih (pre ++ [i]) st1 st1' (by rw [hsplit]; simp)
      simpa [List.flatMap_append, List.append_assoc] using h
    simp only [List.map_cons, execBody]
    by_cases hbr : ∃ as, i.branch? = some (b, as)
    · -- a branch to `b`: the argument is dropped
      obtain ⟨as, hbr⟩ := hbr
      have her := er_branch hwf hB0 hbne hp hred hB hiB hok hbr hinv
      have hnx : BodyOut (ER c f b idx p u B0) (execBody w f.alias is st)
          (execBody w (aliasInsert f.alias p u) (is.map (Instr.dropArg b idx)) st') := by
        apply hnext st st'
        rw [branch_results hbr]; simpa using hinv
      rcases branch_cases hbr with h | ⟨cv, h⟩ | ⟨cv, h⟩
      · subst h
        simp only [Instr.dropArg, Instr.branch?, if_true, Instr.setBranchArgs, execInstr]
        exact .goto her
      · subst h
        have hc := hread cv (by simp [Instr.operands])
        simp only at hc
        simp only [Instr.dropArg, Instr.branch?, if_true, Instr.setBranchArgs, execInstr, hc]
        by_cases hz : st'.env (res (aliasInsert f.alias p u) cv) = 0
        · simp only [if_pos hz]; exact .goto her
        · simp only [if_neg hz]; exact hnx
      · subst h
        have hc := hread cv (by simp [Instr.operands])
        simp only at hc
        simp only [Instr.dropArg, Instr.branch?, if_true, Instr.setBranchArgs, execInstr, hc]
        by_cases hz : st'.env (res (aliasInsert f.alias p u) cv) ≠ 0
        · simp only [if_pos hz]; exact .goto her
        · simp only [if_neg hz]; exact hnx
    · -- any other instruction is the same in both functions
      have hsame : i.dropArg b idx = i := dropArg_of_not_branch (fun as h => hbr ⟨as, h⟩)
      rw [hsame]
      have hsim := execInstr_sim w (· ≠ p) i hinv.rel hread
      cases hex : execInstr w (fun v => st.env (res f.alias v)) i st with
      | next st1 =>
        rw [hex] at hsim
        cases hex' : execInstr w (fun v => st'.env (res (aliasInsert f.alias p u) v)) i st' with
        | next st1' =>
          rw [hex'] at hsim
          cases hsim with
          | next hrel =>
            simp only []
            exact hnext st1 st1' (inv_next hwf hB0 hbne hp hred hi hok hinv w _ _ hex hex' hrel)
        | goto _ _ _ => rw [hex'] at hsim; cases hsim
        | ret _ _ => rw [hex'] at hsim; cases hsim
        | trap _ _ => rw [hex'] at hsim; cases hsim
      | goto b' args st1 =>
        rw [hex] at hsim
        obtain ⟨hst, as, hbr'⟩ := execInstr_goto_inv w _ i st hex
        subst hst
        have hb' : b' ≠ b := fun h => hbr ⟨as, h ▸ hbr'⟩
        cases hex' : execInstr w (fun v => st'.env (res (aliasInsert f.alias p u) v)) i st' with
        | goto b'' args' st1' =>
          rw [hex'] at hsim
          obtain ⟨hst', _, _⟩ := execInstr_goto_inv w _ i st' hex'
          subst hst'
          cases hsim with
          | goto _ _ hrel =>
            simp only []
            refine .goto ⟨_, hinv, ?_, ?_, fun _ => rfl, fun h => absurd h hb'⟩
            · have h6 := hok.2.2.2.2.2
              rw [hbr'] at h6
              simp only [] at h6
              split at h6
              · exact h6.2.1
              · exact h6.elim
            · intro T hT q hq hqn
              have h6 := hok.2.2.2.2.2
              rw [hbr'] at h6
              simp only [hT] at h6
              exact h6.2.2.2 q hq hqn
        | next _ => rw [hex'] at hsim; cases hsim
        | ret _ _ => rw [hex'] at hsim; cases hsim
        | trap _ _ => rw [hex'] at hsim; cases hsim
      | ret vs st1 =>
        rw [hex] at hsim
        cases hex' : execInstr w (fun v => st'.env (res (aliasInsert f.alias p u) v)) i st' with
        | ret vs' st1' =>
          rw [hex'] at hsim
          cases hsim with
          | ret _ hrel => exact .ret hrel.mem hrel.trace
        | next _ => rw [hex'] at hsim; cases hsim
        | goto _ _ _ => rw [hex'] at hsim; cases hsim
        | trap _ _ => rw [hex'] at hsim; cases hsim
      | trap code st1 =>
        rw [hex] at hsim
        cases hex' : execInstr w (fun v => st'.env (res (aliasInsert f.alias p u) v)) i st' with
        | trap code' st1' =>
          rw [hex'] at hsim
          cases hsim with
          | trap _ hrel => exact .trap hrel.mem hrel.trace
        | next _ => rw [hex'] at hsim; cases hsim
        | goto _ _ _ => rw [hex'] at hsim; cases hsim
        | ret _ _ => rw [hex'] at hsim; cases hsim

/-- entering a block: the invariant at the end of the predecessor gives the invariant at the start of the block -/
private theorem entry_inv {b' : BlockId} {as as' : List Nat} {st st' : St} {T : Block}
    (hT : f.findBlock b' = some T) (her : ER c f b idx p u B0 b' as as' st st') :
    Inv c f (aliasInsert f.alias p u) (· ≠ p) (c.avail T.id ++ c.pdefs T.id)
      { st with env := bindVals st.env T.params as }
      { st' with env := bindVals st'.env (rpBlock b idx T).params as' } := by
  obtain ⟨hTm, hTid, hTv⟩ := findBlock_mem hT
  subst hTid
  obtain ⟨V1, hinv, hav, hgh, hne, heq⟩ := her
  have hR' := alRank_new hwf hB0 hbne hp hred
  obtain ⟨hpr, hpd, hghk, havr, _, _⟩ := hwf.blocks T hTm hTv
  obtain ⟨hB0m, hB0id, hB0v, _⟩ := B0_facts hwf hB0 hbne hp hred
  obtain ⟨hppd, hpcty, hpkey, hprk⟩ := p_facts hwf hB0 hbne hp hred
  have htne := t_ne hwf hB0 hbne hp hred
  have htrk := (rank_t hwf hB0 hbne hp hred).1
  -- the parameters of the new block are among those of the old one
  have hsubp : ∀ v, v ∈ (rpBlock b idx T).params.map (·.1) → v ∈ T.params.map (·.1) := by
    intro v hv
    simp only [rpBlock] at hv
    split at hv
    · rw [map_eraseIdx] at hv; exact mem_of_mem_eraseIdx hv
    · exact hv
  have hfr : ∀ v, v ∉ T.params.map (·.1) → bindVals st.env T.params as v = st.env v :=
    fun v hv => bindVals_frame _ _ _ _ hv
  have hfr' : ∀ v, v ∉ T.params.map (·.1) → bindVals st'.env (rpBlock b idx T).params as' v = st'.env v :=
    fun v hv => bindVals_frame _ _ _ _ (fun h => hv (hsubp v h))
  -- both runs bind the same values, except for `p`
  have hrel : ∀ v, v ≠ p → bindVals st.env T.params as v = bindVals st'.env (rpBlock b idx T).params as' v := by
    intro v hv
    by_cases hb : T.id = b
    · obtain ⟨has', _, _⟩ := heq hb
      have hTB : T = B0 := by
        rw [hb] at hT; rw [hT] at hB0; exact Option.some.inj hB0
      subst hTB
      have : (rpBlock b idx T).params = T.params.eraseIdx idx := by simp [rpBlock, hb, hTv]
      rw [this, has', bindVals_eraseIdx T.params idx as st'.env v (fun q hq => by rw [hp] at hq; cases hq; exact hv)]
      exact bindVals_agree _ _ hinv.rel.env v hv
    · have : (rpBlock b idx T).params = T.params := by simp [rpBlock, hb]
      rw [this, hne hb]
      exact bindVals_agree _ _ hinv.rel.env v hv
  have hprk' : ∀ q ∈ T.params.map (·.1), c.rank q = c.bidx T.id * c.M := by
    intro q hq
    obtain ⟨p', hp', hpe⟩ := List.mem_map.mp hq
    rw [← hpe]; exact hpd _ (hpr p' hp').1
  have hnp : ∀ x, c.rank x < c.bidx T.id * c.M → x ∉ T.params.map (·.1) := by
    intro x hx hmem
    have := hprk' x hmem; omega
  have hlow : ∀ (V' : List Val), (∀ v ∈ V', v ∈ V1) → (∀ v ∈ V', c.rank v < c.bidx T.id * c.M) →
      (∀ v ∈ V', bindVals st'.env (rpBlock b idx T).params as' (res (aliasInsert f.alias p u) v) =
          bindVals st.env T.params as (res f.alias v)) ∧
      (∀ v ∈ V', ∀ r0 ty0 k0, Instr.iconst r0 ty0 k0 ∈ f.allInstrs → res f.alias v = r0 →
          bindVals st.env T.params as r0 = norm ty0 k0) := by
    intro V' hsub hrk
    exact (hinv.mono hsub).step_old (st1 := { st with env := bindVals st.env T.params as })
      (st1' := { st' with env := bindVals st'.env (rpBlock b idx T).params as' }) hwf.alRank hR'
      (T.params.map (·.1)) (fun q hq v hv => by rw [hprk' q hq]; exact hrk v hv) hfr hfr'
  obtain ⟨hJa, hKa⟩ := hlow (c.avail T.id) hav havr
  refine ⟨⟨fun v hv => hrel v hv, hinv.rel.mem, hinv.rel.trace⟩, ?_,
    typed_bindVals _ _ hinv.ty (fun q hq => (hpr q hq).2.1), ?_⟩
  · intro v hv
    rcases List.mem_append.mp hv with hv | hv
    · exact hJa v hv
    · by_cases hpv : v ∈ T.params.map (·.1)
      · obtain ⟨p', hp', hpe⟩ := List.mem_map.mp hpv
        have hnk : aliasGet f.alias v = none := hpe ▸ (hpr p' hp').2.2
        show bindVals st'.env (rpBlock b idx T).params as' _ = bindVals st.env T.params as _
        rw [res_new hwf hB0 hbne hp hred, res_of_none hnk]
        by_cases hvp : v = p
        · -- the parameter that is removed: the new run reads the unique value
          subst hvp
          rw [if_pos rfl]
          have hTB : T = B0 := def_block_unique hwf.uniq hTm hB0m (List.mem_append_left _ hpv)
            (List.mem_append_left _ (List.mem_map_of_mem (p_mem hwf hB0 hbne hp hred)))
          subst hTB
          obtain ⟨_, hlen, hval⟩ := heq hB0id
          have hidx : idx < as.length := by
            rw [hlen]
            cases hlt : decide (idx < T.params.length) with
            | true => simpa using hlt
            | false =>
              have : T.params.length ≤ idx := by simpa using hlt
              rw [List.getElem?_eq_none this] at hp; cases hp
          obtain ⟨h1, h2⟩ := hval as[idx] (List.getElem?_eq_getElem hidx)
          rw [hfr' _ (hnp _ (by rw [← hB0id] at hprk; omega))]
          have := bindVals_at T.params idx as st.env (v, pty) (params_nodup hwf.uniq hTm) hp
          simp only at this
          rw [this, List.getElem?_eq_getElem hidx, Option.getD_some, h1]
          rw [hpcty] at h2
          exact (norm_of_lt h2).symm
        · rw [if_neg hvp]; exact (hrel v hvp).symm
      · -- a parameter removed earlier
        obtain ⟨v', hv', hvv'⟩ := hgh T hT v hv hpv
        have hk := hghk v hv hpv
        have hk' : aliasGet (aliasInsert f.alias p u) v ≠ none := aliasGet_insert_ne_none hk
        have hr1 := rank_res_lt_of_key hwf.alRank hk
        have hr2 := rank_res_lt_of_key hR' hk'
        rw [hpd v hv] at hr1 hr2
        show bindVals st'.env (rpBlock b idx T).params as' _ = bindVals st.env T.params as _
        rw [hfr' _ (hnp _ hr2), hfr _ (hnp _ hr1)]
        rw [ext_insert p u v v' hvv', hvv']
        exact hinv.J v' hv'
  · intro v hv r0 ty0 k0 hc hr0
    rcases List.mem_append.mp hv with hv | hv
    · exact hKa v hv r0 ty0 k0 hc hr0
    · by_cases hpv : v ∈ T.params.map (·.1)
      · obtain ⟨p', hp', hpe⟩ := List.mem_map.mp hpv
        have hnk : aliasGet f.alias v = none := hpe ▸ (hpr p' hp').2.2
        rw [res_of_none hnk] at hr0
        subst hr0
        exact absurd (by simp [Instr.results]) (param_not_result hwf.uniq hTm hpv hc)
      · obtain ⟨v', hv', hvv'⟩ := hgh T hT v hv hpv
        have hk := hghk v hv hpv
        have hr1 := rank_res_lt_of_key hwf.alRank hk
        rw [hpd v hv] at hr1
        show bindVals st.env T.params as _ = _
        rw [hfr _ (hnp _ (hr0 ▸ hr1))]
        rw [hvv'] at hr0
        exact hinv.K v' hv' r0 ty0 k0 hc hr0

/-- **Removing a redundant parameter preserves the semantics.** -/
theorem removeParam_run (w : World) (args : List Nat) (fuel : Nat) :
    run w (removeParam f b idx p u) args fuel = run w f args fuel := by
  simp only [run]
  symm
  rw [entry_removeParam]
  apply run_sim_driver w f (removeParam f b idx p u) (ER c f b idx p u B0)
  · intro b' as as' st st' her
    rw [findBlock_removeParam]
    cases hT : f.findBlock b' with
    | none => left; exact ⟨rfl, rfl⟩
    | some T =>
      right
      obtain ⟨hTm, hTid, hTv⟩ := findBlock_mem hT
      refine ⟨T, rpBlock b idx T, rfl, rfl, ?_, fun _ => ?_⟩
      · -- arities
        obtain ⟨_, _, _, _, hne, heq⟩ := her
        by_cases hb : b' = b
        · obtain ⟨has', hlen, _⟩ := heq hb
          have hTB : T = B0 := by
            rw [hb] at hT; rw [hT] at hB0; exact Option.some.inj hB0
          subst hTB
          have : (rpBlock b idx T).params = T.params.eraseIdx idx := by simp [rpBlock, hTid, hb, hTv]
          rw [this, has']
          constructor
          · intro h; exact length_eraseIdx_eq idx h
          · intro _; exact hlen.symm
        · have : (rpBlock b idx T).params = T.params := by simp [rpBlock, hTid, hb]
          rw [this, hne hb]
      · have hinv := entry_inv hwf hB0 hbne hp hred hT her
        have := body_sim hwf hB0 hbne hp hred w hTm hTv T.instrs [] _ _ rfl (by simpa using hinv)
        exact this
  · refine ⟨[], Inv.mk ⟨fun _ _ => rfl, rfl, rfl⟩ (fun v hv => by cases hv) ?_ (fun v hv => by cases hv), ?_, ?_,
      fun _ => rfl, fun h => absurd h.symm hbne⟩
    · intro v; exact Nat.two_pow_pos _
    · rw [hwf.entryAvail]; intro v hv; cases hv
    · intro T hT q hq hqn
      obtain ⟨hTm, hTid, _⟩ := findBlock_mem hT
      exact absurd (hwf.entryGhost T hTm hTid q hq) hqn

/-- the new parameters of a block -/
private theorem rp_params_of_ne {T : Block} (h : T.id ≠ b) : (rpBlock b idx T).params = T.params := by
  simp [rpBlock, h]

private theorem rp_params_B0 : (rpBlock b idx B0).params = B0.params.eraseIdx idx := by
  obtain ⟨_, hid, hv, _⟩ := B0_facts hwf hB0 hbne hp hred
  simp [rpBlock, hid, hv]

private theorem p_idx : (B0.params.map (·.1))[idx]? = some p := by
  rw [List.getElem?_map, hp]; rfl

/-- both values resolve to the unique value in the new table -/
private theorem res_new_of_case {a : Val} (h : res f.alias a = p ∨ res f.alias a = res f.alias u) :
    res (aliasInsert f.alias p u) a = res f.alias u := by
  rw [res_new hwf hB0 hbne hp hred]
  rcases h with h | h
  · rw [if_pos h]
  · rw [h, if_neg (t_ne hwf hB0 hbne hp hred)]

private theorem instrOK_rp {B : Block} (hB : B ∈ f.blocks) {V : List Val} {i : Instr} (hiB : i ∈ B.instrs)
    (hok : InstrOK c f B V i) : InstrOK c (removeParam f b idx p u) (rpBlock b idx B) V (i.dropArg b idx) := by
  have hi : i ∈ f.allInstrs := mem_allInstrs.mpr ⟨B, hB, hiB⟩
  obtain ⟨h1, h2, h3, h4, h5, h6⟩ := hok
  refine ⟨?_, ?_, ?_, ?_, ?_, ?_⟩
  · intro o ho
    obtain ⟨v, hv, hov⟩ := h1 o (dropArg_operands_sub b idx i o ho)
    exact ⟨v, hv, ext_insert p u o v hov⟩
  · intro r0 hr0
    rw [dropArg_results] at hr0
    rcases h2 r0 hr0 with h | ⟨v, hv, hrv⟩
    · left
      show res (aliasInsert f.alias p u) r0 = r0
      rw [res_new hwf hB0 hbne hp hred, h, if_neg (fun h' => p_not_result hwf hB0 hbne hp hred hi (by rw [← h']; exact hr0))]
    · exact Or.inr ⟨v, hv, ext_insert p u r0 v hrv⟩
  · rw [dropArg_results]; exact h3
  · rw [dropArg_typedResults]; exact h4
  · cases i <;> try trivial
    case jump t as => by_cases ht : t = b <;> simp [Instr.dropArg, Instr.branch?, Instr.setBranchArgs, ht]
    case brz cv t as => by_cases ht : t = b <;> simp [Instr.dropArg, Instr.branch?, Instr.setBranchArgs, ht]
    case brnz cv t as => by_cases ht : t = b <;> simp [Instr.dropArg, Instr.branch?, Instr.setBranchArgs, ht]
  · rw [dropArg_branch]
    cases hbr : i.branch? with
    | none => simp only [Option.map_none]
    | some q =>
      obtain ⟨t', as⟩ := q
      rw [hbr] at h6
      simp only [Option.map_some] at h6 ⊢
      rw [findBlock_removeParam]
      cases hT : f.findBlock t' with
      | none => rw [hT] at h6; exact h6.elim
      | some T =>
        rw [hT] at h6
        simp only [Option.map_some] at h6 ⊢
        obtain ⟨hlen, hav, htys, hgh⟩ := h6
        obtain ⟨hTm, hTid, hTv⟩ := findBlock_mem hT
        by_cases hb : t' = b
        · subst hb
          have hTB : T = B0 := by rw [hT] at hB0; exact Option.some.inj hB0
          subst hTB
          rw [rp_params_B0 hwf hB0 hbne hp hred]
          simp only [if_true]
          refine ⟨length_eraseIdx_eq idx hlen, hav, ?_, ?_⟩
          · intro pr hpr
            rw [zip_eraseIdx] at hpr
            exact htys pr (mem_of_mem_eraseIdx hpr)
          · intro q hq hqn
            show ∃ v ∈ V, res (aliasInsert f.alias p u) q = res (aliasInsert f.alias p u) v
            by_cases hqp : q ∈ T.params.map (·.1)
            · -- the parameter that is removed now
              rw [map_eraseIdx] at hqn
              have := getElem?_of_mem_not_mem_eraseIdx hqp hqn
              rw [p_idx hwf hB0 hbne hp hred] at this
              cases this
              obtain ⟨_, a, ha, hcase, ⟨v, hv, hav'⟩, _⟩ := branch_arg hwf hB0 hbne hp hred hB hiB
                ⟨h1, h2, h3, h4, h5, by rw [hbr]; simp only [hT]; exact ⟨hlen, hav, htys, hgh⟩⟩ hbr
              refine ⟨v, hv, ?_⟩
              have e1 : res (aliasInsert f.alias p u) v = res f.alias u :=
                res_new_of_case hwf hB0 hbne hp hred (by rw [← hav']; exact hcase)
              have e2 : res (aliasInsert f.alias p u) p = res f.alias u := by
                rw [res_new hwf hB0 hbne hp hred, res_of_none (p_facts hwf hB0 hbne hp hred).2.2.1, if_pos rfl]
              rw [e1, e2]
            · obtain ⟨v, hv, hqv⟩ := hgh q hq hqp
              exact ⟨v, hv, ext_insert p u q v hqv⟩
        · have hne : T.id ≠ b := hTid ▸ hb
          rw [rp_params_of_ne hwf hB0 hbne hp hred hne]
          simp only [hb, if_false]
          refine ⟨hlen, hav, htys, fun q hq hqn => ?_⟩
          obtain ⟨v, hv, hqv⟩ := hgh q hq hqn
          exact ⟨v, hv, ext_insert p u q v hqv⟩

private theorem bodyOK_rp {B : Block} (hB : B ∈ f.blocks) :
    ∀ (is : List Instr) (V : List Val), (∀ i ∈ is, i ∈ B.instrs) → BodyOK c f B V is →
      BodyOK c (removeParam f b idx p u) (rpBlock b idx B) V (is.map (Instr.dropArg b idx)) := by
  intro is
  induction is with
  | nil => intro V _ _; trivial
  | cons i is ih =>
    intro V hsub h
    refine ⟨instrOK_rp hwf hB0 hbne hp hred hB (hsub i (List.mem_cons_self ..)) h.1, ?_⟩
    rw [dropArg_results]
    exact ih _ (fun j hj => hsub j (List.mem_cons_of_mem _ hj)) h.2

/-- **Removing a redundant parameter preserves well-formedness** (with the same certificate). -/
theorem removeParam_wf : WF c (removeParam f b idx p u) := by
  obtain ⟨hB0m, hB0id, hB0v, hB0ok⟩ := B0_facts hwf hB0 hbne hp hred
  obtain ⟨hppd, hpcty, hpkey, hprk⟩ := p_facts hwf hB0 hbne hp hred
  have htne := t_ne hwf hB0 hbne hp hred
  obtain ⟨htrk, htcty⟩ := rank_t hwf hB0 hbne hp hred
  have hpm := p_mem hwf hB0 hbne hp hred
  refine ⟨?_, ?_, alRank_new hwf hB0 hbne hp hred, ?_, ?_, ?_, ?_, ?_, hwf.Mpos, ?_⟩
  · -- ids
    show ((f.blocks.map (rpBlock b idx)).map (·.id)).Nodup
    rw [List.map_map]
    exact hwf.ids
  · exact (aliasNF_iff _).mp (aliasNF_insert ((aliasNF_iff _).mpr hwf.nf) p u)
  · -- types
    intro e he
    rcases mem_aliasInsert htne hpkey he with h | ⟨e0, he0, hk1, ht | ⟨ht1, ht2⟩⟩
    · subst h; show c.cty p = c.cty (res f.alias u); rw [hpcty, htcty]
    · rw [hk1, ht]; exact hwf.alTy e0 he0
    · have := hwf.alTy e0 he0
      rw [hk1, ht2, this, ht1, hpcty, htcty]
  · -- constants
    intro i' hi'
    rw [allInstrs_removeParam] at hi'
    obtain ⟨i, hi, hii⟩ := List.mem_map.mp hi'
    subst hii
    apply dropArg_constNoKey
    have hold := hwf.constKey i hi
    cases i <;> simp only [ConstNoKey] at hold ⊢
    case iconst r0 ty0 k0 =>
      show aliasGet (aliasInsert f.alias p u) r0 = none
      rw [aliasGet_insert htne hpkey]
      split
      · rename_i hpr
        exact absurd (hpr ▸ (by simp [Instr.results])) (p_not_result hwf hB0 hbne hp hred hi)
      · rw [hold]; rfl
  · -- unique definitions
    apply List.Nodup.sublist _ hwf.uniq
    show ((f.blocks.map (rpBlock b idx)).flatMap _).Sublist _
    rw [List.flatMap_map]
    apply sublist_flatMap
    intro B _
    apply List.Sublist.append
    · simp only [rpBlock]
      split
      · exact List.Sublist.map _ (List.eraseIdx_sublist _ _)
      · exact List.Sublist.refl _
    · simp only [rpBlock, List.flatMap_map, dropArg_results]
      exact List.Sublist.refl _
  · rw [entry_removeParam]; exact hwf.entryAvail
  · -- the entry block keeps its parameters
    intro B' hB' hid q hq
    rw [entry_removeParam] at hid hq
    rw [removeParam_blocks] at hB'
    obtain ⟨B, hB, hBB⟩ := List.mem_map.mp hB'
    subst hBB
    have hne : B.id ≠ b := fun h => hbne (h ▸ hid)
    rw [rp_params_of_ne hwf hB0 hbne hp hred hne]
    exact hwf.entryGhost B hB hid q hq
  · -- blocks
    intro B' hB' hBv'
    rw [removeParam_blocks] at hB'
    obtain ⟨B, hB, hBB⟩ := List.mem_map.mp hB'
    subst hBB
    have hBv : B.invalid = false := hBv'
    obtain ⟨hpr, hpd, hghk, havr, hbody, hfwd⟩ := hwf.blocks B hB hBv
    have hsubp : ∀ q, q ∈ (rpBlock b idx B).params → q ∈ B.params := by
      intro q hq
      simp only [rpBlock] at hq
      split at hq
      · exact mem_of_mem_eraseIdx hq
      · exact hq
    refine ⟨?_, hpd, ?_, havr, ?_, ?_⟩
    · intro p' hp'
      have hp'' := hsubp p' hp'
      refine ⟨(hpr p' hp'').1, (hpr p' hp'').2.1, ?_⟩
      show aliasGet (aliasInsert f.alias p u) p'.1 = none
      rw [aliasGet_insert htne hpkey]
      split
      · rename_i hpp
        exfalso
        by_cases hb : B.id = b
        · have hBB0 : B = B0 := block_eq_of_id hwf.ids hB hB0m (hb.trans hB0id.symm)
          subst hBB0
          rw [rp_params_B0 hwf hB0 hbne hp hred] at hp'
          have hm : p'.1 ∈ (B.params.map (·.1)).eraseIdx idx := by
            rw [← map_eraseIdx]; exact List.mem_map_of_mem hp'
          exact mem_eraseIdx_ne (params_nodup hwf.uniq hB) hm (p_idx hwf hB0 hbne hp hred) hpp.symm
        · have : B = B0 := def_block_unique hwf.uniq hB hB0m
            (List.mem_append_left _ (List.mem_map_of_mem hp''))
            (List.mem_append_left _ (hpp ▸ List.mem_map_of_mem hpm))
          exact hb (this ▸ hB0id)
      · rw [(hpr p' hp'').2.2]; rfl
    · intro q hq hqn
      show aliasGet (aliasInsert f.alias p u) q ≠ none
      by_cases hqp : q ∈ B.params.map (·.1)
      · by_cases hb : B.id = b
        · have hBB0 : B = B0 := block_eq_of_id hwf.ids hB hB0m (hb.trans hB0id.symm)
          subst hBB0
          rw [rp_params_B0 hwf hB0 hbne hp hred, map_eraseIdx] at hqn
          have := getElem?_of_mem_not_mem_eraseIdx hqp hqn
          rw [p_idx hwf hB0 hbne hp hred] at this
          cases this
          rw [aliasGet_insert htne hpkey, if_pos rfl]
          simp
        · rw [rp_params_of_ne hwf hB0 hbne hp hred hb] at hqn
          exact absurd hqp hqn
      · exact aliasGet_insert_ne_none (hghk q hq hqp)
    · exact bodyOK_rp hwf hB0 hbne hp hred hB B.instrs _ (fun _ h => h) hbody
    · intro hne
      rw [entry_removeParam] at hne
      obtain ⟨P, hP, hPv, hlt, i, hiP, hbr⟩ := hfwd hne
      refine ⟨rpBlock b idx P, List.mem_map_of_mem hP, hPv, hlt, i.dropArg b idx, List.mem_map_of_mem hiP, ?_⟩
      rw [dropArg_branch_target]; exact hbr

/-- A parameter with a smaller index that was redundant stays redundant after the removal (its unique value is
resolved through the new table by `aliasInsert`). -/
theorem redundant_after {idx' : Nat} {p' u' : Val} {ty' : Ty} (hlt : idx' < idx)
    (hp' : B0.params[idx']? = some (p', ty')) (hred' : Redundant f b idx' p' u') :
    Redundant (removeParam f b idx p u) b idx' p' u' := by
  obtain ⟨hB0m, _, _, _⟩ := B0_facts hwf hB0 hbne hp hred
  intro a' ha'
  simp only [Func.branchArgs, allInstrs_removeParam, List.mem_filterMap, List.mem_map] at ha'
  obtain ⟨i', ⟨i, hi, hii⟩, hsome⟩ := ha'
  subst hii
  rw [dropArg_branch] at hsome
  cases hbr : i.branch? with
  | none => rw [hbr] at hsome; simp at hsome
  | some q =>
    obtain ⟨t', as⟩ := q
    rw [hbr] at hsome
    simp only [Option.map_some] at hsome
    split at hsome
    · rename_i htb
      subst htb
      simp only [if_true, List.getElem?_eraseIdx, if_pos hlt] at hsome
      cases ha : as[idx']? with
      | none => rw [ha] at hsome; simp at hsome
      | some a =>
        rw [ha] at hsome
        simp only [Option.map_some, Option.some.injEq] at hsome
        subst hsome
        have hold := hred' _ (mem_branchArgs hi hbr ha)
        show res (aliasInsert f.alias p u) a = p' ∨ res (aliasInsert f.alias p u) a = res (aliasInsert f.alias p u) u'
        rw [res_new hwf hB0 hbne hp hred a, res_new hwf hB0 hbne hp hred u']
        rcases hold with h | h
        · left
          rw [h]
          have hne : p' ≠ p := by
            intro he
            have hnd := params_nodup hwf.uniq hB0m
            have h1 : (B0.params.map (·.1))[idx']? = some p' := by rw [List.getElem?_map, hp']; rfl
            have h2 := p_idx hwf hB0 hbne hp hred
            rw [he] at h1
            have hi1 : idx' < (B0.params.map (·.1)).length := by
              cases hlt' : decide (idx' < (B0.params.map (·.1)).length) with
              | true => simpa using hlt'
              | false =>
                have : (B0.params.map (·.1)).length ≤ idx' := by simpa using hlt'
                rw [List.getElem?_eq_none this] at h1; cases h1
            have hi2 : idx < (B0.params.map (·.1)).length := by
              cases hlt' : decide (idx < (B0.params.map (·.1)).length) with
              | true => simpa using hlt'
              | false =>
                have : (B0.params.map (·.1)).length ≤ idx := by simpa using hlt'
                rw [List.getElem?_eq_none this] at h2; cases h2
            rw [List.getElem?_eq_getElem hi1] at h1
            rw [List.getElem?_eq_getElem hi2] at h2
            have := (List.pairwise_iff_getElem.mp hnd) idx' idx hi1 hi2 hlt
            exact this ((Option.some.inj h1).trans (Option.some.inj h2).symm)
          rw [if_neg hne]
        · right; rw [h]
    · simp at hsome

end step

end Wz.Model.SsaPass
