/- Lemmas for C12 part 2 (module identity). Core Lean only. -/
import Wz.Model.ModuleID

namespace Wz.Proofs.C12
open Wz.Model.ModuleID

theorem b2n_inj (a b : Bool) (h : b2n a = b2n b) : a = b := by
  cases a <;> cases b <;> simp [b2n] at h ⊢

/-- The listener records followed by the termination byte determine both. -/
theorem enc_inj : ∀ (ps qs : List Bool) (i : Nat) (t u : Bool),
    encL i ps ++ [b2n t] = encL i qs ++ [b2n u] → ps = qs ∧ t = u := by
  intro ps
  induction ps with
  | nil =>
    intro qs i t u h
    cases qs with
    | nil => simp [encL] at h; exact ⟨rfl, b2n_inj _ _ h⟩
    | cons q qs => simp [encL, le32] at h
  | cons p ps ih =>
    intro qs i t u h
    cases qs with
    | nil => simp [encL, le32] at h
    | cons q qs =>
      simp only [encL, le32, List.cons_append, List.nil_append, List.cons.injEq, true_and] at h
      obtain ⟨hp, hrest⟩ := h
      obtain ⟨e1, e2⟩ := ih qs (i + 1) t u hrest
      exact ⟨by rw [b2n_inj _ _ hp, e1], e2⟩

theorem preimage_inj_same_bin (r₁ r₂ : Req) (hb : r₁.bin = r₂.bin) (h : preimage r₁ = preimage r₂) :
    r₁.presence = r₂.presence ∧ r₁.term = r₂.term := by
  unfold preimage at h
  rw [hb] at h
  exact enc_inj _ _ 0 _ _ (List.append_cancel_left h)

theorem preimage_inj_same_len (r₁ r₂ : Req) (hl : r₁.bin.length = r₂.bin.length) (h : preimage r₁ = preimage r₂) :
    r₁.bin = r₂.bin ∧ r₁.presence = r₂.presence ∧ r₁.term = r₂.term := by
  unfold preimage at h
  obtain ⟨hb, hr⟩ := List.append_inj h hl
  exact ⟨hb, enc_inj _ _ 0 _ _ hr⟩

end Wz.Proofs.C12
