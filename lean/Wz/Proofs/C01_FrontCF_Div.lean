/-
C01 (front end, structured control flow): divergence and the backward direction.

* `runFrom_mono` / `run_mono` / `runPos_mono`: fuel monotonicity of the SSA run (an outcome other than "out of fuel"
  is kept with more fuel).
* `StepsK` / `StepsX` / `StepsP`: steps of the SSA run with the EXACT number of blocks entered (with less fuel the
  run is out of fuel); a branch to a label enters at least one block (`StepsP`).
* `sim_allX`: the simulation of `C01_FrontCF_Sim` once more with exact steps and, for a piece of code of static weight
  `W` (`wtI` / `wtL`) on which the reference semantics EXHAUSTS the budget `n`: the SSA run from the corresponding
  point is out of fuel for every `fuel` with `fuel + W ≤ n` (`Div`).  The reference semantics can exhaust a budget
  `n ≥ W` only through loop iterations; each costs it one unit and costs the SSA run at least one block entry.
* `diverges_validated`: if the reference semantics exhausts every budget, the SSA run is out of fuel for every fuel.
* `refines_validated_backward`: every outcome of the SSA run other than "out of fuel" is the outcome of the
  reference semantics with some budget (from `refines_validated`, `diverges_validated` and monotonicity).
-/
import Wz.Proofs.C01_FrontCF

namespace Wz.Proofs.FrontCF
open Wz.Spec Wz.Model.SsaPass Wz.Model.FrontendSL Wz.Model.FrontendCF Wz.Proofs.Front

/-! ### fuel monotonicity of the SSA run -/

theorem runFrom_mono (w : World) (g : Func) : ∀ (fuel : Nat) (b : BlockId) (args : List Nat) (st : St) (o : Outcome)
    (d : Nat), runFrom w g fuel b args st = o → o ≠ .outOfFuel → runFrom w g (fuel + d) b args st = o := by
  intro fuel
  induction fuel with
  | zero =>
    intro b args st o d h ho
    simp only [runFrom] at h
    exact absurd h.symm ho
  | succ n ih =>
    intro b args st o d h ho
    have hn : n + 1 + d = (n + d) + 1 := by omega
    rw [hn]
    simp only [runFrom] at h ⊢
    cases hB : g.findBlock b with
    | none => simp only [hB] at h ⊢; exact h
    | some B =>
      simp only [hB] at h ⊢
      split
      · rename_i hl; rw [if_pos hl] at h; exact h
      · rename_i hl
        rw [if_neg hl] at h
        generalize execBody w g.alias B.instrs { st with env := bindVals st.env B.params args } = r at h ⊢
        cases r with
        | none => exact h
        | some c =>
          cases c with
          | goto b' args' st' => exact ih b' args' st' o d h ho
          | next _ => exact h
          | ret _ _ => exact h
          | trap _ _ => exact h

theorem run_mono (w : World) (g : Func) (args : List Nat) (fuel d : Nat) (o : Outcome)
    (h : run w g args fuel = o) (ho : o ≠ .outOfFuel) : run w g args (fuel + d) = o :=
  runFrom_mono w g fuel _ _ _ o d h ho

theorem runPos_mono (w : World) (g : Func) (fuel d : Nat) (blk pos : Nat) (env : Val → Nat) (o : Outcome)
    (h : runPos w g fuel blk pos env = o) (ho : o ≠ .outOfFuel) : runPos w g (fuel + d) blk pos env = o := by
  simp only [runPos] at h ⊢
  generalize execBody w [] ((instrsOf g blk).drop pos) (mk env) = r at h ⊢
  cases r with
  | none => exact h
  | some c =>
    cases c with
    | goto b' args' st' => exact runFrom_mono w g fuel b' args' st' o d h ho
    | next _ => exact h
    | ret _ _ => exact h
    | trap _ _ => exact h

/-- out of fuel with more fuel: out of fuel with less -/
theorem runPos_anti (w : World) (g : Func) (fuel d : Nat) (blk pos : Nat) (env : Val → Nat)
    (h : runPos w g (fuel + d) blk pos env = .outOfFuel) : runPos w g fuel blk pos env = .outOfFuel := by
  by_cases h1 : runPos w g fuel blk pos env = .outOfFuel
  · exact h1
  · have := runPos_mono w g fuel d blk pos env _ rfl h1
    rw [this] at h
    exact absurd h h1

/-! ### static weights -/

mutual
def wtI : CI → Nat
  | .op _ => 1
  | .unreachable => 1
  | .br _ => 1
  | .brIf _ => 1
  | .block _ b => wtL b + 2
  | .loop _ b => wtL b + 2
  | .ite _ _ t e => wtL t + wtL e + 3
def wtL : List CI → Nat
  | [] => 1
  | i :: is => wtI i + wtL is + 1
end

theorem wtL_pos (is : List CI) : 1 ≤ wtL is := by
  cases is <;> simp only [wtL] <;> omega

theorem wtI_pos (i : CI) : 1 ≤ wtI i := by
  cases i <;> simp only [wtI] <;> omega

/-! ### exact steps -/

/-- from `a` the run reaches `b` entering exactly `k` blocks -/
def StepsK (w : World) (g : Func) (k : Nat) (a b : Pt) : Prop :=
  (∀ fuel, runPos w g (fuel + k) a.blk a.pos a.env = runPos w g fuel b.blk b.pos b.env) ∧
  (∀ fuel, fuel < k → runPos w g fuel a.blk a.pos a.env = .outOfFuel)

def StepsX (w : World) (g : Func) (a b : Pt) : Prop := ∃ k, StepsK w g k a b

/-- at least one block is entered -/
def StepsP (w : World) (g : Func) (a b : Pt) : Prop := ∃ k, 1 ≤ k ∧ StepsK w g k a b

theorem StepsK.trans {w : World} {g : Func} {a b c : Pt} {k1 k2 : Nat} (h1 : StepsK w g k1 a b)
    (h2 : StepsK w g k2 b c) : StepsK w g (k2 + k1) a c := by
  constructor
  · intro fuel
    rw [← Nat.add_assoc, h1.1, h2.1]
  · intro fuel hf
    by_cases hk : fuel < k1
    · exact h1.2 fuel hk
    · have : fuel = (fuel - k1) + k1 := by omega
      rw [this, h1.1]
      exact h2.2 _ (by omega)

theorem StepsX.refl (w : World) (g : Func) (a : Pt) : StepsX w g a a :=
  ⟨0, fun _ => rfl, fun _ h => absurd h (Nat.not_lt_zero _)⟩

theorem StepsX.trans {w : World} {g : Func} {a b c : Pt} (h1 : StepsX w g a b) (h2 : StepsX w g b c) :
    StepsX w g a c := by
  obtain ⟨k1, h1⟩ := h1
  obtain ⟨k2, h2⟩ := h2
  exact ⟨k2 + k1, h1.trans h2⟩

theorem StepsP.toX {w : World} {g : Func} {a b : Pt} (h : StepsP w g a b) : StepsX w g a b := by
  obtain ⟨k, _, h⟩ := h
  exact ⟨k, h⟩

theorem StepsX.transP {w : World} {g : Func} {a b c : Pt} (h1 : StepsX w g a b) (h2 : StepsP w g b c) :
    StepsP w g a c := by
  obtain ⟨k1, h1⟩ := h1
  obtain ⟨k2, hk, h2⟩ := h2
  exact ⟨k2 + k1, by omega, h1.trans h2⟩

theorem StepsP.transX {w : World} {g : Func} {a b c : Pt} (h1 : StepsP w g a b) (h2 : StepsX w g b c) :
    StepsP w g a c := by
  obtain ⟨k1, hk, h1⟩ := h1
  obtain ⟨k2, h2⟩ := h2
  exact ⟨k2 + k1, by omega, h1.trans h2⟩

/-- the run from `src` is out of fuel for every fuel `fuel` with `fuel + W ≤ N` -/
def Div (w : World) (g : Func) (src : Pt) (N W : Nat) : Prop :=
  ∀ fuel, fuel + W ≤ N → runPos w g fuel src.blk src.pos src.env = .outOfFuel

theorem Div.prepend {w : World} {g : Func} {a b : Pt} {N W : Nat} (h1 : StepsX w g a b) (h2 : Div w g b N W) :
    Div w g a N W := by
  obtain ⟨k, h1⟩ := h1
  intro fuel hf
  by_cases hk : fuel < k
  · exact h1.2 fuel hk
  · have : fuel = (fuel - k) + k := by omega
    rw [this, h1.1]
    exact h2 _ (by omega)

theorem Div.prependP {w : World} {g : Func} {a b : Pt} {N W : Nat} (h1 : StepsP w g a b) (h2 : Div w g b N W) :
    Div w g a (N + 1) W := by
  obtain ⟨k, hk1, h1⟩ := h1
  intro fuel hf
  by_cases hk : fuel < k
  · exact h1.2 fuel hk
  · have : fuel = (fuel - k) + k := by omega
    rw [this, h1.1]
    exact h2 _ (by omega)

/-! ### the basic steps, exactly -/

theorem stepsX_straight (w : World) (g : Func) (blk pos : Nat) (is : List Instr) (env env' : Val → Nat)
    (hdrop : (instrsOf g blk).drop pos = is ++ (instrsOf g blk).drop (pos + is.length))
    (hexec : ∀ rest, execBody w [] (is ++ rest) (mk env) = execBody w [] rest (mk env')) :
    StepsX w g ⟨blk, pos, env⟩ ⟨blk, pos + is.length, env'⟩ :=
  ⟨0, fun fuel => runPos_straight w g blk pos is env env' hdrop hexec fuel, fun _ h => absurd h (Nat.not_lt_zero _)⟩

theorem stepsP_jump (w : World) (g : Func) (hal : g.alias = []) (blk pos : Nat) (t : Nat) (args : List Val)
    (env : Val → Nat) (T : Block) (h : (instrsOf g blk)[pos]? = some (.jump t args))
    (hT : g.findBlock t = some T) (hlen : T.params.length = args.length) :
    StepsP w g ⟨blk, pos, env⟩ ⟨t, 0, bindVals env T.params (args.map env)⟩ := by
  have h0 : ∀ fuel, runPos w g fuel blk pos env = runFrom w g fuel t (args.map env) (mk env) := by
    intro fuel
    simp only [runPos, drop_of_getElem? h, execBody, env_mk, execInstr]
  refine ⟨1, Nat.le_refl _, fun fuel => ?_, fun fuel hf => ?_⟩
  · rw [h0, runFrom_enter w g hal fuel t T _ env hT (by simp [hlen])]
  · have : fuel = 0 := by omega
    subst this
    rw [h0]; rfl

theorem stepsP_brnz_taken (w : World) (g : Func) (hal : g.alias = []) (blk pos : Nat) (c t : Nat) (args : List Val)
    (env : Val → Nat) (T : Block) (h : (instrsOf g blk)[pos]? = some (.brnz c t args)) (hc : env c ≠ 0)
    (hT : g.findBlock t = some T) (hlen : T.params.length = args.length) :
    StepsP w g ⟨blk, pos, env⟩ ⟨t, 0, bindVals env T.params (args.map env)⟩ := by
  have h0 : ∀ fuel, runPos w g fuel blk pos env = runFrom w g fuel t (args.map env) (mk env) := by
    intro fuel
    simp only [runPos, drop_of_getElem? h, execBody, execInstr, mk_env_res, hc, ne_eq, not_false_eq_true, if_true]
  refine ⟨1, Nat.le_refl _, fun fuel => ?_, fun fuel hf => ?_⟩
  · rw [h0, runFrom_enter w g hal fuel t T _ env hT (by simp [hlen])]
  · have : fuel = 0 := by omega
    subst this
    rw [h0]; rfl

theorem stepsX_brnz_not (w : World) (g : Func) (blk pos : Nat) (c t : Nat) (args : List Val)
    (env : Val → Nat) (h : (instrsOf g blk)[pos]? = some (.brnz c t args)) (hc : env c = 0) :
    StepsX w g ⟨blk, pos, env⟩ ⟨blk, pos + 1, env⟩ :=
  ⟨0, fun fuel => by
    simp only [runPos, drop_of_getElem? h, execBody, execInstr, mk_env_res, hc, ne_eq, not_true_eq_false, if_false,
      Nat.add_zero], fun _ h => absurd h (Nat.not_lt_zero _)⟩

theorem stepsP_brz_taken (w : World) (g : Func) (hal : g.alias = []) (blk pos : Nat) (c t : Nat) (args : List Val)
    (env : Val → Nat) (T : Block) (h : (instrsOf g blk)[pos]? = some (.brz c t args)) (hc : env c = 0)
    (hT : g.findBlock t = some T) (hlen : T.params.length = args.length) :
    StepsP w g ⟨blk, pos, env⟩ ⟨t, 0, bindVals env T.params (args.map env)⟩ := by
  have h0 : ∀ fuel, runPos w g fuel blk pos env = runFrom w g fuel t (args.map env) (mk env) := by
    intro fuel
    simp only [runPos, drop_of_getElem? h, execBody, execInstr, mk_env_res, hc, if_true]
  refine ⟨1, Nat.le_refl _, fun fuel => ?_, fun fuel hf => ?_⟩
  · rw [h0, runFrom_enter w g hal fuel t T _ env hT (by simp [hlen])]
  · have : fuel = 0 := by omega
    subst this
    rw [h0]; rfl

theorem stepsX_brz_not (w : World) (g : Func) (blk pos : Nat) (c t : Nat) (args : List Val)
    (env : Val → Nat) (h : (instrsOf g blk)[pos]? = some (.brz c t args)) (hc : env c ≠ 0) :
    StepsX w g ⟨blk, pos, env⟩ ⟨blk, pos + 1, env⟩ :=
  ⟨0, fun fuel => by
    simp only [runPos, drop_of_getElem? h, execBody, execInstr, mk_env_res, hc, if_false, Nat.add_zero],
    fun _ h => absurd h (Nat.not_lt_zero _)⟩

/-! ### the simulation with exact steps and the divergence claim -/

variable {w : World} {cx : Ctx}

/-- what a branch to the (non-return) label at depth `l` establishes: at least one block is entered -/
def BrX (w : World) (cx : Ctx) (labs : List Lab) (l : Nat) (src : Pt) (fr' : Wasm.Frame) : Prop :=
  match labs[l]? with
  | none => False
  | some lab =>
    if lab.isRet then True
    else
      hasPred cx.g lab.tgt = true ∧
      ∃ env', StepsP w cx.g src ⟨lab.tgt, 0, env'⟩ ∧
        InvC cx.lt (((paramsOf cx.g lab.tgt).take lab.tys.length).reverse ++ lab.outer) (entOf cx.ent lab.tgt)
          ⟨fr'.stack.take lab.tys.length ++ fr'.stack.drop (fr'.stack.length - lab.outer.length), fr'.locals⟩ env'

/-- like `Res`, with exact steps, nothing about `return` / traps, and for `exhausted`: the SSA run from `src` is out of
fuel for every `fuel` with `fuel + W ≤ N` -/
def ResX (w : World) (cx : Ctx) (labs : List Lab) (src : Pt) (r : CR) (out : Wasm.Ctl × Wasm.Frame × Wasm.Store)
    (N W : Nat) : Prop :=
  match out.1 with
  | .next => ∃ c' env', r = .live c' ∧ StepsX w cx.g src ⟨c'.blk, c'.pos, env'⟩ ∧ InvC cx.lt c'.stack c'.vars out.2.1 env'
  | .br l => BrX w cx labs l src out.2.1
  | .ret => True
  | .trap _ => True
  | .exhausted => Div w cx.g src N W

theorem BrX.prepend {labs : List Lab} {l : Nat} {a b : Pt} {fr' : Wasm.Frame} (h1 : StepsX w cx.g a b)
    (h2 : BrX w cx labs l b fr') : BrX w cx labs l a fr' := by
  unfold BrX at h2 ⊢
  cases hl : labs[l]? with
  | none => simp [hl] at h2
  | some lab =>
    simp only [hl] at h2 ⊢
    split
    · trivial
    · rename_i hr; rw [if_neg hr] at h2
      obtain ⟨hp, env', hs, hi⟩ := h2
      exact ⟨hp, env', h1.transP hs, hi⟩

theorem ResX.prepend {labs : List Lab} {a b : Pt} {r : CR} {out : Wasm.Ctl × Wasm.Frame × Wasm.Store}
    {N W : Nat} (h1 : StepsX w cx.g a b) (h2 : ResX w cx labs b r out N W) : ResX w cx labs a r out N W := by
  obtain ⟨ctl, fr', st'⟩ := out
  unfold ResX at h2 ⊢
  cases ctl with
  | next =>
    obtain ⟨c', env', hr, hs, hi⟩ := h2
    exact ⟨c', env', hr, h1.trans hs, hi⟩
  | br l => exact BrX.prepend h1 h2
  | ret => trivial
  | trap k => trivial
  | exhausted => exact Div.prepend h1 h2

theorem ResX.prependP {labs : List Lab} {a b : Pt} {r : CR} {out : Wasm.Ctl × Wasm.Frame × Wasm.Store}
    {N W : Nat} (h1 : StepsP w cx.g a b) (h2 : ResX w cx labs b r out N W) : ResX w cx labs a r out (N + 1) W := by
  obtain ⟨ctl, fr', st'⟩ := out
  unfold ResX at h2 ⊢
  cases ctl with
  | next =>
    obtain ⟨c', env', hr, hs, hi⟩ := h2
    exact ⟨c', env', hr, h1.toX.trans hs, hi⟩
  | br l => exact BrX.prepend h1.toX h2
  | ret => trivial
  | trap k => trivial
  | exhausted => exact Div.prependP h1 h2

theorem ResX.weaken {labs : List Lab} {a : Pt} {r : CR} {out : Wasm.Ctl × Wasm.Frame × Wasm.Store}
    {N W N' W' : Nat} (h : ∀ fuel, fuel + W' ≤ N' → fuel + W ≤ N) (h2 : ResX w cx labs a r out N W) :
    ResX w cx labs a r out N' W' := by
  obtain ⟨ctl, fr', st'⟩ := out
  unfold ResX at h2 ⊢
  cases ctl with
  | next => exact h2
  | br l => exact h2
  | ret => trivial
  | trap k => trivial
  | exhausted => exact fun fuel hf => h2 fuel (h fuel hf)

theorem ResX.exh {labs : List Lab} {src : Pt} {r : CR} {fr : Wasm.Frame} {st : Wasm.Store} {N W : Nat}
    (h : Div w cx.g src N W) : ResX w cx labs src r (.exhausted, fr, st) N W := h

theorem ResX.exh0 {labs : List Lab} {src : Pt} {r : CR} {fr : Wasm.Frame} {st : Wasm.Store} {W : Nat}
    (h : 1 ≤ W) : ResX w cx labs src r (.exhausted, fr, st) 0 W :=
  fun fuel hf => absurd hf (by omega)

variable (w) (cx) (m : Wasm.Module)

def PIX (n : Nat) : Prop :=
  ∀ (i : CI) (labs : List Lab) (c : CS) (fr : Wasm.Frame) (env : Val → Nat) (st : Wasm.Store),
    LabsOK cx labs → InvC cx.lt c.stack c.vars fr env → chkI cx labs c i ≠ .fail →
    ResX w cx labs ⟨c.blk, c.pos, env⟩ (chkI cx labs c i) (Wasm.execInstr m n i.toInstr fr st) n (wtI i)

def PSX (n : Nat) : Prop :=
  ∀ (is : List CI) (labs : List Lab) (c : CS) (fr : Wasm.Frame) (env : Val → Nat) (st : Wasm.Store),
    LabsOK cx labs → InvC cx.lt c.stack c.vars fr env → chkL cx labs c is ≠ .fail →
    ResX w cx labs ⟨c.blk, c.pos, env⟩ (chkL cx labs c is) (Wasm.execSeq m n (toInstrs is) fr st) n (wtL is)

def PAX (n : Nat) : Prop :=
  ∀ (b : List CI) (lab : Lab) (labs : List Lab) (c : CS) (fr : Wasm.Frame) (env : Val → Nat) (st : Wasm.Store)
    (nb nbx : Nat),
    LabsOK cx labs → lab.isRet = false → c.stack = lab.outer →
    InvC cx.lt c.stack c.vars fr env → finishArm cx lab (chkL cx (lab :: labs) c b) = some nb →
    ResX w cx labs ⟨c.blk, c.pos, env⟩ (afterBlock cx lab nbx)
      (Wasm.execInstr m n (.block lab.tys.length (toInstrs b)) fr st) n (wtL b + 1)

def PLX (n : Nat) : Prop :=
  ∀ (b : List CI) (H : Nat) (tys : List Ty) (stk : List TV) (labs : List Lab) (fr : Wasm.Frame) (env : Val → Nat)
    (st : Wasm.Store) (nb2 nb nbx : Nat),
    LabsOK cx labs → InvC cx.lt stk (entOf cx.ent H) fr env →
    finishArm cx ⟨H + 1, tys, stk, false⟩
      (chkL cx (⟨H, [], stk, false⟩ :: labs) (entryCS cx H 0 stk nb2) b) = some nb →
    ResX w cx labs ⟨H, 0, env⟩ (afterBlock cx ⟨H + 1, tys, stk, false⟩ nbx)
      (Wasm.execInstr m n (.loop (toInstrs b)) fr st) n (wtL b + 1)

variable {w} {cx} {m}

theorem brX_cons_succ {lab : Lab} {labs : List Lab} {l : Nat} {src : Pt} {fr' : Wasm.Frame} :
    BrX w cx (lab :: labs) (l + 1) src fr' = BrX w cx labs l src fr' := by
  simp only [BrX, List.getElem?_cons_succ]

theorem arm_endX (hal : cx.g.alias = []) {lab : Lab} (hlr : lab.isRet = false) {c' : CS} {fr' : Wasm.Frame}
    {env' : Val → Nat} (hinv : InvC cx.lt c'.stack c'.vars fr' env')
    (hlen : c'.stack.length = lab.tys.length + lab.outer.length) (hj : chkJump cx c' lab = true) :
    hasPred cx.g lab.tgt = true ∧
    ∃ env'', StepsP w cx.g ⟨c'.blk, c'.pos, env'⟩ ⟨lab.tgt, 0, env''⟩ ∧
      InvC cx.lt (((paramsOf cx.g lab.tgt).take lab.tys.length).reverse ++ lab.outer) (entOf cx.ent lab.tgt)
        fr' env'' := by
  simp only [chkJump, hlr, Bool.false_eq_true, if_false] at hj
  split at hj
  · rename_i t args hi
    simp only [Bool.and_eq_true, beq_iff_eq] at hj
    obtain ⟨rfl, hedge⟩ := hj
    obtain ⟨T, hT, hTl, hinv'⟩ := edge_sound cx c' lab args fr' env' hedge hinv
    refine ⟨hasPred_of_instr hi rfl, _, stepsP_jump w cx.g hal _ _ _ _ env' T hi hT hTl, ?_⟩
    have hl : fr'.stack.length = lab.tys.length + lab.outer.length := by
      rw [← hinv.vals, List.length_map, hlen]
    have : fr'.stack.take lab.tys.length ++ fr'.stack.drop (fr'.stack.length - lab.outer.length) = fr'.stack := by
      rw [hl, Nat.add_sub_cancel, List.take_append_drop]
    rw [this] at hinv'
    exact hinv'
  · cases hj

theorem PAX_succ (hal : cx.g.alias = []) {n : Nat} (hps : PSX w cx m n) : PAX w cx m (n + 1) := by
  intro b lab labs c fr env st nb nbx hlabs hlr hout hinv hfin
  have hne : chkL cx (lab :: labs) c b ≠ .fail := by
    intro h; rw [h] at hfin; simp [finishArm] at hfin
  have hres := hps b (lab :: labs) c fr env st (hlabs.cons lab hlr) hinv hne
  simp only [Wasm.execInstr]
  generalize Wasm.execSeq m n (toInstrs b) fr st = out at hres ⊢
  obtain ⟨ctl, fr', st'⟩ := out
  have hh : fr.stack.length = lab.outer.length := by rw [← hinv.vals, List.length_map, hout]
  cases ctl with
  | next =>
    obtain ⟨c', env', hr, hs, hi⟩ := hres
    rw [hr] at hfin
    simp only [finishArm] at hfin
    split at hfin
    · rename_i hc
      simp only [Bool.and_eq_true, beq_iff_eq] at hc
      obtain ⟨hp, env'', hs2, hi2⟩ := arm_endX (w := w) hal hlr hi hc.1 hc.2
      simp only [ResX, afterBlock, hp, if_true]
      exact ⟨_, env'', rfl, hs.trans hs2.toX, hi2⟩
    · cases hfin
  | br l =>
    cases l with
    | zero =>
      simp only [ResX, BrX, List.getElem?_cons_zero, hlr, Bool.false_eq_true, if_false] at hres
      obtain ⟨hp, env'', hs2, hi2⟩ := hres
      simp only [ResX, afterBlock, hp, if_true, Wasm.splitTop]
      refine ⟨_, env'', rfl, hs2.toX, ?_⟩
      simp only [entryCS]
      rw [hh]
      exact hi2
    | succ l =>
      have hres' : BrX w cx (lab :: labs) (l + 1) ⟨c.blk, c.pos, env⟩ fr' := hres
      rw [brX_cons_succ] at hres'
      exact hres'
  | ret => trivial
  | trap k => trivial
  | exhausted =>
    have hres' : Div w cx.g ⟨c.blk, c.pos, env⟩ n (wtL b) := hres
    exact ResX.exh (fun fuel hf => hres' fuel (by omega))

theorem PLX_succ (hal : cx.g.alias = []) {n : Nat} (hps : PSX w cx m n) (hpl : PLX w cx m n) : PLX w cx m (n + 1) := by
  intro b H tys stk labs fr env st nb2 nb nbx hlabs hinv hfin
  have hne : chkL cx (⟨H, [], stk, false⟩ :: labs) (entryCS cx H 0 stk nb2) b ≠ .fail := by
    intro h; rw [h] at hfin; simp [finishArm] at hfin
  have hinv0 : InvC cx.lt (entryCS cx H 0 stk nb2).stack (entryCS cx H 0 stk nb2).vars fr env := by
    rw [entryCS_stack0]; exact hinv
  have hres := hps b (⟨H, [], stk, false⟩ :: labs) (entryCS cx H 0 stk nb2) fr env st
    (hlabs.cons _ rfl) hinv0 hne
  simp only [Wasm.execInstr]
  generalize Wasm.execSeq m n (toInstrs b) fr st = out at hres ⊢
  obtain ⟨ctl, fr', st'⟩ := out
  have hh : fr.stack.length = stk.length := by rw [← hinv.vals, List.length_map]
  have hsrc : (⟨(entryCS cx H 0 stk nb2).blk, (entryCS cx H 0 stk nb2).pos, env⟩ : Pt) = ⟨H, 0, env⟩ := rfl
  rw [hsrc] at hres
  cases ctl with
  | next =>
    obtain ⟨c', env', hr, hs, hi⟩ := hres
    rw [hr] at hfin
    simp only [finishArm] at hfin
    split at hfin
    · rename_i hc
      simp only [Bool.and_eq_true, beq_iff_eq] at hc
      obtain ⟨hp, env'', hs2, hi2⟩ := arm_endX (w := w) (lab := ⟨H + 1, tys, stk, false⟩) hal rfl hi hc.1 hc.2
      simp only [ResX, afterBlock, hp, if_true]
      exact ⟨_, env'', rfl, hs.trans hs2.toX, hi2⟩
    · cases hfin
  | br l =>
    cases l with
    | zero =>
      have hres' : BrX w cx (⟨H, [], stk, false⟩ :: labs) 0 ⟨H, 0, env⟩ fr' := hres
      simp only [BrX, List.getElem?_cons_zero, Bool.false_eq_true, if_false, List.length_nil, List.take_zero,
        List.reverse_nil, List.nil_append] at hres'
      obtain ⟨hp, env'', hs2, hi2⟩ := hres'
      have := hpl b H tys stk labs ⟨fr'.stack.drop (fr'.stack.length - stk.length), fr'.locals⟩ env'' st' nb2 nb nbx
        hlabs hi2 hfin
      rw [hh]
      exact ResX.prependP hs2 this
    | succ l =>
      have hres' : BrX w cx (⟨H, [], stk, false⟩ :: labs) (l + 1) ⟨H, 0, env⟩ fr' := hres
      rw [brX_cons_succ] at hres'
      exact hres'
  | ret => trivial
  | trap k => trivial
  | exhausted =>
    have hres' : Div w cx.g ⟨H, 0, env⟩ n (wtL b) := hres
    exact ResX.exh (fun fuel hf => hres' fuel (by omega))

theorem PSX_succ {n : Nat} (hpi : PIX w cx m n) (hps : PSX w cx m n) : PSX w cx m (n + 1) := by
  intro is labs c fr env st hlabs hinv hne
  cases is with
  | nil =>
    simp only [chkL, toInstrs, Wasm.execSeq]
    exact ⟨c, env, rfl, StepsX.refl _ _ _, hinv⟩
  | cons i rest =>
    simp only [toInstrs, Wasm.execSeq]
    have hne_i : chkI cx labs c i ≠ .fail := by
      intro h; apply hne; simp only [chkL, h]
    have hres := hpi i labs c fr env st hlabs hinv hne_i
    generalize Wasm.execInstr m n i.toInstr fr st = out at hres ⊢
    obtain ⟨ctl, fr', st'⟩ := out
    cases ctl with
    | next =>
      obtain ⟨c', env', hr, hs, hi⟩ := hres
      have hl : chkL cx labs c (i :: rest) = chkL cx labs c' rest := by simp only [chkL, hr]
      rw [hl] at hne ⊢
      refine ResX.weaken ?_ (ResX.prepend hs (hps rest labs c' fr' env' st' hlabs hi hne))
      intro fuel hf
      simp only [wtL] at hf
      omega
    | br l => exact hres
    | ret => trivial
    | trap k => trivial
    | exhausted =>
      have hres' : Div w cx.g ⟨c.blk, c.pos, env⟩ n (wtI i) := hres
      refine ResX.exh (fun fuel hf => hres' fuel ?_)
      simp only [wtL] at hf
      omega

theorem PIX_block (_hal : cx.g.alias = []) {n : Nat} (hpa : PAX w cx m n) (bt : BT) (body : List CI)
    (labs : List Lab) (c : CS) (fr : Wasm.Frame) (env : Val → Nat) (st : Wasm.Store)
    (hlabs : LabsOK cx labs) (hinv : InvC cx.lt c.stack c.vars fr env)
    (hne : chkI cx labs c (.block bt body) ≠ .fail) :
    ResX w cx labs ⟨c.blk, c.pos, env⟩ (chkI cx labs c (.block bt body))
      (Wasm.execInstr m n (CI.block bt body).toInstr fr st) n (wtI (.block bt body)) := by
  simp only [chkI] at hne ⊢
  split at hne
  · exact absurd rfl hne
  · rename_i hp
    rw [if_neg hp]
    split at hne
    · rename_i nb hfin
      simp only [CI.toInstr]
      refine ResX.weaken ?_ (hpa body ⟨c.nb, bt.results, c.stack, false⟩ labs { c with nb := c.nb + 1 } fr env st nb nb
        hlabs rfl rfl hinv hfin)
      intro fuel hf
      simp only [wtI] at hf
      omega
    · exact absurd rfl hne

theorem PIX_br (hal : cx.g.alias = []) (n : Nat) (l : Nat)
    (labs : List Lab) (c : CS) (fr : Wasm.Frame) (env : Val → Nat) (st : Wasm.Store)
    (hinv : InvC cx.lt c.stack c.vars fr env)
    (hne : chkI cx labs c (.br l) ≠ .fail) (N W : Nat) :
    ResX w cx labs ⟨c.blk, c.pos, env⟩ (chkI cx labs c (.br l))
      (Wasm.execInstr m (n + 1) (CI.br l).toInstr fr st) N W := by
  simp only [chkI] at hne
  simp only [CI.toInstr, Wasm.execInstr]
  show BrX w cx labs l _ fr
  unfold BrX
  cases hl : labs[l]? with
  | none => simp [hl] at hne
  | some lab =>
    simp only [hl] at hne ⊢
    split at hne
    · rename_i hj
      by_cases hr : lab.isRet = true
      · rw [if_pos hr]
        trivial
      · rw [if_neg hr]
        have hr' : lab.isRet = false := by cases h : lab.isRet <;> simp_all
        simp only [chkJump, hr', Bool.false_eq_true, if_false] at hj
        split at hj
        · rename_i t args hi
          simp only [Bool.and_eq_true, beq_iff_eq] at hj
          obtain ⟨rfl, hedge⟩ := hj
          obtain ⟨T, hT, hTl, hinv'⟩ := edge_sound cx c lab args fr env hedge hinv
          exact ⟨hasPred_of_instr hi rfl, _, stepsP_jump w cx.g hal _ _ _ _ env T hi hT hTl, hinv'⟩
        · cases hj
    · exact absurd rfl hne

theorem PIX_loop (hal : cx.g.alias = []) {n : Nat} (hpl : PLX w cx m n) (bt : BT) (body : List CI)
    (labs : List Lab) (c : CS) (fr : Wasm.Frame) (env : Val → Nat) (st : Wasm.Store)
    (hlabs : LabsOK cx labs) (hinv : InvC cx.lt c.stack c.vars fr env)
    (hne : chkI cx labs c (.loop bt body) ≠ .fail) :
    ResX w cx labs ⟨c.blk, c.pos, env⟩ (chkI cx labs c (.loop bt body))
      (Wasm.execInstr m n (CI.loop bt body).toInstr fr st) n (wtI (.loop bt body)) := by
  simp only [chkI] at hne ⊢
  split at hne
  · exact absurd rfl hne
  · rename_i hp
    rw [if_neg hp]
    split at hne
    · rename_i hj
      rw [if_pos hj]
      split at hne
      · rename_i nb hfin
        simp only [CI.toInstr]
        -- the jump to the header
        simp only [chkJump, Bool.false_eq_true, if_false] at hj
        split at hj
        · rename_i t args hi
          simp only [Bool.and_eq_true, beq_iff_eq] at hj
          obtain ⟨rfl, hedge⟩ := hj
          obtain ⟨T, hT, hTl, hinv'⟩ := edge_sound cx c ⟨c.nb, [], c.stack, false⟩ args fr env hedge hinv
          simp only [List.length_nil, List.take_zero, List.reverse_nil, List.nil_append] at hinv'
          have hh : fr.stack.length = c.stack.length := by rw [← hinv.vals, List.length_map]
          rw [hh, Nat.sub_self, List.drop_zero] at hinv'
          have := hpl body c.nb bt.results c.stack labs fr _ st (c.nb + 2) nb nb hlabs hinv' hfin
          refine ResX.weaken ?_ (ResX.prepend (stepsP_jump w cx.g hal _ _ _ _ env T hi hT hTl).toX this)
          intro fuel hf
          simp only [wtI] at hf
          omega
        · cases hj
      · exact absurd rfl hne
    · exact absurd rfl hne

theorem PIX_unreachable (n : Nat)
    (labs : List Lab) (c : CS) (fr : Wasm.Frame) (env : Val → Nat) (st : Wasm.Store) (N W : Nat) :
    ResX w cx labs ⟨c.blk, c.pos, env⟩ (chkI cx labs c .unreachable)
      (Wasm.execInstr m (n + 1) CI.unreachable.toInstr fr st) N W := by
  simp only [CI.toInstr, Wasm.execInstr]
  trivial

theorem PIX_ret (n : Nat)
    (labs : List Lab) (c : CS) (fr : Wasm.Frame) (env : Val → Nat) (st : Wasm.Store) (N W : Nat) :
    ResX w cx labs ⟨c.blk, c.pos, env⟩ (chkI cx labs c (.op .ret))
      (Wasm.execInstr m (n + 1) (CI.op .ret).toInstr fr st) N W := by
  simp only [CI.toInstr, SI.toInstr, Wasm.execInstr]
  trivial

theorem PIX_localGet (n : Nat) (x : Nat)
    (labs : List Lab) (c : CS) (fr : Wasm.Frame) (env : Val → Nat) (st : Wasm.Store)
    (hinv : InvC cx.lt c.stack c.vars fr env)
    (hne : chkI cx labs c (.op (.localGet x)) ≠ .fail) (N W : Nat) :
    ResX w cx labs ⟨c.blk, c.pos, env⟩ (chkI cx labs c (.op (.localGet x)))
      (Wasm.execInstr m (n + 1) (CI.op (.localGet x)).toInstr fr st) N W := by
  simp only [chkI] at hne ⊢
  simp only [CI.toInstr, SI.toInstr, Wasm.execInstr]
  split at hne
  · rename_i t v hlt hv
    split at hne
    · rename_i hty
      rw [if_pos hty]
      obtain ⟨h1, h2, h3⟩ := hinv.var x v (vars_getD hv)
      refine ⟨_, env, rfl, StepsX.refl _ _ _, ?_⟩
      have := hinv.push v h3
      rw [h1] at this
      exact this
    · exact absurd rfl hne
  · exact absurd rfl hne

theorem PIX_localSet (n : Nat) (x : Nat)
    (labs : List Lab) (c : CS) (fr : Wasm.Frame) (env : Val → Nat) (st : Wasm.Store)
    (hinv : InvC cx.lt c.stack c.vars fr env)
    (hne : chkI cx labs c (.op (.localSet x)) ≠ .fail) (N W : Nat) :
    ResX w cx labs ⟨c.blk, c.pos, env⟩ (chkI cx labs c (.op (.localSet x)))
      (Wasm.execInstr m (n + 1) (CI.op (.localSet x)).toInstr fr st) N W := by
  simp only [chkI] at hne ⊢
  simp only [CI.toInstr, SI.toInstr, Wasm.execInstr]
  split at hne
  · rename_i v stk t hstk hlt
    split at hne
    · rename_i hc
      rw [if_pos hc]
      rw [hstk] at hinv
      obtain ⟨hfs, hr, hinv'⟩ := hinv.pop
      rw [hfs]
      refine ⟨_, env, rfl, StepsX.refl _ _ _, ?_⟩
      exact hinv'.setVar x v hc.2 (by rw [hlt, hc.1]) hr
    · exact absurd rfl hne
  · exact absurd rfl hne

theorem PIX_localTee (n : Nat) (x : Nat)
    (labs : List Lab) (c : CS) (fr : Wasm.Frame) (env : Val → Nat) (st : Wasm.Store)
    (hinv : InvC cx.lt c.stack c.vars fr env)
    (hne : chkI cx labs c (.op (.localTee x)) ≠ .fail) (N W : Nat) :
    ResX w cx labs ⟨c.blk, c.pos, env⟩ (chkI cx labs c (.op (.localTee x)))
      (Wasm.execInstr m (n + 1) (CI.op (.localTee x)).toInstr fr st) N W := by
  simp only [chkI] at hne ⊢
  simp only [CI.toInstr, SI.toInstr, Wasm.execInstr]
  split at hne
  · rename_i v stk t hstk hlt
    split at hne
    · rename_i hc
      rw [if_pos hc]
      have hinv0 := hinv
      rw [hstk] at hinv
      obtain ⟨hfs, hr, _⟩ := hinv.pop
      rw [hfs]
      refine ⟨_, env, rfl, StepsX.refl _ _ _, ?_⟩
      have := hinv0.setVar x v hc.2 (by rw [hlt, hc.1]) hr
      rw [hfs] at this
      exact this
    · exact absurd rfl hne
  · exact absurd rfl hne

theorem PIX_plain (n : Nat) (i : SI) (hi : isPlain i = true)
    (labs : List Lab) (c : CS) (fr : Wasm.Frame) (env : Val → Nat) (st : Wasm.Store)
    (hinv : InvC cx.lt c.stack c.vars fr env)
    (hne : chkOp cx c i ≠ .fail) (N W : Nat) :
    ResX w cx labs ⟨c.blk, c.pos, env⟩ (chkOp cx c i) (Wasm.execInstr m (n + 1) i.toInstr fr st) N W := by
  rw [chkOp_eq] at hne ⊢
  generalize opR cx c i = r at hne ⊢
  cases htc : tcStep [] i (c.stack.map (·.2)) with
  | none => simp [htc] at hne
  | some tys' =>
    simp only [htc] at hne ⊢
    split at hne
    · rename_i hc
      rw [if_pos hc]
      simp only [Bool.and_eq_true] at hc
      obtain ⟨hfr, hexp⟩ := hc
      have hfresh : ∀ p ∈ c.stack, ∀ q ∈ resultsOf i r c.stack, p.1 ≠ q := by
        intro p hp q hq heq
        simp only [freshFor, List.all_eq_true, Bool.and_eq_true, Bool.not_eq_true', List.contains_eq_mem,
          decide_eq_false_iff_not] at hfr
        have := (hfr q hq).1
        apply this
        rw [← heq]
        exact List.mem_map_of_mem hp
      have hvfresh : ∀ (x : Nat) (v : TV), c.vars[x]? = some (some v) → v.1 ∉ resultsOf i r c.stack := by
        intro x v hx hq
        simp only [freshFor, List.all_eq_true, Bool.and_eq_true, Bool.not_eq_true', List.contains_eq_mem,
          decide_eq_false_iff_not] at hfr
        exact (hfr _ hq).2 (mem_varIds hx)
      obtain ⟨fs, fl⟩ := fr
      rcases sim_plain w m i hi r c.stack (c.stack.map (·.2)) tys' fs fl env st n
          ⟨hinv.vals, rfl, hinv.rng⟩ hfresh htc with
        ⟨stack', env', hsp, hss, hinv', hframe⟩ | ⟨code, fr', hsp, hss, hcode⟩
      · rw [hsp]
        refine ⟨_, env', rfl, stepsX_straight w cx.g c.blk c.pos _ env env' (drop_of_expect hexp) hss, ?_⟩
        refine ⟨hinv'.vals, hinv'.rng, hinv.vlen, hinv.llen, ?_⟩
        intro x v hx
        rw [hframe v.1 (hvfresh x v hx)]
        exact hinv.var x v hx
      · rw [hsp]
        trivial
    · exact absurd rfl hne

theorem PIX_ite (hal : cx.g.alias = []) {n : Nat} (hpa : PAX w cx m n) (bt : BT) (he : Bool) (th el : List CI)
    (labs : List Lab) (c : CS) (fr : Wasm.Frame) (env : Val → Nat) (st : Wasm.Store)
    (hlabs : LabsOK cx labs) (hinv : InvC cx.lt c.stack c.vars fr env)
    (hne : chkI cx labs c (.ite bt he th el) ≠ .fail) :
    ResX w cx labs ⟨c.blk, c.pos, env⟩ (chkI cx labs c (.ite bt he th el))
      (Wasm.execInstr m (n + 1) (CI.ite bt he th el).toInstr fr st) (n + 1) (wtI (.ite bt he th el)) := by
  obtain ⟨blk, pos, stack, vars, nb⟩ := c
  cases stack with
  | nil => simp [chkI] at hne
  | cons v stk =>
    simp only [chkI] at hne ⊢
    split at hne
    · exact absurd rfl hne
    · rename_i hp
      rw [if_neg hp]
      split at hne
      · exact absurd rfl hne
      · rename_i hq
        rw [if_neg hq]
        split at hne
        · rename_i cv tE argsE hiE
          split at hne
          · rename_i tT argsT hiT
            split at hne
            · rename_i hc
              rw [if_pos hc]
              obtain ⟨hv, hbr, hj⟩ := hc
              split at hne
              · rename_i nb1 hfin1
                split at hne
                · rename_i nb2 hfin2
                  simp only [Bool.and_eq_true, beq_iff_eq] at hbr hj
                  obtain ⟨⟨hcv, htE⟩, hedgeE⟩ := hbr
                  obtain ⟨htT, hedgeT⟩ := hj
                  subst hcv htE htT
                  obtain ⟨fstack, flocals⟩ := fr
                  have hvals : env v.1 :: stk.map (fun p => env p.1) = fstack := hinv.vals
                  subst hvals
                  have hrng : env v.1 < 2 ^ 32 := by
                    have := hinv.rng v (List.mem_cons_self ..)
                    rw [hv] at this; exact this
                  have hinvP : InvC cx.lt stk vars ⟨stk.map (fun p => env p.1), flocals⟩ env :=
                    ⟨rfl, fun p hp => hinv.rng p (List.mem_cons_of_mem _ hp), hinv.vlen, hinv.llen, hinv.var⟩
                  simp only [CI.toInstr, Wasm.execInstr, Nat.mod_eq_of_lt hrng]
                  by_cases h0 : env v.1 = 0
                  · -- else arm
                    obtain ⟨TE, hTE, hTEl, hinvE⟩ := edge_sound cx ⟨blk, pos, stk, vars, tT⟩
                      ⟨tT + 1, [], stk, false⟩ argsE ⟨stk.map (fun p => env p.1), flocals⟩ env hedgeE hinvP
                    simp only [List.length_nil, List.take_zero, List.reverse_nil, List.nil_append, List.length_map,
                      Nat.sub_self, List.drop_zero] at hinvE
                    have hsE := stepsP_brz_taken w cx.g hal blk pos v.1 (tT + 1) argsE env TE hiE h0 hTE hTEl
                    have hE := hpa el ⟨tT + 2, bt.results, stk, false⟩ labs (entryCS cx (tT + 1) 0 stk nb1)
                      ⟨stk.map (fun p => env p.1), flocals⟩ _ st nb2 nb2 hlabs rfl (entryCS_stack0 ..)
                      (by rw [entryCS_stack0]; exact hinvE) hfin2
                    simp only [h0, bne_self_eq_false, Bool.false_eq_true, if_false]
                    refine ResX.weaken ?_ (ResX.prepend hsE.toX hE)
                    intro fuel hf
                    simp only [wtI] at hf
                    omega
                  · -- then arm
                    obtain ⟨TT, hTT, hTTl, hinvT⟩ := edge_sound cx ⟨blk, pos, stk, vars, tT⟩
                      ⟨tT, [], stk, false⟩ argsT ⟨stk.map (fun p => env p.1), flocals⟩ env hedgeT hinvP
                    simp only [List.length_nil, List.take_zero, List.reverse_nil, List.nil_append, List.length_map,
                      Nat.sub_self, List.drop_zero] at hinvT
                    have hs1 := stepsX_brz_not w cx.g blk pos v.1 (tT + 1) argsE env hiE h0
                    have hs2 := stepsP_jump w cx.g hal blk (pos + 1) tT argsT env TT hiT hTT hTTl
                    have hT := hpa th ⟨tT + 2, bt.results, stk, false⟩ labs (entryCS cx tT 0 stk (tT + 3))
                      ⟨stk.map (fun p => env p.1), flocals⟩ _ st nb1 nb2 hlabs rfl (entryCS_stack0 ..)
                      (by rw [entryCS_stack0]; exact hinvT) hfin1
                    have hb : (env v.1 != 0) = true := by simp [h0]
                    simp only [hb, if_true]
                    refine ResX.weaken ?_ (ResX.prepend (hs1.trans hs2.toX) hT)
                    intro fuel hf
                    simp only [wtI] at hf
                    omega
                · exact absurd rfl hne
              · exact absurd rfl hne
            · exact absurd rfl hne
          · simp at hne
        · simp at hne

theorem PIX_brIf (hal : cx.g.alias = []) (n : Nat) (l : Nat)
    (labs : List Lab) (c : CS) (fr : Wasm.Frame) (env : Val → Nat) (st : Wasm.Store)
    (hinv : InvC cx.lt c.stack c.vars fr env)
    (hne : chkI cx labs c (.brIf l) ≠ .fail) (N W : Nat) :
    ResX w cx labs ⟨c.blk, c.pos, env⟩ (chkI cx labs c (.brIf l))
      (Wasm.execInstr m (n + 1) (CI.brIf l).toInstr fr st) N W := by
  cases hstk : c.stack with
  | nil => simp [chkI, hstk] at hne
  | cons v stk =>
    cases hl : labs[l]? with
    | none => simp [chkI, hstk, hl] at hne
    | some lab =>
      simp only [chkI, hstk, hl] at hne ⊢
      simp only [ne_eq, ite_eq_right_iff, reduceCtorEq, imp_false, Classical.not_not] at hne
      rw [if_pos hne]
      obtain ⟨hty, hbr, hj⟩ := hne
      rw [hstk] at hinv
      obtain ⟨hfs, hinv1⟩ := hinv.pop'
      have hcv : env v.1 % 2 ^ 32 = env v.1 := by
        have := hinv.rng v (List.mem_cons_self)
        rw [hty] at this
        exact Nat.mod_eq_of_lt this
      simp only [CI.toInstr, Wasm.execInstr, hfs, hcv]
      split at hbr
      · rename_i cv t args hi
        split at hj
        · rename_i tE argsE hiE
          simp only [Bool.and_eq_true, beq_iff_eq] at hbr hj
          obtain ⟨⟨rfl, rfl⟩, hbr⟩ := hbr
          obtain ⟨rfl, hedgeE⟩ := hj
          by_cases hz : env v.1 = 0
          · have hb : (env v.1 != 0) = false := by simp [hz]
            rw [hb]
            simp only [Bool.false_eq_true, if_false]
            obtain ⟨T, hT, hTl, hinv'⟩ := edge_sound cx { c with stack := stk } ⟨c.nb, [], stk, false⟩ argsE
              ⟨stk.map (fun p => env p.1), fr.locals⟩ env hedgeE hinv1
            simp only [List.length_nil, List.take_zero, List.reverse_nil, List.nil_append, List.length_map,
              Nat.sub_self, List.drop_zero] at hinv'
            refine ⟨entryCS cx c.nb 0 stk (c.nb + 1), _, rfl,
              (stepsX_brnz_not w cx.g _ _ _ _ _ env hi hz).trans
                (stepsP_jump w cx.g hal _ _ _ _ env T hiE hT hTl).toX, ?_⟩
            rw [entryCS_stack0]
            exact hinv'
          · have hb : (env v.1 != 0) = true := by simp [hz]
            rw [if_pos hb]
            show BrX w cx labs l _ ⟨stk.map (fun p => env p.1), fr.locals⟩
            unfold BrX
            simp only [hl]
            by_cases hr : lab.isRet = true
            · rw [if_pos hr]
              trivial
            · rw [if_neg hr] at hbr ⊢
              obtain ⟨T, hT, hTl, hinv'⟩ := edge_sound cx { c with stack := stk } lab args
                ⟨stk.map (fun p => env p.1), fr.locals⟩ env hbr hinv1
              exact ⟨hasPred_of_instr hi rfl, _, stepsP_brnz_taken w cx.g hal _ _ _ _ _ env T hi hz hT hTl, hinv'⟩
        · cases hj
      · cases hbr

theorem sim_allX (hal : cx.g.alias = []) : ∀ n, PIX w cx m n ∧ PSX w cx m n ∧ PAX w cx m n ∧ PLX w cx m n := by
  intro n
  induction n with
  | zero =>
    refine ⟨?_, ?_, ?_, ?_⟩
    · intro i labs c fr env st _ _ _
      simp only [Wasm.execInstr]
      exact ResX.exh0 (wtI_pos i)
    · intro is labs c fr env st _ _ _
      simp only [Wasm.execSeq]
      exact ResX.exh0 (wtL_pos is)
    · intro b lab labs c fr env st nb nbx _ _ _ _ _
      simp only [Wasm.execInstr]
      exact ResX.exh0 (by omega)
    · intro b H tys stk labs fr env st nb2 nb nbx _ _ _
      simp only [Wasm.execInstr]
      exact ResX.exh0 (by omega)
  | succ n ih =>
    obtain ⟨hpi, hps, hpa, hpl⟩ := ih
    have hpa' : PAX w cx m (n + 1) := PAX_succ hal hps
    have hpl' : PLX w cx m (n + 1) := PLX_succ hal hps hpl
    refine ⟨?_, PSX_succ hpi hps, hpa', hpl'⟩
    intro i labs c fr env st hlabs hinv hne
    cases i with
    | op si =>
      by_cases hp : isPlain si = true
      · rw [chkI_plain labs c si hp] at hne ⊢
        exact PIX_plain n si hp labs c fr env st hinv hne _ _
      · cases si with
        | ret => exact PIX_ret n labs c fr env st _ _
        | localGet x => exact PIX_localGet n x labs c fr env st hinv hne _ _
        | localSet x => exact PIX_localSet n x labs c fr env st hinv hne _ _
        | localTee x => exact PIX_localTee n x labs c fr env st hinv hne _ _
        | _ => exact absurd rfl hp
    | unreachable => exact PIX_unreachable n labs c fr env st _ _
    | br l => exact PIX_br hal n l labs c fr env st hinv hne _ _
    | brIf l => exact PIX_brIf hal n l labs c fr env st hinv hne _ _
    | block bt body => exact PIX_block hal hpa' bt body labs c fr env st hlabs hinv hne
    | loop bt body => exact PIX_loop hal hpl' bt body labs c fr env st hlabs hinv hne
    | ite bt he th el => exact PIX_ite hal hpa bt he th el labs c fr env st hlabs hinv hne

/-! ### whole functions -/

/-- **Divergence is preserved**: if the reference semantics exhausts every budget, the SSA run of `lowerCF f` is out of
fuel for every fuel. -/
theorem diverges_validated (f : Function) (hv : validate f = true) (args : List Nat) (hargs : ArgsOK f.sig args)
    (w : World) (ec mc : Nat) (hdiv : ∀ n, Wz.Model.FrontendCF.runSpec f args n = .exhausted) :
    ∀ fuel, run w (lowerCF f) (ec :: mc :: args) fuel = .outOfFuel := by
  intro fuel
  simp only [validate, Bool.and_eq_true] at hv
  obtain ⟨hentry, hbody⟩ := hv
  cases fuel with
  | zero => rfl
  | succ fuel =>
    have hlen : args.length = f.params.length := hargs.1
    have hrun : run w (lowerCF f) (ec :: mc :: args) (fuel + 1) =
        run w (ctxOf f).g (ec :: mc :: args) (fuel + 1) := (resolveOps_run w (lowerCF f) _ _).symm
    rw [hrun, run_start w f hentry args hargs ec mc fuel]
    have hex := hdiv (fuel + wtL f.body + 1)
    rw [runSpec_succ f args hlen] at hex
    obtain ⟨h0, hinv⟩ := start_inv f args hargs ec mc
    have hinv' : InvC (ctxOf f).lt (startCS f).stack (startCS f).vars
        ⟨[], (args ++ f.locals.map (fun _ => 0)).toArray⟩ (entryEnv f.sig ec mc args) := hinv
    have hne : chkL (ctxOf f) [retLab f] (startCS f) f.body ≠ .fail := by
      intro h; rw [h] at hbody; cases hbody
    have hsim := (sim_allX (w := w) (cx := ctxOf f) (m := f.toModule) (ctxOf_alias f) (fuel + wtL f.body)).2.1
      f.body [retLab f] (startCS f) ⟨[], (args ++ f.locals.map (fun _ => 0)).toArray⟩ (entryEnv f.sig ec mc args) {}
      (labsOK_ret f) hinv' hne
    generalize Wasm.execSeq f.toModule (fuel + wtL f.body) (toInstrs f.body)
      ⟨[], (args ++ f.locals.map (fun _ => 0)).toArray⟩ {} = out at hsim hex
    obtain ⟨ctl, fr', st'⟩ := out
    cases ctl with
    | next => cases hex
    | br l => cases hex
    | ret => cases hex
    | trap k => cases hex
    | exhausted =>
      have hd : Div w (ctxOf f).g ⟨(startCS f).blk, (startCS f).pos, entryEnv f.sig ec mc args⟩
          (fuel + wtL f.body) (wtL f.body) := hsim
      exact hd fuel (Nat.le_refl _)

/-- **Validated refinement, backward direction**: every outcome of the SSA run of `lowerCF f` other than "out of
fuel" is the outcome of the reference semantics with some budget. -/
theorem refines_validated_backward (f : Function) (hv : validate f = true) (args : List Nat)
    (hargs : ArgsOK f.sig args) (w : World) (ec mc : Nat) (fuel : Nat) (o : Outcome)
    (h : run w (lowerCF f) (ec :: mc :: args) fuel = o) (ho : o ≠ .outOfFuel) :
    ∃ n, Wz.Model.FrontendCF.runSpec f args n ≠ .exhausted ∧
      ofSpecCF (Wz.Model.FrontendCF.runSpec f args n) = o := by
  by_cases hex : ∃ n, Wz.Model.FrontendCF.runSpec f args n ≠ .exhausted
  · obtain ⟨n, hn⟩ := hex
    obtain ⟨k, hk⟩ := refines_validated f hv args hargs w ec mc n hn
    refine ⟨n, hn, ?_⟩
    rw [← hk fuel]
    exact run_mono w (lowerCF f) _ fuel k o h ho
  · have hall : ∀ n, Wz.Model.FrontendCF.runSpec f args n = .exhausted := by
      intro n
      exact Classical.byContradiction (fun hn => hex ⟨n, hn⟩)
    have := diverges_validated f hv args hargs w ec mc hall fuel
    rw [this] at h
    exact absurd h.symm ho

end Wz.Proofs.FrontCF
