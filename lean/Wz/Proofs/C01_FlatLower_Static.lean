/-
C01 (lowering), static facts about the lowering: the static height agrees with the type stack, label
definitions are unique and lie in the id interval allotted to a piece of code, label addresses.
-/
import Wz.Proofs.C01_FlatLower_Basic

namespace Wz.Proofs.FlatLower
open Wz.Spec Wz.Spec.Wasm Wz.Model.FlatLower

/-! ## label definitions and addresses -/

def labelsOf : List SymOp → List Label
  | [] => []
  | .label l :: rest => l :: labelsOf rest
  | _ :: rest => labelsOf rest

theorem labelsOf_append (a b : List SymOp) : labelsOf (a ++ b) = labelsOf a ++ labelsOf b := by
  induction a with
  | nil => rfl
  | cons o a ih => cases o <;> simp [labelsOf, ih]

theorem addrFrom_not_mem {l : Label} : ∀ (ops : List SymOp) (i acc : Nat), l ∉ labelsOf ops → addrFrom l ops i acc = acc := by
  intro ops
  induction ops with
  | nil => intro i acc _; rfl
  | cons o ops ih =>
    intro i acc h
    cases o with
    | label l' =>
      simp only [labelsOf, List.mem_cons, not_or] at h
      simp only [addrFrom]
      rw [if_neg (fun e => h.1 e.symm)]
      exact ih _ _ h.2
    | _ => simp only [labelsOf] at h; simp only [addrFrom]; exact ih _ _ h

theorem addrFrom_append {l : Label} : ∀ (pre ops : List SymOp) (i acc : Nat),
    addrFrom l (pre ++ ops) i acc = addrFrom l ops (i + pre.length) (addrFrom l pre i acc) := by
  intro pre
  induction pre with
  | nil => intro ops i acc; simp [addrFrom]
  | cons o pre ih =>
    intro ops i acc
    cases o <;> simp only [List.cons_append, addrFrom, ih, List.length_cons] <;> congr 1 <;> omega

/-- with unique label definitions the address of a label is the position of its definition -/
theorem addrOf_at {sym : List SymOp} {pc : Nat} {l : Label} {rest : List SymOp}
    (hnd : (labelsOf sym).Nodup) (hat : At sym pc (.label l :: rest)) : addrOf sym l = pc := by
  obtain ⟨pre, post, rfl, hl⟩ := hat
  have hnot : l ∉ labelsOf (rest ++ post) := by
    rw [List.append_assoc, labelsOf_append] at hnd
    simp only [List.cons_append, labelsOf] at hnd
    have := (List.nodup_append.mp hnd).2.1
    exact (List.nodup_cons.mp this).1
  unfold addrOf
  rw [List.append_assoc, addrFrom_append]
  simp only [List.cons_append, addrFrom, if_true]
  rw [addrFrom_not_mem _ _ _ hnot]
  omega

theorem resolveT_at {sym : List SymOp} {pc : Nat} {l : Label} {rest : List SymOp}
    (hnd : (labelsOf sym).Nodup) (hat : At sym pc (.label l :: rest)) (hk : l.kind ≠ .ret) :
    resolveT sym l = pc := by
  unfold resolveT
  cases hkk : l.kind <;> simp_all [addrOf_at hnd hat]

/-! ## static heights -/

theorem btTypes_length (bt : Option Ty) : (btTypes bt).length = arity bt := by
  cases bt <;> rfl

/-- the static height after an instruction is the height of the type stack -/
theorem lowerI_h {C : Ctx} {st : List Ty} {i : FI} {res} (fs : List Fr) (b next : Nat)
    (hc : checkI C st i = some res) :
    (lowerI fs (b + st.length) next i).h = res.map (fun st' => b + st'.length) := by
  cases i with
  | const t v => simp only [checkI] at hc; cases hc; simp [lowerI]; omega
  | num1 n =>
    simp only [checkI] at hc
    split at hc
    · split at hc
      · cases hc; simp [lowerI]
      · cases hc
    · cases hc
  | num2 n =>
    simp only [checkI] at hc
    split at hc
    · split at hc
      · cases hc; simp [lowerI]
      · cases hc
    · cases hc
  | localGet i =>
    simp only [checkI] at hc
    split at hc
    · cases hc; simp [lowerI]; omega
    · cases hc
  | localSet i =>
    simp only [checkI] at hc
    split at hc
    · split at hc
      · cases hc; simp [lowerI]
      · cases hc
    · cases hc
  | localTee i =>
    simp only [checkI] at hc
    split at hc
    · split at hc
      · cases hc; simp [lowerI]
      · cases hc
    · cases hc
  | drop =>
    simp only [checkI] at hc
    split at hc
    · cases hc; simp [lowerI]
    · cases hc
  | select =>
    simp only [checkI] at hc
    split at hc
    · split at hc
      · cases hc; simp [lowerI]; omega
      · cases hc
    · cases hc
  | unreachable => simp only [checkI] at hc; cases hc; simp [lowerI]
  | ret =>
    simp only [checkI] at hc
    split at hc
    · cases hc; simp [lowerI]
    · cases hc
  | br l =>
    simp only [checkI] at hc
    split at hc
    · split at hc
      · cases hc; simp [lowerI]
      · cases hc
    · cases hc
  | brIf l =>
    simp only [checkI] at hc
    split at hc
    · split at hc
      · cases hc; simp [lowerI]
      · cases hc
    · cases hc
  | brTable ls d =>
    simp only [checkI] at hc
    split at hc
    · split at hc
      · cases hc; simp [lowerI]
      · cases hc
    · cases hc
  | block bt body =>
    simp only [checkI] at hc
    split at hc
    · cases hc; simp [lowerI, btTypes_length]; omega
    · cases hc
  | loop bt body =>
    simp only [checkI] at hc
    split at hc
    · cases hc; simp [lowerI, btTypes_length]; omega
    · cases hc
  | ite bt th el =>
    simp only [checkI] at hc
    split at hc
    · split at hc
      · cases hc; simp [lowerI, btTypes_length]; omega
      · cases hc
    · cases hc

theorem lowerS_h {C : Ctx} (fs : List Fr) (b : Nat) : ∀ (is : List FI) (st : List Ty) (next : Nat) res,
    checkS C st is = some res →
    (lowerS fs (b + st.length) next is).h = res.map (fun st' => b + st'.length) := by
  intro is
  induction is with
  | nil => intro st next res hc; simp only [checkS] at hc; cases hc; simp [lowerS]
  | cons i rest ih =>
    intro st next res hc
    simp only [checkS] at hc
    split at hc
    · cases hc
    · rename_i hi
      cases hc
      have := lowerI_h fs b next hi
      simp only [lowerS]
      split
      · simpa using this
      · rename_i h' hh; rw [hh] at this; simp at this
    · rename_i st' hi
      have h1 := lowerI_h fs b next hi
      simp only [lowerS]
      split
      · rename_i hh; rw [hh] at h1; simp at h1
      · rename_i h' hh
        rw [hh] at h1
        simp only [Option.map_some, Option.some.injEq] at h1
        subst h1
        exact ih st' _ res hc

/-! ## the shape of the code of structured instructions -/

/-- the code emitted at the `end` of a block -/
def blockTail (id h : Nat) (bt : Option Ty) (body : List FI) (rh : Option Nat) : List SymOp :=
  match rh with
  | some h' => emitDrop (dropRange ⟨.block, id, h, arity bt⟩ true h') ++
      (if targetsS 0 body then [.br ⟨.cont, id⟩, .label ⟨.cont, id⟩] else [])
  | none => [.label ⟨.cont, id⟩]

theorem lowerI_block (fs : List Fr) (h next : Nat) (bt : Option Ty) (body : List FI) :
    (lowerI fs h next (.block bt body)).ops =
      (lowerS (⟨.block, next + 1, h, arity bt⟩ :: fs) h (next + 1) body).ops ++
        blockTail (next + 1) h bt body (lowerS (⟨.block, next + 1, h, arity bt⟩ :: fs) h (next + 1) body).h := by
  simp only [lowerI, blockTail]
  cases (lowerS (⟨.block, next + 1, h, arity bt⟩ :: fs) h (next + 1) body).h <;> rfl

def iteMid (F : Fr) (id : Nat) (rh : Option Nat) : List SymOp :=
  match rh with
  | some h' => emitDrop (dropRange F false h') ++ [.br ⟨.cont, id⟩, .label ⟨.els, id⟩]
  | none => [.label ⟨.els, id⟩]

def iteTail (F : Fr) (id : Nat) (rh : Option Nat) : List SymOp :=
  match rh with
  | some h' => emitDrop (dropRange F true h') ++ [.br ⟨.cont, id⟩, .label ⟨.cont, id⟩]
  | none => [.label ⟨.cont, id⟩]

theorem lowerI_ite (fs : List Fr) (h next : Nat) (bt : Option Ty) (th el : List FI) :
    (lowerI fs h next (.ite bt th el)).ops =
      [.brIf ⟨.header, next + 1⟩ ⟨.els, next + 1⟩ none, .label ⟨.header, next + 1⟩] ++
        (lowerS (⟨.ite, next + 1, h - 1, arity bt⟩ :: fs) (h - 1) (next + 1) th).ops ++
        iteMid ⟨.ite, next + 1, h - 1, arity bt⟩ (next + 1)
          (lowerS (⟨.ite, next + 1, h - 1, arity bt⟩ :: fs) (h - 1) (next + 1) th).h ++
        (lowerS (⟨.ite, next + 1, h - 1, arity bt⟩ :: fs) (h - 1)
          (lowerS (⟨.ite, next + 1, h - 1, arity bt⟩ :: fs) (h - 1) (next + 1) th).next el).ops ++
        iteTail ⟨.ite, next + 1, h - 1, arity bt⟩ (next + 1)
          (lowerS (⟨.ite, next + 1, h - 1, arity bt⟩ :: fs) (h - 1)
            (lowerS (⟨.ite, next + 1, h - 1, arity bt⟩ :: fs) (h - 1) (next + 1) th).next el).h := by
  simp only [lowerI, iteMid, iteTail]
  cases (lowerS (⟨.ite, next + 1, h - 1, arity bt⟩ :: fs) (h - 1) (next + 1) th).h <;>
    cases (lowerS (⟨.ite, next + 1, h - 1, arity bt⟩ :: fs) (h - 1)
      (lowerS (⟨.ite, next + 1, h - 1, arity bt⟩ :: fs) (h - 1) (next + 1) th).next el).h <;> rfl

def loopTail (F : Fr) (id : Nat) (rh : Option Nat) : List SymOp :=
  match rh with
  | some h' => emitDrop (dropRange F true h')
  | none => [.label ⟨.cont, id⟩]

theorem lowerI_loop (fs : List Fr) (h next : Nat) (bt : Option Ty) (body : List FI) :
    (lowerI fs h next (.loop bt body)).ops =
      [.br ⟨.header, next + 1⟩, .label ⟨.header, next + 1⟩] ++
        (lowerS (⟨.loop, next + 1, h, arity bt⟩ :: fs) h (next + 1) body).ops ++
        loopTail ⟨.loop, next + 1, h, arity bt⟩ (next + 1)
          (lowerS (⟨.loop, next + 1, h, arity bt⟩ :: fs) h (next + 1) body).h := by
  simp only [lowerI, loopTail]
  cases (lowerS (⟨.loop, next + 1, h, arity bt⟩ :: fs) h (next + 1) body).h <;> rfl


end Wz.Proofs.FlatLower
