/-
C07 — lemmas about the control model `Wz.Model.Ctl`: sizes, the well-formedness invariant of
execution states, the shape of every step, and accessibility (no infinite check-free execution).
Core Lean only.
-/
import Wz.Model.Ctl

namespace Wz.C07
open Wz.Model.Ctl

/-! ## sizes -/

mutual
def sizeI : Instr → Nat
  | .block b => sizeS b + 2
  | .loop b => sizeS b + 2
  | .ite t e => sizeS t + sizeS e + 2
  | .op => 1
  | .check => 1
  | .br _ => 1
  | .brIf _ => 1
  | .brTable _ _ => 1
  | .call _ => 1
  | .callIndirect => 1
  | .returnCall _ _ => 1
  | .returnCallIndirect _ => 1
  | .ret => 1
  | .host _ => 1
def sizeS : Seq → Nat
  | .nil => 0
  | .cons i s => sizeI i + sizeS s
end

theorem sizeI_pos (i : Instr) : 0 < sizeI i := by
  cases i <;> simp [sizeI]

def lblSize : Lbl → Nat
  | .blk a => 1 + sizeS a
  | .lp _ a => 1 + sizeS a

def lblsSize : List Lbl → Nat
  | [] => 0
  | l :: ls => lblSize l + lblsSize ls

/-- The measure of a frame: what is left to execute in it without taking a backward branch. -/
def mu (fr : Frame) : Nat := 1 + sizeS fr.cur + lblsSize fr.lbls

/-! ## the invariant of execution states -/

def wfLbl (req : Bool) : Lbl → Bool
  | .blk a => wfS req a
  | .lp b a => startsWithCheck b && wfS req b && wfS req a

def wfLbls (req : Bool) : List Lbl → Bool
  | [] => true
  | l :: ls => wfLbl req l && wfLbls req ls

def wfFrame (req : Bool) (fr : Frame) : Bool := wfS req fr.cur && wfLbls req fr.lbls

def wfStack (req : Bool) : Stack → Bool
  | [] => true
  | fr :: st => wfFrame req fr && wfStack req st

/-! ## the lowering produces well-formed code -/

mutual
theorem wfI_lower (tc req : Bool) (h : req = true → tc = true) : ∀ i, wfI req (lowerI tc i) = true
  | .block b => by simp [lowerI, wfI, wfS_lower tc req h b]
  | .loop b => by simp [lowerI, wfI, wfS, startsWithCheck, wfS_lower tc req h b]
  | .ite t e => by simp [lowerI, wfI, wfS_lower tc req h t, wfS_lower tc req h e]
  | .returnCall _ f => by cases req <;> cases tc <;> simp_all [lowerI, wfI]
  | .returnCallIndirect _ => by cases req <;> cases tc <;> simp_all [lowerI, wfI]
  | .op => by simp [lowerI, wfI]
  | .check => by simp [lowerI, wfI]
  | .br _ => by simp [lowerI, wfI]
  | .brIf _ => by simp [lowerI, wfI]
  | .brTable _ _ => by simp [lowerI, wfI]
  | .call _ => by simp [lowerI, wfI]
  | .callIndirect => by simp [lowerI, wfI]
  | .ret => by simp [lowerI, wfI]
  | .host _ => by simp [lowerI, wfI]
theorem wfS_lower (tc req : Bool) (h : req = true → tc = true) : ∀ s, wfS req (lowerS tc s) = true
  | .nil => by simp [lowerS, wfS]
  | .cons i s => by simp [lowerS, wfS, wfI_lower tc req h i, wfS_lower tc req h s]
end

mutual
theorem wfI_lower_noTail (tc : Bool) : ∀ i, noTailI i = true → wfI true (lowerI tc i) = true
  | .block b, h => by simp [noTailI] at h; simp [lowerI, wfI, wfS_lower_noTail tc b h]
  | .loop b, h => by simp [noTailI] at h; simp [lowerI, wfI, wfS, startsWithCheck, wfS_lower_noTail tc b h]
  | .ite t e, h => by
      simp [noTailI] at h
      simp [lowerI, wfI, wfS_lower_noTail tc t h.1, wfS_lower_noTail tc e h.2]
  | .returnCall _ f, h => by simp [noTailI] at h
  | .returnCallIndirect _, h => by simp [noTailI] at h
  | .op, _ => by simp [lowerI, wfI]
  | .check, _ => by simp [lowerI, wfI]
  | .br _, _ => by simp [lowerI, wfI]
  | .brIf _, _ => by simp [lowerI, wfI]
  | .brTable _ _, _ => by simp [lowerI, wfI]
  | .call _, _ => by simp [lowerI, wfI]
  | .callIndirect, _ => by simp [lowerI, wfI]
  | .ret, _ => by simp [lowerI, wfI]
  | .host _, _ => by simp [lowerI, wfI]
theorem wfS_lower_noTail (tc : Bool) : ∀ s, noTailS s = true → wfS true (lowerS tc s) = true
  | .nil, _ => by simp [lowerS, wfS]
  | .cons i s, h => by
      simp [noTailS] at h
      simp [lowerS, wfS, wfI_lower_noTail tc i h.1, wfS_lower_noTail tc s h.2]
end

theorem wfProg_lower (tc req : Bool) (h : req = true → tc = true) (p : Prog) :
    wfProg req (lowerCtl tc p) = true := by
  simp only [wfProg, lowerCtl, List.all_map, List.all_eq_true]
  intro s _
  exact wfS_lower tc req h s

theorem wfProg_lower_noTail (tc : Bool) (p : Prog) (h : noTailProg p = true) :
    wfProg true (lowerCtl tc p) = true := by
  simp only [wfProg, lowerCtl, List.all_map, List.all_eq_true]
  simp only [noTailProg, List.all_eq_true] at h
  intro s hs
  exact wfS_lower_noTail tc s (h s hs)

theorem wfProg_get (req : Bool) (p : Prog) (hp : wfProg req p = true) (f : Nat) (b : Seq)
    (h : p.funcs[f]? = some b) : wfS req b = true := by
  simp only [wfProg, List.all_eq_true] at hp
  exact hp b (List.mem_of_getElem? h)

/-! ## labels: dropping -/

theorem lblsSize_drop (n : Nat) : ∀ ls : List Lbl, lblsSize (ls.drop n) ≤ lblsSize ls := by
  induction n with
  | zero => intro ls; simp
  | succ n ih =>
    intro ls
    cases ls with
    | nil => simp
    | cons l ls =>
      simp only [List.drop_succ_cons, lblsSize]
      have := ih ls
      omega

theorem wfLbls_drop (req : Bool) (n : Nat) : ∀ ls : List Lbl, wfLbls req ls = true → wfLbls req (ls.drop n) = true := by
  induction n with
  | zero => intro ls h; simpa using h
  | succ n ih =>
    intro ls h
    cases ls with
    | nil => simp [wfLbls]
    | cons l ls =>
      simp only [List.drop_succ_cons]
      simp only [wfLbls, Bool.and_eq_true] at h
      exact ih ls h.2

/-- A branch returns from the function, or lands in a well-formed frame that is either strictly
smaller than the labels it came from or sits on a check (backward branch). -/
theorem branch_shape (req : Bool) (cur : Seq) (lbls : List Lbl) (rest : Stack) (n : Nat)
    (hl : wfLbls req lbls = true) :
    branch ⟨cur, lbls⟩ rest n = rest ∨
    ∃ fr', branch ⟨cur, lbls⟩ rest n = fr' :: rest ∧ wfFrame req fr' = true ∧
      (mu fr' ≤ lblsSize lbls ∨ startsWithCheck fr'.cur = true) := by
  have hsz := lblsSize_drop n lbls
  have hwf := wfLbls_drop req n lbls hl
  unfold branch
  simp only []
  generalize lbls.drop n = d at hsz hwf
  cases d with
  | nil => left; rfl
  | cons l ls =>
    right
    cases l with
    | blk after =>
      simp only [wfLbls, wfLbl, Bool.and_eq_true] at hwf
      refine ⟨⟨after, ls⟩, rfl, ?_, ?_⟩
      · simp [wfFrame, hwf.1, hwf.2]
      · left
        simp only [lblsSize, lblSize] at hsz
        simp only [mu]
        omega
    | lp b after =>
      simp only [wfLbls, wfLbl, Bool.and_eq_true] at hwf
      refine ⟨⟨b, .lp b after :: ls⟩, rfl, ?_, ?_⟩
      · simp [wfFrame, wfLbls, wfLbl, hwf.1.1.1, hwf.1.1.2, hwf.1.2, hwf.2]
      · right; exact hwf.1.1.1

theorem callF_shape (p : Prog) (D f : Nat) (st s' : Stack) (e : Bool)
    (h : callF p D f st = some (s', e)) :
    e = false ∧ st.length < D ∧ ∃ b, p.funcs[f]? = some b ∧ s' = ⟨b, []⟩ :: st := by
  unfold callF at h
  split at h
  · rename_i hlt
    split at h
    · rename_i b hb
      simp only [Option.some.injEq, Prod.mk.injEq] at h
      exact ⟨h.2.symm, hlt, b, hb, h.1.symm⟩
    · simp at h
  · simp at h

theorem tailF_shape (p : Prog) (f : Nat) (chk : Bool) (rest s' : Stack) (e : Bool)
    (h : tailF p f chk rest = some (s', e)) :
    e = chk ∧ ∃ b, p.funcs[f]? = some b ∧ s' = ⟨b, []⟩ :: rest := by
  unfold tailF at h
  split at h
  · rename_i b hb
    simp only [Option.some.injEq, Prod.mk.injEq] at h
    exact ⟨h.2.symm, b, hb, h.1.symm⟩
  · simp at h

/-- The three shapes a step can have. -/
def Shape (D : Nat) (fr : Frame) (rest s' : Stack) (e : Bool) : Prop :=
  (∃ fr', s' = fr' :: rest ∧ wfFrame true fr' = true ∧
      (e = false → (mu fr' < mu fr ∨ startsWithCheck fr'.cur = true)))
  ∨ (s' = rest ∧ e = false)
  ∨ (∃ fr' new, s' = new :: fr' :: rest ∧ e = false ∧ wfFrame true fr' = true ∧
      wfFrame true new = true ∧ mu fr' < mu fr ∧ rest.length + 1 < D)

theorem shape_of_call (p : Prog) (hp : wfProg true p = true) (D f : Nat) (fr fr' : Frame)
    (rest s' : Stack) (e : Bool) (hw : wfFrame true fr' = true) (hmu : mu fr' < mu fr)
    (h : callF p D f (fr' :: rest) = some (s', e)) : Shape D fr rest s' e := by
  obtain ⟨he, hlt, b, hb, hs⟩ := callF_shape p D f _ s' e h
  right; right
  refine ⟨fr', ⟨b, []⟩, hs, he, hw, ?_, hmu, ?_⟩
  · simp [wfFrame, wfLbls, wfProg_get true p hp f b hb]
  · simpa using hlt

theorem shape_of_tail (p : Prog) (hp : wfProg true p = true) (D f : Nat) (chk : Bool) (fr : Frame)
    (rest s' : Stack) (e : Bool) (hchk : chk = true)
    (h : tailF p f chk rest = some (s', e)) : Shape D fr rest s' e := by
  obtain ⟨he, b, hb, hs⟩ := tailF_shape p f chk rest s' e h
  left
  refine ⟨⟨b, []⟩, hs, ?_, ?_⟩
  · simp [wfFrame, wfLbls, wfProg_get true p hp f b hb]
  · intro hf; rw [he, hchk] at hf; cases hf

theorem shape_of_branch (D : Nat) (cur k : Seq) (lbls : List Lbl) (rest s' : Stack) (n : Nat)
    (hl : wfLbls true lbls = true) (hk : 0 < sizeS cur)
    (h : branch ⟨cur, lbls⟩ rest n = s') : Shape D ⟨cur, lbls⟩ rest s' false := by
  rcases branch_shape true cur lbls rest n hl with hb | ⟨fr', hb, hw, hm⟩
  · right; left; exact ⟨by rw [← h, hb], rfl⟩
  · left
    refine ⟨fr', by rw [← h, hb], hw, ?_⟩
    intro _
    rcases hm with hm | hm
    · left; simp only [mu] at *; omega
    · right; exact hm

theorem step_shape (p : Prog) (D : Nat) (hp : wfProg true p = true) (fr : Frame) (rest : Stack)
    (c : Nat) (s' : Stack) (e : Bool) (hfr : wfFrame true fr = true)
    (h : step p D (fr :: rest) c = some (s', e)) : Shape D fr rest s' e := by
  obtain ⟨cur, lbls⟩ := fr
  simp only [wfFrame, Bool.and_eq_true] at hfr
  obtain ⟨hcur, hlbls⟩ := hfr
  unfold step at h
  simp only [] at h
  cases cur with
  | nil =>
    simp only [] at h
    cases lbls with
    | nil =>
      simp only [Option.some.injEq, Prod.mk.injEq] at h
      right; left; exact ⟨h.1.symm, h.2.symm⟩
    | cons l ls =>
      simp only [wfLbls, Bool.and_eq_true] at hlbls
      cases l with
      | blk after =>
        simp only [Option.some.injEq, Prod.mk.injEq] at h
        simp only [wfLbl] at hlbls
        left
        refine ⟨⟨after, ls⟩, h.1.symm, by simp [wfFrame, hlbls.1, hlbls.2], ?_⟩
        intro _; left; simp only [mu, lblsSize, lblSize, sizeS]; omega
      | lp b after =>
        simp only [Option.some.injEq, Prod.mk.injEq] at h
        simp only [wfLbl, Bool.and_eq_true] at hlbls
        left
        refine ⟨⟨after, ls⟩, h.1.symm, by simp [wfFrame, hlbls.1.2, hlbls.2], ?_⟩
        intro _; left; simp only [mu, lblsSize, lblSize, sizeS]; omega
  | cons i k =>
    simp only [wfS, Bool.and_eq_true] at hcur
    obtain ⟨hi, hk⟩ := hcur
    have hpos := sizeI_pos i
    cases i with
    | op =>
      simp only [Option.some.injEq, Prod.mk.injEq] at h
      left
      refine ⟨⟨k, lbls⟩, h.1.symm, by simp [wfFrame, hk, hlbls], ?_⟩
      intro _; left; simp only [mu, sizeS, sizeI]; omega
    | check =>
      simp only [Option.some.injEq, Prod.mk.injEq] at h
      left
      refine ⟨⟨k, lbls⟩, h.1.symm, by simp [wfFrame, hk, hlbls], ?_⟩
      intro hf; rw [← h.2] at hf; cases hf
    | block b =>
      simp only [Option.some.injEq, Prod.mk.injEq] at h
      simp only [wfI] at hi
      left
      refine ⟨⟨b, .blk k :: lbls⟩, h.1.symm, by simp [wfFrame, wfLbls, wfLbl, hi, hk, hlbls], ?_⟩
      intro _; left; simp only [mu, sizeS, sizeI, lblsSize, lblSize]; omega
    | loop b =>
      simp only [Option.some.injEq, Prod.mk.injEq] at h
      simp only [wfI, Bool.and_eq_true] at hi
      left
      refine ⟨⟨b, .lp b k :: lbls⟩, h.1.symm, by simp [wfFrame, wfLbls, wfLbl, hi.1, hi.2, hk, hlbls], ?_⟩
      intro _; left; simp only [mu, sizeS, sizeI, lblsSize, lblSize]; omega
    | ite t el =>
      simp only [Option.some.injEq, Prod.mk.injEq] at h
      simp only [wfI, Bool.and_eq_true] at hi
      left
      refine ⟨⟨if c = 0 then el else t, .blk k :: lbls⟩, h.1.symm, ?_, ?_⟩
      · by_cases hc : c = 0 <;> simp [wfFrame, wfLbls, wfLbl, hc, hi.1, hi.2, hk, hlbls]
      · intro _; left
        by_cases hc : c = 0 <;> simp only [mu, sizeS, sizeI, lblsSize, lblSize, hc, if_true, if_false] <;> omega
    | br n =>
      simp only [Option.some.injEq, Prod.mk.injEq] at h
      rw [← h.2]
      exact shape_of_branch D _ k lbls rest s' n hlbls (by simp only [sizeS]; omega) h.1
    | brIf n =>
      by_cases hc : c = 0
      · simp only [hc, if_true, Option.some.injEq, Prod.mk.injEq] at h
        left
        refine ⟨⟨k, lbls⟩, h.1.symm, by simp [wfFrame, hk, hlbls], ?_⟩
        intro _; left; simp only [mu, sizeS, sizeI]; omega
      · simp only [hc, if_false, Option.some.injEq, Prod.mk.injEq] at h
        rw [← h.2]
        exact shape_of_branch D _ k lbls rest s' n hlbls (by simp only [sizeS]; omega) h.1
    | brTable ns d =>
      simp only [Option.some.injEq, Prod.mk.injEq] at h
      rw [← h.2]
      exact shape_of_branch D _ k lbls rest s' _ hlbls (by simp only [sizeS]; omega) h.1
    | call f =>
      exact shape_of_call p hp D f _ ⟨k, lbls⟩ rest s' e (by simp [wfFrame, hk, hlbls])
        (by simp only [mu, sizeS, sizeI]; omega) h
    | callIndirect =>
      simp only [] at h
      split at h
      · exact shape_of_call p hp D _ _ ⟨k, lbls⟩ rest s' e (by simp [wfFrame, hk, hlbls])
          (by simp only [mu, sizeS, sizeI]; omega) h
      · simp at h
    | returnCall chk f =>
      simp only [wfI, Bool.not_true, Bool.false_or] at hi
      exact shape_of_tail p hp D f chk _ rest s' e hi h
    | returnCallIndirect chk =>
      simp only [wfI, Bool.not_true, Bool.false_or] at hi
      simp only [] at h
      split at h
      · exact shape_of_tail p hp D _ chk _ rest s' e hi h
      · simp at h
    | ret =>
      simp only [Option.some.injEq, Prod.mk.injEq] at h
      right; left; exact ⟨h.1.symm, h.2.symm⟩
    | host cbs =>
      simp only [] at h
      split at h
      · exact shape_of_call p hp D _ _ ⟨k, lbls⟩ rest s' e (by simp [wfFrame, hk, hlbls])
          (by simp only [mu, sizeS, sizeI]; omega) h
      · simp only [Option.some.injEq, Prod.mk.injEq] at h
        left
        refine ⟨⟨k, lbls⟩, h.1.symm, by simp [wfFrame, hk, hlbls], ?_⟩
        intro _; left; simp only [mu, sizeS, sizeI]; omega

/-- A state whose innermost frame sits on a check can only perform a check. -/
theorem check_head_checks (p : Prog) (D : Nat) (fr : Frame) (rest : Stack) (c : Nat) (s' : Stack)
    (e : Bool) (hc : startsWithCheck fr.cur = true) (h : step p D (fr :: rest) c = some (s', e)) :
    e = true := by
  obtain ⟨cur, lbls⟩ := fr
  cases cur with
  | nil => simp [startsWithCheck] at hc
  | cons i k =>
    cases i <;> simp [startsWithCheck] at hc
    unfold step at h
    simp only [Option.some.injEq, Prod.mk.injEq] at h
    exact h.2.symm

/-- Invariant preservation. -/
theorem step_wf (p : Prog) (D : Nat) (hp : wfProg true p = true) (st : Stack) (c : Nat)
    (s' : Stack) (e : Bool) (hst : wfStack true st = true) (h : step p D st c = some (s', e)) :
    wfStack true s' = true := by
  cases st with
  | nil => simp [step] at h
  | cons fr rest =>
    simp only [wfStack, Bool.and_eq_true] at hst
    rcases step_shape p D hp fr rest c s' e hst.1 h with ⟨fr', hs, hw, _⟩ | ⟨hs, _⟩ | ⟨fr', new, hs, _, hw, hn, _, _⟩
    · rw [hs]; simp [wfStack, hw, hst.2]
    · rw [hs]; exact hst.2
    · rw [hs]; simp [wfStack, hw, hn, hst.2]

/-! ## accessibility: no infinite check-free execution -/

/-- `R s' s`: `s'` is reached from `s` by one step that performs no check. -/
def R (p : Prog) (D : Nat) (s' s : Stack) : Prop := ∃ c, step p D s c = some (s', false)

theorem acc_frame (p : Prog) (D : Nat) (hp : wfProg true p = true) (rest : Stack)
    (hrest : Acc (R p D) rest)
    (hcall : ∀ fr', wfFrame true fr' = true → Acc (R p D) (fr' :: rest) → rest.length + 1 < D →
      ∀ new, wfFrame true new = true → Acc (R p D) (new :: fr' :: rest)) :
    ∀ m fr, mu fr ≤ m → wfFrame true fr = true → Acc (R p D) (fr :: rest) := by
  intro m
  induction m with
  | zero => intro fr hm _; simp only [mu] at hm; omega
  | succ m ih =>
    intro fr hm hw
    constructor
    intro s' ⟨c, hstep⟩
    rcases step_shape p D hp fr rest c s' false hw hstep with ⟨fr', hs, hw', hdec⟩ | ⟨hs, _⟩ | ⟨fr', new, hs, _, hw', hn, hlt, hd⟩
    · rw [hs]
      rcases hdec rfl with hlt | hchk
      · exact ih fr' (by omega) hw'
      · constructor
        intro s'' ⟨c', hstep'⟩
        have := check_head_checks p D fr' rest c' s'' false hchk hstep'
        cases this
    · rw [hs]; exact hrest
    · rw [hs]
      exact hcall fr' hw' (ih fr' (by omega) hw') hd new hn

theorem acc_budget (p : Prog) (D : Nat) (hp : wfProg true p = true) :
    ∀ n rest, D ≤ rest.length + n → Acc (R p D) rest →
      ∀ fr, wfFrame true fr = true → Acc (R p D) (fr :: rest) := by
  intro n
  induction n with
  | zero =>
    intro rest hD hrest fr hw
    exact acc_frame p D hp rest hrest (fun _ _ _ hlt => by omega) (mu fr) fr (Nat.le_refl _) hw
  | succ n ih =>
    intro rest hD hrest fr hw
    refine acc_frame p D hp rest hrest ?_ (mu fr) fr (Nat.le_refl _) hw
    intro fr' hw' hacc _ new hn
    exact ih (fr' :: rest) (by simp only [List.length_cons]; omega) hacc new hn

theorem acc_stack (p : Prog) (D : Nat) (hp : wfProg true p = true) :
    ∀ st, wfStack true st = true → Acc (R p D) st := by
  intro st
  induction st with
  | nil =>
    intro _
    constructor
    intro s' ⟨c, h⟩
    simp [step] at h
  | cons fr rest ih =>
    intro h
    simp only [wfStack, Bool.and_eq_true] at h
    exact acc_budget p D hp D rest (by omega) (ih h.2) fr h.1

theorem no_infinite_of_acc (p : Prog) (D : Nat) (s : Stack) (h : Acc (R p D) s) :
    ∀ (σ : Nat → Stack) (c : Nat → Nat), σ 0 = s →
      ¬ (∀ n, step p D (σ n) (c n) = some (σ (n + 1), false)) := by
  induction h with
  | intro s _ ih =>
    intro σ c h0 hall
    have h1 : R p D (σ 1) s := ⟨c 0, by rw [← h0]; exact hall 0⟩
    exact ih (σ 1) h1 (fun n => σ (n + 1)) (fun n => c (n + 1)) rfl (fun n => hall (n + 1))

theorem wf_along (p : Prog) (D : Nat) (hp : wfProg true p = true) (σ : Nat → Stack) (c : Nat → Nat)
    (e : Nat → Bool) (h0 : wfStack true (σ 0) = true)
    (hall : ∀ n, step p D (σ n) (c n) = some (σ (n + 1), e n)) : ∀ n, wfStack true (σ n) = true := by
  intro n
  induction n with
  | zero => exact h0
  | succ n ih => exact step_wf p D hp (σ n) (c n) (σ (n + 1)) (e n) ih (hall n)

end Wz.C07
