/-
C02 (front end with memory accesses): the final memory of a run is the initial memory with WRITES prepended, and
every written address belongs to a logged store access.  With `frontmem_stores_confined`: every byte the compiled
code writes lies inside `[base, base + size)`.
-/
import Wz.Proofs.C01_FrontMem_Cons

set_option linter.unusedSimpArgs false
set_option linter.unusedVariables false

namespace Wz.Proofs.FrontMem
open Wz.Spec Wz.Model.SsaPass Wz.Model.FrontendSL Wz.Model.FrontendMem Wz.Proofs.Front

def noCall : MInstr → Bool
  | .base (.call ..) => false
  | _ => true

theorem memStore_prefix : ∀ (n : Nat) (m : Mem) (A v : Nat),
    ∃ W, memStore m A v n = W ++ m ∧ ∀ p ∈ W, A ≤ p.1 ∧ p.1 < A + n := by
  intro n
  induction n with
  | zero => intro m A v; exact ⟨[], rfl, fun p hp => by cases hp⟩
  | succ n ih =>
    intro m A v
    obtain ⟨W, hW, hin⟩ := ih ((A, v % 256) :: m) (A + 1) (v / 256)
    refine ⟨W ++ [(A, v % 256)], by simp only [memStore, hW, List.append_assoc, List.singleton_append], ?_⟩
    intro p hp
    rcases List.mem_append.mp hp with hp | hp
    · have := hin p hp; omega
    · simp only [List.mem_singleton] at hp; subst hp; simp only; omega

/-- the writes of a run: `W` is prepended to the memory, and every written address is covered by a store access
logged during the run -/
def WritesOK (mem0 mem1 : Mem) (newlog : List Acc) : Prop :=
  ∃ W, mem1 = W ++ mem0 ∧ ∀ p ∈ W, ∃ a ∈ newlog, a.store = true ∧ a.addr ≤ p.1 ∧ p.1 < a.addr + a.n

theorem WritesOK.refl (m : Mem) (l : List Acc) : WritesOK m m l := ⟨[], rfl, fun p hp => by cases hp⟩

theorem WritesOK.trans {m0 m1 m2 : Mem} {l1 l2 : List Acc} (h1 : WritesOK m0 m1 l1) (h2 : WritesOK m1 m2 l2) :
    WritesOK m0 m2 (l1 ++ l2) := by
  obtain ⟨W1, e1, c1⟩ := h1
  obtain ⟨W2, e2, c2⟩ := h2
  refine ⟨W2 ++ W1, by rw [e2, e1, List.append_assoc], ?_⟩
  intro p hp
  rcases List.mem_append.mp hp with hp | hp
  · obtain ⟨a, ha, h⟩ := c2 p hp; exact ⟨a, List.mem_append_right _ ha, h⟩
  · obtain ⟨a, ha, h⟩ := c1 p hp; exact ⟨a, List.mem_append_left _ ha, h⟩

/-- one instruction that is not a call: the memory changes only by a logged store -/
theorem stepM_writes (w : World) (i : MInstr) (hnc : noCall i = true) (st : St) :
    WritesOK st.mem (stepM w i st).st.mem (instrAcc st.env i) := by
  cases i with
  | extload op r ty p off => exact WritesOK.refl _ _
  | base j =>
    cases j <;> try (exact WritesOK.refl _ _)
    case div op r ty x y ctx =>
      simp only [stepM, execInstr]; split <;> exact WritesOK.refl _ _
    case exitIf ctx c code =>
      simp only [stepM, execInstr]; split <;> exact WritesOK.refl _ _
    case brz c t args =>
      simp only [stepM, execInstr]; split <;> exact WritesOK.refl _ _
    case brnz c t args =>
      simp only [stepM, execInstr]; split <;> exact WritesOK.refl _ _
    case store op ty v p off =>
      simp only [stepM, execInstr, Ctl.st, instrAcc]
      obtain ⟨W, hW, hin⟩ := memStore_prefix (op.bytes ty) st.mem ((st.env p + off) % 2 ^ 64) (st.env v)
      exact ⟨W, hW, fun q hq => ⟨_, List.mem_singleton.mpr rfl, rfl, hin q hq⟩⟩
    case call => simp [noCall] at hnc

theorem exec_writes (w : World) : ∀ (is : List MInstr) (st : St) (log : List Acc), (∀ i ∈ is, noCall i = true) →
    ∀ c l, execBodyL w is st log = (some c, l) → ∃ newlog, l = log ++ newlog ∧ WritesOK st.mem c.st.mem newlog := by
  intro is
  induction is with
  | nil => intro st log _ c l h; simp [execBodyL] at h
  | cons i is ih =>
    intro st log hnc c l h
    have hw := stepM_writes w i (hnc i (List.mem_cons_self ..)) st
    simp only [execBodyL] at h
    cases hs : stepM w i st with
    | next st1 =>
      rw [hs] at h hw
      simp only at h
      obtain ⟨nl, e, hw2⟩ := ih st1 _ (fun j hj => hnc j (List.mem_cons_of_mem _ hj)) c l h
      exact ⟨instrAcc st.env i ++ nl, by rw [e, List.append_assoc], hw.trans hw2⟩
    | goto b a s1 =>
      rw [hs] at h hw
      simp only [Prod.mk.injEq, Option.some.injEq] at h
      obtain ⟨rfl, rfl⟩ := h
      exact ⟨_, rfl, hw⟩
    | ret vs s1 =>
      rw [hs] at h hw
      simp only [Prod.mk.injEq, Option.some.injEq] at h
      obtain ⟨rfl, rfl⟩ := h
      exact ⟨_, rfl, hw⟩
    | trap code s1 =>
      rw [hs] at h hw
      simp only [Prod.mk.injEq, Option.some.injEq] at h
      obtain ⟨rfl, rfl⟩ := h
      exact ⟨_, rfl, hw⟩

/-! ### the front end emits no call -/

theorem getMemLen_noCall (s : MS) : (getMemLen s).1.all noCall = true := by
  unfold getMemLen; split <;> rfl

theorem getMemBase_noCall (s : MS) : (getMemBase s).1.all noCall = true := by
  unfold getMemBase; split <;> rfl

theorem memCheck_noCall (s : MS) (b ceil : Nat) (a? : Option Val) : (memCheck s b ceil a?).1.all noCall = true := by
  cases a? <;>
    simp only [memCheck, List.all_append, List.all_cons, List.all_nil, noCall, getMemLen_noCall, getMemBase_noCall,
      Bool.and_self, Bool.and_true]

theorem memOpSetup_noCall (s : MS) (b ceil : Nat) : (memOpSetup s b ceil).1.all noCall = true := by
  unfold memOpSetup
  split
  · split
    · rfl
    · exact memCheck_noCall _ _ _ _
  · exact memCheck_noCall _ _ _ _

theorem loadInstr_noCall (k : LoadK) (r a off : Nat) : noCall (loadInstr k r a off) = true := by
  cases k <;> rfl

theorem lowerMI_noCall (i : MI) (s : MS) : (lowerMI i s).1.all noCall = true := by
  cases i with
  | base j =>
    simp only [lowerMI, List.all_eq_true, List.mem_map]
    rintro _ ⟨i0, hi0, rfl⟩
    have := lowerI_pure j s.ls i0 hi0
    cases i0 <;> simp_all [pureI, noCall]
  | load k off =>
    simp only [lowerMI, List.all_append, List.all_cons, List.all_nil, memOpSetup_noCall, loadInstr_noCall, Bool.and_self]
  | store k off =>
    simp only [lowerMI, List.all_append, List.all_cons, List.all_nil, memOpSetup_noCall, noCall, Bool.and_self]
  | memSize => rfl

theorem lowerBodyM_noCall (nres : Nat) : ∀ (body : List MI) (s : MS), (lowerBodyM nres body s).all noCall = true := by
  intro body
  induction body with
  | nil => intro s; rfl
  | cons i is ih =>
    intro s
    by_cases hi : i = .base .ret
    · subst hi; rfl
    · have hlb : lowerBodyM nres (i :: is) s = (lowerMI i s).1 ++ lowerBodyM nres is (lowerMI i s).2 := by
        cases i with
        | base j => cases j <;> first | rfl | exact absurd rfl hi
        | load k off => rfl
        | store k off => rfl
        | memSize => rfl
      rw [hlb, List.all_append, lowerMI_noCall, ih]
      rfl

theorem lowerMem_noCall (f : FnM) : ∀ i ∈ (lowerMem f).instrs, noCall i = true := by
  have h : (lowerMem f).instrs.all noCall = true := by
    show ((initLS f.sig).1.map MInstr.base ++ lowerBodyM f.results.length f.body { ls := (initLS f.sig).2 }).all noCall = true
    rw [List.all_append, lowerBodyM_noCall, Bool.and_true, List.all_eq_true]
    intro i hi
    obtain ⟨i0, hi0, rfl⟩ := List.mem_map.mp hi
    have := declLocals_pure f.sig.locals (f.sig.params.length + 2) {} i0 hi0
    cases i0 <;> simp_all [pureI, noCall]
  exact fun i hi => List.all_eq_true.mp h i hi

/-- the final memory of an outcome that has one -/
def finalMem : Outcome → Option Mem
  | .values _ m _ => some m
  | .trap _ m _ => some m
  | _ => none

/-- the final memory of `runM` on `lowerMem f` is the initial memory with writes prepended, each covered by a logged
store -/
theorem lowerMem_writes (w : World) (f : FnM) (args : List Nat) (mem0 mem' : Mem)
    (h : finalMem (runM w (lowerMem f) args mem0).1 = some mem') :
    WritesOK mem0 mem' (runM w (lowerMem f) args mem0).2 := by
  unfold runM at h ⊢
  by_cases hl : (lowerMem f).params.length ≠ args.length
  · rw [if_pos hl] at h; cases h
  · rw [if_neg hl] at h ⊢
    generalize hr : execBodyL w (lowerMem f).instrs
      { St.init with env := bindVals St.init.env (lowerMem f).params args, mem := mem0 } [] = r at h ⊢
    obtain ⟨o, l⟩ := r
    cases o with
    | none => cases h
    | some c =>
      obtain ⟨nl, e, hw⟩ := exec_writes w _ _ [] (lowerMem_noCall f) c l hr
      simp only [List.nil_append] at e
      subst e
      cases c with
      | next s1 => cases h
      | goto b a s1 => cases h
      | ret vs s1 =>
        simp only [finalMem, Option.some.injEq] at h
        subst h
        exact hw
      | trap code s1 =>
        simp only [finalMem, Option.some.injEq] at h
        subst h
        exact hw

end Wz.Proofs.FrontMem
