/-
C16 — the file-content part of the reference model: reads, writes, positional I/O, append and truncate act
on ONE byte list per inode with the POSIX offset rules.
-/
import Wz.Model.RefFS

namespace Wz.Proofs.C16Content
open Wz.Model.RefFS

/-! ### Byte level: extensional characterisation of the three content functions -/

theorem writeAt_length (c : List Nat) (off : Nat) (bs : List Nat) (h : bs ≠ []) :
    (writeAt c off bs).length = max c.length (off + bs.length) := by
  unfold writeAt
  have : bs.isEmpty = false := by cases bs <;> simp_all
  simp only [this, Bool.false_eq_true, ↓reduceIte, List.length_append, List.length_take, List.length_replicate,
    List.length_drop]
  omega

/-- byte `i` after `pwrite(bs, off)`: the new data inside the written range, the old byte elsewhere,
zero in a gap between the old end and `off` -/
theorem writeAt_get (c : List Nat) (off : Nat) (bs : List Nat) (i : Nat) (h : bs ≠ []) :
    (writeAt c off bs)[i]? =
      if off ≤ i ∧ i < off + bs.length then bs[i - off]?
      else if i < c.length then c[i]?
      else if i < off then some 0 else none := by
  unfold writeAt
  have : bs.isEmpty = false := by cases bs <;> simp_all
  simp only [this, Bool.false_eq_true, ↓reduceIte]
  simp only [List.getElem?_append, List.length_append, List.length_take, List.length_replicate,
    List.getElem?_take, List.getElem?_drop, List.getElem?_replicate]
  have e : min off c.length + (off - c.length) = off := by omega
  rw [e]
  by_cases h1 : off ≤ i ∧ i < off + bs.length
  · rw [if_pos h1]
    have a1 : i < off + bs.length := h1.2
    have a2 : ¬ i < off := by omega
    simp only [a1, a2, ↓reduceIte]
  · rw [if_neg h1]
    by_cases h2 : i < off
    · have a1 : i < off + bs.length := by omega
      simp only [a1, h2, ↓reduceIte]
      by_cases h3 : i < c.length
      · have : i < min off c.length := by omega
        simp only [this, ↓reduceIte, h3]
      · have : ¬ i < min off c.length := by omega
        simp only [this, ↓reduceIte, h3]
        have : i - min off c.length < off - c.length := by omega
        simp only [this, ↓reduceIte]
    · have h4 : ¬ i < off + bs.length := by omega
      simp only [h2, ↓reduceIte, h4]
      have e2 : off + bs.length + (i - (off + bs.length)) = i := by omega
      rw [e2]
      by_cases h3 : i < c.length
      · simp only [h3, ↓reduceIte]
      · simp only [h3, ↓reduceIte]
        exact List.getElem?_eq_none (by omega)

/-- a zero-length write changes nothing (it does not extend the file either) -/
theorem writeAt_empty (c : List Nat) (off : Nat) : writeAt c off [] = c := by
  simp [writeAt]

theorem readAt_get (c : List Nat) (off len i : Nat) :
    (readAt c off len)[i]? = if i < len then c[off + i]? else none := by
  unfold readAt
  simp only [List.getElem?_take, List.getElem?_drop]

/-- a read returns `min len (size - off)` bytes: short at the end of the file, empty beyond it -/
theorem readAt_length (c : List Nat) (off len : Nat) : (readAt c off len).length = min len (c.length - off) := by
  unfold readAt
  simp [List.length_take, List.length_drop]

theorem truncateTo_length (c : List Nat) (n : Nat) : (truncateTo c n).length = n := by
  unfold truncateTo
  simp only [List.length_append, List.length_take, List.length_replicate]
  omega

theorem truncateTo_get (c : List Nat) (n i : Nat) :
    (truncateTo c n)[i]? = if i < n then (if i < c.length then c[i]? else some 0) else none := by
  unfold truncateTo
  simp only [List.getElem?_append, List.length_take, List.getElem?_take, List.getElem?_replicate]
  by_cases h1 : i < n
  · by_cases h2 : i < c.length
    · have : i < min n c.length := by omega
      simp only [this, ↓reduceIte, h1, h2]
    · have : ¬ i < min n c.length := by omega
      simp only [this, ↓reduceIte, h1, h2]
      have : i - min n c.length < n - c.length := by omega
      simp only [this, ↓reduceIte]
  · have : ¬ i < min n c.length := by omega
    simp only [this, ↓reduceIte, h1]
    have : ¬ i - min n c.length < n - c.length := by omega
    simp only [this, ↓reduceIte]

/-- read-after-write: what was written at `off` is what a read at `off` returns -/
theorem read_after_write (c : List Nat) (off : Nat) (bs : List Nat) :
    readAt (writeAt c off bs) off bs.length = bs := by
  by_cases h : bs = []
  · subst h; simp [readAt]
  · apply List.ext_getElem?
    intro i
    rw [readAt_get, writeAt_get _ _ _ _ h]
    by_cases h1 : i < bs.length
    · have : off ≤ off + i ∧ off + i < off + bs.length := by omega
      simp only [h1, ↓reduceIte, this, and_self]
      congr 1; omega
    · simp only [h1, ↓reduceIte]
      exact (List.getElem?_eq_none (by omega)).symm

/-- an appending write (offset = size) leaves every old byte in place and adds the data at the end -/
theorem append_write (c bs : List Nat) : writeAt c c.length bs = c ++ bs := by
  by_cases h : bs = []
  · subst h; simp [writeAt]
  · unfold writeAt
    have : bs.isEmpty = false := by cases bs <;> simp_all
    simp [this]

/-! ### Descriptor level: the calls act on the single content list of the inode -/

theorem aget_aset_same {β} (l : List (Nat × β)) (k : Nat) (v : β) : aget (aset l k v) k = some v := by
  simp [aget, aset]

theorem aget_aset_other {β} (l : List (Nat × β)) (k k' : Nat) (v : β) (h : k' ≠ k) :
    aget (aset l k v) k' = aget l k' := by
  unfold aget aset
  have h1 : (k == k') = false := by simp; omega
  simp only [List.find?_cons, h1]
  congr 1
  induction l with
  | nil => rfl
  | cons x xs ih =>
    by_cases hx : x.1 = k
    · have : (x.1 != k) = false := by simp [hx]
      have h2 : (x.1 == k') = false := by simp [hx]; omega
      simp only [List.filter_cons, this, Bool.false_eq_true, ↓reduceIte, List.find?_cons, h2, ih]
    · have : (x.1 != k) = true := by simp [hx]
      simp only [List.filter_cons, this, ↓reduceIte, List.find?_cons, ih]

theorem content_setContent_same (fs : FS) (ino : Nat) (c : List Nat) (h : (fs.node ino).isSome = true) :
    (fs.setContent ino c).content ino = c := by
  unfold FS.setContent
  cases hn : fs.node ino with
  | none => simp [hn] at h
  | some n => simp [FS.content, FS.node, FS.setNode, aget_aset_same]

theorem content_setContent_other (fs : FS) (ino ino' : Nat) (c : List Nat) (h : ino' ≠ ino) :
    (fs.setContent ino c).content ino' = fs.content ino' := by
  unfold FS.setContent
  cases hn : fs.node ino with
  | none => rfl
  | some n => simp [FS.content, FS.node, FS.setNode, aget_aset_other _ _ _ _ h]

theorem content_setDesc (fs : FS) (id : Nat) (d : Desc) (ino : Nat) : (fs.setDesc id d).content ino = fs.content ino := rfl

/-- fd_write on a writable regular-file description: the data lands at the description's offset — or at
the end of the file when the description is in append mode — in the inode's single byte list; no other
file changes; the offset moves to the end of the written data. -/
theorem fdWrite_spec (fs : FS) (fd : Int) (bs : List Nat) (id : Nat) (d : Desc)
    (hd : fs.desc fd = .ok (id, d)) (hf : d.isDir = false) (hw : d.canWrite = true) (hne : bs ≠ [])
    (hn : (fs.node d.ino).isSome = true) :
    let off := if d.append then (fs.content d.ino).length else d.offset
    (fs.fdWrite fd bs).2 = (.ok, bs.length) ∧
    (fs.fdWrite fd bs).1.content d.ino = writeAt (fs.content d.ino) off bs ∧
    (∀ ino', ino' ≠ d.ino → (fs.fdWrite fd bs).1.content ino' = fs.content ino') ∧
    aget (fs.fdWrite fd bs).1.descs id = some { d with offset := off + bs.length } := by
  have he : bs.isEmpty = false := by cases bs <;> simp_all
  simp only [FS.fdWrite, hd, hf, hw, he, Bool.false_eq_true, ↓reduceIte, Bool.not_true]
  refine ⟨trivial, ?_, ?_, ?_⟩
  · rw [content_setDesc, content_setContent_same _ _ _ hn]
  · intro ino' h; rw [content_setDesc, content_setContent_other _ _ _ _ h]
  · simp [FS.setDesc, aget_aset_same]

/-- fd_pwrite: like write at the given offset, and the description's offset does not move -/
theorem fdPwrite_spec (fs : FS) (fd : Int) (bs : List Nat) (off id : Nat) (d : Desc)
    (hd : fs.desc fd = .ok (id, d)) (hf : d.isDir = false) (hw : d.canWrite = true) (ha : d.append = false)
    (hne : bs ≠ []) (hn : (fs.node d.ino).isSome = true) :
    (fs.fdPwrite fd bs off).2 = (.ok, bs.length) ∧
    (fs.fdPwrite fd bs off).1.content d.ino = writeAt (fs.content d.ino) off bs ∧
    (∀ ino', ino' ≠ d.ino → (fs.fdPwrite fd bs off).1.content ino' = fs.content ino') ∧
    (fs.fdPwrite fd bs off).1.descs = fs.descs := by
  have he : bs.isEmpty = false := by cases bs <;> simp_all
  simp only [FS.fdPwrite, hd, hf, hw, ha, he, Bool.false_eq_true, ↓reduceIte, Bool.not_true]
  refine ⟨trivial, content_setContent_same _ _ _ hn, fun ino' h => content_setContent_other _ _ _ _ h, ?_⟩
  unfold FS.setContent
  cases fs.node d.ino <;> rfl

/-- fd_read: the bytes at the offset, short at the end of the file; the offset advances by the count read;
no content changes -/
theorem fdRead_spec (fs : FS) (fd : Int) (len id : Nat) (d : Desc)
    (hd : fs.desc fd = .ok (id, d)) (hf : d.isDir = false) (hr : d.canRead = true) (hl : len ≠ 0) :
    (fs.fdRead fd len).2 = (.ok, readAt (fs.content d.ino) d.offset len) ∧
    (∀ ino, (fs.fdRead fd len).1.content ino = fs.content ino) ∧
    aget (fs.fdRead fd len).1.descs id =
      some { d with offset := d.offset + min len ((fs.content d.ino).length - d.offset) } := by
  have hl' : (len == 0) = false := by simp [hl]
  simp only [FS.fdRead, hd, hl', hf, hr, Bool.false_eq_true, ↓reduceIte, Bool.not_true]
  refine ⟨trivial, fun _ => rfl, ?_⟩
  simp [FS.setDesc, aget_aset_same, readAt_length]

/-- fd_pread: the bytes at the given offset; nothing changes -/
theorem fdPread_spec (fs : FS) (fd : Int) (len off id : Nat) (d : Desc)
    (hd : fs.desc fd = .ok (id, d)) (hf : d.isDir = false) (hr : d.canRead = true) (hl : len ≠ 0) :
    fs.fdPread fd len off = (fs, .ok, readAt (fs.content d.ino) off len) := by
  have hl' : (len == 0) = false := by simp [hl]
  simp only [FS.fdPread, hd, hl', hf, hr, Bool.false_eq_true, ↓reduceIte, Bool.not_true]

/-- fd_seek / fd_tell: SET, CUR, END relative to 0, the offset, the file size; a negative result is EINVAL
and leaves the offset alone; tell reports the offset -/
theorem fdSeek_spec (fs : FS) (fd : Int) (off : Int) (whence id : Nat) (d : Desc)
    (hd : fs.desc fd = .ok (id, d)) (hf : d.isDir = false) (hw : whence ≤ 2) :
    let base : Int := if whence = 0 then 0 else if whence = 1 then d.offset else (fs.content d.ino).length
    (base + off < 0 → fs.fdSeek fd off whence = (fs, .inval, 0)) ∧
    (0 ≤ base + off →
      (fs.fdSeek fd off whence).2 = (.ok, (base + off).toNat) ∧
      aget (fs.fdSeek fd off whence).1.descs id = some { d with offset := (base + off).toNat } ∧
      ∀ ino, (fs.fdSeek fd off whence).1.content ino = fs.content ino) := by
  have hw' : ¬ whence > 2 := by omega
  simp only [FS.fdSeek, hd, hf, hw', Bool.false_eq_true, ↓reduceIte, beq_iff_eq]
  constructor
  · intro h; simp only [h, ↓reduceIte]
  · intro h
    have : ¬ ((if whence = 0 then (0:Int) else if whence = 1 then ↑d.offset else ↑(fs.content d.ino).length) + off < 0) := by omega
    simp only [this, ↓reduceIte]
    refine ⟨trivial, ?_, fun _ => rfl⟩
    simp [FS.setDesc, aget_aset_same]

theorem fdTell_spec (fs : FS) (fd : Int) (id : Nat) (d : Desc)
    (hd : fs.desc fd = .ok (id, d)) (hf : d.isDir = false) : (fs.fdTell fd).2 = (.ok, d.offset) := by
  have := (fdSeek_spec fs fd 0 1 id d hd hf (by omega)).2
  simp at this
  exact this.1

/-- fd_filestat_set_size: the content is cut or zero-extended to the size; offsets do not move -/
theorem fdSetSize_spec (fs : FS) (fd : Int) (size : Nat) (id : Nat) (d : Desc)
    (hd : fs.desc fd = .ok (id, d)) (hf : d.isDir = false) (hw : d.canWrite = true)
    (hn : (fs.node d.ino).isSome = true) :
    (fs.fdSetSize fd size).2 = .ok ∧
    (fs.fdSetSize fd size).1.content d.ino = truncateTo (fs.content d.ino) size ∧
    (∀ ino', ino' ≠ d.ino → (fs.fdSetSize fd size).1.content ino' = fs.content ino') ∧
    (fs.fdSetSize fd size).1.descs = fs.descs := by
  have : ¬ ((size : Int) < 0) := by omega
  simp only [FS.fdSetSize, hd, this, hf, hw, Bool.false_eq_true, ↓reduceIte, Bool.not_true, Int.toNat_natCast]
  refine ⟨trivial, content_setContent_same _ _ _ hn, fun ino' h => content_setContent_other _ _ _ _ h, ?_⟩
  unfold FS.setContent
  cases fs.node d.ino <;> rfl

/-- fd_filestat_get reports the length of that same byte list -/
theorem fdStat_size (fs : FS) (fd : Int) (id : Nat) (d : Desc)
    (hd : fs.desc fd = .ok (id, d)) (hf : d.isDir = false) :
    fs.fdStat fd = (.ok, Wz.Gen.WasiFs.FILETYPE_REGULAR_FILE, (fs.content d.ino).length) := by
  simp [FS.fdStat, hd, hf]

end Wz.Proofs.C16Content
