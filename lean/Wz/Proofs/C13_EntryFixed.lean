/-
C13 — proofs about the REPAIRED cache-entry reader (Wz.Model.CacheEntry.deserializeRFixed): round trip and
rejection of every strict prefix at full strength (all well-formed modules, no condition on the checksum of the
empty executable), and agreement with the as-is reader on modules with code.
Core Lean only (no Mathlib in this project).
-/
import Wz.Proofs.C13_Entry
import Wz.Model.CacheEntryFixed

namespace Wz.C13.Entry
open Wz.Model.CacheEntry

/-! ### the repaired reader, cut into header test and body -/

/-- everything after the header (repaired: executable and checksum are always read) -/
def bodyFixed (crc : Bytes → Nat) (nf : Nat) (r : Bytes) : R CM :=
  match readOffsets nf r with
  | none => .err "error reading func["
  | some (offs, r1) =>
    match readU64 r1 with
    | none => .err "error reading executable size"
    | some (el, r2) =>
      match readFull el r2 with
      | none => .err "executable"
      | some (exec, r3) =>
        match readFull 4 r3 with
        | none => .err "could not read checksum"
        | some (c, r4) =>
          if leDec c ≠ crc exec % 2 ^ 32 then .err "checksum mismatch"
          else deserSrcMap offs exec r4

/-- the header tests (the same as `hdr`), continuing with `bodyFixed` -/
def hdrFixed (crc : Bytes → Nat) (magic ver header r : Bytes) : R CM :=
  if header.take magic.length ≠ magic then .err "invalid magic number"
  else
    if magic.length + 1 + header.getD magic.length 0 ≥ magic.length + 1 + ver.length + 4 then .stale
    else if (header.drop (magic.length + 1)).take (header.getD magic.length 0) ≠ ver then .stale
    else bodyFixed crc (leDec (header.drop (magic.length + 1 + ver.length + 4 - 4))) r

theorem deserializeRFixed_eq (crc : Bytes → Nat) (magic ver e : Bytes) :
    deserializeRFixed crc magic ver e =
      if e.length = 0 then .err "error reading header"
      else if e.length < magic.length + 1 + ver.length + 4 then .err "invalid header length"
      else hdrFixed crc magic ver (e.take (magic.length + 1 + ver.length + 4))
        (e.drop (magic.length + 1 + ver.length + 4)) := rfl

/-! ### monotonicity: a non-error outcome is preserved when bytes are appended -/

theorem bodyFixed_mono (crc : Bytes → Nat) (nf : Nat) (r t : Bytes) (h : ¬ isErr (bodyFixed crc nf r)) :
    bodyFixed crc nf (r ++ t) = app (bodyFixed crc nf r) t := by
  unfold bodyFixed at h ⊢
  rcases h1 : readOffsets nf r with _ | ⟨offs, r1⟩
  · simp [h1, isErr] at h
  · rw [h1] at h
    rw [readOffsets_frame t h1]
    simp only at h ⊢
    rcases h2 : readU64 r1 with _ | ⟨el, r2⟩
    · simp [h2, isErr] at h
    · rw [h2] at h
      rw [readU64_frame t h2]
      simp only at h ⊢
      rcases h3 : readFull el r2 with _ | ⟨exec, r3⟩
      · simp [h3, isErr] at h
      · rw [h3] at h
        rw [readFull_frame t h3]
        simp only at h ⊢
        rcases h4 : readFull 4 r3 with _ | ⟨c, r4⟩
        · simp [h4, isErr] at h
        · rw [h4] at h
          rw [readFull_frame t h4]
          simp only at h ⊢
          by_cases hc : leDec c ≠ crc exec % 2 ^ 32
          · simp [hc, isErr] at h
          · simp only [hc, if_false] at h ⊢
            exact deserSrcMap_mono offs exec r4 t h

theorem hdrFixed_mono (crc : Bytes → Nat) (magic ver header r t : Bytes)
    (h : ¬ isErr (hdrFixed crc magic ver header r)) :
    hdrFixed crc magic ver header (r ++ t) = app (hdrFixed crc magic ver header r) t := by
  unfold hdrFixed at h ⊢
  split
  · rename_i h1; simp [h1, isErr] at h
  · rename_i h1
    rw [if_neg h1] at h
    split
    · rfl
    · rename_i h2
      rw [if_neg h2] at h
      split
      · rfl
      · rename_i h3
        rw [if_neg h3] at h
        exact bodyFixed_mono crc _ r t h

/-- any non-error outcome of the repaired reader on `p` is preserved on `p ++ t` -/
theorem deserializeRFixed_mono (crc : Bytes → Nat) (magic ver p t : Bytes)
    (h : ¬ isErr (deserializeRFixed crc magic ver p)) :
    deserializeRFixed crc magic ver (p ++ t) = app (deserializeRFixed crc magic ver p) t := by
  rw [deserializeRFixed_eq] at h ⊢
  rw [deserializeRFixed_eq]
  by_cases h0 : p.length = 0
  · simp [h0, isErr] at h
  · rw [if_neg h0] at h ⊢
    by_cases h1 : p.length < magic.length + 1 + ver.length + 4
    · simp [h1, isErr] at h
    · rw [if_neg h1] at h ⊢
      have hl : magic.length + 1 + ver.length + 4 ≤ p.length := by omega
      rw [if_neg (by simp only [List.length_append]; omega),
        if_neg (by simp only [List.length_append]; omega),
        List.take_append_of_le_length hl, List.drop_append_of_le_length hl]
      exact hdrFixed_mono crc magic ver _ _ t h

/-! ### round trip of the body and of the header -/

/-- the source-map tail of a module without code (which has no source map) -/
theorem deserSrcMap_ser_nil (offs : List Nat) (exec : Bytes) (t : Bytes) :
    deserSrcMap offs exec (serSrcMap [] ++ t) = .ok ⟨offs, exec, []⟩ t := by
  simp [serSrcMap, deserSrcMap]

/-- the source-map tail under the well-formedness condition `exec = [] → sm = []` -/
theorem deserSrcMap_ser' (offs : List Nat) (exec : Bytes) (sm : List (Nat × Nat)) (t : Bytes)
    (hx : exec = [] → sm = []) (hl : sm.length < 2 ^ 64) (h : ∀ p ∈ sm, p.1 < 2 ^ 64 ∧ p.2 < 2 ^ 64) :
    deserSrcMap offs exec (serSrcMap sm ++ t) = .ok ⟨offs, exec, sm⟩ t := by
  by_cases he : exec = []
  · rw [hx he]
    exact deserSrcMap_ser_nil offs exec t
  · exact deserSrcMap_ser offs exec sm t he hl h

theorem bodyFixed_ser (crc : Bytes → Nat) (offs : List Nat) (exec : Bytes) (sm : List (Nat × Nat)) (t : Bytes)
    (ho : ∀ o ∈ offs, o < 2 ^ 64) (hel : exec.length < 2 ^ 64) (hx : exec = [] → sm = [])
    (hl : sm.length < 2 ^ 64) (h : ∀ p ∈ sm, p.1 < 2 ^ 64 ∧ p.2 < 2 ^ 64) :
    bodyFixed crc offs.length (offs.flatMap (le 8) ++ (le 8 exec.length ++ (exec ++ (le 4 (crc exec) ++
      (serSrcMap sm ++ t))))) = .ok ⟨offs, exec, sm⟩ t := by
  unfold bodyFixed
  rw [readOffsets_ser offs _ ho]
  simp only
  rw [readU64_le8 _ _ hel]
  simp only
  rw [readFull_self]
  simp only
  rw [readFull_le4]
  simp only [leDec_le4, ne_eq, not_true_eq_false, if_false]
  exact deserSrcMap_ser' offs exec sm t hx hl h

theorem hdrFixed_ser (crc : Bytes → Nat) (magic ver : Bytes) (n : Nat) (r : Bytes) (hv : ver.length < 256) :
    hdrFixed crc magic ver (magic ++ (ver.length % 256 :: (ver ++ le 4 n))) r =
      bodyFixed crc (n % 2 ^ 32) r := by
  have hvl : ver.length % 256 = ver.length := Nat.mod_eq_of_lt hv
  rw [hvl]
  have hg : (magic ++ (ver.length :: (ver ++ le 4 n))).getD magic.length 0 = ver.length := by
    simp [List.getD_eq_getElem?_getD]
  have hd : (magic ++ (ver.length :: (ver ++ le 4 n))).drop (magic.length + 1) = ver ++ le 4 n := by
    have : magic ++ (ver.length :: (ver ++ le 4 n)) = (magic ++ [ver.length]) ++ (ver ++ le 4 n) := by simp
    rw [this]
    exact List.drop_left' (by simp)
  have hd4 : (magic ++ (ver.length :: (ver ++ le 4 n))).drop (magic.length + 1 + ver.length + 4 - 4) =
      le 4 n := by
    have : magic ++ (ver.length :: (ver ++ le 4 n)) = (magic ++ [ver.length] ++ ver) ++ le 4 n := by simp
    rw [this]
    exact List.drop_left' (by simp only [List.length_append, List.length_cons, List.length_nil]; omega)
  unfold hdrFixed
  rw [hg, hd, hd4, List.take_left' rfl, List.take_left' rfl, leDec_le4]
  rw [if_neg (by simp), if_neg (by omega), if_neg (by simp)]

/-- reading a serialized entry (followed by anything) gets through the header -/
theorem deserializeRFixed_ser_body (crc : Bytes → Nat) (magic ver : Bytes) (cm : CM) (t : Bytes)
    (hn : cm.offsets.length < 2 ^ 32) (hv : ver.length < 256) :
    deserializeRFixed crc magic ver (serialize crc magic ver cm ++ t) =
      bodyFixed crc cm.offsets.length
        (cm.offsets.flatMap (le 8) ++ (le 8 cm.exec.length ++ (cm.exec ++ (le 4 (crc cm.exec) ++
          (serSrcMap cm.srcMap ++ t))))) := by
  have hlen := serialize_length_ge crc magic ver cm
  rw [deserializeRFixed_eq]
  rw [if_neg (by simp only [List.length_append]; omega), if_neg (by simp only [List.length_append]; omega)]
  rw [serialize_split]
  have hH : (magic ++ (ver.length % 256 :: (ver ++ le 4 cm.offsets.length))).length =
      magic.length + 1 + ver.length + 4 := by
    simp only [List.length_append, List.length_cons, le_length]; omega
  rw [List.take_left' hH, List.drop_left' hH, hdrFixed_ser crc magic ver _ _ hv, Nat.mod_eq_of_lt hn]

/-- round trip with an arbitrary continuation, EVERY well-formed module: exactly the continuation is left -/
theorem deserializeRFixed_serialize (crc : Bytes → Nat) (magic ver : Bytes) (cm : CM) (t : Bytes)
    (hwf : cm.WF) (hv : ver.length < 256) :
    deserializeRFixed crc magic ver (serialize crc magic ver cm ++ t) = .ok cm t := by
  rw [deserializeRFixed_ser_body crc magic ver cm t hwf.noffs hv]
  exact bodyFixed_ser crc cm.offsets cm.exec cm.srcMap t hwf.offs hwf.execLen hwf.smExec hwf.smLen hwf.sm

/-! ### main theorems -/

/-- `deser_ser` for the repaired reader: what was serialized is read back, for every well-formed module and
every checksum function -/
theorem deser_ser_fixed (crc : Bytes → Nat) (magic ver : Bytes) (cm : CM)
    (hwf : cm.WF) (hv : ver.length < 256) :
    deserializeFixed crc magic ver (serialize crc magic ver cm) = .ok cm := by
  have h := deserializeRFixed_serialize crc magic ver cm [] hwf hv
  rw [List.append_nil] at h
  unfold deserializeFixed
  rw [h]

/-- every strict prefix of ANY valid entry is refused with an error (not even `stale`) by the repaired reader -/
theorem truncation_rejected_fixed (crc : Bytes → Nat) (magic ver : Bytes) (cm : CM)
    (hwf : cm.WF) (hv : ver.length < 256) (k : Nat)
    (hk : k < (serialize crc magic ver cm).length) :
    ∃ m, deserializeFixed crc magic ver ((serialize crc magic ver cm).take k) = .err m := by
  have hfull := deserializeRFixed_serialize crc magic ver cm [] hwf hv
  rw [List.append_nil] at hfull
  have hsplit := List.take_append_drop k (serialize crc magic ver cm)
  have hmono := deserializeRFixed_mono crc magic ver ((serialize crc magic ver cm).take k)
    ((serialize crc magic ver cm).drop k)
  rw [hsplit, hfull] at hmono
  unfold deserializeFixed
  rcases hd : deserializeRFixed crc magic ver ((serialize crc magic ver cm).take k) with
    ⟨cm', rest⟩ | _ | m | m
  · exfalso
    rw [hd] at hmono
    have h1 := hmono (fun h => h)
    simp only [app] at h1
    injection h1 with _ h2
    have h3 : ((serialize crc magic ver cm).drop k).length = 0 := by
      have := congrArg List.length h2
      simp only [List.length_nil, List.length_append] at this
      omega
    rw [List.length_drop] at h3
    omega
  · exfalso
    rw [hd] at hmono
    have h1 := hmono (fun h => h)
    simp only [app] at h1
    contradiction
  · exact ⟨m, rfl⟩
  · exfalso
    rw [hd] at hmono
    have h1 := hmono (fun h => h)
    simp only [app] at h1
    contradiction

/-- an entry written by another version (of length < 256) is stale, or — when it is shorter than this
version's header — an error; never `ok` (the repair does not touch the header tests) -/
theorem other_version_stale_fixed (crc : Bytes → Nat) (magic ver ver' : Bytes) (cm : CM)
    (hne : ver ≠ ver') (hv' : ver'.length < 256) :
    deserializeFixed crc magic ver (serialize crc magic ver' cm) = .stale ∨
    deserializeFixed crc magic ver (serialize crc magic ver' cm) = .err "invalid header length" := by
  have hlen := serialize_length_ge crc magic ver' cm
  have hvl : ver'.length % 256 = ver'.length := Nat.mod_eq_of_lt hv'
  have hsp := serialize_split crc magic ver' cm []
  rw [List.append_nil, hvl] at hsp
  generalize serialize crc magic ver' cm = e at hlen hsp ⊢
  generalize cm.offsets.flatMap (le 8) ++ (le 8 cm.exec.length ++ (cm.exec ++ (le 4 (crc cm.exec) ++
        (serSrcMap cm.srcMap ++ [])))) = Y at hsp
  unfold deserializeFixed
  rw [deserializeRFixed_eq, if_neg (by omega)]
  by_cases h1 : e.length < magic.length + 1 + ver.length + 4
  · right; rw [if_pos h1]
  · left
    rw [if_neg h1]
    unfold hdrFixed
    have hm : (e.take (magic.length + 1 + ver.length + 4)).take magic.length = magic := by
      rw [List.take_take, Nat.min_eq_left (by omega), hsp, List.append_assoc]
      exact List.take_left' rfl
    have hg : (e.take (magic.length + 1 + ver.length + 4)).getD magic.length 0 = ver'.length := by
      rw [List.getD_eq_getElem?_getD, List.getElem?_take, if_pos (by omega), hsp]
      simp
    rw [hm, hg, if_neg (by simp)]
    by_cases h2 : magic.length + 1 + ver'.length ≥ magic.length + 1 + ver.length + 4
    · rw [if_pos h2]
    · rw [if_neg h2]
      have hd : ((e.take (magic.length + 1 + ver.length + 4)).drop (magic.length + 1)).take ver'.length
          = ver' := by
        rw [List.drop_take, List.take_take, Nat.min_eq_left (by omega), hsp]
        have : magic ++ ver'.length :: (ver' ++ le 4 cm.offsets.length) ++ Y =
            (magic ++ [ver'.length]) ++ (ver' ++ (le 4 cm.offsets.length ++ Y)) := by simp
        rw [this, List.drop_left' (by simp)]
        exact List.take_left' rfl
      rw [hd, if_pos (fun h => hne h.symm)]

/-! ### the repair changes nothing for modules with code -/

/-- the source-map reader returns the executable it was given -/
theorem deserSrcMap_exec {offs : List Nat} {exec r : Bytes} {cm : CM} {rest : Bytes}
    (h : deserSrcMap offs exec r = .ok cm rest) : cm.exec = exec := by
  unfold deserSrcMap at h
  split at h
  · contradiction
  · split at h
    · split at h
      · contradiction
      · split at h
        · contradiction
        · split at h
          · contradiction
          · injection h with h _
            rw [← h]
    · injection h with h _
      rw [← h]

theorem readFull_zero (r : Bytes) : readFull 0 r = some ([], r) := by
  simp [readFull]

theorem bodyFixed_agrees {crc : Bytes → Nat} {nf : Nat} {r : Bytes} {cm : CM} {rest : Bytes}
    (h : bodyFixed crc nf r = .ok cm rest) (hx : cm.exec ≠ []) : body crc nf r = .ok cm rest := by
  unfold bodyFixed at h
  unfold body
  rcases h1 : readOffsets nf r with _ | ⟨offs, r1⟩
  · simp [h1] at h
  · rw [h1] at h
    simp only at h ⊢
    rcases h2 : readU64 r1 with _ | ⟨el, r2⟩
    · simp [h2] at h
    · rw [h2] at h
      simp only at h ⊢
      by_cases hel : el > 0
      · rw [if_pos hel]
        exact h
      · exfalso
        have h0 : el = 0 := by omega
        subst h0
        rw [readFull_zero] at h
        simp only at h
        split at h
        · contradiction
        · split at h
          · contradiction
          · exact hx (deserSrcMap_exec h)

theorem hdrFixed_agrees {crc : Bytes → Nat} {magic ver header r : Bytes} {cm : CM} {rest : Bytes}
    (h : hdrFixed crc magic ver header r = .ok cm rest) (hx : cm.exec ≠ []) :
    hdr crc magic ver header r = .ok cm rest := by
  unfold hdrFixed at h
  unfold hdr
  split
  · rename_i h1; rw [if_pos h1] at h; contradiction
  · rename_i h1
    rw [if_neg h1] at h
    split
    · rename_i h2; rw [if_pos h2] at h; contradiction
    · rename_i h2
      rw [if_neg h2] at h
      split
      · rename_i h3; rw [if_pos h3] at h; contradiction
      · rename_i h3
        rw [if_neg h3] at h
        exact bodyFixed_agrees h hx

theorem deserializeRFixed_agrees {crc : Bytes → Nat} {magic ver e : Bytes} {cm : CM} {rest : Bytes}
    (h : deserializeRFixed crc magic ver e = .ok cm rest) (hx : cm.exec ≠ []) :
    deserializeR crc magic ver e = .ok cm rest := by
  rw [deserializeRFixed_eq] at h
  rw [deserializeR_eq]
  by_cases h0 : e.length = 0
  · rw [if_pos h0] at h; contradiction
  · rw [if_neg h0] at h ⊢
    by_cases h1 : e.length < magic.length + 1 + ver.length + 4
    · rw [if_pos h1] at h; contradiction
    · rw [if_neg h1] at h ⊢
      exact hdrFixed_agrees h hx

theorem deserializeFixed_ok_iff {crc : Bytes → Nat} {magic ver e : Bytes} {cm : CM}
    (h : deserializeFixed crc magic ver e = .ok cm) :
    ∃ rest, deserializeRFixed crc magic ver e = .ok cm rest := by
  unfold deserializeFixed at h
  split at h
  · rename_i cm1 rest heq
    injection h with h
    subst h
    exact ⟨rest, heq⟩
  all_goals contradiction

/-- on ANY file `e` (valid entry or not): whenever the repaired reader accepts `e` as a module with code, the
as-is reader accepts `e` as the same module -/
theorem fixed_agrees_with_code (crc : Bytes → Nat) (magic ver e : Bytes) (cm : CM)
    (h : deserializeFixed crc magic ver e = .ok cm) (hx : cm.exec ≠ []) :
    deserialize crc magic ver e = .ok cm := by
  obtain ⟨rest, hr⟩ := deserializeFixed_ok_iff h
  unfold deserialize
  rw [deserializeRFixed_agrees hr hx]

/-- the finding switch, spelled out -/
theorem deserializeSw_false (crc : Bytes → Nat) (magic ver e : Bytes) :
    deserializeSw false crc magic ver e = deserialize crc magic ver e := rfl

theorem deserializeSw_true (crc : Bytes → Nat) (magic ver e : Bytes) :
    deserializeSw true crc magic ver e = deserializeFixed crc magic ver e := rfl

/-! ### concrete tests -/

/-- the witness of the finding (strict prefixes of the entry of a module without code are accepted by the as-is
reader) is refused by the repaired reader, and the full entry is accepted -/
theorem truncation_witness_fixed :
    deserializeFixed crc0 magic0 ver0
        ((serialize crc0 magic0 ver0 cm0).take ((serialize crc0 magic0 ver0 cm0).length - 1)) =
      .err "error reading source map presence" ∧
    deserializeFixed crc0 magic0 ver0
        ((serialize crc0 magic0 ver0 cm0).take ((serialize crc0 magic0 ver0 cm0).length - 4)) =
      .err "could not read checksum" ∧
    deserializeFixed crc0 magic0 ver0 (serialize crc0 magic0 ver0 cm0) = .ok cm0 := by
  decide

/-- test: full round trip of a concrete well-formed entry with code and source map -/
example : deserializeFixed crcSum magic0 ver0 (serialize crcSum magic0 ver0 cm1) = .ok cm1 := by
  decide

/-- test: the same through the general theorem (non-vacuity of its hypotheses) -/
example : deserializeFixed crcSum magic0 ver0 (serialize crcSum magic0 ver0 cm1) = .ok cm1 :=
  deser_ser_fixed crcSum magic0 ver0 cm1 cm1_wf (by decide)

end Wz.C13.Entry
