/-
Helper lemmas for C08 part 2: invariants of the `setABIArgs` loop (`Wz.Model.Abi.assign`), proved by
induction over the type list for an arbitrary loop state, and of the Go-call stack view.
-/
import Wz.Model.Abi

namespace Wz.C08.AbiLemmas
open Wz.Model.Abi

def countInt (tys : List Ty) : Nat := (tys.filter Ty.isInt).length
def countFloat (tys : List Ty) : Nat := (tys.filter fun t => !t.isInt).length

/-- The four outcomes of one loop iteration. -/
theorem place_cases (ints floats : List Nat) (st : St) (t : Ty) :
    (∃ r, t.isInt = true ∧ ints[st.ii]? = some r ∧
        place ints floats st t = (.reg true r, { st with ii := st.ii + 1 })) ∨
    (t.isInt = true ∧ ints[st.ii]? = none ∧
        place ints floats st t = (.stack st.off, { st with off := st.off + t.slotSize })) ∨
    (∃ r, t.isInt = false ∧ floats[st.fi]? = some r ∧
        place ints floats st t = (.reg false r, { st with fi := st.fi + 1 })) ∨
    (t.isInt = false ∧ floats[st.fi]? = none ∧
        place ints floats st t = (.stack st.off, { st with off := st.off + t.slotSize })) := by
  unfold place Ty.slotSize
  cases ht : t.isInt
  · cases hf : floats[st.fi]? with
    | none => right; right; right; simp
    | some r => right; right; left; exact ⟨r, by simp⟩
  · cases hi : ints[st.ii]? with
    | none => right; left; simp
    | some r => left; exact ⟨r, by simp⟩

theorem slotSize_pos (t : Ty) : 8 ≤ t.slotSize := by
  unfold Ty.slotSize; split <;> (try split) <;> omega

/-- What is known about one produced argument relative to the loop state `st` it was produced from (or an
earlier one) and the final state `fin`. -/
structure Good (ints floats : List Nat) (st fin : St) (a : Arg) : Prop where
  stack : ∀ o, a.loc = .stack o → st.off ≤ o ∧ o + a.ty.slotSize ≤ fin.off
  regI : ∀ r, a.loc = .reg true r → a.ty.isInt = true ∧ ∃ j, st.ii ≤ j ∧ ints[j]? = some r
  regF : ∀ r, a.loc = .reg false r → a.ty.isInt = false ∧ ∃ j, st.fi ≤ j ∧ floats[j]? = some r

theorem place_mono (ints floats : List Nat) (st : St) (t : Ty) :
    st.off ≤ (place ints floats st t).2.off ∧ st.ii ≤ (place ints floats st t).2.ii ∧
      st.fi ≤ (place ints floats st t).2.fi := by
  rcases place_cases ints floats st t with ⟨r, _, _, h⟩ | ⟨_, _, h⟩ | ⟨r, _, _, h⟩ | ⟨_, _, h⟩ <;> rw [h] <;> simp

theorem Good.weaken {ints floats : List Nat} {st st' fin : St} {a : Arg}
    (h : Good ints floats st' fin a) (ho : st.off ≤ st'.off) (hi : st.ii ≤ st'.ii) (hf : st.fi ≤ st'.fi) :
    Good ints floats st fin a where
  stack := fun o ho' => ⟨Nat.le_trans ho (h.stack o ho').1, (h.stack o ho').2⟩
  regI := fun r hr => ⟨(h.regI r hr).1, let ⟨j, hj, e⟩ := (h.regI r hr).2; ⟨j, Nat.le_trans hi hj, e⟩⟩
  regF := fun r hr => ⟨(h.regF r hr).1, let ⟨j, hj, e⟩ := (h.regF r hr).2; ⟨j, Nat.le_trans hf hj, e⟩⟩

/-- Main invariant of the loop. -/
theorem assign_good (ints floats : List Nat) : ∀ (tys : List Ty) (st : St) (i : Nat),
    st.off ≤ (finalSt ints floats st tys).off ∧
    ∀ a ∈ assign ints floats st i tys, Good ints floats st (finalSt ints floats st tys) a := by
  intro tys
  induction tys with
  | nil => intro st i; simp [finalSt, assign]
  | cons t ts ih =>
    intro st i
    have hm := place_mono ints floats st t
    have ih' := ih (place ints floats st t).2 (i + 1)
    simp only [finalSt, assign]
    refine ⟨Nat.le_trans hm.1 ih'.1, ?_⟩
    intro a ha
    simp only [List.mem_cons] at ha
    rcases ha with rfl | ha
    · rcases place_cases ints floats st t with ⟨r, ht, he, h⟩ | ⟨ht, he, h⟩ | ⟨r, ht, he, h⟩ | ⟨ht, he, h⟩
      · constructor
        · intro o ho; simp [h] at ho
        · intro r' hr; simp [h] at hr; subst hr; exact ⟨ht, st.ii, Nat.le_refl _, he⟩
        · intro r' hr; simp [h] at hr
      · constructor
        · intro o ho
          simp only [h, Loc.stack.injEq] at ho
          subst ho
          have := ih'.1
          rw [h] at this
          simp only at this
          refine ⟨Nat.le_refl _, ?_⟩
          rw [h]
          exact this
        · intro r' hr; simp [h] at hr
        · intro r' hr; simp [h] at hr
      · constructor
        · intro o ho; simp [h] at ho
        · intro r' hr; simp [h] at hr
        · intro r' hr; simp [h] at hr; subst hr; exact ⟨ht, st.fi, Nat.le_refl _, he⟩
      · constructor
        · intro o ho
          simp only [h, Loc.stack.injEq] at ho
          subst ho
          have := ih'.1
          rw [h] at this
          simp only at this
          refine ⟨Nat.le_refl _, ?_⟩
          rw [h]
          exact this
        · intro r' hr; simp [h] at hr
        · intro r' hr; simp [h] at hr
    · exact (ih'.2 a ha).weaken hm.1 hm.2.1 hm.2.2

/-- Separation of an earlier argument `a` from a later one `b`: stack bytes of `a` end before those of `b`
begin, and they are not in the same register. -/
def Sep (a b : Arg) : Prop :=
  (∀ oa ob, a.loc = .stack oa → b.loc = .stack ob → oa + a.ty.slotSize ≤ ob) ∧
  (∀ c r, a.loc = .reg c r → b.loc ≠ .reg c r)

theorem getElem?_inj' {l : List Nat} (h : l.Nodup) {i j : Nat} {x : Nat}
    (hi : l[i]? = some x) (hj : l[j]? = some x) : i = j := by
  have hlt : i < l.length := by
    rcases List.getElem?_eq_some_iff.mp hi with ⟨h', _⟩
    exact h'
  exact (List.getElem?_inj hlt h).mp (hi.trans hj.symm)

theorem assign_pairwise (ints floats : List Nat) (hI : ints.Nodup) (hF : floats.Nodup) :
    ∀ (tys : List Ty) (st : St) (i : Nat), List.Pairwise Sep (assign ints floats st i tys) := by
  intro tys
  induction tys with
  | nil => intro st i; simp [assign]
  | cons t ts ih =>
    intro st i
    simp only [assign, List.pairwise_cons]
    refine ⟨?_, ih _ _⟩
    intro b hb
    have hg := (assign_good ints floats ts (place ints floats st t).2 (i + 1)).2 b hb
    rcases place_cases ints floats st t with ⟨r, ht, he, h⟩ | ⟨ht, he, h⟩ | ⟨r, ht, he, h⟩ | ⟨ht, he, h⟩
    · constructor
      · intro oa ob hoa; simp [h] at hoa
      · intro c r' hr hbr
        simp only [h, Loc.reg.injEq] at hr
        obtain ⟨rfl, rfl⟩ := hr
        obtain ⟨_, j, hj, hje⟩ := hg.regI _ hbr
        rw [h] at hj
        simp only at hj
        have := getElem?_inj' hI he hje
        omega
    · constructor
      · intro oa ob hoa hob
        simp only [h, Loc.stack.injEq] at hoa
        subst hoa
        have := (hg.stack ob hob).1
        rw [h] at this
        simpa using this
      · intro c r' hr; simp [h] at hr
    · constructor
      · intro oa ob hoa; simp [h] at hoa
      · intro c r' hr hbr
        simp only [h, Loc.reg.injEq] at hr
        obtain ⟨rfl, rfl⟩ := hr
        obtain ⟨_, j, hj, hje⟩ := hg.regF _ hbr
        rw [h] at hj
        simp only at hj
        have := getElem?_inj' hF he hje
        omega
    · constructor
      · intro oa ob hoa hob
        simp only [h, Loc.stack.injEq] at hoa
        subst hoa
        have := (hg.stack ob hob).1
        rw [h] at this
        simpa using this
      · intro c r' hr; simp [h] at hr

/-- Indices and types are those of the signature, in order. -/
theorem assign_index_ty (ints floats : List Nat) : ∀ (tys : List Ty) (st : St) (i : Nat),
    (assign ints floats st i tys).map Arg.index = List.range' i tys.length ∧
    (assign ints floats st i tys).map Arg.ty = tys := by
  intro tys
  induction tys with
  | nil => intro st i; simp [assign]
  | cons t ts ih =>
    intro st i
    have := ih (place ints floats st t).2 (i + 1)
    simp [assign, List.range'_succ, this.1, this.2]

theorem assign_append (ints floats : List Nat) : ∀ (pre post : List Ty) (st : St) (i : Nat),
    assign ints floats st i (pre ++ post) =
      assign ints floats st i pre ++ assign ints floats (finalSt ints floats st pre) (i + pre.length) post := by
  intro pre
  induction pre with
  | nil => intro post st i; simp [assign, finalSt]
  | cons t ts ih =>
    intro post st i
    simp only [List.cons_append, assign, finalSt, ih, List.length_cons]
    have : i + 1 + ts.length = i + (ts.length + 1) := by omega
    rw [this]

theorem assign_length (ints floats : List Nat) (tys : List Ty) (st : St) (i : Nat) :
    (assign ints floats st i tys).length = tys.length := by
  have := congrArg List.length (assign_index_ty ints floats tys st i).2
  simpa using this

/-- The register cursors after a prefix: bounded by the list lengths, exact counts. -/
theorem finalSt_cursors (ints floats : List Nat) : ∀ (tys : List Ty) (st : St),
    st.ii ≤ ints.length → st.fi ≤ floats.length →
    (finalSt ints floats st tys).ii = min ints.length (st.ii + countInt tys) ∧
    (finalSt ints floats st tys).fi = min floats.length (st.fi + countFloat tys) := by
  intro tys
  induction tys with
  | nil => intro st hi hf; simp [finalSt, countInt, countFloat]; omega
  | cons t ts ih =>
    intro st hi hf
    simp only [finalSt]
    rcases place_cases ints floats st t with ⟨r, ht, he, h⟩ | ⟨ht, he, h⟩ | ⟨r, ht, he, h⟩ | ⟨ht, he, h⟩
    · have hlt : st.ii < ints.length := by
        rcases List.getElem?_eq_some_iff.mp he with ⟨h', _⟩; exact h'
      have := ih (place ints floats st t).2 (by rw [h]; simp; omega) (by rw [h]; simpa using hf)
      rw [h] at this ⊢
      simp only [countInt, countFloat, List.filter_cons, ht, if_true, List.length_cons, Bool.not_true,
        Bool.false_eq_true, if_false] at this ⊢
      omega
    · have hge : ints.length ≤ st.ii := by
        simpa using he
      have := ih (place ints floats st t).2 (by rw [h]; simpa using hi) (by rw [h]; simpa using hf)
      rw [h] at this ⊢
      simp only [countInt, countFloat, List.filter_cons, ht, if_true, List.length_cons, Bool.not_true,
        Bool.false_eq_true, if_false] at this ⊢
      omega
    · have hlt : st.fi < floats.length := by
        rcases List.getElem?_eq_some_iff.mp he with ⟨h', _⟩; exact h'
      have := ih (place ints floats st t).2 (by rw [h]; simpa using hi) (by rw [h]; simp; omega)
      rw [h] at this ⊢
      simp only [countInt, countFloat, List.filter_cons, ht, if_true, List.length_cons, Bool.not_false,
        Bool.false_eq_true, if_false] at this ⊢
      omega
    · have hge : floats.length ≤ st.fi := by
        simpa using he
      have := ih (place ints floats st t).2 (by rw [h]; simpa using hi) (by rw [h]; simpa using hf)
      rw [h] at this ⊢
      simp only [countInt, countFloat, List.filter_cons, ht, if_true, List.length_cons, Bool.not_false,
        Bool.false_eq_true, if_false] at this ⊢
      omega

/-- Number of register-passed values of each class = advance of the cursor. -/
theorem assign_reg_counts (ints floats : List Nat) : ∀ (tys : List Ty) (st : St) (i : Nat),
    ((assign ints floats st i tys).filter isRegInt).length + st.ii = (finalSt ints floats st tys).ii ∧
    ((assign ints floats st i tys).filter isRegFloat).length + st.fi = (finalSt ints floats st tys).fi := by
  intro tys
  induction tys with
  | nil => intro st i; simp [assign, finalSt]
  | cons t ts ih =>
    intro st i
    have := ih (place ints floats st t).2 (i + 1)
    simp only [assign, finalSt, List.filter_cons]
    rcases place_cases ints floats st t with ⟨r, ht, he, h⟩ | ⟨ht, he, h⟩ | ⟨r, ht, he, h⟩ | ⟨ht, he, h⟩ <;>
    · rw [h] at this ⊢
      simp only [isRegInt, isRegFloat, ht, if_true, Bool.not_true, Bool.not_false, Bool.false_eq_true, if_false,
        List.length_cons] at this ⊢
      omega

/-! ### stack view -/

theorem slotIndex_cons_succ (t : Ty) (ts : List Ty) (i : Nat) :
    slotIndex (t :: ts) (i + 1) = t.goSlots + slotIndex ts i := by
  simp [slotIndex]

theorem goSlots_pos (t : Ty) : 0 < t.goSlots := by cases t <;> simp [Ty.goSlots]

/-- `slotOwner` inverts `slotIndex`: slot `slotIndex i + h` belongs to value `i`, half `h`. -/
theorem slotOwner_slotIndex : ∀ (tys : List Ty) (i h : Nat) (t : Ty),
    tys[i]? = some t → h < t.goSlots → slotOwner tys (slotIndex tys i + h) = some (i, h) := by
  intro tys
  induction tys with
  | nil => intro i h t ht; simp at ht
  | cons u us ih =>
    intro i h t ht hh
    cases i with
    | zero =>
      simp only [List.getElem?_cons_zero, Option.some.injEq] at ht
      subst ht
      simp [slotIndex, slotOwner, hh]
    | succ i =>
      simp only [List.getElem?_cons_succ] at ht
      rw [slotIndex_cons_succ]
      unfold slotOwner
      have : ¬ (u.goSlots + slotIndex us i + h < u.goSlots) := by omega
      rw [if_neg this]
      have e : u.goSlots + slotIndex us i + h - u.goSlots = slotIndex us i + h := by omega
      rw [e, ih i h t ht hh]
      rfl

/-- Every slot below the total has an owner, and the owner's range contains it. -/
theorem slotOwner_total : ∀ (tys : List Ty) (s : Nat), s < totalSlots tys →
    ∃ i h t, slotOwner tys s = some (i, h) ∧ tys[i]? = some t ∧ h < t.goSlots ∧ slotIndex tys i + h = s := by
  intro tys
  induction tys with
  | nil => intro s hs; simp [totalSlots] at hs
  | cons u us ih =>
    intro s hs
    unfold slotOwner
    by_cases hlt : s < u.goSlots
    · exact ⟨0, s, u, by simp [hlt], by simp, hlt, by simp [slotIndex]⟩
    · rw [if_neg hlt]
      have hs' : s - u.goSlots < totalSlots us := by
        simp only [totalSlots, List.map_cons, List.sum_cons] at hs ⊢
        omega
      obtain ⟨i, h, t, ho, ht, hh, he⟩ := ih (s - u.goSlots) hs'
      refine ⟨i + 1, h, t, by simp [ho], by simpa using ht, hh, ?_⟩
      rw [slotIndex_cons_succ]
      omega

theorem slotIndex_lt_total : ∀ (tys : List Ty) (i h : Nat) (t : Ty),
    tys[i]? = some t → h < t.goSlots → slotIndex tys i + h < totalSlots tys := by
  intro tys
  induction tys with
  | nil => intro i h t ht; simp at ht
  | cons u us ih =>
    intro i h t ht hh
    cases i with
    | zero =>
      simp only [List.getElem?_cons_zero, Option.some.injEq] at ht
      subst ht
      simp only [slotIndex, totalSlots, List.take_zero, List.map_nil, List.sum_nil, List.map_cons, List.sum_cons]
      omega
    | succ i =>
      simp only [List.getElem?_cons_succ] at ht
      rw [slotIndex_cons_succ]
      have := ih i h t ht hh
      simp only [totalSlots, List.map_cons, List.sum_cons] at this ⊢
      omega

/-- Without vectors the view is the identity: slot `i` is value `i`. -/
theorem slotIndex_no_v128 : ∀ (tys : List Ty), (∀ t ∈ tys, t ≠ .v128) → ∀ i, i ≤ tys.length → slotIndex tys i = i := by
  intro tys
  induction tys with
  | nil => intro _ i hi; simp at hi; subst hi; simp [slotIndex]
  | cons u us ih =>
    intro hv i hi
    cases i with
    | zero => simp [slotIndex]
    | succ i =>
      rw [slotIndex_cons_succ, ih (fun t ht => hv t (List.mem_cons_of_mem _ ht)) i (by simpa using hi)]
      have : u ≠ .v128 := hv u (List.mem_cons_self ..)
      cases u <;> simp [Ty.goSlots] at this ⊢ <;> omega

end Wz.C08.AbiLemmas
