/-
C01 (front end, structured control flow): whole functions.  `refines_validated`: for a function accepted by the checker
`FrontendCFCheck.validate`, whenever the reference semantics (`Wz.Spec.Wasm.invoke` on the embedding) terminates - with
values or with a trap - the SSA run of `lowerCF f` with enough fuel has that outcome.  Through the entry of the
function (binding of the block parameters, zero constants of the locals: lemmas of `C01_Front`), the simulation
`sim_all` of `C01_FrontCF_Sim`, and `resolveOps_run`.
-/
import Wz.Proofs.C01_FrontCF_Sim
import Wz.Proofs.C01_FrontCF_Passes

namespace Wz.Proofs.FrontCF
open Wz.Spec Wz.Model.SsaPass Wz.Model.FrontendSL Wz.Model.FrontendCF Wz.Proofs.Front

theorem labsOK_ret (f : Function) : LabsOK (ctxOf f) [retLab f] := by
  constructor
  · intro lab hl _
    rw [List.mem_singleton.mp hl]; rfl
  · intro lab hl _
    rw [List.mem_singleton.mp hl]; rfl

/-- the invariant at the start of the body -/
theorem start_inv (f : Function) (args : List Nat) (hargs : ArgsOK f.sig args) (ec mc : Nat) :
    (∀ v, f.params.length + 2 ≤ v → entryEnv f.sig ec mc args v = 0) ∧
    InvC (f.params ++ f.locals) [] (startCS f).vars
      ⟨[], (args ++ f.locals.map (fun _ => 0)).toArray⟩ (entryEnv f.sig ec mc args) := by
  obtain ⟨h0, hinv⟩ := entry_inv f.sig args hargs ec mc
  refine ⟨h0, InvC.mk rfl (fun _ hp => by cases hp) ?_ ?_ ?_⟩
  · have := congrArg List.length hinv.locTy
    simp only [List.length_map] at this
    simp only [startCS, List.length_map]
    exact this
  · have h1 := congrArg List.length hinv.loc
    have h2 := congrArg List.length hinv.locTy
    simp only [List.length_map, Array.length_toList] at h1 h2
    show (args ++ f.locals.map (fun _ => 0)).toArray.size = _
    have h3 : (args ++ f.locals.map (fun _ => 0)).toArray.size = (args ++ f.sig.locals.map (fun _ => 0)).length := by
      simp [Function.sig]
    rw [h3, ← h1]; exact h2
  · intro x v hx
    simp only [startCS, List.getElem?_map] at hx
    cases hp : (initLS f.sig).2.locals[x]? with
    | none => simp [hp] at hx
    | some p =>
      simp only [hp, Option.map_some, Option.some.injEq] at hx
      subst hx
      refine ⟨?_, ?_, hinv.locR p (List.mem_of_getElem? hp)⟩
      · show _ = (args ++ f.sig.locals.map (fun _ => 0)).toArray[x]!
        rw [arr_get _ _ hinv.loc x, List.getElem?_map, hp]; rfl
      · have := congrArg (fun l => l[x]?) hinv.locTy
        simp only [List.getElem?_map, hp, Option.map_some] at this
        exact this.symm


theorem ctxOf_alias (f : Function) : (ctxOf f).g.alias = [] := rfl

/-- the SSA run enters the entry block and passes the zero constants of the locals -/
theorem run_start (w : World) (f : Function) (hentry : entryOK f = true) (args : List Nat)
    (hargs : ArgsOK f.sig args) (ec mc : Nat) (fuel : Nat) :
    run w (ctxOf f).g (ec :: mc :: args) (fuel + 1) =
      runPos w (ctxOf f).g fuel 0 (startCS f).pos (entryEnv f.sig ec mc args) := by
  unfold entryOK at hentry
  generalize hg : (ctxOf f).g = g at hentry ⊢
  have hal : g.alias = [] := by rw [← hg]; rfl
  cases hb : g.blocks with
  | nil => simp [hb] at hentry
  | cons B Bs =>
    simp only [hb, Bool.and_eq_true, beq_iff_eq, Bool.not_eq_true'] at hentry
    obtain ⟨⟨⟨hid, hval⟩, hpar⟩, hins⟩ := hentry
    have hent : g.entry = 0 := by simp [Func.entry, hb, hid]
    have hfb : g.findBlock 0 = some B := by
      simp [Func.findBlock, hb, hid, hval]
    have hlen : B.params.length = (ec :: mc :: args).length := by
      rw [hpar]; simp [entryParams, hargs.1, Function.sig]
    have h1 : run w g (ec :: mc :: args) (fuel + 1) =
        runPos w g fuel 0 0 (bindVals (fun _ => 0) B.params (ec :: mc :: args)) := by
      simp only [run, hent]
      exact runFrom_enter w g hal fuel 0 B _ (fun _ => 0) hfb hlen
    rw [h1, hpar]
    have hio : instrsOf g 0 = B.instrs := by simp [instrsOf, hfb]
    have hdrop : (instrsOf g 0).drop 0 = (initLS f.sig).1 ++ (instrsOf g 0).drop (0 + (initLS f.sig).1.length) := by
      rw [hio, List.drop_zero, Nat.zero_add]
      conv => lhs; rw [← List.take_append_drop (initLS f.sig).1.length B.instrs, hins]
    have h0 := (start_inv f args hargs ec mc).1
    have := runPos_straight w g 0 0 (initLS f.sig).1 (entryEnv f.sig ec mc args) (entryEnv f.sig ec mc args) hdrop
      (fun rest => declLocals_exec w f.locals (f.params.length + 2) {} _ rest h0) fuel
    simp only [Nat.zero_add] at this
    exact this


/-- what the reference semantics makes of the result of the body -/
theorem runSpec_succ (f : Function) (args : List Nat) (hlen : args.length = f.params.length) (n : Nat) :
    Wz.Model.FrontendCF.runSpec f args (n + 1) =
      match Wasm.execSeq f.toModule n (toInstrs f.body) ⟨[], (args ++ f.locals.map (fun _ => 0)).toArray⟩ {} with
      | (.next, fr', _) | (.ret, fr', _) | (.br _, fr', _) => .values ((fr'.stack.take f.results.length).reverse)
      | (.trap k, _, _) => .trap k
      | (.exhausted, _, _) => .exhausted := by
  have hft : Wasm.funcType f.toModule 0 = ⟨f.params.map Ty.toVT, f.results.map Ty.toVT⟩ := rfl
  have htake : args.reverse.take f.params.length = args.reverse :=
    List.take_of_length_le (by simp [hlen])
  have hdrop : args.reverse.drop f.params.length = [] :=
    List.drop_of_length_le (by simp [hlen])
  have himp : ¬ (0 < f.toModule.imports.length) := by simp [Function.toModule]
  have hfn : f.toModule.funcs.getD (0 - f.toModule.imports.length) default =
      ⟨0, f.locals.map Ty.toVT, toInstrs f.body⟩ := rfl
  simp only [Wz.Model.FrontendCF.runSpec, Wasm.invoke, Wasm.callFunc, hft, htake, hdrop, himp, if_false, hfn, List.reverse_reverse,
    List.map_map, List.append_nil, List.length_map]
  have hcomp : ((fun _ => 0) ∘ Ty.toVT : Ty → Nat) = fun _ => 0 := rfl
  rw [hcomp]
  generalize Wasm.execSeq f.toModule n (toInstrs f.body)
      { locals := (args ++ List.map (fun _ => 0) f.locals).toArray } {} = r
  obtain ⟨ctl, fr', st'⟩ := r
  cases ctl <;> simp only [List.take_take, Nat.min_self]

/-- **Validated refinement, forward direction**: if the checker accepts `f`, then whenever the reference semantics
terminates (values or trap) the SSA run of `lowerCF f` with enough fuel has that outcome. -/
theorem refines_validated (f : Function) (hv : validate f = true) (args : List Nat) (hargs : ArgsOK f.sig args)
    (w : World) (ec mc : Nat) (n : Nat) (hterm : Wz.Model.FrontendCF.runSpec f args n ≠ .exhausted) :
    ∃ k, ∀ fuel, run w (lowerCF f) (ec :: mc :: args) (fuel + k) = ofSpecCF (Wz.Model.FrontendCF.runSpec f args n) := by
  simp only [validate, Bool.and_eq_true] at hv
  obtain ⟨hentry, hbody⟩ := hv
  cases n with
  | zero => exact absurd rfl hterm
  | succ n =>
    have hlen : args.length = f.params.length := hargs.1
    rw [runSpec_succ f args hlen n] at hterm ⊢
    obtain ⟨h0, hinv⟩ := start_inv f args hargs ec mc
    have hinv' : InvC (ctxOf f).lt (startCS f).stack (startCS f).vars
        ⟨[], (args ++ f.locals.map (fun _ => 0)).toArray⟩ (entryEnv f.sig ec mc args) := hinv
    have hne : chkL (ctxOf f) [retLab f] (startCS f) f.body ≠ .fail := by
      intro h; rw [h] at hbody; cases hbody
    have hsim := (sim_all (w := w) (cx := ctxOf f) (m := f.toModule) (ctxOf_alias f) n).2.1 f.body [retLab f]
      (startCS f) ⟨[], (args ++ f.locals.map (fun _ => 0)).toArray⟩ (entryEnv f.sig ec mc args) {}
      (labsOK_ret f) hinv' hne
    generalize Wasm.execSeq f.toModule n (toInstrs f.body)
      ⟨[], (args ++ f.locals.map (fun _ => 0)).toArray⟩ {} = out at hsim hterm ⊢
    obtain ⟨ctl, fr', st'⟩ := out
    obtain ⟨_, hres⟩ := hsim
    -- it is enough to show that the run from the start of the body ends with the outcome
    suffices h : Ends w (ctxOf f).g ⟨0, (startCS f).pos, entryEnv f.sig ec mc args⟩
        (ofSpecCF (match (ctl, fr', st') with
          | (.next, fr', _) | (.ret, fr', _) | (.br _, fr', _) => .values ((fr'.stack.take f.results.length).reverse)
          | (.trap k, _, _) => .trap k
          | (.exhausted, _, _) => .exhausted)) by
      obtain ⟨k, hk⟩ := h
      refine ⟨k + 1, fun fuel => ?_⟩
      have hrun : run w (lowerCF f) (ec :: mc :: args) (fuel + (k + 1)) =
          run w (ctxOf f).g (ec :: mc :: args) (fuel + k + 1) := (resolveOps_run w (lowerCF f) _ _).symm
      rw [hrun, run_start w f hentry args hargs ec mc (fuel + k)]
      exact hk fuel
    cases ctl with
    | next =>
      obtain ⟨c', env', hr, hs, hi⟩ := hres
      rw [hr] at hbody
      simp only [Bool.and_eq_true, beq_iff_eq] at hbody
      obtain ⟨_, hj⟩ := hbody
      simp only [chkJump, retLab, if_true, Bool.and_eq_true] at hj
      have := ends_ret w (ctxOf f).g c'.blk c'.pos _ env' (getElem?_of_expect hj.2)
      rw [peekVals_env hi] at this
      exact hs.ends this
    | br l =>
      have hres' : BrOK w (ctxOf f) [retLab f] l ⟨(startCS f).blk, (startCS f).pos, entryEnv f.sig ec mc args⟩ fr' :=
        hres
      cases l with
      | zero =>
        simp only [BrOK, List.getElem?_cons_zero, retLab, if_true] at hres'
        exact hres'
      | succ l => simp [BrOK] at hres'
    | ret => exact hres
    | trap k => exact hres
    | exhausted => exact absurd rfl hterm

end Wz.Proofs.FrontCF
