/- Lemmas for C12 part 3 (cache state machine). Core Lean only. -/
import Wz.Model.Cache

namespace Wz.Proofs.C12Cache
open Wz.Model.Cache

set_option linter.unusedSectionVars false
variable {K C α : Type} [DecidableEq K]

theorem lookup_mem {l : List (K × α)} {k : K} {v : α} (h : lookup l k = some v) : (k, v) ∈ l := by
  induction l with
  | nil => simp [lookup] at h
  | cons p t ih =>
    obtain ⟨k', v'⟩ := p
    simp only [lookup] at h
    split at h
    · rename_i hk; simp at h; subst hk; subst h; simp
    · exact List.mem_cons_of_mem _ (ih h)

theorem lookup_erase_ne (l : List (K × α)) (k k' : K) (hne : k' ≠ k) : lookup (erase l k) k' = lookup l k' := by
  induction l with
  | nil => simp [erase, lookup]
  | cons p t ih =>
    obtain ⟨k0, v0⟩ := p
    unfold erase at ih ⊢
    by_cases h0 : k0 = k
    · subst h0
      have : k0 ≠ k' := fun e => hne e.symm
      simp [List.filter, lookup, this, ih]
    · simp [List.filter, h0, lookup, ih]

theorem mem_erase_of {l : List (K × α)} {k : K} {p : K × α} (h : p ∈ erase l k) : p ∈ l := by
  unfold erase at h
  exact (List.mem_filter.mp h).1

/-- Soundness of the key: equal keys imply equal generated code. -/
def KeySound (P : Params K C) : Prop :=
  ∀ rt₁ b₁ rt₂ b₂, P.key rt₁ b₁ = P.key rt₂ b₂ → P.code rt₁ b₁ = P.code rt₂ b₂

/-- Every cached entry (memory and disk) holds the code some request with that key would generate. -/
def CodeSound (P : Params K C) (s : St K C) : Prop :=
  (∀ k e, (k, e) ∈ s.mem → ∃ rt b, P.key rt b = k ∧ e.code = P.code rt b) ∧
  (∀ k c, (k, c) ∈ s.disk → ∃ rt b, P.key rt b = k ∧ c = P.code rt b)

theorem codeSound_init (P : Params K C) : CodeSound P (St.init : St K C) := by
  constructor <;> intro _ _ h <;> simp [St.init] at h

theorem codeSound_step (P : Params K C) (v : Variant) (s : St K C) (op : Op) (h : CodeSound P s) :
    CodeSound P (step P v s op).1 := by
  obtain ⟨hm, hd⟩ := h
  cases op with
  | compile rt b =>
    simp only [step]
    split
    · exact ⟨hm, hd⟩
    · split
      · rename_i c hc
        have hc' : lookup s.disk (P.key rt b) = some c := by
          split at hc
          · exact hc
          · simp at hc
        obtain ⟨rt', b', hk, hcc⟩ := hd _ _ (lookup_mem hc')
        refine ⟨?_, hd⟩
        intro k e he
        simp only [List.mem_cons] at he
        cases he with
        | inl he => cases he; exact ⟨rt', b', hk, hcc⟩
        | inr he => exact hm k e he
      · refine ⟨?_, ?_⟩
        · intro k e he
          simp only [List.mem_cons] at he
          cases he with
          | inl he => cases he; exact ⟨rt, b, rfl, rfl⟩
          | inr he => exact hm k e he
        · intro k c hc
          split at hc
          · simp only [List.mem_cons] at hc
            cases hc with
            | inl hc => cases hc; exact ⟨rt, b, rfl, rfl⟩
            | inr hc => exact hd k c hc
          · exact hd k c hc
  | instantiate rt b =>
    simp only [step]
    split
    · split <;> exact ⟨hm, hd⟩
    · exact ⟨hm, hd⟩
  | closeCompiled rt b =>
    simp only [step]
    split
    · split
      · exact ⟨hm, hd⟩
      · exact ⟨fun k e he => hm k e (mem_erase_of he), hd⟩
    · exact ⟨hm, hd⟩

/-- In a code-sound state with a sound key, an instantiation that succeeds runs exactly the code a fresh
compile of this request generates; and `noHandle` is decided by the handles alone. -/
theorem instantiate_code (P : Params K C) (hk : KeySound P) (v : Variant) (s : St K C) (h : CodeSound P s)
    (rt b : Nat) (c : C) (l : Lst) (ho : (step P v s (.instantiate rt b)).2 = .ran c l) : c = P.code rt b := by
  simp only [step] at ho
  split at ho
  · split at ho
    · simp at ho
    · rename_i e he
      simp only [Out.ran.injEq] at ho
      obtain ⟨rt', b', hkey, hc⟩ := h.1 _ _ (lookup_mem he)
      rw [← ho.1, hc]
      exact hk _ _ _ _ hkey
  · simp at ho

/-- All successful instantiations of a whole history run the fresh code. -/
theorem run_code (P : Params K C) (hk : KeySound P) (v : Variant) :
    ∀ (ops : List Op) (s : St K C), CodeSound P s →
      ∀ (i rt b : Nat) (c : C) (l : Lst), ops[i]? = some (Op.instantiate rt b) → (run P v s ops)[i]? = some (Out.ran c l) → c = P.code rt b := by
  intro ops
  induction ops with
  | nil => intro s _ i rt b c l h; simp at h
  | cons op ops ih =>
    intro s hs i rt b c l hop hout
    cases i with
    | zero =>
      simp only [List.getElem?_cons_zero, Option.some.injEq] at hop
      subst hop
      simp only [run, List.getElem?_cons_zero, Option.some.injEq] at hout
      exact instantiate_code P hk v s hs rt b c l hout
    | succ i =>
      simp only [List.getElem?_cons_succ] at hop
      simp only [run, List.getElem?_cons_succ] at hout
      exact ih _ (codeSound_step P v s op hs) i rt b c l hop hout

/-- Handles evolve exactly as in the specification, whatever the variant. -/
theorem handles_step (P : Params K C) (v : Variant) (s : St K C) (op : Op) :
    (step P v s op).1.handles = (specStep P s.handles op).1 := by
  cases op with
  | compile rt b => simp only [step, specStep]; split <;> (try split) <;> rfl
  | instantiate rt b => simp only [step, specStep]; split <;> (try split) <;> rfl
  | closeCompiled rt b => simp only [step, specStep]; split <;> (try split) <;> rfl

/-- Repaired variant: every live handle's entry is present. -/
def Live (P : Params K C) (s : St K C) : Prop :=
  ∀ h, h ∈ s.handles → (lookup s.mem (P.key h.1 h.2)).isSome = true

theorem live_init (P : Params K C) : Live P (St.init : St K C) := by
  intro h hh; simp [St.init] at hh

theorem lookup_cons_some (l : List (K × α)) (k k' : K) (v : α) (h : (lookup l k').isSome = true) :
    (lookup ((k, v) :: l) k').isSome = true := by
  simp only [lookup]; split <;> simp_all

theorem live_step (P : Params K C) (v : Variant) (hv : v.refcount = true) (s : St K C) (op : Op) (h : Live P s) :
    Live P (step P v s op).1 := by
  cases op with
  | compile rt b =>
    simp only [step]
    split
    · rename_i e he
      intro x hx
      simp only [List.mem_cons] at hx
      cases hx with
      | inl hx => subst hx; simp [he]
      | inr hx => exact h x hx
    · split
      all_goals
        intro x hx
        simp only [List.mem_cons] at hx
        cases hx with
        | inl hx => subst hx; simp [lookup]
        | inr hx => exact lookup_cons_some _ _ _ _ (h x hx)
  | instantiate rt b =>
    simp only [step]
    split
    · split <;> exact h
    · exact h
  | closeCompiled rt b =>
    simp only [step]
    split
    · split
      · intro x hx
        exact h x (List.mem_of_mem_erase hx)
      · rename_i hc
        simp only [hv, Bool.true_and, Bool.not_eq_true] at hc
        intro x hx
        have hne : P.key x.1 x.2 ≠ P.key rt b := by
          intro e
          have : (s.handles.erase (rt, b)).any (fun h => decide (P.key h.1 h.2 = P.key rt b)) = true :=
            List.any_eq_true.mpr ⟨x, hx, by simp [e]⟩
          rw [this] at hc
          exact absurd hc (by simp)
        show (lookup (erase s.mem (P.key rt b)) (P.key x.1 x.2)).isSome = true
        rw [lookup_erase_ne _ _ _ hne]
        exact h x (List.mem_of_mem_erase hx)
    · exact h

/-- Repaired variant, one step: the output is the specification's. -/
theorem repaired_step_out (P : Params K C) (hk : KeySound P) (s : St K C) (hs : CodeSound P s) (hl : Live P s) (op : Op) :
    (step P repaired s op).2 = (specStep P s.handles op).2 := by
  cases op with
  | compile rt b => simp only [step, specStep]; split <;> (try split) <;> rfl
  | closeCompiled rt b => simp only [step, specStep]; split <;> (try split) <;> rfl
  | instantiate rt b =>
    simp only [step, specStep]
    split
    · rename_i hh
      have := hl _ hh
      split
      · rename_i hn; simp [hn] at this
      · rename_i e he
        obtain ⟨rt', b', hkey, hc⟩ := hs.1 _ _ (lookup_mem he)
        simp only [repaired, if_true, Out.ran.injEq, and_true]
        rw [hc]; exact hk _ _ _ _ hkey
    · rfl

theorem repaired_run (P : Params K C) (hk : KeySound P) :
    ∀ (ops : List Op) (s : St K C), CodeSound P s → Live P s → run P repaired s ops = specRun P s.handles ops := by
  intro ops
  induction ops with
  | nil => intro s _ _; rfl
  | cons op ops ih =>
    intro s hs hl
    simp only [run, specRun]
    rw [repaired_step_out P hk s hs hl op,
      ih _ (codeSound_step P repaired s op hs) (live_step P repaired rfl s op hl), handles_step]

theorem privateParams_keySound (P : Params K C) (hk : KeySound P) : KeySound (privateParams P) := by
  intro rt₁ b₁ rt₂ b₂ h
  simp only [privateParams, Prod.mk.injEq] at h
  exact hk _ _ _ _ h.2

theorem specRun_private (P : Params K C) : ∀ (ops : List Op) (hs : List (Nat × Nat)),
    specRun (privateParams P) hs ops = specRun P hs ops := by
  intro ops
  induction ops with
  | nil => intro hs; rfl
  | cons op ops ih =>
    intro hs
    have e1 : (specStep (privateParams P) hs op) = (specStep P hs op) := by
      cases op <;> rfl
    simp only [specRun, e1, ih]

end Wz.Proofs.C12Cache
