/-
C16 — lemmas about the `descriptor.Table` model and the FSContext descriptor level.
-/
import Wz.Model.FdTable

namespace Wz.Proofs.C16Table
open Wz.Model.FdTable

variable {α : Type} [Inhabited α]

/-! ### Bit level -/

theorem one_shl_bit (s i : Nat) (hs : s < 64) : (1#64 <<< s).getLsbD i = decide (i = s) := by
  rw [BitVec.getLsbD_shiftLeft, BitVec.getLsbD_one]
  by_cases h : i = s
  · subst h; simp [hs]
  · simp only [h, decide_false]
    by_cases h2 : i < s
    · simp [h2]
    · have : i - s ≠ 0 := by omega
      simp [this]

theorem ne_zero_of_bit (x : BitVec 64) (i : Nat) (h : x.getLsbD i = true) : (x != 0#64) = true := by
  simp only [bne_iff_ne, ne_eq]
  intro hx; subst hx; simp at h

theorem exists_bit_of_ne_zero (x : BitVec 64) (h : (x != 0#64) = true) : ∃ i, i < 64 ∧ x.getLsbD i = true := by
  apply Classical.byContradiction
  intro hn
  have : x = 0#64 := by
    apply BitVec.eq_of_getLsbD_eq
    intro i hi
    rw [BitVec.getLsbD_zero]
    cases hb : x.getLsbD i
    · rfl
    · exact absurd ⟨i, hi, hb⟩ hn
  subst this; simp at h

theorem testBit_eq (m : BitVec 64) (s : Nat) (hs : s < 64) : testBit m s = m.getLsbD s := by
  unfold testBit
  cases hb : m.getLsbD s
  · have : m &&& (1#64 <<< s) = 0#64 := by
      apply BitVec.eq_of_getLsbD_eq
      intro i hi
      rw [BitVec.getLsbD_and, one_shl_bit s i hs, BitVec.getLsbD_zero]
      by_cases h : i = s
      · subst h; simp [hb]
      · simp [h]
    rw [this]; simp
  · apply ne_zero_of_bit _ s
    rw [BitVec.getLsbD_and, one_shl_bit s s hs, hb]; simp

theorem tzGo_spec (x : BitVec 64) : ∀ fuel i,
    i ≤ tzGo x fuel i ∧ tzGo x fuel i ≤ i + fuel ∧
    (∀ j, i ≤ j → j < tzGo x fuel i → x.getLsbD j = false) ∧
    (tzGo x fuel i < i + fuel → x.getLsbD (tzGo x fuel i) = true) := by
  intro fuel
  induction fuel with
  | zero => intro i; simp [tzGo]; intro j h1 h2; omega
  | succ n ih =>
    intro i
    unfold tzGo
    by_cases hb : x.getLsbD i = true
    · rw [if_pos hb]
      refine ⟨Nat.le_refl _, by omega, ?_, fun _ => hb⟩
      intro j h1 h2; omega
    · rw [if_neg hb]
      have hb' : x.getLsbD i = false := by simpa using hb
      obtain ⟨h1, h2, h3, h4⟩ := ih (i + 1)
      refine ⟨by omega, by omega, ?_, ?_⟩
      · intro j hj1 hj2
        by_cases hji : j = i
        · subst hji; exact hb'
        · exact h3 j (by omega) hj2
      · intro hlt; exact h4 (by omega)

theorem tz_spec (x : BitVec 64) (h : (x != 0#64) = true) :
    trailingZeros64 x < 64 ∧ x.getLsbD (trailingZeros64 x) = true ∧
    ∀ j, j < trailingZeros64 x → x.getLsbD j = false := by
  unfold trailingZeros64
  obtain ⟨h1, h2, h3, h4⟩ := tzGo_spec x 64 0
  obtain ⟨i, hi, hbi⟩ := exists_bit_of_ne_zero x h
  have hlt : tzGo x 64 0 < 64 := by
    apply Classical.byContradiction
    intro hn
    have := h3 i (by omega) (by omega)
    rw [this] at hbi; cases hbi
  exact ⟨hlt, h4 (by omega), fun j hj => h3 j (by omega) hj⟩

/-- `bits.TrailingZeros64(^m)` is the lowest clear bit of `m` when `m` is not all ones. -/
theorem tz_not_spec (m : BitVec 64) (h : (~~~m != 0#64) = true) :
    trailingZeros64 (~~~m) < 64 ∧ m.getLsbD (trailingZeros64 (~~~m)) = false ∧
    ∀ j, j < trailingZeros64 (~~~m) → m.getLsbD j = true := by
  obtain ⟨h1, h2, h3⟩ := tz_spec _ h
  refine ⟨h1, ?_, ?_⟩
  · rw [BitVec.getLsbD_not] at h2
    simpa [h1] using h2
  · intro j hj
    have := h3 j hj
    rw [BitVec.getLsbD_not] at this
    have hj64 : j < 64 := by omega
    simpa [hj64] using this

theorem full_word (m : BitVec 64) (h : (~~~m != 0#64) = false) : ∀ j, j < 64 → m.getLsbD j = true := by
  intro j hj
  cases hb : m.getLsbD j
  · have : (~~~m).getLsbD j = true := by rw [BitVec.getLsbD_not, hb]; simp [hj]
    have := ne_zero_of_bit _ j this
    rw [h] at this; cases this
  · rfl

/-! ### Abstract view: the table as a partial map `Nat ⇀ α` -/

def upd (m : Nat → Option α) (k : Nat) (v : Option α) : Nat → Option α := fun j => if j = k then v else m j

/-- what the table denotes -/
def abs (t : Table α) : Nat → Option α := fun k => t.lookup (k : Int)

theorem lookup_neg (t : Table α) (key : Int) (h : key < 0) : t.lookup key = none := by
  unfold Table.lookup; rw [if_pos h]

theorem empty_wf : (Table.empty : Table α).WF := by
  simp [Table.WF, Table.empty]

theorem empty_abs : abs (Table.empty : Table α) = fun _ => none := by
  funext k
  simp [abs, Table.lookup, Table.empty]

theorem getD_ge {β : Type} (l : List β) (d : β) (n : Nat) (h : l.length ≤ n) : l.getD n d = d := by
  have : l[n]? = none := by simp; omega
  simp [List.getD_eq_getElem?_getD, this]

def mbit (ms : List (BitVec 64)) (k : Nat) : Bool := (ms.getD (k / 64) 0#64).getLsbD (k % 64)

theorem abs_eq (t : Table α) (h : t.WF) (k : Nat) :
    abs t k = if mbit t.masks k then some (t.items.getD k default) else none := by
  unfold abs Table.lookup mbit
  have h0 : ¬ ((k:Int) < 0) := by omega
  simp only [h0, if_false, Int.toNat_natCast]
  rw [testBit_eq _ _ (Nat.mod_lt _ (by decide))]
  by_cases hk : k < t.items.length
  · simp [hk]
  · simp only [hk, if_false]
    have : t.masks.length ≤ k / 64 := by unfold Table.WF at h; omega
    rw [getD_ge _ _ _ this]
    simp

theorem getD_set_eq {β : Type} (l : List β) (i : Nat) (v d : β) (h : i < l.length) :
    (l.set i v).getD i d = v := by
  simp [List.getD_eq_getElem?_getD, h]

theorem getD_set_ne {β : Type} (l : List β) (i j : Nat) (v d : β) (h : i ≠ j) :
    (l.set i v).getD j d = l.getD j d := by
  simp [List.getD_eq_getElem?_getD, h]

theorem getD_append_replicate {β : Type} (l : List β) (n j : Nat) (d : β) :
    (l ++ List.replicate n d).getD j d = l.getD j d := by
  simp only [List.getD_eq_getElem?_getD, List.getElem?_append]
  by_cases h : j < l.length
  · simp [h]
  · simp only [h, if_false]
    have : l[j]? = none := by simp; omega
    rw [this, List.getElem?_replicate]
    split <;> rfl

theorem mbit_set_or (ms : List (BitVec 64)) (k : Nat) (hk : k / 64 < ms.length) (j : Nat) :
    mbit (ms.set (k/64) (ms.getD (k/64) 0#64 ||| (1#64 <<< (k%64)))) j = (decide (j = k) || mbit ms j) := by
  unfold mbit
  by_cases hj : j / 64 = k / 64
  · rw [hj, getD_set_eq _ _ _ _ hk, BitVec.getLsbD_or, one_shl_bit _ _ (Nat.mod_lt _ (by decide)), Bool.or_comm]
    have : (j % 64 = k % 64) ↔ j = k := by omega
    simp [this]
  · rw [getD_set_ne _ _ _ _ _ (Ne.symm hj)]
    have : j ≠ k := by intro h; subst h; exact hj rfl
    simp [this]

theorem mbit_set_andnot (ms : List (BitVec 64)) (k : Nat) (hk : k / 64 < ms.length) (j : Nat) :
    mbit (ms.set (k/64) (ms.getD (k/64) 0#64 &&& ~~~(1#64 <<< (k%64)))) j = (!decide (j = k) && mbit ms j) := by
  unfold mbit
  by_cases hj : j / 64 = k / 64
  · rw [hj, getD_set_eq _ _ _ _ hk, BitVec.getLsbD_and, BitVec.getLsbD_not,
      one_shl_bit _ _ (Nat.mod_lt _ (by decide)), Bool.and_comm]
    have : (j % 64 = k % 64) ↔ j = k := by omega
    have h64 : j % 64 < 64 := Nat.mod_lt _ (by decide)
    simp [this, h64]
  · rw [getD_set_ne _ _ _ _ _ (Ne.symm hj)]
    have : j ≠ k := by intro h; subst h; exact hj rfl
    simp [this]

theorem mbit_grow (ms : List (BitVec 64)) (n j : Nat) : mbit (ms ++ List.replicate n 0#64) j = mbit ms j := by
  unfold mbit; rw [getD_append_replicate]

theorem mbit_replicate (n j : Nat) : mbit (List.replicate n 0#64) j = false := by
  unfold mbit
  have : (List.replicate n 0#64).getD (j/64) 0#64 = 0#64 := by
    simp only [List.getD_eq_getElem?_getD, List.getElem?_replicate]; split <;> rfl
  rw [this]; simp

theorem mbit_lt (ms : List (BitVec 64)) (j : Nat) (h : mbit ms j = true) : j / 64 < ms.length := by
  apply Classical.byContradiction
  intro hn
  unfold mbit at h
  rw [getD_ge _ _ _ (by omega)] at h
  simp at h

theorem setAt_spec (t : Table α) (h : t.WF) (k : Nat) (hk : k / 64 < t.masks.length) (a : α) :
    let t' : Table α := { masks := t.masks.set (k/64) (t.masks.getD (k/64) 0#64 ||| (1#64 <<< (k%64))),
                          items := t.items.set k a }
    t'.WF ∧ abs t' = upd (abs t) k (some a) := by
  intro t'
  have wf' : t'.WF := by
    show (t.items.set k a).length = 64 * (t.masks.set _ _).length
    rw [List.length_set, List.length_set]; exact h
  refine ⟨wf', ?_⟩
  funext j
  rw [abs_eq t' wf']
  show (if mbit (t.masks.set _ _) j = true then some ((t.items.set k a).getD j default) else none) = _
  rw [mbit_set_or _ _ hk]
  unfold upd
  by_cases hj : j = k
  · subst hj
    have : j < t.items.length := by unfold Table.WF at h; omega
    rw [getD_set_eq _ _ _ _ this]; simp
  · rw [getD_set_ne _ _ _ _ _ (Ne.symm hj), abs_eq t h]
    simp [hj]

theorem clearAt_spec (t : Table α) (h : t.WF) (k : Nat) (hk : k / 64 < t.masks.length) :
    let t' : Table α := { masks := t.masks.set (k/64) (t.masks.getD (k/64) 0#64 &&& ~~~(1#64 <<< (k%64))),
                          items := t.items.set k default }
    t'.WF ∧ abs t' = upd (abs t) k none := by
  intro t'
  have wf' : t'.WF := by
    show (t.items.set k default).length = 64 * (t.masks.set _ _).length
    rw [List.length_set, List.length_set]; exact h
  refine ⟨wf', ?_⟩
  funext j
  rw [abs_eq t' wf']
  show (if mbit (t.masks.set _ _) j = true then some ((t.items.set k default).getD j default) else none) = _
  rw [mbit_set_andnot _ _ hk]
  unfold upd
  by_cases hj : j = k
  · subst hj
    simp
  · rw [getD_set_ne _ _ _ _ _ (Ne.symm hj), abs_eq t h]
    simp [hj]

theorem setSlot_spec (t : Table α) (h : t.WF) (index shift : Nat) (hi : index < t.masks.length)
    (hs : shift < 64) (a : α) :
    (t.setSlot index shift a).WF ∧ abs (t.setSlot index shift a) = upd (abs t) (index * 64 + shift) (some a) := by
  have e1 : (index * 64 + shift) / 64 = index := by omega
  have e2 : (index * 64 + shift) % 64 = shift := by omega
  have := setAt_spec t h (index * 64 + shift) (by rw [e1]; exact hi) a
  simp only [e1, e2] at this
  exact this

theorem grow_spec (t : Table α) (h : t.WF) (n : Nat) :
    (t.grow n).WF ∧ abs (t.grow n) = abs t ∧ (t.grow n).masks.length = t.masks.length + n := by
  have wf' : (t.grow n).WF := by
    unfold Table.WF Table.grow at *
    simp only [List.length_append, List.length_replicate]; omega
  refine ⟨wf', ?_, by simp [Table.grow]⟩
  funext j
  rw [abs_eq _ wf', abs_eq t h]
  simp only [Table.grow, mbit_grow, getD_append_replicate]

theorem findFree_some : ∀ (ms : List (BitVec 64)) (idx i s : Nat), findFree ms idx = some (i, s) →
    idx ≤ i ∧ i - idx < ms.length ∧ (~~~(ms.getD (i - idx) 0#64) != 0#64) = true ∧
    s = trailingZeros64 (~~~(ms.getD (i - idx) 0#64)) ∧
    ∀ k, k < i - idx → (~~~(ms.getD k 0#64) != 0#64) = false := by
  intro ms
  induction ms with
  | nil => intro idx i s h; simp [findFree] at h
  | cons m ms ih =>
    intro idx i s h
    unfold findFree at h
    by_cases hm : (~~~m != 0#64) = true
    · rw [if_pos hm] at h
      simp only [Option.some.injEq, Prod.mk.injEq] at h
      obtain ⟨h1, h2⟩ := h
      subst h1
      simp only [Nat.sub_self, List.getD_cons_zero]
      refine ⟨Nat.le_refl _, by simp, hm, h2.symm, ?_⟩
      intro k hk; omega
    · rw [if_neg hm] at h
      obtain ⟨h1, h2, h3, h4, h5⟩ := ih (idx + 1) i s h
      have e : i - idx = (i - (idx + 1)) + 1 := by omega
      rw [e]
      simp only [List.getD_cons_succ]
      refine ⟨by omega, by simp; omega, h3, h4, ?_⟩
      intro k hk
      cases k with
      | zero => simpa using hm
      | succ k => simp only [List.getD_cons_succ]; exact h5 k (by omega)

theorem findFree_none : ∀ (ms : List (BitVec 64)) (idx : Nat), findFree ms idx = none →
    ∀ k, k < ms.length → (~~~(ms.getD k 0#64) != 0#64) = false := by
  intro ms
  induction ms with
  | nil => intro idx _ k hk; simp at hk
  | cons m ms ih =>
    intro idx h k hk
    unfold findFree at h
    by_cases hm : (~~~m != 0#64) = true
    · rw [if_pos hm] at h; cases h
    · rw [if_neg hm] at h
      cases k with
      | zero => simpa using hm
      | succ k => simp only [List.getD_cons_succ]; exact ih (idx + 1) h k (by simpa using hk)

theorem tz_allones : trailingZeros64 (~~~(0#64)) = 0 := by decide

/-- `Insert` returns the LOWEST FREE key, and changes only that key. -/
theorem insert_spec (t : Table α) (a : α) (h : t.WF) :
    (t.insert a).1.WF ∧
    abs t (t.insert a).2 = none ∧
    (∀ j, j < (t.insert a).2 → (abs t j).isSome = true) ∧
    abs (t.insert a).1 = upd (abs t) (t.insert a).2 (some a) := by
  unfold Table.insert
  cases hf : findFree t.masks 0 with
  | some p =>
    obtain ⟨index, shift⟩ := p
    obtain ⟨_, h2, h3, h4, h5⟩ := findFree_some _ _ _ _ hf
    simp only [Nat.sub_zero] at h2 h3 h4 h5
    obtain ⟨z1, z2, z3⟩ := tz_not_spec _ h3
    rw [← h4] at z1 z2 z3
    obtain ⟨s1, s2⟩ := setSlot_spec t h index shift h2 z1 a
    have e1 : (index * 64 + shift) / 64 = index := by omega
    have e2 : (index * 64 + shift) % 64 = shift := by omega
    refine ⟨s1, ?_, ?_, s2⟩
    · show abs t (index * 64 + shift) = none
      rw [abs_eq t h]
      unfold mbit; rw [e1, e2, z2]; simp
    · intro j hj
      have hj : j < index * 64 + shift := hj
      rw [abs_eq t h]
      have : mbit t.masks j = true := by
        unfold mbit
        by_cases hlt : j / 64 < index
        · exact full_word _ (h5 _ hlt) _ (Nat.mod_lt _ (by decide))
        · have e : j / 64 = index := by omega
          rw [e]; exact z3 _ (by omega)
      simp [this]
  | none =>
    have hfull := findFree_none _ _ hf
    obtain ⟨g1, g2, g3⟩ := grow_spec t h 1
    simp only [tz_allones, Nat.add_zero]
    obtain ⟨s1, s2⟩ := setSlot_spec (t.grow 1) g1 t.masks.length 0 (by omega) (by decide) a
    rw [g2] at s2
    refine ⟨s1, ?_, ?_, s2⟩
    · show abs t (t.masks.length * 64) = none
      rw [abs_eq t h]
      have : mbit t.masks (t.masks.length * 64) = false := by
        cases hb : mbit t.masks (t.masks.length * 64)
        · rfl
        · have := mbit_lt _ _ hb; omega
      simp [this]
    · intro j hj
      have hj : j < t.masks.length * 64 := hj
      rw [abs_eq t h]
      have : mbit t.masks j = true := by
        unfold mbit
        exact full_word _ (hfull _ (by omega)) _ (Nat.mod_lt _ (by decide))
      simp [this]

theorem insertAt_spec (t : Table α) (a : α) (key : Int) (h : t.WF) (hk : 0 ≤ key) :
    (t.insertAt a key).2 = true ∧ (t.insertAt a key).1.WF ∧
    abs (t.insertAt a key).1 = upd (abs t) key.toNat (some a) := by
  unfold Table.insertAt
  rw [if_neg (by omega)]
  refine ⟨rfl, ?_⟩
  by_cases hg : key.toNat / 64 + 1 > t.masks.length
  · simp only [if_pos hg]
    obtain ⟨g1, g2, g3⟩ := grow_spec t h (key.toNat / 64 + 1 - t.masks.length)
    have := setAt_spec (t.grow (key.toNat / 64 + 1 - t.masks.length)) g1 key.toNat (by omega) a
    rw [g2] at this
    exact this
  · simp only [if_neg hg]
    exact setAt_spec t h key.toNat (by omega) a

theorem insertAt_neg (t : Table α) (a : α) (key : Int) (hk : key < 0) : t.insertAt a key = (t, false) := by
  unfold Table.insertAt; rw [if_pos hk]

omit [Inhabited α] in
theorem upd_none_self (m : Nat → Option α) (k : Nat) (h : m k = none) : upd m k none = m := by
  funext j; unfold upd; by_cases hj : j = k
  · subst hj; simp [h]
  · simp [hj]

theorem delete_spec (t : Table α) (key : Int) (h : t.WF) :
    (t.delete key).WF ∧
    abs (t.delete key) = if key < 0 then abs t else upd (abs t) key.toNat none := by
  unfold Table.delete
  by_cases hk : key < 0
  · simp only [if_pos hk]; exact ⟨h, trivial⟩
  · simp only [if_neg hk]
    by_cases hi : key.toNat / 64 < t.masks.length
    · simp only [if_pos hi]
      rw [testBit_eq _ _ (Nat.mod_lt _ (by decide))]
      cases hb : (t.masks.getD (key.toNat / 64) 0#64).getLsbD (key.toNat % 64)
      · refine ⟨h, ?_⟩
        rw [upd_none_self]
        · rfl
        · rw [abs_eq t h]; unfold mbit; rw [hb]; simp
      · simp only [if_true]
        exact clearAt_spec t h key.toNat hi
    · simp only [if_neg hi]
      refine ⟨h, ?_⟩
      rw [upd_none_self]
      rw [abs_eq t h]
      cases hb : mbit t.masks key.toNat
      · simp
      · exact absurd (mbit_lt _ _ hb) hi

theorem reset_spec (t : Table α) (h : t.WF) : t.reset.WF ∧ abs t.reset = fun _ => none := by
  have wf' : t.reset.WF := by
    unfold Table.WF Table.reset at *
    simp only [List.length_replicate]; exact h
  refine ⟨wf', ?_⟩
  funext j
  rw [abs_eq _ wf']
  simp [Table.reset, mbit_replicate]

/-! ### Refinement for all histories -/

/-- One step of the specification: a finite map with lowest-free allocation. -/
inductive AStep : (Nat → Option α) → Op α → Out α → (Nat → Option α) → Prop
  | insert (m : Nat → Option α) (a : α) (k : Nat) :
      m k = none → (∀ j, j < k → (m j).isSome = true) → AStep m (.insert a) (.key k) (upd m k (some a))
  | insertAt (m : Nat → Option α) (a : α) (key : Int) :
      0 ≤ key → AStep m (.insertAt a key) (.ok true) (upd m key.toNat (some a))
  | insertAtNeg (m : Nat → Option α) (a : α) (key : Int) :
      key < 0 → AStep m (.insertAt a key) (.ok false) m
  | lookup (m : Nat → Option α) (key : Int) :
      AStep m (.lookup key) (.item (if key < 0 then none else m key.toNat)) m
  | delete (m : Nat → Option α) (key : Int) :
      AStep m (.delete key) .unit (if key < 0 then m else upd m key.toNat none)
  | reset (m : Nat → Option α) : AStep m .reset .unit (fun _ => none)

inductive ARun : (Nat → Option α) → List (Op α) → List (Out α) → (Nat → Option α) → Prop
  | nil (m : Nat → Option α) : ARun m [] [] m
  | cons {m m' m'' : Nat → Option α} {op : Op α} {o : Out α} {ops : List (Op α)} {os : List (Out α)} :
      AStep m op o m' → ARun m' ops os m'' → ARun m (op :: ops) (o :: os) m''

/-- The specification is deterministic: outputs and final map are functions of the history
(the lowest free key is unique). -/
theorem AStep_deterministic {m m1 m2 : Nat → Option α} {op : Op α} {o1 o2 : Out α}
    (h1 : AStep m op o1 m1) (h2 : AStep m op o2 m2) : o1 = o2 ∧ m1 = m2 := by
  cases h1 with
  | insert a k hk hlow =>
    cases h2 with
    | insert _ k' hk' hlow' =>
      have : k = k' := by
        apply Classical.byContradiction
        intro hne
        rcases Nat.lt_or_gt_of_ne hne with hlt | hgt
        · have := hlow' k hlt; rw [hk] at this; cases this
        · have := hlow k' hgt; rw [hk'] at this; cases this
      subst this; exact ⟨rfl, rfl⟩
  | insertAt a key hk =>
    cases h2 with
    | insertAt _ _ _ => exact ⟨rfl, rfl⟩
    | insertAtNeg _ _ hk' => omega
  | insertAtNeg a key hk =>
    cases h2 with
    | insertAt _ _ hk' => omega
    | insertAtNeg _ _ _ => exact ⟨rfl, rfl⟩
  | lookup key => cases h2; exact ⟨rfl, rfl⟩
  | delete key => cases h2; exact ⟨rfl, rfl⟩
  | reset => cases h2; exact ⟨rfl, rfl⟩

theorem step_refines (t : Table α) (op : Op α) (h : t.WF) :
    (t.step op).1.WF ∧ AStep (abs t) op (t.step op).2 (abs (t.step op).1) := by
  cases op with
  | insert a =>
    obtain ⟨h1, h2, h3, h4⟩ := insert_spec t a h
    refine ⟨h1, ?_⟩
    show AStep (abs t) (.insert a) (.key (t.insert a).2) (abs (t.insert a).1)
    rw [h4]; exact AStep.insert _ _ _ h2 h3
  | insertAt a key =>
    show (t.insertAt a key).1.WF ∧ AStep (abs t) (.insertAt a key) (.ok (t.insertAt a key).2) (abs (t.insertAt a key).1)
    by_cases hk : key < 0
    · rw [insertAt_neg t a key hk]
      exact ⟨h, AStep.insertAtNeg _ _ _ hk⟩
    · obtain ⟨h1, h2, h3⟩ := insertAt_spec t a key h (by omega)
      rw [h1, h3]
      exact ⟨h2, AStep.insertAt _ _ _ (by omega)⟩
  | lookup key =>
    refine ⟨h, ?_⟩
    show AStep (abs t) (.lookup key) (.item (t.lookup key)) (abs t)
    have : t.lookup key = if key < 0 then none else abs t key.toNat := by
      by_cases hk : key < 0
      · rw [if_pos hk, lookup_neg t key hk]
      · rw [if_neg hk]; unfold abs; rw [Int.toNat_of_nonneg (by omega)]
    rw [this]; exact AStep.lookup _ _
  | delete key =>
    obtain ⟨h1, h2⟩ := delete_spec t key h
    refine ⟨h1, ?_⟩
    show AStep (abs t) (.delete key) .unit (abs (t.delete key))
    rw [h2]; exact AStep.delete _ _
  | reset =>
    obtain ⟨h1, h2⟩ := reset_spec t h
    refine ⟨h1, ?_⟩
    show AStep (abs t) .reset .unit (abs t.reset)
    rw [h2]; exact AStep.reset _

theorem run_refines (t : Table α) (ops : List (Op α)) (h : t.WF) :
    (t.run ops).1.WF ∧ ARun (abs t) ops (t.run ops).2 (abs (t.run ops).1) := by
  induction ops generalizing t with
  | nil => exact ⟨h, ARun.nil _⟩
  | cons op ops ih =>
    obtain ⟨s1, s2⟩ := step_refines t op h
    obtain ⟨r1, r2⟩ := ih (t.step op).1 s1
    exact ⟨r1, ARun.cons s2 r2⟩

/-! ### FSContext level -/

theorem lookup_nat (t : Table α) (fd : Int) (h : 0 ≤ fd) : t.lookup fd = abs t fd.toNat := by
  unfold abs; rw [Int.toNat_of_nonneg h]

theorem lookup_insertAt (t : Table α) (h : t.WF) (a : α) (key : Int) (hk : 0 ≤ key) (fd : Int) :
    (t.insertAt a key).1.lookup fd = if fd = key then some a else t.lookup fd := by
  by_cases hfd : fd < 0
  · rw [lookup_neg _ _ hfd, lookup_neg _ _ hfd, if_neg (by omega)]
  · rw [lookup_nat _ _ (by omega), lookup_nat _ _ (by omega), (insertAt_spec t a key h hk).2.2]
    unfold upd
    have : fd.toNat = key.toNat ↔ fd = key := by omega
    simp only [this]

theorem lookup_delete (t : Table α) (h : t.WF) (key : Int) (fd : Int) :
    (t.delete key).lookup fd = if fd = key then none else t.lookup fd := by
  by_cases hfd : fd < 0
  · rw [lookup_neg _ _ hfd, lookup_neg _ _ hfd]; simp
  · rw [lookup_nat _ _ (by omega), lookup_nat _ _ (by omega), (delete_spec t key h).2]
    by_cases hk : key < 0
    · rw [if_pos hk, if_neg (by omega)]
    · rw [if_neg hk]
      unfold upd
      have : fd.toNat = key.toNat ↔ fd = key := by omega
      simp only [this]

theorem lookup_insert (t : Table α) (h : t.WF) (a : α) (fd : Int) :
    (t.insert a).1.lookup fd = if fd = ((t.insert a).2 : Int) then some a else t.lookup fd := by
  by_cases hfd : fd < 0
  · rw [lookup_neg _ _ hfd, lookup_neg _ _ hfd, if_neg (by omega)]
  · rw [lookup_nat _ _ (by omega), lookup_nat _ _ (by omega), (insert_spec t a h).2.2.2]
    unfold upd
    have : fd.toNat = (t.insert a).2 ↔ fd = ((t.insert a).2 : Int) := by omega
    simp only [this]

/-- `Ctx` invariant -/
def CtxWF (c : Ctx) : Prop := c.table.WF

theorem ctx_empty_wf : CtxWF { table := Table.empty, closed := [], next := 0 } := empty_wf

theorem init_wf : CtxWF Ctx.init := by
  have ow : ∀ (c : Ctx) (p : Bool), CtxWF c → CtxWF (c.openNew p).1 :=
    fun c p h => (insert_spec c.table _ h).1
  exact ow _ _ (ow _ _ (ow _ _ (ow _ _ ctx_empty_wf)))

theorem openNew_wf (c : Ctx) (p : Bool) (h : CtxWF c) : CtxWF (c.openNew p).1 :=
  (insert_spec c.table _ h).1

theorem close_wf (c : Ctx) (fd : Int) (h : CtxWF c) : CtxWF (c.close fd).1 := by
  unfold Ctx.close
  split
  · exact h
  · exact (delete_spec c.table fd h).1

def renTable (c : Ctx) (f : Entry) (a b : Int) : Table (Option Entry) :=
  ((c.table.delete a).insertAt (some f) b).1

def renClosed (c : Ctx) (b : Int) : List Nat :=
  match c.lookup b with
  | some e => e.id :: c.closed
  | none => c.closed

theorem renumber_cases (s : Bool) (c : Ctx) (a b : Int) :
    ((c.renumber s a b).1 = c ∧ ((c.renumber s a b).2 = .ok → s = true ∧ a = b)) ∨
    (∃ f, c.lookup a = some f ∧ 0 ≤ b ∧ (s = true → a ≠ b) ∧
      (c.renumber s a b).1 = { table := renTable c f a b, closed := renClosed c b, next := c.next }) := by
  unfold Ctx.renumber
  cases hl : c.lookup a with
  | none => left; simp
  | some f =>
    simp only []
    by_cases hb : b < 0
    · rw [if_pos hb]; left; simp
    · rw [if_neg hb]
      by_cases hp : f.preopen = true
      · rw [if_pos hp]; left; simp
      · rw [if_neg hp]
        by_cases hs : (s && a == b) = true
        · rw [if_pos hs]; left
          simp only [Bool.and_eq_true, beq_iff_eq] at hs
          exact ⟨rfl, fun _ => hs⟩
        · rw [if_neg hs]
          have hs' : s = true → a ≠ b := by
            intro h1 h2; apply hs; simp [h1, h2]
          cases hlb : c.lookup b with
          | none =>
            right
            refine ⟨f, rfl, by omega, hs', ?_⟩
            simp only [renTable, renClosed, hlb]
          | some tf =>
            simp only []
            by_cases htp : tf.preopen = true
            · rw [if_pos htp]; left; simp
            · rw [if_neg htp]
              right
              refine ⟨f, rfl, by omega, hs', ?_⟩
              simp only [renTable, renClosed, hlb]

theorem ren_wf (c : Ctx) (h : CtxWF c) (f : Entry) (a b : Int) (hb : 0 ≤ b) : (renTable c f a b).WF :=
  (insertAt_spec _ _ _ (delete_spec c.table a h).1 hb).2.1

theorem ren_lookup (c : Ctx) (h : CtxWF c) (f : Entry) (a b : Int) (hb : 0 ≤ b) (cl : List Nat) (n : Nat)
    (fd : Int) :
    Ctx.lookup { table := renTable c f a b, closed := cl, next := n } fd =
      if fd = b then some f else if fd = a then none else c.lookup fd := by
  unfold Ctx.lookup renTable
  simp only []
  rw [lookup_insertAt _ (delete_spec c.table a h).1 _ _ hb, lookup_delete _ h]
  by_cases h1 : fd = b
  · simp [h1]
  · by_cases h2 : fd = a
    · subst h2; simp [h1]
    · simp [h1, h2]

theorem renumber_wf (s : Bool) (c : Ctx) (a b : Int) (h : CtxWF c) : CtxWF (c.renumber s a b).1 := by
  rcases renumber_cases s c a b with ⟨e, _⟩ | ⟨f, _, hb, _, e⟩
  · rw [e]; exact h
  · rw [e]; exact ren_wf c h f a b hb

theorem openNew_lookup (c : Ctx) (p : Bool) (h : CtxWF c) (fd : Int) :
    (c.openNew p).1.lookup fd =
      if fd = ((c.openNew p).2 : Int) then some { id := c.next, preopen := p } else c.lookup fd := by
  show ((c.table.insert (some { id := c.next, preopen := p })).1.lookup fd).join = _
  rw [lookup_insert _ h]
  show _ = if fd = ((c.table.insert (some { id := c.next, preopen := p })).2 : Int) then _ else _
  split
  · rfl
  · rfl

/-- open returns the lowest descriptor not in the table and leaves all others as they were -/
theorem openNew_spec (c : Ctx) (p : Bool) (h : CtxWF c) :
    c.table.lookup ((c.openNew p).2 : Int) = none ∧
    (∀ j : Nat, j < (c.openNew p).2 → (c.table.lookup (j : Int)).isSome = true) ∧
    (c.openNew p).1.lookup ((c.openNew p).2 : Int) = some { id := c.next, preopen := p } ∧
    (∀ fd : Int, fd ≠ ((c.openNew p).2 : Int) → (c.openNew p).1.lookup fd = c.lookup fd) ∧
    (c.openNew p).1.closed = c.closed := by
  obtain ⟨_, h2, h3, _⟩ := insert_spec c.table (some { id := c.next, preopen := p }) h
  refine ⟨h2, h3, ?_, ?_, rfl⟩
  · rw [openNew_lookup c p h, if_pos rfl]
  · intro fd hfd
    rw [openNew_lookup c p h, if_neg hfd]

/-- live entries have pairwise distinct identities below `next` (needed for `live` preservation) -/
def Distinct (c : Ctx) : Prop :=
  (∀ fd e, c.lookup fd = some e → e.id < c.next) ∧
  (∀ fd1 fd2 e1 e2, c.lookup fd1 = some e1 → c.lookup fd2 = some e2 → e1.id = e2.id → fd1 = fd2)

theorem live_iff (c : Ctx) (fd : Int) : c.live fd = true ↔ ∃ e, c.lookup fd = some e ∧ e.id ∉ c.closed := by
  unfold Ctx.live
  cases c.lookup fd with
  | none => simp
  | some e => simp

/-- close(fd') and renumber not naming fd leave fd alone -/
theorem close_other (c : Ctx) (fd fd' : Int) (h : CtxWF c) (hd : Distinct c) (hne : fd ≠ fd') :
    (c.close fd').1.lookup fd = c.lookup fd ∧
    (c.live fd = true → (c.close fd').1.live fd = true) := by
  unfold Ctx.close
  cases hl : c.lookup fd' with
  | none => exact ⟨rfl, id⟩
  | some e =>
    have hlk : Ctx.lookup { c with closed := e.id :: c.closed, table := c.table.delete fd' } fd = c.lookup fd := by
      show ((c.table.delete fd').lookup fd).join = _
      rw [lookup_delete _ h, if_neg hne]; rfl
    refine ⟨hlk, ?_⟩
    intro hlive
    rw [live_iff] at hlive ⊢
    obtain ⟨e', he', hnc⟩ := hlive
    refine ⟨e', by rw [← he']; exact hlk, ?_⟩
    show e'.id ∉ e.id :: c.closed
    intro hmem
    rcases List.mem_cons.mp hmem with heq | hmem
    · exact hne (hd.2 fd fd' e' e he' hl heq)
    · exact hnc hmem

theorem renClosed_mem (c : Ctx) (b : Int) (x : Nat) (hx : x ∈ renClosed c b) :
    x ∈ c.closed ∨ ∃ e, c.lookup b = some e ∧ x = e.id := by
  unfold renClosed at hx
  cases hl : c.lookup b with
  | none => rw [hl] at hx; exact Or.inl hx
  | some e =>
    rw [hl] at hx
    rcases List.mem_cons.mp hx with heq | hmem
    · exact Or.inr ⟨e, rfl, heq⟩
    · exact Or.inl hmem

theorem renumber_other (s : Bool) (c : Ctx) (fd a b : Int) (h : CtxWF c) (hd : Distinct c)
    (h1 : fd ≠ a) (h2 : fd ≠ b) :
    (c.renumber s a b).1.lookup fd = c.lookup fd ∧
    (c.live fd = true → (c.renumber s a b).1.live fd = true) := by
  rcases renumber_cases s c a b with ⟨e, _⟩ | ⟨f, hf, hb, _, e⟩
  · rw [e]; exact ⟨rfl, id⟩
  · rw [e]
    have hlk := ren_lookup c h f a b hb (renClosed c b) c.next fd
    rw [if_neg h2, if_neg h1] at hlk
    refine ⟨hlk, ?_⟩
    intro hlive
    rw [live_iff] at hlive ⊢
    obtain ⟨e', he', hnc⟩ := hlive
    refine ⟨e', by rw [hlk]; exact he', ?_⟩
    intro hmem
    rcases renClosed_mem c b _ hmem with hm | ⟨tf, htf, hid⟩
    · exact hnc hm
    · exact h2 (hd.2 fd b e' tf he' htf hid)

theorem ren_spec (c : Ctx) (a b : Int) (h : CtxWF c) (hd : Distinct c) (f : Entry)
    (hf : c.lookup a = some f) (hb : 0 ≤ b) (hne : a ≠ b) (c' : Ctx)
    (e : c' = { table := renTable c f a b, closed := renClosed c b, next := c.next }) :
    c'.lookup b = c.lookup a ∧ c'.lookup a = none ∧
    (∀ e, c.lookup b = some e → e.id ∈ c'.closed) ∧
    (c.live a = true → c'.live b = true) := by
  subst e
  have hlb := ren_lookup c h f a b hb (renClosed c b) c.next b
  rw [if_pos rfl] at hlb
  have hla := ren_lookup c h f a b hb (renClosed c b) c.next a
  rw [if_neg hne, if_pos rfl] at hla
  refine ⟨by rw [hlb, hf], hla, ?_, ?_⟩
  · intro tf htf
    show tf.id ∈ renClosed c b
    unfold renClosed; rw [htf]; exact List.mem_cons_self
  · intro hlive
    rw [live_iff] at hlive ⊢
    obtain ⟨e', he', hnc⟩ := hlive
    rw [hf] at he'
    cases he'
    refine ⟨f, hlb, ?_⟩
    intro hmem
    rcases renClosed_mem c b _ hmem with hm | ⟨tf, htf, hid⟩
    · exact hnc hm
    · exact hne (hd.2 a b f tf hf htf hid)

/-- the full specification of renumber (repaired variant) -/
theorem renumber_spec_fixed (c : Ctx) (a b : Int) (h : CtxWF c) (hd : Distinct c)
    (hok : (c.renumber true a b).2 = .ok) :
    (a = b → (c.renumber true a b).1 = c) ∧
    (a ≠ b →
      (c.renumber true a b).1.lookup b = c.lookup a ∧
      (c.renumber true a b).1.lookup a = none ∧
      (∀ e, c.lookup b = some e → e.id ∈ (c.renumber true a b).1.closed) ∧
      (c.live a = true → (c.renumber true a b).1.live b = true)) := by
  rcases renumber_cases true c a b with ⟨e, hab⟩ | ⟨f, hf, hb, hs, e⟩
  · exact ⟨fun _ => e, fun hne => absurd (hab hok).2 hne⟩
  · exact ⟨fun hab => absurd hab (hs rfl), fun hne => ren_spec c a b h hd f hf hb hne _ e⟩

/-- on the pinned tree the `a ≠ b` half holds as well -/
theorem renumber_spec_asis_partial (c : Ctx) (a b : Int) (h : CtxWF c) (hd : Distinct c)
    (hok : (c.renumber false a b).2 = .ok) (hne : a ≠ b) :
    (c.renumber false a b).1.lookup b = c.lookup a ∧
    (c.renumber false a b).1.lookup a = none ∧
    (∀ e, c.lookup b = some e → e.id ∈ (c.renumber false a b).1.closed) ∧
    (c.live a = true → (c.renumber false a b).1.live b = true) := by
  rcases renumber_cases false c a b with ⟨_, hab⟩ | ⟨f, hf, hb, _, e⟩
  · exact absurd (hab hok).2 hne
  · exact ren_spec c a b h hd f hf hb hne _ e

/-- F17: on the pinned tree, renumbering a live descriptor onto itself succeeds and leaves it in the
table with its file closed. -/
theorem renumber_self_witness :
    let c := (Ctx.init.openNew false).1
    c.live 4 = true ∧ (c.renumber false 4 4).2 = .ok ∧
    ((c.renumber false 4 4).1.lookup 4).isSome = true ∧ (c.renumber false 4 4).1.live 4 = false := by
  decide

theorem distinct_openNew_aux (c : Ctx) (p : Bool) (h : CtxWF c) (hd : Distinct c) : Distinct (c.openNew p).1 := by
  have hnext : (c.openNew p).1.next = c.next + 1 := rfl
  have key : ∀ fd e, (c.openNew p).1.lookup fd = some e →
      (fd = ((c.openNew p).2 : Int) ∧ e.id = c.next) ∨ (fd ≠ ((c.openNew p).2 : Int) ∧ c.lookup fd = some e) := by
    intro fd e he
    rw [openNew_lookup c p h] at he
    by_cases hfd : fd = ((c.openNew p).2 : Int)
    · rw [if_pos hfd] at he; cases he; exact Or.inl ⟨hfd, rfl⟩
    · rw [if_neg hfd] at he; exact Or.inr ⟨hfd, he⟩
  constructor
  · intro fd e he
    rw [hnext]
    rcases key fd e he with ⟨_, hid⟩ | ⟨_, hold⟩
    · omega
    · have := hd.1 fd e hold; omega
  · intro fd1 fd2 e1 e2 he1 he2 hid
    rcases key fd1 e1 he1 with ⟨hf1, hid1⟩ | ⟨hf1, hold1⟩ <;>
      rcases key fd2 e2 he2 with ⟨hf2, hid2⟩ | ⟨hf2, hold2⟩
    · rw [hf1, hf2]
    · have := hd.1 fd2 e2 hold2; omega
    · have := hd.1 fd1 e1 hold1; omega
    · exact hd.2 fd1 fd2 e1 e2 hold1 hold2 hid

theorem distinct_empty : Distinct { table := Table.empty, closed := [], next := 0 } := by
  have : ∀ fd, Ctx.lookup { table := Table.empty, closed := [], next := 0 } fd = none := by
    intro fd
    simp [Ctx.lookup, Table.lookup, Table.empty]
  constructor
  · intro fd e he; rw [this] at he; cases he
  · intro fd1 fd2 e1 e2 he; rw [this] at he; cases he

theorem distinct_init : Distinct Ctx.init := by
  have w0 := ctx_empty_wf
  have d0 := distinct_empty
  have w1 := openNew_wf _ true w0
  have d1 := distinct_openNew_aux _ true w0 d0
  have w2 := openNew_wf _ true w1
  have d2 := distinct_openNew_aux _ true w1 d1
  have w3 := openNew_wf _ true w2
  have d3 := distinct_openNew_aux _ true w2 d2
  exact distinct_openNew_aux _ true w3 d3

theorem distinct_openNew (c : Ctx) (p : Bool) (h : CtxWF c) (hd : Distinct c) : Distinct (c.openNew p).1 :=
  distinct_openNew_aux c p h hd

theorem distinct_close (c : Ctx) (fd : Int) (h : CtxWF c) (hd : Distinct c) : Distinct (c.close fd).1 := by
  unfold Ctx.close
  cases hl : c.lookup fd with
  | none => exact hd
  | some e =>
    have key : ∀ fd1 e1, Ctx.lookup { c with closed := e.id :: c.closed, table := c.table.delete fd } fd1 = some e1 →
        c.lookup fd1 = some e1 := by
      intro fd1 e1 he1
      have : Ctx.lookup { c with closed := e.id :: c.closed, table := c.table.delete fd } fd1 =
          ((c.table.delete fd).lookup fd1).join := rfl
      rw [this, lookup_delete _ h] at he1
      by_cases hfd : fd1 = fd
      · rw [if_pos hfd] at he1; cases he1
      · rw [if_neg hfd] at he1; exact he1
    constructor
    · intro fd1 e1 he1; exact hd.1 fd1 e1 (key fd1 e1 he1)
    · intro fd1 fd2 e1 e2 he1 he2 hid
      exact hd.2 fd1 fd2 e1 e2 (key _ _ he1) (key _ _ he2) hid

theorem distinct_renumber (s : Bool) (c : Ctx) (a b : Int) (h : CtxWF c) (hd : Distinct c) :
    Distinct (c.renumber s a b).1 := by
  rcases renumber_cases s c a b with ⟨e, _⟩ | ⟨f, hf, hb, _, e⟩
  · rw [e]; exact hd
  · rw [e]
    have key : ∀ fd e1, Ctx.lookup { table := renTable c f a b, closed := renClosed c b, next := c.next } fd = some e1 →
        (fd = b ∧ c.lookup a = some e1) ∨ (fd ≠ b ∧ fd ≠ a ∧ c.lookup fd = some e1) := by
      intro fd e1 he1
      rw [ren_lookup c h f a b hb] at he1
      by_cases h1 : fd = b
      · rw [if_pos h1] at he1; left; exact ⟨h1, by rw [hf]; exact he1⟩
      · rw [if_neg h1] at he1
        by_cases h2 : fd = a
        · rw [if_pos h2] at he1; cases he1
        · rw [if_neg h2] at he1; right; exact ⟨h1, h2, he1⟩
    constructor
    · intro fd e1 he1
      show e1.id < c.next
      rcases key fd e1 he1 with ⟨_, hold⟩ | ⟨_, _, hold⟩
      · exact hd.1 _ _ hold
      · exact hd.1 _ _ hold
    · intro fd1 fd2 e1 e2 he1 he2 hid
      rcases key fd1 e1 he1 with ⟨hf1, hold1⟩ | ⟨hf1, hfa1, hold1⟩ <;>
        rcases key fd2 e2 he2 with ⟨hf2, hold2⟩ | ⟨hf2, hfa2, hold2⟩
      · rw [hf1, hf2]
      · exact absurd (hd.2 a fd2 e1 e2 hold1 hold2 hid).symm hfa2
      · exact absurd (hd.2 fd1 a e1 e2 hold1 hold2 hid) hfa1
      · exact hd.2 fd1 fd2 e1 e2 hold1 hold2 hid

end Wz.Proofs.C16Table
