/-
C01 (front end): the translation of straight-line integer code to SSA preserves the semantics.
`sim_body`: a run of the reference semantics (`Wz.Spec.Wasm.execSeq`) on a well-typed body and the run of the
SSA semantics (`SsaPass.execBody`) on the instructions the front end emits for it end in the same result
(the same returned values, or the same trap), by induction on the body with the one-instruction lemmas of
`C01_Front_Sim`.  `lower_refines`: the same for whole functions (`invoke` / `run`), through the entry of the
function: binding of the block parameters, zero constants of the locals.
-/
import Wz.Proofs.C01_Front_Sim

namespace Wz.Proofs.Front
open Wz.Spec Wz.Model.SsaPass Wz.Model.FrontendSL

variable {w : World} {m : Wasm.Module} {lt : List Ty}

theorem sim_step (i : SI) (hi : i ≠ .ret) {s : LS} {tys tys' : List Ty} {stack : List Nat}
    {locals : Array Nat} {env : Val → Nat} (st : Wasm.Store) (n : Nat)
    (hinv : Inv lt s tys stack locals env) (htc : tcStep lt i tys = some tys') :
    StepOK w m lt i s tys' stack locals env st n := by
  cases i with
  | const t v => exact step_const t v hinv htc
  | localGet i => exact step_localGet i hinv htc
  | localSet i => exact step_localSet i hinv htc
  | localTee i => exact step_localTee i hinv htc
  | drop => exact step_drop hinv htc
  | select => exact step_select hinv htc
  | bin t op => exact step_bin t op hinv htc
  | rel t op => exact step_rel t op hinv htc
  | eqz t => exact step_eqz t hinv htc
  | cnt t op => exact step_cnt t op hinv htc
  | wrap => exact step_wrap hinv htc
  | extendS => exact step_extendS hinv htc
  | extendU => exact step_extendU hinv htc
  | extend32S => exact step_extend32S hinv htc
  | div t op => exact step_div t op hinv htc
  | ret => exact absurd rfl hi

/-- the two runs of a body agree: same returned values, or the same trap -/
def BodyRel (nres : Nat) (r : Wasm.Ctl × Wasm.Frame × Wasm.Store) (o : Option Ctl) : Prop :=
  match r.1 with
  | .next | .ret => ∃ env', o = some (.ret ((r.2.1.stack.take nres).reverse) (mk env'))
  | .trap k => ∃ code env', o = some (.trap code (mk env')) ∧ trapKind code = k ∧
      (code = codeDivByZero ∨ code = codeOverflow)
  | _ => False

theorem peekN_env {s : LS} {tys stack locals env} (hinv : Inv lt s tys stack locals env) (nres : Nat) :
    (s.peekN nres).map env = (stack.take nres).reverse := by
  simp only [LS.peekN, List.map_reverse, List.map_map, ← hinv.stk, ← List.map_take]
  rfl

theorem execBody_ret (w : World) (vs : List Val) (env : Val → Nat) :
    execBody w [] [.ret vs] (mk env) = some (.ret (vs.map env) (mk env)) := by
  have : (fun v => (mk env).env (res [] v)) = env := rfl
  simp only [execBody, this, execInstr]

theorem sim_body (res : List Ty) (nres : Nat) : ∀ (body : List SI) (s : LS) (tys : List Ty) (stack : List Nat)
    (locals : Array Nat) (env : Val → Nat) (st : Wasm.Store) (n : Nat),
    Inv lt s tys stack locals env → tcBody lt res body tys = true → body.length + 1 ≤ n →
    BodyRel nres (Wasm.execSeq m n (body.map SI.toInstr) ⟨stack, locals⟩ st)
      (execBody w [] (lowerBody nres body s) (mk env)) := by
  intro body
  induction body with
  | nil =>
    intro s tys stack locals env st n hinv _ hn
    obtain ⟨n, rfl⟩ : ∃ k, n = k + 1 := ⟨n - 1, by omega⟩
    simp only [List.map_nil, Wasm.execSeq, lowerBody, BodyRel, execBody_ret, peekN_env hinv]
    exact ⟨env, rfl⟩
  | cons i is ih =>
    intro s tys stack locals env st n hinv htc hn
    simp only [List.length_cons] at hn
    obtain ⟨n, rfl⟩ : ∃ k, n = k + 2 := ⟨n - 2, by omega⟩
    by_cases hi : i = .ret
    · subst hi
      simp only [List.map_cons, SI.toInstr, Wasm.execSeq, Wasm.execInstr, lowerBody, BodyRel, execBody_ret,
        peekN_env hinv]
      exact ⟨env, rfl⟩
    · have hlb : lowerBody nres (i :: is) s = (lowerI i s).1 ++ lowerBody nres is (lowerI i s).2 := by
        cases i <;> first | rfl | exact absurd rfl hi
      have htc' : ∃ tys', tcStep lt i tys = some tys' ∧ tcBody lt res is tys' = true := by
        cases i <;> first
          | exact absurd rfl hi
          | (simp only [tcBody] at htc
             split at htc
             · rename_i tys' h; exact ⟨tys', h, htc⟩
             · cases htc)
      obtain ⟨tys', hstep, hrest⟩ := htc'
      rw [hlb]
      simp only [List.map_cons, Wasm.execSeq]
      rcases sim_step (w := w) (m := m) i hi st n hinv hstep with
        ⟨stack', locals', env', hsp, hss, hinv'⟩ | ⟨code, fr', hsp, hss, hcode⟩
      · rw [hsp, hss]
        exact ih _ _ _ _ _ st (n + 1) hinv' hrest (by omega)
      · rw [hsp, hss]
        simp only [BodyRel]
        exact ⟨code, env, rfl, rfl, hcode⟩

/-! ### the entry of the function -/

/-- binding the Wasm parameters: the values `k + 2, k + 3, …` get the arguments, nothing else changes -/
theorem bind_params : ∀ (ps : List Ty) (k : Nat) (vs : List Nat) (e : Val → Nat),
    vs.length = ps.length → (∀ p ∈ vs.zip ps, p.1 < 2 ^ p.2.bits) →
    ((ps.zipIdx k).map (fun p => (p.2 + 2, p.1))).map
        (fun q => bindVals e ((ps.zipIdx k).map (fun p => (p.2 + 2, p.1))) vs q.1) = vs ∧
    (∀ v, (v < k + 2 ∨ k + 2 + ps.length ≤ v) →
      bindVals e ((ps.zipIdx k).map (fun p => (p.2 + 2, p.1))) vs v = e v) ∧
    (∀ q ∈ (ps.zipIdx k).map (fun p => (p.2 + 2, p.1)),
      bindVals e ((ps.zipIdx k).map (fun p => (p.2 + 2, p.1))) vs q.1 < 2 ^ q.2.bits ∧ q.1 < k + 2 + ps.length) ∧
    ((ps.zipIdx k).map (fun p => (p.2 + 2, p.1))).map (·.2) = ps := by
  intro ps
  induction ps with
  | nil =>
    intro k vs e hl _
    cases vs with
    | nil => exact ⟨rfl, fun _ _ => rfl, fun q hq => by simp at hq, rfl⟩
    | cons _ _ => simp at hl
  | cons t ts ih =>
    intro k vs e hl hr
    cases vs with
    | nil => simp at hl
    | cons v vs =>
      simp only [List.length_cons, Nat.add_right_cancel_iff] at hl
      have hv : v < 2 ^ t.bits := hr (v, t) (by simp)
      have hr' : ∀ p ∈ vs.zip ts, p.1 < 2 ^ p.2.bits := fun p hp => hr p (by simp [hp])
      have ih' := ih (k + 1) vs (upd e (k + 2) (norm t v)) hl hr'
      rw [norm_of_lt hv] at ih'
      obtain ⟨ih1, ih2, ih3, ih4⟩ := ih'
      simp only [List.zipIdx_cons, List.map_cons, bindVals, List.headD_cons, List.tail_cons]
      rw [norm_of_lt hv]
      have hk2 : bindVals (upd e (k + 2) v) (List.map (fun p => (p.2 + 2, p.1)) (ts.zipIdx (k + 1))) vs (k + 2) = v := by
        rw [ih2 (k + 2) (.inl (by omega))]; simp only [upd, if_true]
      refine ⟨?_, ?_, ?_, ?_⟩
      · rw [ih2 (k + 2) (.inl (by omega))]
        simp only [upd, if_true, List.cons.injEq, true_and]
        exact ih1
      · intro x hx
        simp only [List.length_cons] at hx
        rw [ih2 x (by omega)]
        simp only [upd]
        rw [if_neg (show ¬ x = k + 2 by omega)]
      · intro q hq
        rcases List.mem_cons.mp hq with rfl | hq
        · simp only [hk2, List.length_cons]; exact ⟨hv, Nat.lt_add_of_pos_right (Nat.succ_pos _)⟩
        · have := ih3 q hq
          simp only [List.length_cons]; exact ⟨this.1, Nat.lt_of_lt_of_le this.2 (by omega)⟩
      · simp only [ih4]

theorem declLocals_spec : ∀ (ls : List Ty) (n : Nat) (z : Zeros),
    n ≤ (declLocals ls n z).2.1 ∧
    (∀ t v, (declLocals ls n z).2.2.get t = some v → z.get t = some v ∨ (n ≤ v ∧ v < (declLocals ls n z).2.1)) ∧
    (∀ t v, z.get t = some v → (declLocals ls n z).2.2.get t = some v) ∧
    (∀ t ∈ ls, ∃ v, (declLocals ls n z).2.2.get t = some v) := by
  intro ls
  induction ls with
  | nil => intro n z; exact ⟨Nat.le_refl _, fun t v h => .inl h, fun t v h => h, fun t h => by cases h⟩
  | cons t ts ih =>
    intro n z
    simp only [declLocals]
    cases hz : z.get t with
    | some v0 =>
      simp only
      obtain ⟨h1, h2, h3, h4⟩ := ih n z
      refine ⟨h1, h2, h3, ?_⟩
      intro t' ht'
      rcases List.mem_cons.mp ht' with rfl | ht'
      · exact ⟨v0, h3 _ _ hz⟩
      · exact h4 t' ht'
    | none =>
      simp only
      obtain ⟨h1, h2, h3, h4⟩ := ih (n + 1) (z.set t n)
      have hset : (z.set t n).get t = some n := by cases t <;> rfl
      have hother : ∀ t', t' ≠ t → (z.set t n).get t' = z.get t' := by
        intro t' hne; cases t <;> cases t' <;> first | rfl | exact absurd rfl hne
      refine ⟨Nat.le_trans (Nat.le_succ n) h1, ?_, ?_, ?_⟩
      · intro t' v hv
        rcases h2 t' v hv with h | ⟨ha, hb⟩
        · by_cases hte : t' = t
          · subst hte; rw [hset] at h; cases h; exact .inr ⟨Nat.le_refl _, Nat.lt_of_lt_of_le (Nat.lt_succ_self n) h1⟩
          · rw [hother t' hte] at h; exact .inl h
        · exact .inr ⟨Nat.le_trans (Nat.le_succ n) ha, hb⟩
      · intro t' v hv
        by_cases hte : t' = t
        · subst hte; rw [hz] at hv; cases hv
        · exact h3 t' v (by rw [hother t' hte]; exact hv)
      · intro t' ht'
        rcases List.mem_cons.mp ht' with rfl | ht'
        · exact ⟨n, h3 _ _ hset⟩
        · exact h4 t' ht'

/-- the zero constants of the locals do not change an environment that is 0 from `n` on -/
theorem declLocals_exec (w : World) : ∀ (ls : List Ty) (n : Nat) (z : Zeros) (e : Val → Nat) (rest : List Instr),
    (∀ v, n ≤ v → e v = 0) →
    execBody w [] ((declLocals ls n z).1 ++ rest) (mk e) = execBody w [] rest (mk e) := by
  intro ls
  induction ls with
  | nil => intro n z e rest _; rfl
  | cons t ts ih =>
    intro n z e rest he
    simp only [declLocals]
    cases hz : z.get t with
    | some v0 => exact ih n z e rest he
    | none =>
      simp only [List.cons_append]
      have hupd : upd e n 0 = e := by
        funext v; simp only [upd]; split
        · rename_i h; subst h; exact (he _ (Nat.le_refl _)).symm
        · rfl
      rw [execBody_next (env' := e) _ (by simp only [execInstr, mk_set, norm, Nat.zero_mod, hupd])]
      exact ih (n + 1) (z.set t n) e rest (fun v hv => he v (by omega))

/-! ### whole functions -/

theorem entryParams_eq (f : Fn) :
    entryParams f = (0, .i64) :: (1, .i64) :: (f.params.zipIdx 0).map (fun p => (p.2 + 2, p.1)) := rfl

/-- the environment at the entry of the block: the block parameters bound to the arguments -/
def entryEnv (f : Fn) (ec mc : Nat) (args : List Nat) : Val → Nat :=
  bindVals St.init.env (entryParams f) (ec :: mc :: args)

/-- at the entry of the body (after the zero constants of the locals, which do not change the environment) the
invariant holds with the frame the reference semantics starts the callee with -/
theorem entry_inv (f : Fn) (args : List Nat) (hargs : ArgsOK f args) (ec mc : Nat) :
    (∀ v, f.params.length + 2 ≤ v → entryEnv f ec mc args v = 0) ∧
    Inv (f.params ++ f.locals) (initLS f).2 [] [] (args ++ f.locals.map (fun _ => 0)).toArray
      (entryEnv f ec mc args) := by
  obtain ⟨hlen, hrange⟩ := hargs
  -- the environment at the entry of the block
  let e0 : Val → Nat := upd (upd (fun _ => 0) 0 (norm .i64 ec)) 1 (norm .i64 mc)
  let rs := (f.params.zipIdx 0).map (fun p => (p.2 + 2, p.1))
  let env1 := bindVals e0 rs args
  obtain ⟨hb1, hb2, hb3, hb4⟩ := bind_params f.params 0 args e0 hlen hrange
  have henv1_hi : ∀ v, f.params.length + 2 ≤ v → env1 v = 0 := by
    intro v hv
    show bindVals e0 rs args v = 0
    rw [hb2 v (.inr (by omega))]
    simp only [e0, upd]
    rw [if_neg (show ¬ v = 1 by omega), if_neg (show ¬ v = 0 by omega)]
  obtain ⟨hd1, hd2, hd3, hd4⟩ := declLocals_spec f.locals (f.params.length + 2) {}
  have hz0 : ∀ t v, ¬ (({} : Zeros).get t = some v) := by intro t v h; cases t <;> cases h
  have hzero : ∀ t ∈ f.locals, ∃ v, (declLocals f.locals (f.params.length + 2) {}).2.2.get t = some v ∧
      f.params.length + 2 ≤ v ∧ v < (declLocals f.locals (f.params.length + 2) {}).2.1 := by
    intro t ht
    obtain ⟨v, hv⟩ := hd4 t ht
    rcases hd2 t v hv with h | h
    · exact absurd h (hz0 t v)
    · exact ⟨v, hv, h⟩
  have hinv : Inv (f.params ++ f.locals) (initLS f).2 [] [] (args ++ f.locals.map (fun _ => 0)).toArray env1 := by
    refine ⟨rfl, rfl, ?_, ?_, (fun _ hp => by cases hp), ?_, (fun _ hp => by cases hp), ?_⟩
    · show ((rs ++ _).map _) = _
      simp only [List.map_append, List.map_map]
      congr 1
      apply List.map_congr_left
      intro t ht
      obtain ⟨v, hv, hge, _⟩ := hzero t ht
      simp only [Function.comp, hv, Option.getD_some]
      exact henv1_hi v hge
    · show ((rs ++ _).map _) = _
      simp only [List.map_append, List.map_map]
      congr 1
      exact List.map_id'' (fun _ => rfl) _
    · intro p hp
      have hp' : p ∈ rs ++ _ := hp
      rcases List.mem_append.mp hp' with hp' | hp'
      · exact (hb3 p hp').1
      · obtain ⟨t, ht, rfl⟩ := List.mem_map.mp hp'
        obtain ⟨v, hv, hge, _⟩ := hzero t ht
        simp only [hv, Option.getD_some, henv1_hi v hge]
        exact Nat.two_pow_pos _
    · intro p hp
      have hp' : p ∈ rs ++ _ := hp
      rcases List.mem_append.mp hp' with hp' | hp'
      · exact Nat.lt_of_lt_of_le (hb3 p hp').2 (Nat.le_trans (by omega) hd1)
      · obtain ⟨t, ht, rfl⟩ := List.mem_map.mp hp'
        obtain ⟨v, hv, _, hlt⟩ := hzero t ht
        simp only [hv, Option.getD_some]
        exact hlt
  have heq : entryEnv f ec mc args = env1 := rfl
  rw [heq]
  exact ⟨henv1_hi, hinv⟩

theorem lower_refines_full (f : Fn) (hwt : wellTyped f = true) (args : List Nat) (hargs : ArgsOK f args)
    (w : World) (ec mc : Nat) (fuel n : Nat) (hn : f.body.length + 3 ≤ n) :
    run w (lowerSL f) (ec :: mc :: args) (fuel + 1) = ofSpec (runSpec f args n) ∧
    ofSsa (run w (lowerSL f) (ec :: mc :: args) (fuel + 1)) = runSpec f args n ∧
    runSpec f args n ≠ .exhausted := by
  obtain ⟨henv1_hi, hinv⟩ := entry_inv f args hargs ec mc
  obtain ⟨hlen, hrange⟩ := hargs
  let env1 := entryEnv f ec mc args
  have hbody : execBody w [] (entryInstrs f) (mk env1) =
      execBody w [] (lowerBody f.results.length f.body (initLS f).2) (mk env1) :=
    declLocals_exec w f.locals (f.params.length + 2) {} env1 _ henv1_hi
  have hssa : run w (lowerSL f) (ec :: mc :: args) (fuel + 1) =
      match execBody w [] (lowerBody f.results.length f.body (initLS f).2) (mk env1) with
      | some (.goto b' args' st') => runFrom w (lowerSL f) fuel b' args' st'
      | some (.ret vs st') => .values vs st'.mem st'.trace
      | some (.trap c st') => .trap c st'.mem st'.trace
      | _ => .error := by
    rw [← hbody]
    have hfb : (lowerSL f).findBlock 0 = some (Block.mk 0 0 false (entryParams f) (entryInstrs f)) := by
      simp [Func.findBlock, lowerSL]
    have hlen' : ¬ (entryParams f).length ≠ (ec :: mc :: args).length := by
      simp [entryParams, hlen]
    have henv : ({ St.init with env := bindVals St.init.env (entryParams f) (ec :: mc :: args) } : St) = mk env1 := rfl
    have hent : (lowerSL f).entry = 0 := rfl
    simp only [run, runFrom, hent, hfb, hlen', if_false, henv]
    rfl
  obtain ⟨k, rfl⟩ : ∃ k, n = k + 1 := ⟨n - 1, by omega⟩
  have hrel := sim_body (w := w) (m := f.toModule) f.results f.results.length f.body (initLS f).2 [] []
    (args ++ f.locals.map (fun _ => 0)).toArray env1 {} k hinv hwt (by omega)
  rw [hssa]
  have hft : Wasm.funcType f.toModule 0 = ⟨f.params.map Ty.toVT, f.results.map Ty.toVT⟩ := rfl
  have htake : args.reverse.take f.params.length = args.reverse :=
    List.take_of_length_le (by simp [hlen])
  have hdrop : args.reverse.drop f.params.length = [] :=
    List.drop_of_length_le (by simp [hlen])
  have himp : ¬ (0 < f.toModule.imports.length) := by simp [Fn.toModule]
  have hfn : f.toModule.funcs.getD (0 - f.toModule.imports.length) default =
      ⟨0, f.locals.map Ty.toVT, f.body.map SI.toInstr⟩ := rfl
  simp only [runSpec, Wasm.invoke, Wasm.callFunc, hft, htake, hdrop, himp, if_false, hfn, List.reverse_reverse,
    List.map_map, List.append_nil, List.length_map]
  have hcomp : ((fun _ => 0) ∘ Ty.toVT : Ty → Nat) = fun _ => 0 := rfl
  rw [hcomp]
  generalize Wasm.execSeq f.toModule k (List.map SI.toInstr f.body)
      { locals := (args ++ List.map (fun _ => 0) f.locals).toArray } {} = r at hrel ⊢
  obtain ⟨ctl, fr', st'⟩ := r
  cases ctl with
  | next =>
    obtain ⟨env', ho⟩ := hrel
    rw [ho]
    simp only [ofSpec, ofSsa, mk, List.take_take, Nat.min_self, ne_eq, reduceCtorEq, not_false_eq_true, and_self]
  | ret =>
    obtain ⟨env', ho⟩ := hrel
    rw [ho]
    simp only [ofSpec, ofSsa, mk, List.take_take, Nat.min_self, ne_eq, reduceCtorEq, not_false_eq_true, and_self]
  | br l => exact absurd hrel (by simp [BodyRel])
  | exhausted => exact absurd hrel (by simp [BodyRel])
  | trap kd =>
    obtain ⟨code, env', ho, hk, hcode⟩ := hrel
    subst hk
    have : trapCode (trapKind code) = code := by
      rcases hcode with rfl | rfl <;> decide
    rw [ho]
    simp only [ofSpec, ofSsa, mk, this, ne_eq, reduceCtorEq, not_false_eq_true, and_self]

theorem lower_refines (f : Fn) (hwt : wellTyped f = true) (args : List Nat) (hargs : ArgsOK f args)
    (w : World) (ec mc : Nat) (fuel n : Nat) (hn : f.body.length + 3 ≤ n) :
    run w (lowerSL f) (ec :: mc :: args) (fuel + 1) = ofSpec (runSpec f args n) :=
  (lower_refines_full f hwt args hargs w ec mc fuel n hn).1

end Wz.Proofs.Front
