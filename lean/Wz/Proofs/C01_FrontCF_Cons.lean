/-
C01 (front end, structured control flow): CONSERVATIVITY over the straight-line front end.

On a straight-line function (`ofFn f`: the body is `f.body.map CI.op`) the structured lowering `lowerCF`, which
drives the model of `ssa.Builder` (`Bld`: blocks, `findValue`, `Seal`, control frames), produces exactly the
`SsaPass.Func` of `FrontendSL.lowerSL`: one block (id 0, key 0) with the parameters `entryParams f`, the
instructions `entryInstrs f`, and the empty alias table (`lowerCF_ofFn`).  So everything proved about `lowerSL`
(simulation, well-formedness) is a statement about `lowerCF` on this fragment.

The proof keeps the builder in the normal form `S1` (one sealed entry block without predecessors, key 0, no
aliases) and relates `LS.locals` of `lowerSL` to the entry block's `lastDefinitions` (`LocInv`): the current
definition of local `i` is the newest entry of `defs`, else the zero constant of its type.  Well-typedness is
used for one thing: the index of every live `local.get/set/tee` is in range.
-/
import Wz.Model.FrontendCF

namespace Wz.Proofs.FrontCF
open Wz.Model.SsaPass Wz.Model.FrontendSL Wz.Model.FrontendCF

theorem flatL_map_op (is : List SI) : flatL (is.map CI.op) = is.map Tok.op := by
  induction is with
  | nil => simp [flatL]
  | cons i is ih => simp [flatL, CI.flat, ih]

theorem toks_ofFn (f : Fn) : (ofFn f).toks = f.body.map Tok.op ++ [Tok.endT] := by
  simp [Function.toks, ofFn, flatL_map_op]

/-- the builder with the single entry block -/
def S1 (sl : Bool) (ps : List TV) (ins : List Instr) (defs : List (Nat × TV)) (n k : Nat) (z : Zeros)
    (vt : List Ty) : Bld :=
  { blocks := [{ params := ps, instrs := ins, preds := [], sealed := sl, singlePred := none, defs := defs,
                 unknown := [], key := 0 }],
    next := n, ninstr := k, aliases := [], zeros := z, cur := 0, varTys := vt }

variable {sl : Bool} {ps : List TV} {ins : List Instr} {defs : List (Nat × TV)} {n k : Nat} {z : Zeros}
  {vt : List Ty}

theorem insert_S1 (i : Instr) (hi : i.branch? = none ∨ ∃ vs, i = .jump retBlk vs) (hk : ins = [] → k = 0) :
    (S1 sl ps ins defs n k z vt).insert i = S1 sl ps (ins ++ [i]) defs n (k + 1) z vt := by
  have hkey : (if ins.isEmpty then k else 0) = 0 := by
    cases ins with
    | nil => simp [hk rfl]
    | cons a as => simp
  rcases hi with h | ⟨vs, rfl⟩
  · simp only [Bld.insert, h, S1, Bld.modBlk, modAt, hkey]
  · simp only [Bld.insert, Instr.branch?, S1, Bld.modBlk, modAt, Bld.blk, List.getD_cons_zero, hkey, if_true]

theorem insertAll_S1 (l : List Instr) (hl : ∀ j ∈ l, j.branch? = none) :
    ∀ (ins : List Instr) (k : Nat), (ins = [] → k = 0) →
    (S1 sl ps ins defs n k z vt).insertAll l = S1 sl ps (ins ++ l) defs n (k + l.length) z vt := by
  induction l with
  | nil => intro ins k _; simp [Bld.insertAll]
  | cons a l ih =>
    intro ins k hk
    simp only [Bld.insertAll]
    rw [insert_S1 a (Or.inl (hl a (by simp))) hk, ih (fun j hj => hl j (by simp [hj])) _ _ (by simp)]
    simp [Nat.add_comm, Nat.add_left_comm]

theorem define_S1 (i : Nat) (v : TV) :
    (S1 sl ps ins defs n k z vt).define i v 0 = S1 sl ps ins ((i, v) :: defs) n k z vt := rfl

theorem seal_S1 : (S1 false ps ins defs n k z vt).seal 0 = S1 true ps ins defs n k z vt := rfl

/-- the value of local `i` in the sealed entry block -/
def curDef (vt : List Ty) (z : Zeros) (defs : List (Nat × TV)) (i : Nat) : TV :=
  match defs.lookup i with
  | some v => v
  | none => ((z.get (vt.getD i .i32)).getD 0, vt.getD i .i32)

theorem mustFind_S1 (i : Nat) :
    (S1 true ps ins defs n k z vt).mustFind i = (curDef vt z defs i, S1 true ps ins defs n k z vt) := by
  show findValue (4 + 1) _ _ _ _ = _
  unfold findValue
  simp only [S1, Bld.blk, Bld.varTy, curDef, List.getD_cons_zero]
  cases h : List.lookup i defs <;> simp


/-! ### `lowerI` on the instructions `stepSI` delegates -/

def isLoc : SI → Bool
  | .ret | .localGet _ | .localSet _ | .localTee _ => true
  | _ => false

theorem lowerI_plain (i : SI) (s : LS) : ∀ j ∈ (lowerI i s).1, j.branch? = none := by
  cases i <;> simp [lowerI, Instr.branch?]

theorem lowerI_nolocals (i : SI) (h : isLoc i = false) (s : LS) :
    (lowerI i { next := s.next, stack := s.stack, locals := [] }).1 = (lowerI i s).1 ∧
    (lowerI i { next := s.next, stack := s.stack, locals := [] }).2.next = (lowerI i s).2.next ∧
    (lowerI i { next := s.next, stack := s.stack, locals := [] }).2.stack = (lowerI i s).2.stack ∧
    (lowerI i s).2.locals = s.locals := by
  cases i <;> first | (exact ⟨rfl, rfl, rfl, rfl⟩) | (simp [isLoc] at h)

theorem stepSI_generic (nres : Nat) (i : SI) (h : isLoc i = false) (st : LSt) :
    stepSI nres st i =
      { st with b := { st.b.insertAll (lowerI i { next := st.b.next, stack := st.stack, locals := [] }).1 with
                       next := (lowerI i { next := st.b.next, stack := st.stack, locals := [] }).2.next },
                stack := (lowerI i { next := st.b.next, stack := st.stack, locals := [] }).2.stack } := by
  cases i <;> first | rfl | (simp [isLoc] at h)

/-- the lowering state inside the function's frame -/
def St (b : Bld) (stk : List TV) (P R : List Ty) (u : Bool) : LSt :=
  { b := b, stack := stk,
    frames := [{ kind := .func, orig := 0, blk := 0, following := retBlk, bt := ⟨P, R⟩ }],
    unreachable := u, depth := 0 }

variable {P R : List Ty}

theorem dead_toks (nres : Nat) (is : List SI) (b : Bld) (stk : List TV) :
    (lowerToks nres (is.map Tok.op ++ [.endT]) (St b stk P R true)).b = { b with cur := retBlk } := by
  induction is with
  | nil => simp [lowerToks, step, St]
  | cons i is ih =>
    have : step nres (St b stk P R true) (.op i) = St b stk P R true := by simp [step, St]
    simp only [List.map_cons, List.cons_append, lowerToks, this]
    exact ih

/-- the body with the final jump to the return block as the builder has it -/
def lowerBodyJ (nres : Nat) : List SI → LS → List Instr
  | [], s => [.jump retBlk (s.peekN nres)]
  | .ret :: _, s => [.ret (s.peekN nres)]
  | i :: is, s => (lowerI i s).1 ++ lowerBodyJ nres is (lowerI i s).2

/-- the locals of `lowerSL` are the current definitions in the entry block -/
def LocInv (lt : List Ty) (z : Zeros) (defs : List (Nat × TV)) (locals : List TV) : Prop :=
  ∀ i, i < lt.length → locals[i]? = some (curDef lt z defs i)

theorem step_generic (i : SI) (h : isLoc i = false) (s : LS) (hk : ins = [] → k = 0) :
    step R.length (St (S1 true ps ins defs s.next k z vt) s.stack P R false) (.op i) =
      St (S1 true ps (ins ++ (lowerI i s).1) defs (lowerI i s).2.next (k + (lowerI i s).1.length) z vt)
        (lowerI i s).2.stack P R false := by
  have hn := lowerI_nolocals i h s
  simp only [step, St, Bool.false_eq_true, if_false]
  rw [stepSI_generic _ i h]
  simp only []
  have e1 : (S1 true ps ins defs s.next k z vt).next = s.next := rfl
  rw [e1, hn.1, hn.2.1, hn.2.2.1, insertAll_S1 _ (lowerI_plain i s) _ _ hk]
  rfl


theorem step_ret (stk : List TV) (hk : ins = [] → k = 0) :
    step R.length (St (S1 true ps ins defs n k z vt) stk P R false) (.op .ret) =
      St (S1 true ps (ins ++ [.ret (peekVals stk R.length)]) defs n (k + 1) z vt) stk P R true := by
  simp only [step, St, Bool.false_eq_true, if_false, stepSI]
  rw [insert_S1 _ (Or.inl rfl) hk]

theorem step_localGet (j : Nat) (stk : List TV) :
    step R.length (St (S1 true ps ins defs n k z vt) stk P R false) (.op (.localGet j)) =
      St (S1 true ps ins defs n k z vt) (curDef vt z defs j :: stk) P R false := by
  simp only [step, St, Bool.false_eq_true, if_false, stepSI, mustFind_S1]

theorem step_localSet (j : Nat) (stk : List TV) :
    step R.length (St (S1 true ps ins defs n k z vt) stk P R false) (.op (.localSet j)) =
      St (S1 true ps ins ((j, stk.headD (0, .i32)) :: defs) n k z vt) stk.tail P R false := rfl

theorem step_localTee (j : Nat) (stk : List TV) :
    step R.length (St (S1 true ps ins defs n k z vt) stk P R false) (.op (.localTee j)) =
      St (S1 true ps ins ((j, stk.headD (0, .i32)) :: defs) n k z vt) stk P R false := rfl

theorem step_end (stk : List TV) (hk : ins = [] → k = 0) :
    (step R.length (St (S1 true ps ins defs n k z vt) stk P R false) .endT).b =
      { S1 true ps (ins ++ [.jump retBlk (peekVals stk R.length)]) defs n (k + 1) z vt with cur := retBlk } := by
  simp only [step, St, Bool.false_eq_true, if_false, Nat.lt_irrefl]
  rw [insert_S1 _ (Or.inr ⟨_, rfl⟩) hk]

theorem LocInv_set {lt : List Ty} {locals : List TV} (h : LocInv lt z defs locals) (j : Nat) (hj : j < lt.length)
    (v : TV) : LocInv lt z ((j, v) :: defs) (locals.set j v) := by
  intro i hi
  have hjl : j < locals.length := by
    have := h j hj
    rcases Nat.lt_or_ge j locals.length with h1 | h1
    · exact h1
    · rw [List.getElem?_eq_none h1] at this; cases this
  rw [List.getElem?_set]
  by_cases e : j = i
  · subst e
    simp [curDef, List.lookup, hjl]
  · have e' : (i == j) = false := by simp; omega
    simp only [e, if_false, curDef, List.lookup, e']
    exact h i hi

theorem tcStep_local_lt {lt : List Ty} {tys tys' : List Ty} (i : SI) (j : Nat)
    (hi : i = .localGet j ∨ i = .localSet j ∨ i = .localTee j) (h : tcStep lt i tys = some tys') :
    j < lt.length := by
  have key : ∀ t, lt[j]? = some t → j < lt.length := by
    intro t ht
    rcases Nat.lt_or_ge j lt.length with h1 | h1
    · exact h1
    · rw [List.getElem?_eq_none h1] at ht; cases ht
  rcases hi with rfl | rfl | rfl
  · simp only [tcStep] at h
    cases e : lt[j]? with
    | none => rw [e] at h; cases h
    | some t => exact key t e
  · cases tys with
    | nil => simp [tcStep] at h
    | cons a r =>
      simp only [tcStep] at h
      split at h
      · rename_i e; exact key a e
      · cases h
  · cases tys with
    | nil => simp [tcStep] at h
    | cons a r =>
      simp only [tcStep] at h
      split at h
      · rename_i e; exact key a e
      · cases h


theorem tcBody_cons {lt res : List Ty} {i : SI} {is : List SI} {tys : List Ty} (hi : i ≠ .ret)
    (h : tcBody lt res (i :: is) tys = true) : ∃ tys', tcStep lt i tys = some tys' ∧ tcBody lt res is tys' = true := by
  cases i <;> first
    | exact absurd rfl hi
    | (simp only [tcBody] at h
       split at h
       · rename_i t e; exact ⟨t, e, h⟩
       · cases h)

theorem lowerBodyJ_cons (nres : Nat) {i : SI} (hi : i ≠ .ret) (is : List SI) (s : LS) :
    lowerBodyJ nres (i :: is) s = (lowerI i s).1 ++ lowerBodyJ nres is (lowerI i s).2 := by
  cases i <;> first | exact absurd rfl hi | rfl

/-- one live instruction other than `return`: the builder follows `lowerI` -/
theorem step_live {lt : List Ty} (i : SI) (hi : i ≠ .ret) (s : LS) {tys tys' : List Ty}
    (htc : tcStep lt i tys = some tys') (hk : ins = [] → k = 0) (hl : LocInv lt z defs s.locals) :
    ∃ defs' k', step R.length (St (S1 true ps ins defs s.next k z lt) s.stack P R false) (.op i) =
        St (S1 true ps (ins ++ (lowerI i s).1) defs' (lowerI i s).2.next k' z lt) (lowerI i s).2.stack P R false ∧
      (ins ++ (lowerI i s).1 = [] → k' = 0) ∧ LocInv lt z defs' (lowerI i s).2.locals := by
  by_cases hloc : isLoc i = false
  · refine ⟨defs, _, step_generic i hloc s hk, ?_, ?_⟩
    · intro e
      have e1 : ins = [] := (List.append_eq_nil_iff.mp e).1
      have e2 : (lowerI i s).1 = [] := (List.append_eq_nil_iff.mp e).2
      simp [e2, hk e1]
    · rw [(lowerI_nolocals i hloc s).2.2.2]; exact hl
  · cases i with
    | ret => exact absurd rfl hi
    | localGet j =>
      have hj := tcStep_local_lt _ j (Or.inl rfl) htc
      refine ⟨defs, k, ?_, ?_, hl⟩
      · rw [step_localGet]
        have : s.locals.getD j (0, .i32) = curDef lt z defs j := by
          rw [List.getD_eq_getElem?_getD, hl j hj]; rfl
        simp only [lowerI, LS.push, List.append_nil, this]
      · simpa [lowerI] using hk
    | localSet j =>
      have hj := tcStep_local_lt _ j (Or.inr (Or.inl rfl)) htc
      refine ⟨(j, s.stack.headD (0, .i32)) :: defs, k, ?_, ?_, ?_⟩
      · rw [step_localSet]
        simp only [lowerI, LS.pop, List.append_nil]
      · simpa [lowerI] using hk
      · simp only [lowerI, LS.pop]
        exact LocInv_set hl j hj _
    | localTee j =>
      have hj := tcStep_local_lt _ j (Or.inr (Or.inr rfl)) htc
      refine ⟨(j, s.stack.headD (0, .i32)) :: defs, k, ?_, ?_, ?_⟩
      · rw [step_localTee]
        simp only [lowerI, LS.peek, List.append_nil]
      · simpa [lowerI] using hk
      · simp only [lowerI, LS.peek]
        exact LocInv_set hl j hj _
    | _ => exact absurd rfl hloc

theorem lower_main {lt res : List Ty} : ∀ (is : List SI) (s : LS) (ins : List Instr) (defs : List (Nat × TV)) (k : Nat)
    (tys : List Ty), tcBody lt res is tys = true → (ins = [] → k = 0) → LocInv lt z defs s.locals →
    ∃ defs' n' k',
      (lowerToks R.length (is.map Tok.op ++ [.endT]) (St (S1 true ps ins defs s.next k z lt) s.stack P R false)).b =
        { S1 true ps (ins ++ lowerBodyJ R.length is s) defs' n' k' z lt with cur := retBlk } := by
  intro is
  induction is with
  | nil =>
    intro s ins defs k tys _ hk _
    refine ⟨defs, s.next, k + 1, ?_⟩
    simp only [List.map_nil, List.nil_append, lowerToks]
    rw [step_end _ hk]
    rfl
  | cons i is ih =>
    intro s ins defs k tys htc hk hl
    by_cases hi : i = .ret
    · subst hi
      refine ⟨defs, s.next, k + 1, ?_⟩
      simp only [List.map_cons, List.cons_append, lowerToks]
      rw [step_ret _ hk, dead_toks]
      rfl
    · obtain ⟨tys', h1, h2⟩ := tcBody_cons hi htc
      obtain ⟨defs1, k1, e, hk1, hl1⟩ := step_live (P := P) (R := R) (ps := ps) i hi s h1 hk hl
      obtain ⟨defs', n', k', e'⟩ := ih (lowerI i s).2 _ defs1 k1 tys' h2 hk1 hl1
      refine ⟨defs', n', k', ?_⟩
      simp only [List.map_cons, List.cons_append, lowerToks]
      rw [e, e', lowerBodyJ_cons _ hi, List.append_assoc]


/-! ### the entry -/

theorem declLocals_plain : ∀ (ts : List Ty) (n : Nat) (z : Zeros), ∀ j ∈ (declLocals ts n z).1, j.branch? = none := by
  intro ts
  induction ts with
  | nil => intro n z j hj; simp [declLocals] at hj
  | cons t ts ih =>
    intro n z j hj
    unfold declLocals at hj
    split at hj
    · exact ih _ _ j hj
    · simp only [List.mem_cons] at hj
      rcases hj with rfl | hj
      · rfl
      · exact ih _ _ j hj

/-- the initial definitions: parameter `i` is value `i + 2` -/
def defs0 (P : List Ty) : List (Nat × TV) := (P.zipIdx.map (fun (t, i) => (i, ((i + 2, t) : TV)))).reverse

theorem lookup_defs_aux : ∀ (P : List Ty) (k i : Nat),
    ((P.zipIdx k).map (fun (t, i) => (i, ((i + 2, t) : TV)))).reverse.lookup i =
      if k ≤ i then (P[i - k]?).map (fun t => (i + 2, t)) else none := by
  intro P
  induction P with
  | nil => intro k i; simp
  | cons t ts ih =>
    intro k i
    simp only [List.zipIdx_cons, List.map_cons, List.reverse_cons, List.lookup_append, ih]
    by_cases h1 : k + 1 ≤ i
    · have h2 : k ≤ i := by omega
      have h3 : i - k = (i - (k + 1)) + 1 := by omega
      have h4 : (i == k) = false := by simp; omega
      simp only [h1, h2, if_true, h3, List.getElem?_cons_succ, List.lookup, h4]
      cases ts[i - (k + 1)]? <;> rfl
    · by_cases h2 : k = i
      · subst h2
        simp [List.lookup, h1]
      · have h3 : ¬ k ≤ i := by omega
        have h4 : (i == k) = false := by simp; omega
        simp [h1, h3, List.lookup, h4]

theorem lookup_defs0 (P : List Ty) (i : Nat) : (defs0 P).lookup i = (P[i]?).map (fun t => (i + 2, t)) := by
  have := lookup_defs_aux P 0 i
  simpa [defs0] using this

theorem LocInv_init (P L : List Ty) (z : Zeros) (g : Ty → TV) (hg : ∀ t, g t = ((z.get t).getD 0, t)) :
    LocInv (P ++ L) z (defs0 P) (P.zipIdx.map (fun (t, i) => (i + 2, t)) ++ L.map g) := by
  intro i hi
  rcases Nat.lt_or_ge i P.length with h | h
  · have e1 : (List.map (fun (x : Ty × Nat) => match x with | (t, i) => ((i + 2, t) : TV)) P.zipIdx ++ L.map g)[i]? = some (i + 2, P[i]) := by
      rw [List.getElem?_append_left (by simpa using h)]
      simp [h]
    rw [e1]
    simp [curDef, lookup_defs0, h]
  · have e1 : (List.map (fun (x : Ty × Nat) => match x with | (t, i) => ((i + 2, t) : TV)) P.zipIdx ++ L.map g)[i]? = (L[i - P.length]?).map g := by
      rw [List.getElem?_append_right (by simpa using h)]
      simp
    have hL : i - P.length < L.length := by simp at hi; omega
    rw [e1]
    have e2 : (P ++ L)[i]?.getD .i32 = L[i - P.length] := by
      rw [List.getElem?_append_right h]
      simp [hL]
    simp [curDef, lookup_defs0, List.getElem?_eq_none h, e2, hL, hg]

theorem initLSt_ofFn (f : Fn) :
    initLSt (ofFn f) =
      St (S1 true (entryParams f) (initLS f).1 (defs0 f.params) (initLS f).2.next (initLS f).1.length
            (declLocals f.locals (f.params.length + 2) {}).2.2 (f.params ++ f.locals))
        (initLS f).2.stack f.params f.results false := by
  have e1 := insertAll_S1 (sl := false) (ps := entryParams f) (defs := defs0 f.params) (n := f.params.length + 2)
    (z := (declLocals f.locals (f.params.length + 2) {}).2.2) (vt := f.params ++ f.locals)
    (declLocals f.locals (f.params.length + 2) {}).1 (declLocals_plain _ _ _) [] 0 (fun _ => rfl)
  have e2 : initLSt (ofFn f) =
      St (Bld.seal { Bld.insertAll (S1 false (entryParams f) [] (defs0 f.params) (f.params.length + 2) 0
            (declLocals f.locals (f.params.length + 2) {}).2.2 (f.params ++ f.locals))
            (declLocals f.locals (f.params.length + 2) {}).1 with
              next := (declLocals f.locals (f.params.length + 2) {}).2.1 } 0) [] f.params f.results false := rfl
  rw [e2, e1]
  simp only [List.nil_append, Nat.zero_add]
  rfl


/-! ### from the builder to `SsaPass.Func` -/

theorem retJump_plain (j : Instr) (h : j.branch? = none) : retJump j = j := by
  cases j <;> first | rfl | (simp [Instr.branch?] at h)

theorem map_retJump_plain (l : List Instr) (h : ∀ j ∈ l, j.branch? = none) : l.map retJump = l := by
  induction l with
  | nil => rfl
  | cons a l ih =>
    simp only [List.map_cons]
    rw [retJump_plain a (h a (by simp)), ih (fun j hj => h j (by simp [hj]))]

theorem lowerBodyJ_map (nres : Nat) : ∀ (is : List SI) (s : LS),
    (lowerBodyJ nres is s).map retJump = lowerBody nres is s := by
  intro is
  induction is with
  | nil => intro s; simp [lowerBodyJ, lowerBody, retJump]
  | cons i is ih =>
    intro s
    by_cases hi : i = .ret
    · subst hi; simp [lowerBodyJ, lowerBody, retJump]
    · have e : lowerBody nres (i :: is) s = (lowerI i s).1 ++ lowerBody nres is (lowerI i s).2 := by
        cases i <;> first | exact absurd rfl hi | rfl
      rw [lowerBodyJ_cons _ hi, e, List.map_append, ih, map_retJump_plain _ (lowerI_plain i s)]

/-- no conditional branch -/
def NoCB (j : Instr) : Prop := j.branch? = none ∨ ∃ vs, j = .jump retBlk vs

theorem lowerBodyJ_noCB (nres : Nat) : ∀ (is : List SI) (s : LS), ∀ j ∈ lowerBodyJ nres is s, NoCB j := by
  intro is
  induction is with
  | nil => intro s j hj; simp [lowerBodyJ] at hj; exact Or.inr ⟨_, hj⟩
  | cons i is ih =>
    intro s j hj
    by_cases hi : i = .ret
    · subst hi; simp [lowerBodyJ] at hj; subst hj; exact Or.inl rfl
    · rw [lowerBodyJ_cons _ hi, List.mem_append] at hj
      rcases hj with hj | hj
      · exact Or.inl (lowerI_plain i s j hj)
      · exact ih _ j hj

theorem toFunc_S1 (c : Nat) (results : List Ty) (h : ∀ j ∈ ins, NoCB j) :
    toFunc { S1 sl ps ins defs n k z vt with cur := c } results =
      { blocks := [{ id := 0, key := 0, invalid := false, params := ps, instrs := ins.map retJump }], alias := [] } := by
  have hu : usesRetBlk { S1 sl ps ins defs n k z vt with cur := c } = false := by
    simp only [usesRetBlk, S1, List.any_cons, List.any_nil, Bool.or_false, List.any_eq_false]
    intro j hj
    rcases h j hj with h | ⟨vs, rfl⟩
    · cases j <;> first | (simp; done) | cases h
    · simp
  simp only [toFunc, hu]
  simp [S1, toBlocks, aliasTable]

theorem lowerCF_ofFn (f : Fn) (h : wellTyped f = true) : lowerCF (ofFn f) = lowerSL f := by
  have hl : LocInv (f.params ++ f.locals) (declLocals f.locals (f.params.length + 2) {}).2.2 (defs0 f.params)
      (initLS f).2.locals :=
    LocInv_init f.params f.locals _ _ (fun _ => rfl)
  obtain ⟨defs', n', k', e⟩ := lower_main (P := f.params) (R := f.results) (ps := entryParams f) (res := f.results)
    f.body (initLS f).2 (initLS f).1 (defs0 f.params) (initLS f).1.length [] h
    (fun e => by rw [e]; rfl) hl
  have e1 : lowerCF (ofFn f) =
      toFunc (lowerToks f.results.length (ofFn f).toks (initLSt (ofFn f))).b f.results := rfl
  rw [e1, toks_ofFn, initLSt_ofFn, e, toFunc_S1]
  · have e2 : (initLS f).1.map retJump = (initLS f).1 := map_retJump_plain _ (declLocals_plain _ _ _)
    rw [List.map_append, lowerBodyJ_map, e2]
    rfl
  · intro j hj
    rw [List.mem_append] at hj
    rcases hj with hj | hj
    · exact Or.inl (declLocals_plain _ _ _ j hj)
    · exact lowerBodyJ_noCB _ _ _ j hj

end Wz.Proofs.FrontCF
