/- Lemmas for C15: where the loop-free functions of the first batch (and fd_write / fd_pwrite, whose only write is
the result cell) write: inside the memory and inside the designated regions. Core Lean only. -/
import Wz.Proofs.C15_Fs2W
import Wz.Proofs.C15_All

namespace Wz.C15
open Wz.Model Wz.Model.Wasi Wz.Model.DescTable Wz.Gen.Wasi

/-- every write of the (single) answer lies inside the memory and inside the regions `d` -/
def Wr1 (m : Mem) (d : List (Nat × Nat)) (r : Res) : Prop :=
  (∀ w ∈ r.writes, w.len = 0 ∨ w.off + w.len ≤ m.size) ∧ (∀ w ∈ r.writes, Wr.within w d)

theorem wr1_nil (m : Mem) (d : List (Nat × Nat)) (r : Res) (h : r.writes = []) : Wr1 m d r := by
  constructor <;> (intro w hw; rw [h] at hw; cases hw)

theorem wr1_of (m : Mem) (d : List (Nat × Nat)) (r : Res) (ws : List Wr) (h : r.writes = ws)
    (h1 : ∀ w ∈ ws, w.len = 0 ∨ w.off + w.len ≤ m.size) (h2 : ∀ w ∈ ws, Wr.within w d) : Wr1 m d r := by
  constructor <;> (intro w hw; rw [h] at hw)
  · exact h1 w hw
  · exact h2 w hw

theorem writeU64_wr1 (m : Mem) (p v : Nat) (hp : p < 4294967296) (hs : m.size < 9223372036854775808) :
    Wr1 m [(p, 8)] (writeU64 m p v) := by
  unfold writeU64
  split
  · exact wr1_nil _ _ _ rfl
  · rename_i hh
    refine wr1_of m _ _ [Wr.bytes p (bytesLE 8 v)] rfl ?_ ?_
    all_goals intro w hw
    all_goals simp only [List.mem_cons, List.not_mem_nil, or_false] at hw
    all_goals subst hw
    · exact bytes_ok m p _ hp (by rw [bytesLE_length]; decide) hs (by rw [bytesLE_length]; simpa using hh)
    · exact wr_in _ p 8 [] rfl (by show (bytesLE 8 v).length ≤ 8; rw [bytesLE_length]; exact Nat.le_refl _)

theorem write2xU32_wr1 (m : Mem) (p1 v1 p2 v2 : Nat) (h1 : p1 < 4294967296) (h2 : p2 < 4294967296)
    (hs : m.size < 9223372036854775808) : Wr1 m [(p1, 4), (p2, 4)] (write2xU32 m p1 v1 p2 v2) := by
  have b1 : ¬ (!m.has p1 4) = true → ((Wr.bytes p1 (bytesLE 4 v1)).len = 0 ∨
      (Wr.bytes p1 (bytesLE 4 v1)).off + (Wr.bytes p1 (bytesLE 4 v1)).len ≤ m.size) := fun hh =>
    bytes_ok m p1 _ h1 (by rw [bytesLE_length]; decide) hs (by rw [bytesLE_length]; simpa using hh)
  have c1 : Wr.within (Wr.bytes p1 (bytesLE 4 v1)) [(p1, 4), (p2, 4)] :=
    wr_in _ p1 4 _ rfl (by show (bytesLE 4 v1).length ≤ 4; rw [bytesLE_length]; exact Nat.le_refl _)
  unfold write2xU32
  split
  · exact wr1_nil _ _ _ rfl
  · rename_i hh1
    dsimp only
    split
    · refine wr1_of m _ _ [Wr.bytes p1 (bytesLE 4 v1)] rfl ?_ ?_
      all_goals intro w hw
      all_goals simp only [List.mem_cons, List.not_mem_nil, or_false] at hw
      all_goals subst hw
      · exact b1 hh1
      · exact c1
    · rename_i hh2
      refine wr1_of m _ _ [Wr.bytes p1 (bytesLE 4 v1), Wr.bytes p2 (bytesLE 4 v2)] rfl ?_ ?_
      all_goals intro w hw
      all_goals simp only [List.mem_cons, List.not_mem_nil, or_false] at hw
      all_goals rcases hw with rfl | rfl
      · exact b1 hh1
      · exact bytes_ok m p2 _ h2 (by rw [bytesLE_length]; decide) hs (by rw [bytesLE_length]; simpa using hh2)
      · exact c1
      · exact wr_skip _ _ _ (wr_in _ p2 4 [] rfl (by show (bytesLE 4 v2).length ≤ 4; rw [bytesLE_length]; exact Nat.le_refl _))

theorem clockResGet_wr1 (h : Host) (m : Mem) (id res : Nat) (hr : res < 4294967296) (hs : m.size < 9223372036854775808) :
    Wr1 m [(res, 8)] (clockResGet h m id res) := by
  unfold clockResGet
  split_all
  all_goals first
    | exact writeU64_wr1 m res _ hr hs
    | exact wr1_nil _ _ _ rfl

theorem clockTimeGet_wr1 (h : Host) (m : Mem) (id res : Nat) (hr : res < 4294967296) (hs : m.size < 9223372036854775808) :
    Wr1 m [(res, 8)] (clockTimeGet h m id res) := by
  unfold clockTimeGet
  split_all
  all_goals first
    | exact writeU64_wr1 m res _ hr hs
    | exact wr1_nil _ _ _ rfl

theorem fdPrestatGet_wr1 (h : Host) (fds : Fds) (m : Mem) (fd res : Nat) (hr : res < 4294967296)
    (hs : m.size < 9223372036854775808) : Wr1 m [(res, 8)] (fdPrestatGet h fds m fd res) := by
  unfold fdPrestatGet
  split_all
  all_goals first
    | exact writeU64_wr1 m res _ hr hs
    | exact wr1_nil _ _ _ rfl

theorem randomGet_wr1 (m : Mem) (b l : Nat) (hb : b < 4294967296) (hl : l < 4294967296)
    (hs : m.size < 9223372036854775808) : Wr1 m [(b, l)] (randomGet m b l) := by
  unfold randomGet
  split
  · exact wr1_nil _ _ _ rfl
  · rename_i hh
    split
    · exact wr1_nil _ _ _ rfl
    · have hlen : ((List.range l).map (· % 256)).length = l := by simp
      refine wr1_of m _ _ [Wr.bytes b ((List.range l).map (· % 256))] rfl ?_ ?_
      all_goals intro w hw
      all_goals simp only [List.mem_cons, List.not_mem_nil, or_false] at hw
      all_goals subst hw
      · exact bytes_ok m b _ hb (by rw [hlen]; exact hl) hs (by rw [hlen]; simpa using hh)
      · exact wr_in _ b l [] rfl (by show ((List.range l).map (· % 256)).length ≤ l; rw [hlen]; exact Nat.le_refl _)

theorem fdPrestatDirName_wr1 (h : Host) (fds : Fds) (m : Mem) (fd p l : Nat) (hp : p < 4294967296) (hl : l < 4294967296)
    (hs : m.size < 9223372036854775808) : Wr1 m [(p, l)] (fdPrestatDirName h fds m fd p l) := by
  unfold fdPrestatDirName
  split_all
  all_goals first
    | exact wr1_nil _ _ _ rfl
    | (rename_i name _ _ _ hh _
       have hlen : (name.take l).length ≤ l := by simp [List.length_take]; omega
       refine wr1_of m _ _ [Wr.bytes p (name.take l)] rfl ?_ ?_
       all_goals intro w hw
       all_goals simp only [List.mem_cons, List.not_mem_nil, or_false] at hw
       all_goals subst hw
       · right
         have := has_le m p l hp hl hs (by simpa using hh)
         show p + (name.take l).length ≤ m.size
         omega
       · exact wr_in _ p l [] rfl hlen)

theorem statLike_wr1 (fds : Fds) (m : Mem) (fd res sz : Nat) (hr : res < 4294967296) (hz : sz < 4294967296)
    (hs : m.size < 9223372036854775808) : Wr1 m [(res, sz)] (statLike fds m fd res sz) := by
  unfold statLike
  split
  · exact wr1_nil _ _ _ rfl
  · rename_i hh
    split
    · exact wr1_nil _ _ _ rfl
    · refine wr1_of m _ _ [Wr.region res sz] rfl ?_ ?_
      all_goals intro w hw
      all_goals simp only [List.mem_cons, List.not_mem_nil, or_false] at hw
      all_goals subst hw
      · exact region_ok m res sz hr hz hs (by simpa using hh)
      · exact wr_in _ res sz [] rfl (Nat.le_refl _)

theorem seekLike_wr1 (fds : Fds) (m : Mem) (fd res : Nat) (hr : res < 4294967296)
    (hs : m.size < 9223372036854775808) : Wr1 m [(res, 8)] (seekLike fds m fd res) := by
  unfold seekLike
  split
  · exact wr1_nil _ _ _ rfl
  · exact wr1_of m _ _ (optRegion m res 8) rfl (optRegion_ok m res 8 hr (by decide) hs) (optRegion_within m res 8 [])

theorem fdWriteCommon_wr1 (wr : Writer) (m : Mem) (iovs cnt res : Nat) (hr : res < 4294967296)
    (hs : m.size < 9223372036854775808) : Wr1 m [(res, 4)] (fdWriteCommon wr m iovs cnt res) := by
  unfold fdWriteCommon
  dsimp only
  split
  · exact wr1_nil _ _ _ rfl
  · split
    · exact wr1_of m _ _ (optRegion m res 4) rfl (optRegion_ok m res 4 hr (by decide) hs) (optRegion_within m res 4 [])
    · exact wr1_nil _ _ _ rfl
    · split
      · exact wr1_nil _ _ _ rfl
      · rename_i nw _ hh
        refine wr1_of m _ _ [Wr.bytes res (bytesLE 4 nw)] rfl ?_ ?_
        all_goals intro w hw
        all_goals simp only [List.mem_cons, List.not_mem_nil, or_false] at hw
        all_goals subst hw
        · exact bytes_ok m res _ hr (by rw [bytesLE_length]; decide) hs (by rw [bytesLE_length]; simpa using hh)
        · exact wr_in _ res 4 [] rfl (by show (bytesLE 4 nw).length ≤ 4; rw [bytesLE_length]; exact Nat.le_refl _)

theorem fdWrite_wr1 (fds : Fds) (m : Mem) (fd iovs cnt res : Nat) (hr : res < 4294967296)
    (hs : m.size < 9223372036854775808) : Wr1 m [(res, 4)] (fdWrite fds m fd iovs cnt res) := by
  unfold fdWrite
  split_all
  all_goals first
    | exact fdWriteCommon_wr1 _ m iovs cnt res hr hs
    | exact wr1_nil _ _ _ rfl

theorem fdPwrite_wr1 (fds : Fds) (m : Mem) (fd iovs cnt res : Nat) (hr : res < 4294967296)
    (hs : m.size < 9223372036854775808) : Wr1 m [(res, 4)] (fdPwrite fds m fd iovs cnt res) := by
  unfold fdPwrite
  split_all
  all_goals first
    | exact fdWriteCommon_wr1 _ m iovs cnt res hr hs
    | exact wr1_nil _ _ _ rfl

theorem renumber_wr1 (b : Option Nat) (fds : Fds) (m : Mem) (f t : Nat) : Wr1 m [] (renumber b fds f t) := by
  unfold renumber
  split <;> exact wr1_nil _ _ _ rfl

theorem fdClose_wr1 (fds : Fds) (m : Mem) (fd : Nat) : Wr1 m [] (fdClose fds fd) := by
  unfold fdClose
  split <;> exact wr1_nil _ _ _ rfl

/-! ### args_get / environ_get -/

/-- a write lies inside the offsets buffer or inside the bytes buffer -/
def InBufs (offsets offsetsLen bytes bytesLen : Nat) (w : Wr) : Prop :=
  (offsets ≤ w.off ∧ w.off + w.len ≤ offsets + offsetsLen) ∨ (bytes ≤ w.off ∧ w.off + w.len ≤ bytes + bytesLen)

theorem offsetsLoop_writes (offsets offsetsLen bytes bytesLen : Nat) (hb : bytesLen < 4294967296) (ho : offsetsLen < 4294967296) :
    ∀ (vs : List (List Nat)) (oI bI : Nat) (ws : List Wr), oI + 4 * vs.length = offsetsLen → bI + nulSize vs = bytesLen →
      (∀ w ∈ ws, InBufs offsets offsetsLen bytes bytesLen w) →
      ∀ w ∈ (offsetsLoop offsets offsetsLen bytes bytesLen vs oI bI ws).1, InBufs offsets offsetsLen bytes bytesLen w := by
  intro vs
  induction vs with
  | nil => intro oI bI ws _ _ hws; exact hws
  | cons v rest ih =>
    intro oI bI ws h1 h2 hws
    have hn : nulSize (v :: rest) = v.length + 1 + nulSize rest := by simp [nulSize]
    rw [hn] at h2
    simp only [List.length_cons] at h1
    unfold offsetsLoop
    have a1 : ¬ oI ≥ offsetsLen := by omega
    have a2 : min 4 (offsetsLen - oI) = 4 := by omega
    have a3 : ¬ bI > bytesLen := by omega
    have a4 : w32 (bI + v.length) = bI + v.length := by unfold w32; omega
    have a5 : ¬ bI + v.length ≥ bytesLen := by omega
    have a6 : w32 (oI + 4) = oI + 4 := by unfold w32; omega
    have a7 : w32 (bI + v.length + 1) = bI + v.length + 1 := by unfold w32; omega
    have a8 : min v.length (bytesLen - bI) = v.length := by omega
    simp only [a1, if_false, a2, Nat.lt_irrefl, a3, a4, a5, a6, a7, a8]
    refine ih _ _ _ (by omega) (by omega) ?_
    intro w hw
    simp only [List.mem_cons] at hw
    have hw1 : InBufs offsets offsetsLen bytes bytesLen (Wr.bytes (offsets + oI) ((bytesLE 4 (w32 (bytes + bI))).take 4)) := by
      left
      have : ((bytesLE 4 (w32 (bytes + bI))).take 4).length = 4 := by simp [bytesLE]
      show offsets ≤ offsets + oI ∧ offsets + oI + ((bytesLE 4 (w32 (bytes + bI))).take 4).length ≤ offsets + offsetsLen
      omega
    have h40 : ¬ (4 = 0) := by decide
    simp only [h40, if_false] at hw
    rcases hw with rfl | hw
    · right
      show bytes ≤ bytes + (bI + v.length) ∧ bytes + (bI + v.length) + 1 ≤ bytes + bytesLen
      omega
    · split at hw
      · simp only [List.mem_cons] at hw
        rcases hw with rfl | hw
        · exact hw1
        · exact hws w hw
      · simp only [List.mem_cons] at hw
        rcases hw with rfl | rfl | hw
        · right
          have : (v.take v.length).length = v.length := by simp
          show bytes ≤ bytes + bI ∧ bytes + bI + (v.take v.length).length ≤ bytes + bytesLen
          omega
        · exact hw1
        · exact hws w hw

theorem writeOffsetsAndValues_wr1 (m : Mem) (vs : List (List Nat)) (o b : Nat) (h1 : vs.length * 4 < 4294967296)
    (h2 : nulSize vs < 4294967296) (ho : o < 4294967296) (hb : b < 4294967296) (hs : m.size < 9223372036854775808) :
    Wr1 m [(o, 4 * vs.length), (b, nulSize vs)] (writeOffsetsAndValues m vs o b (w32 (nulSize vs))) := by
  have e1 : w32 (vs.length * 4) = vs.length * 4 := by unfold w32; omega
  have e2 : w32 (nulSize vs) = nulSize vs := by unfold w32; omega
  have hl := offsetsLoop_writes o (vs.length * 4) b (nulSize vs) h2 h1 vs 0 0 [] (by omega) (by omega)
    (fun w hw => by cases hw)
  unfold writeOffsetsAndValues
  rw [e1, e2]
  dsimp only
  split
  · exact wr1_nil _ _ _ rfl
  · rename_i hh1
    split
    · exact wr1_nil _ _ _ rfl
    · rename_i hh2
      have g1 := has_le m o (vs.length * 4) ho h1 hs (by simpa using hh1)
      have g2 := has_le m b (nulSize vs) hb h2 hs (by simpa using hh2)
      have key : ∀ ws : List Wr, (∀ w ∈ ws, InBufs o (vs.length * 4) b (nulSize vs) w) →
          (∀ w ∈ ws.reverse, w.len = 0 ∨ w.off + w.len ≤ m.size) ∧
          (∀ w ∈ ws.reverse, Wr.within w [(o, 4 * vs.length), (b, nulSize vs)]) := by
        intro ws hws
        constructor
        · intro w hw
          rcases hws w (List.mem_reverse.1 hw) with h | h
          · right; omega
          · right; omega
        · intro w hw a ha1 ha2
          rcases hws w (List.mem_reverse.1 hw) with h | h
          · exact ⟨(o, 4 * vs.length), by simp, by simp; omega, by simp; omega⟩
          · exact ⟨(b, nulSize vs), by simp, by simp; omega, by simp; omega⟩
      split
      · rename_i ws heq
        rw [heq] at hl
        exact wr1_of m _ _ ws.reverse rfl (key ws hl).1 (key ws hl).2
      · rename_i ws heq
        rw [heq] at hl
        exact wr1_of m _ _ ws.reverse rfl (key ws hl).1 (key ws hl).2

/-! ### fd_read / fd_pread with the repaired `readv` (iovec array copied at the start, F62) -/

/-- entry `i` of the iovec array is among the regions named by the entries `j … j+cnt-1` -/
theorem iovRegions_mem (m : Mem) (iovs : Nat) : ∀ (cnt j i : Nat), j ≤ i → i < j + cnt → iovs + 8 * i + 8 ≤ m.size →
    (le32 m (iovs + 8 * i), le32 m (iovs + 8 * i + 4)) ∈ iovRegions m iovs cnt j := by
  intro cnt
  induction cnt with
  | zero => intro j i h1 h2 _; omega
  | succ cnt ih =>
    intro j i h1 h2 h3
    unfold iovRegions
    have hc : iovs + 8 * j + 8 ≤ m.size := by omega
    simp only [hc, if_true, List.mem_cons]
    by_cases hij : i = j
    · left; rw [hij]
    · right; exact ih (j + 1) i (by omega) (by omega) h3

/-- what the loop keeps true of every write it has logged -/
def RdOk (m : Mem) (d : List (Nat × Nat)) (w : Wr) : Prop :=
  (w.len = 0 ∨ w.off + w.len ≤ m.size) ∧ Wr.within w d

theorem write_size' (m : Mem) (a : Nat) (bs : List Nat) : (m.write a bs).size = m.size := rfl

theorem readvLoop_snap_writes (en : Bool) (m : Mem) (hb : Bytes m) (iovs cnt stop : Nat) (rest : List (Nat × Nat))
    (hs : m.size < 9223372036854775808) (h8 : stop % 8 = 0) (hst : stop ≤ cnt * 8) (h32 : stop < 4294967296)
    (hin : iovs + stop ≤ m.size) :
    ∀ (fuel pos : Nat) (s : RvSt), pos % 8 = 0 → s.m.size = m.size →
      (∀ w ∈ s.ws, RdOk m (iovRegions m iovs cnt 0 ++ rest) w) →
      (∀ w ∈ (readvLoop en (some m) iovs stop fuel pos s).1.ws, RdOk m (iovRegions m iovs cnt 0 ++ rest) w) ∧
      (readvLoop en (some m) iovs stop fuel pos s).1.m.size = m.size := by
  intro fuel
  induction fuel with
  | zero => intro pos s _ hsz hws; exact ⟨hws, hsz⟩
  | succ fuel ih =>
    intro pos s hp hsz hws
    unfold readvLoop
    by_cases hge : pos ≥ stop
    · rw [if_pos hge]; exact ⟨hws, hsz⟩
    · rw [if_neg hge]
      have h4 : ¬ (pos + 4 > stop) := by omega
      have hp4 : w32 (pos + 4) = pos + 4 := by unfold w32; omega
      have h5 : ¬ (pos + 4 > stop ∨ pos + 4 + 4 > stop) := by omega
      have hn : w32 (pos + 8) % 8 = 0 := by unfold w32; omega
      rw [if_neg h4]
      simp only [Option.getD_some, hp4, h5, if_false]
      by_cases hl0 : le32 m (iovs + (pos + 4)) = 0
      · rw [if_pos hl0]; exact ih _ _ hn hsz hws
      · rw [if_neg hl0]
        by_cases hhas : (!s.m.has (le32 m (iovs + pos)) (le32 m (iovs + (pos + 4)))) = true
        · rw [if_pos hhas]; exact ⟨hws, hsz⟩
        · rw [if_neg hhas]
          have hoff : le32 m (iovs + pos) < 4294967296 := le32_lt m hb _
          have hlen : le32 m (iovs + (pos + 4)) < 4294967296 := le32_lt m hb _
          have hfit : le32 m (iovs + pos) + le32 m (iovs + (pos + 4)) ≤ m.size := by
            have := has_le s.m _ _ hoff hlen (by omega) (by simpa using hhas)
            omega
          have hentry : (le32 m (iovs + pos), le32 m (iovs + (pos + 4))) ∈ iovRegions m iovs cnt 0 := by
            have := iovRegions_mem m iovs cnt 0 (pos / 8) (by omega) (by omega) (by omega)
            have e1 : iovs + 8 * (pos / 8) = iovs + pos := by omega
            have e2 : iovs + pos + 4 = iovs + (pos + 4) := by omega
            rwa [e1, e2] at this
          have hnew : ∀ (bs : List Nat), bs.length ≤ le32 m (iovs + (pos + 4)) →
              RdOk m (iovRegions m iovs cnt 0 ++ rest) (Wr.bytes (le32 m (iovs + pos)) bs) := by
            intro bs hbs
            constructor
            · right
              show le32 m (iovs + pos) + bs.length ≤ m.size
              omega
            · intro a ha1 ha2
              refine ⟨(le32 m (iovs + pos), le32 m (iovs + (pos + 4))), by simp [hentry], ha1, ?_⟩
              show a < le32 m (iovs + pos) + le32 m (iovs + (pos + 4))
              have : a < le32 m (iovs + pos) + bs.length := ha2
              omega
          have htake : (List.take (min (le32 m (iovs + (pos + 4))) s.src.length) s.src).length ≤ le32 m (iovs + (pos + 4)) := by
            simp [List.length_take]; omega
          by_cases hen : en = true
          · rw [if_pos hen]; exact ⟨hws, hsz⟩
          · rw [if_neg hen]
            by_cases hk0 : min (le32 m (iovs + (pos + 4))) s.src.length = 0
            · simp only [hk0, if_true]
              by_cases hkl : 0 < le32 m (iovs + (pos + 4))
              · rw [if_pos hkl]; exact ⟨hws, hsz⟩
              · rw [if_neg hkl]; exact ih _ _ hn hsz hws
            · simp only [hk0, if_false]
              have hws' : ∀ w ∈ Wr.bytes (le32 m (iovs + pos)) (List.take (min (le32 m (iovs + (pos + 4))) s.src.length) s.src) :: s.ws,
                  RdOk m (iovRegions m iovs cnt 0 ++ rest) w := by
                intro w hw
                simp only [List.mem_cons] at hw
                rcases hw with rfl | hw
                · exact hnew _ htake
                · exact hws w hw
              by_cases hkl : min (le32 m (iovs + (pos + 4))) s.src.length < le32 m (iovs + (pos + 4))
              · rw [if_pos hkl]; exact ⟨hws', hsz⟩
              · rw [if_neg hkl]; exact ih _ _ hn hsz hws'

theorem rdok_reverse (m : Mem) (d : List (Nat × Nat)) (r : Res) (ws : List Wr) (h : r.writes = ws.reverse)
    (hws : ∀ w ∈ ws, RdOk m d w) : Wr1 m d r := by
  refine wr1_of m d r ws.reverse h ?_ ?_
  · intro w hw; exact (hws w (List.mem_reverse.1 hw)).1
  · intro w hw; exact (hws w (List.mem_reverse.1 hw)).2

theorem fdReadCommon_wr1 (rd : Reader) (m : Mem) (hb : Bytes m) (iovs cnt res : Nat) (hi : iovs < 4294967296)
    (hr : res < 4294967296) (hs : m.size < 9223372036854775808) :
    Wr1 m (iovRegions m iovs cnt 0 ++ [(res, 4)]) (fdReadCommon true rd m iovs cnt res) := by
  unfold fdReadCommon
  dsimp only
  by_cases hh : (!m.has iovs (w32 (cnt * 8))) = true
  · rw [if_pos hh]; exact wr1_nil _ _ _ rfl
  · rw [if_neg hh]
    have hin : iovs + w32 (cnt * 8) ≤ m.size := has_le m iovs _ hi (stop8 cnt).2 hs (by simpa using hh)
    have hst : w32 (cnt * 8) ≤ cnt * 8 := by unfold w32; omega
    cases rd with
    | unknown =>
      dsimp only
      simp only [Bool.not_true, Bool.false_and, Bool.false_eq_true, if_false]
      refine wr1_of m _ _ (iovWritable m iovs (w32 (cnt * 8)) ++ optRegion m res 4) rfl ?_ ?_
      · intro w hw
        rcases List.mem_append.1 hw with hw | hw
        · exact iovWritable_ok m hb iovs _ hs w hw
        · exact optRegion_ok m res 4 hr (by decide) hs w hw
      · intro w hw
        rcases List.mem_append.1 hw with hw | hw
        · exact iovWritable_within m iovs cnt _ w hw
        · exact app_skip _ _ _ (optRegion_within m res 4 [] w hw)
    | stream src =>
      have hl := readvLoop_snap_writes false m hb iovs cnt (w32 (cnt * 8)) [(res, 4)] hs (stop8 cnt).1 hst (stop8 cnt).2 hin
        (w32 (cnt * 8) / 8 + 1) 0 { m := m, ws := [], acc := [(iovs, w32 (cnt * 8))], src := src, nread := 0 } rfl rfl
        (fun w hw => by cases hw)
      simp only [↓reduceIte]
      generalize readvLoop false (some m) iovs (w32 (cnt * 8)) (w32 (cnt * 8) / 8 + 1) 0
        { m := m, ws := [], acc := [(iovs, w32 (cnt * 8))], src := src, nread := 0 } = x at hl
      obtain ⟨s, e⟩ := x
      cases e with
      | some e => exact rdok_reverse m _ _ s.ws rfl hl.1
      | none =>
        dsimp only
        split
        · exact rdok_reverse m _ _ s.ws rfl hl.1
        · rename_i hres
          refine rdok_reverse m _ _ (Wr.bytes res (bytesLE 4 s.nread) :: s.ws) rfl ?_
          intro w hw
          simp only [List.mem_cons] at hw
          rcases hw with rfl | hw
          · constructor
            · have := has_le s.m res 4 hr (by decide) (by have := hl.2; dsimp only at this; omega) (by simpa using hres)
              right
              show res + (bytesLE 4 s.nread).length ≤ m.size
              rw [bytesLE_length]
              have := hl.2
              dsimp only at this
              omega
            · exact app_skip _ _ _ (wr_in _ res 4 [] rfl (by show (bytesLE 4 _).length ≤ 4; rw [bytesLE_length]; exact Nat.le_refl _))
          · exact hl.1 w hw
    | enosys =>
      have hl := readvLoop_snap_writes true m hb iovs cnt (w32 (cnt * 8)) [(res, 4)] hs (stop8 cnt).1 hst (stop8 cnt).2 hin
        (w32 (cnt * 8) / 8 + 1) 0 { m := m, ws := [], acc := [(iovs, w32 (cnt * 8))], src := [], nread := 0 } rfl rfl
        (fun w hw => by cases hw)
      simp only [↓reduceIte]
      generalize readvLoop true (some m) iovs (w32 (cnt * 8)) (w32 (cnt * 8) / 8 + 1) 0
        { m := m, ws := [], acc := [(iovs, w32 (cnt * 8))], src := [], nread := 0 } = x at hl
      obtain ⟨s, e⟩ := x
      cases e with
      | some e => exact rdok_reverse m _ _ s.ws rfl hl.1
      | none =>
        dsimp only
        split
        · exact rdok_reverse m _ _ s.ws rfl hl.1
        · rename_i hres
          refine rdok_reverse m _ _ (Wr.bytes res (bytesLE 4 s.nread) :: s.ws) rfl ?_
          intro w hw
          simp only [List.mem_cons] at hw
          rcases hw with rfl | hw
          · constructor
            · have := has_le s.m res 4 hr (by decide) (by have := hl.2; dsimp only at this; omega) (by simpa using hres)
              right
              show res + (bytesLE 4 s.nread).length ≤ m.size
              rw [bytesLE_length]
              have := hl.2
              dsimp only at this
              omega
            · exact app_skip _ _ _ (wr_in _ res 4 [] rfl (by show (bytesLE 4 _).length ≤ 4; rw [bytesLE_length]; exact Nat.le_refl _))
          · exact hl.1 w hw

theorem fdRead_wr1 (h : Host) (fds : Fds) (m : Mem) (hb : Bytes m) (fd iovs cnt res : Nat) (hi : iovs < 4294967296)
    (hr : res < 4294967296) (hs : m.size < 9223372036854775808) :
    Wr1 m (iovRegions m iovs cnt 0 ++ [(res, 4)]) (fdRead true h fds m fd iovs cnt res) := by
  unfold fdRead
  split_all
  all_goals first
    | exact fdReadCommon_wr1 _ m hb iovs cnt res hi hr hs
    | exact wr1_nil _ _ _ rfl

theorem fdPread_wr1 (fds : Fds) (m : Mem) (hb : Bytes m) (fd iovs cnt res : Nat) (hi : iovs < 4294967296)
    (hr : res < 4294967296) (hs : m.size < 9223372036854775808) :
    Wr1 m (iovRegions m iovs cnt 0 ++ [(res, 4)]) (fdPread true fds m fd iovs cnt res) := by
  unfold fdPread
  split_all
  all_goals first
    | exact fdReadCommon_wr1 _ m hb iovs cnt res hi hr hs
    | exact wr1_nil _ _ _ rfl

end Wz.C15
