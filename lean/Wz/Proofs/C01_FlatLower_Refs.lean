/-
C01 (lowering): every branch target of the lowered code is the return address or the index of a `Label`
operation (`lower_targets_valid`): the labels a piece of code refers to are defined in it, or belong to an
enclosing frame that live code of the piece branches to, and such a frame gets its label when it is closed.
-/
import Wz.Proofs.C01_FlatLower_Labels

namespace Wz.Proofs.FlatLower
open Wz.Spec Wz.Spec.Wasm Wz.Model.FlatLower

/-- the branch targets of an operation -/
def refsOf {τ} : Op τ → List τ
  | .br t => [t]
  | .brIf a b _ => [a, b]
  | .brTable ts => ts.map (·.1)
  | _ => []

theorem refsOf_mapT {α β} (g : α → β) (op : Op α) : refsOf (op.mapT g) = (refsOf op).map g := by
  cases op <;> simp [refsOf, Op.mapT, List.map_map, Function.comp_def]

def dfltFr : Fr := ⟨.func, 0, 0, 0⟩

/-- the frame stack ends with a function frame -/
def FuncLast (fs : List Fr) : Prop := fs ≠ [] ∧ (fs.getLastD dfltFr).kind = .func

theorem FuncLast.push {fs : List Fr} (h : FuncLast fs) (F : Fr) : FuncLast (F :: fs) := by
  refine ⟨by simp, ?_⟩
  obtain ⟨hne, hk⟩ := h
  cases fs with
  | nil => exact absurd rfl hne
  | cons a fs => simpa [List.getLastD] using hk

/-- every label the code refers to is the return label, is defined in the code, or is the label of an
enclosing frame that live code branches to -/
def RefsOK (ops : List SymOp) (fs : List Fr) (tg : Nat → Bool) : Prop :=
  ∀ op, op ∈ ops → ∀ l, l ∈ refsOf op →
    l.kind = .ret ∨ l ∈ labelsOf ops ∨ ∃ k, tg k = true ∧ l = (frameAt fs k).label

theorem RefsOK.nil (fs tg) : RefsOK [] fs tg := fun _ h => by simp at h

theorem RefsOK.of_no_refs {ops : List SymOp} (h : ∀ op, op ∈ ops → refsOf op = []) (fs tg) : RefsOK ops fs tg :=
  fun op hop l hl => by rw [h op hop] at hl; simp at hl

theorem mem_labelsOf_of_mem {ops : List SymOp} {l : Label} (h : Op.label l ∈ ops) : l ∈ labelsOf ops := by
  induction ops with
  | nil => simp at h
  | cons o ops ih =>
    rcases List.mem_cons.mp h with h1 | h2
    · subst h1; simp [labelsOf]
    · cases o <;> simp [labelsOf, ih h2]

theorem RefsOK.append {a b : List SymOp} {fs tg tga tgb} (ha : RefsOK a fs tga) (hb : RefsOK b fs tgb)
    (h1 : ∀ k, tga k = true → tg k = true) (h2 : ∀ k, tgb k = true → tg k = true) : RefsOK (a ++ b) fs tg := by
  intro op hop l hl
  rw [labelsOf_append]
  rcases List.mem_append.mp hop with hop | hop
  · rcases ha op hop l hl with h | h | ⟨k, hk, rfl⟩
    · exact .inl h
    · exact .inr (.inl (List.mem_append.mpr (.inl h)))
    · exact .inr (.inr ⟨k, h1 k hk, rfl⟩)
  · rcases hb op hop l hl with h | h | ⟨k, hk, rfl⟩
    · exact .inl h
    · exact .inr (.inl (List.mem_append.mpr (.inr h)))
    · exact .inr (.inr ⟨k, h2 k hk, rfl⟩)

theorem refsOf_emitDrop (d : DropR) : ∀ op, op ∈ (emitDrop d : List SymOp) → refsOf op = [] := by
  cases d <;> simp [emitDrop, refsOf]

/-- a branch to the frame at depth `k` (after the optional drop) -/
theorem RefsOK.branch (d : DropR) (fs : List Fr) (k : Nat) (tg : Nat → Bool) (htg : tg k = true) :
    RefsOK (emitDrop d ++ [.br (frameAt fs k).label]) fs tg := by
  intro op hop l hl
  rcases List.mem_append.mp hop with hop | hop
  · rw [refsOf_emitDrop d op hop] at hl; simp at hl
  · simp at hop; subst hop
    simp [refsOf] at hl; subst hl
    exact .inr (.inr ⟨k, htg, rfl⟩)

/-- the references of a body, seen from outside its frame: references to the frame's own label are resolved
inside `whole`, the others move one level up -/
theorem RefsOK.lift {body whole : List SymOp} {F : Fr} {fs : List Fr} {tgb tg : Nat → Bool}
    (hb : RefsOK body (F :: fs) tgb) (hsub : ∀ l, l ∈ labelsOf body → l ∈ labelsOf whole)
    (hown : tgb 0 = true → F.label ∈ labelsOf whole) (hup : ∀ k, tgb (k + 1) = true → tg k = true) :
    ∀ op, op ∈ body → ∀ l, l ∈ refsOf op →
      l.kind = .ret ∨ l ∈ labelsOf whole ∨ ∃ k, tg k = true ∧ l = (frameAt fs k).label := by
  intro op hop l hl
  rcases hb op hop l hl with h | h | ⟨k, hk, rfl⟩
  · exact .inl h
  · exact .inr (.inl (hsub l h))
  · cases k with
    | zero => exact .inr (.inl (by simpa [frameAt] using hown hk))
    | succ k => exact .inr (.inr ⟨k, hup k hk, by simp [frameAt]⟩)

theorem refsOf_blockTail {id h : Nat} {bt : Option Ty} {body : List FI} {rh : Option Nat} :
    ∀ op, op ∈ blockTail id h bt body rh → ∀ l, l ∈ refsOf op → l ∈ labelsOf (blockTail id h bt body rh) := by
  intro op hop l hl
  unfold blockTail at hop ⊢
  cases rh with
  | none => simp at hop; subst hop; simp [refsOf] at hl
  | some h' =>
    simp only at hop ⊢
    rcases List.mem_append.mp hop with hop | hop
    · rw [refsOf_emitDrop _ op hop] at hl; simp at hl
    · split at hop
      · rename_i htg
        simp only [labelsOf_append, labelsOf_emitDrop, List.nil_append, htg, if_true]
        simp at hop
        rcases hop with rfl | rfl
        · simp [refsOf] at hl; subst hl; simp [labelsOf]
        · simp [refsOf] at hl
      · simp at hop

theorem blockTail_own {id h : Nat} {bt : Option Ty} {body : List FI} {rh : Option Nat}
    (htg : targetsS 0 body = true) : (⟨.cont, id⟩ : Label) ∈ labelsOf (blockTail id h bt body rh) := by
  unfold blockTail
  cases rh with
  | none => simp [labelsOf]
  | some h' => simp [labelsOf_append, labelsOf_emitDrop, htg, labelsOf]

theorem refsOf_loopTail {F : Fr} {id : Nat} {rh : Option Nat} : ∀ op, op ∈ loopTail F id rh → refsOf op = [] := by
  intro op hop
  unfold loopTail at hop
  cases rh with
  | none => simp at hop; subst hop; rfl
  | some h' => exact refsOf_emitDrop _ op hop

theorem refsOf_iteMid {F : Fr} {id : Nat} {rh : Option Nat} :
    ∀ op, op ∈ iteMid F id rh → ∀ l, l ∈ refsOf op → l = ⟨.cont, id⟩ := by
  intro op hop l hl
  unfold iteMid at hop
  cases rh with
  | none => simp at hop; subst hop; simp [refsOf] at hl
  | some h' =>
    simp only at hop
    rcases List.mem_append.mp hop with hop | hop
    · rw [refsOf_emitDrop _ op hop] at hl; simp at hl
    · simp at hop
      rcases hop with rfl | rfl
      · simpa [refsOf] using hl
      · simp [refsOf] at hl

theorem refsOf_iteTail {F : Fr} {id : Nat} {rh : Option Nat} :
    ∀ op, op ∈ iteTail F id rh → ∀ l, l ∈ refsOf op → l = ⟨.cont, id⟩ := by
  intro op hop l hl
  unfold iteTail at hop
  cases rh with
  | none => simp at hop; subst hop; simp [refsOf] at hl
  | some h' =>
    simp only at hop
    rcases List.mem_append.mp hop with hop | hop
    · rw [refsOf_emitDrop _ op hop] at hl; simp at hl
    · simp at hop
      rcases hop with rfl | rfl
      · simpa [refsOf] using hl
      · simp [refsOf] at hl

mutual
theorem lowerI_refs : ∀ (i : FI) (fs : List Fr) (h next : Nat), FuncLast fs →
    RefsOK (lowerI fs h next i).ops fs (targetsI · i)
  | .const t v, fs, h, next, _ => by simp only [lowerI]; exact .of_no_refs (by simp [refsOf]) _ _
  | .num1 n, fs, h, next, _ => by simp only [lowerI]; exact .of_no_refs (by simp [refsOf]) _ _
  | .num2 n, fs, h, next, _ => by simp only [lowerI]; exact .of_no_refs (by simp [refsOf]) _ _
  | .localGet i, fs, h, next, _ => by simp only [lowerI]; exact .of_no_refs (by simp [refsOf]) _ _
  | .localSet i, fs, h, next, _ => by simp only [lowerI]; exact .of_no_refs (by simp [refsOf]) _ _
  | .localTee i, fs, h, next, _ => by simp only [lowerI]; exact .of_no_refs (by simp [refsOf]) _ _
  | .drop, fs, h, next, _ => by simp only [lowerI]; exact .of_no_refs (by simp [refsOf]) _ _
  | .select, fs, h, next, _ => by simp only [lowerI]; exact .of_no_refs (by simp [refsOf]) _ _
  | .unreachable, fs, h, next, _ => by simp only [lowerI]; exact .of_no_refs (by simp [refsOf]) _ _
  | .ret, fs, h, next, hf => by
    simp only [lowerI]
    intro op hop l hl
    rcases List.mem_append.mp hop with hop | hop
    · rw [refsOf_emitDrop _ op hop] at hl; simp at hl
    · have hop' := List.mem_singleton.mp hop
      subst hop'
      simp only [refsOf, List.mem_singleton] at hl
      subst hl
      left
      have hk := hf.2
      simp only [dfltFr] at hk
      simp only [Fr.label, hk]
  | .br l, fs, h, next, _ => by
    simp only [lowerI]
    exact RefsOK.branch _ fs l _ (by simp [targetsI])
  | .brIf l, fs, h, next, _ => by
    simp only [lowerI]
    intro op hop l' hl
    simp at hop
    rcases hop with rfl | rfl
    · simp [refsOf] at hl
      rcases hl with rfl | rfl
      · exact .inr (.inr ⟨l, by simp [targetsI], rfl⟩)
      · exact .inr (.inl (by simp [labelsOf]))
    · simp [refsOf] at hl
  | .brTable ls d, fs, h, next, _ => by
    simp only [lowerI]
    intro op hop l' hl
    simp at hop; subst hop
    simp only [refsOf, List.map_append, List.map_map, List.map_cons, List.map_nil, List.mem_append, List.mem_map,
      List.mem_singleton, Function.comp] at hl
    rcases hl with ⟨j, hj, rfl⟩ | rfl
    · exact .inr (.inr ⟨j, by simp [targetsI, hj], rfl⟩)
    · exact .inr (.inr ⟨d, by simp [targetsI], rfl⟩)
  | .block bt body, fs, h, next, hf => by
    have ih := lowerS_refs body (⟨.block, next + 1, h, arity bt⟩ :: fs) h (next + 1) (hf.push _)
    rw [lowerI_block]
    generalize lowerS (⟨.block, next + 1, h, arity bt⟩ :: fs) h (next + 1) body = r at ih ⊢
    intro op hop l hl
    rcases List.mem_append.mp hop with hop | hop
    · exact RefsOK.lift ih (fun l hl => by simp [labelsOf_append, hl])
        (fun htg => by simp only [labelsOf_append, Fr.label]; exact List.mem_append.mpr (.inr (blockTail_own htg)))
        (fun k hk => by simpa [targetsI] using hk) op hop l hl
    · exact .inr (.inl (by rw [labelsOf_append]; exact List.mem_append.mpr (.inr (refsOf_blockTail op hop l hl))))
  | .loop bt body, fs, h, next, hf => by
    have ih := lowerS_refs body (⟨.loop, next + 1, h, arity bt⟩ :: fs) h (next + 1) (hf.push _)
    rw [lowerI_loop]
    generalize lowerS (⟨.loop, next + 1, h, arity bt⟩ :: fs) h (next + 1) body = r at ih ⊢
    have hH : (⟨.header, next + 1⟩ : Label) ∈ labelsOf ([.br ⟨.header, next + 1⟩, .label ⟨.header, next + 1⟩] ++ r.ops ++
        loopTail ⟨.loop, next + 1, h, arity bt⟩ (next + 1) r.h) := by
      simp [labelsOf_append, labelsOf]
    intro op hop l hl
    rcases List.mem_append.mp hop with hop | hop
    · rcases List.mem_append.mp hop with hop | hop
      · simp at hop
        rcases hop with rfl | rfl
        · simp [refsOf] at hl; subst hl; exact .inr (.inl hH)
        · simp [refsOf] at hl
      · exact RefsOK.lift ih (fun l hl => by simp [labelsOf_append, labelsOf, hl]) (fun _ => by simpa [Fr.label] using hH)
          (fun k hk => by simpa [targetsI] using hk) op hop l hl
    · rw [refsOf_loopTail op hop] at hl; simp at hl
  | .ite bt th el, fs, h, next, hf => by
    have ih1 := lowerS_refs th (⟨.ite, next + 1, h - 1, arity bt⟩ :: fs) (h - 1) (next + 1) (hf.push _)
    have ih2 := lowerS_refs el (⟨.ite, next + 1, h - 1, arity bt⟩ :: fs) (h - 1)
      (lowerS (⟨.ite, next + 1, h - 1, arity bt⟩ :: fs) (h - 1) (next + 1) th).next (hf.push _)
    rw [lowerI_ite]
    generalize lowerS (⟨.ite, next + 1, h - 1, arity bt⟩ :: fs) (h - 1) (next + 1) th = r1 at ih1 ih2 ⊢
    generalize lowerS (⟨.ite, next + 1, h - 1, arity bt⟩ :: fs) (h - 1) r1.next el = r2 at ih2 ⊢
    have hall : ∀ l, (l = ⟨.header, next + 1⟩ ∨ l = ⟨.els, next + 1⟩ ∨ l = ⟨.cont, next + 1⟩ ∨
        l ∈ labelsOf r1.ops ∨ l ∈ labelsOf r2.ops) →
        l ∈ labelsOf ([.brIf ⟨.header, next + 1⟩ ⟨.els, next + 1⟩ none, .label ⟨.header, next + 1⟩] ++ r1.ops ++
          iteMid ⟨.ite, next + 1, h - 1, arity bt⟩ (next + 1) r1.h ++ r2.ops ++
          iteTail ⟨.ite, next + 1, h - 1, arity bt⟩ (next + 1) r2.h) := by
      intro l hl
      simp only [labelsOf_append, labelsOf_iteMid, labelsOf_iteTail, List.mem_append]
      rcases hl with rfl | rfl | rfl | hl | hl
      · simp [labelsOf]
      · simp
      · simp
      · simp [hl]
      · simp [hl]
    intro op hop l hl
    rcases List.mem_append.mp hop with hop | hop
    · rcases List.mem_append.mp hop with hop | hop
      · rcases List.mem_append.mp hop with hop | hop
        · rcases List.mem_append.mp hop with hop | hop
          · simp at hop
            rcases hop with rfl | rfl
            · simp [refsOf] at hl
              rcases hl with rfl | rfl
              · exact .inr (.inl (hall _ (.inl rfl)))
              · exact .inr (.inl (hall _ (.inr (.inl rfl))))
            · simp [refsOf] at hl
          · exact RefsOK.lift ih1 (fun l hl => hall l (.inr (.inr (.inr (.inl hl)))))
              (fun _ => hall _ (.inr (.inr (.inl rfl)))) (fun k hk => by simp [targetsI, hk]) op hop l hl
        · have := refsOf_iteMid op hop l hl
          subst this
          exact .inr (.inl (hall _ (.inr (.inr (.inl rfl)))))
      · exact RefsOK.lift ih2 (fun l hl => hall l (.inr (.inr (.inr (.inr hl)))))
          (fun _ => hall _ (.inr (.inr (.inl rfl)))) (fun k hk => by simp [targetsI, hk]) op hop l hl
    · have := refsOf_iteTail op hop l hl
      subst this
      exact .inr (.inl (hall _ (.inr (.inr (.inl rfl)))))
theorem lowerS_refs : ∀ (is : List FI) (fs : List Fr) (h next : Nat), FuncLast fs →
    RefsOK (lowerS fs h next is).ops fs (targetsS · is)
  | [], fs, h, next, _ => by simp only [lowerS]; exact .nil _ _
  | i :: rest, fs, h, next, hf => by
    have ih1 := lowerI_refs i fs h next hf
    simp only [lowerS]
    split
    · intro op hop l hl
      rcases ih1 op hop l hl with h | h | ⟨k, hk, rfl⟩
      · exact .inl h
      · exact .inr (.inl h)
      · exact .inr (.inr ⟨k, by simp [targetsS, hk], rfl⟩)
    · rename_i h' hh
      have ih2 := lowerS_refs rest fs h' (lowerI fs h next i).next hf
      have hnt : i.terminator = false := by
        cases i <;> simp [lowerI] at hh <;> rfl
      exact RefsOK.append ih1 ih2 (fun k hk => by simp [targetsS, hk]) (fun k hk => by simp [targetsS, hnt, hk])
end

theorem mem_labelsOf_split {ops : List SymOp} {l : Label} (h : l ∈ labelsOf ops) :
    ∃ pre post, ops = pre ++ Op.label l :: post := by
  induction ops with
  | nil => simp [labelsOf] at h
  | cons o ops ih =>
    by_cases ho : o = .label l
    · exact ⟨[], ops, by simp [ho]⟩
    · have hm : l ∈ labelsOf ops := by
        cases o with
        | label l' =>
          simp only [labelsOf, List.mem_cons] at h
          rcases h with rfl | h
          · exact absurd rfl ho
          · exact h
        | _ => simpa [labelsOf] using h
      obtain ⟨pre, post, rfl⟩ := ih hm
      exact ⟨o :: pre, post, by simp⟩

theorem frameAt_top_label (f : Fn) (k : Nat) : (frameAt [f.frame] k).label.kind = .ret := by
  cases k with
  | zero => simp [frameAt, Fn.frame, Fr.label]
  | succ k => simp [frameAt, Fr.label]

/-- the references of a whole lowered function are the return label or defined labels -/
theorem lowerSym_refs (f : Fn) : ∀ op, op ∈ lowerSym f → ∀ l, l ∈ refsOf op → l.kind = .ret ∨ l ∈ labelsOf (lowerSym f) := by
  have ih := lowerS_refs f.body [f.frame] (f.params.length + f.locals.length) 1
    ⟨by simp, by simp [Fn.frame, List.getLastD]⟩
  unfold lowerSym
  generalize lowerS [f.frame] (f.params.length + f.locals.length) 1 f.body = r at ih ⊢
  intro op hop l hl
  rcases List.mem_append.mp hop with hop | hop
  · rcases List.mem_append.mp hop with hop | hop
    · simp only [List.mem_map] at hop
      obtain ⟨t, _, rfl⟩ := hop
      simp [refsOf] at hl
    · rcases ih op hop l hl with h | h | ⟨k, _, rfl⟩
      · exact .inl h
      · exact .inr (by simp [labelsOf_append, h])
      · exact .inl (frameAt_top_label f k)
  · left
    cases hrh : r.h with
    | none => rw [hrh] at hop; simp at hop
    | some h' =>
      rw [hrh] at hop
      simp only at hop
      rcases List.mem_append.mp hop with hop | hop
      · rw [refsOf_emitDrop _ op hop] at hl; simp at hl
      · simp at hop; subst hop; simp [refsOf] at hl; subst hl; rfl

/-- STRUCTURE: every branch target of the lowered code is the return address or the index of a `Label`
operation (carrying the label the branch was compiled for) -/
theorem lower_targets_valid (f : Fn) : ∀ op, op ∈ lower f → ∀ t, t ∈ refsOf op →
    t = retAddr ∨ ∃ l, (lower f)[t]? = some (.label l) := by
  intro op hop t ht
  simp only [lower, resolve, List.mem_map] at hop
  obtain ⟨sop, hsop, rfl⟩ := hop
  rw [refsOf_mapT, List.mem_map] at ht
  obtain ⟨l, hl, rfl⟩ := ht
  by_cases hk : l.kind = .ret
  · left; simp [resolveT, hk]
  · right
    rcases lowerSym_refs f sop hsop l hl with h | h
    · exact absurd h hk
    · obtain ⟨pre, post, hsplit⟩ := mem_labelsOf_split h
      have hat : At (lowerSym f) pre.length (.label l :: post) := ⟨pre, [], by simp [hsplit], rfl⟩
      have haddr := resolveT_at (lowerSym_nodup f) hat hk
      refine ⟨l, ?_⟩
      rw [haddr]
      have := resolve_get hat.get
      simpa [lower, Op.mapT] using this

end Wz.Proofs.FlatLower
