/-
C01 (front end with memory accesses): what the translation guarantees statically — `lowerMem f` is strict SSA in
one block (`WellFormedM`): no branch, the values defined are 0, 1, 2, … in order, every operand (also the cached
memory base / length / absolute addresses that `memOpSetup` reuses) is defined before its use.
Reuses the static lemmas of the base fragment (`C01_Front_Static`, `C01_Front_WFLower`).
-/
import Wz.Proofs.C01_Front_WFLower
import Wz.Proofs.C01_FrontMem_Setup

set_option linter.unusedSimpArgs false
set_option linter.unusedVariables false

namespace Wz.Proofs.FrontMem
open Wz.Spec Wz.Model.SsaPass Wz.Model.FrontendSL Wz.Model.FrontendMem Wz.Proofs.Front

theorem scopedM_append : ∀ (a b : List MInstr) (D : List (Val × Ty)),
    ScopedM D (a ++ b) ↔ ScopedM D a ∧ ScopedM (D ++ a.flatMap (·.typedResults)) b := by
  intro a
  induction a with
  | nil => intro b D; simp [ScopedM]
  | cons i a ih =>
    intro b D
    simp only [List.cons_append, ScopedM, ih, List.flatMap_cons, List.append_assoc]
    constructor
    · rintro ⟨h1, h2, h3, h4⟩; exact ⟨⟨h1, h2, h3⟩, h4⟩
    · rintro ⟨⟨h1, h2, h3⟩, h4⟩; exact ⟨h1, h2, h3, h4⟩

theorem scopedM_base : ∀ (is : List Instr) (D : List (Val × Ty)), ScopedM D (is.map .base) ↔ Scoped D is := by
  intro is
  induction is with
  | nil => intro D; simp [ScopedM, Scoped]
  | cons i is ih =>
    intro D
    simp only [List.map_cons, ScopedM, Scoped, MInstr.operands, MInstr.typedResults, ih]
    cases i <;> simp

theorem flatMap_base (is : List Instr) :
    (is.map MInstr.base).flatMap (·.typedResults) = is.flatMap (·.typedResults) := by
  induction is with
  | nil => rfl
  | cons i is ih =>
    show i.typedResults ++ (is.map MInstr.base).flatMap (·.typedResults) = i.typedResults ++ is.flatMap (·.typedResults)
    rw [ih]

/-- the static invariant: that of the base fragment, and everything the memory cache mentions is declared -/
structure SInvM (lt : List Ty) (D : List (Val × Ty)) (s : MS) (tys : List Ty) : Prop where
  sinv : SInv lt D s.ls tys
  ge : 2 ≤ s.ls.next
  mb : ∀ v : Nat, s.memBase = some v → v ∈ D.map (·.1)
  ml : ∀ v : Nat, s.memLen = some v → v ∈ D.map (·.1)
  bd : ∀ b bound a : Nat, (b, bound, a) ∈ s.bounds → b ∈ D.map (·.1) ∧ a ∈ D.map (·.1)

/-- a list of instructions emitted from state `s` (declared: `D`) to state `s'` -/
structure Emit (lt : List Ty) (D : List (Val × Ty)) (l : List MInstr) (s' : MS) (tys' : List Ty) : Prop where
  nobr : ∀ j ∈ l, j.isBranch = false
  sc : ScopedM D l
  inv : SInvM lt (D ++ l.flatMap (·.typedResults)) s' tys'

variable {lt : List Ty} {D : List (Val × Ty)} {s : MS} {tys tys' : List Ty}

theorem Emit.nil (h : SInvM lt D s tys) : Emit lt D [] s tys :=
  ⟨fun _ hj => (by cases hj), trivial, by simpa using h⟩

theorem Emit.comp {l1 l2 : List MInstr} {s1 s2 : MS} {tys1 tys2 : List Ty} (e1 : Emit lt D l1 s1 tys1)
    (e2 : Emit lt (D ++ l1.flatMap (·.typedResults)) l2 s2 tys2) : Emit lt D (l1 ++ l2) s2 tys2 := by
  refine ⟨?_, (scopedM_append _ _ _).mpr ⟨e1.sc, e2.sc⟩, ?_⟩
  · intro j hj
    rcases List.mem_append.mp hj with h | h
    · exact e1.nobr j h
    · exact e2.nobr j h
  · simpa [List.flatMap_append, List.append_assoc] using e2.inv

theorem mem_dom_mono {D : List (Val × Ty)} (X : List (Val × Ty)) {v : Nat} (h : v ∈ D.map (·.1)) :
    v ∈ (D ++ X).map (·.1) := by
  rw [List.map_append]; exact List.mem_append_left _ h

theorem SInvM.dom_lt (h : SInvM lt D s tys) {v : Nat} (hv : v < s.ls.next) : v ∈ D.map (·.1) := by
  rw [h.sinv.dom]; exact List.mem_range.mpr hv

/-- a new value is declared (not pushed) -/
theorem SInvM.fresh (h : SInvM lt D s tys) (t : Ty) : SInvM lt (D ++ [(s.ls.next, t)]) (s.bump 1) tys :=
  ⟨h.sinv.fresh t, by simp only [MS.bump]; have := h.ge; omega, fun v hv => mem_dom_mono _ (h.mb v hv),
    fun v hv => mem_dom_mono _ (h.ml v hv),
    fun b bound a hm => ⟨mem_dom_mono _ (h.bd b bound a hm).1, mem_dom_mono _ (h.bd b bound a hm).2⟩⟩

/-- one instruction that defines the next value -/
theorem Emit.one (h : SInvM lt D s tys) (j : MInstr) (t : Ty) (hbr : j.isBranch = false)
    (hres : j.typedResults = [(s.ls.next, t)]) (hops : ∀ o ∈ j.operands, o ∈ D.map (·.1))
    (hshift : match j with
       | .base (.bin op _ ty x _) => isShift op → (x, ty) ∈ D
       | _ => True) :
    Emit lt D [j] (s.bump 1) tys := by
  refine ⟨?_, ⟨hops, hshift, trivial⟩, ?_⟩
  · intro j' hj'; rw [List.mem_singleton.mp hj']; exact hbr
  · simp only [List.flatMap_cons, List.flatMap_nil, List.append_nil, hres]
    exact h.fresh t

/-- one instruction that defines nothing -/
theorem Emit.one0 (h : SInvM lt D s tys) (j : MInstr) (hbr : j.isBranch = false) (hres : j.typedResults = [])
    (hops : ∀ o ∈ j.operands, o ∈ D.map (·.1))
    (hshift : match j with
       | .base (.bin op _ ty x _) => isShift op → (x, ty) ∈ D
       | _ => True) :
    Emit lt D [j] s tys := by
  refine ⟨?_, ⟨hops, hshift, trivial⟩, ?_⟩
  · intro j' hj'; rw [List.mem_singleton.mp hj']; exact hbr
  · simp only [List.flatMap_cons, List.flatMap_nil, List.append_nil, hres]
    exact h

theorem not_shift_iadd : ¬ isShift .iadd := by
  intro h; rcases h with h | h | h <;> cases h

theorem static_getMemLen (h : SInvM lt D s tys) :
    Emit lt D (getMemLen s).1 (getMemLen s).2.2 tys ∧
    (getMemLen s).2.1 ∈ (D ++ (getMemLen s).1.flatMap (·.typedResults)).map (·.1) ∧
    (getMemLen s).2.2.ls.stack = s.ls.stack ∧ (getMemLen s).2.2.ls.locals = s.ls.locals ∧
    (getMemLen s).2.2.bounds = s.bounds := by
  unfold getMemLen
  cases hm : s.memLen with
  | some v => exact ⟨Emit.nil h, by simpa using h.ml v hm, rfl, rfl, rfl⟩
  | none =>
    simp only
    have hge := h.ge
    have e := Emit.one h (.extload .uload32 s.ls.next .i64 moduleCtx offMemLen) .i64 rfl rfl
      (by intro o ho
          simp only [MInstr.operands, List.mem_singleton] at ho
          subst ho
          exact h.dom_lt (by simp only [moduleCtx]; omega)) trivial
    refine ⟨⟨e.nobr, e.sc, ?_⟩, ?_, rfl, rfl, rfl⟩
    · obtain ⟨hb, hg, hmb, hml, hbd⟩ := e.inv
      refine ⟨hb, hg, hmb, ?_, hbd⟩
      intro v hv
      simp only [Option.some.injEq] at hv
      subst hv
      simp [MInstr.typedResults]
    · simp [MInstr.typedResults]

theorem static_getMemBase (h : SInvM lt D s tys) :
    Emit lt D (getMemBase s).1 (getMemBase s).2.2 tys ∧
    (getMemBase s).2.1 ∈ (D ++ (getMemBase s).1.flatMap (·.typedResults)).map (·.1) ∧
    (getMemBase s).2.2.ls.stack = s.ls.stack ∧ (getMemBase s).2.2.ls.locals = s.ls.locals ∧
    (getMemBase s).2.2.bounds = s.bounds := by
  unfold getMemBase
  cases hm : s.memBase with
  | some v => exact ⟨Emit.nil h, by simpa using h.mb v hm, rfl, rfl, rfl⟩
  | none =>
    simp only
    have hge := h.ge
    have e := Emit.one h (.base (.load s.ls.next .i64 moduleCtx offMemBase)) .i64 rfl rfl
      (by intro o ho
          simp only [MInstr.operands, Instr.operands, List.mem_singleton] at ho
          subst ho
          exact h.dom_lt (by simp only [moduleCtx]; omega)) trivial
    refine ⟨⟨e.nobr, e.sc, ?_⟩, ?_, rfl, rfl, rfl⟩
    · obtain ⟨hb, hg, hmb, hml, hbd⟩ := e.inv
      refine ⟨hb, hg, ?_, hml, hbd⟩
      intro v hv
      simp only [Option.some.injEq] at hv
      subst hv
      simp [MInstr.typedResults, Instr.typedResults]
    · simp [MInstr.typedResults, Instr.typedResults]

theorem getMemLen_next (t : MS) : t.ls.next ≤ (getMemLen t).2.2.ls.next := by
  unfold getMemLen; split
  · exact Nat.le_refl _
  · show t.ls.next ≤ t.ls.next + 1; omega

theorem getMemBase_next (t : MS) : t.ls.next ≤ (getMemBase t).2.2.ls.next := by
  unfold getMemBase; split
  · exact Nat.le_refl _
  · show t.ls.next ≤ t.ls.next + 1; omega

theorem SInvM.addBound (h : SInvM lt D s tys) {b ceil a : Nat} (hb : b ∈ D.map (·.1)) (ha : a ∈ D.map (·.1)) :
    SInvM lt D { s with bounds := (b, ceil, a) :: s.bounds } tys := by
  refine ⟨h.sinv, h.ge, h.mb, h.ml, ?_⟩
  intro b' bound' a' hm
  rcases List.mem_cons.mp hm with heq | hm
  · simp only [Prod.mk.injEq] at heq
    obtain ⟨rfl, rfl, rfl⟩ := heq
    exact ⟨hb, ha⟩
  · exact h.bd b' bound' a' hm

/-- what `memOpSetup` returns statically -/
def SetupStatic (lt : List Ty) (D : List (Val × Ty)) (s : MS) (tys : List Ty) (m : List MInstr × Val × MS) : Prop :=
  Emit lt D m.1 m.2.2 tys ∧ m.2.1 ∈ (D ++ m.1.flatMap (·.typedResults)).map (·.1) ∧
    m.2.2.ls.stack = s.ls.stack ∧ m.2.2.ls.locals = s.ls.locals

theorem static_memCheck (h : SInvM lt D s tys) (b : Nat) (hb : b ∈ D.map (·.1)) (ceil : Nat) (addr? : Option Val)
    (ha : ∀ a0 : Nat, addr? = some a0 → a0 ∈ D.map (·.1)) :
    SetupStatic lt D s tys (memCheck s b ceil addr?) := by
  have hge := h.ge
  have e1 := Emit.one h (.base (.iconst s.ls.next .i64 ceil)) .i64 rfl rfl (fun o ho => by cases ho) trivial
  have e2 := Emit.one e1.inv (.base (.un .uextend (s.ls.next + 1) .i64 b)) .i64 rfl rfl
    (by intro o ho
        simp only [MInstr.operands, Instr.operands, List.mem_singleton] at ho
        subst ho
        exact mem_dom_mono _ hb) trivial
  rw [bump_bump, show s.bump (1 + 1) = s.bump 2 from rfl] at e2
  have e12 := e1.comp e2
  obtain ⟨e3, hlen3, hstk3, hloc3, hbd3⟩ := static_getMemLen e12.inv
  have hk := getMemLen_next (s.bump 2)
  generalize hL : getMemLen (s.bump 2) = L at e3 hlen3 hstk3 hloc3 hbd3 hk
  have hk' : s.ls.next + 2 ≤ L.2.2.ls.next := hk
  have e123 := e12.comp e3
  have e4 := Emit.one e123.inv (.base (.bin .iadd L.2.2.ls.next .i64 (s.ls.next + 1) s.ls.next)) .i64 rfl rfl
    (by intro o ho
        simp only [MInstr.operands, Instr.operands, List.mem_cons, List.mem_nil_iff, or_false] at ho
        rcases ho with rfl | rfl
        · exact e123.inv.dom_lt (by omega)
        · exact e123.inv.dom_lt (by omega)) (fun hsh => absurd hsh not_shift_iadd)
  have e1234 := e123.comp e4
  have e5 := Emit.one e1234.inv (.base (.icmp (L.2.2.ls.next + 1) .i64 .ult L.2.1 L.2.2.ls.next)) .i32 rfl rfl
    (by intro o ho
        simp only [MInstr.operands, Instr.operands, List.mem_cons, List.mem_nil_iff, or_false] at ho
        rcases ho with rfl | rfl
        · have := mem_dom_mono ([MInstr.base (.bin .iadd L.2.2.ls.next .i64 (s.ls.next + 1) s.ls.next)].flatMap
            (·.typedResults)) hlen3
          simpa [List.flatMap_append, List.append_assoc] using this
        · exact e1234.inv.dom_lt (by show L.2.2.ls.next < L.2.2.ls.next + 1; omega)) trivial
  rw [bump_bump, show L.2.2.bump (1 + 1) = L.2.2.bump 2 from rfl] at e5
  have e12345 := e1234.comp e5
  have e6 := Emit.one0 e12345.inv (.base (.exitIf execCtx (L.2.2.ls.next + 1) codeMemOOB)) rfl rfl
    (by intro o ho
        simp only [MInstr.operands, Instr.operands, List.mem_cons, List.mem_nil_iff, or_false] at ho
        rcases ho with rfl | rfl
        · exact e12345.inv.dom_lt (by show (0 : Nat) < L.2.2.ls.next + 2; omega)
        · exact e12345.inv.dom_lt (by show L.2.2.ls.next + 1 < L.2.2.ls.next + 2; omega)) trivial
  have eall := e12345.comp e6
  have hbD : ∀ X : List (Val × Ty), b ∈ (D ++ X).map (·.1) := fun X => mem_dom_mono X hb
  cases addr? with
  | some a0 =>
    have ha0 := ha a0 rfl
    have hinv' := eall.inv.addBound (b := b) (ceil := ceil) (a := a0) (hbD _) (mem_dom_mono _ ha0)
    refine ⟨?_, ?_, ?_, ?_⟩
    · have e' : Emit lt D _ _ tys := ⟨eall.nobr, eall.sc, hinv'⟩
      simpa only [memCheck, hL, List.append_assoc, List.cons_append, List.nil_append] using e'
    · exact mem_dom_mono _ ha0
    · simp only [memCheck, hL]
      show L.2.2.ls.stack = s.ls.stack
      rw [hstk3]; rfl
    · simp only [memCheck, hL]
      show L.2.2.ls.locals = s.ls.locals
      rw [hloc3]; rfl
  | none =>
    obtain ⟨e7, hbase7, hstk7, hloc7, hbd7⟩ := static_getMemBase eall.inv
    have hj := getMemBase_next (L.2.2.bump 2)
    generalize hG : getMemBase (L.2.2.bump 2) = G at e7 hbase7 hstk7 hloc7 hbd7 hj
    have hj' : L.2.2.ls.next + 2 ≤ G.2.2.ls.next := hj
    have e17 := eall.comp e7
    have e8 := Emit.one e17.inv (.base (.bin .iadd G.2.2.ls.next .i64 G.2.1 (s.ls.next + 1))) .i64 rfl rfl
      (by intro o ho
          simp only [MInstr.operands, Instr.operands, List.mem_cons, List.mem_nil_iff, or_false] at ho
          rcases ho with rfl | rfl
          · simpa [List.flatMap_append, List.append_assoc] using hbase7
          · exact e17.inv.dom_lt (by omega)) (fun hsh => absurd hsh not_shift_iadd)
    have e18 := e17.comp e8
    have hjD : G.2.2.ls.next ∈ (D ++ ((([MInstr.base (.iconst s.ls.next .i64 ceil)] ++
        [MInstr.base (.un .uextend (s.ls.next + 1) .i64 b)] ++ L.1 ++
        [MInstr.base (.bin .iadd L.2.2.ls.next .i64 (s.ls.next + 1) s.ls.next)] ++
        [MInstr.base (.icmp (L.2.2.ls.next + 1) .i64 .ult L.2.1 L.2.2.ls.next)] ++
        [MInstr.base (.exitIf execCtx (L.2.2.ls.next + 1) codeMemOOB)] ++ G.1) ++
        [MInstr.base (.bin .iadd G.2.2.ls.next .i64 G.2.1 (s.ls.next + 1))])).flatMap (·.typedResults)).map (·.1) :=
      e18.inv.dom_lt (by show G.2.2.ls.next < G.2.2.ls.next + 1; omega)
    have hinv' := e18.inv.addBound (b := b) (ceil := ceil) (a := G.2.2.ls.next) (hbD _) hjD
    refine ⟨?_, ?_, ?_, ?_⟩
    · have e' : Emit lt D _ _ tys := ⟨e18.nobr, e18.sc, hinv'⟩
      simp only [List.append_assoc, List.cons_append, List.nil_append] at e'
      simp only [memCheck, hL, hG, List.append_assoc, List.cons_append, List.nil_append]
      exact e'
    · simp only [List.append_assoc, List.cons_append, List.nil_append] at hjD
      simp only [memCheck, hL, hG, List.append_assoc, List.cons_append, List.nil_append]
      exact hjD
    · simp only [memCheck, hL, hG]
      show G.2.2.ls.stack = s.ls.stack
      rw [hstk7]; show L.2.2.ls.stack = _; rw [hstk3]; rfl
    · simp only [memCheck, hL, hG]
      show G.2.2.ls.locals = s.ls.locals
      rw [hloc7]; show L.2.2.ls.locals = _; rw [hloc3]; rfl

theorem static_memOpSetup (h : SInvM lt D s tys) (b : Nat) (hb : b ∈ D.map (·.1)) (ceil : Nat) :
    SetupStatic lt D s tys (memOpSetup s b ceil) := by
  unfold memOpSetup
  cases hl : lookupBound s.bounds b with
  | none => exact static_memCheck h b hb ceil none (fun _ h0 => by cases h0)
  | some e =>
    obtain ⟨bound, a0⟩ := e
    have ha0 := (h.bd b bound a0 (lookupBound_mem _ _ _ hl)).2
    simp only
    split
    · exact ⟨Emit.nil h, by simpa using ha0, rfl, rfl⟩
    · exact static_memCheck h b hb ceil (some a0) (fun a1 h1 => by cases h1; exact ha0)

/-- one instruction that defines the next value and pushes it -/
theorem Emit.onePush (h : SInvM lt D s tys) (j : MInstr) (t : Ty) (hbr : j.isBranch = false)
    (hres : j.typedResults = [(s.ls.next, t)]) (hops : ∀ o ∈ j.operands, o ∈ D.map (·.1))
    (hshift : match j with
       | .base (.bin op _ ty x _) => isShift op → (x, ty) ∈ D
       | _ => True) :
    Emit lt D [j] { s with ls := s.ls.pushNew t } (t :: tys) := by
  refine ⟨?_, ⟨hops, hshift, trivial⟩, ?_⟩
  · intro j' hj'; rw [List.mem_singleton.mp hj']; exact hbr
  · simp only [List.flatMap_cons, List.flatMap_nil, List.append_nil, hres]
    exact ⟨h.sinv.pushNew t, by simp only [LS.pushNew]; have := h.ge; omega,
      fun v hv => mem_dom_mono _ (h.mb v hv), fun v hv => mem_dom_mono _ (h.ml v hv),
      fun b bound a hm => ⟨mem_dom_mono _ (h.bd b bound a hm).1, mem_dom_mono _ (h.bd b bound a hm).2⟩⟩

theorem mem_fst {D : List (Val × Ty)} {p : Val × Ty} (h : p ∈ D) : p.1 ∈ D.map (·.1) :=
  List.mem_map.mpr ⟨p, h, rfl⟩

theorem static_baseM (j : SI) (hj : j ≠ .ret) (h : SInvM lt D s tys) (htc : tcStep lt j tys = some tys') :
    Emit lt D (lowerMI (.base j) s).1 (lowerMI (.base j) s).2 tys' := by
  obtain ⟨h1, h2, h3⟩ := static_step j hj h.sinv htc
  refine ⟨?_, ?_, ?_⟩
  · intro i hi
    simp only [lowerMI, List.mem_map] at hi
    obtain ⟨i0, hi0, rfl⟩ := hi
    simp only [MInstr.isBranch, h1 i0 hi0, Option.isSome_none]
  · simp only [lowerMI]; exact (scopedM_base _ _).mpr h2
  · simp only [lowerMI, flatMap_base]
    exact ⟨h3, Nat.le_trans h.ge (lowerI_next j s.ls), fun v hv => mem_dom_mono _ (h.mb v hv),
      fun v hv => mem_dom_mono _ (h.ml v hv),
      fun b bound a hm => ⟨mem_dom_mono _ (h.bd b bound a hm).1, mem_dom_mono _ (h.bd b bound a hm).2⟩⟩

theorem static_memSize (h : SInvM lt D s tys) : Emit lt D (lowerMI .memSize s).1 (lowerMI .memSize s).2 (.i32 :: tys) := by
  have hge := h.ge
  have e1 := Emit.one h (.base (.load s.ls.next .i32 moduleCtx offMemLen)) .i32 rfl rfl
    (by intro o ho
        simp only [MInstr.operands, Instr.operands, List.mem_singleton] at ho
        subst ho
        exact h.dom_lt (by show (1 : Nat) < _; omega)) trivial
  have e2 := Emit.one e1.inv (.base (.iconst (s.ls.next + 1) .i32 pageBits)) .i32 rfl rfl (fun o ho => by cases ho) trivial
  have e12 := e1.comp e2
  have e3 := Emit.onePush e12.inv (.base (.bin .ushr (s.ls.next + 2) .i32 s.ls.next (s.ls.next + 1))) .i32 rfl rfl
    (by intro o ho
        simp only [MInstr.operands, Instr.operands, List.mem_cons, List.mem_nil_iff, or_false] at ho
        rcases ho with rfl | rfl
        · exact e12.inv.dom_lt (by show s.ls.next < s.ls.next + 1 + 1; omega)
        · exact e12.inv.dom_lt (by show s.ls.next + 1 < s.ls.next + 1 + 1; omega))
    (fun _ => by simp [MInstr.typedResults, Instr.typedResults])
  have := e12.comp e3
  simpa [lowerMI, LS.pushNew, MS.bump, Nat.add_assoc] using this

theorem loadInstr_static (k : LoadK) (r addr off : Nat) :
    (loadInstr k r addr off).isBranch = false ∧ (loadInstr k r addr off).typedResults = [(r, k.ty)] ∧
    (loadInstr k r addr off).operands = [addr] ∧
    (match loadInstr k r addr off with
       | .base (.bin op _ ty x _) => ∀ D : List (Val × Ty), isShift op → (x, ty) ∈ D
       | _ => True) := by
  cases k <;> exact ⟨rfl, rfl, rfl, trivial⟩

theorem static_load (k : LoadK) (off : Nat) (h : SInvM lt D s tys) (htc : tcStepM lt (.load k off) tys = some tys') :
    Emit lt D (lowerMI (.load k off) s).1 (lowerMI (.load k off) s).2 tys' := by
  match tys, htc, h with
  | [], e, _ => simp [tcStepM] at e
  | t :: tys0, e, h =>
    simp only [tcStepM] at e
    split at e
    · rename_i hcond
      obtain ⟨rfl, _⟩ := hcond
      simp only [Option.some.injEq] at e; subst e
      obtain ⟨vb, srest, hs1, hvD, h1⟩ := h.sinv.uncons
      have hpeek : s.ls.peek = (vb, .i32) := by simp only [LS.peek, hs1, List.headD_cons]
      have hpop : s.ls.pop.2 = { s.ls with stack := srest } := by simp only [LS.pop, hs1, List.tail_cons]
      have hm1 : SInvM lt D { s with ls := s.ls.pop.2 } tys0 := by
        refine ⟨by rw [hpop]; exact h1, by rw [hpop]; exact h.ge, h.mb, h.ml, h.bd⟩
      obtain ⟨eS, haddr, hstk, hloc⟩ := static_memOpSetup hm1 vb (mem_fst hvD) (off + k.bytes)
      simp only [lowerMI, hpeek]
      generalize memOpSetup { s with ls := s.ls.pop.2 } vb (off + k.bytes) = M at eS haddr hstk hloc
      obtain ⟨hl1, hl2, hl3, hl4⟩ := loadInstr_static k M.2.2.ls.next M.2.1 off
      have eL := Emit.onePush eS.inv (loadInstr k M.2.2.ls.next M.2.1 off) k.ty hl1 hl2
        (by intro o ho; rw [hl3] at ho; simp only [List.mem_singleton] at ho; subst ho; exact haddr)
        (by revert hl4
            cases hli : loadInstr k M.2.2.ls.next M.2.1 off with
            | extload => intro _; trivial
            | base i => cases i <;> intro hl4 <;> first | trivial | exact hl4 _)
      exact eS.comp eL
    · cases e

theorem static_store (k : StoreK) (off : Nat) (h : SInvM lt D s tys)
    (htc : tcStepM lt (.store k off) tys = some tys') :
    Emit lt D (lowerMI (.store k off) s).1 (lowerMI (.store k off) s).2 tys' := by
  match tys, htc, h with
  | [], e, _ => simp [tcStepM] at e
  | [_], e, _ => simp [tcStepM] at e
  | tv :: ta :: tys0, e, h =>
    simp only [tcStepM] at e
    split at e
    · rename_i hcond
      obtain ⟨rfl, rfl, _⟩ := hcond
      simp only [Option.some.injEq] at e; subst e
      obtain ⟨vv, srest1, hs1, hvvD, h1⟩ := h.sinv.uncons
      obtain ⟨vb, srest, hs2, hvbD, h2⟩ := h1.uncons
      simp only at hs2 h2
      have hpeek : s.ls.peek = (vv, k.ty) := by simp only [LS.peek, hs1, List.headD_cons]
      have hpeek2 : s.ls.pop.2.peek = (vb, .i32) := by
        simp only [LS.peek, LS.pop, hs1, hs2, List.tail_cons, List.headD_cons]
      have hpop : s.ls.pop.2.pop.2 = { s.ls with stack := srest } := by
        simp only [LS.pop, hs1, hs2, List.tail_cons]
      have hm1 : SInvM lt D { s with ls := s.ls.pop.2.pop.2 } tys0 := by
        refine ⟨by rw [hpop]; exact h2, by rw [hpop]; exact h.ge, h.mb, h.ml, h.bd⟩
      obtain ⟨eS, haddr, hstk, hloc⟩ := static_memOpSetup hm1 vb (mem_fst hvbD) (off + k.bytes)
      simp only [lowerMI, hpeek, hpeek2]
      generalize memOpSetup { s with ls := s.ls.pop.2.pop.2 } vb (off + k.bytes) = M at eS haddr hstk hloc
      have eT := Emit.one0 eS.inv (.base (.store k.op k.ty vv M.2.1 off)) rfl rfl
        (by intro o ho
            simp only [MInstr.operands, Instr.operands, List.mem_cons, List.mem_nil_iff, or_false] at ho
            rcases ho with rfl | rfl
            · exact mem_dom_mono _ (mem_fst hvvD)
            · exact haddr) trivial
      exact eS.comp eT
    · cases e

theorem static_stepM (i : MI) (hi : i ≠ .base .ret) (h : SInvM lt D s tys) (htc : tcStepM lt i tys = some tys') :
    Emit lt D (lowerMI i s).1 (lowerMI i s).2 tys' := by
  cases i with
  | base j => exact static_baseM j (fun hj => hi (by rw [hj])) h htc
  | load k off => exact static_load k off h htc
  | store k off => exact static_store k off h htc
  | memSize =>
    simp only [tcStepM, Option.some.injEq] at htc
    subst htc
    exact static_memSize h

theorem static_retM (nres : Nat) (h : SInvM lt D s tys) :
    (∀ j ∈ [MInstr.base (.ret (s.ls.peekN nres))], j.isBranch = false) ∧
    ScopedM D [MInstr.base (.ret (s.ls.peekN nres))] ∧
    ∃ N, (D ++ [MInstr.base (.ret (s.ls.peekN nres))].flatMap (·.typedResults)).map (·.1) = List.range N := by
  obtain ⟨_, h2, N, h3⟩ := static_ret nres h.sinv
  refine ⟨?_, (scopedM_base [Instr.ret (s.ls.peekN nres)] D).mpr h2, N, ?_⟩
  · intro j hj; rw [List.mem_singleton.mp hj]; rfl
  · have := flatMap_base [Instr.ret (s.ls.peekN nres)]
    simp only [List.map_cons, List.map_nil] at this
    rw [this]; exact h3

theorem static_bodyM (res : List Ty) (nres : Nat) : ∀ (body : List MI) (s : MS) (tys : List Ty)
    (D : List (Val × Ty)), SInvM lt D s tys → tcBodyM lt res body tys = true →
    (∀ j ∈ lowerBodyM nres body s, j.isBranch = false) ∧ ScopedM D (lowerBodyM nres body s) ∧
    ∃ N, (D ++ (lowerBodyM nres body s).flatMap (·.typedResults)).map (·.1) = List.range N := by
  intro body
  induction body with
  | nil => intro s tys D h _; exact static_retM nres h
  | cons i is ih =>
    intro s tys D h htc
    by_cases hi : i = .base .ret
    · subst hi; exact static_retM nres h
    · have hlb : lowerBodyM nres (i :: is) s = (lowerMI i s).1 ++ lowerBodyM nres is (lowerMI i s).2 := by
        cases i with
        | base j => cases j <;> first | rfl | exact absurd rfl hi
        | load k off => rfl
        | store k off => rfl
        | memSize => rfl
      have htc' : ∃ tys', tcStepM lt i tys = some tys' ∧ tcBodyM lt res is tys' = true := by
        have key : ∀ (h : tcBodyM lt res (i :: is) tys = true),
            (match tcStepM lt i tys with | some s' => tcBodyM lt res is s' | none => false) = true := by
          intro h
          cases i with
          | base j => cases j <;> first | exact absurd rfl hi | exact h
          | load k off => exact h
          | store k off => exact h
          | memSize => exact h
        have h2 := key htc
        split at h2
        · rename_i tys' h; exact ⟨tys', h, h2⟩
        · cases h2
      obtain ⟨tys', hstep, hrest⟩ := htc'
      have e1 := static_stepM i hi h hstep
      obtain ⟨hbr2, hsc2, N, hN⟩ := ih _ _ _ e1.inv hrest
      rw [hlb]
      refine ⟨?_, (scopedM_append _ _ _).mpr ⟨e1.sc, hsc2⟩, N, ?_⟩
      · intro j hj
        rcases List.mem_append.mp hj with hj | hj
        · exact e1.nobr j hj
        · exact hbr2 j hj
      · simpa [List.flatMap_append, List.append_assoc] using hN

/-- the front end produces strict SSA on well-typed functions of the fragment -/
theorem lowerMem_wellFormed (f : FnM) (hwt : wellTypedM f = true) : WellFormedM (lowerMem f) := by
  have hz0 : ∀ t v, (({} : Zeros).get t = some v) → (v, t) ∈ entryParams f.sig := by
    intro t v h; cases t <;> cases h
  obtain ⟨hd1, hd2, hd3, hd4⟩ := declLocals_static f.sig.locals (f.sig.params.length + 2) {} (entryParams f.sig)
    (entryParams_dom f.sig) hz0
  obtain ⟨hspec1, _, _, hspec4⟩ := declLocals_spec f.sig.locals (f.sig.params.length + 2) {}
  have hpty : ∀ (ps : List Ty) (k : Nat),
      ((ps.zipIdx k).map (fun p => (p.2 + 2, p.1))).map (·.2) = ps := by
    intro ps
    induction ps with
    | nil => intro k; rfl
    | cons t ts ih => intro k; simp only [List.zipIdx_cons, List.map_cons, ih]
  have hinv : SInv (f.params ++ f.locals)
      (entryParams f.sig ++ (declLocals f.sig.locals (f.sig.params.length + 2) {}).1.flatMap (·.typedResults))
      (initLS f.sig).2 [] := by
    refine ⟨hd3, (fun _ hp => by cases hp), ?_, rfl, ?_⟩
    · intro p hp
      have hp' : p ∈ (entryParams f.sig).drop 2 ++ _ := hp
      rcases List.mem_append.mp hp' with hp' | hp'
      · exact List.mem_append_left _ (List.mem_of_mem_drop hp')
      · obtain ⟨t, ht, rfl⟩ := List.mem_map.mp hp'
        obtain ⟨v, hv⟩ := hspec4 t ht
        simp only [hv, Option.getD_some]
        exact hd4 t v hv
    · show (((entryParams f.sig).drop 2 ++ _).map _) = _
      rw [entryParams_eq]
      simp only [List.drop_succ_cons, List.drop_zero, List.map_append, hpty, List.map_map]
      congr 1
      exact List.map_id'' (fun _ => rfl) _
  have hinvM : SInvM (f.params ++ f.locals)
      (entryParams f.sig ++ ((initLS f.sig).1.map MInstr.base).flatMap (·.typedResults))
      { ls := (initLS f.sig).2 } [] := by
    rw [flatMap_base]
    refine ⟨hinv, ?_, ?_, ?_, ?_⟩
    · show 2 ≤ (declLocals f.sig.locals (f.sig.params.length + 2) {}).2.1
      omega
    · intro v h; cases h
    · intro v h; cases h
    · intro b bound a h; cases h
  obtain ⟨hb, hsc, N, hN⟩ := static_bodyM f.results f.results.length f.body _ _ _ hinvM hwt
  refine ⟨?_, ⟨N, ?_⟩, ?_⟩
  · intro j hj
    rcases List.mem_append.mp (show j ∈ (initLS f.sig).1.map MInstr.base ++ _ from hj) with hj | hj
    · obtain ⟨j0, hj0, rfl⟩ := List.mem_map.mp hj
      simp only [MInstr.isBranch, hd1 j0 hj0, Option.isSome_none]
    · exact hb j hj
  · rw [← hN]
    show (entryParams f.sig ++ ((initLS f.sig).1.map MInstr.base ++ _).flatMap (·.typedResults)).map (·.1) = _
    rw [List.flatMap_append, List.append_assoc]
  · exact (scopedM_append _ _ _).mpr ⟨(scopedM_base _ _).mpr hd2, hsc⟩

end Wz.Proofs.FrontMem
