/-
C01 (front end, structured control flow): the vocabulary of the simulation between the reference semantics and the
SSA run of a function accepted by `FrontendCFCheck.validate`: running from a position inside a block, the invariant
of the symbolic state, what a branch to a label must establish.
-/
import Wz.Model.FrontendCFCheck
import Wz.Proofs.C01_Front

namespace Wz.Proofs.FrontCF
open Wz.Spec Wz.Model.SsaPass Wz.Model.FrontendSL Wz.Model.FrontendCF Wz.Proofs.Front

/-- run from position `pos` of block `blk` in environment `env` (no memory, no calls) -/
def runPos (w : World) (g : Func) (fuel : Nat) (blk pos : Nat) (env : Val → Nat) : Outcome :=
  match execBody w [] ((instrsOf g blk).drop pos) (mk env) with
  | some (.goto b' args st') => runFrom w g fuel b' args st'
  | some (.ret vs st') => .values vs st'.mem st'.trace
  | some (.trap c st') => .trap c st'.mem st'.trace
  | _ => .error

/-- a point of the SSA run -/
structure Pt where
  blk : Nat
  pos : Nat
  env : Val → Nat

/-- from `a` the run reaches `b` (entering `k` blocks) -/
def Steps (w : World) (g : Func) (a b : Pt) : Prop :=
  ∃ k, ∀ fuel, runPos w g (fuel + k) a.blk a.pos a.env = runPos w g fuel b.blk b.pos b.env

/-- from `a` the run ends with outcome `o` (entering `k` blocks) -/
def Ends (w : World) (g : Func) (a : Pt) (o : Outcome) : Prop :=
  ∃ k, ∀ fuel, runPos w g (fuel + k) a.blk a.pos a.env = o

theorem Steps.refl (w : World) (g : Func) (a : Pt) : Steps w g a a := ⟨0, fun _ => rfl⟩

theorem Steps.trans {w : World} {g : Func} {a b c : Pt} (h1 : Steps w g a b) (h2 : Steps w g b c) : Steps w g a c := by
  obtain ⟨k1, h1⟩ := h1
  obtain ⟨k2, h2⟩ := h2
  refine ⟨k2 + k1, fun fuel => ?_⟩
  rw [← Nat.add_assoc, h1, h2]

theorem Steps.ends {w : World} {g : Func} {a b : Pt} {o : Outcome} (h1 : Steps w g a b) (h2 : Ends w g b o) :
    Ends w g a o := by
  obtain ⟨k1, h1⟩ := h1
  obtain ⟨k2, h2⟩ := h2
  refine ⟨k2 + k1, fun fuel => ?_⟩
  rw [← Nat.add_assoc, h1, h2]

/-- the invariant: the symbolic stack `stk` and the symbolic locals `vars` describe the frame `fr` of the reference
semantics in the SSA environment `env` -/
structure InvC (lt : List Ty) (stk : List TV) (vars : List (Option TV)) (fr : Wasm.Frame) (env : Val → Nat) :
    Prop where
  vals : stk.map (fun p => env p.1) = fr.stack
  rng : ∀ p ∈ stk, env p.1 < 2 ^ p.2.bits
  vlen : vars.length = lt.length
  llen : fr.locals.size = lt.length
  var : ∀ (x : Nat) (v : TV), vars[x]? = some (some v) → env v.1 = fr.locals[x]! ∧ lt[x]? = some v.2 ∧ env v.1 < 2 ^ v.2.bits

/-- what a branch to the label at depth `l` establishes, seen from the point `src`, when the reference semantics
leaves with the frame `fr'` -/
def BrOK (w : World) (cx : Ctx) (labs : List Lab) (l : Nat) (src : Pt) (fr' : Wasm.Frame) : Prop :=
  match labs[l]? with
  | none => False
  | some lab =>
    if lab.isRet then
      Ends w cx.g src (.values ((fr'.stack.take cx.res.length).reverse) [] [])
    else
      hasPred cx.g lab.tgt = true ∧
      ∃ env', Steps w cx.g src ⟨lab.tgt, 0, env'⟩ ∧
        InvC cx.lt (((paramsOf cx.g lab.tgt).take lab.tys.length).reverse ++ lab.outer) (entOf cx.ent lab.tgt)
          ⟨fr'.stack.take lab.tys.length ++ fr'.stack.drop (fr'.stack.length - lab.outer.length), fr'.locals⟩ env'

/-- the result of the reference semantics on a piece of code, related to the checker's result `r` and the SSA run
from `src` -/
def Res (w : World) (cx : Ctx) (labs : List Lab) (src : Pt) (r : CR) (out : Wasm.Ctl × Wasm.Frame × Wasm.Store)
    (st : Wasm.Store) : Prop :=
  out.2.2 = st ∧
  match out.1 with
  | .next => ∃ c' env', r = .live c' ∧ Steps w cx.g src ⟨c'.blk, c'.pos, env'⟩ ∧ InvC cx.lt c'.stack c'.vars out.2.1 env'
  | .br l => BrOK w cx labs l src out.2.1
  | .ret => Ends w cx.g src (.values ((out.2.1.stack.take cx.res.length).reverse) [] [])
  | .trap k => Ends w cx.g src (.trap (trapCodeCF k) [] [])
  | .exhausted => True

/-! ### positions inside a block -/

theorem drop_of_expect {g : Func} {c : CS} {is : List Instr} (h : expect g c is = true) :
    (instrsOf g c.blk).drop c.pos = is ++ (instrsOf g c.blk).drop (c.pos + is.length) := by
  simp only [expect, beq_iff_eq] at h
  have h1 := List.take_append_drop is.length ((instrsOf g c.blk).drop c.pos)
  rw [h, List.drop_drop] at h1
  exact h1.symm

theorem drop_of_getElem? {l : List Instr} {p : Nat} {i : Instr} (h : l[p]? = some i) :
    l.drop p = i :: l.drop (p + 1) := by
  have hp : p < l.length := by
    rcases Nat.lt_or_ge p l.length with h' | h'
    · exact h'
    · rw [List.getElem?_eq_none h'] at h; cases h
  rw [List.drop_eq_getElem_cons hp]
  congr 1
  rw [List.getElem?_eq_getElem hp] at h
  exact Option.some.inj h

/-- instructions that only continue: the position advances -/
theorem runPos_straight (w : World) (g : Func) (blk pos : Nat) (is : List Instr) (env env' : Val → Nat)
    (hdrop : (instrsOf g blk).drop pos = is ++ (instrsOf g blk).drop (pos + is.length))
    (hexec : ∀ rest, execBody w [] (is ++ rest) (mk env) = execBody w [] rest (mk env')) (fuel : Nat) :
    runPos w g fuel blk pos env = runPos w g fuel blk (pos + is.length) env' := by
  simp only [runPos, hdrop, hexec]

theorem steps_straight (w : World) (g : Func) (blk pos : Nat) (is : List Instr) (env env' : Val → Nat)
    (hdrop : (instrsOf g blk).drop pos = is ++ (instrsOf g blk).drop (pos + is.length))
    (hexec : ∀ rest, execBody w [] (is ++ rest) (mk env) = execBody w [] rest (mk env')) :
    Steps w g ⟨blk, pos, env⟩ ⟨blk, pos + is.length, env'⟩ :=
  ⟨0, fun fuel => runPos_straight w g blk pos is env env' hdrop hexec fuel⟩

/-- an instruction that traps ends the run -/
theorem ends_trap (w : World) (g : Func) (blk pos : Nat) (is : List Instr) (env : Val → Nat) (code : Nat)
    (hdrop : (instrsOf g blk).drop pos = is ++ (instrsOf g blk).drop (pos + is.length))
    (hexec : ∀ rest, execBody w [] (is ++ rest) (mk env) = some (.trap code (mk env))) :
    Ends w g ⟨blk, pos, env⟩ (.trap code [] []) :=
  ⟨0, fun fuel => by simp only [runPos, hdrop, hexec]; rfl⟩

theorem env_mk (env : Val → Nat) : (fun v => (mk env).env (res [] v)) = env := rfl

theorem mk_env_res (env : Val → Nat) (c : Val) : (mk env).env (res [] c) = env c := rfl

theorem ends_ret (w : World) (g : Func) (blk pos : Nat) (vs : List Val) (env : Val → Nat)
    (h : (instrsOf g blk)[pos]? = some (.ret vs)) :
    Ends w g ⟨blk, pos, env⟩ (.values (vs.map env) [] []) :=
  ⟨0, fun fuel => by simp only [runPos, drop_of_getElem? h, execBody, env_mk, execInstr]; rfl⟩

theorem ends_exit (w : World) (g : Func) (blk pos : Nat) (c code : Nat) (env : Val → Nat)
    (h : (instrsOf g blk)[pos]? = some (.exit c code)) :
    Ends w g ⟨blk, pos, env⟩ (.trap code [] []) :=
  ⟨0, fun fuel => by simp only [runPos, drop_of_getElem? h, execBody, env_mk, execInstr]; rfl⟩

/-- entering a block: the parameters are bound -/
theorem runFrom_enter (w : World) (g : Func) (hal : g.alias = []) (fuel : Nat) (t : Nat) (T : Block) (vs : List Nat)
    (env : Val → Nat) (hT : g.findBlock t = some T) (hlen : T.params.length = vs.length) :
    runFrom w g (fuel + 1) t vs (mk env) = runPos w g fuel t 0 (bindVals env T.params vs) := by
  simp only [runFrom, hT, hlen, ne_eq, not_true_eq_false, if_false, hal, runPos, instrsOf, Option.map_some,
    Option.getD_some, List.drop_zero]
  rfl

theorem steps_jump (w : World) (g : Func) (hal : g.alias = []) (blk pos : Nat) (t : Nat) (args : List Val)
    (env : Val → Nat) (T : Block) (h : (instrsOf g blk)[pos]? = some (.jump t args))
    (hT : g.findBlock t = some T) (hlen : T.params.length = args.length) :
    Steps w g ⟨blk, pos, env⟩ ⟨t, 0, bindVals env T.params (args.map env)⟩ :=
  ⟨1, fun fuel => by
    have : runPos w g (fuel + 1) blk pos env = runFrom w g (fuel + 1) t (args.map env) (mk env) := by
      simp only [runPos, drop_of_getElem? h, execBody, env_mk, execInstr]
    rw [this, runFrom_enter w g hal fuel t T _ env hT (by simp [hlen])]⟩

theorem steps_brnz_taken (w : World) (g : Func) (hal : g.alias = []) (blk pos : Nat) (c t : Nat) (args : List Val)
    (env : Val → Nat) (T : Block) (h : (instrsOf g blk)[pos]? = some (.brnz c t args)) (hc : env c ≠ 0)
    (hT : g.findBlock t = some T) (hlen : T.params.length = args.length) :
    Steps w g ⟨blk, pos, env⟩ ⟨t, 0, bindVals env T.params (args.map env)⟩ :=
  ⟨1, fun fuel => by
    have : runPos w g (fuel + 1) blk pos env = runFrom w g (fuel + 1) t (args.map env) (mk env) := by
      simp only [runPos, drop_of_getElem? h, execBody, env_mk, execInstr, mk_env_res, hc, ne_eq, not_false_eq_true, if_true]
    rw [this, runFrom_enter w g hal fuel t T _ env hT (by simp [hlen])]⟩

theorem steps_brnz_not (w : World) (g : Func) (blk pos : Nat) (c t : Nat) (args : List Val)
    (env : Val → Nat) (h : (instrsOf g blk)[pos]? = some (.brnz c t args)) (hc : env c = 0) :
    Steps w g ⟨blk, pos, env⟩ ⟨blk, pos + 1, env⟩ :=
  ⟨0, fun fuel => by
    simp only [runPos, drop_of_getElem? h, execBody, env_mk, execInstr, mk_env_res, hc, ne_eq, not_true_eq_false, if_false,
      Nat.add_zero]⟩

theorem steps_brz_taken (w : World) (g : Func) (hal : g.alias = []) (blk pos : Nat) (c t : Nat) (args : List Val)
    (env : Val → Nat) (T : Block) (h : (instrsOf g blk)[pos]? = some (.brz c t args)) (hc : env c = 0)
    (hT : g.findBlock t = some T) (hlen : T.params.length = args.length) :
    Steps w g ⟨blk, pos, env⟩ ⟨t, 0, bindVals env T.params (args.map env)⟩ :=
  ⟨1, fun fuel => by
    have : runPos w g (fuel + 1) blk pos env = runFrom w g (fuel + 1) t (args.map env) (mk env) := by
      simp only [runPos, drop_of_getElem? h, execBody, env_mk, execInstr, mk_env_res, hc, if_true]
    rw [this, runFrom_enter w g hal fuel t T _ env hT (by simp [hlen])]⟩

theorem steps_brz_not (w : World) (g : Func) (blk pos : Nat) (c t : Nat) (args : List Val)
    (env : Val → Nat) (h : (instrsOf g blk)[pos]? = some (.brz c t args)) (hc : env c ≠ 0) :
    Steps w g ⟨blk, pos, env⟩ ⟨blk, pos + 1, env⟩ :=
  ⟨0, fun fuel => by
    simp only [runPos, drop_of_getElem? h, execBody, env_mk, execInstr, mk_env_res, hc, if_false, Nat.add_zero]⟩

/-- a branch instruction found through `instrsOf` witnesses `hasPred` -/
theorem hasPred_of_instr {g : Func} {blk pos : Nat} {i : Instr} {t : Nat} {args : List Val}
    (h : (instrsOf g blk)[pos]? = some i) (hb : i.branch? = some (t, args)) : hasPred g t = true := by
  unfold instrsOf at h
  cases hB : g.findBlock blk with
  | none => simp [hB] at h
  | some B =>
    simp only [hB, Option.map_some, Option.getD_some] at h
    have hmem : B ∈ g.blocks := List.mem_of_find?_eq_some hB
    have hval : B.invalid = false := by
      have := List.find?_some hB
      simp only [decide_eq_true_eq] at this
      cases hinv : B.invalid with
      | false => rfl
      | true => exact absurd hinv this.2
    have hi : i ∈ B.instrs := List.mem_of_getElem? h
    simp only [hasPred, List.any_eq_true, Bool.and_eq_true, Bool.not_eq_true', beq_iff_eq]
    exact ⟨B, hmem, hval, i, hi, by rw [hb]; rfl⟩

end Wz.Proofs.FrontCF
