/- C03 — lemmas about the section-framing / pre-allocation model (core Lean only). -/
import Wz.Model.Frame
import Wz.Proofs.C03_Leb
namespace Wz.C03.Frame
open Wz.Model.Leb128 Wz.Model.Frame Wz.C03.Leb

theorem reserve_capped_le (n r : Nat) : reserve .capped n r ≤ r ∧ reserve .capped n r ≤ n := by
  simp [reserve]; omega

theorem u32_len {bs : List Byte} {v n : Nat} (h : decodeUint32 bs = .ok (v, n)) : 1 ≤ n ∧ n ≤ bs.length := by
  have := u32Loop_bounds 5 0 0 bs v n h
  omega

/-- budget of a step result: what was reserved so far plus three units per byte still to be walked -/
def _root_.Wz.Model.Frame.Step.budget : Step → Nat
  | .stop o => o.alloc
  | .next r o => o.alloc + 3 * r.length

theorem past_stop {id size : Nat} {body : List Byte} (o : Out) (h : size > body.length) :
    (past id size body o).budget = o.alloc := by
  simp [past, h, Step.budget]

theorem past_next {id size : Nat} {body : List Byte} (o : Out) (h : ¬ size > body.length) :
    (past id size body o).budget = o.alloc + 3 * (body.length - size) := by
  simp [past, h, Step.budget]

/-- One section under the repaired decoder: what it reserves is paid for by the bytes it consumes
(id byte, size field, declared size) or, where the walk stops, by the bytes that are left. -/
theorem step_budget_capped (idb : Byte) (rest : List Byte) (o : Out) :
    (step .capped idb rest o).budget ≤ o.alloc + 3 * (rest.length + 1) := by
  unfold step
  cases h1 : decodeUint32 rest with
  | error e => simp [Step.budget]
  | ok p =>
    obtain ⟨size, n⟩ := p
    have l1 := u32_len h1
    have hbody : (rest.drop n).length = rest.length - n := by simp
    simp only []
    split
    · simp [Step.budget]
    · split
      · cases h2 : decodeUint32 (rest.drop n) with
        | error e => simp [Step.budget]
        | ok q =>
          obtain ⟨cnt, cn⟩ := q
          have l2 := u32_len h2
          have hr := reserve_capped_le cnt ((rest.drop n).length - cn)
          simp only []
          split
          · simp only [Step.budget]; omega
          · by_cases hsz : size > (rest.drop n).length
            · rw [past_stop _ hsz]; simp only []; omega
            · rw [past_next _ hsz]; simp only []; omega
      · split
        · cases h2 : decodeUint32 (rest.drop n) with
          | error e => simp [Step.budget]
          | ok q =>
            obtain ⟨nlen, cn⟩ := q
            have l2 := u32_len h2
            have hr := reserve_capped_le nlen ((rest.drop n).length - cn)
            simp only []
            split
            · simp only [Step.budget]; omega
            · split
              · simp only [Step.budget]; omega
              · have hr2 := reserve_capped_le (size - (nlen + cn)) ((rest.drop n).length - cn - nlen)
                by_cases hsz : size > (rest.drop n).length
                · rw [past_stop _ hsz]; simp only []; split <;> omega
                · rw [past_next _ hsz]; simp only []; split <;> omega
        · split
          · cases h2 : decodeUint32 (rest.drop n) with
            | error e => simp [Step.budget]
            | ok q =>
              obtain ⟨cnt, cn⟩ := q
              simp only []
              split
              · simp only [Step.budget]; omega
              · by_cases hsz : size > (rest.drop n).length
                · rw [past_stop _ hsz]; simp only []; omega
                · rw [past_next _ hsz]; simp only []; omega
          · by_cases hsz : size > (rest.drop n).length
            · rw [past_stop _ hsz]; simp only []; omega
            · rw [past_next _ hsz]; simp only []; omega

theorem sections_alloc_capped : ∀ (f : Nat) (bs : List Byte) (o : Out),
    (sections .capped f bs o).alloc ≤ o.alloc + 3 * bs.length := by
  intro f
  induction f with
  | zero => intro bs o; simp [sections]
  | succ f ih =>
    intro bs o
    cases bs with
    | nil => simp [sections]
    | cons idb rest =>
      have hs := step_budget_capped idb rest o
      simp only [sections]
      split
      · rename_i o' heq
        rw [heq] at hs
        simp only [Step.budget, List.length_cons] at hs ⊢
        omega
      · rename_i r o' heq
        rw [heq] at hs
        simp only [Step.budget, List.length_cons] at hs ⊢
        have := ih r o'
        omega

theorem frame_alloc_capped (bs : List Byte) : allocUnits .capped bs ≤ 3 * bs.length := by
  unfold allocUnits frame
  split
  · simp
  · split
    · simp
    · have := sections_alloc_capped (bs.length + 1) (bs.drop 8) {}
      simp only [List.length_drop] at this
      have h0 : ({} : Out).alloc = 0 := rfl
      omega

end Wz.C03.Frame
