import Wz.Proofs.C01_SsaPass_Basic

/-! Shared lemmas for the passes that extend the alias table (`nopElim`, `redundantPhiElim`): ranks, frames,
typing of the environment, a generic simulation driver. -/
namespace Wz.Model.SsaPass

/-! ### alias tables and the certificate -/

/-- `al'` identifies at least what `al` identifies -/
def Ext (al al' : List (Val × Val)) : Prop := ∀ x y, res al x = res al y → res al' x = res al' y

theorem Ext.refl (al : List (Val × Val)) : Ext al al := fun _ _ h => h

theorem ext_insert {al : List (Val × Val)} (dst src : Val) : Ext al (aliasInsert al dst src) := by
  intro x y h
  by_cases h1 : res al src = dst
  · rw [aliasInsert_eq_of_degenerate (Or.inl h1)]; exact h
  by_cases h2 : aliasGet al dst ≠ none
  · rw [aliasInsert_eq_of_degenerate (Or.inr h2)]; exact h
  have h2' : aliasGet al dst = none := Classical.not_not.mp h2
  rw [res_aliasInsert dst src h1 h2', res_aliasInsert dst src h1 h2', h]

theorem aliasNF_iff (al : List (Val × Val)) : AliasNF al ↔ ∀ e ∈ al, aliasGet al e.2 = none :=
  ⟨fun h e he => h e.1 e.2 he, fun h k t hkt => h (k, t) hkt⟩

/-- resolution does not increase the rank -/
theorem rank_res_le {rank : Val → Nat} {al : List (Val × Val)} (hR : ∀ e ∈ al, rank e.2 < rank e.1) (v : Val) :
    rank (res al v) ≤ rank v := by
  cases hg : aliasGet al v with
  | none => rw [res_of_none hg]; exact Nat.le_refl _
  | some t => rw [res_of_some hg]; exact Nat.le_of_lt (hR (v, t) (aliasGet_mem hg))

theorem rank_res_lt_of_key {rank : Val → Nat} {al : List (Val × Val)} (hR : ∀ e ∈ al, rank e.2 < rank e.1) {v : Val}
    (hk : aliasGet al v ≠ none) : rank (res al v) < rank v := by
  cases hg : aliasGet al v with
  | none => exact absurd hg hk
  | some t => rw [res_of_some hg]; exact hR (v, t) (aliasGet_mem hg)

/-- resolution preserves the declared type -/
theorem cty_res {cty : Val → Ty} {al : List (Val × Val)} (hT : ∀ e ∈ al, cty e.1 = cty e.2) (v : Val) :
    cty (res al v) = cty v := by
  cases hg : aliasGet al v with
  | none => rw [res_of_none hg]
  | some t => rw [res_of_some hg]; exact (hT (v, t) (aliasGet_mem hg)).symm

theorem res_eq_self_or_key (al : List (Val × Val)) (v : Val) : res al v = v ∨ aliasGet al v ≠ none := by
  cases hg : aliasGet al v with
  | none => exact Or.inl (res_of_none hg)
  | some t => exact Or.inr (by simp)

/-! ### frames -/

def Ctl.st : Ctl → St
  | .next st => st
  | .goto _ _ st => st
  | .ret _ st => st
  | .trap _ st => st

theorem bindVals_frame (rs : List (Val × Ty)) (vs : List Nat) (e : Val → Nat) (v : Val)
    (h : v ∉ rs.map (·.1)) : bindVals e rs vs v = e v := by
  induction rs generalizing e vs with
  | nil => rfl
  | cons p rs ih =>
    obtain ⟨r, ty⟩ := p
    simp only [List.map_cons, List.mem_cons, not_or] at h
    simp only [bindVals]
    rw [ih _ _ h.2]
    simp [upd, h.1]

/-- an instruction changes the environment only at its results -/
theorem exec_frame (w : World) (ρ : Val → Nat) (i : Instr) (st : St) (v : Val) (h : v ∉ i.results) :
    (execInstr w ρ i st).st.env v = st.env v := by
  have hset : ∀ (r : Val) (x : Nat), v ∉ [r] → (st.set r x).env v = st.env v := by
    intro r x hv
    simp only [List.mem_singleton] at hv
    simp [St.set, upd, hv]
  cases i <;> simp only [execInstr, Instr.results] at h ⊢
  case iconst r ty c => exact hset _ _ h
  case bin op r ty x y => exact hset _ _ h
  case icmp r ty c x y => exact hset _ _ h
  case select r ty c x y => exact hset _ _ h
  case un op r ty x => exact hset _ _ h
  case load r ty p off => exact hset _ _ h
  case store => rfl
  case call fn sig rs args =>
    split
    · rfl
    · exact bindVals_frame _ _ _ _ h
  case div op r ty x y ctx =>
    split
    · exact hset _ _ h
    · rfl
  case exitIf => split <;> rfl
  case exit => rfl
  case jump => rfl
  case brz => split <;> rfl
  case brnz => split <;> rfl
  case ret => rfl

/-! ### typed environments -/

theorem norm_lt (ty : Ty) (n : Nat) : norm ty n < 2 ^ ty.bits := Nat.mod_lt _ (Nat.two_pow_pos _)

theorem norm_of_lt {ty : Ty} {n : Nat} (h : n < 2 ^ ty.bits) : norm ty n = n := Nat.mod_eq_of_lt h

/-- every value is within its declared type -/
def Typed (cty : Val → Ty) (env : Val → Nat) : Prop := ∀ v, env v < 2 ^ (cty v).bits

theorem typed_upd {cty : Val → Ty} {env : Val → Nat} (h : Typed cty env) (r : Val) (x : Nat)
    (hx : x < 2 ^ (cty r).bits) : Typed cty (upd env r x) := by
  intro v; unfold upd; split
  · rename_i hv; subst hv; exact hx
  · exact h v

theorem typed_bindVals {cty : Val → Ty} (rs : List (Val × Ty)) (vs : List Nat) {env : Val → Nat}
    (h : Typed cty env) (hty : ∀ p ∈ rs, cty p.1 = p.2) : Typed cty (bindVals env rs vs) := by
  induction rs generalizing env vs with
  | nil => exact h
  | cons p rs ih =>
    obtain ⟨r, ty⟩ := p
    simp only [bindVals]
    apply ih
    · apply typed_upd h
      have := hty (r, ty) (List.mem_cons_self ..)
      simp only at this
      rw [this]; exact norm_lt _ _
    · exact fun q hq => hty q (List.mem_cons_of_mem _ hq)

theorem clz_le (w x : Nat) : clz w x ≤ w := by
  unfold clz; split
  · exact Nat.le_refl _
  · omega

theorem ctzAux_le (x : Nat) : ∀ (k acc : Nat), ctzAux x k acc ≤ acc + k := by
  intro k
  induction k generalizing x with
  | zero => intro acc; simp [ctzAux]
  | succ k ih =>
    intro acc
    simp only [ctzAux]
    split
    · omega
    · have := ih (x / 2) (acc + 1); omega

theorem ctz_le (w x : Nat) : ctz w x ≤ w := by
  unfold ctz; split
  · exact Nat.le_refl _
  · have := ctzAux_le (x % 2 ^ w) w 0; omega

theorem popcntAux_le (x : Nat) : ∀ k, popcntAux x k ≤ k := by
  intro k
  induction k generalizing x with
  | zero => simp [popcntAux]
  | succ k ih =>
    simp only [popcntAux]
    have := ih (x / 2)
    have : x % 2 < 2 := Nat.mod_lt _ (by decide)
    omega

theorem popcnt_le (w x : Nat) : popcnt w x ≤ w := popcntAux_le _ _

theorem bits_lt_two_pow (ty : Ty) : ty.bits < 2 ^ ty.bits := by cases ty <;> decide

theorem evalBin_lt (op : BinOp) (ty : Ty) (x y : Nat) : evalBin op ty x y < 2 ^ ty.bits := by
  cases op <;> simp only [evalBin] <;> exact BitVec.isLt _

theorem evalCond_lt (c : Cond) (ty : Ty) (x y : Nat) : evalCond c ty x y < 2 ^ 32 := by
  have h : ∀ b : Bool, (if b = true then 1 else 0) < 2 ^ 32 := by intro b; cases b <;> decide
  unfold evalCond; exact h _

theorem evalUn_lt (op : UnOp) (ty : Ty) (x : Nat) : evalUn op ty x < 2 ^ ty.bits := by
  cases op <;> simp only [evalUn]
  · exact Nat.lt_of_le_of_lt (clz_le _ _) (bits_lt_two_pow ty)
  · exact Nat.lt_of_le_of_lt (ctz_le _ _) (bits_lt_two_pow ty)
  · exact Nat.lt_of_le_of_lt (popcnt_le _ _) (bits_lt_two_pow ty)
  · exact norm_lt _ _
  · exact norm_lt _ _
  · exact norm_lt _ _

theorem evalDiv_lt (op : DivOp) (ty : Ty) (x y v : Nat) (h : evalDiv op ty x y = .ok v) : v < 2 ^ ty.bits := by
  unfold evalDiv at h
  simp only at h
  split at h
  · cases h
  · cases op <;> simp only at h
    · cases h; exact BitVec.isLt _
    · split at h
      · cases h
      · cases h; exact BitVec.isLt _
    · cases h; exact BitVec.isLt _
    · cases h; exact BitVec.isLt _

/-- an instruction whose results have their declared types keeps the environment typed -/
theorem exec_typed (w : World) (ρ : Val → Nat) (i : Instr) (st : St) {cty : Val → Ty}
    (h : Typed cty st.env) (hty : ∀ p ∈ i.typedResults, cty p.1 = p.2) :
    Typed cty (execInstr w ρ i st).st.env := by
  cases i <;> simp only [execInstr, Instr.typedResults, List.mem_singleton, forall_eq] at hty ⊢
  case iconst r ty c => exact typed_upd h _ _ (by rw [hty]; exact norm_lt _ _)
  case bin op r ty x y => exact typed_upd h _ _ (by rw [hty]; exact evalBin_lt _ _ _ _)
  case icmp r ty c x y => exact typed_upd h _ _ (by rw [hty]; exact evalCond_lt _ _ _ _)
  case select r ty c x y => exact typed_upd h _ _ (by rw [hty]; exact norm_lt _ _)
  case un op r ty x => exact typed_upd h _ _ (by rw [hty]; exact evalUn_lt _ _ _)
  case load r ty p off => exact typed_upd h _ _ (by rw [hty]; exact norm_lt _ _)
  case store => exact h
  case call fn sig rs args =>
    split
    · exact h
    · exact typed_bindVals _ _ h hty
  case div op r ty x y ctx =>
    split
    · rename_i v hv
      exact typed_upd h _ _ (by rw [hty]; exact evalDiv_lt _ _ _ _ _ hv)
    · exact h
  case exitIf => split <;> exact h
  case exit => exact h
  case jump => exact h
  case brz => split <;> exact h
  case brnz => split <;> exact h
  case ret => exact h

end Wz.Model.SsaPass
