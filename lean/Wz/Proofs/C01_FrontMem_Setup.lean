/-
C01 / C02 (front end with memory accesses): `memOpSetup` is correct.  Under the invariant (embedding of the linear
memory, cached base / length, known safe bounds) the instructions it emits either trap with
`ExitCodeMemoryOutOfBounds` — exactly when `address + offset + width` exceeds the memory length, over the naturals —
or leave the absolute address `base + address` in the returned value; an elided check is justified by the recorded
bound.  The only accesses are reads of the two module-context words.
-/
import Wz.Proofs.C01_FrontMem_Basic

set_option linter.unusedSimpArgs false
set_option linter.unusedVariables false

namespace Wz.Proofs.FrontMem
open Wz.Spec Wz.Model.SsaPass Wz.Model.FrontendSL Wz.Model.FrontendMem Wz.Proofs.Front

variable {w : World} {mc base : Nat} {bytes : ByteArray} {s : MS} {env : Val → Nat} {mem : Mem}

theorem upd_ne {f : Nat → Nat} {k v : Nat} {x : Nat} (h : v ≠ k) : upd f k x v = f v := by
  simp only [upd, if_neg h]

theorem upd_self {f : Nat → Nat} {k : Nat} {x : Nat} : upd f k x k = x := by
  simp only [upd, if_true]

theorem bytesAt_mono {mem : Mem} {a v n n' : Nat} (h : BytesAt mem a v n) (hn : n' ≤ n) : BytesAt mem a v n' :=
  fun i hi => h i (Nat.lt_of_lt_of_le hi hn)

/-- what a successful piece of the setup guarantees: it runs through on every log, only reading the context, the
environment is unchanged below the old `next`, the front end's other state is kept -/
structure Piece (w : World) (mc base : Nat) (bytes : ByteArray) (s s' : MS) (env env' : Val → Nat) (mem : Mem)
    (l : List MInstr) : Prop where
  run : ∃ log', AccOK mc base bytes.size log' ∧
    ∀ log, runL w l (mkM env mem) log = .inr (mkM env' mem, log ++ log')
  frame : ∀ v, v < s.ls.next → env' v = env v
  next : s.ls.next ≤ s'.ls.next
  inv : MInv mc base bytes s' env' mem
  stack : s'.ls.stack = s.ls.stack
  locals : s'.ls.locals = s.ls.locals

theorem getMemLen_ok (h : MInv mc base bytes s env mem) :
    ∃ env', Piece w mc base bytes s (getMemLen s).2.2 env env' mem (getMemLen s).1 ∧
      env' (getMemLen s).2.1 = bytes.size ∧ (getMemLen s).2.1 < (getMemLen s).2.2.ls.next ∧
      (getMemLen s).2.2.bounds = s.bounds ∧ (getMemLen s).2.2.memBase = s.memBase := by
  unfold getMemLen
  cases hm : s.memLen with
  | some v =>
    obtain ⟨h1, h2⟩ := h.mlen v hm
    exact ⟨env, ⟨⟨[], AccOK.nil, fun log => by simp [runL]⟩, fun _ _ => rfl, Nat.le_refl _, h, rfl, rfl⟩, h1, h2, rfl, rfl⟩
  | none =>
    simp only
    have hge := h.nextGe
    have hmcR := h.emb.mcR
    have hlenR := h.emb.lenR
    have hval : evalExt .uload32 .i64 (memLoad mem ((env moduleCtx + offMemLen) % 2 ^ 64) ExtOp.uload32.bytes) = bytes.size := by
      rw [h.ctx, Nat.mod_eq_of_lt (by simp only [offMemLen]; omega)]
      have := memLoad_bytesAt mem 4 (mc + offMemLen) bytes.size (bytesAt_mono h.emb.lenWord (by omega))
      simp only [ExtOp.bytes]
      rw [this]
      simp only [evalExt, ExtOp.signed, Bool.false_eq_true, if_false, ExtOp.bytes, norm, Ty.bits]
      have e : (256 : Nat) ^ 4 = 2 ^ 32 := by decide
      rw [e]
      omega
    refine ⟨upd env s.ls.next bytes.size, ⟨⟨[⟨false, mc + offMemLen, 4⟩], ?_, ?_⟩, ?_, ?_, ?_, rfl, rfl⟩, ?_, ?_, rfl, rfl⟩
    · intro a ha
      simp only [List.mem_singleton] at ha
      subst ha
      right
      simp [Acc.isCtxRead, offMemLen, offMemBase]
    · intro log
      have hstep : stepM w (.extload .uload32 s.ls.next .i64 moduleCtx offMemLen) (mkM env mem) =
          .next (mkM (upd env s.ls.next bytes.size) mem) := by
        simp only [stepM]
        have : (mkM env mem).env = env := rfl
        have hm' : (mkM env mem).mem = mem := rfl
        rw [this, hm', hval, mkM_set]
      rw [runL_cons_next [] log hstep]
      simp only [runL, instrAcc]
      have : (mkM env mem).env = env := rfl
      rw [this, h.ctx, Nat.mod_eq_of_lt (by simp only [offMemLen]; omega)]
      rfl
    · intro v hv; exact upd_ne (by omega)
    · simp only [MS.bump]; omega
    · obtain ⟨hemb, hctx, _, hmb, hml, hbnd⟩ := h
      refine ⟨hemb, ?_, by simp only [MS.bump]; omega, ?_, ?_, ?_⟩
      · rw [upd_ne (by simp only [moduleCtx]; omega)]; exact hctx
      · intro v hv
        obtain ⟨h1, h2⟩ := hmb v hv
        rw [upd_ne (by omega)]
        exact ⟨h1, by simp only [MS.bump]; omega⟩
      · intro v hv
        simp only [Option.some.injEq] at hv
        subst hv
        exact ⟨upd_self, by simp only [MS.bump]; omega⟩
      · intro b bound a he
        obtain ⟨h1, h2, h3, h4⟩ := hbnd b bound a he
        rw [upd_ne (by omega), upd_ne (by omega)]
        exact ⟨h1, h2, by simp only [MS.bump]; omega, by simp only [MS.bump]; omega⟩
    · exact upd_self
    · show s.ls.next < s.ls.next + 1; omega

theorem getMemBase_ok (h : MInv mc base bytes s env mem) :
    ∃ env', Piece w mc base bytes s (getMemBase s).2.2 env env' mem (getMemBase s).1 ∧
      env' (getMemBase s).2.1 = base ∧ (getMemBase s).2.1 < (getMemBase s).2.2.ls.next ∧
      (getMemBase s).2.2.bounds = s.bounds ∧ (getMemBase s).2.2.memLen = s.memLen := by
  unfold getMemBase
  cases hm : s.memBase with
  | some v =>
    obtain ⟨h1, h2⟩ := h.mbase v hm
    exact ⟨env, ⟨⟨[], AccOK.nil, fun log => by simp [runL]⟩, fun _ _ => rfl, Nat.le_refl _, h, rfl, rfl⟩, h1, h2, rfl, rfl⟩
  | none =>
    simp only
    have hge := h.nextGe
    have hmcR := h.emb.mcR
    have hbaseR := h.emb.baseR
    have hval : norm .i64 (memLoad mem ((env moduleCtx + offMemBase) % 2 ^ 64) (Ty.i64.bits / 8)) = base := by
      rw [h.ctx, Nat.mod_eq_of_lt (by simp only [offMemBase]; omega)]
      have := memLoad_bytesAt mem 8 (mc + offMemBase) base h.emb.baseWord
      have e8 : Ty.i64.bits / 8 = 8 := rfl
      rw [e8, this]
      simp only [norm, Ty.bits]
      have e : (256 : Nat) ^ 8 = 2 ^ 64 := by decide
      rw [e]
      omega
    refine ⟨upd env s.ls.next base, ⟨⟨[⟨false, mc + offMemBase, 8⟩], ?_, ?_⟩, ?_, ?_, ?_, rfl, rfl⟩, ?_, ?_, rfl, rfl⟩
    · intro a ha
      simp only [List.mem_singleton] at ha
      subst ha
      right
      simp [Acc.isCtxRead, offMemLen, offMemBase]
    · intro log
      have hstep : stepM w (.base (.load s.ls.next .i64 moduleCtx offMemBase)) (mkM env mem) =
          .next (mkM (upd env s.ls.next base) mem) := by
        simp only [stepM, execInstr]
        have : (mkM env mem).env = env := rfl
        have hm' : (mkM env mem).mem = mem := rfl
        rw [this, hm', hval, mkM_set]
      rw [runL_cons_next [] log hstep]
      simp only [runL, instrAcc]
      have : (mkM env mem).env = env := rfl
      rw [this, h.ctx, Nat.mod_eq_of_lt (by simp only [offMemBase]; omega)]
      rfl
    · intro v hv; exact upd_ne (by omega)
    · simp only [MS.bump]; omega
    · obtain ⟨hemb, hctx, _, hmb, hml, hbnd⟩ := h
      refine ⟨hemb, ?_, by simp only [MS.bump]; omega, ?_, ?_, ?_⟩
      · rw [upd_ne (by simp only [moduleCtx]; omega)]; exact hctx
      · intro v hv
        simp only [Option.some.injEq] at hv
        subst hv
        exact ⟨upd_self, by simp only [MS.bump]; omega⟩
      · intro v hv
        obtain ⟨h1, h2⟩ := hml v hv
        rw [upd_ne (by omega)]
        exact ⟨h1, by simp only [MS.bump]; omega⟩
      · intro b bound a he
        obtain ⟨h1, h2, h3, h4⟩ := hbnd b bound a he
        rw [upd_ne (by omega), upd_ne (by omega)]
        exact ⟨h1, h2, by simp only [MS.bump]; omega, by simp only [MS.bump]; omega⟩
    · exact upd_self
    · show s.ls.next < s.ls.next + 1; omega

theorem Piece.comp {s1 s2 : MS} {env1 env2 : Val → Nat} {l1 l2 : List MInstr}
    (p1 : Piece w mc base bytes s s1 env env1 mem l1) (p2 : Piece w mc base bytes s1 s2 env1 env2 mem l2) :
    Piece w mc base bytes s s2 env env2 mem (l1 ++ l2) := by
  obtain ⟨log1, hok1, hr1⟩ := p1.run
  obtain ⟨log2, hok2, hr2⟩ := p2.run
  refine ⟨⟨log1 ++ log2, hok1.append hok2, ?_⟩, ?_, Nat.le_trans p1.next p2.next, p2.inv, ?_, ?_⟩
  · intro log
    rw [runL_append, hr1 log]
    simp only
    rw [hr2, List.append_assoc]
  · intro v hv
    rw [p2.frame v (Nat.lt_of_lt_of_le hv p1.next), p1.frame v hv]
  · rw [p2.stack, p1.stack]
  · rw [p2.locals, p1.locals]

/-- one instruction that defines the next value and does not touch the memory -/
theorem piece_one {j : MInstr} {x : Nat} (h : MInv mc base bytes s env mem)
    (hstep : stepM w j (mkM env mem) = .next (mkM (upd env s.ls.next x) mem))
    (hacc : instrAcc env j = []) :
    Piece w mc base bytes s (s.bump 1) env (upd env s.ls.next x) mem [j] := by
  refine ⟨⟨[], AccOK.nil, ?_⟩, fun v hv => upd_ne (by omega), by simp only [MS.bump]; omega, ?_, rfl, rfl⟩
  · intro log
    rw [runL_cons_next [] log hstep]
    have : (mkM env mem).env = env := rfl
    rw [this, hacc]
    rfl
  · exact h.frame rfl rfl rfl (by simp only [MS.bump]; omega) (fun v hv => upd_ne (by omega))

theorem bump_bump (s : MS) (a b : Nat) : (s.bump a).bump b = s.bump (a + b) := by
  simp only [MS.bump, Nat.add_assoc]

/-- the bounds check of `memOpSetup` up to the comparison: the zero-extended address is in value `next + 1`, the
result of the comparison `len < address + ceil` in the last value defined -/
theorem memCheck_pre_ok (h : MInv mc base bytes s env mem) {b a ceil : Nat} (hb : b < s.ls.next) (ha : env b = a)
    (ha32 : a < 2 ^ 32) (hc : ceil < 2 ^ 33) :
    ∃ env4, Piece w mc base bytes s ((getMemLen (s.bump 2)).2.2.bump 2) env env4 mem
        ([.base (.iconst s.ls.next .i64 ceil), .base (.un .uextend (s.ls.next + 1) .i64 b)] ++ (getMemLen (s.bump 2)).1 ++
          [.base (.bin .iadd (getMemLen (s.bump 2)).2.2.ls.next .i64 (s.ls.next + 1) s.ls.next),
           .base (.icmp ((getMemLen (s.bump 2)).2.2.ls.next + 1) .i64 .ult (getMemLen (s.bump 2)).2.1
              (getMemLen (s.bump 2)).2.2.ls.next)]) ∧
      env4 (s.ls.next + 1) = a ∧
      env4 ((getMemLen (s.bump 2)).2.2.ls.next + 1) = (if bytes.size < a + ceil then 1 else 0) ∧
      ((getMemLen (s.bump 2)).2.2.bump 2).bounds = s.bounds ∧
      ((getMemLen (s.bump 2)).2.2.bump 2).memBase = s.memBase := by
  have hlenR := h.emb.lenR
  -- Iconst_64 ceil
  have p1 : Piece w mc base bytes s (s.bump 1) env (upd env s.ls.next ceil) mem [.base (.iconst s.ls.next .i64 ceil)] :=
    piece_one h (by
      simp only [stepM, execInstr, mkM_set]
      rw [norm_of_lt (by simp only [Ty.bits]; omega)]) rfl
  -- UExtend
  have hb1 : upd env s.ls.next ceil b = a := by rw [upd_ne (by omega)]; exact ha
  have p2 : Piece w mc base bytes (s.bump 1) ((s.bump 1).bump 1) (upd env s.ls.next ceil)
      (upd (upd env s.ls.next ceil) (s.ls.next + 1) a) mem [.base (.un .uextend (s.ls.next + 1) .i64 b)] :=
    piece_one p1.inv (by
      simp only [stepM, execInstr, mkM_set]
      have : (mkM (upd env s.ls.next ceil) mem).env = upd env s.ls.next ceil := rfl
      rw [this, hb1, evalUn_uext a ha32]
      rfl) rfl
  rw [bump_bump] at p2
  have p12 := p1.comp p2
  -- the length
  obtain ⟨env3, p3, hlen3, hlt3, hbd3, hmb3⟩ := getMemLen_ok (w := w) p2.inv
  have p123 := p12.comp p3
  generalize hL : getMemLen (s.bump (1 + 1)) = L at p3 hlen3 hlt3 hbd3 hmb3 p123
  have hLk : s.ls.next + 2 ≤ L.2.2.ls.next := p3.next
  have h3n : env3 s.ls.next = ceil := by
    rw [p3.frame _ (by show s.ls.next < s.ls.next + 2; omega), upd_ne (by omega), upd_self]
  have h3n1 : env3 (s.ls.next + 1) = a := by
    rw [p3.frame _ (by show s.ls.next + 1 < s.ls.next + 2; omega), upd_self]
  -- Iadd
  have p4 : Piece w mc base bytes L.2.2 (L.2.2.bump 1) env3 (upd env3 L.2.2.ls.next (a + ceil)) mem
      [.base (.bin .iadd L.2.2.ls.next .i64 (s.ls.next + 1) s.ls.next)] :=
    piece_one p3.inv (by
      simp only [stepM, execInstr, mkM_set]
      have : (mkM env3 mem).env = env3 := rfl
      rw [this, h3n, h3n1, evalBin_iadd64 a ceil (by omega)]) rfl
  -- Icmp
  have p5 : Piece w mc base bytes (L.2.2.bump 1) ((L.2.2.bump 1).bump 1) (upd env3 L.2.2.ls.next (a + ceil))
      (upd (upd env3 L.2.2.ls.next (a + ceil)) (L.2.2.ls.next + 1) (if bytes.size < a + ceil then 1 else 0)) mem
      [.base (.icmp (L.2.2.ls.next + 1) .i64 .ult L.2.1 L.2.2.ls.next)] :=
    piece_one p4.inv (by
      simp only [stepM, execInstr, mkM_set]
      have : (mkM (upd env3 L.2.2.ls.next (a + ceil)) mem).env = upd env3 L.2.2.ls.next (a + ceil) := rfl
      rw [this, upd_ne (Nat.ne_of_lt hlt3), upd_self, hlen3, evalCond_ult64 _ _ (by omega) (by omega)]
      rfl) rfl
  rw [bump_bump] at p5
  have hall := (p123.comp p4).comp p5
  refine ⟨upd (upd env3 L.2.2.ls.next (a + ceil)) (L.2.2.ls.next + 1) (if bytes.size < a + ceil then 1 else 0),
    ?_, ?_, upd_self, ?_, ?_⟩
  · simpa only [List.append_assoc, List.cons_append, List.nil_append] using hall
  · rw [upd_ne (by omega), upd_ne (by omega)]; exact h3n1
  · show L.2.2.bounds = s.bounds
    rw [hbd3]; rfl
  · show L.2.2.memBase = s.memBase
    rw [hmb3]; rfl

theorem Piece.reinv {s1 s2 : MS} {env1 : Val → Nat} {l : List MInstr}
    (p : Piece w mc base bytes s s1 env env1 mem l) (h' : MInv mc base bytes s2 env1 mem) (hls : s2.ls = s1.ls) :
    Piece w mc base bytes s s2 env env1 mem l :=
  ⟨p.run, p.frame, by rw [hls]; exact p.next, h', by rw [hls]; exact p.stack, by rw [hls]; exact p.locals⟩

theorem MInv.addBound (h : MInv mc base bytes s env mem) {b ceil addr : Nat} (h1 : env b + ceil ≤ bytes.size)
    (h2 : env addr = base + env b) (h3 : b < s.ls.next) (h4 : addr < s.ls.next) :
    MInv mc base bytes { s with bounds := (b, ceil, addr) :: s.bounds } env mem := by
  obtain ⟨hemb, hctx, hge, hmb, hml, hbnd⟩ := h
  refine ⟨hemb, hctx, hge, hmb, hml, ?_⟩
  intro b' bound' a' hm
  rcases List.mem_cons.mp hm with heq | hm
  · simp only [Prod.mk.injEq] at heq
    obtain ⟨rfl, rfl, rfl⟩ := heq
    exact ⟨h1, h2, h3, h4⟩
  · exact hbnd b' bound' a' hm

/-- a step that defines nothing and does not touch the memory -/
theorem piece_nodef {j : MInstr} (h : MInv mc base bytes s env mem)
    (hstep : stepM w j (mkM env mem) = .next (mkM env mem)) (hacc : instrAcc env j = []) :
    Piece w mc base bytes s s env env mem [j] := by
  refine ⟨⟨[], AccOK.nil, ?_⟩, fun v hv => rfl, Nat.le_refl _, h, rfl, rfl⟩
  intro log
  rw [runL_cons_next [] log hstep]
  have : (mkM env mem).env = env := rfl
  rw [this, hacc]
  rfl

/-- the outcome of the bounds check and address computation -/
def SetupOK (w : World) (mc base : Nat) (bytes : ByteArray) (s : MS) (env : Val → Nat) (mem : Mem) (a ceil : Nat)
    (m : List MInstr × Val × MS) : Prop :=
  (a + ceil ≤ bytes.size →
    ∃ env', Piece w mc base bytes s m.2.2 env env' mem m.1 ∧ env' m.2.1 = base + a ∧ m.2.1 < m.2.2.ls.next) ∧
  (bytes.size < a + ceil →
    ∃ env' log', AccOK mc base bytes.size log' ∧
      ∀ log, runL w m.1 (mkM env mem) log = .inl (.trap codeMemOOB (mkM env' mem), log ++ log'))

theorem memCheck_ok (h : MInv mc base bytes s env mem) {b a ceil : Nat} (hb : b < s.ls.next) (ha : env b = a)
    (ha32 : a < 2 ^ 32) (hc : ceil < 2 ^ 33) (addr? : Option Val)
    (haddr : ∀ a0 : Nat, addr? = some a0 → env a0 = base + a ∧ a0 < s.ls.next) :
    SetupOK w mc base bytes s env mem a ceil (memCheck s b ceil addr?) := by
  obtain ⟨env4, P, h4a, h4c, hbd, hmb⟩ := memCheck_pre_ok (w := w) h hb ha ha32 hc
  have hbaseR := h.emb.baseR
  generalize hL : getMemLen (s.bump 2) = L at P h4a h4c hbd hmb
  have hexit : stepM w (.base (.exitIf execCtx (L.2.2.ls.next + 1) codeMemOOB)) (mkM env4 mem) =
      if bytes.size < a + ceil then .trap codeMemOOB (mkM env4 mem) else .next (mkM env4 mem) := by
    simp only [stepM, execInstr]
    have : (mkM env4 mem).env = env4 := rfl
    rw [this, h4c]
    by_cases hlt : bytes.size < a + ceil <;> simp [hlt]
  -- the shape of the emitted list
  have hshape : ∃ tail, (memCheck s b ceil addr?).1 =
      ([.base (.iconst s.ls.next .i64 ceil), .base (.un .uextend (s.ls.next + 1) .i64 b)] ++ L.1 ++
          [.base (.bin .iadd L.2.2.ls.next .i64 (s.ls.next + 1) s.ls.next),
           .base (.icmp (L.2.2.ls.next + 1) .i64 .ult L.2.1 L.2.2.ls.next)]) ++
        (.base (.exitIf execCtx (L.2.2.ls.next + 1) codeMemOOB) :: tail) := by
    cases addr? with
    | some a0 => exact ⟨[], by simp only [memCheck, hL, List.append_assoc, List.cons_append, List.nil_append]⟩
    | none => exact ⟨_, by simp only [memCheck, hL, List.append_assoc, List.cons_append, List.nil_append]; rfl⟩
  constructor
  · -- in bounds
    intro hin
    have hnot : ¬ bytes.size < a + ceil := by omega
    rw [if_neg hnot] at hexit
    have P5 := P.comp (piece_nodef P.inv hexit rfl)
    have hb4 : env4 b = a := by rw [P.frame b hb]; exact ha
    have hb' : b < (L.2.2.bump 2).ls.next := Nat.lt_of_lt_of_le hb P.next
    cases addr? with
    | some a0 =>
      obtain ⟨ha0, ha0lt⟩ := haddr a0 rfl
      have ha04 : env4 a0 = base + a := by rw [P.frame a0 ha0lt]; exact ha0
      have hinv' := P.inv.addBound (b := b) (ceil := ceil) (addr := a0) (by rw [hb4]; exact hin)
        (by rw [ha04, hb4]) hb' (Nat.lt_of_lt_of_le ha0lt P.next)
      refine ⟨env4, ?_, ha04, ?_⟩
      · have := P5.reinv hinv' rfl
        simpa only [memCheck, hL, List.append_assoc, List.cons_append, List.nil_append] using this
      · simp only [memCheck, hL]; exact Nat.lt_of_lt_of_le ha0lt P.next
    | none =>
      obtain ⟨env5, P6, hbase5, hlt5, hbd5, _⟩ := getMemBase_ok (w := w) P.inv
      generalize hG : getMemBase (L.2.2.bump 2) = G at P6 hbase5 hlt5 hbd5
      have hn1 : s.ls.next + 1 < (L.2.2.bump 2).ls.next := by
        have := (getMemLen_ok (w := w) (h.frame (s' := s.bump 2) rfl rfl rfl (by simp only [MS.bump]; omega) (fun _ _ => rfl))).choose_spec.1.next
        rw [hL] at this
        have e : (s.bump 2).ls.next = s.ls.next + 2 := rfl
        have e2 : (L.2.2.bump 2).ls.next = L.2.2.ls.next + 2 := rfl
        omega
      have h5n1 : env5 (s.ls.next + 1) = a := by rw [P6.frame _ hn1]; exact h4a
      have P7 : Piece w mc base bytes G.2.2 (G.2.2.bump 1) env5 (upd env5 G.2.2.ls.next (base + a)) mem
          [.base (.bin .iadd G.2.2.ls.next .i64 G.2.1 (s.ls.next + 1))] :=
        piece_one P6.inv (by
          simp only [stepM, execInstr, mkM_set]
          have : (mkM env5 mem).env = env5 := rfl
          rw [this, hbase5, h5n1, evalBin_iadd64 base a (by omega)]) rfl
      have Pall := (P5.comp P6).comp P7
      have hb7 : upd env5 G.2.2.ls.next (base + a) b = a := by
        rw [upd_ne (Nat.ne_of_lt (Nat.lt_of_lt_of_le hb' P6.next)), P6.frame b hb']; exact hb4
      have hinv' := P7.inv.addBound (b := b) (ceil := ceil) (addr := G.2.2.ls.next) (by rw [hb7]; exact hin)
        (by rw [upd_self, hb7]) (Nat.lt_of_lt_of_le hb' (Nat.le_trans P6.next P7.next))
        (by show G.2.2.ls.next < G.2.2.ls.next + 1; omega)
      refine ⟨upd env5 G.2.2.ls.next (base + a), ?_, ?_, ?_⟩
      · have := Pall.reinv hinv' rfl
        simp only [List.append_assoc, List.cons_append, List.nil_append] at this
        simp only [memCheck, hL, hG, List.append_assoc, List.cons_append, List.nil_append]
        exact this
      · simp only [memCheck, hL, hG]; exact upd_self
      · simp only [memCheck, hL, hG]; show G.2.2.ls.next < G.2.2.ls.next + 1; omega
  · -- out of bounds
    intro hout
    rw [if_pos hout] at hexit
    obtain ⟨tail, hsh⟩ := hshape
    obtain ⟨log', hok, hrun⟩ := P.run
    refine ⟨env4, log', hok, ?_⟩
    intro log
    rw [hsh, runL_append, hrun log]
    simp only
    rw [runL_cons_trap tail _ hexit]
    have : (mkM env4 mem).env = env4 := rfl
    simp only [instrAcc, List.append_nil]

theorem memOpSetup_ok (h : MInv mc base bytes s env mem) {b a ceil : Nat} (hb : b < s.ls.next) (ha : env b = a)
    (ha32 : a < 2 ^ 32) (hc : ceil < 2 ^ 33) :
    SetupOK w mc base bytes s env mem a ceil (memOpSetup s b ceil) := by
  unfold memOpSetup
  cases hl : lookupBound s.bounds b with
  | none => exact memCheck_ok h hb ha ha32 hc none (fun _ h0 => by cases h0)
  | some e =>
    obtain ⟨bound, a0⟩ := e
    obtain ⟨h1, h2, h3, h4⟩ := h.bnd b bound a0 (lookupBound_mem _ _ _ hl)
    rw [ha] at h1 h2
    simp only
    split
    · -- the check is elided: the recorded bound covers this access
      rename_i hle
      constructor
      · intro _
        exact ⟨env, ⟨⟨[], AccOK.nil, fun log => by simp [runL]⟩, fun _ _ => rfl, Nat.le_refl _, h, rfl, rfl⟩, h2, h4⟩
      · intro hout
        omega
    · exact memCheck_ok h hb ha ha32 hc (some a0) (fun a1 h1' => by cases h1'; exact ⟨h2, h4⟩)

end Wz.Proofs.FrontMem
