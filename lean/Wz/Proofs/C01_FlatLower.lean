/-
C01 (lowering): the refinement theorems.  For a well-typed function of the fragment, arguments that fit the
parameter types and an operation list shorter than 2^64-1: the flat execution of `lower f` and the structured
reference semantics (`Wz.Spec.Wasm.invoke` on the embedding) have the same outcome, in both directions, and the
flat executor never performs an out-of-range slice / index operation.
-/
import Wz.Proofs.C01_FlatLower_Sim
import Wz.Proofs.C01_FlatLower_Labels

namespace Wz.Proofs.FlatLower
open Wz.Spec Wz.Spec.Wasm Wz.Model.FlatLower

def envOf (f : Fn) : Env :=
  { sym := lowerSym f, lt := f.params ++ f.locals, results := f.results.reverse, m := f.toModule,
    nodup := lowerSym_nodup f }

/-- the function is small enough for `math.MaxUint64` not to be an operation index -/
def Small (f : Fn) : Prop := (lowerSym f).length < retAddr

theorem reach_consts (E : Env) (ts : List Ty) : ∀ (pc : Nat) (stk : List Nat),
    At E.sym pc (ts.map (fun t => (Op.const t 0 : SymOp))) →
    Reach E.code ts.length (pc, stk) (pc + ts.length, (ts.map (fun _ => 0)).reverse ++ stk) := by
  induction ts with
  | nil => intro pc stk _; exact Reach.refl _
  | cons t ts ih =>
    intro pc stk hat
    have hat' : At E.sym pc ((Op.const t 0 : SymOp) :: ts.map (fun t => (Op.const t 0 : SymOp))) := by simpa using hat
    have h1 : Reach E.code 1 (pc, stk) (pc + 1, 0 :: stk) := Reach.one (E.fetch hat') rfl
    have h2 := ih (pc + 1) (0 :: stk) hat'.tail
    have h3 := h1.trans h2
    have e1 : 1 + ts.length = (t :: ts).length := by simp; omega
    have e2 : ((pc + 1 + ts.length, (ts.map (fun _ => 0)).reverse ++ 0 :: stk) : Cfg) =
        (pc + (t :: ts).length, ((t :: ts).map (fun _ => 0)).reverse ++ stk) := by
      simp; omega
    rw [e1, e2] at h3
    exact h3

/-- the frame in which `callFunc` runs the body -/
def calleeLocals (f : Fn) (args : List Nat) : Array Nat := (args ++ f.locals.map (fun _ => 0)).toArray

/-- the outcome `invoke` derives from the outcome of the body -/
def specOut (nres : Nat) : Ctl × Frame × Store → Outcome
  | (.next, fr', _) => .values (fr'.stack.take nres).reverse
  | (.ret, fr', _) => .values (fr'.stack.take nres).reverse
  | (.br _, fr', _) => .values (fr'.stack.take nres).reverse
  | (.trap k, _, _) => .trap k
  | (.exhausted, _, _) => .exhausted

theorem runStruct_zero (f : Fn) (args : List Nat) : runStruct f args 0 = .exhausted := by
  simp [runStruct, invoke, callFunc]

theorem runStruct_succ (f : Fn) (args : List Nat) (n : Nat) (hlen : args.length = f.params.length) :
    runStruct f args (n + 1) =
      specOut f.results.length (execSeq f.toModule n (toInstrs f.body) ⟨[], calleeLocals f args⟩ {}) := by
  have hft : funcType f.toModule 0 = ⟨f.params.map Ty.toVT, f.results.map Ty.toVT⟩ := by
    simp [funcType, Fn.toModule]
  have hfn : f.toModule.funcs.getD (0 - f.toModule.imports.length) default =
      ⟨0, f.locals.map Ty.toVT, toInstrs f.body⟩ := by simp [Fn.toModule]
  have himp : ¬ (0 < f.toModule.imports.length) := by simp [Fn.toModule]
  simp only [runStruct, invoke, callFunc, hft, hfn, himp, if_false]
  have htake : (List.take (List.map Ty.toVT f.params).length args.reverse).reverse = args := by
    rw [List.length_map, ← hlen, ← List.length_reverse, List.take_length, List.reverse_reverse]
  simp only [htake, calleeLocals, List.map_map]
  have hz : (f.locals.map ((fun _ => 0) ∘ Ty.toVT) : List Nat) = f.locals.map (fun _ => 0) := rfl
  rw [hz]
  generalize execSeq f.toModule n (toInstrs f.body) _ _ = out
  have hdrop : List.drop f.params.length args.reverse = [] :=
    List.drop_eq_nil_of_le (by simp [hlen])
  rcases out with ⟨ctl, fr', s'⟩
  cases ctl <;> simp [specOut, hdrop, List.take_take]

theorem keepTop_zero (a : Nat) (stk : List Nat) : keepTop a 0 stk = stk.take a := by
  simp [keepTop]

theorem flat_take {S : List Nat} {locs : Array Nat} {a : Nat} (ha : a ≤ S.length) : (flat S locs).take a = S.take a := by
  unfold flat; exact List.take_append_of_le_length ha

theorem wellTyped_iff (f : Fn) : wellTyped f = true ↔ endOK f.results.reverse (checkS f.ctx [] f.body) = true := Iff.rfl

theorem inv_top (f : Fn) : Inv (envOf f) f.ctx [f.frame] [] := by
  refine ⟨rfl, rfl, rfl, ?_, ?_, ⟨f.frame, rfl, rfl, rfl, by simp [Fn.frame, envOf]⟩⟩
  · intro l F ts hF hts
    cases l with
    | zero =>
      simp [Fn.ctx] at hF hts; subst hF; subst hts
      simp [brArity, Fn.frame]
    | succ l => simp at hF
  · intro F hF
    simp at hF; subst hF; simp [Fn.frame]

theorem locs_top (f : Fn) (args : List Nat) (hargs : ValsOK f.params args) : LocsOK (envOf f) (calleeLocals f args) := by
  unfold LocsOK calleeLocals envOf
  exact hargs.append (ValsOK.replicate_zero f.locals)

/-- the machine state in which the body starts is reached by pushing the default values of the locals -/
theorem reach_body_start (f : Fn) (args : List Nat) :
    Reach (envOf f).code f.locals.length (0, args.reverse) (f.locals.length, flat [] (calleeLocals f args)) := by
  have h0 : At (envOf f).sym 0 (lowerSym f) := ⟨[], [], by simp [envOf], rfl⟩
  have hat : At (envOf f).sym 0 (f.locals.map (fun t => (Op.const t 0 : SymOp))) := by
    unfold lowerSym at h0
    exact h0.left.left
  have := reach_consts (envOf f) f.locals 0 args.reverse hat
  have e : (flat [] (calleeLocals f args)) = (f.locals.map (fun _ => 0)).reverse ++ args.reverse := by
    simp [flat, calleeLocals]
  rw [e]
  simpa using this

/-- the flat run of a call, given the simulation of the body -/
theorem flat_of_sim (f : Fn) (hsmall : Small f) (args : List Nat) (n : Nat)
    (res : Option (List Ty)) (hres : checkS f.ctx [] f.body = some res)
    (hend : endOK f.results.reverse (some res) = true)
    (out : Ctl × Frame × Store)
    (hsim : Sim (envOf f) f.ctx [f.frame] [] res (targetsS · f.body) (n - weightS f.body)
      (f.locals.length, flat [] (calleeLocals f args))
      (f.locals.length + (lowerS [f.frame] (f.params.length + f.locals.length) 1 f.body).ops.length) out) :
    (out.1 ≠ .exhausted → ∃ m, ∀ m', m ≤ m' → runFlat f args m' = FlatOut.ofSpec (specOut f.results.length out)) ∧
    (out.1 = .exhausted → RunsFor (envOf f).code (f.locals.length + (n - weightS f.body)) (0, args.reverse)) := by
  have hstart := reach_body_start f args
  have hcl : (envOf f).code.length ≤ retAddr := by
    rw [Env.code, resolve_length]; exact Nat.le_of_lt hsmall
  -- a run that ends at the return address with at least the results on the stack
  have hfin : ∀ (k : Nat) (stkF S : List Nat), f.results.length ≤ S.length → stkF = S.take f.results.length →
      Reach (envOf f).code k (0, args.reverse) (retAddr, stkF) →
      ∃ m, ∀ m', m ≤ m' → runFlat f args m' = .values (S.take f.results.length).reverse := by
    intro k stkF S hS hstk hr
    refine ⟨k + 1, fun m' hm' => ?_⟩
    obtain ⟨j, rfl⟩ : ∃ j, m' = k + (j + 1) := ⟨m' - k - 1, by omega⟩
    have := runFrom_exit hr hcl j
    simp only [runFlat, runCode, lower]
    simp only [Env.code, envOf] at this
    rw [this, hstk]
    simp [List.length_take, Nat.min_eq_left hS, List.take_take]
  rcases out with ⟨ctl, fr', s'⟩
  cases ctl with
  | next =>
    refine ⟨fun _ => ?_, fun h => by cases h⟩
    simp only [Sim] at hsim
    obtain ⟨st', vs', hr', hstack, hvs', hlocs', k, hk⟩ := hsim
    subst hr'
    simp only [endOK, beq_iff_eq] at hend
    subst hend
    have hlen : fr'.stack.length = f.results.length := by
      rw [hstack, List.append_nil, hvs'.length]; simp
    -- the function's `end`
    have hh := lowerS_h (C := f.ctx) [f.frame] (f.params.length + f.locals.length) f.body [] 1 _ hres
    simp only [List.length_nil, Nat.add_zero, Option.map_some, List.length_reverse] at hh
    have hat : At (envOf f).sym (f.locals.length + (lowerS [f.frame] (f.params.length + f.locals.length) 1 f.body).ops.length)
        (emitDrop (dropRange f.frame true (f.params.length + f.locals.length + f.results.length)) ++ [.br ⟨.ret, 0⟩]) := by
      refine ⟨f.locals.map (fun t => (Op.const t 0 : SymOp)) ++ (lowerS [f.frame] (f.params.length + f.locals.length) 1 f.body).ops, [], ?_, by simp⟩
      simp only [envOf, lowerSym, hh, List.append_nil, List.append_assoc]
    have hflen : (flat fr'.stack fr'.locals).length = f.params.length + f.locals.length + f.results.length := by
      rw [flat_length, hlocs'.size, hlen]; simp [envOf]; omega
    rw [← hflen] at hat
    have hd := applyDrop_dropRange (F := f.frame) (isEnd := true) (stk := flat fr'.stack fr'.locals)
      (a := f.results.length) (by simp [Fn.frame]) (by simp [Fn.frame, hflen])
    obtain ⟨k2, hk2⟩ := reach_drop_br (envOf f) hat hd
    have hall := (hstart.trans hk).trans hk2
    simp only [Fn.frame, keepTop_zero] at hall
    obtain ⟨m, hm⟩ := hfin _ _ fr'.stack (by omega) (flat_take (by omega)) hall
    exact ⟨m, fun m' h' => by simp only [specOut, FlatOut.ofSpec]; exact hm m' h'⟩
  | br l =>
    refine ⟨fun _ => ?_, fun h => by cases h⟩
    simp only [Sim] at hsim
    obtain ⟨F, ts, Y, hF, hts, hstack, ⟨rs, X, rfl, hrs⟩, hlocs', _, k, hk⟩ := hsim
    cases l with
    | succ l => simp at hF
    | zero =>
      simp only [List.getElem?_cons_zero, Option.some.injEq] at hF
      subst hF
      simp only [Fn.ctx, List.getElem?_cons_zero, Option.some.injEq] at hts
      subst hts
      have hlen : f.results.length ≤ fr'.stack.length := by
        rw [hstack]; simp [hrs.length]
      have hall := hstart.trans hk
      have e1 : resolveT (envOf f).sym f.frame.label = retAddr := rfl
      have e2 : brArity f.frame = f.results.length := by simp [brArity, Fn.frame]
      rw [e1, e2] at hall
      simp only [Fn.frame, keepTop_zero] at hall
      obtain ⟨m, hm⟩ := hfin _ _ fr'.stack hlen (flat_take hlen) hall
      exact ⟨m, fun m' h' => by simp only [specOut, FlatOut.ofSpec]; exact hm m' h'⟩
  | ret =>
    refine ⟨fun _ => ?_, fun h => by cases h⟩
    simp only [Sim] at hsim
    obtain ⟨Y, hstack, ⟨rs, X, rfl, hrs⟩, hlocs', k, hk⟩ := hsim
    have hlen : f.results.length ≤ fr'.stack.length := by
      rw [hstack]; simp [hrs.length, envOf]
    have hall := hstart.trans hk
    simp only [envOf, List.length_reverse, keepTop_zero] at hall
    obtain ⟨m, hm⟩ := hfin _ _ fr'.stack hlen (flat_take hlen) hall
    exact ⟨m, fun m' h' => by simp only [specOut, FlatOut.ofSpec]; exact hm m' h'⟩
  | trap kd =>
    refine ⟨fun _ => ?_, fun h => by cases h⟩
    simp only [Sim] at hsim
    obtain ⟨k, hk⟩ := runFrom_traps (TrapsAt.after hstart hsim)
    refine ⟨k + 1, fun m' hm' => ?_⟩
    obtain ⟨j, rfl⟩ : ∃ j, m' = k + 1 + j := ⟨m' - k - 1, by omega⟩
    have := hk j
    simp only [runFlat, runCode, lower, specOut, FlatOut.ofSpec]
    simp only [Env.code, envOf] at this
    rw [this]
  | exhausted =>
    refine ⟨fun h => absurd rfl h, fun _ => ?_⟩
    simp only [Sim] at hsim
    exact RunsFor.after hstart hsim

/-- simulation of one call -/
theorem call_sim (f : Fn) (hwt : wellTyped f = true) (hsmall : Small f) (args : List Nat)
    (hargs : ValsOK f.params args) (n : Nat) :
    ((execSeq f.toModule n (toInstrs f.body) ⟨[], calleeLocals f args⟩ {}).1 ≠ .exhausted →
      ∃ m, ∀ m', m ≤ m' → runFlat f args m' = FlatOut.ofSpec (specOut f.results.length
        (execSeq f.toModule n (toInstrs f.body) ⟨[], calleeLocals f args⟩ {}))) ∧
    ((execSeq f.toModule n (toInstrs f.body) ⟨[], calleeLocals f args⟩ {}).1 = .exhausted →
      RunsFor (envOf f).code (f.locals.length + (n - weightS f.body)) (0, args.reverse)) := by
  have hend := (wellTyped_iff f).mp hwt
  cases hres : checkS f.ctx [] f.body with
  | none => rw [hres] at hend; simp [endOK] at hend
  | some res =>
    rw [hres] at hend
    have h0 : At (envOf f).sym 0 (lowerSym f) := ⟨[], [], by simp [envOf], rfl⟩
    have hat : At (envOf f).sym f.locals.length (lowerS [f.frame] (f.params.length + f.locals.length) 1 f.body).ops := by
      unfold lowerSym at h0
      have := h0.left.right
      simpa using this
    have hsim := sim_all (envOf f) n f.ctx [f.frame] [] [] [] (calleeLocals f args) f.body 1 f.locals.length res {}
      (f.params.length + f.locals.length) (inv_top f) hres trivial (locs_top f args hargs)
      (by simp [envOf]) hat
    exact flat_of_sim f hsmall args n res hres hend _ hsim

theorem specOut_exhausted {nres : Nat} {out : Ctl × Frame × Store} :
    specOut nres out = .exhausted ↔ out.1 = .exhausted := by
  rcases out with ⟨ctl, fr', s'⟩
  cases ctl <;> simp [specOut]

/-- FORWARD: a finished structured run is matched by the flat run (for every sufficiently large flat fuel) -/
theorem lower_forward (f : Fn) (hwt : wellTyped f = true) (hsmall : Small f) (args : List Nat)
    (hargs : ValsOK f.params args) (n : Nat) (hne : runStruct f args n ≠ .exhausted) :
    ∃ m, ∀ m', m ≤ m' → runFlat f args m' = FlatOut.ofSpec (runStruct f args n) := by
  cases n with
  | zero => exact absurd (runStruct_zero f args) hne
  | succ n =>
    have hlen : args.length = f.params.length := hargs.length
    rw [runStruct_succ f args n hlen] at hne ⊢
    exact (call_sim f hwt hsmall args hargs n).1 (fun h => hne (specOut_exhausted.mpr h))

/-- DIVERGENCE: if the structured run exhausts every fuel, so does the flat run -/
theorem lower_diverges (f : Fn) (hwt : wellTyped f = true) (hsmall : Small f) (args : List Nat)
    (hargs : ValsOK f.params args) (hdiv : ∀ n, runStruct f args n = .exhausted) :
    ∀ m, runFlat f args m = .exhausted := by
  intro m
  have hlen : args.length = f.params.length := hargs.length
  have h1 := hdiv (m + weightS f.body + 1)
  rw [runStruct_succ f args _ hlen] at h1
  have hr := (call_sim f hwt hsmall args hargs (m + weightS f.body)).2 (specOut_exhausted.mp h1)
  have := runFrom_runsFor (hr.mono (j := m) (by omega))
  simp only [runFlat, runCode, lower]
  simp only [Env.code, envOf] at this
  rw [this]

theorem runFlat_mono (f : Fn) (args : List Nat) {m : Nat} {o : FlatOut} (h : runFlat f args m = o)
    (hne : o ≠ .exhausted) : ∀ m', m ≤ m' → runFlat f args m' = o := by
  intro m' hm'
  simp only [runFlat, runCode] at h ⊢
  cases hr : runFrom (lower f) m 0 args.reverse with
  | ok stk =>
    rw [runFrom_mono hr (by simp) m' hm']
    rw [hr] at h; exact h
  | error e =>
    rw [hr] at h
    simp only at h
    subst h
    rw [runFrom_mono hr (by simpa using hne) m' hm']

/-- BACKWARD: a finished flat run is matched by the structured run -/
theorem lower_backward (f : Fn) (hwt : wellTyped f = true) (hsmall : Small f) (args : List Nat)
    (hargs : ValsOK f.params args) (m : Nat) (hne : runFlat f args m ≠ .exhausted) :
    ∃ n, FlatOut.ofSpec (runStruct f args n) = runFlat f args m := by
  by_cases hex : ∃ n, runStruct f args n ≠ .exhausted
  · obtain ⟨n, hn⟩ := hex
    obtain ⟨m0, hm0⟩ := lower_forward f hwt hsmall args hargs n hn
    refine ⟨n, ?_⟩
    have h1 := hm0 (max m m0) (Nat.le_max_right _ _)
    have h2 := runFlat_mono f args rfl hne (max m m0) (Nat.le_max_left _ _)
    rw [← h1, h2]
  · have hdiv : ∀ n, runStruct f args n = .exhausted := fun n => by
      by_cases h : runStruct f args n = .exhausted
      · exact h
      · exact absurd ⟨n, h⟩ hex
    exact absurd (lower_diverges f hwt hsmall args hargs hdiv m) hne

/-- SAFETY: the flat executor never hits an out-of-range slice or index expression -/
theorem lower_no_panic (f : Fn) (hwt : wellTyped f = true) (hsmall : Small f) (args : List Nat)
    (hargs : ValsOK f.params args) (m : Nat) (w : String) : runFlat f args m ≠ .panic w := by
  intro h
  obtain ⟨n, hn⟩ := lower_backward f hwt hsmall args hargs m (by rw [h]; simp)
  rw [h] at hn
  cases hs : runStruct f args n <;> rw [hs] at hn <;> simp [FlatOut.ofSpec] at hn

end Wz.Proofs.FlatLower
