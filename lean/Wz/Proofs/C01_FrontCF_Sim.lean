/-
C01 (front end, structured control flow): the simulation.  For a function accepted by the checker
`FrontendCFCheck` (statement per piece of code: `PI` instructions, `PS` sequences, `PA` arms run as a block of the
reference semantics, `PL` loops run from their header), by induction on the fuel of the reference semantics
(`sim_all`): whenever the reference semantics finishes a piece of code - normally, by a branch to an enclosing
label, by `return`, by a trap - the SSA run from the corresponding point reaches the corresponding point (resp.
ends with the same values / the same trap), entering finitely many blocks, and the invariant `InvC` holds there.
-/
import Wz.Proofs.C01_FrontCF_Defs
import Wz.Proofs.C01_FrontCF_Step
import Wz.Proofs.C01_FrontCF_Edge

namespace Wz.Proofs.FrontCF
open Wz.Spec Wz.Model.SsaPass Wz.Model.FrontendSL Wz.Model.FrontendCF Wz.Proofs.Front

variable {w : World} {cx : Ctx}

theorem BrOK.prepend {labs : List Lab} {l : Nat} {a b : Pt} {fr' : Wasm.Frame} (h1 : Steps w cx.g a b)
    (h2 : BrOK w cx labs l b fr') : BrOK w cx labs l a fr' := by
  unfold BrOK at h2 ⊢
  cases hl : labs[l]? with
  | none => simp [hl] at h2
  | some lab =>
    simp only [hl] at h2 ⊢
    split
    · rename_i hr; rw [if_pos hr] at h2; exact h1.ends h2
    · rename_i hr; rw [if_neg hr] at h2
      obtain ⟨hp, env', hs, hi⟩ := h2
      exact ⟨hp, env', h1.trans hs, hi⟩

theorem Res.prepend {labs : List Lab} {a b : Pt} {r : CR} {out : Wasm.Ctl × Wasm.Frame × Wasm.Store}
    {st : Wasm.Store} (h1 : Steps w cx.g a b) (h2 : Res w cx labs b r out st) : Res w cx labs a r out st := by
  obtain ⟨ctl, fr', st'⟩ := out
  unfold Res at h2 ⊢
  refine ⟨h2.1, ?_⟩
  have h3 := h2.2
  cases ctl with
  | next =>
    obtain ⟨c', env', hr, hs, hi⟩ := h3
    exact ⟨c', env', hr, h1.trans hs, hi⟩
  | br l => exact BrOK.prepend h1 h3
  | ret => exact h1.ends h3
  | trap k => exact h1.ends h3
  | exhausted => trivial

theorem getElem?_of_expect {g : Func} {c : CS} {i : Instr} (h : expect g c [i] = true) :
    (instrsOf g c.blk)[c.pos]? = some i := by
  have h1 := drop_of_expect h
  have : ((instrsOf g c.blk).drop c.pos)[0]? = some i := by rw [h1]; rfl
  simpa using this

/-- labels of the function's own frame carry the function's result types … -/
def LabsT (cx : Ctx) (labs : List Lab) : Prop := ∀ lab ∈ labs, lab.isRet = true → lab.tys = cx.res

/-- … and target the return block -/
def LabsR (labs : List Lab) : Prop := ∀ lab ∈ labs, lab.isRet = true → lab.tgt = retBlk

def LabsOK (cx : Ctx) (labs : List Lab) : Prop := LabsT cx labs ∧ LabsR labs

theorem LabsOK.cons {labs : List Lab} (h : LabsOK cx labs) (lab : Lab) (hl : lab.isRet = false) :
    LabsOK cx (lab :: labs) := by
  constructor
  · intro l hl' hr
    rcases List.mem_cons.mp hl' with rfl | hl'
    · rw [hl] at hr; cases hr
    · exact h.1 l hl' hr
  · intro l hl' hr
    rcases List.mem_cons.mp hl' with rfl | hl'
    · rw [hl] at hr; cases hr
    · exact h.2 l hl' hr

variable (w) (cx) (m : Wasm.Module)

def PI (n : Nat) : Prop :=
  ∀ (i : CI) (labs : List Lab) (c : CS) (fr : Wasm.Frame) (env : Val → Nat) (st : Wasm.Store),
    LabsOK cx labs → InvC cx.lt c.stack c.vars fr env → chkI cx labs c i ≠ .fail →
    Res w cx labs ⟨c.blk, c.pos, env⟩ (chkI cx labs c i) (Wasm.execInstr m n i.toInstr fr st) st

def PS (n : Nat) : Prop :=
  ∀ (is : List CI) (labs : List Lab) (c : CS) (fr : Wasm.Frame) (env : Val → Nat) (st : Wasm.Store),
    LabsOK cx labs → InvC cx.lt c.stack c.vars fr env → chkL cx labs c is ≠ .fail →
    Res w cx labs ⟨c.blk, c.pos, env⟩ (chkL cx labs c is) (Wasm.execSeq m n (toInstrs is) fr st) st

/-- an arm: a body whose continuation is the (non-return) label `lab`, run as a `block` of the reference semantics -/
def PA (n : Nat) : Prop :=
  ∀ (b : List CI) (lab : Lab) (labs : List Lab) (c : CS) (fr : Wasm.Frame) (env : Val → Nat) (st : Wasm.Store)
    (nb nbx : Nat),
    LabsOK cx labs → lab.isRet = false → c.stack = lab.outer →
    InvC cx.lt c.stack c.vars fr env → finishArm cx lab (chkL cx (lab :: labs) c b) = some nb →
    Res w cx labs ⟨c.blk, c.pos, env⟩ (afterBlock cx lab nbx)
      (Wasm.execInstr m n (.block lab.tys.length (toInstrs b)) fr st) st

/-- a loop run from its header `H` -/
def PL (n : Nat) : Prop :=
  ∀ (b : List CI) (H : Nat) (tys : List Ty) (stk : List TV) (labs : List Lab) (fr : Wasm.Frame) (env : Val → Nat)
    (st : Wasm.Store) (nb2 nb nbx : Nat),
    LabsOK cx labs → InvC cx.lt stk (entOf cx.ent H) fr env →
    finishArm cx ⟨H + 1, tys, stk, false⟩
      (chkL cx (⟨H, [], stk, false⟩ :: labs) (entryCS cx H 0 stk nb2) b) = some nb →
    Res w cx labs ⟨H, 0, env⟩ (afterBlock cx ⟨H + 1, tys, stk, false⟩ nbx)
      (Wasm.execInstr m n (.loop (toInstrs b)) fr st) st

variable {w} {cx} {m}

theorem Res.exhausted {labs : List Lab} {src : Pt} {r : CR} {fr : Wasm.Frame} {st : Wasm.Store} :
    Res w cx labs src r (.exhausted, fr, st) st := ⟨rfl, trivial⟩

theorem brOK_cons_succ {lab : Lab} {labs : List Lab} {l : Nat} {src : Pt} {fr' : Wasm.Frame} :
    BrOK w cx (lab :: labs) (l + 1) src fr' = BrOK w cx labs l src fr' := by
  simp only [BrOK, List.getElem?_cons_succ]

/-- the end of an arm: the jump to the continuation -/
theorem arm_end (hal : cx.g.alias = []) {lab : Lab} (hlr : lab.isRet = false) {c' : CS} {fr' : Wasm.Frame}
    {env' : Val → Nat} (hinv : InvC cx.lt c'.stack c'.vars fr' env')
    (hlen : c'.stack.length = lab.tys.length + lab.outer.length) (hj : chkJump cx c' lab = true) :
    hasPred cx.g lab.tgt = true ∧
    ∃ env'', Steps w cx.g ⟨c'.blk, c'.pos, env'⟩ ⟨lab.tgt, 0, env''⟩ ∧
      InvC cx.lt (((paramsOf cx.g lab.tgt).take lab.tys.length).reverse ++ lab.outer) (entOf cx.ent lab.tgt)
        fr' env'' := by
  simp only [chkJump, hlr, Bool.false_eq_true, if_false] at hj
  split at hj
  · rename_i t args hi
    simp only [Bool.and_eq_true, beq_iff_eq] at hj
    obtain ⟨rfl, hedge⟩ := hj
    obtain ⟨T, hT, hTl, hinv'⟩ := edge_sound cx c' lab args fr' env' hedge hinv
    refine ⟨hasPred_of_instr hi rfl, _, steps_jump w cx.g hal _ _ _ _ env' T hi hT hTl, ?_⟩
    have hl : fr'.stack.length = lab.tys.length + lab.outer.length := by
      rw [← hinv.vals, List.length_map, hlen]
    have : fr'.stack.take lab.tys.length ++ fr'.stack.drop (fr'.stack.length - lab.outer.length) = fr'.stack := by
      rw [hl, Nat.add_sub_cancel, List.take_append_drop]
    rw [this] at hinv'
    exact hinv'
  · cases hj

theorem PA_succ (hal : cx.g.alias = []) {n : Nat} (hps : PS w cx m n) : PA w cx m (n + 1) := by
  intro b lab labs c fr env st nb nbx hlabs hlr hout hinv hfin
  have hne : chkL cx (lab :: labs) c b ≠ .fail := by
    intro h; rw [h] at hfin; simp [finishArm] at hfin
  have hres := hps b (lab :: labs) c fr env st (hlabs.cons lab hlr) hinv hne
  simp only [Wasm.execInstr]
  generalize Wasm.execSeq m n (toInstrs b) fr st = out at hres ⊢
  obtain ⟨ctl, fr', st'⟩ := out
  obtain ⟨hst, hres⟩ := hres
  simp only at hst hres
  subst hst
  have hh : fr.stack.length = lab.outer.length := by rw [← hinv.vals, List.length_map, hout]
  cases ctl with
  | next =>
    obtain ⟨c', env', hr, hs, hi⟩ := hres
    rw [hr] at hfin
    simp only [finishArm] at hfin
    split at hfin
    · rename_i hc
      simp only [Bool.and_eq_true, beq_iff_eq] at hc
      obtain ⟨hp, env'', hs2, hi2⟩ := arm_end (w := w) hal hlr hi hc.1 hc.2
      refine ⟨rfl, ?_⟩
      simp only [afterBlock, hp, if_true]
      exact ⟨_, env'', rfl, hs.trans hs2, hi2⟩
    · cases hfin
  | br l =>
    cases l with
    | zero =>
      simp only [BrOK, List.getElem?_cons_zero, hlr, Bool.false_eq_true, if_false] at hres
      obtain ⟨hp, env'', hs2, hi2⟩ := hres
      refine ⟨rfl, ?_⟩
      simp only [afterBlock, hp, if_true, Wasm.splitTop]
      refine ⟨_, env'', rfl, hs2, ?_⟩
      simp only [entryCS]
      rw [hh]
      exact hi2
    | succ l =>
      have hres' : BrOK w cx (lab :: labs) (l + 1) ⟨c.blk, c.pos, env⟩ fr' := hres
      rw [brOK_cons_succ] at hres'
      exact ⟨rfl, hres'⟩
  | ret => exact ⟨rfl, hres⟩
  | trap k => exact ⟨rfl, hres⟩
  | exhausted => exact ⟨rfl, trivial⟩


theorem entryCS_stack0 (cx : Ctx) (t : Nat) (stk : List TV) (nb : Nat) : (entryCS cx t 0 stk nb).stack = stk := by
  simp [entryCS]

theorem PL_succ (hal : cx.g.alias = []) {n : Nat} (hps : PS w cx m n) (hpl : PL w cx m n) : PL w cx m (n + 1) := by
  intro b H tys stk labs fr env st nb2 nb nbx hlabs hinv hfin
  have hne : chkL cx (⟨H, [], stk, false⟩ :: labs) (entryCS cx H 0 stk nb2) b ≠ .fail := by
    intro h; rw [h] at hfin; simp [finishArm] at hfin
  have hinv0 : InvC cx.lt (entryCS cx H 0 stk nb2).stack (entryCS cx H 0 stk nb2).vars fr env := by
    rw [entryCS_stack0]; exact hinv
  have hres := hps b (⟨H, [], stk, false⟩ :: labs) (entryCS cx H 0 stk nb2) fr env st
    (hlabs.cons _ rfl) hinv0 hne
  simp only [Wasm.execInstr]
  generalize Wasm.execSeq m n (toInstrs b) fr st = out at hres ⊢
  obtain ⟨ctl, fr', st'⟩ := out
  obtain ⟨hst, hres⟩ := hres
  simp only at hst hres
  subst hst
  have hh : fr.stack.length = stk.length := by rw [← hinv.vals, List.length_map]
  have hsrc : (⟨(entryCS cx H 0 stk nb2).blk, (entryCS cx H 0 stk nb2).pos, env⟩ : Pt) = ⟨H, 0, env⟩ := rfl
  rw [hsrc] at hres
  cases ctl with
  | next =>
    obtain ⟨c', env', hr, hs, hi⟩ := hres
    rw [hr] at hfin
    simp only [finishArm] at hfin
    split at hfin
    · rename_i hc
      simp only [Bool.and_eq_true, beq_iff_eq] at hc
      obtain ⟨hp, env'', hs2, hi2⟩ := arm_end (w := w) (lab := ⟨H + 1, tys, stk, false⟩) hal rfl hi hc.1 hc.2
      refine ⟨rfl, ?_⟩
      simp only [afterBlock, hp, if_true]
      exact ⟨_, env'', rfl, hs.trans hs2, hi2⟩
    · cases hfin
  | br l =>
    cases l with
    | zero =>
      have hres' : BrOK w cx (⟨H, [], stk, false⟩ :: labs) 0 ⟨H, 0, env⟩ fr' := hres
      simp only [BrOK, List.getElem?_cons_zero, Bool.false_eq_true, if_false, List.length_nil, List.take_zero,
        List.reverse_nil, List.nil_append] at hres'
      obtain ⟨hp, env'', hs2, hi2⟩ := hres'
      have := hpl b H tys stk labs ⟨fr'.stack.drop (fr'.stack.length - stk.length), fr'.locals⟩ env'' st' nb2 nb nbx
        hlabs hi2 hfin
      rw [hh]
      exact Res.prepend hs2 this
    | succ l =>
      have hres' : BrOK w cx (⟨H, [], stk, false⟩ :: labs) (l + 1) ⟨H, 0, env⟩ fr' := hres
      rw [brOK_cons_succ] at hres'
      exact ⟨rfl, hres'⟩
  | ret => exact ⟨rfl, hres⟩
  | trap k => exact ⟨rfl, hres⟩
  | exhausted => exact ⟨rfl, trivial⟩


theorem PS_succ {n : Nat} (hpi : PI w cx m n) (hps : PS w cx m n) : PS w cx m (n + 1) := by
  intro is labs c fr env st hlabs hinv hne
  cases is with
  | nil =>
    simp only [chkL, toInstrs, Wasm.execSeq]
    exact ⟨rfl, c, env, rfl, Steps.refl _ _ _, hinv⟩
  | cons i rest =>
    simp only [toInstrs, Wasm.execSeq]
    have hne_i : chkI cx labs c i ≠ .fail := by
      intro h; apply hne; simp only [chkL, h]
    have hres := hpi i labs c fr env st hlabs hinv hne_i
    generalize Wasm.execInstr m n i.toInstr fr st = out at hres ⊢
    obtain ⟨ctl, fr', st'⟩ := out
    obtain ⟨hst, hres⟩ := hres
    simp only at hst hres
    subst hst
    cases ctl with
    | next =>
      obtain ⟨c', env', hr, hs, hi⟩ := hres
      have hl : chkL cx labs c (i :: rest) = chkL cx labs c' rest := by simp only [chkL, hr]
      rw [hl] at hne ⊢
      exact Res.prepend hs (hps rest labs c' fr' env' st' hlabs hi hne)
    | br l => exact ⟨rfl, hres⟩
    | ret => exact ⟨rfl, hres⟩
    | trap k => exact ⟨rfl, hres⟩
    | exhausted => exact ⟨rfl, trivial⟩


theorem peekVals_env {lt stk vars} {fr : Wasm.Frame} {env : Val → Nat} (h : InvC lt stk vars fr env) (k : Nat) :
    (peekVals stk k).map env = (fr.stack.take k).reverse := by
  simp only [peekVals, List.map_reverse, List.map_map, ← h.vals, ← List.map_take]
  rfl

theorem PI_block (_hal : cx.g.alias = []) {n : Nat} (hpa : PA w cx m n) (bt : BT) (body : List CI)
    (labs : List Lab) (c : CS) (fr : Wasm.Frame) (env : Val → Nat) (st : Wasm.Store)
    (hlabs : LabsOK cx labs) (hinv : InvC cx.lt c.stack c.vars fr env)
    (hne : chkI cx labs c (.block bt body) ≠ .fail) :
    Res w cx labs ⟨c.blk, c.pos, env⟩ (chkI cx labs c (.block bt body))
      (Wasm.execInstr m n (CI.block bt body).toInstr fr st) st := by
  simp only [chkI] at hne ⊢
  split at hne
  · exact absurd rfl hne
  · rename_i hp
    rw [if_neg hp]
    split at hne
    · rename_i nb hfin
      simp only [CI.toInstr]
      exact hpa body ⟨c.nb, bt.results, c.stack, false⟩ labs { c with nb := c.nb + 1 } fr env st nb nb hlabs rfl rfl
        hinv hfin
    · exact absurd rfl hne

theorem PI_br (hal : cx.g.alias = []) (n : Nat) (l : Nat)
    (labs : List Lab) (c : CS) (fr : Wasm.Frame) (env : Val → Nat) (st : Wasm.Store)
    (hlabs : LabsOK cx labs) (hinv : InvC cx.lt c.stack c.vars fr env)
    (hne : chkI cx labs c (.br l) ≠ .fail) :
    Res w cx labs ⟨c.blk, c.pos, env⟩ (chkI cx labs c (.br l))
      (Wasm.execInstr m (n + 1) (CI.br l).toInstr fr st) st := by
  simp only [chkI] at hne
  simp only [CI.toInstr, Wasm.execInstr]
  refine ⟨rfl, ?_⟩
  show BrOK w cx labs l _ fr
  unfold BrOK
  cases hl : labs[l]? with
  | none => simp [hl] at hne
  | some lab =>
    simp only [hl] at hne ⊢
    split at hne
    · rename_i hj
      by_cases hr : lab.isRet = true
      · rw [if_pos hr]
        simp only [chkJump, hr, if_true, Bool.and_eq_true] at hj
        have htys := hlabs.1 lab (List.mem_of_getElem? hl) hr
        have := ends_ret w cx.g c.blk c.pos _ env (getElem?_of_expect hj.2)
        rw [peekVals_env hinv, htys] at this
        exact this
      · rw [if_neg hr]
        have hr' : lab.isRet = false := by cases h : lab.isRet <;> simp_all
        simp only [chkJump, hr', Bool.false_eq_true, if_false] at hj
        split at hj
        · rename_i t args hi
          simp only [Bool.and_eq_true, beq_iff_eq] at hj
          obtain ⟨rfl, hedge⟩ := hj
          obtain ⟨T, hT, hTl, hinv'⟩ := edge_sound cx c lab args fr env hedge hinv
          exact ⟨hasPred_of_instr hi rfl, _, steps_jump w cx.g hal _ _ _ _ env T hi hT hTl, hinv'⟩
        · cases hj
    · exact absurd rfl hne

theorem PI_loop (hal : cx.g.alias = []) {n : Nat} (hpl : PL w cx m n) (bt : BT) (body : List CI)
    (labs : List Lab) (c : CS) (fr : Wasm.Frame) (env : Val → Nat) (st : Wasm.Store)
    (hlabs : LabsOK cx labs) (hinv : InvC cx.lt c.stack c.vars fr env)
    (hne : chkI cx labs c (.loop bt body) ≠ .fail) :
    Res w cx labs ⟨c.blk, c.pos, env⟩ (chkI cx labs c (.loop bt body))
      (Wasm.execInstr m n (CI.loop bt body).toInstr fr st) st := by
  simp only [chkI] at hne ⊢
  split at hne
  · exact absurd rfl hne
  · rename_i hp
    rw [if_neg hp]
    split at hne
    · rename_i hj
      rw [if_pos hj]
      split at hne
      · rename_i nb hfin
        simp only [CI.toInstr]
        -- the jump to the header
        simp only [chkJump, Bool.false_eq_true, if_false] at hj
        split at hj
        · rename_i t args hi
          simp only [Bool.and_eq_true, beq_iff_eq] at hj
          obtain ⟨rfl, hedge⟩ := hj
          obtain ⟨T, hT, hTl, hinv'⟩ := edge_sound cx c ⟨c.nb, [], c.stack, false⟩ args fr env hedge hinv
          simp only [List.length_nil, List.take_zero, List.reverse_nil, List.nil_append] at hinv'
          have hh : fr.stack.length = c.stack.length := by rw [← hinv.vals, List.length_map]
          rw [hh, Nat.sub_self, List.drop_zero] at hinv'
          have := hpl body c.nb bt.results c.stack labs fr _ st (c.nb + 2) nb nb hlabs hinv' hfin
          exact Res.prepend (steps_jump w cx.g hal _ _ _ _ env T hi hT hTl) this
        · cases hj
      · exact absurd rfl hne
    · exact absurd rfl hne


theorem trapCodeCF_unreachable : trapCodeCF "unreachable" = codeUnreachable := by decide

theorem PI_unreachable (n : Nat)
    (labs : List Lab) (c : CS) (fr : Wasm.Frame) (env : Val → Nat) (st : Wasm.Store)
    (hne : chkI cx labs c .unreachable ≠ .fail) :
    Res w cx labs ⟨c.blk, c.pos, env⟩ (chkI cx labs c .unreachable)
      (Wasm.execInstr m (n + 1) CI.unreachable.toInstr fr st) st := by
  simp only [chkI] at hne
  simp only [CI.toInstr, Wasm.execInstr]
  refine ⟨rfl, ?_⟩
  split at hne
  · rename_i he
    have := ends_exit w cx.g c.blk c.pos execCtx codeUnreachable env (getElem?_of_expect he)
    show Ends w cx.g _ (.trap (trapCodeCF "unreachable") [] [])
    rw [trapCodeCF_unreachable]
    exact this
  · exact absurd rfl hne

theorem PI_ret (n : Nat)
    (labs : List Lab) (c : CS) (fr : Wasm.Frame) (env : Val → Nat) (st : Wasm.Store)
    (hinv : InvC cx.lt c.stack c.vars fr env)
    (hne : chkI cx labs c (.op .ret) ≠ .fail) :
    Res w cx labs ⟨c.blk, c.pos, env⟩ (chkI cx labs c (.op .ret))
      (Wasm.execInstr m (n + 1) (CI.op .ret).toInstr fr st) st := by
  simp only [chkI] at hne
  simp only [CI.toInstr, SI.toInstr, Wasm.execInstr]
  refine ⟨rfl, ?_⟩
  split at hne
  · rename_i he
    simp only [Bool.and_eq_true] at he
    have := ends_ret w cx.g c.blk c.pos _ env (getElem?_of_expect he.2)
    rw [peekVals_env hinv] at this
    exact this
  · exact absurd rfl hne


theorem InvC.pop {lt : List Ty} {p : TV} {stk : List TV} {vars} {fr : Wasm.Frame} {env : Val → Nat}
    (h : InvC lt (p :: stk) vars fr env) :
    fr.stack = env p.1 :: stk.map (fun q => env q.1) ∧ env p.1 < 2 ^ p.2.bits ∧
    InvC lt stk vars ⟨stk.map (fun q => env q.1), fr.locals⟩ env := by
  have hv := h.vals
  simp only [List.map_cons] at hv
  exact ⟨hv.symm, h.rng p (List.mem_cons_self ..),
    ⟨rfl, fun q hq => h.rng q (List.mem_cons_of_mem _ hq), h.vlen, h.llen, h.var⟩⟩

theorem InvC.push {lt : List Ty} {stk : List TV} {vars} {fr : Wasm.Frame} {env : Val → Nat}
    (h : InvC lt stk vars fr env) (p : TV) (hr : env p.1 < 2 ^ p.2.bits) :
    InvC lt (p :: stk) vars ⟨env p.1 :: fr.stack, fr.locals⟩ env := by
  refine ⟨?_, ?_, h.vlen, h.llen, h.var⟩
  · simp only [List.map_cons, h.vals]
  · intro q hq
    rcases List.mem_cons.mp hq with rfl | hq
    · exact hr
    · exact h.rng q hq

theorem InvC.setVar {lt : List Ty} {stk : List TV} {vars} {fr : Wasm.Frame} {env : Val → Nat}
    (h : InvC lt stk vars fr env) (x : Nat) (v : TV) (hx : x < vars.length) (hty : lt[x]? = some v.2)
    (hr : env v.1 < 2 ^ v.2.bits) :
    InvC lt stk (vars.set x (some v)) ⟨fr.stack, fr.locals.set! x (env v.1)⟩ env := by
  refine ⟨h.vals, h.rng, ?_, ?_, ?_⟩
  · simp only [List.length_set, h.vlen]
  · simp only [Array.set!, Array.size_setIfInBounds, h.llen]
  · intro y u hy
    have hget : (fr.locals.set! x (env v.1))[y]! = ((fr.locals.toList.set x (env v.1))[y]?).getD 0 :=
      arr_get _ _ (by simp only [Array.set!, Array.toList_setIfInBounds]) y
    have hsz : x < fr.locals.toList.length := by
      rw [Array.length_toList, h.llen, ← h.vlen]; exact hx
    rw [List.getElem?_set] at hy
    by_cases hxy : x = y
    · subst hxy
      simp only [hx, if_true, Option.some.injEq] at hy
      subst hy
      refine ⟨?_, hty, hr⟩
      rw [hget, List.getElem?_set]
      simp only [hsz, if_true, Option.getD_some]
    · simp only [hxy, if_false] at hy
      obtain ⟨h1, h2, h3⟩ := h.var y u hy
      refine ⟨?_, h2, h3⟩
      rw [hget, List.getElem?_set]
      simp only [hxy, if_false]
      rw [h1, arr_get fr.locals _ rfl y]

theorem vars_getD {vars : List (Option TV)} {x : Nat} {v : TV} (h : vars.getD x none = some v) :
    vars[x]? = some (some v) := by
  rw [List.getD_eq_getElem?_getD] at h
  cases hx : vars[x]? with
  | none => simp [hx] at h
  | some o => simp only [hx, Option.getD_some] at h; rw [h]

theorem PI_localGet (n : Nat) (x : Nat)
    (labs : List Lab) (c : CS) (fr : Wasm.Frame) (env : Val → Nat) (st : Wasm.Store)
    (hinv : InvC cx.lt c.stack c.vars fr env)
    (hne : chkI cx labs c (.op (.localGet x)) ≠ .fail) :
    Res w cx labs ⟨c.blk, c.pos, env⟩ (chkI cx labs c (.op (.localGet x)))
      (Wasm.execInstr m (n + 1) (CI.op (.localGet x)).toInstr fr st) st := by
  simp only [chkI] at hne ⊢
  simp only [CI.toInstr, SI.toInstr, Wasm.execInstr]
  refine ⟨rfl, ?_⟩
  split at hne
  · rename_i t v hlt hv
    split at hne
    · rename_i hty
      rw [if_pos hty]
      obtain ⟨h1, h2, h3⟩ := hinv.var x v (vars_getD hv)
      refine ⟨_, env, rfl, Steps.refl _ _ _, ?_⟩
      have := hinv.push v h3
      rw [h1] at this
      exact this
    · exact absurd rfl hne
  · exact absurd rfl hne

theorem PI_localSet (n : Nat) (x : Nat)
    (labs : List Lab) (c : CS) (fr : Wasm.Frame) (env : Val → Nat) (st : Wasm.Store)
    (hinv : InvC cx.lt c.stack c.vars fr env)
    (hne : chkI cx labs c (.op (.localSet x)) ≠ .fail) :
    Res w cx labs ⟨c.blk, c.pos, env⟩ (chkI cx labs c (.op (.localSet x)))
      (Wasm.execInstr m (n + 1) (CI.op (.localSet x)).toInstr fr st) st := by
  simp only [chkI] at hne ⊢
  simp only [CI.toInstr, SI.toInstr, Wasm.execInstr]
  split at hne
  · rename_i v stk t hstk hlt
    split at hne
    · rename_i hc
      rw [if_pos hc]
      rw [hstk] at hinv
      obtain ⟨hfs, hr, hinv'⟩ := hinv.pop
      rw [hfs]
      refine ⟨rfl, _, env, rfl, Steps.refl _ _ _, ?_⟩
      exact hinv'.setVar x v hc.2 (by rw [hlt, hc.1]) hr
    · exact absurd rfl hne
  · exact absurd rfl hne

theorem PI_localTee (n : Nat) (x : Nat)
    (labs : List Lab) (c : CS) (fr : Wasm.Frame) (env : Val → Nat) (st : Wasm.Store)
    (hinv : InvC cx.lt c.stack c.vars fr env)
    (hne : chkI cx labs c (.op (.localTee x)) ≠ .fail) :
    Res w cx labs ⟨c.blk, c.pos, env⟩ (chkI cx labs c (.op (.localTee x)))
      (Wasm.execInstr m (n + 1) (CI.op (.localTee x)).toInstr fr st) st := by
  simp only [chkI] at hne ⊢
  simp only [CI.toInstr, SI.toInstr, Wasm.execInstr]
  split at hne
  · rename_i v stk t hstk hlt
    split at hne
    · rename_i hc
      rw [if_pos hc]
      have hinv0 := hinv
      rw [hstk] at hinv
      obtain ⟨hfs, hr, _⟩ := hinv.pop
      rw [hfs]
      refine ⟨rfl, _, env, rfl, Steps.refl _ _ _, ?_⟩
      have := hinv0.setVar x v hc.2 (by rw [hlt, hc.1]) hr
      rw [hfs] at this
      exact this
    · exact absurd rfl hne
  · exact absurd rfl hne


theorem mem_varIds {vars : List (Option TV)} {x : Nat} {v : TV} (h : vars[x]? = some (some v)) :
    v.1 ∈ varIds vars := by
  simp only [varIds, List.mem_filterMap]
  exact ⟨some v, List.mem_of_getElem? h, rfl⟩

theorem trapCodeCF_trapKind {code : Nat} (h : code = codeDivByZero ∨ code = codeOverflow) :
    trapCodeCF (trapKind code) = code := by
  rcases h with rfl | rfl <;> decide

def opR (cx : Ctx) (c : CS) (i : SI) : Nat :=
  if (lowerI i ⟨0, c.stack, []⟩).1.length = 0 then 0
  else (((instrsOf cx.g c.blk)[c.pos]?).map (fun j => j.results.headD 0)).getD 0

theorem chkOp_eq (cx : Ctx) (c : CS) (i : SI) :
    chkOp cx c i =
      match tcStep [] i (c.stack.map (·.2)) with
      | none => .fail
      | some _ =>
        if freshFor c (resultsOf i (opR cx c i) c.stack) && expect cx.g c (lowerI i ⟨opR cx c i, c.stack, []⟩).1 then
          .live { c with pos := c.pos + (lowerI i ⟨opR cx c i, c.stack, []⟩).1.length,
                         stack := (lowerI i ⟨opR cx c i, c.stack, []⟩).2.stack }
        else .fail := rfl

theorem PI_plain (n : Nat) (i : SI) (hi : isPlain i = true)
    (labs : List Lab) (c : CS) (fr : Wasm.Frame) (env : Val → Nat) (st : Wasm.Store)
    (hinv : InvC cx.lt c.stack c.vars fr env)
    (hne : chkOp cx c i ≠ .fail) :
    Res w cx labs ⟨c.blk, c.pos, env⟩ (chkOp cx c i) (Wasm.execInstr m (n + 1) i.toInstr fr st) st := by
  rw [chkOp_eq] at hne ⊢
  generalize opR cx c i = r at hne ⊢
  cases htc : tcStep [] i (c.stack.map (·.2)) with
  | none => simp [htc] at hne
  | some tys' =>
    simp only [htc] at hne ⊢
    split at hne
    · rename_i hc
      rw [if_pos hc]
      simp only [Bool.and_eq_true] at hc
      obtain ⟨hfr, hexp⟩ := hc
      have hfresh : ∀ p ∈ c.stack, ∀ q ∈ resultsOf i r c.stack, p.1 ≠ q := by
        intro p hp q hq heq
        simp only [freshFor, List.all_eq_true, Bool.and_eq_true, Bool.not_eq_true', List.contains_eq_mem,
          decide_eq_false_iff_not] at hfr
        have := (hfr q hq).1
        apply this
        rw [← heq]
        exact List.mem_map_of_mem hp
      have hvfresh : ∀ (x : Nat) (v : TV), c.vars[x]? = some (some v) → v.1 ∉ resultsOf i r c.stack := by
        intro x v hx hq
        simp only [freshFor, List.all_eq_true, Bool.and_eq_true, Bool.not_eq_true', List.contains_eq_mem,
          decide_eq_false_iff_not] at hfr
        exact (hfr _ hq).2 (mem_varIds hx)
      obtain ⟨fs, fl⟩ := fr
      rcases sim_plain w m i hi r c.stack (c.stack.map (·.2)) tys' fs fl env st n
          ⟨hinv.vals, rfl, hinv.rng⟩ hfresh htc with
        ⟨stack', env', hsp, hss, hinv', hframe⟩ | ⟨code, fr', hsp, hss, hcode⟩
      · rw [hsp]
        refine ⟨rfl, _, env', rfl, steps_straight w cx.g c.blk c.pos _ env env' (drop_of_expect hexp) hss, ?_⟩
        refine ⟨hinv'.vals, hinv'.rng, hinv.vlen, hinv.llen, ?_⟩
        intro x v hx
        rw [hframe v.1 (hvfresh x v hx)]
        exact hinv.var x v hx
      · rw [hsp]
        refine ⟨rfl, ?_⟩
        show Ends w cx.g _ (.trap (trapCodeCF (trapKind code)) [] [])
        rw [trapCodeCF_trapKind hcode]
        exact ends_trap w cx.g c.blk c.pos _ env code (drop_of_expect hexp) hss
    · exact absurd rfl hne


theorem PI_ite (hal : cx.g.alias = []) {n : Nat} (hpa : PA w cx m n) (bt : BT) (he : Bool) (th el : List CI)
    (labs : List Lab) (c : CS) (fr : Wasm.Frame) (env : Val → Nat) (st : Wasm.Store)
    (hlabs : LabsOK cx labs) (hinv : InvC cx.lt c.stack c.vars fr env)
    (hne : chkI cx labs c (.ite bt he th el) ≠ .fail) :
    Res w cx labs ⟨c.blk, c.pos, env⟩ (chkI cx labs c (.ite bt he th el))
      (Wasm.execInstr m (n + 1) (CI.ite bt he th el).toInstr fr st) st := by
  obtain ⟨blk, pos, stack, vars, nb⟩ := c
  cases stack with
  | nil => simp [chkI] at hne
  | cons v stk =>
    simp only [chkI] at hne ⊢
    split at hne
    · exact absurd rfl hne
    · rename_i hp
      rw [if_neg hp]
      split at hne
      · exact absurd rfl hne
      · rename_i hq
        rw [if_neg hq]
        split at hne
        · rename_i cv tE argsE hiE
          split at hne
          · rename_i tT argsT hiT
            split at hne
            · rename_i hc
              rw [if_pos hc]
              obtain ⟨hv, hbr, hj⟩ := hc
              split at hne
              · rename_i nb1 hfin1
                split at hne
                · rename_i nb2 hfin2
                  simp only [Bool.and_eq_true, beq_iff_eq] at hbr hj
                  obtain ⟨⟨hcv, htE⟩, hedgeE⟩ := hbr
                  obtain ⟨htT, hedgeT⟩ := hj
                  subst hcv htE htT
                  obtain ⟨fstack, flocals⟩ := fr
                  have hvals : env v.1 :: stk.map (fun p => env p.1) = fstack := hinv.vals
                  subst hvals
                  have hrng : env v.1 < 2 ^ 32 := by
                    have := hinv.rng v (List.mem_cons_self ..)
                    rw [hv] at this; exact this
                  have hinvP : InvC cx.lt stk vars ⟨stk.map (fun p => env p.1), flocals⟩ env :=
                    ⟨rfl, fun p hp => hinv.rng p (List.mem_cons_of_mem _ hp), hinv.vlen, hinv.llen, hinv.var⟩
                  simp only [CI.toInstr, Wasm.execInstr, Nat.mod_eq_of_lt hrng]
                  by_cases h0 : env v.1 = 0
                  · -- else arm
                    obtain ⟨TE, hTE, hTEl, hinvE⟩ := edge_sound cx ⟨blk, pos, stk, vars, tT⟩
                      ⟨tT + 1, [], stk, false⟩ argsE ⟨stk.map (fun p => env p.1), flocals⟩ env hedgeE hinvP
                    simp only [List.length_nil, List.take_zero, List.reverse_nil, List.nil_append, List.length_map,
                      Nat.sub_self, List.drop_zero] at hinvE
                    have hsE := steps_brz_taken w cx.g hal blk pos v.1 (tT + 1) argsE env TE hiE h0 hTE hTEl
                    have hE := hpa el ⟨tT + 2, bt.results, stk, false⟩ labs (entryCS cx (tT + 1) 0 stk nb1)
                      ⟨stk.map (fun p => env p.1), flocals⟩ _ st nb2 nb2 hlabs rfl (entryCS_stack0 ..)
                      (by rw [entryCS_stack0]; exact hinvE) hfin2
                    simp only [h0, bne_self_eq_false, Bool.false_eq_true, if_false]
                    exact Res.prepend hsE hE
                  · -- then arm
                    obtain ⟨TT, hTT, hTTl, hinvT⟩ := edge_sound cx ⟨blk, pos, stk, vars, tT⟩
                      ⟨tT, [], stk, false⟩ argsT ⟨stk.map (fun p => env p.1), flocals⟩ env hedgeT hinvP
                    simp only [List.length_nil, List.take_zero, List.reverse_nil, List.nil_append, List.length_map,
                      Nat.sub_self, List.drop_zero] at hinvT
                    have hs1 := steps_brz_not w cx.g blk pos v.1 (tT + 1) argsE env hiE h0
                    have hs2 := steps_jump w cx.g hal blk (pos + 1) tT argsT env TT hiT hTT hTTl
                    have hT := hpa th ⟨tT + 2, bt.results, stk, false⟩ labs (entryCS cx tT 0 stk (tT + 3))
                      ⟨stk.map (fun p => env p.1), flocals⟩ _ st nb1 nb2 hlabs rfl (entryCS_stack0 ..)
                      (by rw [entryCS_stack0]; exact hinvT) hfin1
                    have hb : (env v.1 != 0) = true := by simp [h0]
                    simp only [hb, if_true]
                    exact Res.prepend (hs1.trans hs2) hT
                · exact absurd rfl hne
              · exact absurd rfl hne
            · exact absurd rfl hne
          · simp at hne
        · simp at hne

theorem InvC.pop' {lt : List Ty} {v : TV} {stk : List TV} {vars : List (Option TV)} {fr : Wasm.Frame}
    {env : Val → Nat} (h : InvC lt (v :: stk) vars fr env) :
    fr.stack = env v.1 :: stk.map (fun p => env p.1) ∧
    InvC lt stk vars ⟨stk.map (fun p => env p.1), fr.locals⟩ env :=
  ⟨by rw [← h.vals]; rfl, ⟨rfl, fun p hp => h.rng p (List.mem_cons_of_mem _ hp), h.vlen, h.llen, h.var⟩⟩

theorem PI_brIf (hal : cx.g.alias = []) (n : Nat) (l : Nat)
    (labs : List Lab) (c : CS) (fr : Wasm.Frame) (env : Val → Nat) (st : Wasm.Store)
    (hlabs : LabsT cx labs) (hret : ∀ lab ∈ labs, lab.isRet = true → lab.tgt = retBlk)
    (hinv : InvC cx.lt c.stack c.vars fr env)
    (hne : chkI cx labs c (.brIf l) ≠ .fail) :
    Res w cx labs ⟨c.blk, c.pos, env⟩ (chkI cx labs c (.brIf l))
      (Wasm.execInstr m (n + 1) (CI.brIf l).toInstr fr st) st := by
  cases hstk : c.stack with
  | nil => simp [chkI, hstk] at hne
  | cons v stk =>
    cases hl : labs[l]? with
    | none => simp [chkI, hstk, hl] at hne
    | some lab =>
      simp only [chkI, hstk, hl] at hne ⊢
      simp only [ne_eq, ite_eq_right_iff, reduceCtorEq, imp_false, Classical.not_not] at hne
      rw [if_pos hne]
      obtain ⟨hty, hbr, hj⟩ := hne
      rw [hstk] at hinv
      obtain ⟨hfs, hinv1⟩ := hinv.pop'
      have hcv : env v.1 % 2 ^ 32 = env v.1 := by
        have := hinv.rng v (List.mem_cons_self)
        rw [hty] at this
        exact Nat.mod_eq_of_lt this
      simp only [CI.toInstr, Wasm.execInstr, hfs, hcv]
      split at hbr
      · rename_i cv t args hi
        split at hj
        · rename_i tE argsE hiE
          simp only [Bool.and_eq_true, beq_iff_eq] at hbr hj
          obtain ⟨⟨rfl, rfl⟩, hbr⟩ := hbr
          obtain ⟨rfl, hedgeE⟩ := hj
          by_cases hz : env v.1 = 0
          · have hb : (env v.1 != 0) = false := by simp [hz]
            rw [hb]
            simp only [Bool.false_eq_true, if_false]
            obtain ⟨T, hT, hTl, hinv'⟩ := edge_sound cx { c with stack := stk } ⟨c.nb, [], stk, false⟩ argsE
              ⟨stk.map (fun p => env p.1), fr.locals⟩ env hedgeE hinv1
            simp only [List.length_nil, List.take_zero, List.reverse_nil, List.nil_append, List.length_map,
              Nat.sub_self, List.drop_zero] at hinv'
            refine ⟨rfl, entryCS cx c.nb 0 stk (c.nb + 1), _, rfl,
              (steps_brnz_not w cx.g _ _ _ _ _ env hi hz).trans (steps_jump w cx.g hal _ _ _ _ env T hiE hT hTl), ?_⟩
            rw [entryCS_stack0]
            exact hinv'
          · have hb : (env v.1 != 0) = true := by simp [hz]
            rw [if_pos hb]
            refine ⟨rfl, ?_⟩
            show BrOK w cx labs l _ ⟨stk.map (fun p => env p.1), fr.locals⟩
            unfold BrOK
            simp only [hl]
            by_cases hr : lab.isRet = true
            · rw [if_pos hr] at hbr ⊢
              simp only [Bool.and_eq_true, beq_iff_eq] at hbr
              obtain ⟨⟨rfl, hpre⟩, hrb⟩ := hbr
              have htys := hlabs lab (List.mem_of_getElem? hl) hr
              have htgt := hret lab (List.mem_of_getElem? hl) hr
              unfold retBlockOK at hrb
              cases hR : cx.g.findBlock retBlk with
              | none => simp [hR] at hrb
              | some R =>
                simp only [hR, Bool.and_eq_true, beq_iff_eq, decide_eq_true_eq] at hrb
                obtain ⟨⟨hRt, hnd⟩, hRi⟩ := hrb
                rw [htgt, htys] at hi
                rw [htys] at hpre
                simp only [hasPrefix, beq_iff_eq, List.length_reverse] at hpre
                have hlen : cx.res.length ≤ stk.length := by
                  have := congrArg List.length hpre
                  simp only [List.length_take, List.length_map, List.length_reverse] at this
                  omega
                have hRl : R.params.length = cx.res.length := by rw [← hRt, List.length_map]
                have hpl : (peekVals stk cx.res.length).length = cx.res.length := by
                  simp only [peekVals, List.length_reverse, List.length_map, List.length_take]; omega
                have hs1 := steps_brnz_taken w cx.g hal c.blk c.pos v.1 retBlk _ env R hi hz hR (by rw [hpl, hRl])
                have hi0 : (instrsOf cx.g retBlk)[0]? = some (.ret (R.params.map (·.1))) := by
                  simp [instrsOf, hR, hRi]
                have he := ends_ret w cx.g retBlk 0 _ (bindVals env R.params ((peekVals stk cx.res.length).map env)) hi0
                have hfin := hs1.ends he
                have hpv := params_vals R.params (peekVals stk cx.res.length) env (stk.take cx.res.length).reverse
                  R.params.length hnd (Nat.le_refl _)
                  (by simp only [List.length_reverse, List.length_take]; omega)
                  (by rw [List.take_of_length_le (by omega)]; simp only [peekVals, List.map_reverse])
                  (by rw [List.take_length, hRt, List.map_reverse, List.map_take, hpre, List.reverse_reverse])
                  (fun p hp => hinv1.rng p (List.mem_of_mem_take (List.mem_reverse.mp hp)))
                rw [List.take_length] at hpv
                rw [List.map_map] at hfin
                have hcomp : (bindVals env R.params ((peekVals stk cx.res.length).map env) ∘ fun x => x.1) =
                    fun p : TV => bindVals env R.params ((peekVals stk cx.res.length).map env) p.1 := rfl
                rw [hcomp, hpv, List.map_reverse, List.map_take] at hfin
                exact hfin
            · rw [if_neg hr] at hbr ⊢
              obtain ⟨T, hT, hTl, hinv'⟩ := edge_sound cx { c with stack := stk } lab args
                ⟨stk.map (fun p => env p.1), fr.locals⟩ env hbr hinv1
              exact ⟨hasPred_of_instr hi rfl, _, steps_brnz_taken w cx.g hal _ _ _ _ _ env T hi hz hT hTl, hinv'⟩
        · cases hj
      · cases hbr



theorem chkI_plain (labs : List Lab) (c : CS) (i : SI) (hi : isPlain i = true) :
    chkI cx labs c (.op i) = chkOp cx c i := by
  cases i <;> first | (simp [isPlain] at hi; done) | simp only [chkI]

theorem sim_all (hal : cx.g.alias = []) : ∀ n, PI w cx m n ∧ PS w cx m n ∧ PA w cx m n ∧ PL w cx m n := by
  intro n
  induction n with
  | zero =>
    refine ⟨?_, ?_, ?_, ?_⟩
    · intro i labs c fr env st _ _ _
      simp only [Wasm.execInstr]
      exact Res.exhausted
    · intro is labs c fr env st _ _ _
      simp only [Wasm.execSeq]
      exact Res.exhausted
    · intro b lab labs c fr env st nb nbx _ _ _ _ _
      simp only [Wasm.execInstr]
      exact Res.exhausted
    · intro b H tys stk labs fr env st nb2 nb nbx _ _ _
      simp only [Wasm.execInstr]
      exact Res.exhausted
  | succ n ih =>
    obtain ⟨hpi, hps, hpa, hpl⟩ := ih
    have hpa' : PA w cx m (n + 1) := PA_succ hal hps
    have hpl' : PL w cx m (n + 1) := PL_succ hal hps hpl
    refine ⟨?_, PS_succ hpi hps, hpa', hpl'⟩
    intro i labs c fr env st hlabs hinv hne
    cases i with
    | op si =>
      by_cases hp : isPlain si = true
      · rw [chkI_plain labs c si hp] at hne ⊢
        exact PI_plain n si hp labs c fr env st hinv hne
      · cases si with
        | ret => exact PI_ret n labs c fr env st hinv hne
        | localGet x => exact PI_localGet n x labs c fr env st hinv hne
        | localSet x => exact PI_localSet n x labs c fr env st hinv hne
        | localTee x => exact PI_localTee n x labs c fr env st hinv hne
        | _ => exact absurd rfl hp
    | unreachable => exact PI_unreachable n labs c fr env st hne
    | br l => exact PI_br hal n l labs c fr env st hlabs hinv hne
    | brIf l => exact PI_brIf hal n l labs c fr env st hlabs.1 hlabs.2 hinv hne
    | block bt body => exact PI_block hal hpa' bt body labs c fr env st hlabs hinv hne
    | loop bt body => exact PI_loop hal hpl' bt body labs c fr env st hlabs hinv hne
    | ite bt he th el => exact PI_ite hal hpa bt he th el labs c fr env st hlabs hinv hne

end Wz.Proofs.FrontCF
