import Wz.Model.Isolation
/-
C11 lemmas: the abstraction relation between an instance in the shared heap and a lone instance, the
frame property of `hstep`, and step-wise refinement.
-/
namespace Wz.C11
open Wz.Model.Isolation

/-- pointwise relation of two lists (core Lean has no `Forall₂`) -/
inductive All2 {α β} (R : α → β → Prop) : List α → List β → Prop
  | nil : All2 R [] []
  | cons {a b l1 l2} : R a b → All2 R l1 l2 → All2 R (a :: l1) (b :: l2)

/-- the six mutable objects are the instance's own, its code is a compiled module's -/
def Private (i : Inst) : Prop :=
  i.mem = .own i.id .mem ∧ i.tbl = .own i.id .tbl ∧ i.glob = .own i.id .glob ∧
  i.dhdr = .own i.id .dhdr ∧ i.ehdr = .own i.id .ehdr ∧ i.sys = .own i.id .sys ∧ ∃ mid, i.code = .shared mid .code

/-- what a data/element instance entry of instance `id` may point to: a segment of a compiled module, or
the instance's own copy of one -/
def roFor (id : Nat) : Addr → Prop
  | .shared _ (.dseg _) => True
  | .shared _ (.eseg _) => True
  | .ownD i _ => i = id
  | .ownE i _ => i = id
  | _ => False

def SegRel (pick : Obj → Option (List Nat)) (h : Heap) (id : Nat) : Option Addr → Option (List Nat) → Prop
  | none, none => True
  | some a, some b => roFor id a ∧ (h.get a).bind pick = some b
  | _, _ => False

/-- `Rel h i s`: the lone state `s` is what instance `i` looks like inside heap `h` -/
structure Rel (h : Heap) (i : Inst) (s : LState) : Prop where
  mem : h.get i.mem = some (.mem s.mem)
  tbl : h.get i.tbl = some (.tbl s.tmax s.tbl)
  glob : h.get i.glob = some (.vals s.glob)
  sys : h.get i.sys = some (.sys s.sys)
  code : h.get i.code = some (.code s.fns)
  data : ∃ dh, h.get i.dhdr = some (.hdrs dh) ∧ All2 (SegRel pickBytes h i.id) dh s.data
  elem : ∃ eh, h.get i.ehdr = some (.hdrs eh) ∧ All2 (SegRel pickRefs h i.id) eh s.elem

/-! ### list lemmas -/

theorem forall2_imp {α β} {R S : α → β → Prop} (hRS : ∀ a b, R a b → S a b) :
    ∀ {l1 : List α} {l2 : List β}, All2 R l1 l2 → All2 S l1 l2
  | _, _, .nil => .nil
  | _, _, .cons h t => .cons (hRS _ _ h) (forall2_imp hRS t)

theorem forall2_length {α β} {R : α → β → Prop} :
    ∀ {l1 : List α} {l2 : List β}, All2 R l1 l2 → l1.length = l2.length
  | _, _, .nil => rfl
  | _, _, .cons _ t => by simp [forall2_length t]

theorem forall2_get {α β} {R : α → β → Prop} :
    ∀ {l1 : List α} {l2 : List β}, All2 R l1 l2 → ∀ (k : Nat) (x : α), l1[k]? = some x → ∃ y, l2[k]? = some y ∧ R x y
  | _, _, .nil, k, x, hx => by simp at hx
  | _, _, .cons h t, 0, x, hx => by
    simp at hx; subst hx; exact ⟨_, by simp, h⟩
  | _, _, .cons _ t, k + 1, x, hx => by
    simp at hx
    obtain ⟨y, hy, r⟩ := forall2_get t k x hx
    exact ⟨y, by simpa using hy, r⟩

theorem forall2_get_none {α β} {R : α → β → Prop} {l1 : List α} {l2 : List β} (f : All2 R l1 l2)
    (k : Nat) (hx : l1[k]? = none) : l2[k]? = none := by
  have := forall2_length f
  simp at hx ⊢; omega

theorem forall2_set {α β} {R : α → β → Prop} {x : α} {y : β} (hxy : R x y) :
    ∀ {l1 : List α} {l2 : List β}, All2 R l1 l2 → ∀ (k : Nat), All2 R (l1.set k x) (l2.set k y)
  | _, _, .nil, _ => by simpa using All2.nil
  | _, _, .cons _ t, 0 => by simpa using All2.cons hxy t
  | _, _, .cons h t, k + 1 => by simpa using All2.cons h (forall2_set hxy t k)

/-! ### frames -/

theorem roFor_ne_own {id : Nat} {a : Addr} (ha : roFor id a) (j : Nat) (f : Fld) : a ≠ .own j f := by
  intro e; subst e; simp [roFor] at ha

theorem segRel_frame {pick h h' id} (hf : ∀ a, roFor id a → h'.get a = h.get a) :
    ∀ e d, SegRel pick h id e d → SegRel pick h' id e d
  | none, none, _ => trivial
  | some a, some b, ⟨hr, hg⟩ => ⟨hr, by rw [hf a hr]; exact hg⟩
  | none, some _, hfalse => hfalse.elim
  | some _, none, hfalse => hfalse.elim

/-- a heap change that leaves everything but instance `k`'s own objects alone preserves `Rel` of `j ≠ k` -/
theorem rel_frame {h h' : Heap} {j : Inst} {s : LState} (k : Nat)
    (hf : ∀ a, (∀ f, a ≠ .own k f) → h'.get a = h.get a)
    (hp : Private j) (hne : j.id ≠ k) (r : Rel h j s) : Rel h' j s := by
  obtain ⟨id, mem, tbl, glob, dhdr, ehdr, sys, code⟩ := j
  obtain ⟨h1, h2, h3, h4, h5, h6, mid, h7⟩ := hp
  simp only at h1 h2 h3 h4 h5 h6 h7 hne
  subst h1 h2 h3 h4 h5 h6 h7
  have own : ∀ f, h'.get (.own id f) = h.get (.own id f) := fun f =>
    hf _ (fun g e => by injection e with e1 _; exact hne e1)
  have ro : ∀ a, roFor id a → h'.get a = h.get a := fun a ha => hf a (fun f => roFor_ne_own ha k f)
  obtain ⟨rm, rt, rg, rs, rc, ⟨dh, rdh, fd⟩, ⟨eh, reh, fe⟩⟩ := r
  exact ⟨by simp only [own]; exact rm, by simp only [own]; exact rt, by simp only [own]; exact rg,
    by simp only [own]; exact rs, by rw [hf _ (fun f e => by cases e)]; exact rc,
    ⟨dh, by simp only [own]; exact rdh, forall2_imp (segRel_frame ro) fd⟩,
    ⟨eh, by simp only [own]; exact reh, forall2_imp (segRel_frame ro) fe⟩⟩

/-- a step of instance `i` changes only `i`'s own six objects -/
theorem hstep_frame (env : Env) (h : Heap) (i : Inst) (op : Op) (hp : Private i) (a : Addr)
    (ha : ∀ f, a ≠ .own i.id f) : (hstep env h i op).1.get a = h.get a := by
  obtain ⟨id, mem, tbl, glob, dhdr, ehdr, sys, code⟩ := i
  obtain ⟨h1, h2, h3, h4, h5, h6, mid, h7⟩ := hp
  simp only at h1 h2 h3 h4 h5 h6 h7 ha
  subst h1 h2 h3 h4 h5 h6 h7
  cases op <;> simp only [hstep] <;> (repeat' split) <;> simp [Heap.set, ha]

/-! ### updates of one own object -/

section upd
variable {h : Heap} {i : Inst} {s : LState}

private theorem seg_keep {pick id f o} {h : Heap} :
    ∀ e d, SegRel pick h id e d → SegRel pick (h.set (.own id f) o) id e d :=
  segRel_frame (fun a ha => Heap.get_set_ne _ _ _ _ (roFor_ne_own ha id f))

theorem rel_set_mem (hp : Private i) (r : Rel h i s) (m' : Mem) :
    Rel (h.set i.mem (.mem m')) i { s with mem := m' } := by
  obtain ⟨id, mem, tbl, glob, dhdr, ehdr, sys, code⟩ := i
  obtain ⟨h1, h2, h3, h4, h5, h6, mid, h7⟩ := hp
  simp only at h1 h2 h3 h4 h5 h6 h7
  subst h1 h2 h3 h4 h5 h6 h7
  obtain ⟨rm, rt, rg, rs, rc, ⟨dh, rdh, fd⟩, ⟨eh, reh, fe⟩⟩ := r
  exact ⟨by simp [Heap.set], by simpa [Heap.set] using rt, by simpa [Heap.set] using rg,
    by simpa [Heap.set] using rs, by simpa [Heap.set] using rc,
    ⟨dh, by simpa [Heap.set] using rdh, forall2_imp seg_keep fd⟩,
    ⟨eh, by simpa [Heap.set] using reh, forall2_imp seg_keep fe⟩⟩

theorem rel_set_tbl (hp : Private i) (r : Rel h i s) (t' : List Nat) :
    Rel (h.set i.tbl (.tbl s.tmax t')) i { s with tbl := t' } := by
  obtain ⟨id, mem, tbl, glob, dhdr, ehdr, sys, code⟩ := i
  obtain ⟨h1, h2, h3, h4, h5, h6, mid, h7⟩ := hp
  simp only at h1 h2 h3 h4 h5 h6 h7
  subst h1 h2 h3 h4 h5 h6 h7
  obtain ⟨rm, rt, rg, rs, rc, ⟨dh, rdh, fd⟩, ⟨eh, reh, fe⟩⟩ := r
  exact ⟨by simpa [Heap.set] using rm, by simp [Heap.set], by simpa [Heap.set] using rg,
    by simpa [Heap.set] using rs, by simpa [Heap.set] using rc,
    ⟨dh, by simpa [Heap.set] using rdh, forall2_imp seg_keep fd⟩,
    ⟨eh, by simpa [Heap.set] using reh, forall2_imp seg_keep fe⟩⟩

theorem rel_set_glob (hp : Private i) (r : Rel h i s) (g' : List (Nat × Nat)) :
    Rel (h.set i.glob (.vals g')) i { s with glob := g' } := by
  obtain ⟨id, mem, tbl, glob, dhdr, ehdr, sys, code⟩ := i
  obtain ⟨h1, h2, h3, h4, h5, h6, mid, h7⟩ := hp
  simp only at h1 h2 h3 h4 h5 h6 h7
  subst h1 h2 h3 h4 h5 h6 h7
  obtain ⟨rm, rt, rg, rs, rc, ⟨dh, rdh, fd⟩, ⟨eh, reh, fe⟩⟩ := r
  exact ⟨by simpa [Heap.set] using rm, by simpa [Heap.set] using rt, by simp [Heap.set],
    by simpa [Heap.set] using rs, by simpa [Heap.set] using rc,
    ⟨dh, by simpa [Heap.set] using rdh, forall2_imp seg_keep fd⟩,
    ⟨eh, by simpa [Heap.set] using reh, forall2_imp seg_keep fe⟩⟩

theorem rel_set_sys (hp : Private i) (r : Rel h i s) (y' : Sys) :
    Rel (h.set i.sys (.sys y')) i { s with sys := y' } := by
  obtain ⟨id, mem, tbl, glob, dhdr, ehdr, sys, code⟩ := i
  obtain ⟨h1, h2, h3, h4, h5, h6, mid, h7⟩ := hp
  simp only at h1 h2 h3 h4 h5 h6 h7
  subst h1 h2 h3 h4 h5 h6 h7
  obtain ⟨rm, rt, rg, rs, rc, ⟨dh, rdh, fd⟩, ⟨eh, reh, fe⟩⟩ := r
  exact ⟨by simpa [Heap.set] using rm, by simpa [Heap.set] using rt, by simpa [Heap.set] using rg,
    by simp [Heap.set], by simpa [Heap.set] using rc,
    ⟨dh, by simpa [Heap.set] using rdh, forall2_imp seg_keep fd⟩,
    ⟨eh, by simpa [Heap.set] using reh, forall2_imp seg_keep fe⟩⟩

/-- `data.drop k`: the header entry is nilled, the lone instance forgets its copy -/
theorem rel_drop_data (hp : Private i) (r : Rel h i s) (dh : List (Option Addr))
    (hdh : h.get i.dhdr = some (.hdrs dh)) (k : Nat) :
    Rel (h.set i.dhdr (.hdrs (dh.set k none))) i { s with data := s.data.set k none } := by
  obtain ⟨id, mem, tbl, glob, dhdr, ehdr, sys, code⟩ := i
  obtain ⟨h1, h2, h3, h4, h5, h6, mid, h7⟩ := hp
  simp only at h1 h2 h3 h4 h5 h6 h7
  subst h1 h2 h3 h4 h5 h6 h7
  obtain ⟨rm, rt, rg, rs, rc, ⟨dh', rdh, fd⟩, ⟨eh, reh, fe⟩⟩ := r
  simp only at hdh rdh
  rw [hdh] at rdh
  injection rdh with rdh; injection rdh with rdh; subst rdh
  exact ⟨by simpa [Heap.set] using rm, by simpa [Heap.set] using rt, by simpa [Heap.set] using rg,
    by simpa [Heap.set] using rs, by simpa [Heap.set] using rc,
    ⟨dh.set k none, by simp [Heap.set], forall2_set trivial (forall2_imp seg_keep fd) k⟩,
    ⟨eh, by simpa [Heap.set] using reh, forall2_imp seg_keep fe⟩⟩

theorem rel_drop_elem (hp : Private i) (r : Rel h i s) (eh : List (Option Addr))
    (heh : h.get i.ehdr = some (.hdrs eh)) (k : Nat) :
    Rel (h.set i.ehdr (.hdrs (eh.set k none))) i { s with elem := s.elem.set k none } := by
  obtain ⟨id, mem, tbl, glob, dhdr, ehdr, sys, code⟩ := i
  obtain ⟨h1, h2, h3, h4, h5, h6, mid, h7⟩ := hp
  simp only at h1 h2 h3 h4 h5 h6 h7
  subst h1 h2 h3 h4 h5 h6 h7
  obtain ⟨rm, rt, rg, rs, rc, ⟨dh, rdh, fd⟩, ⟨eh', reh, fe⟩⟩ := r
  simp only at heh reh
  rw [heh] at reh
  injection reh with reh; injection reh with reh; subst reh
  exact ⟨by simpa [Heap.set] using rm, by simpa [Heap.set] using rt, by simpa [Heap.set] using rg,
    by simpa [Heap.set] using rs, by simpa [Heap.set] using rc,
    ⟨dh, by simpa [Heap.set] using rdh, forall2_imp seg_keep fd⟩,
    ⟨eh.set k none, by simp [Heap.set], forall2_set trivial (forall2_imp seg_keep fe) k⟩⟩

end upd

/-- looking a segment up through the header gives what the lone instance has in its own copy -/
theorem seg_of_rel {pick h id e d} (r : SegRel pick h id e d) : seg pick h e = some (d.getD []) := by
  match e, d, r with
  | none, none, _ => rfl
  | some a, some b, ⟨_, hg⟩ => simpa [seg] using hg

end Wz.C11
