/-
C02 helper lemmas: amd64 address-mode folding (core 3).
-/
import Wz.Model.Amode

namespace Wz.C02
open Wz.Model.Amode

/-- value an addend stands for -/
def addendVal (ρ : Nat → BitVec 64) (a : Addend) : BitVec 64 :=
  (match a.r with
   | some r => r.val ρ <<< a.shift
   | none => 0#64) + a.off

/-- invariants of the addends `lowerAddend` produces -/
structure AddendOK (a : Addend) : Prop where
  regNoOff : a.r.isSome → a.off = 0#64
  noRegNoShift : a.r = none → a.shift = 0

theorem sext_small (u : BitVec 64) (h : u.toNat < 2^31) : (u.setWidth 32).signExtend 64 = u := by
  apply BitVec.eq_of_toNat_eq
  rw [BitVec.toNat_signExtend]
  simp only [BitVec.toNat_setWidth, BitVec.msb_eq_decide]
  have : u.toNat % 2^32 = u.toNat := by omega
  simp [this]
  split <;> omega

theorem sext_small32 (u : BitVec 32) (h : u.msb = false) : u.signExtend 64 = u.setWidth 64 := by
  apply BitVec.eq_of_toNat_eq
  rw [BitVec.toNat_signExtend]
  simp [h]

theorem setWidth_small (u : BitVec 64) (h : u.toNat < 2^32) : (u.setWidth 32).setWidth 64 = u := by
  apply BitVec.eq_of_toNat_eq
  simp only [BitVec.toNat_setWidth]
  omega

theorem msb_false_lt (u : BitVec 32) (h : u.msb = false) : (u.setWidth 64).toNat < 2^31 := by
  have := u.isLt
  simp only [BitVec.msb_eq_decide] at h
  simp only [BitVec.toNat_setWidth]
  simp at h
  omega

/-- L1: in the repaired variant each well-shaped addend is lowered to an addend of the same value. -/
theorem lowerAddend_val (ρ : Nat → BitVec 64) (e : AExpr) (hs : e.frontendShape = true) (hc : e.clean ρ) :
    addendVal ρ (lowerAddend true e) = e.eval ρ ∧ AddendOK (lowerAddend true e) ∧
      ((lowerAddend true e).shift ≠ 0 → e.isShl = true) := by
  cases e with
  | r64 r => simp [lowerAddend, addendVal, AExpr.eval, Reg.val, AExpr.isShl]; exact ⟨by simp, by simp⟩
  | k64 c m =>
    cases m <;> simp [lowerAddend, lowerAddendFromInstr, addendVal, AExpr.eval, Reg.val, AExpr.isShl] <;>
      exact ⟨by simp, by simp⟩
  | k32 c m => simp [AExpr.frontendShape] at hs
  | uext x =>
    cases x with
    | r32 r =>
      simp only [AExpr.clean, Op32.clean] at hc
      simp [lowerAddend, lowerAddendFromInstr, addendVal, AExpr.eval, Op32.eval, Reg.val, AExpr.isShl,
        setWidth_small _ hc]
      exact ⟨by simp, by simp⟩
    | c32 c =>
      simp [lowerAddend, lowerAddendFromInstr, addendVal, AExpr.eval, Op32.eval, AExpr.isShl]
      exact ⟨by simp, by simp⟩
  | sext x =>
    cases x with
    | r32 r => simp [AExpr.frontendShape] at hs
    | c32 c =>
      simp [lowerAddend, lowerAddendFromInstr, addendVal, AExpr.eval, Op32.eval, AExpr.isShl]
      exact ⟨by simp, by simp⟩
  | shl x amt =>
    cases amt with
    | ar r => simp [AExpr.frontendShape] at hs
    | ac a =>
      simp only [AExpr.frontendShape, decide_eq_true_eq] at hs
      have h64 : a.toNat % 64 = a.toNat := by omega
      cases x <;>
        simp [lowerAddend, lowerAddendFromInstr, hs, addendVal, AExpr.eval, ShX.eval, ShAmt.eval, ShX.toReg,
          Reg.val, AExpr.isShl, h64] <;> exact ⟨by simp, by simp⟩

theorem fits_of_not_big (u : BitVec 64) (hb : ¬ (¬ u = 0#64 ∧ fitsImm31 u = false)) : u.toNat < 2^31 := by
  unfold fitsImm31 at hb
  by_cases h0 : u = 0#64
  · subst h0; decide
  · simp [h0] at hb
    exact hb

/-- L2: folding two addends and the static offset. -/
theorem lowerAddendsToAmode_val (ρ : Nat → BitVec 64) (x y : Addend) (offBase : BitVec 32)
    (hx : AddendOK x) (hy : AddendOK y) (hm : offBase.msb = false)
    (hsh : ¬ (x.shift ≠ 0 ∧ y.shift ≠ 0)) :
    ∃ am, lowerAddendsToAmode x y offBase = some am ∧
      am.eval ρ = addendVal ρ x + addendVal ρ y + offBase.setWidth 64 := by
  obtain ⟨xr, xoff, xsh⟩ := x
  obtain ⟨yr, yoff, ysh⟩ := y
  have hob := msb_false_lt offBase hm
  have hse := sext_small32 offBase hm
  cases xr with
  | some xr =>
    have hxo : xoff = 0#64 := hx.regNoOff (by simp)
    subst hxo
    cases yr with
    | some yr =>
      have hyo : yoff = 0#64 := hy.regNoOff (by simp)
      subst hyo
      have hnb : ((offBase.setWidth 64) != 0#64 && !fitsImm31 (offBase.setWidth 64)) = false := by
        simp [fitsImm31]; intro _; simpa [BitVec.toNat_setWidth] using hob
      simp only [ne_eq, not_and, Decidable.not_not] at hsh
      by_cases h1 : xsh = 0
      · subst h1
        refine ⟨_, by simp [lowerAddendsToAmode, hnb]; rfl, ?_⟩
        simp [Amode.eval, addendVal, hse]
        ac_rfl
      · have h2 : ysh = 0 := hsh h1
        subst h2
        refine ⟨_, by simp [lowerAddendsToAmode, hnb, h1]; rfl, ?_⟩
        simp [Amode.eval, addendVal, hse]
        ac_rfl
    | none =>
      have hys : ysh = 0 := hy.noRegNoShift rfl
      subst hys
      by_cases hb : (¬ yoff + offBase.setWidth 64 = 0#64 ∧ fitsImm31 (yoff + offBase.setWidth 64) = false)
      · by_cases h1 : xsh = 0
        · subst h1
          refine ⟨_, by simp [lowerAddendsToAmode, hb]; rfl, ?_⟩
          simp [Amode.eval, addendVal, Reg.val]
          ac_rfl
        · refine ⟨_, by simp [lowerAddendsToAmode, hb, h1]; rfl, ?_⟩
          simp [Amode.eval, addendVal, Reg.val]
          ac_rfl
      · have hb' := hb
        have hs := sext_small _ (fits_of_not_big _ hb')
        by_cases h1 : xsh = 0
        · subst h1
          refine ⟨_, by simp [lowerAddendsToAmode, hb']; rfl, ?_⟩
          simp only [Amode.eval, addendVal, hs]
          simp
          ac_rfl
        · refine ⟨_, by simp [lowerAddendsToAmode, hb', h1]; rfl, ?_⟩
          simp only [Amode.eval, addendVal, hs]
          simp [Reg.val]
          ac_rfl
  | none =>
    have hxs : xsh = 0 := hx.noRegNoShift rfl
    subst hxs
    cases yr with
    | some yr =>
      have hyo : yoff = 0#64 := hy.regNoOff (by simp)
      subst hyo
      by_cases hb : (¬ xoff + offBase.setWidth 64 = 0#64 ∧ fitsImm31 (xoff + offBase.setWidth 64) = false)
      · by_cases h1 : ysh = 0
        · subst h1
          refine ⟨_, by simp [lowerAddendsToAmode, hb]; rfl, ?_⟩
          simp [Amode.eval, addendVal, Reg.val]
          ac_rfl
        · refine ⟨_, by simp [lowerAddendsToAmode, hb, h1]; rfl, ?_⟩
          simp [Amode.eval, addendVal, Reg.val]
          ac_rfl
      · have hb' := hb
        have hs := sext_small _ (fits_of_not_big _ hb')
        by_cases h1 : ysh = 0
        · subst h1
          refine ⟨_, by simp [lowerAddendsToAmode, hb']; rfl, ?_⟩
          simp only [Amode.eval, addendVal, hs]
          simp
          ac_rfl
        · refine ⟨_, by simp [lowerAddendsToAmode, hb', h1]; rfl, ?_⟩
          simp only [Amode.eval, addendVal, hs]
          simp [Reg.val]
          ac_rfl
    | none =>
      have hys : ysh = 0 := hy.noRegNoShift rfl
      subst hys
      by_cases hb : (¬ xoff + yoff + offBase.setWidth 64 = 0#64 ∧ fitsImm31 (xoff + yoff + offBase.setWidth 64) = false)
      · refine ⟨_, by simp [lowerAddendsToAmode, hb]; rfl, ?_⟩
        simp [Amode.eval, addendVal, Reg.val]
      · have hb' := hb
        refine ⟨_, by simp [lowerAddendsToAmode, hb']; rfl, ?_⟩
        simp [Amode.eval, addendVal, Reg.val]

/-- Main lemma: the repaired lowering computes the pointer's value plus the zero-extended offset. -/
theorem amode_correct_fixed (p : Ptr) (offBase : BitVec 32) (ρ : Nat → BitVec 64)
    (hs : p.frontendShape = true) (hc : p.clean ρ) :
    ∃ am, lowerToAddressMode true p offBase = some am ∧
      am.eval ρ = p.eval ρ + offBase.setWidth 64 := by
  by_cases hm : offBase.msb = true
  · -- huge static offset: everything goes through one temporary
    cases p with
    | single e =>
      have ⟨hv, hok, _⟩ := lowerAddend_val ρ e hs hc
      simp only [lowerToAddressMode, hm, if_true]
      cases hr : (lowerAddend true e).r with
      | some r =>
        refine ⟨_, rfl, ?_⟩
        have ho := hok.regNoOff (by simp [hr])
        simp only [addendVal, hr, ho] at hv
        simp [Amode.eval, Reg.val, Ptr.eval, ← hv, ho]
        ac_rfl
      | none =>
        refine ⟨_, rfl, ?_⟩
        simp only [addendVal, hr] at hv
        simp [Amode.eval, Reg.val, Ptr.eval, ← hv]
    | add a b self =>
      simp only [Ptr.clean] at hc
      refine ⟨_, by simp [lowerToAddressMode, hm]; rfl, ?_⟩
      simp [Amode.eval, Reg.val, Ptr.eval, hc.2.2]
      ac_rfl
  · have hm' : offBase.msb = false := by simpa using hm
    cases p with
    | single e =>
      have ⟨hv, hok, _⟩ := lowerAddend_val ρ e hs hc
      have hse := sext_small32 offBase hm'
      simp only [lowerToAddressMode, hm', Bool.false_eq_true, if_false]
      cases hr : (lowerAddend true e).r with
      | some r =>
        have ho := hok.regNoOff (by simp [hr])
        simp only [addendVal, hr, ho] at hv
        by_cases h0 : (lowerAddend true e).shift = 0
        · refine ⟨_, by simp [h0]; rfl, ?_⟩
          simp [h0] at hv
          simp [Amode.eval, Ptr.eval, ← hv, hse]
          ac_rfl
        · refine ⟨_, by simp [h0]; rfl, ?_⟩
          simp [Amode.eval, Reg.val, Ptr.eval, ← hv, hse]
          ac_rfl
      | none =>
        refine ⟨_, rfl, ?_⟩
        simp only [addendVal, hr] at hv
        simp [Amode.eval, Reg.val, Ptr.eval, ← hv]
    | add a b self =>
      simp only [Ptr.frontendShape, Bool.and_eq_true, Bool.not_eq_true', Bool.and_eq_false_iff] at hs
      simp only [Ptr.clean] at hc
      have ⟨hva, hoka, hsa⟩ := lowerAddend_val ρ a hs.1.1 hc.1
      have ⟨hvb, hokb, hsb⟩ := lowerAddend_val ρ b hs.1.2 hc.2.1
      have hsh : ¬ ((lowerAddend true a).shift ≠ 0 ∧ (lowerAddend true b).shift ≠ 0) := by
        intro ⟨h1, h2⟩
        have := hsa h1; have := hsb h2
        rcases hs.2 with h | h <;> simp_all
      have ⟨am, h1, h2⟩ := lowerAddendsToAmode_val ρ _ _ offBase hoka hokb hm' hsh
      refine ⟨am, by simp [lowerToAddressMode, hm', h1], ?_⟩
      rw [h2, hva, hvb]; rfl

end Wz.C02
