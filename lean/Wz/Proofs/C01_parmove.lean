import Wz.Model.ParMove

/-! Lemmas for the temporaries branch of `lowerBlockArguments` (see `Wz.Model.ParMove`). -/
namespace Wz.Model.ParMove

/-- the other branch of `lowerBlockArguments`: every source goes to a fresh temporary first, then every temporary
to its destination -/
def viaTemps (es : List (Nat × Nat)) (temps : List Nat) (ρ : Env) : Env :=
  seqMoves (List.zipWith (fun e t => (t, e.2)) es temps)
    (seqMoves (List.zipWith (fun e t => (e.1, t)) es temps) ρ)

theorem distinctDsts_of_nodup (es : List (Nat × Nat)) (h : (es.map (·.2)).Nodup) : distinctDsts es := by
  induction es with
  | nil => trivial
  | cons e es ih =>
    simp only [List.map_cons, List.nodup_cons] at h
    refine ⟨?_, ih h.2⟩
    intro e' he' heq
    exact h.1 (by rw [← heq]; exact List.mem_map_of_mem he')

theorem parMoves_of_mem (es : List (Nat × Nat)) (ρ : Env) (hd : (es.map (·.2)).Nodup) (e : Nat × Nat) (he : e ∈ es) :
    parMoves es ρ e.2 = ρ e.1 := by
  induction es with
  | nil => cases he
  | cons x xs ih =>
    simp only [List.map_cons, List.nodup_cons] at hd
    simp only [parMoves, List.find?_cons]
    cases he with
    | head => simp
    | tail _ hm =>
      have hne : (x.2 == e.2) = false := by
        have : x.2 ≠ e.2 := fun h => hd.1 (by rw [h]; exact List.mem_map_of_mem hm)
        simpa using this
      simp only [hne]
      have := ih hd.2 hm
      simpa [parMoves] using this

theorem parMoves_of_not_dst (es : List (Nat × Nat)) (ρ : Env) (r : Nat) (h : ∀ e ∈ es, e.2 ≠ r) :
    parMoves es ρ r = ρ r := by
  have : es.find? (fun e => e.2 == r) = none := by
    rw [List.find?_eq_none]; intro e he; simpa using h e he
  simp [parMoves, this]


theorem zip1_snd (es : List (Nat × Nat)) (temps : List Nat) (hl : es.length = temps.length) :
    (List.zipWith (fun e t => (e.1, t)) es temps).map (·.2) = temps := by
  induction es generalizing temps with
  | nil => cases temps <;> simp_all
  | cons e es ih =>
    cases temps with
    | nil => simp at hl
    | cons t ts => simp only [List.length_cons, Nat.add_right_cancel_iff] at hl; simp [ih ts hl]

theorem zip2_snd (es : List (Nat × Nat)) (temps : List Nat) (hl : es.length = temps.length) :
    (List.zipWith (fun e t => (t, e.2)) es temps).map (·.2) = es.map (·.2) := by
  induction es generalizing temps with
  | nil => cases temps <;> simp_all
  | cons e es ih =>
    cases temps with
    | nil => simp at hl
    | cons t ts => simp only [List.length_cons, Nat.add_right_cancel_iff] at hl; simp [ih ts hl]

theorem zip1_mem (es : List (Nat × Nat)) (temps : List Nat) (x : Nat × Nat)
    (hx : x ∈ List.zipWith (fun e t => (e.1, t)) es temps) : (∃ e ∈ es, e.1 = x.1) ∧ x.2 ∈ temps := by
  induction es generalizing temps with
  | nil => simp at hx
  | cons e es ih =>
    cases temps with
    | nil => simp at hx
    | cons t ts =>
      simp only [List.zipWith_cons_cons, List.mem_cons] at hx
      cases hx with
      | inl h => subst h; exact ⟨⟨e, List.mem_cons_self .., rfl⟩, List.mem_cons_self ..⟩
      | inr h =>
        obtain ⟨⟨e', he', h1⟩, h2⟩ := ih ts h
        exact ⟨⟨e', List.mem_cons_of_mem _ he', h1⟩, List.mem_cons_of_mem _ h2⟩

theorem zip2_mem (es : List (Nat × Nat)) (temps : List Nat) (x : Nat × Nat)
    (hx : x ∈ List.zipWith (fun e t => (t, e.2)) es temps) : x.1 ∈ temps ∧ ∃ e ∈ es, e.2 = x.2 := by
  induction es generalizing temps with
  | nil => simp at hx
  | cons e es ih =>
    cases temps with
    | nil => simp at hx
    | cons t ts =>
      simp only [List.zipWith_cons_cons, List.mem_cons] at hx
      cases hx with
      | inl h => subst h; exact ⟨List.mem_cons_self .., ⟨e, List.mem_cons_self .., rfl⟩⟩
      | inr h =>
        obtain ⟨h1, ⟨e', he', h2⟩⟩ := ih ts h
        exact ⟨List.mem_cons_of_mem _ h1, ⟨e', List.mem_cons_of_mem _ he', h2⟩⟩

theorem zip_pair (es : List (Nat × Nat)) (temps : List Nat) (hl : es.length = temps.length) (e : Nat × Nat) (he : e ∈ es) :
    ∃ t, (e.1, t) ∈ List.zipWith (fun e t => (e.1, t)) es temps ∧ (t, e.2) ∈ List.zipWith (fun e t => (t, e.2)) es temps := by
  induction es generalizing temps with
  | nil => cases he
  | cons x xs ih =>
    cases temps with
    | nil => simp at hl
    | cons t ts =>
      simp only [List.length_cons, Nat.add_right_cancel_iff] at hl
      cases he with
      | head => exact ⟨t, by simp, by simp⟩
      | tail _ hm =>
        obtain ⟨t', h1, h2⟩ := ih ts hl hm
        exact ⟨t', by simp [h1], by simp [h2]⟩

/-- The temporaries branch implements the parallel assignment as well: for every edge list with distinct
destinations, every list of as many fresh, distinct temporaries, and every register file, all registers other
than the temporaries end up as the parallel assignment says. -/
theorem viaTemps_eq_par (es : List (Nat × Nat)) (temps : List Nat) (ρ : Env)
    (hl : es.length = temps.length) (hd : (es.map (·.2)).Nodup) (ht : temps.Nodup)
    (hfresh : ∀ t ∈ temps, ∀ e ∈ es, e.1 ≠ t ∧ e.2 ≠ t) :
    ∀ r, r ∉ temps → viaTemps es temps ρ r = parMoves es ρ r := by
  intro r hr
  have hd1 : ((List.zipWith (fun e t => (e.1, t)) es temps).map (·.2)).Nodup := by rw [zip1_snd es temps hl]; exact ht
  have hd2 : ((List.zipWith (fun e t => (t, e.2)) es temps).map (·.2)).Nodup := by rw [zip2_snd es temps hl]; exact hd
  have hs1 : ∀ x ∈ List.zipWith (fun e t => (e.1, t)) es temps, ∀ y ∈ List.zipWith (fun e t => (e.1, t)) es temps, y.1 ≠ x.2 := by
    intro x hx y hy
    obtain ⟨_, hx2⟩ := zip1_mem es temps x hx
    obtain ⟨⟨e, he, hy1⟩, _⟩ := zip1_mem es temps y hy
    rw [← hy1]; exact (hfresh x.2 hx2 e he).1
  have hs2 : ∀ x ∈ List.zipWith (fun e t => (t, e.2)) es temps, ∀ y ∈ List.zipWith (fun e t => (t, e.2)) es temps, y.1 ≠ x.2 := by
    intro x hx y hy
    obtain ⟨_, ⟨e, he, hx2⟩⟩ := zip2_mem es temps x hx
    obtain ⟨hy1, _⟩ := zip2_mem es temps y hy
    rw [← hx2]; exact fun h => (hfresh y.1 hy1 e he).2 h.symm
  unfold viaTemps
  rw [seq_eq_par_aux _ ρ hs1 (distinctDsts_of_nodup _ hd1)]
  rw [seq_eq_par_aux _ _ hs2 (distinctDsts_of_nodup _ hd2)]
  by_cases hdst : ∃ e ∈ es, e.2 = r
  · obtain ⟨e, he, her⟩ := hdst
    obtain ⟨t, h1, h2⟩ := zip_pair es temps hl e he
    have a := parMoves_of_mem _ (parMoves (List.zipWith (fun e t => (e.1, t)) es temps) ρ) hd2 (t, e.2) h2
    have b := parMoves_of_mem _ ρ hd1 (e.1, t) h1
    have c := parMoves_of_mem es ρ hd e he
    simp only at a b
    rw [← her, a, b, c]
  · have hnd : ∀ e ∈ es, e.2 ≠ r := fun e he h => hdst ⟨e, he, h⟩
    rw [parMoves_of_not_dst _ _ r (by
      intro x hx
      obtain ⟨_, ⟨e, he, hx2⟩⟩ := zip2_mem es temps x hx
      rw [← hx2]; exact hnd e he)]
    rw [parMoves_of_not_dst _ _ r (by
      intro x hx
      obtain ⟨_, hx2⟩ := zip1_mem es temps x hx
      exact fun h => hr (h ▸ hx2))]
    rw [parMoves_of_not_dst es ρ r hnd]

end Wz.Model.ParMove
