/- Lemmas for C15: where poll_oneoff writes — inside the event buffer `(out, w32 (n*32))` or the result cell. Core Lean only. -/
import Wz.Proofs.C15_W1

namespace Wz.C15
open Wz.Model Wz.Model.Wasi Wz.Model.DescTable Wz.Gen.Wasi

/-- a write of poll_oneoff: inside the event buffer, or the 4-byte result cell (which is inside a memory of `M` bytes) -/
def PQ (out outLen res M : Nat) (w : Wr) : Prop :=
  (out ≤ w.off ∧ w.off + w.len ≤ out + outLen) ∨ (w.off = res ∧ w.len = 4 ∧ res + 4 ≤ M)

theorem read_length (m : Mem) (a n : Nat) : (m.read a n).length = n := by simp [Mem.read]

theorem writeEvent_pq (out outLen res M : Nat) (m : Mem) (ws : List Wr) (off ud e ty : Nat)
    (hws : ∀ w ∈ ws, PQ out outLen res M w) :
    ∀ w ∈ (writeEvent m ws out outLen off ud e ty).2.1, PQ out outLen res M w := by
  unfold writeEvent
  by_cases h0 : off > outLen
  · rw [if_pos h0]; exact hws
  · rw [if_neg h0]
    dsimp only
    have hud : ∀ w ∈ (if outLen - off = 0 then ws else Wr.bytes (out + off) ((m.read ud 8).take (min (outLen - off) 8)) :: ws),
        PQ out outLen res M w := by
      intro w hw
      split at hw
      · exact hws w hw
      · simp only [List.mem_cons] at hw
        rcases hw with rfl | hw
        · left
          have : ((m.read ud 8).take (min (outLen - off) 8)).length = min (outLen - off) 8 := by
            simp [List.length_take, read_length]
          show out ≤ out + off ∧ out + off + ((m.read ud 8).take (min (outLen - off) 8)).length ≤ out + outLen
          omega
        · exact hws w hw
    by_cases h1 : outLen - off ≤ 8
    · rw [if_pos h1]; exact hud
    · rw [if_neg h1]
      have h8 : ∀ w ∈ Wr.bytes (out + off + 8) [e % 256] :: (if outLen - off = 0 then ws else Wr.bytes (out + off) ((m.read ud 8).take (min (outLen - off) 8)) :: ws),
          PQ out outLen res M w := by
        intro w hw
        simp only [List.mem_cons] at hw
        rcases hw with rfl | hw
        · left
          show out ≤ out + off + 8 ∧ out + off + 8 + 1 ≤ out + outLen
          omega
        · exact hud w (by simpa using hw)
      by_cases h2 : outLen - off ≤ 9
      · rw [if_pos h2]; exact h8
      · rw [if_neg h2]
        have h9 : ∀ w ∈ Wr.bytes (out + off + 9) [0] :: Wr.bytes (out + off + 8) [e % 256] :: (if outLen - off = 0 then ws else Wr.bytes (out + off) ((m.read ud 8).take (min (outLen - off) 8)) :: ws),
            PQ out outLen res M w := by
          intro w hw
          simp only [List.mem_cons] at hw
          rcases hw with rfl | hw
          · left
            show out ≤ out + off + 9 ∧ out + off + 9 + 1 ≤ out + outLen
            omega
          · exact h8 w (by simpa using hw)
        by_cases h3 : outLen - off < 14
        · rw [if_pos h3]; exact h9
        · rw [if_neg h3]
          intro w hw
          simp only [List.mem_cons] at hw
          rcases hw with rfl | hw
          · left
            have : (bytesLE 4 ty).length = 4 := bytesLE_length 4 ty
            show out ≤ out + off + 10 ∧ out + off + 10 + (bytesLE 4 ty).length ≤ out + outLen
            omega
          · exact h9 w (by simpa using hw)

/-- the result of `writeEvent`, destructured -/
theorem writeEvent_pq' (out outLen res M : Nat) (m : Mem) (ws : List Wr) (off ud e ty : Nat)
    (hws : ∀ w ∈ ws, PQ out outLen res M w) (m' : Mem) (ws' : List Wr) (b : Bool)
    (heq : writeEvent m ws out outLen off ud e ty = (m', ws', b)) : ∀ w ∈ ws', PQ out outLen res M w := by
  have := writeEvent_pq out outLen res M m ws off ud e ty hws
  rw [heq] at this
  exact this

/-- all writes logged so far are in place -/
def PQs (out outLen res M : Nat) (ws : List Wr) : Prop := ∀ w ∈ ws, PQ out outLen res M w

theorem pollLoop_pqs (fds : Fds) (inp inLen out outLen n res M : Nat) :
    ∀ (fuel i : Nat) (s : PollSt), PQs out outLen res M s.ws →
      PQs out outLen res M (pollLoop fds inp inLen out outLen n fuel i s).1.ws := by
  intro fuel
  induction fuel with
  | zero => intro i s hws; exact hws
  | succ fuel ih =>
    intro i s hws
    unfold pollLoop
    split_all
    all_goals first
      | exact hws
      | exact ih _ _ hws
      | exact writeEvent_pq' out outLen res M _ _ _ _ _ _ hws _ _ _ (by assumption)
      | exact ih _ _ (writeEvent_pq' out outLen res M _ _ _ _ _ _ hws _ _ _ (by assumption))

theorem pollLoop_pq (fds : Fds) (inp inLen out outLen n res M : Nat) (fuel i : Nat) (s : PollSt)
    (h : ∀ w ∈ s.ws, PQ out outLen res M w) :
    ∀ w ∈ (pollLoop fds inp inLen out outLen n fuel i s).1.ws, PQ out outLen res M w :=
  pollLoop_pqs fds inp inLen out outLen n res M fuel i s h

theorem pollFlush_pq (out outLen res M : Nat) :
    ∀ (bl : List (Nat × Nat)) (s : PollSt), (∀ w ∈ s.ws, PQ out outLen res M w) →
      ∀ w ∈ (pollFlush out outLen bl s).1.ws, PQ out outLen res M w := by
  intro bl
  induction bl with
  | nil => intro s hws; exact hws
  | cons b rest ih =>
    intro s hws
    obtain ⟨ud, ty⟩ := b
    unfold pollFlush
    split
    · rename_i heq
      exact writeEvent_pq' out outLen res M _ _ _ _ _ _ hws _ _ _ heq
    · rename_i heq
      exact ih _ (writeEvent_pq' out outLen res M _ _ _ _ _ _ hws _ _ _ heq)

theorem pq_reverse (out outLen res M : Nat) (ws : List Wr) (h : ∀ w ∈ ws, PQ out outLen res M w) :
    ∀ w ∈ ws.reverse, PQ out outLen res M w := fun w hw => h w (List.mem_reverse.1 hw)

theorem pollAfter_pq (fds : Fds) (inp inLen out outLen n res M : Nat) (acc : List (Nat × Nat)) (s0 : PollSt)
    (hres : res + 4 ≤ M) (h0 : ∀ w ∈ s0.ws, PQ out outLen res M w) :
    ∀ w ∈ (pollAfter fds inp inLen out outLen n res acc s0).writes, PQ out outLen res M w := by
  have hl := pollLoop_pq fds inp inLen out outLen n res M n 0 s0 h0
  unfold pollAfter
  generalize pollLoop fds inp inLen out outLen n n 0 s0 = r at hl
  obtain ⟨s, oe⟩ := r
  dsimp only at hl
  have hresw : ∀ v, PQ out outLen res M (Wr.bytes res (bytesLE 4 v)) := fun v =>
    Or.inr ⟨rfl, bytesLE_length 4 v, hres⟩
  cases oe with
  | some e => exact pq_reverse _ _ _ _ _ hl
  | none =>
    dsimp only
    split
    · exact pq_reverse _ _ _ _ _ hl
    · split
      · exact pq_reverse _ _ _ _ _ hl
      · have hf := pollFlush_pq out outLen res M s.blocking.reverse s hl
        generalize pollFlush out outLen s.blocking.reverse s = q at hf
        obtain ⟨s', b⟩ := q
        dsimp only at hf
        cases b with
        | false => exact pq_reverse _ _ _ _ _ hf
        | true =>
          dsimp only
          split
          · refine pq_reverse _ _ _ _ _ ?_
            intro w hw
            simp only [List.mem_cons] at hw
            rcases hw with rfl | hw
            · exact hresw _
            · exact hf w hw
          · exact pq_reverse _ _ _ _ _ hf
      · refine pq_reverse _ _ _ _ _ ?_
        intro w hw
        simp only [List.mem_cons] at hw
        rcases hw with rfl | rfl | hw
        · exact Or.inr ⟨rfl, rfl, hres⟩
        · left
          show out ≤ out ∧ out + outLen ≤ out + outLen
          omega
        · exact hl w hw

theorem pq_to_ok (m : Mem) (out outLen n res : Nat) (hout : out + outLen ≤ m.size) (hlen : outLen ≤ 32 * n) (w : Wr)
    (h : PQ out outLen res m.size w) :
    (w.len = 0 ∨ w.off + w.len ≤ m.size) ∧ Wr.within w [(out, 32 * n), (res, 4)] := by
  rcases h with ⟨h1, h2⟩ | ⟨h1, h2, h3⟩
  · refine ⟨Or.inr (by omega), ?_⟩
    intro a ha1 ha2
    exact ⟨(out, 32 * n), by simp, by simp; omega, by simp; omega⟩
  · refine ⟨Or.inr (by omega), ?_⟩
    intro a ha1 ha2
    exact ⟨(res, 4), by simp, by simp; omega, by simp; omega⟩

theorem pollOneoff_wr1 (fixed : Bool) (fds : Fds) (m : Mem) (inp out n res : Nat) (ho : out < 4294967296)
    (hr : res < 4294967296) (hs : m.size < 9223372036854775808) :
    Wr1 m [(out, 32 * n), (res, 4)] (pollOneoff fixed fds m inp out n res) := by
  have hlen : w32 (n * 32) ≤ 32 * n := by unfold w32; omega
  have hl32 : w32 (n * 32) < 4294967296 := by unfold w32; omega
  unfold pollOneoff
  by_cases hn : n = 0
  · rw [if_pos hn]; exact wr1_nil _ _ _ rfl
  · rw [if_neg hn]
    split
    · exact wr1_nil _ _ _ rfl
    · dsimp only
      split
      · exact wr1_nil _ _ _ rfl
      · split
        · exact wr1_nil _ _ _ rfl
        · rename_i hout'
          have hout : out + w32 (n * 32) ≤ m.size := has_le m out _ ho hl32 hs (by simpa using hout')
          -- the cleared event buffer
          have hws0 : ∀ w ∈ (if w32 (n * 32) = 0 then [] else [Wr.bytes out (List.replicate (w32 (n * 32)) 0)]),
              PQ out (w32 (n * 32)) res m.size w := by
            intro w hw
            split at hw
            · cases hw
            · simp only [List.mem_cons, List.not_mem_nil, or_false] at hw
              subst hw
              left
              show out ≤ out ∧ out + (List.replicate (w32 (n * 32)) 0).length ≤ out + w32 (n * 32)
              simp
          have conv : ∀ (r : Res), (∀ w ∈ r.writes, PQ out (w32 (n * 32)) res m.size w) →
              Wr1 m [(out, 32 * n), (res, 4)] r := by
            intro r hr'
            exact ⟨fun w hw => (pq_to_ok m out _ n res hout hlen w (hr' w hw)).1,
                   fun w hw => (pq_to_ok m out _ n res hout hlen w (hr' w hw)).2⟩
          have fin : ∀ (m1 : Mem) (ws : List Wr), m1.size = m.size → (∀ w ∈ ws, PQ out (w32 (n * 32)) res m.size w) →
              Wr1 m [(out, 32 * n), (res, 4)]
                (if !m1.has res 4 then { err := efault, acc := [(inp, w32 (n * 48)), (out, w32 (n * 32))], writes := ws }
                 else pollAfter fds inp (w32 (n * 48)) out (w32 (n * 32)) n res
                   [(inp, w32 (n * 48)), (out, w32 (n * 32)), (res, 4)]
                   { m := m1.write res (bytesLE 4 n), ws := Wr.bytes res (bytesLE 4 n) :: ws, nevents := 0, blocking := [] }) := by
            intro m1 ws hsz hws
            by_cases hres' : (!m1.has res 4) = true
            · rw [if_pos hres']; exact conv _ hws
            · rw [if_neg hres']
              have hres : res + 4 ≤ m.size := by
                have := has_le m1 res 4 hr (by decide) (by rw [hsz]; exact hs) (by simpa using hres')
                rw [hsz] at this
                exact this
              apply conv
              apply pollAfter_pq _ _ _ _ _ _ _ _ _ _ hres
              intro w hw
              simp only [List.mem_cons] at hw
              rcases hw with rfl | hw
              · exact Or.inr ⟨rfl, bytesLE_length 4 n, hres⟩
              · exact hws w hw
          by_cases hz : w32 (n * 32) = 0
          · rw [if_pos hz, if_pos hz]
            exact fin m [] rfl (fun w hw => by cases hw)
          · rw [if_neg hz] at hws0
            rw [if_neg hz, if_neg hz]
            exact fin _ _ rfl hws0

end Wz.C15
