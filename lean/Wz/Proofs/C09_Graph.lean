/-
C09 helper lemmas: paths, soundness of the executable reachability, and preservation of the graph
invariant by every primitive.
-/
import Wz.Model.Lifetime

namespace Wz.C09
open Wz.Model.Lifetime

/-- reflexive-transitive closure of an edge list (snoc style: the last edge is exposed) -/
inductive Path (E : List Edge) : Node → Node → Prop
  | refl (a : Node) : Path E a a
  | snoc {a b c : Node} : Path E a b → (b, c) ∈ E → Path E a c

theorem Path.trans {E : List Edge} {a b c : Node} (p : Path E a b) (q : Path E b c) : Path E a c := by
  induction q with
  | refl => exact p
  | snoc _ h ih => exact Path.snoc ih h

theorem Path.mono {E E' : List Edge} (h : ∀ e ∈ E, e ∈ E') {a b : Node} (p : Path E a b) : Path E' a b := by
  induction p with
  | refl => exact Path.refl _
  | snoc _ he ih => exact Path.snoc ih (h _ he)

theorem Path.single {E : List Edge} {a b : Node} (h : (a, b) ∈ E) : Path E a b :=
  Path.snoc (Path.refl a) h

/-- a node without outgoing edges reaches only itself -/
theorem Path.eq_of_no_out {E : List Edge} {a x : Node} (h : ∀ e ∈ E, e.1 ≠ a) (p : Path E a x) : x = a := by
  induction p with
  | refl => rfl
  | snoc _ he ih => subst ih; exact absurd rfl (h _ he)

/-- paths in `(a,b) :: E` either avoid the new edge or end with an old path out of `b` -/
theorem Path.split_new {E : List Edge} {a b e x : Node} (p : Path ((a, b) :: E) e x) :
    Path E e x ∨ (Path ((a, b) :: E) e a ∧ Path E b x) := by
  induction p with
  | refl => exact Or.inl (Path.refl _)
  | @snoc u v q he ih =>
    rcases List.mem_cons.1 he with h | h
    · have h1 : u = a := congrArg Prod.fst h
      have h2 : v = b := congrArg Prod.snd h
      subst h1; subst h2
      exact Or.inr ⟨q, Path.refl _⟩
    · rcases ih with ih | ⟨ih1, ih2⟩
      · exact Or.inl (Path.snoc ih h)
      · exact Or.inr ⟨ih1, Path.snoc ih2 h⟩

/-! ### soundness of `sweep` / `closure` / `reachB` -/

theorem sweep_sound (E : List Edge) (S0 : List Node) :
    ∀ (L : List Edge), (∀ e ∈ L, e ∈ E) → ∀ (S : List Node),
      (∀ v ∈ S, ∃ s ∈ S0, Path E s v) → ∀ v ∈ sweep L S, ∃ s ∈ S0, Path E s v := by
  intro L
  induction L with
  | nil => intro _ S hS v hv; exact hS v hv
  | cons e L ih =>
    intro hL S hS v hv
    unfold sweep at hv
    rw [List.foldl_cons] at hv
    have hL' : ∀ e' ∈ L, e' ∈ E := fun e' he' => hL e' (List.mem_cons_of_mem _ he')
    refine ih hL' _ ?_ v hv
    intro v' hv'
    split at hv'
    · rename_i hc
      rcases List.mem_cons.1 hv' with h | h
      · subst h
        have hsrc : e.1 ∈ S := by
          have := Bool.and_eq_true_iff.1 hc
          exact List.contains_iff_mem.1 this.1
        obtain ⟨s, hs, ps⟩ := hS _ hsrc
        exact ⟨s, hs, Path.snoc ps (hL e List.mem_cons_self)⟩
      · exact hS _ h
    · exact hS _ hv'

theorem closure_sound (E : List Edge) (S0 : List Node) :
    ∀ (n : Nat) (S : List Node), (∀ v ∈ S, ∃ s ∈ S0, Path E s v) →
      ∀ v ∈ closure E n S, ∃ s ∈ S0, Path E s v := by
  intro n
  induction n with
  | zero => intro S hS v hv; exact hS v (by simpa [closure] using hv)
  | succ n ih =>
    intro S hS v hv
    have hs := sweep_sound E S0 E (fun _ h => h) S hS
    unfold closure at hv
    simp only at hv
    split at hv
    · exact hs v hv
    · exact ih _ hs v hv

theorem reachB_sound {E : List Edge} {a b : Node} (h : reachB E a b = true) : Path E a b := by
  unfold reachB reachSet at h
  have hb : b ∈ closure E (E.length + 1) [a] := List.contains_iff_mem.1 h
  obtain ⟨s, hs, p⟩ := closure_sound E [a] _ [a] (fun v hv => ⟨v, hv, Path.refl v⟩) b hb
  have : s = a := by simpa using hs
  subst this; exact p

theorem soleOwner_spec {E : List Edge} {x o : Node} (h : soleOwner E x = some o) :
    ∀ u, (u, x) ∈ E → u = o := by
  intro u hu
  unfold soleOwner at h
  have hmem : (u, x) ∈ E.filter (fun e => e.2 == x) := by
    simp [List.mem_filter, hu]
  split at h
  · rename_i heq; rw [heq] at hmem; cases hmem
  · rename_i e rest heq
    rw [heq] at hmem
    split at h
    · rename_i hall
      have ho : e.1 = o := Option.some.inj h
      rcases List.mem_cons.1 hmem with h1 | h1
      · rw [← h1] at ho; exact ho
      · have := (List.all_eq_true.1 hall) _ h1
        have h2 : u = e.1 := by simpa using this
        rw [h2, ho]
    · cases h

/-! ### the invariant -/

/-- Graph invariant.
 * `fresh…`  : node ids are never reused
 * `closed`  : what a live object points to (Go pointer) is live — collector soundness
 * `cov`     : as long as every raw edge passed the shadow check when it was stored, the permanent
               closure of every entry object is closed under raw edges. -/
structure Inv (g : G) : Prop where
  freshLive : ∀ n ∈ g.live, n < g.next
  freshEnt  : ∀ n ∈ g.entries, n < g.next
  freshSrc  : ∀ e ∈ g.perm ++ g.reg ++ g.raw, e.1 < g.next
  closed    : ∀ e ∈ g.perm ++ g.reg, e.1 ∈ g.live → e.2 ∈ g.live
  cov       : g.shadowOk = true → ∀ a ∈ g.entries, ∀ x y, Path g.perm a x → (x, y) ∈ g.raw → Path g.perm a y

theorem inv_empty : Inv {} := by
  constructor <;> intros <;> simp_all

/-- the shadow check implies the semantic guard -/
theorem guard_of_guardB {g : G} {x y : Node} (h : guardB g x y = true) :
    ∀ a ∈ g.entries, Path g.perm a x → Path g.perm a y := by
  intro a ha p
  unfold guardB at h
  rcases Bool.or_eq_true_iff.1 h with h1 | h2
  · exact p.trans (reachB_sound h1)
  · have h2' := Bool.and_eq_true_iff.1 h2
    have hx : x ∉ g.entries := by
      intro hc
      have hc' := List.contains_iff_mem.2 hc
      have h3 := h2'.1
      rw [hc'] at h3
      cases h3
    have hax : a ≠ x := fun e => hx (e ▸ ha)
    cases hso : soleOwner g.perm x with
    | none => rw [hso] at h2'; simp at h2'
    | some o =>
      rw [hso] at h2'
      have hoy : Path g.perm o y := reachB_sound h2'.2
      cases p with
      | refl => exact absurd rfl hax
      | snoc q he =>
        have := soleOwner_spec hso _ he
        subst this
        exact q.trans hoy

theorem mem3 {α} {a b c : List α} {x : α} : x ∈ a ++ b ++ c ↔ x ∈ a ∨ x ∈ b ∨ x ∈ c := by
  simp [List.mem_append, or_assoc]

theorem prim_preserves_inv (g : G) (p : Prim) (I : Inv g) : Inv (applyPrim g p) := by
  unfold applyPrim
  split
  case isFalse => exact I
  case isTrue hok =>
  cases p with
  | alloc e =>
    refine ⟨?_, ?_, ?_, ?_, ?_⟩
    · intro n hn
      rcases List.mem_cons.1 hn with h | h
      · subst h; exact Nat.lt_succ_self _
      · exact Nat.lt_succ_of_lt (I.freshLive n h)
    · intro n hn
      simp only at hn
      split at hn
      · rcases List.mem_cons.1 hn with h | h
        · subst h; exact Nat.lt_succ_self _
        · exact Nat.lt_succ_of_lt (I.freshEnt n h)
      · exact Nat.lt_succ_of_lt (I.freshEnt n hn)
    · intro e' he'; exact Nat.lt_succ_of_lt (I.freshSrc e' he')
    · intro e' he' hl
      have hlt := I.freshSrc e' (by
        rcases List.mem_append.1 he' with h | h
        · exact mem3.2 (Or.inl h)
        · exact mem3.2 (Or.inr (Or.inl h)))
      rcases List.mem_cons.1 hl with h | h
      · exact absurd h (Nat.ne_of_lt hlt)
      · exact List.mem_cons_of_mem _ (I.closed e' he' h)
    · intro hs a ha x y pa hr
      simp only at ha
      have old : a ∈ g.entries → Path g.perm a y := fun h => I.cov hs a h x y pa hr
      split at ha
      · rcases List.mem_cons.1 ha with h | h
        · -- the fresh node has no edges at all
          subst h
          have hx : x = g.next := Path.eq_of_no_out (fun e' he' => by
            have := I.freshSrc e' (mem3.2 (Or.inl he'))
            exact Nat.ne_of_lt this) pa
          subst hx
          have := I.freshSrc _ (mem3.2 (Or.inr (Or.inr hr)))
          exact absurd this (Nat.lt_irrefl _)
        · exact old h
      · exact old ha
  | perm a b =>
    simp only [primOk, Bool.and_eq_true, Bool.or_eq_true] at hok
    obtain ⟨⟨ha, hb⟩, hbe⟩ := hok
    have ha' : a ∈ g.live := List.contains_iff_mem.1 ha
    have hb' : b ∈ g.live := List.contains_iff_mem.1 hb
    refine ⟨I.freshLive, I.freshEnt, ?_, ?_, ?_⟩
    · intro e he
      rcases mem3.1 he with h | h | h
      · rcases List.mem_cons.1 h with h | h
        · subst h; exact I.freshLive _ ha'
        · exact I.freshSrc e (mem3.2 (Or.inl h))
      · exact I.freshSrc e (mem3.2 (Or.inr (Or.inl h)))
      · exact I.freshSrc e (mem3.2 (Or.inr (Or.inr h)))
    · intro e he hl
      rcases List.mem_append.1 he with h | h
      · rcases List.mem_cons.1 h with h | h
        · subst h; exact hb'
        · exact I.closed e (List.mem_append_left _ h) hl
      · exact I.closed e (List.mem_append_right _ h) hl
    · intro hs e he x y pe hr
      have mono : ∀ {u v}, Path g.perm u v → Path ((a, b) :: g.perm) u v :=
        fun q => q.mono (fun _ h => List.mem_cons_of_mem _ h)
      rcases Path.split_new pe with h | ⟨h1, h2⟩
      · exact mono (I.cov hs e he x y h hr)
      · -- the path uses the new edge: e ⇝ a → b ⇝ x (old); b's closure is raw-closed
        have hby : Path g.perm b y := by
          rcases hbe with hent | hno
          · exact I.cov hs b (List.contains_iff_mem.1 hent) x y h2 hr
          · unfold noOut at hno
            have hno' := Bool.and_eq_true_iff.1 hno
            have hx : x = b := Path.eq_of_no_out (fun e' he' => by
              have := (List.all_eq_true.1 hno'.1) e' he'
              simpa using this) h2
            subst hx
            have := (List.all_eq_true.1 hno'.2) _ hr
            simp at this
        exact (Path.snoc h1 List.mem_cons_self).trans (mono hby)
  | reg a b =>
    simp only [primOk, Bool.and_eq_true] at hok
    have ha' : a ∈ g.live := List.contains_iff_mem.1 hok.1
    have hb' : b ∈ g.live := List.contains_iff_mem.1 hok.2
    refine ⟨I.freshLive, I.freshEnt, ?_, ?_, I.cov⟩
    · intro e he
      rcases mem3.1 he with h | h | h
      · exact I.freshSrc e (mem3.2 (Or.inl h))
      · rcases List.mem_cons.1 h with h | h
        · subst h; exact I.freshLive _ ha'
        · exact I.freshSrc e (mem3.2 (Or.inr (Or.inl h)))
      · exact I.freshSrc e (mem3.2 (Or.inr (Or.inr h)))
    · intro e he hl
      rcases List.mem_append.1 he with h | h
      · exact I.closed e (List.mem_append_left _ h) hl
      · rcases List.mem_cons.1 h with h | h
        · subst h; exact hb'
        · exact I.closed e (List.mem_append_right _ h) hl
  | unreg a b =>
    refine ⟨I.freshLive, I.freshEnt, ?_, ?_, I.cov⟩
    · intro e he
      rcases mem3.1 he with h | h | h
      · exact I.freshSrc e (mem3.2 (Or.inl h))
      · exact I.freshSrc e (mem3.2 (Or.inr (Or.inl (List.mem_filter.1 h).1)))
      · exact I.freshSrc e (mem3.2 (Or.inr (Or.inr h)))
    · intro e he hl
      rcases List.mem_append.1 he with h | h
      · exact I.closed e (List.mem_append_left _ h) hl
      · exact I.closed e (List.mem_append_right _ (List.mem_filter.1 h).1) hl
  | raw x y =>
    simp only [primOk] at hok
    have hx' : x ∈ g.live := List.contains_iff_mem.1 hok
    refine ⟨I.freshLive, I.freshEnt, ?_, I.closed, ?_⟩
    · intro e he
      rcases mem3.1 he with h | h | h
      · exact I.freshSrc e (mem3.2 (Or.inl h))
      · exact I.freshSrc e (mem3.2 (Or.inr (Or.inl h)))
      · rcases List.mem_cons.1 h with h | h
        · subst h; exact I.freshLive _ hx'
        · exact I.freshSrc e (mem3.2 (Or.inr (Or.inr h)))
    · intro hs a ha u v pa hr
      simp only [Bool.and_eq_true] at hs
      rcases List.mem_cons.1 hr with h | h
      · have h1 : u = x := congrArg Prod.fst h
        have h2 : v = y := congrArg Prod.snd h
        subst h1; subst h2
        exact guard_of_guardB hs.2 a ha pa
      · exact I.cov hs.1 a ha u v pa h
  | gc keep =>
    simp only [primOk, validKeep, Bool.and_eq_true] at hok
    obtain ⟨⟨_, hsub⟩, hcl⟩ := hok
    refine ⟨?_, I.freshEnt, I.freshSrc, ?_, I.cov⟩
    · intro n hn
      have := (List.all_eq_true.1 hsub) n hn
      exact I.freshLive n (List.contains_iff_mem.1 this)
    · intro e he hl
      have := (List.all_eq_true.1 hcl) e he
      have hl' : keep.contains e.1 = true := List.contains_iff_mem.2 hl
      simp only [hl', Bool.not_true, Bool.false_or] at this
      exact List.contains_iff_mem.1 this

theorem prims_preserve_inv (ps : List Prim) : ∀ (g : G), Inv g → Inv (applyPrims g ps) := by
  induction ps with
  | nil => intro g I; exact I
  | cons p ps ih =>
    intro g I
    unfold applyPrims
    rw [List.foldl_cons]
    exact ih _ (prim_preserves_inv g p I)

/-- live objects only reach live objects along Go pointers -/
theorem live_of_path {g : G} (I : Inv g) {a y : Node} (ha : a ∈ g.live) (p : Path g.perm a y) : y ∈ g.live := by
  induction p with
  | refl => exact ha
  | snoc _ he ih => exact I.closed _ (List.mem_append_left _ he) ih

/-- under `cov`, whatever an entry reaches through pointers AND raw addresses it reaches through
pointers alone -/
theorem perm_path_of_mixed {g : G} (I : Inv g) (hs : g.shadowOk = true) {a y : Node} (ha : a ∈ g.entries)
    (p : Path (g.perm ++ g.raw) a y) : Path g.perm a y := by
  induction p with
  | refl => exact Path.refl _
  | snoc _ he ih =>
    rcases List.mem_append.1 he with h | h
    · exact Path.snoc ih h
    · exact I.cov hs a ha _ _ ih h

end Wz.C09
