/-
C01 / C02 (front end with memory accesses): the static known-safe-bound cache of `Wz.Model.FrontendMem` (value id ↦
bound, SSA value of the absolute address) IS the cache of the path-level model `Wz.Model.SafeBounds` (value id ↦ bound,
dynamic value of the absolute address) under the abstraction "read the address value in the environment": one
`memOpSetup` = one `SafeBounds.stepAccess`, with the same decision (check emitted / elided, trap / no trap), the same
host address, and corresponding caches afterwards.  So `C02.frontend_elision_sound` (about `SafeBounds`) and
`frontmem_confined` talk about the same elision.
-/
import Wz.Proofs.C01_FrontMem_Cons
import Wz.Model.SafeBounds

set_option linter.unusedSimpArgs false

namespace Wz.Proofs.FrontMem
open Wz.Spec Wz.Model.SsaPass Wz.Model.FrontendSL Wz.Model.FrontendMem Wz.Proofs.Front
open Wz.Model

/-- the entry of `SafeBounds` for an entry of the static cache: the address VALUE read in the environment -/
def absEntry (env : Val → Nat) (v : Nat) (e : Nat × Val) : SafeBounds.Entry := ⟨v, e.1, some (env e.2)⟩

/-- the abstraction: every recorded bound is positive (`knownSafeBound.valid()`), and a lookup in the `SafeBounds`
state is the lookup in the static cache -/
def Abs (bs : List (Val × Nat × Val)) (env : Val → Nat) (st : SafeBounds.State) : Prop :=
  (∀ b bound a : Nat, (b, bound, a) ∈ bs → 0 < bound) ∧
  ∀ v : Nat, st.get v = (lookupBound bs v).map (absEntry env v)

theorem memCheck_bounds (s : MS) (b ceil : Nat) (a? : Option Val) :
    (memCheck s b ceil a?).2.2.bounds = (b, ceil, (memCheck s b ceil a?).2.1) :: s.bounds ∧
    (memCheck s b ceil a?).1 ≠ [] ∧ (∀ a0, a? = some a0 → (memCheck s b ceil a?).2.1 = a0) := by
  have hlen : (getMemLen (s.bump 2)).2.2.bounds = s.bounds := by
    unfold getMemLen; split <;> rfl
  have hbase : ∀ t : MS, (getMemBase t).2.2.bounds = t.bounds := by
    intro t; unfold getMemBase; split <;> rfl
  have hbump : ∀ (t : MS) (k : Nat), (t.bump k).bounds = t.bounds := fun _ _ => rfl
  cases a? with
  | some a0 =>
    refine ⟨?_, by simp [memCheck], fun a1 h => by cases h; rfl⟩
    have e : (memCheck s b ceil (some a0)).2.2.bounds =
        (b, ceil, a0) :: ((getMemLen (s.bump 2)).2.2.bump 2).bounds := rfl
    rw [e, hbump, hlen]
    rfl
  | none =>
    refine ⟨?_, by simp [memCheck], fun a1 h => by cases h⟩
    have e : (memCheck s b ceil none).2.2.bounds =
        (b, ceil, (memCheck s b ceil none).2.1) ::
          ((getMemBase ((getMemLen (s.bump 2)).2.2.bump 2)).2.2.bump 1).bounds := rfl
    rw [e, hbump, hbase, hbump, hlen]

theorem find_filter_ne (st : SafeBounds.State) (b v : Nat) (hne : v ≠ b) :
    (st.filter (fun x => x.v != b)).find? (fun e => e.v == v && decide (0 < e.bound)) =
      st.find? (fun e => e.v == v && decide (0 < e.bound)) := by
  induction st with
  | nil => rfl
  | cons x xs ih =>
    by_cases hx : x.v = b
    · have h1 : (x.v != b) = false := by simp [hx]
      have h2 : (x.v == v) = false := by simp [hx, Ne.symm hne]
      simp only [List.filter_cons, h1, Bool.false_eq_true, if_false, List.find?_cons, h2, Bool.false_and, ih]
    · have h1 : (x.v != b) = true := by simp [hx]
      simp only [List.filter_cons, h1, if_true, List.find?_cons, ih]

/-- the cache after recording `(b, ceil, a)`, against `State.set` of the corresponding entry -/
theorem abs_set {bs : List (Val × Nat × Val)} {env env' : Val → Nat} {st : SafeBounds.State} (habs : Abs bs env st)
    (b ceil a : Nat) (hc : 0 < ceil) (x : Nat) (hx : env' a = x)
    (hold : ∀ b' bound' a' : Nat, (b', bound', a') ∈ bs → env' a' = env a') :
    Abs ((b, ceil, a) :: bs) env' (st.set ⟨b, ceil, some x⟩) := by
  obtain ⟨hpos, hget⟩ := habs
  refine ⟨?_, ?_⟩
  · intro b' bound' a' hm
    rcases List.mem_cons.mp hm with h | h
    · simp only [Prod.mk.injEq] at h; omega
    · exact hpos b' bound' a' h
  · intro v
    by_cases hv : v = b
    · subst hv
      simp [SafeBounds.State.get, SafeBounds.State.set, lookupBound, absEntry, hc, hx]
    · have h1 : ((b : Nat) == v) = false := by simp [Ne.symm hv]
      simp only [SafeBounds.State.get, SafeBounds.State.set, List.find?_cons, h1, Bool.false_and, lookupBound,
        if_neg (Ne.symm hv)]
      rw [find_filter_ne st b v hv]
      have := hget v
      simp only [SafeBounds.State.get] at this
      rw [this]
      cases hl : lookupBound bs v with
      | none => rfl
      | some e =>
        obtain ⟨bound', a'⟩ := e
        have hm := lookupBound_mem _ _ _ hl
        simp only [Option.map_some, absEntry, hold v bound' a' hm]

theorem elision_is_model {mc base : Nat} {bytes : ByteArray} {s : MS} {env : Val → Nat} {mem : Mem}
    (h : MInv mc base bytes s env mem) (st : SafeBounds.State) (habs : Abs s.bounds env st) (b off size : Nat)
    (hsz : 0 < size) :
    (bytes.size < env b + (off + size) →
      (SafeBounds.stepAccess env st ⟨base, bytes.size, base, bytes.size⟩ b off size).2 = .trap b (off + size) ∧
      (memOpSetup s b (off + size)).1 ≠ []) ∧
    (env b + (off + size) ≤ bytes.size →
      (SafeBounds.stepAccess env st ⟨base, bytes.size, base, bytes.size⟩ b off size).2 =
        .ok (base + env b) b (off + size) base bytes.size (decide ((memOpSetup s b (off + size)).1 ≠ [])) ∧
      ∀ env' : Val → Nat, (∀ v, v < s.ls.next → env' v = env v) →
        env' (memOpSetup s b (off + size)).2.1 = base + env b →
        Abs (memOpSetup s b (off + size)).2.2.bounds env'
          (SafeBounds.stepAccess env st ⟨base, bytes.size, base, bytes.size⟩ b off size).1) := by
  obtain ⟨hpos, hget⟩ := habs
  have hgb := hget b
  have hold : ∀ env' : Val → Nat, (∀ v, v < s.ls.next → env' v = env v) →
      ∀ b' bound' a' : Nat, (b', bound', a') ∈ s.bounds → env' a' = env a' :=
    fun env' hfr b' bound' a' hm => hfr a' (h.bnd b' bound' a' hm).2.2.2
  unfold memOpSetup SafeBounds.stepAccess
  cases hl : lookupBound s.bounds b with
  | none =>
    rw [hl] at hgb
    simp only [Option.map_none] at hgb
    obtain ⟨hb1, hb2, hb3⟩ := memCheck_bounds s b (off + size) none
    simp only [hgb]
    constructor
    · intro hout
      simp only [if_pos hout]
      exact ⟨trivial, hb2⟩
    · intro hin
      have hnot : ¬ bytes.size < env b + (off + size) := by omega
      simp only [if_neg hnot, hb2, ne_eq, not_false_eq_true, decide_true, SafeBounds.record, hgb]
      refine ⟨trivial, ?_⟩
      intro env' hfr haddr
      rw [hb1]
      exact abs_set ⟨hpos, hget⟩ b (off + size) _ (by omega) _ haddr (hold env' hfr)
  | some e =>
    obtain ⟨bound, a0⟩ := e
    rw [hl] at hgb
    simp only [Option.map_some, absEntry] at hgb
    obtain ⟨h1, h2, h3, h4⟩ := h.bnd b bound a0 (lookupBound_mem _ _ _ hl)
    simp only [hgb]
    by_cases hle : off + size ≤ bound
    · simp only [if_pos hle]
      constructor
      · intro hout; omega
      · intro _
        simp only [ne_eq, not_true_eq_false, decide_false, h2]
        refine ⟨trivial, ?_⟩
        intro env' hfr _
        refine ⟨hpos, ?_⟩
        intro v
        rw [hget v]
        cases hl' : lookupBound s.bounds v with
        | none => rfl
        | some e' =>
          obtain ⟨bound', a'⟩ := e'
          simp only [Option.map_some, absEntry, hold env' hfr v bound' a' (lookupBound_mem _ _ _ hl')]
    · obtain ⟨hb1, hb2, hb3⟩ := memCheck_bounds s b (off + size) (some a0)
      simp only [if_neg hle]
      constructor
      · intro hout
        simp only [if_pos hout]
        exact ⟨trivial, hb2⟩
      · intro hin
        have hnot : ¬ bytes.size < env b + (off + size) := by omega
        have hlt : bound < off + size := by omega
        simp only [if_neg hnot, hb2, ne_eq, not_false_eq_true, decide_true, SafeBounds.record, hgb, if_pos hlt, h2]
        refine ⟨trivial, ?_⟩
        intro env' hfr haddr
        rw [hb1, hb3 a0 rfl]
        rw [hb3 a0 rfl] at haddr
        exact abs_set ⟨hpos, hget⟩ b (off + size) a0 (by omega) _ haddr (hold env' hfr)

end Wz.Proofs.FrontMem
