/-
C20 helper: every `Before` / `After` event of a run is about a node of the call forest (function + arguments,
function + returned values), for every engine variant. Used by `Wz.C20.events_carry_actual_params_results`.
-/
import Wz.Model.Listener
namespace Wz.C20
open Wz.Model.Listener

/-- All calls of a forest (every node, executed or not) as (function, arguments). -/
def calls : Forest → List (Nat × List Nat)
  | .done => []
  | .call _ f args body _ next => (f, args) :: (calls body ++ calls next)

/-- All (function, outcome) pairs of a forest. -/
def outs : Forest → List (Nat × Outcome)
  | .done => []
  | .call _ f _ body out next => (f, out) :: (outs body ++ outs next)

/-- An event is about a node of the forest: a `Before` carries the function and the arguments of a call node,
an `After` the function and the returned values of a node that returns. -/
def IsEventOf (E : Engine) (fr : Forest) : Event → Prop
  | .before f a s => (f, a) ∈ calls fr ∧ (E.stackCap ≠ some 0 → s.head? = some f)
  | .after f v => (f, Outcome.ret v) ∈ outs fr
  | .abort _ _ => True

theorem aborts_isEventOf (E : Engine) (C : Cfg) (fl : Fail) (fr : Forest) : ∀ e ∈ aborts E C fl, IsEventOf E fr e := by
  intro e he
  unfold aborts at he
  split at he
  · simp only [List.mem_map] at he
    obtain ⟨g, _, rfl⟩ := he
    trivial
  · simp at he

theorem run_isEventOf (E : Engine) (C : Cfg) (fr : Forest) :
    ∀ api st, ∀ e ∈ (run E C api st fr).1, IsEventOf E fr e := by
  induction fr with
  | done => intro api st e he; simp [run] at he
  | call tail f args body out next ihb ihn =>
    intro api st
    have lift_b : ∀ o e, IsEventOf E body e → IsEventOf E (.call tail f args body o next) e := by
      intro o e h; cases e <;> simp_all [IsEventOf, calls, outs]
    have lift_n : ∀ o e, IsEventOf E next e → IsEventOf E (.call tail f args body o next) e := by
      intro o e h; cases e <;> simp_all [IsEventOf, calls, outs]
    have self_b : ∀ o st, IsEventOf E (.call tail f args body o next) (.before f args (snapshot E (f :: st))) := by
      intro o st
      refine ⟨by simp [calls], fun hc => ?_⟩
      unfold snapshot
      cases hcap : E.stackCap with
      | none => rfl
      | some c =>
        cases c with
        | zero => exact absurd hcap hc
        | succ c => rfl
    have self_a : ∀ v, IsEventOf E (.call tail f args body (.ret v) next) (.after f v) := by
      intro v; simp [IsEventOf, outs]
    have hab := aborts_isEventOf E C
    have hnode : ∀ (nd : List Event × Option Fail), nd = (if inPlace E C api tail f then
        let stT := f :: (if api then [] else st).tail
        let (evs, r) := run E C false stT body
        match r with
        | some fl => (evs, some fl)
        | none =>
          match out with
          | .ret _ => (evs, none)
          | .fail k => (evs, some ⟨k, true, stT⟩)
      else
      let st' := f :: (if E.tailJump && tail && !api then (if api then [] else st).tail else (if api then [] else st))
      let b := if C.lsn f then [Event.before f args (snapshot E st')] else []
      if out = .fail .overflow then
        ((if E.beforeAtOverflow then b else []), some ⟨.overflow, E.overflowPanics, (if api then [] else st)⟩)
      else
        let (evs, r) := run E C (C.host f) st' body
        match r with
        | some fl => (b ++ evs, some (if C.host f then ⟨fl.kind, true, st'⟩ else fl))
        | none =>
          match out with
          | .ret vals =>
            (b ++ evs ++ (if C.lsn f && !(E.tailJump && !C.host f && endsWithTail body) then [Event.after f vals] else []), none)
          | .fail k => (b ++ evs, some ⟨k, true, st'⟩)) → ∀ e ∈ nd.1, IsEventOf E (.call tail f args body out next) e := by
      intro nd hnd e' he'
      subst hnd
      cases out <;> repeat' split at he'
      all_goals (simp only [List.mem_append, List.mem_singleton, List.not_mem_nil, or_false, false_or] at he')
      all_goals (try split at he')
      all_goals (try simp only [List.mem_append, List.mem_singleton, List.not_mem_nil, or_false, false_or] at he')
      all_goals first
        | exact lift_b _ _ (ihb _ _ _ he')
        | (rcases he' with (he' | he') | he' <;> first | (subst he'; exact self_b _ _) | exact lift_b _ _ (ihb _ _ _ he') | (subst he'; exact self_a _) | (subst he'; simp_all [IsEventOf, outs]))
        | (rcases he' with he' | he' | he' <;> first | (subst he'; exact self_b _ _) | exact lift_b _ _ (ihb _ _ _ he') | (subst he'; exact self_a _) | (subst he'; simp_all [IsEventOf, outs]))
        | (rcases he' with he' | he' <;> first | (subst he'; exact self_b _ _) | exact lift_b _ _ (ihb _ _ _ he') | (subst he'; exact self_a _) | (subst he'; simp_all [IsEventOf, outs]))
        | (subst he'; exact self_b _ _)
        | (subst he'; exact self_a _) | (subst he'; simp_all [IsEventOf, outs])
    simp only [] at hnode
    intro e he
    simp only [run] at he
    split at he
    · rename_i node evs fl heq
      have hevs := hnode _ heq.symm
      split at he
      · simp only [List.mem_append] at he
        rcases he with he | he
        · exact hevs e he
        · exact hab _ _ e he
      · exact hevs e he
    · rename_i node evs heq
      have hevs := hnode _ heq.symm
      simp only [List.mem_append] at he
      rcases he with he | he
      · exact hevs e he
      · exact lift_n _ _ (ihn _ _ _ he)

end Wz.C20
