import Wz.Proofs.C01_Front_WF
import Wz.Model.FrontendSL

namespace Wz.Proofs.Front
open Wz.Model.SsaPass Wz.Model.FrontendSL

theorem scoped_append : ∀ (a b : List Instr) (D : List (Val × Ty)),
    Scoped D (a ++ b) ↔ Scoped D a ∧ Scoped (D ++ a.flatMap (·.typedResults)) b := by
  intro a
  induction a with
  | nil => intro b D; simp [Scoped]
  | cons i a ih =>
    intro b D
    simp only [List.cons_append, Scoped, ih, List.flatMap_cons, List.append_assoc]
    constructor
    · rintro ⟨h1, h2, h3, h4⟩; exact ⟨⟨h1, h2, h3⟩, h4⟩
    · rintro ⟨⟨h1, h2, h3⟩, h4⟩; exact ⟨h1, h2, h3, h4⟩

/-- the static invariant of the translation: `D` is what has been declared so far -/
structure SInv (lt : List Ty) (D : List (Val × Ty)) (s : LS) (tys : List Ty) : Prop where
  dom : D.map (·.1) = List.range s.next
  stk : ∀ p ∈ s.stack, p ∈ D
  loc : ∀ p ∈ s.locals, p ∈ D
  stkTy : s.stack.map (·.2) = tys
  locTy : s.locals.map (·.2) = lt

variable {lt : List Ty} {D : List (Val × Ty)} {s : LS} {tys tys' : List Ty}

theorem SInv.lt_next (h : SInv lt D s tys) {p : Val × Ty} (hp : p ∈ D) : p.1 < s.next := by
  have : p.1 ∈ D.map (·.1) := List.mem_map.mpr ⟨p, hp, rfl⟩
  rw [h.dom] at this
  exact List.mem_range.mp this

theorem SInv.mem_dom (_h : SInv lt D s tys) {p : Val × Ty} (hp : p ∈ D) : p.1 ∈ D.map (·.1) :=
  List.mem_map.mpr ⟨p, hp, rfl⟩

theorem SInv.uncons {t : Ty} (h : SInv lt D s (t :: tys)) :
    ∃ v srest, s.stack = (v, t) :: srest ∧ (v, t) ∈ D ∧ SInv lt D { s with stack := srest } tys := by
  obtain ⟨hdom, hstk, hloc, hty, hlt⟩ := h
  obtain ⟨next, stk, locs⟩ := s
  simp only at hdom hstk hloc hty hlt ⊢
  cases stk with
  | nil => simp at hty
  | cons p srest =>
    obtain ⟨v, t'⟩ := p
    simp only [List.map_cons, List.cons.injEq] at hty
    obtain ⟨rfl, hty⟩ := hty
    exact ⟨v, srest, rfl, hstk _ (List.mem_cons_self ..),
      ⟨hdom, fun p hp => hstk p (List.mem_cons_of_mem _ hp), hloc, hty, hlt⟩⟩

/-- a new value is declared -/
theorem SInv.fresh (h : SInv lt D s tys) (t : Ty) :
    SInv lt (D ++ [(s.next, t)]) { s with next := s.next + 1 } tys := by
  obtain ⟨hdom, hstk, hloc, hty, hlt⟩ := h
  refine ⟨?_, fun p hp => List.mem_append_left _ (hstk p hp), fun p hp => List.mem_append_left _ (hloc p hp),
    hty, hlt⟩
  simp only [List.map_append, hdom, List.map_cons, List.map_nil, List.range_succ]

/-- … and pushed -/
theorem SInv.pushNew (h : SInv lt D s tys) (t : Ty) :
    SInv lt (D ++ [(s.next, t)]) { s with next := s.next + 1, stack := (s.next, t) :: s.stack } (t :: tys) := by
  obtain ⟨hdom, hstk, hloc, hty, hlt⟩ := h.fresh t
  refine ⟨hdom, ?_, hloc, ?_, hlt⟩
  · intro p hp
    rcases List.mem_cons.mp hp with rfl | hp
    · exact List.mem_append_right _ (List.mem_singleton.mpr rfl)
    · exact hstk p hp
  · simp only [List.map_cons, h.stkTy]

theorem SInv.setLocal (h : SInv lt D s tys) {i : Nat} {p : TV} (hi : lt[i]? = some p.2) (hp : p ∈ D) :
    SInv lt D { s with locals := s.locals.set i p } tys := by
  obtain ⟨hdom, hstk, hloc, hty, hlt⟩ := h
  refine ⟨hdom, hstk, ?_, hty, ?_⟩
  · intro q hq
    rcases List.mem_or_eq_of_mem_set hq with hq | rfl
    · exact hloc q hq
    · exact hp
  · simp only [List.map_set, hlt]
    obtain ⟨hlen, hget⟩ := List.getElem?_eq_some_iff.mp hi
    rw [← hget]; exact List.set_getElem_self hlen

theorem SInv.local (h : SInv lt D s tys) {i : Nat} {t : Ty} (hi : lt[i]? = some t) :
    ∃ p, s.locals.getD i (0, .i32) = p ∧ p.2 = t ∧ p ∈ D := by
  have h1 : (s.locals.map (·.2))[i]? = some t := by rw [h.locTy]; exact hi
  rw [List.getElem?_map] at h1
  cases hp : s.locals[i]? with
  | none => simp [hp] at h1
  | some p =>
    simp only [hp, Option.map_some, Option.some.injEq] at h1
    exact ⟨p, by simp [List.getD, hp], h1, h.loc p (List.mem_of_getElem? hp)⟩

/-- what the translation of one instruction guarantees statically -/
def StaticOK (lt : List Ty) (D : List (Val × Ty)) (i : SI) (s : LS) (tys' : List Ty) : Prop :=
  (∀ j ∈ (lowerI i s).1, j.branch? = none) ∧ Scoped D (lowerI i s).1 ∧
  SInv lt (D ++ (lowerI i s).1.flatMap (·.typedResults)) (lowerI i s).2 tys'

/-- one instruction is emitted whose result is pushed -/
theorem static_one {s0 : LS} {tysr : List Ty} (h : SInv lt D s0 tysr) (j : Instr) (t : Ty)
    (hbr : j.branch? = none) (hres : j.typedResults = [(s0.next, t)])
    (hops : ∀ o ∈ j.operands, o ∈ D.map (·.1))
    (hshift : match j with
       | .bin op _ ty x _ => isShift op → (x, ty) ∈ D
       | _ => True) :
    (∀ j' ∈ [j], j'.branch? = none) ∧ Scoped D [j] ∧
    SInv lt (D ++ [j].flatMap (·.typedResults)) { s0 with next := s0.next + 1, stack := (s0.next, t) :: s0.stack }
      (t :: tysr) := by
  refine ⟨?_, ⟨hops, hshift, trivial⟩, ?_⟩
  · intro j' hj'; rw [List.mem_singleton.mp hj']; exact hbr
  · simp only [List.flatMap_cons, List.flatMap_nil, List.append_nil, hres]
    exact h.pushNew t

theorem static_const (t : Ty) (v : Nat) (h : SInv lt D s tys) (htc : tcStep lt (.const t v) tys = some tys') :
    StaticOK lt D (.const t v) s tys' := by
  simp only [tcStep, Option.some.injEq] at htc
  subst htc
  exact static_one h (.iconst s.next t (v % 2 ^ t.bits)) t rfl rfl (fun o ho => by cases ho) trivial

theorem static_localGet (i : Nat) (h : SInv lt D s tys) (htc : tcStep lt (.localGet i) tys = some tys') :
    StaticOK lt D (.localGet i) s tys' := by
  simp only [tcStep] at htc
  cases hi : lt[i]? with
  | none => simp [hi] at htc
  | some t =>
    simp only [hi, Option.map_some, Option.some.injEq] at htc
    subst htc
    obtain ⟨p, hp, hpt, hpD⟩ := h.local hi
    refine ⟨(fun j hj => by cases hj), trivial, ?_⟩
    simp only [lowerI, LS.push, hp, List.flatMap_nil, List.append_nil]
    obtain ⟨hdom, hstk, hloc, hty, hlt⟩ := h
    refine ⟨hdom, ?_, hloc, ?_, hlt⟩
    · intro q hq
      rcases List.mem_cons.mp hq with rfl | hq
      · exact hpD
      · exact hstk q hq
    · simp only [List.map_cons, hty, hpt]

theorem static_localSet (i : Nat) (h : SInv lt D s tys) (htc : tcStep lt (.localSet i) tys = some tys') :
    StaticOK lt D (.localSet i) s tys' := by
  match tys, htc, h with
  | [], e, _ => simp [tcStep] at e
  | a :: r, e, h =>
    simp only [tcStep] at e
    split at e
    · rename_i hi
      simp only [Option.some.injEq] at e; subst e
      obtain ⟨v, srest, hs, hvD, h1⟩ := h.uncons
      refine ⟨(fun j hj => by cases hj), trivial, ?_⟩
      simpa [lowerI, LS.pop, hs] using h1.setLocal (i := i) (p := (v, a)) hi hvD
    · cases e

theorem static_localTee (i : Nat) (h : SInv lt D s tys) (htc : tcStep lt (.localTee i) tys = some tys') :
    StaticOK lt D (.localTee i) s tys' := by
  match tys, htc, h with
  | [], e, _ => simp [tcStep] at e
  | a :: r, e, h =>
    simp only [tcStep] at e
    split at e
    · rename_i hi
      simp only [Option.some.injEq] at e; subst e
      obtain ⟨v, srest, hs, hvD, _⟩ := h.uncons
      refine ⟨(fun j hj => by cases hj), trivial, ?_⟩
      simpa [lowerI, LS.peek, hs] using h.setLocal (i := i) (p := (v, a)) hi hvD
    · cases e

theorem static_drop (h : SInv lt D s tys) (htc : tcStep lt .drop tys = some tys') :
    StaticOK lt D .drop s tys' := by
  match tys, htc, h with
  | [], e, _ => simp [tcStep] at e
  | a :: r, e, h =>
    simp only [tcStep, Option.some.injEq] at e
    subst e
    obtain ⟨v, srest, hs, hvD, h1⟩ := h.uncons
    refine ⟨(fun j hj => by cases hj), trivial, ?_⟩
    simpa [lowerI, LS.pop, hs] using h1

theorem static_select (h : SInv lt D s tys) (htc : tcStep lt .select tys = some tys') :
    StaticOK lt D .select s tys' := by
  match tys, htc, h with
  | [], e, _ => simp [tcStep] at e
  | [_], e, _ => simp [tcStep] at e
  | [_, _], e, _ => simp [tcStep] at e
  | c :: b :: a :: r, e, h =>
    simp only [tcStep] at e
    split at e
    · rename_i hab
      obtain ⟨rfl, rfl⟩ := hab
      simp only [Option.some.injEq] at e; subst e
      obtain ⟨vc, s1, hs1, hcD, h1⟩ := h.uncons
      obtain ⟨v2, s2, hs2, h2D, h2⟩ := h1.uncons
      obtain ⟨v1, s3, hs3, h1D, h3⟩ := h2.uncons
      obtain ⟨next, stk, locs⟩ := s
      simp only at hs1 hs2 hs3 h3
      subst hs1; subst hs2; subst hs3
      have := static_one h3 (.select next a vc v1 v2) a rfl rfl
        (by intro o ho
            simp only [Instr.operands, List.mem_cons, List.mem_nil_iff, or_false] at ho
            rcases ho with rfl | rfl | rfl
            · exact h.mem_dom hcD
            · exact h.mem_dom h1D
            · exact h.mem_dom h2D) trivial
      simpa [StaticOK, lowerI, LS.pop, LS.pushNew] using this
    · cases e

theorem static_bin (t : Ty) (op : IBin) (h : SInv lt D s tys) (htc : tcStep lt (.bin t op) tys = some tys') :
    StaticOK lt D (.bin t op) s tys' := by
  match tys, htc, h with
  | [], e, _ => simp [tcStep] at e
  | [_], e, _ => simp [tcStep] at e
  | b :: a :: r, e, h =>
    simp only [tcStep] at e
    split at e
    · rename_i hab
      obtain ⟨rfl, rfl⟩ := hab
      simp only [Option.some.injEq] at e; subst e
      obtain ⟨vy, s1, hs1, hyD, h1⟩ := h.uncons
      obtain ⟨vx, s2, hs2, hxD, h2⟩ := h1.uncons
      obtain ⟨next, stk, locs⟩ := s
      simp only at hs1 hs2 h2
      subst hs1; subst hs2
      have := static_one h2 (.bin op.toSsa next b vx vy) b rfl rfl
        (by intro o ho
            simp only [Instr.operands, List.mem_cons, List.mem_nil_iff, or_false] at ho
            rcases ho with rfl | rfl
            · exact h.mem_dom hxD
            · exact h.mem_dom hyD) (fun _ => hxD)
      simpa [StaticOK, lowerI, LS.pop, LS.pushNew] using this
    · cases e

theorem static_rel (t : Ty) (op : IRel) (h : SInv lt D s tys) (htc : tcStep lt (.rel t op) tys = some tys') :
    StaticOK lt D (.rel t op) s tys' := by
  match tys, htc, h with
  | [], e, _ => simp [tcStep] at e
  | [_], e, _ => simp [tcStep] at e
  | b :: a :: r, e, h =>
    simp only [tcStep] at e
    split at e
    · rename_i hab
      obtain ⟨rfl, rfl⟩ := hab
      simp only [Option.some.injEq] at e; subst e
      obtain ⟨vy, s1, hs1, hyD, h1⟩ := h.uncons
      obtain ⟨vx, s2, hs2, hxD, h2⟩ := h1.uncons
      obtain ⟨next, stk, locs⟩ := s
      simp only at hs1 hs2 h2
      subst hs1; subst hs2
      have := static_one h2 (.icmp next b op.toSsa vx vy) .i32 rfl rfl
        (by intro o ho
            simp only [Instr.operands, List.mem_cons, List.mem_nil_iff, or_false] at ho
            rcases ho with rfl | rfl
            · exact h.mem_dom hxD
            · exact h.mem_dom hyD) trivial
      simpa [StaticOK, lowerI, LS.pop, LS.pushNew] using this
    · cases e

theorem static_div (t : Ty) (op : IDiv) (h : SInv lt D s tys) (htc : tcStep lt (.div t op) tys = some tys') :
    StaticOK lt D (.div t op) s tys' := by
  match tys, htc, h with
  | [], e, _ => simp [tcStep] at e
  | [_], e, _ => simp [tcStep] at e
  | b :: a :: r, e, h =>
    simp only [tcStep] at e
    split at e
    · rename_i hab
      obtain ⟨rfl, rfl⟩ := hab
      simp only [Option.some.injEq] at e; subst e
      obtain ⟨vy, s1, hs1, hyD, h1⟩ := h.uncons
      obtain ⟨vx, s2, hs2, hxD, h2⟩ := h1.uncons
      have hctx : execCtx ∈ D.map (·.1) := by
        have := h.lt_next hxD
        rw [h.dom]; exact List.mem_range.mpr (Nat.lt_of_le_of_lt (Nat.zero_le _) this)
      obtain ⟨next, stk, locs⟩ := s
      simp only at hs1 hs2 h2
      subst hs1; subst hs2
      have := static_one h2 (.div op.toSsa next b vx vy execCtx) b rfl rfl
        (by intro o ho
            simp only [Instr.operands, List.mem_cons, List.mem_nil_iff, or_false] at ho
            rcases ho with rfl | rfl | rfl
            · exact h.mem_dom hxD
            · exact h.mem_dom hyD
            · exact hctx) trivial
      simpa [StaticOK, lowerI, LS.pop, LS.pushNew] using this
    · cases e

/-- the unary instructions: one operand of type `a`, one SSA instruction, result of type `rt` -/
theorem static_un1 (i : SI) (uop : UnOp) (a rt : Ty)
    (hL : ∀ (next : Nat) (vx : Nat) (s1 : List TV) (locs : List TV),
      lowerI i ⟨next, (vx, a) :: s1, locs⟩ = ([.un uop next rt vx], ⟨next + 1, (next, rt) :: s1, locs⟩))
    (h : SInv lt D s (a :: tys)) : StaticOK lt D i s (rt :: tys) := by
  obtain ⟨vx, s1, hs1, hxD, h1⟩ := h.uncons
  obtain ⟨next, stk, locs⟩ := s
  simp only at hs1 h1
  subst hs1
  have := static_one h1 (.un uop next rt vx) rt rfl rfl
    (by intro o ho
        simp only [Instr.operands, List.mem_cons, List.mem_nil_iff, or_false] at ho
        subst ho; exact h.mem_dom hxD) trivial
  simpa [StaticOK, hL] using this

theorem static_eqz (t : Ty) (h : SInv lt D s tys) (htc : tcStep lt (.eqz t) tys = some tys') :
    StaticOK lt D (.eqz t) s tys' := by
  match tys, htc, h with
  | [], e, _ => simp [tcStep] at e
  | a :: r, e, h =>
    simp only [tcStep] at e
    split at e
    · rename_i hab
      subst hab
      simp only [Option.some.injEq] at e; subst e
      obtain ⟨vx, s1, hs1, hxD, h1⟩ := h.uncons
      obtain ⟨next, stk, locs⟩ := s
      simp only at hs1 h1
      subst hs1
      have hf := h1.fresh a
      have h2 := static_one hf (.icmp (next + 1) a .eq vx next) .i32 rfl rfl
        (by intro o ho
            simp only [Instr.operands, List.mem_cons, List.mem_nil_iff, or_false] at ho
            rcases ho with rfl | rfl
            · exact List.mem_map.mpr ⟨_, List.mem_append_left _ hxD, rfl⟩
            · exact List.mem_map.mpr ⟨(o, a), List.mem_append_right _ (List.mem_singleton.mpr rfl), rfl⟩) trivial
      refine ⟨?_, ?_, ?_⟩
      · intro j hj
        simp only [lowerI, LS.pop, List.headD_cons, List.tail_cons, List.mem_cons, List.mem_nil_iff, or_false] at hj
        rcases hj with rfl | rfl <;> rfl
      · simp only [lowerI, LS.pop, List.headD_cons, List.tail_cons]
        exact ⟨(fun o ho => by cases ho), trivial, h2.2.1⟩
      · simpa [lowerI, LS.pop, Instr.typedResults, List.append_assoc] using h2.2.2
    · cases e

end Wz.Proofs.Front
