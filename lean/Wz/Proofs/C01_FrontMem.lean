/-
C01 / C02 (front end with memory accesses): bodies (`sim_bodyM`, induction with `sim_stepM`) and whole functions
(`lowerMem_refines`: `runM` on `lowerMem f`, started on a memory that embeds the linear memory, against
`Wz.Spec.Wasm.invoke`): same values or the same trap, the final memory embeds the specification's final memory, and
every access of the SSA run is confined.
-/
import Wz.Proofs.C01_FrontMem_Sim

set_option linter.unusedSimpArgs false
set_option linter.unusedVariables false

namespace Wz.Proofs.FrontMem
open Wz.Spec Wz.Model.SsaPass Wz.Model.FrontendSL Wz.Model.FrontendMem Wz.Proofs.Front

variable {w : World} {m : Wasm.Module} {lt : List Ty} {mc base : Nat}

def okCode (code : Nat) : Prop := code = codeMemOOB ∨ code = codeDivByZero ∨ code = codeOverflow

/-- the two runs of a body agree: same returned values or the same trap, the flat memory embeds the final linear
memory, the accesses logged after `log0` are confined -/
def BodyRelM (mc base len nres : Nat) (r : Wasm.Ctl × Wasm.Frame × Wasm.Store) (o : Option Ctl × List Acc)
    (log0 : List Acc) : Prop :=
  ∃ log', o.2 = log0 ++ log' ∧ AccOK mc base len log' ∧ r.2.2.mem.size = len ∧
    match r.1 with
    | .next | .ret => ∃ env' mem', o.1 = some (.ret ((r.2.1.stack.take nres).reverse) (mkM env' mem')) ∧
        Emb mc base r.2.2.mem mem'
    | .trap k => ∃ code env' mem', o.1 = some (.trap code (mkM env' mem')) ∧ trapKindM code = k ∧ okCode code ∧
        Emb mc base r.2.2.mem mem'
    | _ => False

theorem execBodyL_ret (w : World) (vs : List Val) (env : Val → Nat) (mem : Mem) (log : List Acc) :
    execBodyL w [.base (.ret vs)] (mkM env mem) log = (some (.ret (vs.map env) (mkM env mem)), log) := by
  simp only [execBodyL, stepM, execInstr, instrAcc, List.append_nil]
  rfl

theorem sim_bodyM (res : List Ty) (nres : Nat) : ∀ (body : List MI) (s : MS) (tys : List Ty) (stack : List Nat)
    (locals : Array Nat) (env : Val → Nat) (st : Wasm.Store) (mem : Mem) (n : Nat) (log0 : List Acc),
    Inv lt s.ls tys stack locals env → MInv mc base st.mem s env mem → tcBodyM lt res body tys = true →
    body.length + 1 ≤ n →
    BodyRelM mc base st.mem.size nres (Wasm.execSeq m n (body.map MI.toInstr) ⟨stack, locals⟩ st)
      (execBodyL w (lowerBodyM nres body s) (mkM env mem) log0) log0 := by
  intro body
  induction body with
  | nil =>
    intro s tys stack locals env st mem n log0 hinv hm _ hn
    obtain ⟨n, rfl⟩ : ∃ k, n = k + 1 := ⟨n - 1, by omega⟩
    simp only [List.map_nil, Wasm.execSeq, lowerBodyM, execBodyL_ret, peekN_env hinv]
    exact ⟨[], by simp, AccOK.nil, rfl, env, mem, rfl, hm.emb⟩
  | cons i is ih =>
    intro s tys stack locals env st mem n log0 hinv hm htc hn
    simp only [List.length_cons] at hn
    obtain ⟨n, rfl⟩ : ∃ k, n = k + 2 := ⟨n - 2, by omega⟩
    by_cases hi : i = .base .ret
    · subst hi
      simp only [List.map_cons, MI.toInstr, SI.toInstr, Wasm.execSeq, Wasm.execInstr, lowerBodyM, execBodyL_ret,
        peekN_env hinv]
      exact ⟨[], by simp, AccOK.nil, rfl, env, mem, rfl, hm.emb⟩
    · have hlb : lowerBodyM nres (i :: is) s = (lowerMI i s).1 ++ lowerBodyM nres is (lowerMI i s).2 := by
        cases i with
        | base j => cases j <;> first | rfl | exact absurd rfl hi
        | load k off => rfl
        | store k off => rfl
        | memSize => rfl
      have htc' : ∃ tys', tcStepM lt i tys = some tys' ∧ tcBodyM lt res is tys' = true := by
        have key : ∀ (h : tcBodyM lt res (i :: is) tys = true),
            (match tcStepM lt i tys with | some s' => tcBodyM lt res is s' | none => false) = true := by
          intro h
          cases i with
          | base j => cases j <;> first | exact absurd rfl hi | exact h
          | load k off => exact h
          | store k off => exact h
          | memSize => exact h
        have h2 := key htc
        split at h2
        · rename_i tys' h; exact ⟨tys', h, h2⟩
        · cases h2
      obtain ⟨tys', hstep, hrest⟩ := htc'
      rw [hlb]
      simp only [List.map_cons, Wasm.execSeq]
      rcases sim_stepM (w := w) (m := m) (n := n) i hi hinv hm hstep with
        ⟨stack', locals', env', bytes', mem', log', hsp, hsz, hok, hrun, hinv', hm'⟩ |
        ⟨code, fr', env', log', hsp, hok, hrun, hcode⟩
      · rw [hsp, execBodyL_append, hrun log0]
        simp only
        have := ih (lowerMI i s).2 tys' stack' locals' env' { st with mem := bytes' } mem' (n + 1) (log0 ++ log')
          hinv' hm' hrest (by omega)
        obtain ⟨log'', h1, h2, h3, h4⟩ := this
        have hsz' : ({ st with mem := bytes' } : Wasm.Store).mem.size = st.mem.size := hsz
        refine ⟨log' ++ log'', by rw [h1, List.append_assoc], ?_, by rw [h3, hsz'], h4⟩
        rw [hsz'] at h2
        exact hok.append h2
      · rw [hsp, execBodyL_append, hrun log0]
        exact ⟨log', rfl, hok, rfl, code, env', mem, rfl, rfl, hcode, hm.emb⟩

/-! ### whole functions -/

theorem declLocals_pure : ∀ (ls : List Ty) (n : Nat) (z : Zeros), ∀ i ∈ (declLocals ls n z).1, pureI i = true := by
  intro ls
  induction ls with
  | nil => intro n z i hi; cases hi
  | cons t ts ih =>
    intro n z i hi
    simp only [declLocals] at hi
    cases hz : z.get t with
    | some v0 => rw [hz] at hi; exact ih n z i hi
    | none =>
      rw [hz] at hi
      simp only at hi
      rcases List.mem_cons.mp hi with rfl | hi
      · rfl
      · exact ih _ _ i hi

theorem trapCodeM_kind {code : Nat} (h : okCode code) : trapCodeM (trapKindM code) = code := by
  rcases h with rfl | rfl | rfl <;> decide

theorem trapKindM_cases {code : Nat} (h : okCode code) :
    trapKindM code = "oob-memory" ∨ trapKindM code = "div0" ∨ trapKindM code = "overflow" := by
  rcases h with rfl | rfl | rfl
  · left; decide
  · right; left; decide
  · right; right; decide

theorem lowerMem_refines (f : FnM) (hwt : wellTypedM f = true) (args : List Nat) (hargs : ArgsOK f.sig args)
    (w : World) (ec mc base : Nat) (bytes : ByteArray) (mem0 : Mem) (hemb : Emb mc base bytes mem0)
    (n : Nat) (hn : f.body.length + 3 ≤ n) :
    RefinesM mc base (runSpecM f args bytes n) (runM w (lowerMem f) (ec :: mc :: args) mem0).1 ∧
    Confined mc base bytes.size (runM w (lowerMem f) (ec :: mc :: args) mem0).2 := by
  obtain ⟨henv1_hi, hinv⟩ := entry_inv f.sig args hargs ec mc
  have hargs' := hargs
  obtain ⟨hlen, hrange⟩ := hargs
  have hlen' : args.length = f.params.length := hlen
  let env1 := entryEnv f.sig ec mc args
  -- the SSA side: the entry of the block, the zero constants of the locals
  have hpre : execPre w (initLS f.sig).1 (mk env1) = .inr (mk env1) :=
    pre_of_next (fun rest => declLocals_exec w f.locals (f.params.length + 2) {} env1 rest henv1_hi)
  have hdecl : ∀ log, runL w ((initLS f.sig).1.map .base) (mkM env1 mem0) log = .inr (mkM env1 mem0, log) := by
    intro log
    have := runL_pure w (initLS f.sig).1 (declLocals_pure f.locals (f.params.length + 2) {}) (mk env1) mem0 log
    rw [hpre] at this
    exact this
  have hssa : runM w (lowerMem f) (ec :: mc :: args) mem0 =
      match execBodyL w (lowerBodyM f.results.length f.body { ls := (initLS f.sig).2 }) (mkM env1 mem0) [] with
      | (some (.ret vs st'), log) => (.values vs st'.mem st'.trace, log)
      | (some (.trap c st'), log) => (.trap c st'.mem st'.trace, log)
      | (_, log) => (.error, log) := by
    have hl : ¬ (lowerMem f).params.length ≠ (ec :: mc :: args).length := by
      simp [lowerMem, entryParams, FnM.sig, hlen']
    have henv : ({ St.init with env := bindVals St.init.env (lowerMem f).params (ec :: mc :: args), mem := mem0 } : St) =
        mkM env1 mem0 := rfl
    simp only [runM, hl, if_false, henv]
    have : (lowerMem f).instrs = (initLS f.sig).1.map .base ++
        lowerBodyM f.results.length f.body { ls := (initLS f.sig).2 } := rfl
    rw [this, execBodyL_append, hdecl []]
    rfl
  -- the memory part of the invariant at the entry
  have hctx : env1 moduleCtx = mc := by
    let e0 : Val → Nat := upd (upd (fun _ => 0) 0 (norm .i64 ec)) 1 (norm .i64 mc)
    have h1 := (bind_params f.params 0 args e0 hlen' hrange).2.1 1 (.inl (by omega))
    have heq : env1 1 = bindVals e0 ((f.params.zipIdx 0).map (fun p => (p.2 + 2, p.1))) args 1 := rfl
    show env1 1 = mc
    rw [heq, h1]
    show upd (upd (fun _ => 0) 0 (norm .i64 ec)) 1 (norm .i64 mc) 1 = mc
    rw [upd_self, norm_of_lt]
    have := hemb.mcR
    simp only [Ty.bits]
    omega
  have hnext : 2 ≤ (initLS f.sig).2.next := by
    have := (declLocals_spec f.locals (f.params.length + 2) {}).1
    show 2 ≤ (declLocals f.locals (f.params.length + 2) {}).2.1
    omega
  have hm0 : MInv mc base bytes { ls := (initLS f.sig).2 } env1 mem0 := by
    refine ⟨hemb, hctx, hnext, ?_, ?_, ?_⟩
    · intro v h; cases h
    · intro v h; cases h
    · intro b bound a h; cases h
  obtain ⟨k, rfl⟩ : ∃ k, n = k + 1 := ⟨n - 1, by omega⟩
  let st0 : Wasm.Store := { ({ mem := bytes } : Wasm.Store) with log := [] }
  have hrel := sim_bodyM (w := w) (m := f.toModule) (mc := mc) (base := base) f.results f.results.length f.body
    { ls := (initLS f.sig).2 } [] [] (args ++ f.locals.map (fun _ => 0)).toArray env1 st0 mem0 k []
    hinv hm0 hwt (by omega)
  rw [hssa]
  have hft : Wasm.funcType f.toModule 0 = ⟨f.params.map Ty.toVT, f.results.map Ty.toVT⟩ := rfl
  have htake : args.reverse.take f.params.length = args.reverse :=
    List.take_of_length_le (by simp [hlen'])
  have hdrop : args.reverse.drop f.params.length = [] :=
    List.drop_of_length_le (by simp [hlen'])
  have himp : ¬ (0 < f.toModule.imports.length) := by simp [FnM.toModule]
  have hfn : f.toModule.funcs.getD (0 - f.toModule.imports.length) default =
      ⟨0, f.locals.map Ty.toVT, f.body.map MI.toInstr⟩ := rfl
  simp only [runSpecM, Wasm.invoke, Wasm.callFunc, hft, htake, hdrop, himp, if_false, hfn, List.reverse_reverse,
    List.map_map, List.append_nil, List.length_map]
  have hcomp : ((fun _ => 0) ∘ Ty.toVT : Ty → Nat) = fun _ => 0 := rfl
  rw [hcomp]
  generalize Wasm.execSeq f.toModule k (List.map MI.toInstr f.body)
      { locals := (args ++ List.map (fun _ => 0) f.locals).toArray } st0 = r at hrel ⊢
  generalize execBodyL w (lowerBodyM f.results.length f.body { ls := (initLS f.sig).2 }) (mkM env1 mem0) [] = o at hrel ⊢
  obtain ⟨ctl, fr', st'⟩ := r
  obtain ⟨oc, olog⟩ := o
  obtain ⟨log', hlog, hok, hsz, hmatch⟩ := hrel
  simp only [List.nil_append] at hlog
  subst hlog
  cases ctl with
  | next =>
    obtain ⟨env', mem', ho, he⟩ := hmatch
    simp only at ho
    subst ho
    exact ⟨⟨mem', by simp only [mkM, List.take_take, Nat.min_self], he⟩, hok⟩
  | ret =>
    obtain ⟨env', mem', ho, he⟩ := hmatch
    simp only at ho
    subst ho
    exact ⟨⟨mem', by simp only [mkM, List.take_take, Nat.min_self], he⟩, hok⟩
  | br l => exact absurd hmatch (by simp)
  | exhausted => exact absurd hmatch (by simp)
  | trap kd =>
    obtain ⟨code, env', mem', ho, hk, hcode, he⟩ := hmatch
    simp only at ho
    subst ho
    subst hk
    exact ⟨⟨mem', by simp only [mkM, trapCodeM_kind hcode], he, trapKindM_cases hcode⟩, hok⟩

end Wz.Proofs.FrontMem
