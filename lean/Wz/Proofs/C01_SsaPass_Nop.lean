import Wz.Proofs.C01_SsaPass_Inv

/-! `nopElim` (passNopInstElimination) preserves the semantics of well-formed functions, and well-formedness. -/
namespace Wz.Model.SsaPass

/-! ### the rule -/

theorem nopRule_spec {f : Func} {i : Instr} {r x : Val} (h : nopRule f i = some (r, x)) :
    ∃ op ty y cty k, i = .bin op r ty x y ∧ isShift op ∧ Instr.iconst y cty k ∈ f.allInstrs ∧
      k % 2 ^ 64 % ty.bits = 0 := by
  cases i <;> simp only [nopRule] at h <;> try (cases h; done)
  case bin op r' ty x' y =>
    split at h
    · rename_i hop
      split at h
      · rename_i r0 cty k hdef
        split at h
        · rename_i hk
          simp only [Option.some.injEq, Prod.mk.injEq] at h
          obtain ⟨h1, h2⟩ := h
          subst h1; subst h2
          have hmem := List.mem_of_find?_eq_some hdef
          have hres := List.find?_some hdef
          simp only [Instr.results, List.mem_singleton, decide_eq_true_eq] at hres
          subst hres
          exact ⟨op, ty, y, cty, k, rfl, hop, hmem, hk⟩
        · cases h
      · cases h
    · cases h

theorem amount_zero (cty ty : Ty) (k : Nat) (h : k % 2 ^ 64 % ty.bits = 0) : norm cty k % ty.bits = 0 := by
  have h64 : ty.bits ∣ 2 ^ 64 := by cases ty <;> decide
  have hc : ty.bits ∣ 2 ^ cty.bits := by cases ty <;> cases cty <;> decide
  rw [Nat.mod_mod_of_dvd _ h64] at h
  unfold norm
  rw [Nat.mod_mod_of_dvd _ hc]
  exact h

/-- a shift by a multiple of the width returns its first operand -/
theorem evalBin_shift_zero {op : BinOp} (hs : isShift op) (ty : Ty) {a s : Nat} (ha : a < 2 ^ ty.bits)
    (hs0 : s % ty.bits = 0) : evalBin op ty a s = a := by
  have hto : (BitVec.ofNat ty.bits a).toNat = a := by rw [BitVec.toNat_ofNat]; exact Nat.mod_eq_of_lt ha
  rcases hs with h | h | h <;> subst h <;> simp only [evalBin, hs0]
  · rw [BitVec.shiftLeft_zero]; exact hto
  · rw [BitVec.sshiftRight_zero]; exact hto
  · rw [BitVec.ushiftRight_zero]; exact hto

/-! ### facts about `aliasInsert` -/

theorem aliasInsert_def {al : List (Val × Val)} {dst src : Val} (h1 : res al src ≠ dst)
    (h2 : aliasGet al dst = none) :
    aliasInsert al dst src = (dst, res al src) :: al.map (fun e => (e.1, if e.2 = dst then res al src else e.2)) := by
  simp [aliasInsert, h1, h2]

theorem aliasGet_insert {al : List (Val × Val)} {dst src : Val} (h1 : res al src ≠ dst)
    (h2 : aliasGet al dst = none) (q : Val) :
    aliasGet (aliasInsert al dst src) q =
      if dst = q then some (res al src) else (aliasGet al q).map (fun t => if t = dst then res al src else t) := by
  rw [aliasInsert_def h1 h2]
  simp only [aliasGet]
  split
  · rfl
  · exact aliasGet_map_snd al (fun t => if t = dst then res al src else t) q

theorem mem_aliasInsert {al : List (Val × Val)} {dst src : Val} (h1 : res al src ≠ dst)
    (h2 : aliasGet al dst = none) {e : Val × Val} (he : e ∈ aliasInsert al dst src) :
    e = (dst, res al src) ∨ ∃ e0 ∈ al, e.1 = e0.1 ∧ (e.2 = e0.2 ∨ (e0.2 = dst ∧ e.2 = res al src)) := by
  rw [aliasInsert_def h1 h2] at he
  cases he with
  | head => exact Or.inl rfl
  | tail _ hm =>
    right
    obtain ⟨e0, he0, hee⟩ := List.mem_map.mp hm
    refine ⟨e0, he0, ?_⟩
    subst hee
    by_cases hd : e0.2 = dst
    · simp [hd]
    · simp [hd]

theorem execInstr_goto_inv (w : World) (ρ : Val → Nat) (i : Instr) (st : St) {b : BlockId} {args : List Nat}
    {st1 : St} (h : execInstr w ρ i st = .goto b args st1) :
    st1 = st ∧ ∃ as, i.branch? = some (b, as) := by
  cases i <;> simp only [execInstr] at h
  case iconst => cases h
  case bin => cases h
  case icmp => cases h
  case select => cases h
  case un => cases h
  case load => cases h
  case store => cases h
  case call fn sig rs as => split at h <;> cases h
  case div op r ty x y ctx => split at h <;> cases h
  case exitIf ctx c code => split at h <;> cases h
  case exit => cases h
  case jump t as => cases h; exact ⟨rfl, as, rfl⟩
  case brz c t as => split at h <;> cases h; exact ⟨rfl, as, rfl⟩
  case brnz c t as => split at h <;> cases h; exact ⟨rfl, as, rfl⟩
  case ret => cases h

theorem aliasGet_insert_ne_none {al : List (Val × Val)} {dst src q : Val} (h : aliasGet al q ≠ none) :
    aliasGet (aliasInsert al dst src) q ≠ none := by
  by_cases h1 : res al src = dst
  · rw [aliasInsert_eq_of_degenerate (Or.inl h1)]; exact h
  by_cases h2 : aliasGet al dst ≠ none
  · rw [aliasInsert_eq_of_degenerate (Or.inr h2)]; exact h
  have h2' : aliasGet al dst = none := Classical.not_not.mp h2
  rw [aliasGet_insert h1 h2']
  split
  · simp
  · cases hg : aliasGet al q with
    | none => exact absurd hg h
    | some t => simp

/-- `InstrOK` survives an extension of the alias table that keeps the blocks, when the results that get an
alias resolve like something available. -/
theorem InstrOK_of_ext {c : Cert} {f : Func} {al' : List (Val × Val)} {B : Block} {V : List Val} {i : Instr}
    (hext : Ext f.alias al') (hok : InstrOK c f B V i)
    (hres : ∀ r0 ∈ i.results, res f.alias r0 = r0 → res al' r0 = r0 ∨ ∃ v ∈ V, res al' r0 = res al' v) :
    InstrOK c { f with alias := al' } B V i := by
  obtain ⟨h1, h2, h3, h4, h5, h6⟩ := hok
  refine ⟨?_, ?_, h3, h4, h5, ?_⟩
  · intro o ho
    obtain ⟨v, hv, hov⟩ := h1 o ho
    exact ⟨v, hv, hext o v hov⟩
  · intro r0 hr0
    rcases h2 r0 hr0 with h | ⟨v, hv, hrv⟩
    · exact hres r0 hr0 h
    · exact Or.inr ⟨v, hv, hext r0 v hrv⟩
  · cases hbr : i.branch? with
    | none => simp only []
    | some p =>
      obtain ⟨t, as⟩ := p
      rw [hbr] at h6
      simp only [] at h6 ⊢
      show match f.findBlock t with
        | some T => _
        | none => False
      cases hT : f.findBlock t with
      | none => rw [hT] at h6; exact h6
      | some T =>
        rw [hT] at h6
        simp only [] at h6 ⊢
        refine ⟨h6.1, h6.2.1, h6.2.2.1, fun q hq hqn => ?_⟩
        obtain ⟨v, hv, hqv⟩ := h6.2.2.2 q hq hqn
        exact ⟨v, hv, hext q v hqv⟩

theorem BodyOK_of_ext {c : Cert} {f : Func} {al' : List (Val × Val)} {B : Block}
    (hext : Ext f.alias al')
    (hres : ∀ V i, InstrOK c f B V i → i ∈ B.instrs → ∀ r0 ∈ i.results, res f.alias r0 = r0 →
      res al' r0 = r0 ∨ ∃ v ∈ V, res al' r0 = res al' v) :
    ∀ (is : List Instr) (V : List Val), (∀ i ∈ is, i ∈ B.instrs) → BodyOK c f B V is →
      BodyOK c { f with alias := al' } B V is := by
  intro is
  induction is with
  | nil => intro V _ _; trivial
  | cons i is ih =>
    intro V hsub h
    exact ⟨InstrOK_of_ext hext h.1 (hres V i h.1 (hsub i (List.mem_cons_self ..))),
      ih _ (fun j hj => hsub j (List.mem_cons_of_mem _ hj)) h.2⟩


/-! ### one application of the rule -/

set_option linter.unusedSectionVars false

section step

variable {c : Cert} {f : Func} (hwf : WF c f) {i0 : Instr} (hi0 : i0 ∈ f.allInstrs)
  {B0 : Block} (hB0 : B0 ∈ f.blocks) (hB0v : B0.invalid = false) (hi0B : i0 ∈ B0.instrs)
  {r x : Val} (hrule : nopRule f i0 = some (r, x))
  (h1 : res f.alias x ≠ r) (h2 : aliasGet f.alias r = none)

include hwf hi0 hrule h1 h2

private theorem res_new (v : Val) :
    res (aliasInsert f.alias r x) v = if res f.alias v = r then res f.alias x else res f.alias v :=
  res_aliasInsert r x h1 h2 v

private theorem hnf : AliasNF f.alias := (aliasNF_iff _).mpr hwf.nf

/-- the operand `x` of the shift resolves like a value available at the shift -/
private theorem x_avail {B : Block} {V : List Val} (hok : InstrOK c f B V i0) :
    ∃ v ∈ V, res f.alias x = res f.alias v := by
  obtain ⟨op, ty, y, cty, k, hi, _, _, _⟩ := nopRule_spec hrule
  subst hi
  exact hok.1 x (by simp [Instr.operands])

include hB0 hB0v hi0B in
/-- the new entry decreases the rank -/
private theorem rank_new : c.rank (res f.alias x) < c.rank r := by
  obtain ⟨pre, post, hsplit⟩ := List.append_of_mem hi0B
  have hBok := hwf.blocks B0 hB0 hB0v
  have hbody := hBok.2.2.2.2.1
  rw [hsplit] at hbody
  have hok := BodyOK_split pre _ i0 post hbody
  obtain ⟨v, hv, hxv⟩ := x_avail hwf hi0 hrule h1 h2 hok
  obtain ⟨op, ty, y, cty, k, hi, _, _, _⟩ := nopRule_spec hrule
  have hr : r ∈ i0.results := by subst hi; simp [Instr.results]
  have := (hok.2.2.1 r hr).1 v hv
  have := rank_res_le hwf.alRank v
  rw [hxv]; omega

include hB0 hB0v hi0B in
private theorem alRank_new : ∀ e ∈ aliasInsert f.alias r x, c.rank e.2 < c.rank e.1 := by
  intro e he
  have hrk := rank_new hwf hi0 hB0 hB0v hi0B hrule h1 h2
  rcases mem_aliasInsert h1 h2 he with h | ⟨e0, he0, hk, ht | ⟨ht1, ht2⟩⟩
  · subst h; exact hrk
  · rw [hk, ht]; exact hwf.alRank e0 he0
  · have := hwf.alRank e0 he0
    rw [hk, ht2]; rw [ht1] at this; omega

/-- the shift and the constant: what the rule gives about the instruction -/
private theorem shift_facts :
    ∃ op ty y cty k, i0 = .bin op r ty x y ∧ isShift op ∧ Instr.iconst y cty k ∈ f.allInstrs ∧
      k % 2 ^ 64 % ty.bits = 0 ∧ res f.alias y = y := by
  obtain ⟨op, ty, y, cty, k, hi, hs, hc, hk⟩ := nopRule_spec hrule
  refine ⟨op, ty, y, cty, k, hi, hs, hc, hk, ?_⟩
  have := hwf.constKey _ hc
  simp only [ConstNoKey] at this
  exact res_of_none this

/-- The invariant after one instruction that both runs execute in the same state. -/
private theorem inv_next {B : Block} {V : List Val} {i : Instr} (hi : i ∈ f.allInstrs)
    (hok : InstrOK c f B V i) {st st1 : St}
    (hinv : Inv c f (aliasInsert f.alias r x) (fun _ => True) V st st)
    (hR' : ∀ e ∈ aliasInsert f.alias r x, c.rank e.2 < c.rank e.1)
    (w : World) (hex : execInstr w (fun v => st.env (res f.alias v)) i st = .next st1) :
    Inv c f (aliasInsert f.alias r x) (fun _ => True) (V ++ i.results) st1 st1 := by
  have hfr : ∀ v, v ∉ i.results → st1.env v = st.env v := by
    intro v hv
    have := exec_frame w (fun v => st.env (res f.alias v)) i st v hv
    rw [hex] at this; exact this
  have hty : Typed c.cty st1.env := by
    have := exec_typed w (fun v => st.env (res f.alias v)) i st hinv.ty hok.2.2.2.1
    rw [hex] at this; exact this
  obtain ⟨hJ, hK⟩ := hinv.step_old hwf.alRank hR' i.results (fun r0 hr0 => (hok.2.2.1 r0 hr0).1) hfr hfr
  refine ⟨⟨fun _ _ => rfl, rfl, rfl⟩, ?_, hty, ?_⟩
  · -- J
    intro v hv
    rcases List.mem_append.mp hv with hv | hv
    · exact hJ v hv
    · rcases hok.2.1 v hv with hself | ⟨v', hv', hvv'⟩
      · -- a result without alias
        by_cases hvr : v = r
        · -- the shift itself
          subst hvr
          have hii : i = i0 := by
            obtain ⟨op, ty, y, cty, k, hi0e, _⟩ := shift_facts hwf hi0 hrule h1 h2
            exact instr_unique hwf.uniq hi hi0 hv (by subst hi0e; simp [Instr.results])
          subst hii
          obtain ⟨op, ty, y, cty, k, hi0e, hs, hc, hk, hy⟩ := shift_facts hwf hi0 hrule h1 h2
          subst hi0e
          rw [res_new hwf hi0 hrule h1 h2, hself, if_pos rfl]
          -- the value the shift computes
          simp only [execInstr, Ctl.next.injEq] at hex
          subst hex
          have hxt : (st.set v (evalBin op ty (st.env (res f.alias x)) (st.env (res f.alias y)))).env (res f.alias x)
              = st.env (res f.alias x) := by
            simp [St.set, upd, h1]
          rw [hxt]
          simp only [St.set, upd, if_pos]
          -- the amount is the constant
          have hamt : st.env (res f.alias y) = norm cty k := by
            obtain ⟨vy, hvy, hyv⟩ := hok.1 y (by simp [Instr.operands])
            rw [hy] at hyv ⊢
            exact hinv.K vy hvy y cty k hc hyv.symm
          have hlt : st.env (res f.alias x) < 2 ^ ty.bits := by
            have := hinv.ty (res f.alias x)
            rw [cty_res hwf.alTy x] at this
            have hsty : c.cty x = ty := hok.2.2.2.2.1 hs
            rw [hsty] at this; exact this
          rw [hamt, evalBin_shift_zero hs ty hlt (amount_zero cty ty k hk)]
        · rw [res_new hwf hi0 hrule h1 h2, hself, if_neg hvr]
      · -- a result that has an alias already
        rw [ext_insert r x v v' hvv', hvv']
        exact hJ v' hv'
  · -- K
    intro v hv r0 ty0 k0 hc hr0
    rcases List.mem_append.mp hv with hv | hv
    · exact hK v hv r0 ty0 k0 hc hr0
    · rcases hok.2.1 v hv with hself | ⟨v', hv', hvv'⟩
      · rw [hself] at hr0
        subst hr0
        have hii : i = .iconst v ty0 k0 := instr_unique hwf.uniq hi hc hv (by simp [Instr.results])
        subst hii
        simp only [execInstr, Ctl.next.injEq] at hex
        subst hex
        simp [St.set, upd]
      · rw [hvv'] at hr0
        exact hK v' hv' r0 ty0 k0 hc hr0

/-- what must hold when control enters a block: the facts at the end of the predecessor -/
private def ER (c : Cert) (f : Func) (al' : List (Val × Val)) (b : BlockId) (as as' : List Nat) (st st' : St) : Prop :=
  as' = as ∧ st' = st ∧ ∃ V1, Inv c f al' (fun _ => True) V1 st st ∧ (∀ v ∈ c.avail b, v ∈ V1) ∧
    (∀ T, f.findBlock b = some T → ∀ q ∈ c.pdefs b, q ∉ T.params.map (·.1) →
      ∃ v ∈ V1, res f.alias q = res f.alias v)

include hB0 hB0v hi0B in
private theorem body_sim (w : World) {B : Block} (hB : B ∈ f.blocks) (hBv : B.invalid = false) :
    ∀ (is pre : List Instr) (st : St), B.instrs = pre ++ is →
      Inv c f (aliasInsert f.alias r x) (fun _ => True)
        (c.avail B.id ++ c.pdefs B.id ++ pre.flatMap (·.results)) st st →
      BodyOut (ER c f (aliasInsert f.alias r x)) (execBody w f.alias is st)
        (execBody w (aliasInsert f.alias r x) is st) := by
  have hR' := alRank_new hwf hi0 hB0 hB0v hi0B hrule h1 h2
  have hBok := hwf.blocks B hB hBv
  intro is
  induction is with
  | nil => intro pre st _ _; exact .none
  | cons i is ih =>
    intro pre st hsplit hinv
    have hbody := hBok.2.2.2.2.1
    rw [hsplit] at hbody
    have hok := BodyOK_split pre _ i is hbody
    have hi : i ∈ f.allInstrs := mem_allInstrs.mpr ⟨B, hB, by rw [hsplit]; simp⟩
    -- both runs read the same operands
    have hread : ∀ o ∈ i.operands,
        (fun v => st.env (res (aliasInsert f.alias r x) v)) o = (fun v => st.env (res f.alias v)) o :=
      fun o ho => hinv.read (ext_insert r x) (hok.1 o ho)
    simp only [execBody]
    rw [execInstr_congr w i st hread]
    cases hex : execInstr w (fun v => st.env (res f.alias v)) i st with
    | next st1 =>
      simp only []
      have hinv1 := inv_next hwf hi0 hrule h1 h2 hi hok hinv hR' w hex
      apply ih (pre ++ [i]) st1 (by rw [hsplit]; simp)
      simpa [List.flatMap_append, List.append_assoc] using hinv1
    | goto b' args st1 =>
      simp only []
      obtain ⟨hst, as, hbr⟩ := execInstr_goto_inv w _ i st hex
      subst hst
      refine .goto ⟨rfl, rfl, _, hinv, ?_, ?_⟩
      · have := hok.2.2.2.2.2
        rw [hbr] at this
        simp only [] at this
        split at this
        · exact this.2.1
        · exact this.elim
      · intro T hT q hq hqn
        have := hok.2.2.2.2.2
        rw [hbr] at this
        simp only [hT] at this
        exact this.2.2.2 q hq hqn
    | ret vs st1 => exact .ret rfl rfl
    | trap code st1 => exact .trap rfl rfl

include hB0 hB0v hi0B in
/-- entering a block: the invariant at the end of the predecessor gives the invariant at the start of the block -/
private theorem entry_inv {b : BlockId} {as : List Nat} {st : St} {T : Block} (hT : f.findBlock b = some T)
    (her : ER c f (aliasInsert f.alias r x) b as as st st) :
    Inv c f (aliasInsert f.alias r x) (fun _ => True) (c.avail T.id ++ c.pdefs T.id)
      { st with env := bindVals st.env T.params as } { st with env := bindVals st.env T.params as } := by
  obtain ⟨hTm, hTid, hTv⟩ := findBlock_mem hT
  subst hTid
  obtain ⟨_, _, V1, hinv, hav, hgh⟩ := her
  have hR' := alRank_new hwf hi0 hB0 hB0v hi0B hrule h1 h2
  have hTok := hwf.blocks T hTm hTv
  obtain ⟨hpr, hpd, hghk, havr, _, _⟩ := hTok
  have hfr : ∀ v, v ∉ T.params.map (·.1) → bindVals st.env T.params as v = st.env v :=
    fun v hv => bindVals_frame _ _ _ _ hv
  -- facts about values of the predecessor that are below the parameters
  have hlow : ∀ (V' : List Val), (∀ v ∈ V', v ∈ V1) → (∀ v ∈ V', c.rank v < c.bidx T.id * c.M) →
      (∀ v ∈ V', bindVals st.env T.params as (res (aliasInsert f.alias r x) v) =
          bindVals st.env T.params as (res f.alias v)) ∧
      (∀ v ∈ V', ∀ r0 ty0 k0, Instr.iconst r0 ty0 k0 ∈ f.allInstrs → res f.alias v = r0 →
          bindVals st.env T.params as r0 = norm ty0 k0) := by
    intro V' hsub hrk
    exact (hinv.mono hsub).step_old (st1 := { st with env := bindVals st.env T.params as })
      (st1' := { st with env := bindVals st.env T.params as }) hwf.alRank hR' (T.params.map (·.1))
      (fun p hp v hv => by
        obtain ⟨p', hp', hpe⟩ := List.mem_map.mp hp
        rw [← hpe, hpd _ (hpr p' hp').1]; exact hrk v hv) hfr hfr
  obtain ⟨hJa, hKa⟩ := hlow (c.avail T.id) hav havr
  refine ⟨⟨fun _ _ => rfl, rfl, rfl⟩, ?_, typed_bindVals _ _ hinv.ty (fun p hp => (hpr p hp).2.1), ?_⟩
  · intro v hv
    rcases List.mem_append.mp hv with hv | hv
    · exact hJa v hv
    · by_cases hpv : v ∈ T.params.map (·.1)
      · -- a parameter: no alias in either table
        obtain ⟨p', hp', hpe⟩ := List.mem_map.mp hpv
        have hnk : aliasGet f.alias v = none := hpe ▸ (hpr p' hp').2.2
        have hne : v ≠ r := by
          intro he
          obtain ⟨op, ty, y, cty, k, hi0e, _⟩ := shift_facts hwf hi0 hrule h1 h2
          exact param_not_result hwf.uniq hTm hpv hi0 (by subst hi0e; subst he; simp [Instr.results])
        rw [res_new hwf hi0 hrule h1 h2, res_of_none hnk, if_neg hne]
      · -- a removed parameter: resolves like a value of the predecessor
        obtain ⟨v', hv', hvv'⟩ := hgh T hT v hv hpv
        have hk := hghk v hv hpv
        have hk' : aliasGet (aliasInsert f.alias r x) v ≠ none := aliasGet_insert_ne_none hk
        have hr1 := rank_res_lt_of_key hwf.alRank hk
        have hr2 := rank_res_lt_of_key hR' hk'
        rw [hpd v hv] at hr1 hr2
        have hnp : ∀ u, c.rank u < c.bidx T.id * c.M → u ∉ T.params.map (·.1) := by
          intro u hu hmem
          obtain ⟨p', hp', hpe⟩ := List.mem_map.mp hmem
          have := hpd _ (hpr p' hp').1
          rw [hpe] at this; omega
        show bindVals st.env T.params as _ = bindVals st.env T.params as _
        rw [hfr _ (hnp _ hr2), hfr _ (hnp _ hr1)]
        rw [ext_insert r x v v' hvv', hvv']
        exact hinv.J v' hv'
  · intro v hv r0 ty0 k0 hc hr0
    rcases List.mem_append.mp hv with hv | hv
    · exact hKa v hv r0 ty0 k0 hc hr0
    · by_cases hpv : v ∈ T.params.map (·.1)
      · obtain ⟨p', hp', hpe⟩ := List.mem_map.mp hpv
        have hnk : aliasGet f.alias v = none := hpe ▸ (hpr p' hp').2.2
        rw [res_of_none hnk] at hr0
        subst hr0
        exact absurd (by simp [Instr.results]) (param_not_result hwf.uniq hTm hpv hc)
      · obtain ⟨v', hv', hvv'⟩ := hgh T hT v hv hpv
        have hk := hghk v hv hpv
        have hr1 := rank_res_lt_of_key hwf.alRank hk
        rw [hpd v hv] at hr1
        have hnp : r0 ∉ T.params.map (·.1) := by
          intro hmem
          obtain ⟨p', hp', hpe⟩ := List.mem_map.mp hmem
          have := hpd _ (hpr p' hp').1
          rw [hpe, ← hr0] at this; omega
        show bindVals st.env T.params as _ = _
        rw [hfr _ hnp]
        rw [hvv'] at hr0
        exact hinv.K v' hv' r0 ty0 k0 hc hr0

include hB0 hB0v hi0B in
/-- **One application of the rule preserves the semantics.** -/
theorem nopStep_run (w : World) (args : List Nat) (fuel : Nat) :
    run w { f with alias := aliasInsert f.alias r x } args fuel = run w f args fuel := by
  simp only [run]
  symm
  have hentry : ({ f with alias := aliasInsert f.alias r x } : Func).entry = f.entry := rfl
  rw [hentry]
  apply run_sim_driver w f { f with alias := aliasInsert f.alias r x } (ER c f (aliasInsert f.alias r x))
  · intro b as as' st st' her
    have her0 := her
    obtain ⟨has, hst, _⟩ := her
    subst has; subst hst
    have hfb : ({ f with alias := aliasInsert f.alias r x } : Func).findBlock b = f.findBlock b := rfl
    cases hT : f.findBlock b with
    | none => left; exact ⟨rfl, by rw [hfb, hT]⟩
    | some T =>
      right
      refine ⟨T, T, rfl, by rw [hfb, hT], Iff.rfl, fun _ => ?_⟩
      obtain ⟨hTm, hTid, hTv⟩ := findBlock_mem hT
      have hinv := entry_inv hwf hi0 hB0 hB0v hi0B hrule h1 h2 hT her0
      exact body_sim hwf hi0 hB0 hB0v hi0B hrule h1 h2 w hTm hTv T.instrs [] _ rfl (by simpa using hinv)
  · refine ⟨rfl, rfl, [], Inv.mk ⟨fun _ _ => rfl, rfl, rfl⟩ (fun v hv => by cases hv) ?_
      (fun v hv => by cases hv), ?_, ?_⟩
    · intro v; exact Nat.two_pow_pos _
    · rw [hwf.entryAvail]; intro v hv; cases hv
    · intro T hT q hq hqn
      obtain ⟨hTm, hTid, _⟩ := findBlock_mem hT
      exact absurd (hwf.entryGhost T hTm hTid q hq) hqn


include hB0 hB0v hi0B in
/-- **One application of the rule preserves well-formedness** (with the same certificate). -/
theorem nopStep_wf : WF c { f with alias := aliasInsert f.alias r x } := by
  have hR' := alRank_new hwf hi0 hB0 hB0v hi0B hrule h1 h2
  obtain ⟨op, ty, y, cty, k, hi0e, hs, hc, hk, hy⟩ := shift_facts hwf hi0 hrule h1 h2
  have hr0 : r ∈ i0.results := by subst hi0e; simp [Instr.results]
  -- the shift at its place
  obtain ⟨pre, post, hsplit⟩ := List.append_of_mem hi0B
  have hB0ok := hwf.blocks B0 hB0 hB0v
  have hbody0 := hB0ok.2.2.2.2.1
  rw [hsplit] at hbody0
  have hok0 := BodyOK_split pre _ i0 post hbody0
  have hctyr : c.cty r = ty := by
    have := hok0.2.2.2.1 (r, ty) (by subst hi0e; simp [Instr.typedResults])
    exact this
  have hctyx : c.cty (res f.alias x) = ty := by
    rw [cty_res hwf.alTy x]
    have := hok0.2.2.2.2.1
    subst hi0e
    exact this hs
  refine ⟨hwf.ids, (aliasNF_iff _).mp (aliasNF_insert (hnf hwf hi0 hrule h1 h2) r x), hR', ?_, ?_, hwf.uniq,
    hwf.entryAvail, hwf.entryGhost, hwf.Mpos, ?_⟩
  · -- types
    intro e he
    rcases mem_aliasInsert h1 h2 he with h | ⟨e0, he0, hk1, ht | ⟨ht1, ht2⟩⟩
    · subst h; show c.cty r = c.cty (res f.alias x); rw [hctyr, hctyx]
    · rw [hk1, ht]; exact hwf.alTy e0 he0
    · have := hwf.alTy e0 he0
      rw [hk1, ht2, this, ht1, hctyr, hctyx]
  · -- constants keep having no alias
    intro i hi
    have hold := hwf.constKey i hi
    cases i <;> simp only [ConstNoKey] at hold ⊢
    case iconst r0 ty0 k0 =>
      show aliasGet (aliasInsert f.alias r x) r0 = none
      rw [aliasGet_insert h1 h2]
      split
      · rename_i hrr
        subst hrr
        have := instr_unique hwf.uniq hi hi0 (r := r) (by simp [Instr.results]) hr0
        subst hi0e
        cases this
      · rw [hold]; rfl
  · -- blocks
    intro B hB hBv
    obtain ⟨hpr, hpd, hghk, havr, hbody, hfwd⟩ := hwf.blocks B hB hBv
    refine ⟨?_, hpd, ?_, havr, ?_, hfwd⟩
    · intro p hp
      refine ⟨(hpr p hp).1, (hpr p hp).2.1, ?_⟩
      show aliasGet (aliasInsert f.alias r x) p.1 = none
      rw [aliasGet_insert h1 h2]
      split
      · rename_i hrp
        exact absurd (hrp ▸ hr0) (param_not_result hwf.uniq hB (List.mem_map_of_mem hp) hi0)
      · rw [(hpr p hp).2.2]; rfl
    · intro q hq hqn
      exact aliasGet_insert_ne_none (hghk q hq hqn)
    · apply BodyOK_of_ext (ext_insert r x) _ B.instrs _ (fun _ h => h) hbody
      intro V i hok hiB r0 hr0' hself
      by_cases hrr : r0 = r
      · subst hrr
        have hii : i = i0 := instr_unique hwf.uniq (mem_allInstrs.mpr ⟨B, hB, hiB⟩) hi0 hr0' hr0
        subst hii
        right
        obtain ⟨v, hv, hxv⟩ := x_avail hwf hi0 hrule h1 h2 hok
        refine ⟨v, hv, ?_⟩
        rw [res_new hwf hi0 hrule h1 h2, res_new hwf hi0 hrule h1 h2, hself, if_pos rfl, ← hxv, if_neg h1]
      · left
        rw [res_new hwf hi0 hrule h1 h2, hself, if_neg hrr]

end step

/-! ### the pass -/

theorem nopFold (w : World) {c : Cert} {f : Func} :
    ∀ (is : List Instr), (∀ i ∈ is, ∃ B ∈ f.blocks, B.invalid = false ∧ i ∈ B.instrs) →
      ∀ (al : List (Val × Val)), WF c { f with alias := al } →
        (∀ args fuel,
          run w { f with alias := is.foldl (fun al i =>
            match nopRule f i with
            | some (r, x) => aliasInsert al r x
            | none => al) al } args fuel = run w { f with alias := al } args fuel) ∧
        WF c { f with alias := is.foldl (fun al i =>
            match nopRule f i with
            | some (r, x) => aliasInsert al r x
            | none => al) al } := by
  intro is
  induction is with
  | nil => intro _ al hwf; exact ⟨fun _ _ => rfl, hwf⟩
  | cons i is ih =>
    intro hsub al hwf
    have hsub' : ∀ j ∈ is, ∃ B ∈ f.blocks, B.invalid = false ∧ j ∈ B.instrs :=
      fun j hj => hsub j (List.mem_cons_of_mem _ hj)
    simp only [List.foldl_cons]
    cases hrule : nopRule f i with
    | none => exact ih hsub' al hwf
    | some p =>
      obtain ⟨r, x⟩ := p
      simp only []
      by_cases hdeg : res al x = r ∨ aliasGet al r ≠ none
      · rw [aliasInsert_eq_of_degenerate hdeg]; exact ih hsub' al hwf
      · have h1 : res al x ≠ r := fun h => hdeg (Or.inl h)
        have h2 : aliasGet al r = none := Classical.not_not.mp (fun h => hdeg (Or.inr h))
        obtain ⟨B, hB, hBv, hiB⟩ := hsub i (List.mem_cons_self ..)
        have hi : i ∈ ({ f with alias := al } : Func).allInstrs := mem_allInstrs.mpr ⟨B, hB, hiB⟩
        have hrule' : nopRule { f with alias := al } i = some (r, x) := hrule
        have hrun := nopStep_run hwf hi (B0 := B) hB hBv hiB hrule' h1 h2 w
        have hwf1 := nopStep_wf hwf hi (B0 := B) hB hBv hiB hrule' h1 h2
        obtain ⟨hr2, hw2⟩ := ih hsub' (aliasInsert al r x) hwf1
        refine ⟨fun args fuel => ?_, hw2⟩
        rw [hr2 args fuel]
        exact hrun args fuel

/-- **No-op elimination is sound** on well-formed functions and keeps them well-formed. -/
theorem nopElim_sound (w : World) {c : Cert} {f : Func} (hwf : WF c f) :
    (∀ args fuel, run w (nopElim f) args fuel = run w f args fuel) ∧ WF c (nopElim f) := by
  have := nopFold w (c := c) (f := f) ((f.blocks.filter (fun B => ¬ B.invalid)).flatMap (·.instrs))
    (fun i hi => by
      obtain ⟨B, hB, hiB⟩ := List.mem_flatMap.mp hi
      obtain ⟨hBm, hBv⟩ := List.mem_filter.mp hB
      exact ⟨B, hBm, by simpa using hBv, hiB⟩) f.alias hwf
  exact this

end Wz.Model.SsaPass
