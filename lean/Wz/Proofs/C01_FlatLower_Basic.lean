/-
C01 (lowering), proof infrastructure: finite runs of the flat machine (`Reach`, `TrapsAt`, `RunsFor`), placement of
lowered code in the operation list (`At`), value typing, the drop-range arithmetic.
-/
import Wz.Model.FlatLower

namespace Wz.Proofs.FlatLower
open Wz.Spec Wz.Spec.Wasm Wz.Model.FlatLower

/-! ## runs of the flat machine -/

abbrev Cfg := Nat × List Nat

/-- `Reach code k a b`: the machine goes from `a` to `b` in exactly `k` steps (none of them traps, panics or
leaves the loop) -/
inductive Reach (code : List FlatOp) : Nat → Cfg → Cfg → Prop
  | refl (a) : Reach code 0 a a
  | cons {k pc stk op pc' stk' b} : code[pc]? = some op →
      Model.FlatLower.step op pc stk = .cont pc' stk' →
      Reach code k (pc', stk') b → Reach code (k + 1) (pc, stk) b

theorem Reach.cast {code k k' a b} (h : Reach code k a b) (e : k = k') : Reach code k' a b := e ▸ h

theorem Reach.trans {code k1 k2 a b c} (h1 : Reach code k1 a b) (h2 : Reach code k2 b c) :
    Reach code (k1 + k2) a c := by
  induction h1 with
  | refl a => simpa using h2
  | cons hop hst _ ih => exact (Reach.cons hop hst (ih h2)).cast (by omega)

theorem Reach.one {code pc stk op pc' stk'} (hop : code[pc]? = some op)
    (hst : step op pc stk = .cont pc' stk') : Reach code 1 (pc, stk) (pc', stk') :=
  Reach.cons hop hst (Reach.refl _)

/-- a run of `k` steps followed by a trap -/
def TrapsAt (code : List FlatOp) (a : Cfg) (kind : String) : Prop :=
  ∃ k pc stk op, Reach code k a (pc, stk) ∧ code[pc]? = some op ∧ step op pc stk = .trap kind

/-- the machine can make `k` steps from `a` -/
def RunsFor (code : List FlatOp) (k : Nat) (a : Cfg) : Prop := ∃ b, Reach code k a b

theorem RunsFor.zero {code a} : RunsFor code 0 a := ⟨a, Reach.refl a⟩

theorem Reach.prefix {code j k a b} (h : Reach code k a b) (hj : j ≤ k) : RunsFor code j a := by
  induction h generalizing j with
  | refl a => have : j = 0 := by omega
              subst this; exact .zero
  | cons hop hst _ ih =>
    cases j with
    | zero => exact .zero
    | succ j =>
      obtain ⟨b', hb'⟩ := ih (Nat.le_of_succ_le_succ hj)
      exact ⟨b', Reach.cons hop hst hb'⟩

theorem RunsFor.mono {code j k a} (h : RunsFor code k a) (hj : j ≤ k) : RunsFor code j a := by
  obtain ⟨b, hb⟩ := h; exact hb.prefix hj

theorem RunsFor.after {code j k a b} (h1 : Reach code k a b) (h2 : RunsFor code j b) : RunsFor code (k + j) a := by
  obtain ⟨c, hc⟩ := h2; exact ⟨c, h1.trans hc⟩

theorem TrapsAt.after {code k a b kind} (h1 : Reach code k a b) (h2 : TrapsAt code b kind) : TrapsAt code a kind := by
  obtain ⟨k2, pc, stk, op, hr, hop, hst⟩ := h2
  exact ⟨k + k2, pc, stk, op, h1.trans hr, hop, hst⟩

theorem runFrom_reach {code k a b} (h : Reach code k a b) (n : Nat) :
    runFrom code (k + n) a.1 a.2 = runFrom code n b.1 b.2 := by
  induction h with
  | refl a => simp
  | cons hop hst _ ih =>
    rw [Nat.add_right_comm]
    simp only [runFrom, hop, hst]
    exact ih

theorem runFrom_runsFor {code k a} (h : RunsFor code k a) : runFrom code k a.1 a.2 = .error .exhausted := by
  obtain ⟨b, hb⟩ := h
  have := runFrom_reach hb 0
  simpa [runFrom] using this

theorem runFrom_traps {code a kind} (h : TrapsAt code a kind) : ∃ k, ∀ n, runFrom code (k + 1 + n) a.1 a.2 = .error (.trap kind) := by
  obtain ⟨k, pc, stk, op, hr, hop, hst⟩ := h
  refine ⟨k, fun n => ?_⟩
  rw [show k + 1 + n = k + (n + 1) by omega, runFrom_reach hr (n + 1)]
  simp only [runFrom, hop, hst]

theorem runFrom_exit {code k a pc stk} (h : Reach code k a (pc, stk)) (hpc : code.length ≤ pc) (n : Nat) :
    runFrom code (k + (n + 1)) a.1 a.2 = .ok stk := by
  rw [runFrom_reach h (n + 1)]
  have : code[pc]? = none := by simpa using hpc
  simp [runFrom, this]

/-- more fuel does not change a finished run -/
theorem runFrom_mono {code} : ∀ {n pc stk r}, runFrom code n pc stk = r → r ≠ .error .exhausted →
    ∀ m, n ≤ m → runFrom code m pc stk = r := by
  intro n
  induction n with
  | zero => intro pc stk r h hr; simp [runFrom] at h; exact absurd h.symm hr
  | succ n ih =>
    intro pc stk r h hr m hm
    obtain ⟨m', rfl⟩ : ∃ m', m = m' + 1 := ⟨m - 1, by omega⟩
    simp only [runFrom] at h ⊢
    split
    · rename_i hc; simpa [hc] using h
    · rename_i op hc
      simp only [hc] at h
      split
      · rename_i pc' stk' hs
        simp only [hs] at h
        exact ih h hr m' (by omega)
      · rename_i kd hs; simpa [hs] using h
      · rename_i w hs; simpa [hs] using h

/-! ## placement of code -/

/-- `ops` occurs in `sym` at position `pc` -/
def At (sym : List SymOp) (pc : Nat) (ops : List SymOp) : Prop :=
  ∃ pre post, sym = pre ++ ops ++ post ∧ pre.length = pc

theorem At.left {sym pc a b} (h : At sym pc (a ++ b)) : At sym pc a := by
  obtain ⟨pre, post, rfl, hl⟩ := h
  exact ⟨pre, b ++ post, by simp, hl⟩

theorem At.right {sym pc a b} (h : At sym pc (a ++ b)) : At sym (pc + a.length) b := by
  obtain ⟨pre, post, rfl, hl⟩ := h
  exact ⟨pre ++ a, post, by simp, by simp [hl]⟩

theorem At.tail {sym pc o rest} (h : At sym pc (o :: rest)) : At sym (pc + 1) rest := by
  have := At.right (a := [o]) (b := rest) (by simpa using h)
  simpa using this

theorem At.get {sym pc o rest} (h : At sym pc (o :: rest)) : sym[pc]? = some o := by
  obtain ⟨pre, post, rfl, hl⟩ := h
  subst hl
  simp

theorem At.lt {sym pc o rest} (h : At sym pc (o :: rest)) : pc < sym.length := by
  obtain ⟨pre, post, rfl, hl⟩ := h
  subst hl
  simp

theorem At.cast {sym pc pc' ops ops'} (h : At sym pc ops) (e1 : pc = pc') (e2 : ops = ops') : At sym pc' ops' := by
  subst e1; subst e2; exact h

theorem resolve_get {sym : List SymOp} {pc : Nat} {o : SymOp} (h : sym[pc]? = some o) :
    (resolve sym)[pc]? = some (Op.mapT (resolveT sym) o) := by
  simp [resolve, h]

theorem resolve_length (sym : List SymOp) : (resolve sym).length = sym.length := by simp [resolve]

/-! ## values and types -/

def ValsOK : List Ty → List Nat → Prop
  | [], [] => True
  | t :: ts, v :: vs => v < 2 ^ t.bits ∧ ValsOK ts vs
  | _, _ => False

@[simp] theorem ValsOK_nil : ValsOK [] [] := trivial
@[simp] theorem ValsOK_cons {t ts v vs} : ValsOK (t :: ts) (v :: vs) ↔ v < 2 ^ t.bits ∧ ValsOK ts vs := Iff.rfl

theorem ValsOK.length {ts vs} (h : ValsOK ts vs) : vs.length = ts.length := by
  induction ts generalizing vs with
  | nil => cases vs <;> simp_all [ValsOK]
  | cons t ts ih =>
    cases vs with
    | nil => simp [ValsOK] at h
    | cons v vs => simp [ih h.2]

theorem ValsOK.nil_left {vs} (h : ValsOK [] vs) : vs = [] := by
  cases vs <;> simp_all [ValsOK]

theorem ValsOK.cons_left {t ts vs} (h : ValsOK (t :: ts) vs) : ∃ v vs', vs = v :: vs' ∧ v < 2 ^ t.bits ∧ ValsOK ts vs' := by
  cases vs with
  | nil => simp [ValsOK] at h
  | cons v vs' => exact ⟨v, vs', rfl, h.1, h.2⟩

theorem ValsOK.append {a b va vb} (h1 : ValsOK a va) (h2 : ValsOK b vb) : ValsOK (a ++ b) (va ++ vb) := by
  induction a generalizing va with
  | nil => rw [h1.nil_left]; simpa using h2
  | cons t ts ih =>
    obtain ⟨v, vs', rfl, hv, hvs⟩ := h1.cons_left
    exact ⟨hv, ih hvs⟩

theorem ValsOK.split {a b vs} (h : ValsOK (a ++ b) vs) : ∃ va vb, vs = va ++ vb ∧ ValsOK a va ∧ ValsOK b vb := by
  induction a generalizing vs with
  | nil => exact ⟨[], vs, rfl, trivial, by simpa using h⟩
  | cons t ts ih =>
    obtain ⟨v, vs', rfl, hv, hvs⟩ := ValsOK.cons_left (by simpa using h)
    obtain ⟨va, vb, rfl, h1, h2⟩ := ih hvs
    exact ⟨v :: va, vb, rfl, ⟨hv, h1⟩, h2⟩

theorem ValsOK.get {ts : List Ty} {vs : List Nat} {i : Nat} {t : Ty} (h : ValsOK ts vs) (ht : ts[i]? = some t) :
    ∃ v, vs[i]? = some v ∧ v < 2 ^ t.bits := by
  induction ts generalizing vs i with
  | nil => simp at ht
  | cons t0 ts ih =>
    obtain ⟨v, vs', rfl, hv, hvs⟩ := h.cons_left
    cases i with
    | zero => simp at ht; subst ht; exact ⟨v, rfl, hv⟩
    | succ i => simpa using ih hvs (by simpa using ht)

theorem ValsOK.set {ts : List Ty} {vs : List Nat} {i : Nat} {t : Ty} {v : Nat} (h : ValsOK ts vs) (ht : ts[i]? = some t)
    (hv : v < 2 ^ t.bits) : ValsOK ts (vs.set i v) := by
  induction ts generalizing vs i with
  | nil => simp at ht
  | cons t0 ts ih =>
    obtain ⟨v0, vs', rfl, hv0, hvs⟩ := h.cons_left
    cases i with
    | zero => simp at ht; subst ht; exact ⟨hv, hvs⟩
    | succ i => exact ⟨hv0, ih hvs (by simpa using ht)⟩

theorem ValsOK.replicate_zero (ts : List Ty) : ValsOK ts (ts.map (fun _ => 0)) := by
  induction ts with
  | nil => trivial
  | cons t ts ih => exact ⟨Nat.pow_pos (by decide), ih⟩

theorem hasPrefix_iff {want st : List Ty} : hasPrefix want st = true ↔ ∃ rest, st = want ++ rest := by
  unfold hasPrefix
  constructor
  · intro h
    have h' : st.take want.length = want := by simpa using h
    refine ⟨st.drop want.length, ?_⟩
    have := (List.take_append_drop want.length st).symm
    rwa [h'] at this
  · rintro ⟨rest, rfl⟩; simp

/-! ## the drop arithmetic -/

/-- keep the top `a` values and the bottom `orig` values -/
def keepTop (a orig : Nat) (stk : List Nat) : List Nat := stk.take a ++ stk.drop (stk.length - orig)

theorem applyDrop_dropRange {F : Fr} {isEnd : Bool} {stk : List Nat} {a : Nat}
    (ha : (if !isEnd && F.kind == .loop then 0 else F.res) = a) (hle : a + F.orig ≤ stk.length) :
    applyDrop (dropRange F isEnd stk.length) stk = some (keepTop a F.orig stk) := by
  unfold dropRange
  simp only [ha]
  split
  · rename_i h
    simp only [applyDrop]
    rw [if_pos (by omega)]
    unfold keepTop
    congr 3; omega
  · rename_i h
    have : a + F.orig = stk.length := by omega
    simp only [applyDrop, keepTop]
    congr 1
    rw [show stk.length - F.orig = a by omega, List.take_append_drop]

/-- `Fr.brArity`: number of operands of a branch to the frame -/
def brArity (F : Fr) : Nat := if F.kind = .loop then 0 else F.res

theorem applyDrop_br {F : Fr} {stk : List Nat} (hle : brArity F + F.orig ≤ stk.length) :
    applyDrop (dropRange F false stk.length) stk = some (keepTop (brArity F) F.orig stk) := by
  apply applyDrop_dropRange _ hle
  unfold brArity
  cases F.kind <;> simp

theorem emitDrop_none {τ} : emitDrop (τ := τ) none = [] := rfl

/-- at a reachable `end` the range is empty when the height is `orig + res` -/
theorem dropRange_end_nop {F : Fr} : dropRange F true (F.orig + F.res) = none := by
  unfold dropRange; simp; omega

end Wz.Proofs.FlatLower
