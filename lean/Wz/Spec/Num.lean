/-
The numeric instruction table of WebAssembly: instruction name ↦ specification function on bit
patterns (`Nat`), for scalar instructions and v128 instructions (each defined lane-wise from the scalar
specification, as the standard does).  Used as the specification in C05/C01 and as the oracle.
-/
import Wz.Spec.Int
import Wz.Spec.Float

namespace Wz.Spec.Num
open Wz.Spec

inductive Res where
  | val (v : Nat)            -- exact bit pattern required
  | nanArith (w : Nat)       -- any arithmetic NaN of width w (quiet bit set), sign/payload free
  | lanes (w : Nat) (l : List Res) -- v128 result as lanes (low lane first), each exact or NaN-class
  | trap (kind : String)
deriving Repr

def bv (n : Nat) (v : Nat) : BitVec n := BitVec.ofNat n v

/-- wrap a float result: NaNs produced by arithmetic are only specified up to sign/payload -/
def fres (f : Float.Fmt) (r : Nat) : Res :=
  if Float.isNaN f r then .nanArith f.width else .val r

def optRes {n} (o : Option (BitVec n)) (kind : String) : Res :=
  match o with
  | some v => .val v.toNat
  | none => .trap kind

/-- integer binary ops at width n -/
def ibin (n : Nat) (op : String) (a b : Nat) : Option Res :=
  let x := bv n a; let y := bv n b
  match op with
  | "add" => some (.val (Int.iadd x y).toNat)
  | "sub" => some (.val (Int.isub x y).toNat)
  | "mul" => some (.val (Int.imul x y).toNat)
  | "div_u" => some (optRes (Int.idivU x y) "div0")
  | "rem_u" => some (optRes (Int.iremU x y) "div0")
  | "div_s" => some (if y.toNat == 0 then .trap "div0" else optRes (Int.idivS x y) "overflow")
  | "rem_s" => some (optRes (Int.iremS x y) "div0")
  | "and" => some (.val (Int.iand x y).toNat)
  | "or" => some (.val (Int.ior x y).toNat)
  | "xor" => some (.val (Int.ixor x y).toNat)
  | "shl" => some (.val (Int.ishl x y).toNat)
  | "shr_s" => some (.val (Int.ishrS x y).toNat)
  | "shr_u" => some (.val (Int.ishrU x y).toNat)
  | "rotl" => some (.val (Int.irotl x y).toNat)
  | "rotr" => some (.val (Int.irotr x y).toNat)
  | "eq" => some (.val (Int.ieq x y).toNat)
  | "ne" => some (.val (Int.ine x y).toNat)
  | "lt_s" => some (.val (Int.iltS x y).toNat)
  | "lt_u" => some (.val (Int.iltU x y).toNat)
  | "gt_s" => some (.val (Int.igtS x y).toNat)
  | "gt_u" => some (.val (Int.igtU x y).toNat)
  | "le_s" => some (.val (Int.ileS x y).toNat)
  | "le_u" => some (.val (Int.ileU x y).toNat)
  | "ge_s" => some (.val (Int.igeS x y).toNat)
  | "ge_u" => some (.val (Int.igeU x y).toNat)
  | _ => none

def iun (n : Nat) (op : String) (a : Nat) : Option Res :=
  let x := bv n a
  match op with
  | "clz" => some (.val (Int.iclz x).toNat)
  | "ctz" => some (.val (Int.ictz x).toNat)
  | "popcnt" => some (.val (Int.ipopcnt x).toNat)
  | "eqz" => some (.val (Int.ieqz x).toNat)
  | "extend8_s" => some (.val (Int.iextendS 8 x).toNat)
  | "extend16_s" => some (.val (Int.iextendS 16 x).toNat)
  | "extend32_s" => some (.val (Int.iextendS 32 x).toNat)
  | _ => none

def fbin (f : Float.Fmt) (op : String) (a b : Nat) : Option Res :=
  match op with
  | "add" => some (fres f (Float.fadd f a b))
  | "sub" => some (fres f (Float.fsub f a b))
  | "mul" => some (fres f (Float.fmul f a b))
  | "div" => some (fres f (Float.fdiv f a b))
  | "min" => some (fres f (Float.fmin f a b))
  | "max" => some (fres f (Float.fmax f a b))
  | "copysign" => some (.val (Float.fcopysign f a b))
  | "eq" => some (.val (Float.feq f a b))
  | "ne" => some (.val (Float.fne f a b))
  | "lt" => some (.val (Float.flt f a b))
  | "gt" => some (.val (Float.fgt f a b))
  | "le" => some (.val (Float.fle f a b))
  | "ge" => some (.val (Float.fge f a b))
  | _ => none

def fun1 (f : Float.Fmt) (op : String) (a : Nat) : Option Res :=
  match op with
  | "abs" => some (.val (Float.fabs f a))
  | "neg" => some (.val (Float.fneg f a))
  | "sqrt" => some (fres f (Float.fsqrt f a))
  | "ceil" => some (fres f (Float.roundInt f .ceil a))
  | "floor" => some (fres f (Float.roundInt f .floor a))
  | "trunc" => some (fres f (Float.roundInt f .trunc a))
  | "nearest" => some (fres f (Float.roundInt f .nearest a))
  | _ => none

def truncRes (r : Except Float.TruncErr Nat) : Res :=
  match r with
  | .ok v => .val v
  | .error .invalid => .trap "invalid-conversion"
  | .error .overflow => .trap "overflow"

/-- scalar conversions, by full instruction name -/
def conv (name : String) (a : Nat) : Option Res :=
  match name with
  | "i32.wrap_i64" => some (.val (a % 2 ^ 32))
  | "i64.extend_i32_s" => some (.val (Int.extendS (bv 32 a)).toNat)
  | "i64.extend_i32_u" => some (.val (a % 2 ^ 32))
  | "i32.trunc_f32_s" => some (truncRes (Float.truncTrap Float.f32 32 true a))
  | "i32.trunc_f32_u" => some (truncRes (Float.truncTrap Float.f32 32 false a))
  | "i32.trunc_f64_s" => some (truncRes (Float.truncTrap Float.f64 32 true a))
  | "i32.trunc_f64_u" => some (truncRes (Float.truncTrap Float.f64 32 false a))
  | "i64.trunc_f32_s" => some (truncRes (Float.truncTrap Float.f32 64 true a))
  | "i64.trunc_f32_u" => some (truncRes (Float.truncTrap Float.f32 64 false a))
  | "i64.trunc_f64_s" => some (truncRes (Float.truncTrap Float.f64 64 true a))
  | "i64.trunc_f64_u" => some (truncRes (Float.truncTrap Float.f64 64 false a))
  | "i32.trunc_sat_f32_s" => some (.val (Float.truncSat Float.f32 32 true a))
  | "i32.trunc_sat_f32_u" => some (.val (Float.truncSat Float.f32 32 false a))
  | "i32.trunc_sat_f64_s" => some (.val (Float.truncSat Float.f64 32 true a))
  | "i32.trunc_sat_f64_u" => some (.val (Float.truncSat Float.f64 32 false a))
  | "i64.trunc_sat_f32_s" => some (.val (Float.truncSat Float.f32 64 true a))
  | "i64.trunc_sat_f32_u" => some (.val (Float.truncSat Float.f32 64 false a))
  | "i64.trunc_sat_f64_s" => some (.val (Float.truncSat Float.f64 64 true a))
  | "i64.trunc_sat_f64_u" => some (.val (Float.truncSat Float.f64 64 false a))
  | "f32.convert_i32_s" => some (.val (Float.convertInt Float.f32 32 true a))
  | "f32.convert_i32_u" => some (.val (Float.convertInt Float.f32 32 false a))
  | "f32.convert_i64_s" => some (.val (Float.convertInt Float.f32 64 true a))
  | "f32.convert_i64_u" => some (.val (Float.convertInt Float.f32 64 false a))
  | "f64.convert_i32_s" => some (.val (Float.convertInt Float.f64 32 true a))
  | "f64.convert_i32_u" => some (.val (Float.convertInt Float.f64 32 false a))
  | "f64.convert_i64_s" => some (.val (Float.convertInt Float.f64 64 true a))
  | "f64.convert_i64_u" => some (.val (Float.convertInt Float.f64 64 false a))
  | "f32.demote_f64" => some (fres Float.f32 (Float.demote a))
  | "f64.promote_f32" => some (fres Float.f64 (Float.promote a))
  | "i32.reinterpret_f32" => some (.val a)
  | "i64.reinterpret_f64" => some (.val a)
  | "f32.reinterpret_i32" => some (.val a)
  | "f64.reinterpret_i64" => some (.val a)
  | _ => none

/-- scalar instruction: name "t.op" with operand bit patterns -/
def scalar (name : String) (args : List Nat) : Option Res :=
  match name.splitOn ".", args with
  | [t, op], [a] =>
    (conv name a).orElse fun _ =>
      match t with
      | "i32" => iun 32 op a
      | "i64" => iun 64 op a
      | "f32" => fun1 Float.f32 op a
      | "f64" => fun1 Float.f64 op a
      | _ => none
  | [t, op], [a, b] =>
    match t with
    | "i32" => ibin 32 op a b
    | "i64" => ibin 64 op a b
    | "f32" => fbin Float.f32 op a b
    | "f64" => fbin Float.f64 op a b
    | _ => none
  | _, _ => none

/-! ### v128: lane-wise definitions -/

def lane (w i : Nat) (v : Nat) : Nat := v / 2 ^ (w * i) % 2 ^ w

def lanesOf (w : Nat) (v : Nat) : List Nat := (List.range (128 / w)).map (fun i => lane w i v)

def packLanes (w : Nat) (ls : List Nat) : Nat :=
  (ls.zipIdx).foldl (fun acc (x, i) => acc + (x % 2 ^ w) * 2 ^ (w * i)) 0

def sInt (w : Nat) (x : Nat) : Int := if x ≥ 2 ^ (w - 1) then (x : Int) - 2 ^ w else x
def ofInt (w : Nat) (v : Int) : Nat := (v % (2 ^ w : Int)).toNat

def satSn (w : Nat) (v : Int) : Nat := (Int.satS w v).toNat
def satUn (w : Nat) (v : Int) : Nat := (Int.satU w v).toNat

def shapeOf (s : String) : Option (Nat × Bool) :=
  match s with
  | "i8x16" => some (8, false)
  | "i16x8" => some (16, false)
  | "i32x4" => some (32, false)
  | "i64x2" => some (64, false)
  | "f32x4" => some (32, true)
  | "f64x2" => some (64, true)
  | _ => none

def fmtOf (w : Nat) : Float.Fmt := if w == 32 then Float.f32 else Float.f64

def boolLane (w : Nat) (b : Bool) : Nat := if b then 2 ^ w - 1 else 0

/-- integer lane binary op; `none` if not a lane-wise integer op -/
def ilaneBin (w : Nat) (op : String) (a b : Nat) : Option Nat :=
  let sa := sInt w a; let sb := sInt w b
  match op with
  | "add" => some ((a + b) % 2 ^ w)
  | "sub" => some (ofInt w ((a : Int) - b))
  | "mul" => some ((a * b) % 2 ^ w)
  | "add_sat_s" => some (satSn w (sa + sb))
  | "add_sat_u" => some (satUn w ((a : Int) + b))
  | "sub_sat_s" => some (satSn w (sa - sb))
  | "sub_sat_u" => some (satUn w ((a : Int) - b))
  | "min_s" => some (if sa ≤ sb then a else b)
  | "min_u" => some (if a ≤ b then a else b)
  | "max_s" => some (if sa ≥ sb then a else b)
  | "max_u" => some (if a ≥ b then a else b)
  | "avgr_u" => some ((a + b + 1) / 2)
  | "eq" => some (boolLane w (a == b))
  | "ne" => some (boolLane w (a != b))
  | "lt_s" => some (boolLane w (sa < sb))
  | "lt_u" => some (boolLane w (a < b))
  | "gt_s" => some (boolLane w (sa > sb))
  | "gt_u" => some (boolLane w (a > b))
  | "le_s" => some (boolLane w (sa ≤ sb))
  | "le_u" => some (boolLane w (a ≤ b))
  | "ge_s" => some (boolLane w (sa ≥ sb))
  | "ge_u" => some (boolLane w (a ≥ b))
  | "q15mulr_sat_s" => some (satSn w ((sa * sb + 2 ^ 14) / 2 ^ 15))
  | _ => none

def ilaneUn (w : Nat) (op : String) (a : Nat) : Option Nat :=
  match op with
  | "abs" => some (ofInt w (sInt w a).natAbs)
  | "neg" => some (ofInt w (-(a : Int)))
  | "popcnt" => some (Int.ipopcnt (bv w a)).toNat
  | _ => none

def flaneRes (f : Float.Fmt) (r : Nat) : Res := fres f r

def resLanes (w : Nat) (ls : List Nat) : Res := .val (packLanes w ls)

/-- floor division toward negative infinity for q15 (Int `/` in Lean is already floor-like for positive divisor: use fdiv) -/
def q15 (sa sb : Int) : Int := Int.fdiv (sa * sb + 2 ^ 14) (2 ^ 15)

def halfLanes (w : Nat) (high : Bool) (v : Nat) : List Nat :=
  let ls := lanesOf w v
  let n := ls.length / 2
  if high then ls.drop n else ls.take n

/-- v128 instruction with v128/i32/i64/f32/f64 operands as bit patterns; `imm` = immediates (lane index or 16 shuffle bytes) -/
def vector (name : String) (args imm : List Nat) : Option Res :=
  match name.splitOn ".", args with
  | ["v128", "not"], [a] => some (.val (2 ^ 128 - 1 - a))
  | ["v128", "and"], [a, b] => some (.val (Nat.land a b))
  | ["v128", "andnot"], [a, b] => some (.val (Nat.land a (2 ^ 128 - 1 - b)))
  | ["v128", "or"], [a, b] => some (.val (Nat.lor a b))
  | ["v128", "xor"], [a, b] => some (.val (Nat.xor a b))
  | ["v128", "bitselect"], [a, b, c] => some (.val (Nat.lor (Nat.land a c) (Nat.land b (2 ^ 128 - 1 - c))))
  | ["v128", "any_true"], [a] => some (.val (if a != 0 then 1 else 0))
  | [sh, op], _ =>
    match shapeOf sh with
    | none => none
    | some (w, isF) =>
      let n := 128 / w
      match op, args with
      | "splat", [x] => some (resLanes w (List.replicate n (x % 2 ^ w)))
      | "extract_lane", [a] =>
        match imm with
        | [i] => some (.val (lane w i a))
        | _ => none
      | "extract_lane_u", [a] =>
        match imm with
        | [i] => some (.val (lane w i a))
        | _ => none
      | "extract_lane_s", [a] =>
        match imm with
        | [i] => some (.val (ofInt 32 (sInt w (lane w i a))))
        | _ => none
      | "replace_lane", [a, x] =>
        match imm with
        | [i] => some (resLanes w ((lanesOf w a).set i (x % 2 ^ w)))
        | _ => none
      | "swizzle", [a, s] =>
        let la := lanesOf 8 a
        some (resLanes 8 ((lanesOf 8 s).map (fun i => if i < 16 then la.getD i 0 else 0)))
      | "shuffle", [a, b] =>
        let la := lanesOf 8 a ++ lanesOf 8 b
        some (resLanes 8 (imm.map (fun i => la.getD i 0)))
      | "all_true", [a] => some (.val (if (lanesOf w a).all (· != 0) then 1 else 0))
      | "bitmask", [a] =>
        some (.val ((lanesOf w a).zipIdx.foldl (fun acc (x, i) => acc + (if x ≥ 2 ^ (w - 1) then 2 ^ i else 0)) 0))
      | "shl", [a, s] => some (resLanes w ((lanesOf w a).map (fun x => (x * 2 ^ (s % w)) % 2 ^ w)))
      | "shr_u", [a, s] => some (resLanes w ((lanesOf w a).map (fun x => x / 2 ^ (s % w))))
      | "shr_s", [a, s] => some (resLanes w ((lanesOf w a).map (fun x => ofInt w (Int.fdiv (sInt w x) (2 ^ (s % w))))))
      | "narrow_i16x8_s", [a, b] => some (resLanes 8 ((lanesOf 16 a ++ lanesOf 16 b).map (fun x => satSn 8 (sInt 16 x))))
      | "narrow_i16x8_u", [a, b] => some (resLanes 8 ((lanesOf 16 a ++ lanesOf 16 b).map (fun x => satUn 8 (sInt 16 x))))
      | "narrow_i32x4_s", [a, b] => some (resLanes 16 ((lanesOf 32 a ++ lanesOf 32 b).map (fun x => satSn 16 (sInt 32 x))))
      | "narrow_i32x4_u", [a, b] => some (resLanes 16 ((lanesOf 32 a ++ lanesOf 32 b).map (fun x => satUn 16 (sInt 32 x))))
      | "dot_i16x8_s", [a, b] =>
        let la := (lanesOf 16 a).map (sInt 16); let lb := (lanesOf 16 b).map (sInt 16)
        let prods := (la.zip lb).map (fun (x, y) => x * y)
        some (resLanes 32 ((List.range 4).map (fun i => ofInt 32 (prods.getD (2 * i) 0 + prods.getD (2 * i + 1) 0))))
      | "q15mulr_sat_s", [a, b] =>
        some (resLanes 16 (((lanesOf 16 a).zip (lanesOf 16 b)).map (fun (x, y) => satSn 16 (q15 (sInt 16 x) (sInt 16 y)))))
      | _, _ =>
        -- extend / extmul / extadd families: name carries source shape
        let ext (src : Nat) (signed high : Bool) (v : Nat) : List Int :=
          (halfLanes src high v).map (fun x => if signed then sInt src x else (x : Int))
        let parseExt (pfx : String) : Option (Bool × Bool) :=
          -- e.g. extend_low_i8x16_s
          if op.startsWith (pfx ++ "_low_") then some (false, op.endsWith "_s")
          else if op.startsWith (pfx ++ "_high_") then some (true, op.endsWith "_s")
          else none
        match parseExt "extend", args with
        | some (high, sg), [a] => some (resLanes w ((ext (w / 2) sg high a).map (ofInt w)))
        | _, _ =>
        match parseExt "extmul", args with
        | some (high, sg), [a, b] =>
          some (resLanes w (((ext (w / 2) sg high a).zip (ext (w / 2) sg high b)).map (fun (x, y) => ofInt w (x * y))))
        | _, _ =>
        if op.startsWith "extadd_pairwise_" then
          match args with
          | [a] =>
            let sg := op.endsWith "_s"
            let ls := (lanesOf (w / 2) a).map (fun x => if sg then sInt (w / 2) x else (x : Int))
            some (resLanes w ((List.range n).map (fun i => ofInt w (ls.getD (2 * i) 0 + ls.getD (2 * i + 1) 0))))
          | _ => none
        else if isF then
          let f := fmtOf w
          match args with
          | [a] =>
            match op with
            | "convert_i32x4_s" => some (resLanes 32 ((lanesOf 32 a).map (Float.convertInt Float.f32 32 true)))
            | "convert_i32x4_u" => some (resLanes 32 ((lanesOf 32 a).map (Float.convertInt Float.f32 32 false)))
            | "convert_low_i32x4_s" => some (resLanes 64 ((halfLanes 32 false a).map (Float.convertInt Float.f64 32 true)))
            | "convert_low_i32x4_u" => some (resLanes 64 ((halfLanes 32 false a).map (Float.convertInt Float.f64 32 false)))
            | "demote_f64x2_zero" =>
              some (.lanes 32 (((lanesOf 64 a).map (fun x => fres Float.f32 (Float.demote x))) ++ [.val 0, .val 0]))
            | "promote_low_f32x4" => some (.lanes 64 ((halfLanes 32 false a).map (fun x => fres Float.f64 (Float.promote x))))
            | _ =>
              match (lanesOf w a).mapM (fun x => fun1 f op x) with
              | some rs => some (.lanes w rs)
              | none => none
          | [a, b] =>
            match op with
            | "pmin" => some (resLanes w (((lanesOf w a).zip (lanesOf w b)).map (fun (x, y) => Float.fpmin f x y)))
            | "pmax" => some (resLanes w (((lanesOf w a).zip (lanesOf w b)).map (fun (x, y) => Float.fpmax f x y)))
            | "eq" | "ne" | "lt" | "gt" | "le" | "ge" =>
              match ((lanesOf w a).zip (lanesOf w b)).mapM (fun (x, y) => fbin f op x y) with
              | some rs => some (.lanes w (rs.map (fun r => match r with
                                                    | .val 1 => .val (2 ^ w - 1)
                                                    | r => r)))
              | none => none
            | _ =>
              match ((lanesOf w a).zip (lanesOf w b)).mapM (fun (x, y) => fbin f op x y) with
              | some rs => some (.lanes w rs)
              | none => none
          | _ => none
        else
          match args with
          | [a] =>
            match op with
            | "trunc_sat_f32x4_s" => some (resLanes 32 ((lanesOf 32 a).map (Float.truncSat Float.f32 32 true)))
            | "trunc_sat_f32x4_u" => some (resLanes 32 ((lanesOf 32 a).map (Float.truncSat Float.f32 32 false)))
            | "trunc_sat_f64x2_s_zero" => some (resLanes 32 (((lanesOf 64 a).map (Float.truncSat Float.f64 32 true)) ++ [0, 0]))
            | "trunc_sat_f64x2_u_zero" => some (resLanes 32 (((lanesOf 64 a).map (Float.truncSat Float.f64 32 false)) ++ [0, 0]))
            | _ =>
              match (lanesOf w a).mapM (ilaneUn w op) with
              | some rs => some (resLanes w rs)
              | none => none
          | [a, b] =>
            match ((lanesOf w a).zip (lanesOf w b)).mapM (fun (x, y) => ilaneBin w op x y) with
            | some rs => some (resLanes w rs)
            | none => none
          | _ => none
  | _, _ => none

end Wz.Spec.Num
