/-
Specification of the WebAssembly integer instructions (core spec, "Numerics / Integer operations"),
over `BitVec n`.  Partial operations return `Option` (`none` = trap).
This file is the *specification*: it is written to read like the standard, not like the engines.
-/
namespace Wz.Spec.Int

variable {n : Nat}

def iadd (a b : BitVec n) : BitVec n := a + b
def isub (a b : BitVec n) : BitVec n := a - b
def imul (a b : BitVec n) : BitVec n := a * b

/-- `idiv_u`: trap on zero divisor, else truncating unsigned quotient. -/
def idivU (a b : BitVec n) : Option (BitVec n) :=
  if b.toNat = 0 then none else some (BitVec.ofNat n (a.toNat / b.toNat))

def iremU (a b : BitVec n) : Option (BitVec n) :=
  if b.toNat = 0 then none else some (BitVec.ofNat n (a.toNat % b.toNat))

/-- `idiv_s`: trap on zero divisor and on the unrepresentable quotient `-2^(n-1) / -1`;
else the quotient truncated toward zero. -/
def idivS (a b : BitVec n) : Option (BitVec n) :=
  if b.toInt = 0 then none
  else
    let q := Int.tdiv a.toInt b.toInt
    if q = 2 ^ (n - 1) then none else some (BitVec.ofInt n q)

/-- `irem_s`: trap on zero; sign follows the dividend; `-2^(n-1) rem -1 = 0`. -/
def iremS (a b : BitVec n) : Option (BitVec n) :=
  if b.toInt = 0 then none else some (BitVec.ofInt n (Int.tmod a.toInt b.toInt))

def iand (a b : BitVec n) : BitVec n := a &&& b
def ior (a b : BitVec n) : BitVec n := a ||| b
def ixor (a b : BitVec n) : BitVec n := a ^^^ b

/-- shifts take the count modulo the width -/
def ishl (a b : BitVec n) : BitVec n := a <<< (b.toNat % n)
def ishrU (a b : BitVec n) : BitVec n := a >>> (b.toNat % n)
def ishrS (a b : BitVec n) : BitVec n := a.sshiftRight (b.toNat % n)
def irotl (a b : BitVec n) : BitVec n := a.rotateLeft (b.toNat % n)
def irotr (a b : BitVec n) : BitVec n := a.rotateRight (b.toNat % n)

/-- number of leading zero bits, `n` for zero (structural recursion on the bit index) -/
def clzAux (a : BitVec n) : Nat → Nat
  | 0 => 0
  | k + 1 => if a.getLsbD k then 0 else 1 + clzAux a k

def iclz (a : BitVec n) : BitVec n := BitVec.ofNat n (clzAux a n)

def ctzAux (a : BitVec n) (i : Nat) : Nat → Nat
  | 0 => 0
  | k + 1 => if a.getLsbD i then 0 else 1 + ctzAux a (i + 1) k

def ictz (a : BitVec n) : BitVec n := BitVec.ofNat n (ctzAux a 0 n)

def popAux (a : BitVec n) : Nat → Nat
  | 0 => 0
  | k + 1 => (if a.getLsbD k then 1 else 0) + popAux a k

def ipopcnt (a : BitVec n) : BitVec n := BitVec.ofNat n (popAux a n)

def b2i (b : Bool) : BitVec 32 := if b then 1#32 else 0#32

def ieqz (a : BitVec n) : BitVec 32 := b2i (a.toNat == 0)
def ieq (a b : BitVec n) : BitVec 32 := b2i (a == b)
def ine (a b : BitVec n) : BitVec 32 := b2i (a != b)
def iltU (a b : BitVec n) : BitVec 32 := b2i (decide (a.toNat < b.toNat))
def iltS (a b : BitVec n) : BitVec 32 := b2i (decide (a.toInt < b.toInt))
def igtU (a b : BitVec n) : BitVec 32 := b2i (decide (a.toNat > b.toNat))
def igtS (a b : BitVec n) : BitVec 32 := b2i (decide (a.toInt > b.toInt))
def ileU (a b : BitVec n) : BitVec 32 := b2i (decide (a.toNat ≤ b.toNat))
def ileS (a b : BitVec n) : BitVec 32 := b2i (decide (a.toInt ≤ b.toInt))
def igeU (a b : BitVec n) : BitVec 32 := b2i (decide (a.toNat ≥ b.toNat))
def igeS (a b : BitVec n) : BitVec 32 := b2i (decide (a.toInt ≥ b.toInt))

/-- `iextendM_s`: sign-extend the low `m` bits to `n` bits. -/
def iextendS (m : Nat) (a : BitVec n) : BitVec n := (a.setWidth m).signExtend n

def wrap (a : BitVec 64) : BitVec 32 := a.setWidth 32
def extendU (a : BitVec 32) : BitVec 64 := a.setWidth 64
def extendS (a : BitVec 32) : BitVec 64 := a.signExtend 64

/-- saturating lane helpers (SIMD) -/
def satS (m : Nat) (v : Int) : BitVec m :=
  if v < -(2 ^ (m - 1) : Int) then BitVec.ofInt m (-(2 ^ (m - 1) : Int))
  else if v > (2 ^ (m - 1) : Int) - 1 then BitVec.ofInt m ((2 ^ (m - 1) : Int) - 1)
  else BitVec.ofInt m v

def satU (m : Nat) (v : Int) : BitVec m :=
  if v < 0 then 0#m else if v > (2 ^ m : Int) - 1 then BitVec.ofInt m ((2 ^ m : Int) - 1) else BitVec.ofInt m v

end Wz.Spec.Int
