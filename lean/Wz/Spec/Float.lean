/-
Bit-level specification of IEEE-754 binary32/binary64 arithmetic as WebAssembly uses it
(round-to-nearest, ties-to-even), written over `Nat`/`Int` with exact significand arithmetic.
Lean's `Float` is opaque to the kernel, so it is not used anywhere: a floating-point value is its bit
pattern (a `Nat` below 2^width); it is decoded to sign · m · 2^e, the operation is carried out exactly
on integers, and the exact result is rounded once by `roundPack`.

This file is both the specification (C05) and an oracle independent of the Go `math` helpers that the
two engines share.
-/
namespace Wz.Spec.Float

structure Fmt where
  eb : Nat   -- exponent bits
  mb : Nat   -- fraction bits
deriving Repr, DecidableEq

def f32 : Fmt := ⟨8, 23⟩
def f64 : Fmt := ⟨11, 52⟩

namespace Fmt
def width (f : Fmt) : Nat := 1 + f.eb + f.mb
def bias (f : Fmt) : Int := 2 ^ (f.eb - 1) - 1
def emaxField (f : Fmt) : Nat := 2 ^ f.eb - 1
/-- exponent of the least significant bit of a subnormal: emin - mb -/
def qmin (f : Fmt) : Int := 1 - f.bias - f.mb
def signBit (f : Fmt) : Nat := 2 ^ (f.eb + f.mb)
def infBits (f : Fmt) (s : Bool) : Nat := (if s then f.signBit else 0) + f.emaxField * 2 ^ f.mb
/-- the canonical NaN: positive, quiet bit only -/
def canonNaN (f : Fmt) : Nat := f.emaxField * 2 ^ f.mb + 2 ^ (f.mb - 1)
def zeroBits (f : Fmt) (s : Bool) : Nat := if s then f.signBit else 0
def quietBit (f : Fmt) : Nat := 2 ^ (f.mb - 1)
end Fmt

/-- Decoded value: `fin s m e` denotes (-1)^s · m · 2^e (zero when m = 0). -/
inductive Val where
  | nan (s : Bool) (payload : Nat)
  | inf (s : Bool)
  | fin (s : Bool) (m : Nat) (e : Int)
deriving Repr, DecidableEq

def decode (f : Fmt) (bits : Nat) : Val :=
  let s := bits / f.signBit % 2 == 1
  let ex := bits / 2 ^ f.mb % 2 ^ f.eb
  let fr := bits % 2 ^ f.mb
  if ex == f.emaxField then (if fr == 0 then .inf s else .nan s fr)
  else if ex == 0 then .fin s fr f.qmin
  else .fin s (fr + 2 ^ f.mb) ((ex : Int) - f.bias - f.mb)

def isNaN (f : Fmt) (bits : Nat) : Bool :=
  match decode f bits with
  | .nan _ _ => true
  | _ => false

/-- bit length: 0 for 0, else ⌊log2 m⌋ + 1 -/
def bitLen (m : Nat) : Nat := if m == 0 then 0 else Nat.log2 m + 1

/-- Round the exact value (-1)^s · (m · 2^e [+ ε if sticky]) to the nearest representable value,
ties to even, and return its bit pattern. `sticky` says that the true value is strictly larger in
magnitude than m · 2^e by less than one unit of 2^e. -/
def roundPack (f : Fmt) (s : Bool) (m : Nat) (e : Int) (sticky : Bool := false) : Nat :=
  if m == 0 && !sticky then f.zeroBits s
  else
    let L : Int := bitLen m
    -- exponent of the leading bit
    let E : Int := e + L - 1
    -- quantum exponent of the result
    let emin : Int := 1 - f.bias
    let q : Int := if E ≥ emin then E - f.mb else f.qmin
    let (mant, up) : Nat × Bool :=
      if e ≥ q then (m * 2 ^ (e - q).toNat, false)
      else
        let sh := (q - e).toNat
        let mant := m / 2 ^ sh
        let rem := m % 2 ^ sh
        let half := 2 ^ (sh - 1)
        let up := if rem > half then true
                  else if rem == half then (sticky || mant % 2 == 1)
                  else false
        (mant, up)
    let mant := if up then mant + 1 else mant
    -- exponent field before adding the significand (hidden bit carries into it)
    let expField0 : Int := if E ≥ emin then (q + f.mb + f.bias) - 1 else 0
    let packed : Int := expField0 * 2 ^ f.mb + mant
    if packed ≥ (f.emaxField * 2 ^ f.mb : Nat) then f.infBits s
    else (if s then f.signBit else 0) + packed.toNat

/-- sign bit of a pattern -/
def signOf (f : Fmt) (bits : Nat) : Bool := bits / f.signBit % 2 == 1

def fneg (f : Fmt) (a : Nat) : Nat := if signOf f a then a - f.signBit else a + f.signBit
def fabs (f : Fmt) (a : Nat) : Nat := if signOf f a then a - f.signBit else a
def fcopysign (f : Fmt) (a b : Nat) : Nat :=
  let a0 := fabs f a
  if signOf f b then a0 + f.signBit else a0

/-- exact signed integer numerator of a finite value at a common exponent -/
def scaled (s : Bool) (m : Nat) (e c : Int) : Int :=
  let v : Int := m * 2 ^ (e - c).toNat
  if s then -v else v

def fadd (f : Fmt) (a b : Nat) : Nat :=
  match decode f a, decode f b with
  | .nan _ _, _ => f.canonNaN
  | _, .nan _ _ => f.canonNaN
  | .inf sa, .inf sb => if sa == sb then f.infBits sa else f.canonNaN
  | .inf sa, _ => f.infBits sa
  | _, .inf sb => f.infBits sb
  | .fin sa ma ea, .fin sb mb eb =>
    let c := min ea eb
    let sum := scaled sa ma ea c + scaled sb mb eb c
    if sum == 0 then
      -- exact zero: -0 only when both operands are negative (zeros or not: x + (-x) = +0)
      (if ma == 0 && mb == 0 then f.zeroBits (sa && sb) else f.zeroBits false)
    else roundPack f (sum < 0) sum.natAbs c

def fsub (f : Fmt) (a b : Nat) : Nat :=
  match decode f b with
  | .nan _ _ => f.canonNaN
  | _ => fadd f a (fneg f b)

def fmul (f : Fmt) (a b : Nat) : Nat :=
  match decode f a, decode f b with
  | .nan _ _, _ => f.canonNaN
  | _, .nan _ _ => f.canonNaN
  | .inf sa, .inf sb => f.infBits (sa != sb)
  | .inf sa, .fin sb mb _ => if mb == 0 then f.canonNaN else f.infBits (sa != sb)
  | .fin sa ma _, .inf sb => if ma == 0 then f.canonNaN else f.infBits (sa != sb)
  | .fin sa ma ea, .fin sb mb eb => roundPack f (sa != sb) (ma * mb) (ea + eb)

def fdiv (f : Fmt) (a b : Nat) : Nat :=
  match decode f a, decode f b with
  | .nan _ _, _ => f.canonNaN
  | _, .nan _ _ => f.canonNaN
  | .inf _, .inf _ => f.canonNaN
  | .inf sa, .fin sb _ _ => f.infBits (sa != sb)
  | .fin sa _ _, .inf sb => f.zeroBits (sa != sb)
  | .fin sa ma ea, .fin sb mb eb =>
    if mb == 0 then (if ma == 0 then f.canonNaN else f.infBits (sa != sb))
    else if ma == 0 then f.zeroBits (sa != sb)
    else
      let k := bitLen mb + f.mb + 3
      let num := ma * 2 ^ k
      roundPack f (sa != sb) (num / mb) (ea - eb - k) (num % mb != 0)

def fsqrt (f : Fmt) (a : Nat) : Nat :=
  match decode f a with
  | .nan _ _ => f.canonNaN
  | .inf s => if s then f.canonNaN else f.infBits false
  | .fin s m e =>
    if m == 0 then f.zeroBits s
    else if s then f.canonNaN
    else
      -- make the exponent even, then scale by 2^(2k)
      let (m, e) := if e % 2 == 0 then (m, e) else (m * 2, e - 1)
      let k := f.mb + 3
      let n := m * 2 ^ (2 * k)
      let r := Nat.sqrt n
      roundPack f false r (e / 2 - k) (r * r != n)

/-- total order comparison of two non-NaN values: -1, 0, 1 -/
def cmpVal (a b : Val) : Int :=
  match a, b with
  | .inf sa, .inf sb => if sa == sb then 0 else if sa then -1 else 1
  | .inf sa, _ => if sa then -1 else 1
  | _, .inf sb => if sb then 1 else -1
  | .fin sa ma ea, .fin sb mb eb =>
    let c := min ea eb
    let x := scaled sa ma ea c
    let y := scaled sb mb eb c
    if x < y then -1 else if x == y then 0 else 1
  | _, _ => 0

def b2n (b : Bool) : Nat := if b then 1 else 0

def feq (f : Fmt) (a b : Nat) : Nat :=
  if isNaN f a || isNaN f b then 0 else b2n (cmpVal (decode f a) (decode f b) == 0)
def fne (f : Fmt) (a b : Nat) : Nat := 1 - feq f a b
def flt (f : Fmt) (a b : Nat) : Nat :=
  if isNaN f a || isNaN f b then 0 else b2n (cmpVal (decode f a) (decode f b) == -1)
def fgt (f : Fmt) (a b : Nat) : Nat := flt f b a
def fle (f : Fmt) (a b : Nat) : Nat :=
  if isNaN f a || isNaN f b then 0 else b2n (cmpVal (decode f a) (decode f b) != 1)
def fge (f : Fmt) (a b : Nat) : Nat := fle f b a

/-- wasm `fmin`: NaN if either is NaN; min(-0,+0) = -0 -/
def fmin (f : Fmt) (a b : Nat) : Nat :=
  if isNaN f a || isNaN f b then f.canonNaN
  else
    match cmpVal (decode f a) (decode f b) with
    | -1 => a
    | 1 => b
    | _ => if signOf f a then a else b

def fmax (f : Fmt) (a b : Nat) : Nat :=
  if isNaN f a || isNaN f b then f.canonNaN
  else
    match cmpVal (decode f a) (decode f b) with
    | -1 => b
    | 1 => a
    | _ => if signOf f a then b else a

/-- SIMD pseudo-min/max: `b < a ? b : a` / `a < b ? b : a` -/
def fpmin (f : Fmt) (a b : Nat) : Nat := if flt f b a == 1 then b else a
def fpmax (f : Fmt) (a b : Nat) : Nat := if flt f a b == 1 then b else a

inductive RMode | ceil | floor | trunc | nearest
deriving DecidableEq

/-- round a finite value to an integral value in the same format -/
def roundInt (f : Fmt) (mode : RMode) (a : Nat) : Nat :=
  match decode f a with
  | .nan _ _ => f.canonNaN
  | .inf _ => a
  | .fin s m e =>
    if m == 0 then a
    else if e ≥ 0 then a
    else
      let sh := (-e).toNat
      let ip := m / 2 ^ sh
      let rem := m % 2 ^ sh
      let half := 2 ^ (sh - 1)
      let ip' :=
        if rem == 0 then ip
        else match mode with
          | .trunc => ip
          | .ceil => if s then ip else ip + 1
          | .floor => if s then ip + 1 else ip
          | .nearest => if rem > half then ip + 1
                        else if rem == half then (if ip % 2 == 1 then ip + 1 else ip)
                        else ip
      if ip' == 0 then f.zeroBits s else roundPack f s ip' 0

/-- truncation toward zero to a mathematical integer; `none` for NaN / infinities -/
def truncToInt (f : Fmt) (a : Nat) : Option Int :=
  match decode f a with
  | .nan _ _ => none
  | .inf _ => none
  | .fin s m e =>
    let mag : Nat := if e ≥ 0 then m * 2 ^ e.toNat else m / 2 ^ (-e).toNat
    some (if s then -(mag : Int) else mag)

inductive TruncErr | invalid | overflow
deriving DecidableEq, Repr

/-- trapping truncation to an n-bit integer (as an unsigned bit pattern) -/
def truncTrap (f : Fmt) (n : Nat) (signed : Bool) (a : Nat) : Except TruncErr Nat :=
  match decode f a with
  | .nan _ _ => .error .invalid
  | .inf _ => .error .overflow
  | _ =>
    match truncToInt f a with
    | none => .error .invalid
    | some v =>
      let lo : Int := if signed then -(2 ^ (n - 1) : Int) else 0
      let hi : Int := if signed then (2 ^ (n - 1) : Int) - 1 else (2 ^ n : Int) - 1
      if v < lo || v > hi then .error .overflow
      else .ok (if v < 0 then (v + (2 ^ n : Int)).toNat else v.toNat)

/-- saturating truncation -/
def truncSat (f : Fmt) (n : Nat) (signed : Bool) (a : Nat) : Nat :=
  let lo : Int := if signed then -(2 ^ (n - 1) : Int) else 0
  let hi : Int := if signed then (2 ^ (n - 1) : Int) - 1 else (2 ^ n : Int) - 1
  let enc (v : Int) : Nat := if v < 0 then (v + (2 ^ n : Int)).toNat else v.toNat
  match decode f a with
  | .nan _ _ => 0
  | .inf s => enc (if s then lo else hi)
  | _ =>
    match truncToInt f a with
    | none => 0
    | some v => enc (if v < lo then lo else if v > hi then hi else v)

/-- integer (n-bit pattern) to float -/
def convertInt (f : Fmt) (n : Nat) (signed : Bool) (a : Nat) : Nat :=
  if signed && a ≥ 2 ^ (n - 1) then roundPack f true (2 ^ n - a) 0
  else roundPack f false a 0

def promote (a : Nat) : Nat :=
  match decode f32 a with
  | .nan _ _ => f64.canonNaN
  | .inf s => f64.infBits s
  | .fin s m e => roundPack f64 s m e

def demote (a : Nat) : Nat :=
  match decode f64 a with
  | .nan _ _ => f32.canonNaN
  | .inf s => f32.infBits s
  | .fin s m e => roundPack f32 s m e

end Wz.Spec.Float
