/-
Typed enumeration of the integer instructions of WebAssembly with their specification semantics
(`Wz.Spec.Int`), used to state whole-program theorems without going through instruction names.
-/
import Wz.Spec.Int

namespace Wz.Spec

inductive IBinOp | add | sub | mul | divS | divU | remS | remU | and | or | xor | shl | shrS | shrU | rotl | rotr
deriving DecidableEq, Repr
inductive IRelOp | eq | ne | ltS | ltU | gtS | gtU | leS | leU | geS | geU
deriving DecidableEq, Repr
inductive IUnOp | clz | ctz | popcnt
deriving DecidableEq, Repr

inductive Trap | divByZero | overflow
deriving DecidableEq, Repr

def IBinOp.eval {n : Nat} (op : IBinOp) (a b : BitVec n) : Except Trap (BitVec n) :=
  match op with
  | .add => .ok (Int.iadd a b)
  | .sub => .ok (Int.isub a b)
  | .mul => .ok (Int.imul a b)
  | .and => .ok (Int.iand a b)
  | .or => .ok (Int.ior a b)
  | .xor => .ok (Int.ixor a b)
  | .shl => .ok (Int.ishl a b)
  | .shrS => .ok (Int.ishrS a b)
  | .shrU => .ok (Int.ishrU a b)
  | .rotl => .ok (Int.irotl a b)
  | .rotr => .ok (Int.irotr a b)
  | .divU => match Int.idivU a b with | some q => .ok q | none => .error .divByZero
  | .remU => match Int.iremU a b with | some q => .ok q | none => .error .divByZero
  | .remS => match Int.iremS a b with | some q => .ok q | none => .error .divByZero
  | .divS =>
    if b = 0#n then .error .divByZero
    else match Int.idivS a b with | some q => .ok q | none => .error .overflow

def IRelOp.eval {n : Nat} (op : IRelOp) (a b : BitVec n) : BitVec 32 :=
  match op with
  | .eq => Int.ieq a b | .ne => Int.ine a b
  | .ltS => Int.iltS a b | .ltU => Int.iltU a b | .gtS => Int.igtS a b | .gtU => Int.igtU a b
  | .leS => Int.ileS a b | .leU => Int.ileU a b | .geS => Int.igeS a b | .geU => Int.igeU a b

def IUnOp.eval {n : Nat} (op : IUnOp) (a : BitVec n) : BitVec n :=
  match op with
  | .clz => Int.iclz a | .ctz => Int.ictz a | .popcnt => Int.ipopcnt a

end Wz.Spec
