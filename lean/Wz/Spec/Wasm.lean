/-
Reference semantics of the WebAssembly fragment W0 (C01, C03): a definitional interpreter that reads
like the standard's execution rules.  Values are bit patterns (`Nat`); numeric instructions are the
specification functions of `Wz.Spec.Num`; structured control is interpreted directly on the nested
syntax (no lowering to jumps), so it is independent of both engines' translations.

`run` is total: recursion is on an explicit fuel argument, and `Outcome.exhausted` reports that the
budget ran out (never produced for the budgets the harness uses on terminating programs).
-/
import Wz.Spec.Num

namespace Wz.Spec.Wasm
open Wz.Spec

inductive VT | i32 | i64 | f32 | f64
deriving DecidableEq, Repr, Inhabited

def VT.bits : VT → Nat
  | .i32 | .f32 => 32
  | .i64 | .f64 => 64

structure FuncType where
  params : List VT
  results : List VT
deriving DecidableEq, Repr, Inhabited

inductive Instr where
  | num1 (name : String)                       -- unary numeric/conversion instruction
  | num2 (name : String)                       -- binary numeric/comparison instruction
  | const (bits : Nat)
  | localGet (i : Nat) | localSet (i : Nat) | localTee (i : Nat)
  | globalGet (i : Nat) | globalSet (i : Nat)
  | load (t : VT) (width : Nat) (signed : Bool) (off : Nat)
  | store (width : Nat) (off : Nat)
  | memSize | memGrow
  | memCopy | memFill
  | drop | select | unreachable | ret
  | br (l : Nat) | brIf (l : Nat) | brTable (ls : List Nat) (d : Nat)
  | call (f : Nat) | callIndirect (ti : Nat)
  | retCall (f : Nat)                          -- tail call: call, then return the callee's results
  | block (arity : Nat) (body : List Instr)
  | loop (body : List Instr)
  | ite (arity : Nat) (th el : List Instr)
deriving Repr, Inhabited

structure Func where
  type : Nat
  locals : List VT
  body : List Instr
deriving Repr, Inhabited

structure Module where
  types : List FuncType := []
  imports : List Nat := []           -- type index of each host import
  funcs : List Func := []
  hasMem : Bool := false
  memMin : Nat := 0
  memMax : Option Nat := none
  globals : List (VT × Nat) := []     -- type, initial value
  table : List Nat := []              -- function indices
  dataOff : Nat := 0
  data : List Nat := []
deriving Repr, Inhabited

/-- The mutable part of an instance. -/
structure Store where
  mem : ByteArray := ByteArray.empty
  globals : Array Nat := #[]
  log : List String := []             -- host calls, most recent first

instance : Inhabited Store := ⟨{}⟩

inductive Ctl where
  | next
  | br (n : Nat)
  | ret
  | trap (kind : String)
  | exhausted
deriving Repr, DecidableEq

structure Frame where
  stack : List Nat := []              -- top first
  locals : Array Nat := #[]

def pageSize : Nat := 65536
def maxPages : Nat := 65536

/-- little-endian read of `n` bytes -/
def readLE (m : ByteArray) (a n : Nat) : Nat :=
  (List.range n).foldr (fun i acc => acc * 256 + (m.get! (a + i)).toNat) 0

def writeLE (m : ByteArray) (a n v : Nat) : ByteArray :=
  (List.range n).foldl (fun m i => m.set! (a + i) (UInt8.ofNat (v / 256 ^ i % 256))) m

def signExt (w n v : Nat) : Nat :=
  if v ≥ 2 ^ (w - 1) then v + 2 ^ n - 2 ^ w else v

/-- host import `h<i>`: a fixed deterministic function of its arguments (the harness implements the same) -/
def hostMix (i : Nat) (ps : List VT) (args : List Nat) : Nat :=
  (ps.zip args).foldl (fun mix (p, v) => (mix * 31 + v % 2 ^ p.bits) % 2 ^ 64) (i + 1)

def hostResult (i : Nat) (ft : FuncType) (args : List Nat) : List Nat :=
  let mix := hostMix i ft.params args
  match ft.results with
  | [] => []
  | .i32 :: _ => [mix % 2 ^ 32]
  | .i64 :: _ => [mix]
  | .f32 :: _ => [Float.convertInt Float.f32 32 true (mix % 2 ^ 32)]
  | .f64 :: _ => [Float.convertInt Float.f64 32 true (mix % 2 ^ 32)]

def hexStr (n : Nat) : String := String.ofList (Nat.toDigits 16 n)

def hostLogEntry (i : Nat) (ft : FuncType) (args : List Nat) : String :=
  s!"h{i}(" ++ String.join ((ft.params.zip args).map (fun (p, v) => hexStr (v % 2 ^ p.bits) ++ ",")) ++ ")"

/-- canonical result of a numeric instruction: arithmetic NaNs are represented by the canonical NaN -/
def numResult (r : Num.Res) : Except String Nat :=
  match r with
  | .val v => .ok v
  | .nanArith 32 => .ok Float.f32.canonNaN
  | .nanArith _ => .ok Float.f64.canonNaN
  | .trap k => .error k
  | .lanes _ _ => .error "unsupported"

def funcType (m : Module) (f : Nat) : FuncType :=
  let ti := if f < m.imports.length then m.imports.getD f 0 else (m.funcs.getD (f - m.imports.length) default).type
  m.types.getD ti default

/-- take the top `n` values (top first) keeping their order, and the rest -/
def splitTop (s : List Nat) (n : Nat) : List Nat × List Nat := (s.take n, s.drop n)

mutual
/-- execute an instruction sequence -/
def execSeq (m : Module) : Nat → List Instr → Frame → Store → Ctl × Frame × Store
  | 0, _, fr, st => (.exhausted, fr, st)
  | _ + 1, [], fr, st => (.next, fr, st)
  | fuel + 1, i :: rest, fr, st =>
    match execInstr m fuel i fr st with
    | (.next, fr', st') => execSeq m fuel rest fr' st'
    | r => r

/-- execute one instruction -/
def execInstr (m : Module) : Nat → Instr → Frame → Store → Ctl × Frame × Store
  | 0, _, fr, st => (.exhausted, fr, st)
  | fuel + 1, ins, fr, st =>
    match ins with
    | .const v => (.next, { fr with stack := v :: fr.stack }, st)
    | .num1 name =>
      match fr.stack with
      | a :: s =>
        match Num.scalar name [a] with
        | some r =>
          match numResult r with
          | .ok v => (.next, { fr with stack := v :: s }, st)
          | .error k => (.trap k, fr, st)
        | none => (.trap "unsupported", fr, st)
      | _ => (.trap "stack", fr, st)
    | .num2 name =>
      match fr.stack with
      | b :: a :: s =>
        match Num.scalar name [a, b] with
        | some r =>
          match numResult r with
          | .ok v => (.next, { fr with stack := v :: s }, st)
          | .error k => (.trap k, fr, st)
        | none => (.trap "unsupported", fr, st)
      | _ => (.trap "stack", fr, st)
    | .localGet i => (.next, { fr with stack := fr.locals[i]! :: fr.stack }, st)
    | .localSet i =>
      match fr.stack with
      | v :: s => (.next, { stack := s, locals := fr.locals.set! i v }, st)
      | _ => (.trap "stack", fr, st)
    | .localTee i =>
      match fr.stack with
      | v :: _ => (.next, { fr with locals := fr.locals.set! i v }, st)
      | _ => (.trap "stack", fr, st)
    | .globalGet i => (.next, { fr with stack := st.globals[i]! :: fr.stack }, st)
    | .globalSet i =>
      match fr.stack with
      | v :: s => (.next, { fr with stack := s }, { st with globals := st.globals.set! i v })
      | _ => (.trap "stack", fr, st)
    | .load t width signed off =>
      match fr.stack with
      | a :: s =>
        let ea := a + off
        let n := width / 8
        if ea + n > st.mem.size then (.trap "oob-memory", fr, st)
        else
          let v := readLE st.mem ea n
          let v := if signed then signExt width t.bits v else v
          (.next, { fr with stack := v :: s }, st)
      | _ => (.trap "stack", fr, st)
    | .store width off =>
      match fr.stack with
      | v :: a :: s =>
        let ea := a + off
        let n := width / 8
        if ea + n > st.mem.size then (.trap "oob-memory", fr, st)
        else (.next, { fr with stack := s }, { st with mem := writeLE st.mem ea n (v % 2 ^ width) })
      | _ => (.trap "stack", fr, st)
    | .memSize => (.next, { fr with stack := (st.mem.size / pageSize) :: fr.stack }, st)
    | .memGrow =>
      match fr.stack with
      | d :: s =>
        let cur := st.mem.size / pageSize
        let mx := match m.memMax with
          | some x => min x maxPages
          | none => maxPages
        if cur + d ≤ mx then
          (.next, { fr with stack := cur :: s },
            { st with mem := st.mem ++ ByteArray.mk (Array.replicate (d * pageSize) 0) })
        else (.next, { fr with stack := (2 ^ 32 - 1) :: s }, st)
      | _ => (.trap "stack", fr, st)
    | .memCopy =>
      match fr.stack with
      | n :: src :: dst :: s =>
        if src + n > st.mem.size || dst + n > st.mem.size then (.trap "oob-memory", fr, st)
        else
          let bytes := (List.range n).map (fun i => st.mem.get! (src + i))
          let mem := (bytes.zipIdx).foldl (fun mem (b, i) => mem.set! (dst + i) b) st.mem
          (.next, { fr with stack := s }, { st with mem := mem })
      | _ => (.trap "stack", fr, st)
    | .memFill =>
      match fr.stack with
      | n :: v :: dst :: s =>
        if dst + n > st.mem.size then (.trap "oob-memory", fr, st)
        else
          let mem := (List.range n).foldl (fun mem i => mem.set! (dst + i) (UInt8.ofNat (v % 256))) st.mem
          (.next, { fr with stack := s }, { st with mem := mem })
      | _ => (.trap "stack", fr, st)
    | .drop =>
      match fr.stack with
      | _ :: s => (.next, { fr with stack := s }, st)
      | _ => (.trap "stack", fr, st)
    | .select =>
      match fr.stack with
      | c :: b :: a :: s => (.next, { fr with stack := (if c % 2 ^ 32 != 0 then a else b) :: s }, st)
      | _ => (.trap "stack", fr, st)
    | .unreachable => (.trap "unreachable", fr, st)
    | .ret => (.ret, fr, st)
    | .br l => (.br l, fr, st)
    | .brIf l =>
      match fr.stack with
      | c :: s => if c % 2 ^ 32 != 0 then (.br l, { fr with stack := s }, st) else (.next, { fr with stack := s }, st)
      | _ => (.trap "stack", fr, st)
    | .brTable ls d =>
      match fr.stack with
      | c :: s => (.br (ls.getD (c % 2 ^ 32) d), { fr with stack := s }, st)
      | _ => (.trap "stack", fr, st)
    | .block arity body =>
      let h := fr.stack.length
      match execSeq m fuel body fr st with
      | (.br 0, fr', st') =>
        -- branch to the end of this block: keep `arity` results on top of the entry stack
        let (top, _) := splitTop fr'.stack arity
        (.next, { fr' with stack := top ++ fr'.stack.drop (fr'.stack.length - h) }, st')
      | (.br (n + 1), fr', st') => (.br n, fr', st')
      | r => r
    | .loop body =>
      let h := fr.stack.length
      match execSeq m fuel body fr st with
      | (.br 0, fr', st') =>
        -- branch to the loop header (loops of W0 have no parameters): restore the entry height and repeat
        execInstr m fuel (.loop body) { fr' with stack := fr'.stack.drop (fr'.stack.length - h) } st'
      | (.br (n + 1), fr', st') => (.br n, fr', st')
      | r => r
    | .ite arity th el =>
      match fr.stack with
      | c :: s =>
        let fr := { fr with stack := s }
        execInstr m fuel (.block arity (if c % 2 ^ 32 != 0 then th else el)) fr st
      | _ => (.trap "stack", fr, st)
    | .call f => callFunc m fuel f fr st
    | .retCall f =>
      match callFunc m fuel f fr st with
      | (.next, fr', st') => (.ret, fr', st')
      | r => r
    | .callIndirect ti =>
      match fr.stack with
      | idx :: s =>
        let idx := idx % 2 ^ 32
        if idx ≥ m.table.length then (.trap "oob-table", fr, st)
        else
          let f := m.table.getD idx 0
          if funcType m f != m.types.getD ti default then (.trap "sig-mismatch", fr, st)
          else callFunc m fuel f { fr with stack := s } st
      | _ => (.trap "stack", fr, st)

/-- call function `f` with arguments taken from the caller's stack -/
def callFunc (m : Module) : Nat → Nat → Frame → Store → Ctl × Frame × Store
  | 0, _, fr, st => (.exhausted, fr, st)
  | fuel + 1, f, fr, st =>
    let ft := funcType m f
    let np := ft.params.length
    let args := (fr.stack.take np).reverse
    let rest := fr.stack.drop np
    if f < m.imports.length then
      let res := hostResult f ft args
      (.next, { fr with stack := res.reverse ++ rest }, { st with log := hostLogEntry f ft args :: st.log })
    else
      let fn := m.funcs.getD (f - m.imports.length) default
      let callee : Frame := { stack := [], locals := (args ++ fn.locals.map (fun _ => 0)).toArray }
      match execSeq m fuel fn.body callee st with
      | (.next, fr', st') | (.ret, fr', st') | (.br _, fr', st') =>
        (.next, { fr with stack := fr'.stack.take ft.results.length ++ rest }, st')
      | (.trap k, _, st') => (.trap k, fr, st')
      | (.exhausted, _, st') => (.exhausted, fr, st')
end

/-- instantiate: memory with the data segment applied, globals at their initial values -/
def instantiate (m : Module) : Store :=
  let mem := if m.hasMem then ByteArray.mk (Array.replicate (m.memMin * pageSize) 0) else ByteArray.empty
  let mem := (m.data.zipIdx).foldl (fun mem (b, i) => mem.set! (m.dataOff + i) (UInt8.ofNat b)) mem
  { mem := mem, globals := (m.globals.map (·.2)).toArray, log := [] }

inductive Outcome where
  | values (vs : List Nat)
  | trap (kind : String)
  | exhausted
deriving Repr, DecidableEq

/-- one export call on an instance: outcome and the new store -/
def invoke (m : Module) (fuel : Nat) (f : Nat) (args : List Nat) (st : Store) : Outcome × Store :=
  let ft := funcType m f
  let fr : Frame := { stack := args.reverse }
  match callFunc m fuel f fr { st with log := [] } with
  | (.next, fr', st') => (.values (fr'.stack.take ft.results.length).reverse, st')
  | (.trap k, _, st') => (.trap k, st')
  | (_, _, st') => (.exhausted, st')

/-- a history of export calls -/
def runHistory (m : Module) (fuel : Nat) : List (Nat × List Nat) → Store → List Outcome × Store
  | [], st => ([], st)
  | (f, args) :: rest, st =>
    let (o, st') := invoke m fuel f args st
    let (os, st'') := runHistory m fuel rest st'
    (o :: os, st'')

end Wz.Spec.Wasm
