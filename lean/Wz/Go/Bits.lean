/-
Go-side primitives used by regenerated definitions (`Wz.Gen.*`):
* `StepRes`, the outcome of one interpreter operation translated in "case mode";
* the `math/bits` functions, modelled by their documented behaviour (trusted: the Go standard library
  implements its documentation).
-/
namespace Wz.Go

/-- Outcome of one operation of the interpreter's operand-stack machine. -/
inductive StepRes where
  | ok (pushed : List (BitVec 64))     -- values pushed, in push order
  | trap (err : String)                -- panic(wasmruntime.ErrX): a WebAssembly trap
  | goPanic (what : String)            -- a Go run-time panic (never acceptable)
deriving Repr, DecidableEq

/-- number of leading zero bits among the low `k` bits viewed from bit k-1 downwards -/
def clzAux {n : Nat} (a : BitVec n) : Nat → Nat
  | 0 => 0
  | k + 1 => if a.getLsbD k then 0 else 1 + clzAux a k

def ctzAux {n : Nat} (a : BitVec n) (i : Nat) : Nat → Nat
  | 0 => 0
  | k + 1 => if a.getLsbD i then 0 else 1 + ctzAux a (i + 1) k

def popAux {n : Nat} (a : BitVec n) : Nat → Nat
  | 0 => 0
  | k + 1 => (if a.getLsbD k then 1 else 0) + popAux a k

/-- `bits.LeadingZeros32`: "the number of leading zero bits in x; the result is 32 for x == 0" (an `int`). -/
def leadingZeros32 (x : BitVec 32) : BitVec 64 := BitVec.ofNat 64 (clzAux x 32)
def leadingZeros64 (x : BitVec 64) : BitVec 64 := BitVec.ofNat 64 (clzAux x 64)
/-- `bits.TrailingZeros32`: "the number of trailing zero bits in x; the result is 32 for x == 0". -/
def trailingZeros32 (x : BitVec 32) : BitVec 64 := BitVec.ofNat 64 (ctzAux x 0 32)
def trailingZeros64 (x : BitVec 64) : BitVec 64 := BitVec.ofNat 64 (ctzAux x 0 64)
/-- `bits.OnesCount32`: "the number of one bits (population count) in x". -/
def onesCount32 (x : BitVec 32) : BitVec 64 := BitVec.ofNat 64 (popAux x 32)
def onesCount64 (x : BitVec 64) : BitVec 64 := BitVec.ofNat 64 (popAux x 64)
/-- `bits.RotateLeft32(x, k)`: "rotated left by (k mod 32) bits; to rotate right by k bits call
RotateLeft32(x, -k)". `k` is a Go `int` (64-bit two's complement); k mod 32 is taken on its low bits. -/
def rotateLeft32 (x : BitVec 32) (k : BitVec 64) : BitVec 32 := x.rotateLeft (k.toNat % 32)
def rotateLeft64 (x : BitVec 64) (k : BitVec 64) : BitVec 64 := x.rotateLeft (k.toNat % 64)

end Wz.Go
