import Wz.Gen.Shapes

/-!
# C03 companion: the interpreter's drop ranges are counted in stack slots

The interpreter's value stack is a stack of 64-bit slots; a `v128` occupies two.  A branch keeps the values its label
receives (the parameters of a loop, the results of a block) and removes everything between them and the height at which
the frame was entered: `getFrameDropRange` computes the range `[start, end]` (top of the stack = 0).  Every quantity in
it has to be a number of SLOTS.  Model: values as lists of slots, the stack top first.  Keeping as many slots as the
label's values occupy preserves exactly those values above the rest of the stack, for every list of values of any
widths and any junk in between (`drop_range_in_slots_keeps_the_label_values`); counting values instead cuts a vector in
half (`drop_range_in_values_witness`: seeded changes C01-4 / C03-6, a `v128` loop parameter).  The three quantities of
the source are a regenerated shape (`drop_range_quantities_are_slot_counts`).
-/

namespace Wz.C03

/-- remove the slots `[keep, depth)` of a stack given top first (the effect of the lowered `Drop` of that range) -/
def dropRange (keep depth : Nat) (st : List Nat) : List Nat := st.take keep ++ st.drop depth

/-- number of slots a list of values (each a list of slots) occupies -/
def slots (vals : List (List Nat)) : Nat := vals.flatten.length

/-- **counted in slots**: the label's values stay, the junk goes, the rest of the stack is untouched -/
theorem drop_range_in_slots_keeps_the_label_values (vals : List (List Nat)) (junk rest : List Nat) :
    dropRange (slots vals) (slots vals + junk.length) (vals.flatten ++ junk ++ rest) = vals.flatten ++ rest := by
  unfold dropRange slots
  rw [List.append_assoc, List.take_left']
  · congr 1
    rw [← List.append_assoc, List.drop_left']
    simp
  · rfl

/-- counted in VALUES: one `v128` (two slots) kept as "1": its upper half is dropped with the junk -/
theorem drop_range_in_values_witness :
    dropRange [[1, 2]].length ([[1, 2]].length + [9].length) ([[1, 2]].flatten ++ [9] ++ [7]) ≠ [[1, 2]].flatten ++ [7] := by
  decide

/-- non-vacuity: an i32, a v128 and an i64 on top of junk on top of the rest -/
example : dropRange (slots [[5], [1, 2], [6]]) (slots [[5], [1, 2], [6]] + 2) ([[5], [1, 2], [6]].flatten ++ [9, 9] ++ [7]) = [5, 1, 2, 6, 7] := by
  decide

set_option maxRecDepth 8192 in
/-- the quantities on the source, regenerated: parameters and results in `…NumInUint64`, heights in `…Uint64` -/
theorem drop_range_quantities_are_slot_counts :
    Wz.Gen.Shapes.get "c03.drop_range_units" =
      some "start = frame.blockType.ParamNumInUint64 ;; start = frame.blockType.ResultNumInUint64 ;; end = c.stackLenInUint64 - 1 - frame.originalStackLenWithoutParamUint64" := by
  decide

end Wz.C03
