import Wz.Gen.Shapes

/-!
# C14 companion: the compiler's memory.size reads the length at run time

The optimizing compiler lowers `memory.size` to "load the memory's byte length (from the module context, or through the
imported memory instance), shift right by 16".  The length is a run-time quantity: `memory.grow`, `api.Memory.Grow` and
a limit configured on ANOTHER runtime that shares the compilation cache all change what the same machine code must
answer.  `size_from_length_exact`: the shift of the loaded length is the page count for every page count up to 65535
(the 32-bit length of a 4 GiB memory is finding F13).  `folded_constant_wrong_witness`: a constant folded at compile time
(min == max under the compiling runtime's limit, seeded change C14-8) is wrong for an instance whose memory may grow
under the instantiating runtime's limit.  That the lowering consists of loads, the shift constant and the shift, and
pushes only the shifted value, is a regenerated shape.
-/

namespace Wz.C14

def sizeFromLength (lenBytes : Nat) : Nat := (lenBytes % 2 ^ 32) >>> 16

theorem size_from_length_exact (pages : Nat) (h : pages < 65536) : sizeFromLength (pages * 65536) = pages := by
  unfold sizeFromLength
  have : pages * 65536 < 2 ^ 32 := by omega
  rw [Nat.mod_eq_of_lt this, Nat.shiftRight_eq_div_pow]
  omega

/-- after a growth by `d` pages the same code answers the new size -/
theorem size_follows_growth (pages d : Nat) (h : pages + d < 65536) :
    sizeFromLength ((pages + d) * 65536) = sizeFromLength (pages * 65536) + d := by
  rw [size_from_length_exact _ h, size_from_length_exact _ (by omega)]

/-- a constant folded under limit = min answers `min` although the instance (limit = min + 1) has grown -/
theorem folded_constant_wrong_witness : ∃ min d : Nat, d > 0 ∧ sizeFromLength ((min + d) * 65536) ≠ min :=
  ⟨1, 1, by decide, by decide⟩

theorem compiler_memory_size_is_loads_and_a_shift :
    Wz.Gen.Shapes.get "c14.compiler_memory_size" = some "AsLoad AsLoad AsLoad AsIconst32 AsUshr state.push(memSize)" := by
  decide

end Wz.C14
