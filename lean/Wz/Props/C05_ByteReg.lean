import Wz.Gen.Shapes

/-!
# C05 companion: byte registers and the REX prefix (amd64)

In 64-bit mode the register field of an 8-bit operand means, for encodings 4..7, AH CH DH BH (bits 8..15 of
RAX RCX RDX RBX) when the instruction has no REX prefix, and SPL BPL SIL DIL (bits 0..7 of RSP RBP RSI RDI) when it has
one; encodings 0..3 mean AL CL DL BL either way, and 8..15 (R8B..R15B) need REX.B/R, hence a prefix, anyway.  The
encoder therefore forces a REX prefix for a byte-register operand with encoding 4..7 (`e >= 4 && e <= 7`), and always
for `setcc`.  Model: what byte a register operand denotes given (has REX?, 4-bit encoding).  With the rule, every one
of the sixteen registers denotes its own low byte (`byte_operand_is_the_low_byte_of_its_register`); leaving one
register out of the rule - RSI in seeded change C05-7 - makes it DH (witness).  All places where the encoder forces
the prefix, and their conditions, are a regenerated shape.
-/

namespace Wz.C05.ByteReg

/-- what an 8-bit register operand denotes -/
inductive Denotes where
  | low (reg : Nat)    -- bits 0..7 of general register `reg` (0 = RAX, 1 = RCX, 2 = RDX, 3 = RBX, 4 = RSP, 5 = RBP, 6 = RSI, 7 = RDI, 8.. = R8..)
  | high (reg : Nat)   -- bits 8..15 of RAX/RCX/RDX/RBX
  deriving DecidableEq, Repr

/-- Intel SDM vol. 2, 3.1.1.1 / table 3-1: register field `enc` (with the REX extension bit already included) -/
def denotes (rex : Bool) (enc : Nat) : Denotes :=
  if enc < 4 then .low enc
  else if enc < 8 then (if rex then .low enc else .high (enc - 4))
  else .low enc

/-- the encoder's decision: is a REX prefix emitted for a byte operand in register `enc`?  `forced` is the rule -/
def hasRex (forced : Nat → Bool) (enc : Nat) : Bool := forced enc || decide (8 ≤ enc)

/-- the rule of the source -/
def rule (e : Nat) : Bool := decide (4 ≤ e) && decide (e ≤ 7)

/-- **with the rule every byte operand is the low byte of its own register** (all sixteen registers) -/
theorem byte_operand_is_the_low_byte_of_its_register (enc : Nat) (h : enc < 16) :
    denotes (hasRex rule enc) enc = .low enc := by
  unfold denotes hasRex rule
  by_cases h4 : enc < 4
  · simp [h4]
  · by_cases h8 : enc < 8
    · have : 4 ≤ enc := by omega
      have : enc ≤ 7 := by omega
      simp [h4, h8, *]
    · simp [h4, h8]

/-- the rule without RSI (encoding 6): the operand is DH -/
theorem rule_without_rsi_witness :
    denotes (hasRex (fun e => e == 4 || e == 5 || e == 7) 6) 6 = .high 2 := by decide

/-- non-vacuity: SIL needs the prefix, AL does not, R9B has it anyway -/
example : hasRex rule 6 = true ∧ hasRex rule 0 = false ∧ hasRex rule 9 = true := by decide

set_option maxRecDepth 16384 in
/-- the encoder, regenerated: the prefix is forced at six places of instr_encoding.go - unconditionally for setcc, and
under `e >= 4 && e <= 7` on the source register's encoding at the five places that encode a byte register source -/
theorem every_byte_register_site_uses_the_rule :
    Wz.Gen.Shapes.get "c05.byte_reg_rex" =
      some "6 assignments of an always-REX prefix; guarded: e := src.encoding(); e >= 4 && e <= 7 ;; e := src.encoding(); e >= 4 && e <= 7 ;; e := src.encoding(); e >= 4 && e <= 7 ;; e := src.encoding(); e >= 4 && e <= 7 ;; e := src.encoding(); e >= 4 && e <= 7" := by
  decide

end Wz.C05.ByteReg
