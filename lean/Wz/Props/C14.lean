/-
C14 — Memory size, growth and the host memory API follow the limits exactly.
Property theorems only; all about definitions regenerated from /repo (`Wz.Gen.Memory`) or the
model built on them (`Wz.Model.Memory`).
-/
import Wz.Model.Memory
import Wz.Gen.FrontendReload
import Wz.Gen.Shapes

namespace Wz.C14
open Wz.Gen.Memory Wz.Model.Memory

/-- The state invariant: the buffer is a whole number of pages, within [min, max], max ≤ 65536. -/
structure Inv (m : Mem) : Prop where
  whole : ∃ p : Nat, p ≤ 65536 ∧ m.len.toNat = p * 65536
  lo : m.min.toNat * 65536 ≤ m.len.toNat
  hi : m.len.toNat ≤ m.max.toNat * 65536
  maxle : m.max.toNat ≤ 65536

theorem pages_toNat (len : BitVec 64) (p : Nat) (hp : p ≤ 65536) (h : len.toNat = p * 65536) :
    (Pages len).toNat = p ∨ (p = 65536 ∧ (Pages len).toNat = 65536) := by
  unfold Pages memoryBytesNumToPages
  simp only [BitVec.toNat_setWidth, BitVec.toNat_ushiftRight, h, Nat.shiftRight_eq_div_pow]
  left; omega

theorem pages_eq (len : BitVec 64) (p : Nat) (hp : p ≤ 65536) (h : len.toNat = p * 65536) :
    (Pages len).toNat = p := by
  unfold Pages memoryBytesNumToPages
  simp only [BitVec.toNat_setWidth, BitVec.toNat_ushiftRight, h, Nat.shiftRight_eq_div_pow]
  omega

theorem bytes_toNat (p : BitVec 32) : (MemoryPagesToBytesNum p).toNat = p.toNat * 65536 := by
  unfold MemoryPagesToBytesNum
  simp only [BitVec.toNat_shiftLeft, BitVec.toNat_setWidth, Nat.shiftLeft_eq]
  have := p.isLt
  omega

/-- `hasSize off n` holds exactly when `off + n ≤ len` over the naturals (no wrap-around),
for every byte count below 2^63 (the API passes counts ≤ 2^32 or Go slice lengths). -/
theorem hasSize_iff (off : BitVec 32) (n len : BitVec 64) (hn : n.toNat < 2^63) :
    hasSize off n len = true ↔ off.toNat + n.toNat ≤ len.toNat := by
  unfold hasSize
  simp only [BitVec.ule, decide_eq_true_eq, BitVec.toNat_add, BitVec.toNat_setWidth]
  have := off.isLt
  omega

/-- The regenerated `Grow` decision tree, flattened. -/
theorem Grow_eq (δ max cap : BitVec 32) (len : BitVec 64) (sh a n mv : Bool) :
    Grow δ sh len max cap a n mv =
      if δ == 0#32 then some (Pages len, true)
      else if (BitVec.ult max (Pages len + δ) || BitVec.slt δ 0#32) then some (0#32, false)
      else if a then (if n then some (0#32, false) else if sh && mv then none else some (Pages len, true))
      else if BitVec.ult cap (Pages len + δ) then (if sh then none else some (Pages len, true))
      else some (Pages len, true) := by
  unfold Grow
  cases sh <;> cases a <;> cases n <;> cases mv <;> simp

theorem guard_iff (δ max : BitVec 32) (len : BitVec 64) (cur : Nat)
    (hp : (Pages len).toNat = cur) (hcur : cur ≤ 65536) (hmax : max.toNat ≤ 65536) :
    (BitVec.ult max (Pages len + δ) || BitVec.slt δ 0#32) = true ↔ ¬ (cur + δ.toNat ≤ max.toNat) := by
  have hδ := δ.isLt
  simp only [Bool.or_eq_true, BitVec.ult, BitVec.slt, decide_eq_true_eq, BitVec.toNat_add, hp,
    BitVec.toInt_eq_toNat_cond]
  simp
  omega

/-- Grow's decision, at full strength: with current size `cur ≤ 65536` pages and `max ≤ 65536`,
for EVERY 32-bit delta (including ≥ 2^31 and values that wrap `cur+delta`), when the allocator does not
fail, every non-panicking outcome of Grow succeeds iff `cur + delta ≤ max` over the naturals, and then
returns the previous size. -/
theorem grow_iff (δ max cap : BitVec 32) (len : BitVec 64) (sh hasAlloc moved : Bool) (cur : Nat)
    (hcur : cur ≤ 65536) (hlen : len.toNat = cur * 65536) (hmax : max.toNat ≤ 65536)
    (hcm : cur ≤ max.toNat) (r : BitVec 32 × Bool)
    (hr : Grow δ sh len max cap hasAlloc false moved = some r) :
    (r.2 = true ↔ cur + δ.toNat ≤ max.toNat) ∧ (r.2 = true → r.1.toNat = cur) := by
  have hp := pages_eq len cur hcur hlen
  have key := guard_iff δ max len cur hp hcur hmax
  rw [Grow_eq] at hr
  by_cases hd : δ = 0#32
  · subst hd; simp at hr; subst hr; simp [hp]; omega
  · have hd' : (δ == 0#32) = false := by simpa using hd
    rw [hd'] at hr
    by_cases hk : cur + δ.toNat ≤ max.toNat
    · have hg : (BitVec.ult max (Pages len + δ) || BitVec.slt δ 0#32) = false := by
        cases h : (BitVec.ult max (Pages len + δ) || BitVec.slt δ 0#32)
        · rfl
        · exact absurd hk (key.mp h)
      rw [hg] at hr
      simp only [Bool.false_eq_true, if_false] at hr
      repeat' split at hr
      all_goals first
        | (simp at hr; done)
        | (simp at hr; subst hr; simp [hp, hk])
    · rw [key.mpr hk] at hr
      simp at hr; subst hr; simp [hk]

/-- Panic-freedom of Grow when the allocator contract holds (a shared memory never moves) and a
shared memory without allocator has `cap = max` (it is allocated at its maximum). -/
theorem grow_no_panic (δ max cap : BitVec 32) (len : BitVec 64) (sh hasAlloc allocNil moved : Bool)
    (cur : Nat) (hcur : cur ≤ 65536) (hlen : len.toNat = cur * 65536) (hmax : max.toNat ≤ 65536)
    (hmoved : sh = true → moved = false) (hcap : sh = true → hasAlloc = false → cap = max) :
    Grow δ sh len max cap hasAlloc allocNil moved ≠ none := by
  have hp := pages_eq len cur hcur hlen
  have key := guard_iff δ max len cur hp hcur hmax
  rw [Grow_eq]
  repeat' split
  all_goals first
    | (simp; done)
    | (exfalso
       rename_i h1 h2 h3 h4 h5
       simp only [Bool.and_eq_true] at h5
       have hm := hmoved h5.1
       rw [hm] at h5
       exact absurd h5.2 (by simp))
    | (exfalso
       rename_i h1 h2 h3 h4 h5
       have hc := hcap h5 (by simpa using h3)
       rw [hc] at h4
       simp [h4] at h2)

/-- Every successful decode of a memory type yields limits within the configured limit:
min ≤ max ≤ limit and min ≤ cap ≤ limit, with min the declared minimum. -/
theorem decode_bounds (limit minP : BitVec 32) (maxP : Option (BitVec 32)) (cfm : Bool)
    (r : BitVec 32 × BitVec 32 × BitVec 32) (h : decodeMemory limit cfm minP maxP = .ok r) :
    r.1 = minP ∧ r.1.toNat ≤ r.2.2.toNat ∧ r.2.2.toNat ≤ limit.toNat ∧
      r.1.toNat ≤ r.2.1.toNat ∧ r.2.1.toNat ≤ limit.toNat := by
  unfold decodeMemory at h
  simp only at h
  split at h
  · simp at h
  · rename_i hv
    simp only [Except.ok.injEq] at h
    subst h
    unfold Validate at hv
    simp only [BitVec.ult, decide_eq_true_eq] at hv
    have hmin : (memorySizer limit cfm minP maxP).1 = minP := by
      unfold memorySizer; repeat' split
      all_goals rfl
    repeat' split at hv
    all_goals first
      | (simp at hv; done)
      | (refine ⟨hmin, ?_, ?_, ?_, ?_⟩ <;> omega)

/-- When the declared maximum is a valid wasm value (≤ 65536) and capacity-from-max is off, the
effective maximum is exactly min(declared max, limit); without a declared maximum it is the limit. -/
theorem decode_max_exact (limit minP : BitVec 32) (maxP : Option (BitVec 32))
    (r : BitVec 32 × BitVec 32 × BitVec 32) (h : decodeMemory limit false minP maxP = .ok r) :
    r.2.2.toNat = match maxP with
      | some mx => Nat.min mx.toNat limit.toNat
      | none => limit.toNat := by
  unfold decodeMemory at h
  simp only at h
  split at h
  · simp at h
  · rename_i hv
    simp only [Except.ok.injEq] at h
    subst h
    unfold Validate at hv
    simp only [BitVec.ult, decide_eq_true_eq] at hv
    cases maxP with
    | none => simp [memorySizer]
    | some mx =>
      simp only [memorySizer, Option.isSome_some, if_true, Bool.false_eq_true, if_false,
        Option.getD_some, BitVec.ult, decide_eq_true_eq] at hv ⊢
      repeat' split at hv
      all_goals first
        | (simp at hv; done)
        | (split <;> (try split) <;> simp_all [Nat.min_def] <;> omega)

/-- TOTAL and exact, both settings of `WithMemoryCapacityFromMax` (the regenerated sizer + Validate): every memory
type whose declared maximum is a valid wasm value (≤ 65536, the boundary included) and whose minimum fits is
ACCEPTED, keeps its minimum, and gets the effective maximum min(declared max, limit) - for every configured limit. -/
theorem decode_accepts_valid (limit minP mx : BitVec 32) (cfm : Bool)
    (hx : mx.toNat ≤ 65536) (hm : minP.toNat ≤ Nat.min mx.toNat limit.toNat) :
    ∃ r, decodeMemory limit cfm minP (some mx) = .ok r ∧ r.1 = minP ∧
      r.2.2.toNat = Nat.min mx.toNat limit.toNat := by
  have hm1 : minP.toNat ≤ mx.toNat := Nat.le_trans hm (Nat.min_le_left _ _)
  have hm2 : minP.toNat ≤ limit.toNat := Nat.le_trans hm (Nat.min_le_right _ _)
  have h65 : (65536#32).toNat = 65536 := rfl
  have hnx : ¬ 65536 < mx.toNat := Nat.not_lt.mpr hx
  by_cases hlt : limit.toNat < mx.toNat
  · have hs : memorySizer limit cfm minP (some mx) = (minP, (if cfm then limit else minP), limit) := by
      cases cfm <;> simp [memorySizer, BitVec.ult, BitVec.ule, h65, hx, hlt, hnx]
    refine ⟨(minP, (if cfm then limit else minP), limit), ?_, rfl, ?_⟩
    · unfold decodeMemory
      rw [hs]
      cases cfm <;> simp [Validate, BitVec.ult, Nat.not_lt.mpr hm2]
    · exact (Nat.min_eq_right (Nat.le_of_lt hlt)).symm
  · have hs : memorySizer limit cfm minP (some mx) = (minP, (if cfm then mx else minP), mx) := by
      cases cfm <;> simp [memorySizer, BitVec.ult, BitVec.ule, h65, hx, hlt, hnx]
    refine ⟨(minP, (if cfm then mx else minP), mx), ?_, rfl, ?_⟩
    · unfold decodeMemory
      rw [hs]
      cases cfm <;> simp [Validate, BitVec.ult, Nat.not_lt.mpr hm2, Nat.not_lt.mpr hm1, hlt]
    · exact (Nat.min_eq_left (Nat.le_of_not_lt hlt)).symm

/-- … and without a declared maximum the effective maximum is the configured limit. -/
theorem decode_accepts_nomax (limit minP : BitVec 32) (cfm : Bool) (hm : minP.toNat ≤ limit.toNat) :
    ∃ r, decodeMemory limit cfm minP none = .ok r ∧ r.1 = minP ∧ r.2.2 = limit := by
  have hs : memorySizer limit cfm minP none = (minP, (if cfm then limit else minP), limit) := by
    cases cfm <;> simp [memorySizer]
  refine ⟨(minP, (if cfm then limit else minP), limit), ?_, rfl, rfl⟩
  unfold decodeMemory
  rw [hs]
  cases cfm <;> simp [Validate, BitVec.ult, Nat.not_lt.mpr hm]

-- non-vacuity (test on a sample): (memory 1 65536) under WithMemoryLimitPages(3), capacity from max
example : decodeMemory 3#32 true 1#32 (some 65536#32) = .ok (1#32, 3#32, 3#32) := by rfl

/-- The model's `grow` preserves the state invariant for every delta and allocator behaviour. -/
theorem grow_inv (m : Mem) (h : Inv m) (δ : BitVec 32) (a n mv : Bool)
    (r : Mem × BitVec 32 × Bool) (hr : grow m δ a n mv = some r) : Inv r.1 := by
  obtain ⟨p, hp, hlen⟩ := h.whole
  have hpg := pages_eq m.len p hp hlen
  unfold grow at hr
  split at hr
  · simp at hr
  · simp at hr; subst hr; exact h
  · rename_i r0 hg
    split at hr
    · simp at hr; subst hr; exact h
    · rename_i hd
      simp at hr; subst hr
      have hd' : δ ≠ 0#32 := by simpa using hd
      have hδ := δ.isLt
      have key := guard_iff δ m.max m.len p hpg hp h.maxle
      rw [Grow_eq] at hg
      have hd'' : (δ == 0#32) = false := by simpa using hd'
      rw [hd''] at hg
      have hk : p + δ.toNat ≤ m.max.toNat := by
        by_cases hk : p + δ.toNat ≤ m.max.toNat
        · exact hk
        · rw [key.mpr hk] at hg; simp at hg
      have hnew : (m.pages + δ).toNat = p + δ.toNat := by
        simp only [Mem.pages, BitVec.toNat_add, hpg]
        have := h.maxle
        omega
      have hb := bytes_toNat (m.pages + δ)
      have hmx := h.maxle
      have hlo := h.lo
      constructor
      · exact ⟨p + δ.toNat, by omega, by simp only [hb, hnew]⟩
      · simp only [hb, hnew]; omega
      · simp only [hb, hnew]
        exact Nat.mul_le_mul_right _ hk
      · exact hmx

/-- Lift to all histories: any sequence of grow requests (guest or host, any deltas, any allocator
outcomes) from a state satisfying the invariant ends in a state satisfying it (panics stop the run). -/
def growAll (m : Mem) : List (BitVec 32 × Bool × Bool × Bool) → Option Mem
  | [] => some m
  | (δ, a, n, mv) :: rest =>
    match grow m δ a n mv with
    | none => none
    | some r => growAll r.1 rest

theorem growAll_inv (ops : List (BitVec 32 × Bool × Bool × Bool)) (m m' : Mem) (h : Inv m)
    (hr : growAll m ops = some m') : Inv m' := by
  induction ops generalizing m with
  | nil => simp [growAll] at hr; subst hr; exact h
  | cons op rest ih =>
    obtain ⟨δ, a, n, mv⟩ := op
    simp only [growAll] at hr
    split at hr
    · simp at hr
    · rename_i r hg
      exact ih r.1 (grow_inv m h δ a n mv r hg) hr

/-- Memory never shrinks and its declared limits never change: after any grow request (successful,
refused, or of zero pages) the byte length is at least what it was, and `min`, `max` and the shared flag are
what they were. -/
theorem grow_never_shrinks (m : Mem) (h : Inv m) (δ : BitVec 32) (a n mv : Bool)
    (r : Mem × BitVec 32 × Bool) (hr : grow m δ a n mv = some r) :
    m.len.toNat ≤ r.1.len.toNat ∧ r.1.min = m.min ∧ r.1.max = m.max ∧ r.1.shared = m.shared := by
  have hinv := grow_inv m h δ a n mv r hr
  obtain ⟨p, hp, hlen⟩ := h.whole
  have hpg := pages_eq m.len p hp hlen
  unfold grow at hr
  split at hr
  · simp at hr
  · simp at hr; subst hr; exact ⟨Nat.le_refl _, rfl, rfl, rfl⟩
  · rename_i r0 hg
    split at hr
    · simp at hr; subst hr; exact ⟨Nat.le_refl _, rfl, rfl, rfl⟩
    · rename_i hd
      simp at hr; subst hr
      refine ⟨?_, rfl, rfl, rfl⟩
      have hd' : δ ≠ 0#32 := by simpa using hd
      have key := guard_iff δ m.max m.len p hpg hp h.maxle
      rw [Grow_eq] at hg
      have hd'' : (δ == 0#32) = false := by simpa using hd'
      rw [hd''] at hg
      have hk : p + δ.toNat ≤ m.max.toNat := by
        by_cases hk : p + δ.toNat ≤ m.max.toNat
        · exact hk
        · rw [key.mpr hk] at hg; simp at hg
      have hnew : (m.pages + δ).toNat = p + δ.toNat := by
        simp only [Mem.pages, BitVec.toNat_add, hpg]
        have := h.maxle
        omega
      have hb := bytes_toNat (m.pages + δ)
      simp only [hb, hnew, hlen]
      exact Nat.mul_le_mul_right _ (Nat.le_add_right _ _)

/-- Lifted to all histories: along any sequence of grow requests the length is non-decreasing and the limits
are fixed, so the final size lies between the initial size and `max` (with `growAll_inv`). -/
theorem growAll_never_shrinks (ops : List (BitVec 32 × Bool × Bool × Bool)) (m m' : Mem) (h : Inv m)
    (hr : growAll m ops = some m') :
    m.len.toNat ≤ m'.len.toNat ∧ m'.min = m.min ∧ m'.max = m.max ∧ m'.shared = m.shared := by
  induction ops generalizing m with
  | nil => simp [growAll] at hr; subst hr; exact ⟨Nat.le_refl _, rfl, rfl, rfl⟩
  | cons op rest ih =>
    obtain ⟨δ, a, n, mv⟩ := op
    simp only [growAll] at hr
    split at hr
    · simp at hr
    · rename_i r hg
      have h1 := grow_never_shrinks m h δ a n mv r hg
      have h2 := ih r.1 (grow_inv m h δ a n mv r hg) hr
      exact ⟨Nat.le_trans h1.1 h2.1, h2.2.1.trans h1.2.1, h2.2.2.1.trans h1.2.2.1, h2.2.2.2.trans h1.2.2.2⟩

-- non-vacuity (test on a sample): (memory 1 3): grow by 1 succeeds, grow by 5 is refused; the run ends at 2 pages
example : ∃ m', growAll (newMem 1#32 1#32 3#32 false) [(1#32, false, false, false), (5#32, false, false, false)] = some m' ∧
    m'.len = 131072#64 := by
  refine ⟨_, rfl, ?_⟩; rfl

/-- A fresh memory satisfies the invariant whenever decoding accepted its limits (limit ≤ 65536). -/
theorem newMem_inv (min cap max : BitVec 32) (sh : Bool) (hmm : min.toNat ≤ max.toNat)
    (hmax : max.toNat ≤ 65536) : Inv (newMem min cap max sh) := by
  have hb := bytes_toNat min
  constructor
  · exact ⟨min.toNat, by omega, by simp [newMem, hb]⟩
  · simp [newMem, hb]
  · simp only [newMem, hb]; exact Nat.mul_le_mul_right _ hmm
  · simpa [newMem] using hmax

/-- Growth preserves existing contents: every byte keeps its value. -/
theorem grow_preserves_bytes (m : Mem) (δ : BitVec 32) (a n mv : Bool) (r : Mem × BitVec 32 × Bool)
    (hr : grow m δ a n mv = some r) (i : Nat) : r.1.byteAt i = m.byteAt i := by
  unfold grow at hr
  split at hr
  · simp at hr
  · simp at hr; subst hr; rfl
  · split at hr <;> (simp at hr; subst hr; rfl)

/-- All recorded writes lie below the current length. -/
def WritesBelow (m : Mem) : Prop := ∀ w ∈ m.writes, w.1 < m.len.toNat

/-- New pages read as zero: a byte at or beyond the current length (where no write can have
happened) is zero, so after growth the new pages are zero. -/
theorem beyond_len_zero (m : Mem) (hw : WritesBelow m) (i : Nat) (hi : m.len.toNat ≤ i) :
    m.byteAt i = 0#8 := by
  unfold Mem.byteAt
  split
  · rename_i w hf
    have hmem := List.mem_of_find?_eq_some hf
    have heq := List.find?_some hf
    have := hw w hmem
    simp at heq
    omega
  · rfl

theorem writeByte_writesBelow (m : Mem) (hw : WritesBelow m) (off : BitVec 32) (v : BitVec 8) :
    WritesBelow (m.writeByte off v).1 := by
  unfold Mem.writeByte
  split
  · rename_i hs
    intro w hwm
    simp only [List.mem_cons] at hwm
    cases hwm with
    | inl h =>
      subst h
      have := (hasSize_iff off 1#64 m.len (by decide)).mp hs
      simp at this ⊢
      omega
    | inr h => exact hw w h
  · exact hw

/-- Host byte read/write succeed exactly when the offset is within the current size. -/
theorem readByte_ok_iff (m : Mem) (off : BitVec 32) :
    (m.readByte off).isSome ↔ off.toNat + 1 ≤ m.len.toNat := by
  unfold Mem.readByte Mem.hasSize
  have := hasSize_iff off 1#64 m.len (by decide)
  split <;> simp_all

/-- Engine views. With a 64-bit load every view agrees with the page count in every state
satisfying the invariant (this is the repaired variant). -/
theorem views_agree_w64 (m : Mem) (h : Inv m) : m.compilerMemorySize 64 = m.pages := by
  unfold Mem.compilerMemorySize Mem.pages Pages memoryBytesNumToPages
  simp

/-- As-is variant (32-bit load of the byte length): agreement holds below 65536 pages ... -/
theorem views_agree_partial (m : Mem) (h : Inv m) (hlt : m.len.toNat < 65536 * 65536) :
    m.compilerMemorySize 32 = m.pages ∧ m.apiSize.toNat = m.len.toNat := by
  obtain ⟨p, hp, hlen⟩ := h.whole
  constructor
  · apply BitVec.eq_of_toNat_eq
    simp only [Mem.compilerMemorySize, Mem.pages, Pages, memoryBytesNumToPages, beq_self_eq_true, if_true,
      BitVec.toNat_ushiftRight, BitVec.toNat_setWidth, Nat.shiftRight_eq_div_pow]
    omega
  · simp only [Mem.apiSize, Size, BitVec.toNat_setWidth]
    omega

/-- ... and fails exactly at the 4 GiB limit (findings F13, F14): the compiler's `memory.size`
and `api.Memory.Size()` both report 0 while the memory has 65536 pages. -/
theorem view_4gib_witness :
    let m := newMem 65536#32 65536#32 65536#32 false
    Inv m ∧ m.pages = 65536#32 ∧ m.compilerMemorySize 32 = 0#32 ∧ m.apiSize = 0#32 ∧
      m.compilerLenView 32 = 0#64 := by
  refine ⟨newMem_inv _ _ _ _ (by decide) (by decide), by decide, by decide, by decide, by decide⟩

/-- Non-vacuity: a concrete reachable state meets the hypotheses of `grow_iff`. -/
example : ∃ r, Grow 3#32 false (MemoryPagesToBytesNum 2#32) 5#32 2#32 false false false = some r ∧ r = (2#32, true) := by
  exact ⟨_, rfl, by decide⟩
example : Grow 0x80000000#32 false (MemoryPagesToBytesNum 2#32) 65536#32 2#32 false false false = some (0#32, false) := by
  decide
example : Grow 0xfffffffe#32 false (MemoryPagesToBytesNum 2#32) 65536#32 2#32 false false false = some (0#32, false) := by
  decide


/-! ### "both engines always agree on the current size": the compiler's cached length -/

/-- **Regenerated obligation** (frontend/lower.go): compiled code keeps the memory length in an SSA variable;
the only events that change the length are `memory.grow` (in this function or in a callee) and host calls.
The front end re-reads the length after every call form and after `memory.grow`, unconditionally for
non-shared memories, and never answers from the cache for shared ones - so the cached length always equals
the instance's (a seeded change that skipped the reload for memories pre-allocated up to their maximum broke
exactly this). -/
theorem compiler_rereads_length_after_call :
    Wz.Gen.FrontendReload.reloadGuard = "c.needMemory && !c.memoryShared" ∧
    Wz.Gen.FrontendReload.reloadStatements.contains "c.getMemoryLenValue(true)" = true ∧
    Wz.Gen.FrontendReload.lenCacheGuard = "!forceReload && !c.memoryShared" ∧
    Wz.Gen.FrontendReload.reloadAfterCallCallers =
      ["lowerCall", "lowerCallIndirect", "lowerTailCallReturnCall", "lowerTailCallReturnCallIndirect"] := by decide


/-- **Regenerated obligation** (wasm/memory.go): the view returned by `Read` is a three-index slice, so its
capacity equals its length and nothing beyond `offset+byteCount` is reachable through it, whatever spare capacity
the buffer has (capacity-from-max, shared memories). -/
theorem read_view_capacity_is_its_length :
    Wz.Gen.Shapes.get "c14.read_view" = some "m.Buffer[offset:][:byteCount:byteCount]" := by decide

end Wz.C14
