import Wz.Gen.Shapes

/-!
# C02 companion: what ends an instruction group

The back ends may merge a single-use load into the memory operand of its consumer when both carry the same GROUP id;
the dead-code pass starts a new group after every instruction classified `sideEffectStrict`.  A merged load is executed
where its consumer stands, so everything that can change what the load reads - or where the memory is - between the two
must end the group: stores, atomic accesses, and every kind of CALL (a callee may store, grow and thereby move the
memory).  `merge_across_is_blocked`: in a straight-line sequence, a load and a later consumer share a group id exactly
when no strict instruction lies between them (the group counter model of the pass).  The set of strict opcodes is a
regenerated shape; `calls_and_stores_are_strict` checks that every call form, store form and atomic form is in it
(seeded change C02-11 took `Call` out).
-/

namespace Wz.C02

/-- group ids along a straight-line sequence: the id increases after every strict instruction -/
def groupIds : List Bool → Nat → List Nat
  | [], _ => []
  | strict :: rest, g => g :: groupIds rest (if strict then g + 1 else g)

/-- number of strict instructions in positions [i, j) -/
def strictBetween (l : List Bool) (i j : Nat) : Nat := ((l.drop i).take (j - i)).countP id

theorem groupIds_length (l : List Bool) (g : Nat) : (groupIds l g).length = l.length := by
  induction l generalizing g with
  | nil => rfl
  | cons s r ih => simp [groupIds, ih]

theorem groupIds_get (l : List Bool) : ∀ (g i : Nat), i < l.length →
    (groupIds l g).getD i 0 = g + ((l.take i).countP id) := by
  induction l with
  | nil => intro g i h; simp at h
  | cons s r ih =>
    intro g i h
    cases i with
    | zero => simp [groupIds]
    | succ i =>
      have hi : i < r.length := by simpa using h
      simp only [groupIds, List.getD_cons_succ, List.take_succ_cons, List.countP_cons]
      rw [ih _ i hi]
      cases s <;> simp <;> omega

/-- a load at position i and a consumer at position j > i share a group id iff no strict instruction lies in [i, j) -/
theorem merge_across_is_blocked (l : List Bool) (i j : Nat) (hij : i ≤ j) (hj : j < l.length) :
    ((groupIds l 0).getD i 0 = (groupIds l 0).getD j 0) ↔ ((l.take j).countP id = (l.take i).countP id) := by
  rw [groupIds_get l 0 i (by omega), groupIds_get l 0 j hj]
  omega

def strictOpcodes : List String :=
  ((Wz.Gen.Shapes.get "c02.strict_opcodes").getD "").splitOn " "

set_option maxRecDepth 16384 in
theorem strict_opcodes_shape :
    Wz.Gen.Shapes.get "c02.strict_opcodes" =
      some "AtomicCas AtomicLoad AtomicRmw AtomicStore BrTable Brnz Brz Call CallIndirect ExitIfTrueWithCode ExitWithCode Fence Istore16 Istore32 Istore8 Jump Return Store TailCallReturnCall TailCallReturnCallIndirect Undefined" := by
  decide

/-- every call form, store form and atomic access is strict -/
theorem calls_and_stores_are_strict :
    ["Call", "CallIndirect", "TailCallReturnCall", "TailCallReturnCallIndirect", "Store", "Istore8", "Istore16", "Istore32",
      "AtomicStore", "AtomicRmw", "AtomicCas", "AtomicLoad", "Fence"].all
        (fun o => ["AtomicCas", "AtomicLoad", "AtomicRmw", "AtomicStore", "BrTable", "Brnz", "Brz", "Call", "CallIndirect", "ExitIfTrueWithCode",
          "ExitWithCode", "Fence", "Istore16", "Istore32", "Istore8", "Jump", "Return", "Store", "TailCallReturnCall",
          "TailCallReturnCallIndirect", "Undefined"].contains o) = true := by
  decide

end Wz.C02
