/-
C08 — Values cross the host/guest boundary unchanged.

Part 1 (marshalling): the regenerated `api.Encode*/Decode*` (`Wz.Gen.ApiCodec`), the per-kind
conversions of `callGoFunc` (`Wz.Model.Marshal`, as-is and repaired variants), the engines' view of a slot.
Part 2 (locations): `backend.FunctionABI` (`Wz.Model.Abi`) for EVERY signature, by induction over the
type list, instantiated with the regenerated register lists (`Wz.Gen.AbiRegs`); the Go-call stack view.
Part 3: `Call`/`CallWithStack` slice sizing.
-/
import Wz.Model.Marshal
import Wz.Model.Abi
import Wz.Gen.AbiRegs
import Wz.Proofs.C08_Abi
import Wz.Proofs.ExitCodeIndex

namespace Wz.C08
open Wz.Model.Marshal Wz.Gen.ApiCodec

/-! ## Part 1a: the regenerated api codecs -/

/-- `DecodeI32 (EncodeI32 v) = v` for every int32 (bit pattern). -/
theorem api_roundtrip_i32 (v : BitVec 32) : DecodeI32 (EncodeI32 v) = v := by
  unfold DecodeI32 EncodeI32
  apply BitVec.eq_of_toNat_eq
  simp only [BitVec.toNat_setWidth]
  have := v.isLt
  omega

theorem api_roundtrip_u32 (v : BitVec 32) : DecodeU32 (EncodeU32 v) = v := by
  unfold DecodeU32 EncodeU32
  apply BitVec.eq_of_toNat_eq
  simp only [BitVec.toNat_setWidth]
  have := v.isLt
  omega

/-- The encoders of the 32-bit integer type produce canonical slots (upper half zero), in particular
for negative int32 values. -/
theorem api_slot_canonical (v : BitVec 32) : EncodeI32 v >>> 32 = 0#64 ∧ EncodeU32 v >>> 32 = 0#64 := by
  unfold EncodeI32 EncodeU32
  have := v.isLt
  constructor <;>
  · apply BitVec.eq_of_toNat_eq
    simp only [BitVec.toNat_ushiftRight, BitVec.toNat_setWidth, Nat.shiftRight_eq_div_pow, BitVec.toNat_ofNat]
    omega

/-- The decoders read only the low half: a slot and its canonical form decode alike. -/
theorem api_decode_low_half (s : BitVec 64) :
    DecodeI32 s = DecodeI32 (canon .i32 s) ∧ DecodeU32 s = DecodeU32 (canon .i32 s) := by
  unfold DecodeI32 DecodeU32 canon
  constructor <;>
  · apply BitVec.eq_of_toNat_eq
    simp only [VT.is32, if_true, BitVec.toNat_setWidth]
    omega

/-- 64-bit and reference codecs are the identity on bit patterns. -/
theorem api_identity_64 (v : BitVec 64) :
    EncodeI64 v = v ∧ DecodeExternref (EncodeExternref v) = v ∧ EncodeExternref v = v := by
  unfold EncodeI64 DecodeExternref EncodeExternref
  exact ⟨rfl, rfl, rfl⟩

/-- Float encoders (hand-written, identity on bit patterns). -/
theorem api_roundtrip_f32 (v : BitVec 32) : DecodeF32 (EncodeF32 v) = v ∧ EncodeF32 v >>> 32 = 0#64 := by
  unfold DecodeF32 EncodeF32
  have := v.isLt
  constructor <;>
  · apply BitVec.eq_of_toNat_eq
    simp only [BitVec.toNat_ushiftRight, BitVec.toNat_setWidth, Nat.shiftRight_eq_div_pow, BitVec.toNat_ofNat]
    omega

/-- The 32-bit encoders are injective: two different values never share a slot (corollary of the round trips), so a
value handed to the guest cannot be confused with another one on the way. -/
theorem api_encode_injective (v w : BitVec 32) :
    (EncodeI32 v = EncodeI32 w → v = w) ∧ (EncodeU32 v = EncodeU32 w → v = w) ∧ (EncodeF32 v = EncodeF32 w → v = w) := by
  refine ⟨fun h => ?_, fun h => ?_, fun h => ?_⟩
  · rw [← api_roundtrip_i32 v, h, api_roundtrip_i32]
  · rw [← api_roundtrip_u32 v, h, api_roundtrip_u32]
  · rw [← (api_roundtrip_f32 v).1, h, (api_roundtrip_f32 w).1]

/-! ## Part 1b: float32 through float64 -/

theorem or_quietBit_of_set (b : BitVec 32) (h : b.getLsbD 22 = true) : b ||| quietBit = b := by
  apply BitVec.eq_of_getLsbD_eq
  intro i hi
  simp only [quietBit, BitVec.getLsbD_or, BitVec.getLsbD_twoPow]
  by_cases h22 : 22 = i
  · subst h22; simp [h]
  · simp [h22]

/-- Everything except a signalling NaN survives float32 -> float64 -> float32. -/
theorem viaF64_id_of_not_snan (b : BitVec 32) (h : isSNaN32 b = false) : viaF64 b = b := by
  unfold viaF64
  unfold isSNaN32 at h
  split
  · rename_i hn
    simp only [hn, Bool.true_and, Bool.not_eq_false'] at h
    exact or_quietBit_of_set b h
  · rfl

/-- A signalling NaN does not (it is quieted): the general form of finding F6. -/
theorem viaF64_changes_snan (b : BitVec 32) (h : isSNaN32 b = true) : viaF64 b ≠ b := by
  unfold isSNaN32 at h
  simp only [Bool.and_eq_true, Bool.not_eq_true'] at h
  unfold viaF64
  rw [if_pos h.1]
  intro heq
  have h1 : (b ||| quietBit).getLsbD 22 = b.getLsbD 22 := by rw [heq]
  rw [BitVec.getLsbD_or, h.2] at h1
  simp [quietBit, BitVec.getLsbD_twoPow] at h1

/-- Any pair of conversions obeying the two IEEE laws composes to `viaF64`. -/
theorem conv_viaF64 (c : F32Conv) (b : BitVec 32) : c.narrow (c.widen b) = viaF64 b := by
  unfold viaF64
  cases h : isNaN32 b
  · simp [c.exact b h]
  · simp [c.quiets b h]

/-- Non-vacuity of `F32Conv` (this instance is NOT the IEEE encoding of float64; it only shows the laws are consistent). -/
example : F32Conv :=
  { widen := fun b => (viaF64 b).setWidth 64, narrow := fun d => d.setWidth 32,
    exact := by
      intro b h
      have : viaF64 b = b := by unfold viaF64; simp [h]
      rw [this]; apply BitVec.eq_of_toNat_eq; simp only [BitVec.toNat_setWidth]; have := b.isLt; omega
    quiets := by
      intro b h
      have : viaF64 b = b ||| quietBit := by unfold viaF64; simp [h]
      rw [this]; apply BitVec.eq_of_toNat_eq; simp only [BitVec.toNat_setWidth]; have := (b ||| quietBit).isLt; omega }

/-! ## Part 1c: callGoFunc -/

theorem setWidth_32_64_32 (x : BitVec 32) : (x.setWidth 64).setWidth 32 = x := by
  apply BitVec.eq_of_toNat_eq
  simp only [BitVec.toNat_setWidth]
  have := x.isLt
  omega

theorem signExtend_64_setWidth_32 (x : BitVec 32) : (x.signExtend 64).setWidth 32 = x := by
  apply BitVec.eq_of_getLsbD_eq
  intro i hi
  simp only [BitVec.getLsbD_setWidth, BitVec.getLsbD_signExtend]
  simp [hi]
  omega

/-- FULL STATEMENT (`marshal_roundtrip`): for every kind and every value, what a reflected host function
returns and what a reflected host function then receives from that slot is the same value:
`decodeParam (encodeResult x) = x`.  Proved at full strength for the repaired variant … -/
theorem marshal_roundtrip_repaired (k : Kind) (x : BitVec k.width) :
    decodeParam repaired k (encodeResult repaired k x) = x := by
  cases k <;> simp only [decodeParam, encodeResult, repaired, if_true] <;> first | rfl | exact setWidth_32_64_32 x

/-- … and for the as-is variant (the pinned tree) for every kind except float32 (int32 included: the
sign-extended slot decodes back to the same int32) … -/
theorem marshal_roundtrip_partial (k : Kind) (hk : k ≠ .float32) (x : BitVec k.width) :
    decodeParam asIs k (encodeResult asIs k x) = x := by
  cases k <;> simp only [decodeParam, encodeResult, asIs, Bool.false_eq_true, if_false] <;>
    first | rfl | exact setWidth_32_64_32 x | exact signExtend_64_setWidth_32 x | exact absurd rfl hk

/-- … and for float32 whenever the value is not a signalling NaN (what is missing: signalling NaNs, F6). -/
theorem marshal_roundtrip_f32_partial (x : BitVec 32) (h : isSNaN32 x = false) :
    decodeParam asIs .float32 (encodeResult asIs .float32 x) = x := by
  simp only [decodeParam, encodeResult, asIs, Bool.false_eq_true, if_false]
  rw [viaF64_id_of_not_snan x h, setWidth_32_64_32, viaF64_id_of_not_snan x h]

/-- Non-vacuity: ordinary values, infinities, quiet NaNs with payload meet the hypothesis. -/
example : isSNaN32 0x7fc12345#32 = false ∧ isSNaN32 0xff800000#32 = false ∧ isSNaN32 0x80000000#32 = false := by decide

/-- F6 witness (test on a sample, by evaluation): the signalling NaN `0x7fa00001` arrives at a reflected
float32 parameter as `0x7fe00001`, and is returned by a reflected float32 result as `0x7fe00001`. -/
theorem f32_snan_witness :
    isSNaN32 0x7fa00001#32 = true ∧
    decodeParam asIs .float32 0x7fa00001#64 = 0x7fe00001#32 ∧
    encodeResult asIs .float32 0x7fa00001#32 = 0x7fe00001#64 := by decide

/-- F6 in general: on the as-is variant EVERY signalling NaN is changed in both directions. -/
theorem f32_snan_always_changed (x : BitVec 32) (h : isSNaN32 x = true) :
    decodeParam asIs .float32 (x.setWidth 64) ≠ x ∧ encodeResult asIs .float32 x ≠ x.setWidth 64 := by
  simp only [decodeParam, encodeResult, asIs, Bool.false_eq_true, if_false, setWidth_32_64_32]
  refine ⟨viaF64_changes_snan x h, ?_⟩
  intro heq
  have := congrArg (BitVec.setWidth 32) heq
  rw [setWidth_32_64_32, setWidth_32_64_32] at this
  exact viaF64_changes_snan x h this

/-- Parameter direction, FULL STATEMENT: the host receives exactly the low `width` bits of the slot the
guest passed.  Repaired variant: every kind, every slot. -/
theorem param_exact_repaired (k : Kind) (s : BitVec 64) : decodeParam repaired k s = s.setWidth k.width := by
  cases k <;> simp only [decodeParam, repaired, if_true] <;> first | rfl | (simp only [BitVec.setWidth_eq])

/-- As-is variant: every kind except float32 … -/
theorem param_exact_partial (k : Kind) (hk : k ≠ .float32) (s : BitVec 64) :
    decodeParam asIs k s = s.setWidth k.width := by
  cases k <;> simp only [decodeParam] <;> first | rfl | (simp only [BitVec.setWidth_eq]) | exact absurd rfl hk

/-- … and float32 when the slot does not hold a signalling NaN. -/
theorem param_exact_f32_partial (s : BitVec 64) (h : isSNaN32 (s.setWidth 32) = false) :
    decodeParam asIs .float32 s = s.setWidth 32 := by
  simp only [decodeParam, asIs, Bool.false_eq_true, if_false]
  exact viaF64_id_of_not_snan _ h

/-- The upper half of a 32-bit slot never reaches the host (the compiler's trampoline writes only four
bytes of such a slot): any variant, any kind. -/
theorem param_ignores_upper_half (v : Variant) (k : Kind) (s : BitVec 64) :
    decodeParam v k s = decodeParam v k (canon k.vt s) := by
  have h : ((s.setWidth 32).setWidth 64).setWidth 32 = s.setWidth 32 := setWidth_32_64_32 _
  cases k <;> simp only [decodeParam, canon, Kind.vt, VT.is32, if_true, Bool.false_eq_true, if_false, h]

/-- Result direction, FULL STATEMENT (`slot_canonical` + exactness): the slot a reflected host function's
result is stored in is the zero-extended bit pattern of the value (so it is canonical, and both engines
read the same thing).  Repaired variant: every kind and value. -/
theorem result_exact_repaired (k : Kind) (x : BitVec k.width) :
    encodeResult repaired k x = x.setWidth 64 ∧ canonical k.vt (encodeResult repaired k x) = true := by
  cases k <;> simp only [encodeResult, repaired, if_true, canonical, Kind.vt, VT.is32, Bool.not_true, Bool.not_false,
    Bool.false_or, Bool.true_or, BitVec.setWidth_eq, and_self, true_and] <;>
  · have : x.toNat < 2 ^ 32 := x.isLt
    simp only [beq_iff_eq]
    apply BitVec.eq_of_toNat_eq
    simp only [BitVec.toNat_ushiftRight, BitVec.toNat_setWidth, Nat.shiftRight_eq_div_pow, BitVec.toNat_ofNat]
    omega

theorem slot_canonical_repaired (k : Kind) (x : BitVec k.width) :
    canonical k.vt (encodeResult repaired k x) = true := (result_exact_repaired k x).2

/-- As-is variant: canonical for every kind except int32 and (exactness) float32 … -/
theorem slot_canonical_partial (k : Kind) (hk : k ≠ .int32) (x : BitVec k.width) :
    canonical k.vt (encodeResult asIs k x) = true := by
  cases k <;> simp only [encodeResult, asIs, Bool.false_eq_true, if_false, canonical, Kind.vt, VT.is32, Bool.not_true,
    Bool.not_false, Bool.false_or, Bool.true_or] <;> first
  | exact absurd rfl hk
  | (simp only [beq_iff_eq]
     apply BitVec.eq_of_toNat_eq
     simp only [BitVec.toNat_ushiftRight, BitVec.toNat_setWidth, Nat.shiftRight_eq_div_pow, BitVec.toNat_ofNat]
     first
     | (have : x.toNat < 2 ^ 32 := x.isLt; omega)
     | (have : (viaF64 x).toNat < 2 ^ 32 := (viaF64 x).isLt; omega))

/-- … and for int32 exactly when the value is non-negative (what is missing: negative int32, F5). -/
theorem slot_canonical_int32_iff (x : BitVec 32) :
    canonical .i32 (encodeResult asIs .int32 x) = true ↔ x.msb = false := by
  simp only [encodeResult, asIs, Bool.false_eq_true, if_false, canonical, VT.is32, Bool.not_true, Bool.false_or, beq_iff_eq]
  constructor
  · intro h
    cases hm : x.msb
    · rfl
    · exfalso
      have h63 : ((x.signExtend 64) >>> 32).getLsbD 0 = (0#64).getLsbD 0 := by rw [h]
      simp [BitVec.getLsbD_ushiftRight, BitVec.getLsbD_signExtend, BitVec.getElem_signExtend, hm] at h63
  · intro hm
    rw [BitVec.signExtend_eq_setWidth_of_msb_false hm]
    apply BitVec.eq_of_toNat_eq
    have := x.isLt
    simp only [BitVec.toNat_ushiftRight, BitVec.toNat_setWidth, Nat.shiftRight_eq_div_pow, BitVec.toNat_ofNat]
    omega

/-- F5 witness: a reflected host function returning `int32(-1)` stores `0xFFFFFFFF_FFFFFFFF`; the slot is
not canonical; the interpreter then evaluates `x != -1` (i32.ne against i32.const -1) to true, the compiler
to false. -/
theorem int32_result_witness :
    encodeResult asIs .int32 0xffffffff#32 = 0xffffffffffffffff#64 ∧
    canonical .i32 (encodeResult asIs .int32 0xffffffff#32) = false ∧
    wasmNeI32 .interpreter (encodeResult asIs .int32 0xffffffff#32) 0xffffffff#32 = true ∧
    wasmNeI32 .compiler (encodeResult asIs .int32 0xffffffff#32) 0xffffffff#32 = false := by decide

/-- Repaired: the same value gives a canonical slot and both engines answer false. -/
theorem int32_result_repaired_witness :
    encodeResult repaired .int32 0xffffffff#32 = 0x00000000ffffffff#64 ∧
    wasmNeI32 .interpreter (encodeResult repaired .int32 0xffffffff#32) 0xffffffff#32 = false ∧
    wasmNeI32 .compiler (encodeResult repaired .int32 0xffffffff#32) 0xffffffff#32 = false := by decide

/-- A canonical slot is read identically by both engines, for every type and slot. -/
theorem canonical_engine_independent (t : VT) (s : BitVec 64) (h : canonical t s = true) :
    guestView .interpreter t s = guestView .compiler t s := by
  unfold guestView canon
  unfold canonical at h
  cases ht : t.is32
  · simp
  · simp only [ht, Bool.not_true, Bool.false_or, beq_iff_eq] at h
    simp only [if_true]
    apply BitVec.eq_of_toNat_eq
    have h2 := congrArg BitVec.toNat h
    simp only [BitVec.toNat_ushiftRight, Nat.shiftRight_eq_div_pow, BitVec.toNat_ofNat] at h2
    simp only [BitVec.toNat_setWidth]
    have := s.isLt
    omega

/-- Non-vacuity: a concrete canonical slot of a 32-bit type with the sign bit set. -/
example : canonical .i32 0x00000000ffffffff#64 = true ∧ canonical .f32 0x000000007fa00001#64 = true := by decide

/-- Echo through a reflected host function (guest passes slot `s`, host returns what it received):
the guest gets back the canonical slot of the same value — repaired variant, every kind and slot. -/
theorem echo_repaired (k : Kind) (s : BitVec 64) :
    encodeResult repaired k (decodeParam repaired k s) = canon k.vt s := by
  cases k <;> simp only [decodeParam, encodeResult, repaired, if_true, canon, Kind.vt, VT.is32, Bool.false_eq_true, if_false]

/-- `C08` for the marshalling layer, assembled (repaired variant; the as-is variant satisfies the same
statement on the inputs delimited by the `_partial` theorems above): for every kind and every canonical
slot the guest passes, (1) the host receives exactly its value, (2) echoing it back yields exactly that
slot, (3) which both engines read identically. -/
theorem C08_marshal_repaired (k : Kind) (s : BitVec 64) (hs : canonical k.vt s = true) :
    decodeParam repaired k s = s.setWidth k.width ∧
    encodeResult repaired k (decodeParam repaired k s) = s ∧
    guestView .interpreter k.vt (encodeResult repaired k (decodeParam repaired k s)) =
      guestView .compiler k.vt (encodeResult repaired k (decodeParam repaired k s)) := by
  have hc : canon k.vt s = s := by
    have := canonical_engine_independent k.vt s hs
    simpa [guestView] using this.symm
  refine ⟨param_exact_repaired k s, ?_, ?_⟩
  · rw [echo_repaired, hc]
  · rw [echo_repaired, hc]; exact canonical_engine_independent _ _ hs


/-! ## Part 2: argument/result locations for every signature -/

section Abi
open Wz.Model.Abi Wz.C08.AbiLemmas Wz.Gen.AbiRegs

/-- Two located values do not clash: their stack bytes do not overlap and they are not in the same register. -/
def NoClash (a b : Arg) : Prop :=
  (∀ oa ob, a.loc = .stack oa → b.loc = .stack ob → oa + a.ty.slotSize ≤ ob ∨ ob + b.ty.slotSize ≤ oa) ∧
  (∀ c r, a.loc = .reg c r → b.loc ≠ .reg c r)

theorem Sep.noClash {a b : Arg} (h : Sep a b) : NoClash a b ∧ NoClash b a :=
  ⟨⟨fun oa ob ha hb => Or.inl (h.1 oa ob ha hb), h.2⟩,
   ⟨fun oa ob ha hb => Or.inr (h.1 ob oa hb ha), fun c r hb ha => h.2 c r ha hb⟩⟩

/-- `abi_locations_injective`, FULL STATEMENT, for EVERY type list (unbounded arity; induction over the
list in `AbiLemmas`) and every pair of duplicate-free register lists: (1) no two values share a register
or overlapping stack bytes; (2) every stack value lies inside `[0, stackSize)`; (3) register values are in
a register of their own class taken from the list; (4) indices and types are those of the signature.
`setABIArgs` is used for parameters and results alike, so this covers both. -/
theorem abi_locations_injective (ints floats : List Nat) (hI : ints.Nodup) (hF : floats.Nodup) (tys : List Ty) :
    (∀ (i j : Nat) (hi : i < (setABIArgs ints floats tys).1.length) (hj : j < (setABIArgs ints floats tys).1.length),
        i ≠ j → NoClash (setABIArgs ints floats tys).1[i] (setABIArgs ints floats tys).1[j]) ∧
    (∀ a ∈ (setABIArgs ints floats tys).1, ∀ o, a.loc = .stack o → o + a.ty.slotSize ≤ (setABIArgs ints floats tys).2) ∧
    (∀ a ∈ (setABIArgs ints floats tys).1, ∀ r, a.loc = .reg true r → a.ty.isInt = true ∧ r ∈ ints) ∧
    (∀ a ∈ (setABIArgs ints floats tys).1, ∀ r, a.loc = .reg false r → a.ty.isInt = false ∧ r ∈ floats) ∧
    (setABIArgs ints floats tys).1.map Arg.index = List.range tys.length ∧
    (setABIArgs ints floats tys).1.map Arg.ty = tys := by
  have hp := assign_pairwise ints floats hI hF tys st0 0
  have hg := assign_good ints floats tys st0 0
  have hx := assign_index_ty ints floats tys st0 0
  simp only [setABIArgs]
  refine ⟨?_, ?_, ?_, ?_, ?_, hx.2⟩
  · intro i j hi hj hne
    rw [List.pairwise_iff_getElem] at hp
    rcases Nat.lt_or_gt_of_ne hne with h | h
    · exact (Sep.noClash (hp i j hi hj h)).1
    · exact (Sep.noClash (hp j i hj hi h)).2
  · intro a ha o ho; exact ((hg.2 a ha).stack o ho).2
  · intro a ha r hr
    obtain ⟨ht, j, _, hj⟩ := (hg.2 a ha).regI r hr
    exact ⟨ht, List.mem_of_getElem? hj⟩
  · intro a ha r hr
    obtain ⟨ht, j, _, hj⟩ := (hg.2 a ha).regF r hr
    exact ⟨ht, List.mem_of_getElem? hj⟩
  · rw [hx.1, List.range_eq_range']

/-- Register-class counts (`ArgIntRealRegs` etc.): exactly `min(list length, number of values of the class)`,
so they never exceed the lists. -/
theorem abi_reg_counts (ints floats : List Nat) (tys : List Ty) :
    ((setABIArgs ints floats tys).1.filter isRegInt).length = min ints.length (countInt tys) ∧
    ((setABIArgs ints floats tys).1.filter isRegFloat).length = min floats.length (countFloat tys) := by
  have h1 := assign_reg_counts ints floats tys st0 0
  have h2 := finalSt_cursors ints floats tys st0 (Nat.zero_le _) (Nat.zero_le _)
  simp only [setABIArgs, st0] at h1 h2 ⊢
  omega

/-- `abi_cliffs`, FULL STATEMENT: in any signature `pre ++ t :: post` the value `t` (index `pre.length`)
goes to the stack exactly when the number of values of its class before it has reached the length of that
class's register list — i.e. the (k+1)-th int/float is on the stack iff k ≥ list length. -/
theorem abi_cliffs (ints floats : List Nat) (pre post : List Ty) (t : Ty) :
    ∃ a, (setABIArgs ints floats (pre ++ t :: post)).1[pre.length]? = some a ∧ a.index = pre.length ∧ a.ty = t ∧
      ((∃ o, a.loc = .stack o) ↔
        (if t.isInt then ints.length ≤ countInt pre else floats.length ≤ countFloat pre)) := by
  have hc := finalSt_cursors ints floats pre st0 (Nat.zero_le _) (Nat.zero_le _)
  simp only [st0, Nat.zero_add] at hc
  refine ⟨⟨pre.length, t, (place ints floats (finalSt ints floats st0 pre) t).1⟩, ?_, rfl, rfl, ?_⟩
  · simp only [setABIArgs, assign_append, assign, Nat.zero_add]
    rw [List.getElem?_append_right (by rw [assign_length]; exact Nat.le_refl _)]
    simp [assign_length]
  · simp only [st0] at *
    rcases place_cases ints floats (finalSt ints floats ⟨0, 0, 0⟩ pre) t with
      ⟨r, ht, he, h⟩ | ⟨ht, he, h⟩ | ⟨r, ht, he, h⟩ | ⟨ht, he, h⟩
    · have hlt : (finalSt ints floats ⟨0, 0, 0⟩ pre).ii < ints.length := by
        rcases List.getElem?_eq_some_iff.mp he with ⟨h', _⟩; exact h'
      simp only [h, ht, if_true]
      constructor
      · rintro ⟨o, ho⟩; simp at ho
      · intro hle; omega
    · have hge : ints.length ≤ (finalSt ints floats ⟨0, 0, 0⟩ pre).ii := by simpa using he
      simp only [h, ht, if_true]
      exact ⟨fun _ => by omega, fun _ => ⟨_, rfl⟩⟩
    · have hlt : (finalSt ints floats ⟨0, 0, 0⟩ pre).fi < floats.length := by
        rcases List.getElem?_eq_some_iff.mp he with ⟨h', _⟩; exact h'
      simp only [h, ht, Bool.false_eq_true, if_false]
      constructor
      · rintro ⟨o, ho⟩; simp at ho
      · intro hle; omega
    · have hge : floats.length ≤ (finalSt ints floats ⟨0, 0, 0⟩ pre).fi := by simpa using he
      simp only [h, ht, Bool.false_eq_true, if_false]
      exact ⟨fun _ => by omega, fun _ => ⟨_, rfl⟩⟩

/-- The regenerated register lists of the real back ends satisfy the hypotheses: no duplicates, the two
classes are disjoint, lengths 9/8 (amd64) and 8/8 (arm64).  (`decide` over the regenerated finite table.) -/
theorem regs_ok :
    amd64IntArgResultRegs.Nodup ∧ amd64FloatArgResultRegs.Nodup ∧
    amd64IntArgResultRegs.length = 9 ∧ amd64FloatArgResultRegs.length = 8 ∧
    (∀ r ∈ amd64IntArgResultRegs, r ∉ amd64FloatArgResultRegs) ∧
    arm64IntArgResultRegs.Nodup ∧ arm64FloatArgResultRegs.Nodup ∧
    arm64IntArgResultRegs.length = 8 ∧ arm64FloatArgResultRegs.length = 8 ∧
    (∀ r ∈ arm64IntArgResultRegs, r ∉ arm64FloatArgResultRegs) := by decide

/-- Non-vacuity of `abi_locations_injective` for the real lists, on a signature crossing both cliffs with
a vector on the stack (evaluation of the model, a test). -/
example :
    (setABIArgs amd64IntArgResultRegs amd64FloatArgResultRegs
      [.i64, .i64, .i32, .i32, .i32, .i32, .i32, .i32, .i32, .i32, .f32, .f32, .f32, .f32, .f32, .f32, .f32, .f32, .v128, .i64]).2 = 32 := by
  decide

/-- The cliff as the property text states it for amd64: a wasm-level signature is compiled with two leading
i64 parameters (execution context, module context); a wasm integer parameter preceded by `k` integer
parameters is passed on the stack iff `k ≥ 7`, a float parameter preceded by `k` floats iff `k ≥ 8`. -/
theorem abi_cliffs_wasm_amd64 (pre post : List Ty) (t : Ty) :
    ∃ a, (setABIArgs amd64IntArgResultRegs amd64FloatArgResultRegs (.i64 :: .i64 :: (pre ++ t :: post))).1[pre.length + 2]?
        = some a ∧ a.index = pre.length + 2 ∧ a.ty = t ∧
      ((∃ o, a.loc = .stack o) ↔ (if t.isInt then 7 ≤ countInt pre else 8 ≤ countFloat pre)) := by
  obtain ⟨a, h1, h2, h3, h4⟩ :=
    abi_cliffs amd64IntArgResultRegs amd64FloatArgResultRegs (.i64 :: .i64 :: pre) post t
  refine ⟨a, by simpa using h1, by simpa using h2, h3, ?_⟩
  rw [h4]
  have hi : amd64IntArgResultRegs.length = 9 := by decide
  have hf : amd64FloatArgResultRegs.length = 8 := by decide
  have c1 : countInt (.i64 :: .i64 :: pre) = countInt pre + 2 := by
    unfold countInt
    rw [List.filter_cons_of_pos (by rfl), List.filter_cons_of_pos (by rfl)]
    simp
  have c2 : countFloat (.i64 :: .i64 :: pre) = countFloat pre := by
    unfold countFloat
    rw [List.filter_cons_of_neg (by decide), List.filter_cons_of_neg (by decide)]
  rw [hi, hf, c1, c2]
  split <;> omega

/-- `FunctionABI.Init`: the four byte counters are the exact counts (no wrap-around of the Go `byte`), hence
never exceed the register lists; both stack sizes bound their values (by `abi_locations_injective`). -/
theorem abi_init_counts (ints floats : List Nat) (hi : ints.length < 256) (hf : floats.length < 256) (ps rs : List Ty) :
    (abiInit ints floats ps rs).argIntRealRegs = min ints.length (countInt ps) ∧
    (abiInit ints floats ps rs).argFloatRealRegs = min floats.length (countFloat ps) ∧
    (abiInit ints floats ps rs).retIntRealRegs = min ints.length (countInt rs) ∧
    (abiInit ints floats ps rs).retFloatRealRegs = min floats.length (countFloat rs) := by
  have hp := abi_reg_counts ints floats ps
  have hr := abi_reg_counts ints floats rs
  simp only [abiInit, hp.1, hp.2, hr.1, hr.2]
  refine ⟨?_, ?_, ?_, ?_⟩ <;> (apply Nat.mod_eq_of_lt; omega)

/-- `AlignedArgResultStackSlotSize`: a multiple of 16 that covers both areas with less than 16 bytes of padding. -/
theorem aligned_slot_size (a : FunctionABI) (s : Nat) (h : a.alignedSlotSize = some s) :
    s % 16 = 0 ∧ a.retStackSize + a.argStackSize ≤ s ∧ s < a.retStackSize + a.argStackSize + 16 := by
  unfold FunctionABI.alignedSlotSize at h
  simp only at h
  split at h
  · simp at h
  · simp only [Option.some.injEq] at h
    omega

/-! ### the Go-call stack view -/

/-- `stackview_bijective`, FULL STATEMENT, every type list: the map (value i, half h) ↦ slot
`slotIndex i + h` used by the trampolines for parameters in and results out, and `slotOwner`, are inverse
to each other, and together cover exactly the slots `[0, totalSlots)` (v128 = 2 slots). -/
theorem stackview_bijective (tys : List Ty) :
    (∀ i h t, tys[i]? = some t → h < t.goSlots →
        slotIndex tys i + h < totalSlots tys ∧ slotOwner tys (slotIndex tys i + h) = some (i, h)) ∧
    (∀ s, s < totalSlots tys →
        ∃ i h t, slotOwner tys s = some (i, h) ∧ tys[i]? = some t ∧ h < t.goSlots ∧ slotIndex tys i + h = s) :=
  ⟨fun i h t ht hh => ⟨slotIndex_lt_total tys i h t ht hh, slotOwner_slotIndex tys i h t ht hh⟩,
   slotOwner_total tys⟩

/-- For host functions (no vectors): slot i is parameter i in and result i out. -/
theorem stackview_identity (tys : List Ty) (hv : ∀ t ∈ tys, t ≠ .v128) (i : Nat) (hi : i ≤ tys.length) :
    slotIndex tys i = i := slotIndex_no_v128 tys hv i hi

/-- Non-vacuity / sample: a vector shifts the following slots by one. -/
example : slotIndex [.i32, .v128, .f64] 2 = 3 ∧ slotOwner [.i32, .v128, .f64] 2 = some (1, 1) ∧
    totalSlots [.i32, .v128, .f64] = 4 := by decide

theorem need_eq_slots (tys : List Ty) :
    (tys.map fun t => if t.size < 8 then 8 else t.size).sum = 8 * totalSlots tys := by
  induction tys with
  | nil => rfl
  | cons t ts ih =>
    simp only [List.map_cons, List.sum_cons, totalSlots] at ih ⊢
    rw [ih]
    cases t <;> simp [Ty.size, Ty.bits, Ty.goSlots] <;> omega

/-- `GoFunctionCallRequiredStackSize`: the unaligned size is exactly 8 × max(parameter slots, result slots)
— the shared slice holds all parameters in and all results out — and the aligned size is its 16-byte round-up. -/
theorem gocall_size_fits (ps rs : List Ty) :
    let r := goCallRequiredStackSize ps rs
    8 * totalSlots ps ≤ r.2 ∧ 8 * totalSlots rs ≤ r.2 ∧ (r.2 = 8 * totalSlots ps ∨ r.2 = 8 * totalSlots rs) ∧
      r.2 ≤ r.1 ∧ r.1 < r.2 + 16 ∧ r.1 % 16 = 0 := by
  simp only [goCallRequiredStackSize, need_eq_slots]
  split <;> omega

end Abi

/-! ## Part 3: slice sizing -/

/-- `Call` allocates (and `CallWithStack` demands) `max(params, results)` slots: both the parameters and
the results fit, and nothing more is required. -/
theorem slice_fits (p r : Nat) : p ≤ sliceSize p r ∧ r ≤ sliceSize p r ∧ (sliceSize p r = p ∨ sliceSize p r = r) := by
  unfold sliceSize
  split <;> omega

/-- The compiler reaches a host function by packing its index into the exit code of the trampoline
(`ExitCodeCallGo[Module]FunctionWithIndex`) and unpacking it in the Go dispatcher (`GoFunctionIndexFromExitCode`):
for every index below 2^24 (host modules hold at most 2^16 functions) and both listener variants the function that
runs is the one that was called.  About the REGENERATED definitions (wazevoapi/exitcode.go). -/
theorem host_function_index_survives_dispatch (i : BitVec 64) (l : Bool) (h : i.toNat < 2 ^ 24) :
    Wz.Gen.CallEngine.GoFunctionIndexFromExitCode (Wz.Gen.CallEngine.ExitCodeCallGoFunctionWithIndex i l) = i ∧
    Wz.Gen.CallEngine.GoFunctionIndexFromExitCode (Wz.Gen.CallEngine.ExitCodeCallGoModuleFunctionWithIndex i l) = i :=
  Wz.Proofs.ExitCode.roundtrip i l h

-- non-vacuity (test on a sample): function 300 of a host module, with a listener
example : Wz.Gen.CallEngine.GoFunctionIndexFromExitCode (Wz.Gen.CallEngine.ExitCodeCallGoFunctionWithIndex 300#64 true) = 300#64 := by decide

end Wz.C08
