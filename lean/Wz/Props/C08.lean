/- C08: property theorems (none yet). -/
namespace Wz.C08
end Wz.C08
