/-
C01, optimizing compiler: the SSA optimisation passes of wazevo preserve the semantics of a function.

Model: `Wz.Model.SsaPass` (a fragment of wazevo's SSA: blocks with parameters, integer instructions over i32/i64,
loads, stores, calls, trapping instructions, branches with block arguments; an executable semantics; the passes
`deadBlockElim`, `redundantPhiElim`, `nopElim`, `dce` with the instruction group ids, mirroring
internal/engine/wazevo/ssa/pass.go).  The tie of the model to the Go code is the harness `harness/cmd/hssa`.

Everything below holds for EVERY function of the fragment that satisfies the decidable check `wellFormed`
(strict SSA of the reachable part, certified by availability sets and ranks; matching arities; the typing the shift
rule needs), for every callee behaviour `w : World`, every argument vector and every amount of fuel: the outcome
(result values or trap code, final memory, trace of calls, or out of fuel) is the same before and after.
-/
import Wz.Proofs.C01_SsaPass_PhiC
import Wz.Proofs.C01_SsaPass_Dce
import Wz.Proofs.C01_SsaPass_Gid
import Wz.Gen.SideEffects
import Wz.Gen.NopElim

namespace Wz.C01
open Wz.Model.SsaPass

/-! ### the side-effect table of the model is the table of the source -/

def ssaOpcodeName : Opcode → String
  | .Iconst => "Iconst" | .Iadd => "Iadd" | .Isub => "Isub" | .Imul => "Imul" | .Band => "Band" | .Bor => "Bor"
  | .Bxor => "Bxor" | .Ishl => "Ishl" | .Ushr => "Ushr" | .Sshr => "Sshr" | .Rotl => "Rotl" | .Rotr => "Rotr"
  | .Icmp => "Icmp" | .Select => "Select" | .Clz => "Clz" | .Ctz => "Ctz" | .Popcnt => "Popcnt"
  | .UExtend => "UExtend" | .SExtend => "SExtend" | .Ireduce => "Ireduce" | .Load => "Load" | .Store => "Store"
  | .Istore8 => "Istore8" | .Istore16 => "Istore16" | .Istore32 => "Istore32" | .Call => "Call"
  | .Udiv => "Udiv" | .Sdiv => "Sdiv" | .Urem => "Urem" | .Srem => "Srem" | .ExitWithCode => "ExitWithCode"
  | .ExitIfTrueWithCode => "ExitIfTrueWithCode" | .Jump => "Jump" | .Brz => "Brz" | .Brnz => "Brnz"
  | .Return => "Return"

def ssaEffName : Eff → String
  | .none => "sideEffectNone" | .traps => "sideEffectTraps" | .strict => "sideEffectStrict"

/-- `sideEffect`, the parameter-free table of the model, agrees on every opcode of the fragment with
`instructionSideEffects` as regenerated from instructions.go. -/
theorem ssa_sideEffect_table_is_source (op : Opcode) :
    (Wz.Gen.SideEffects.table.find? (·.1 == ssaOpcodeName op)).map (·.2) = some (ssaEffName (sideEffect op)) := by
  cases op <;> decide

/-! ### a non-trivial function of the fragment

A counted loop whose header has a parameter that every predecessor passes unchanged (`v7`: the entry passes
`v4`, the back edge passes `v7` itself), a shift by 64 of an i32 value (`v4 = v1 << 64`, a no-op), dead constants,
a store in the loop, a division whose result is unused, and an unreachable block. -/

def ssaExample : Func :=
  { blocks := [
      { id := 0, key := 1, invalid := false, params := [(0, .i64), (1, .i32)],
        instrs := [.iconst 2 .i32 64, .iconst 3 .i32 5, .bin .ishl 4 .i32 1 2, .iconst 5 .i32 3, .jump 1 [5, 4]] },
      { id := 1, key := 6, invalid := false, params := [(6, .i32), (7, .i32)],
        instrs := [.bin .iadd 8 .i32 7 6, .store .store .i32 8 0 0, .iconst 9 .i32 1, .bin .isub 10 .i32 6 9,
                   .brnz 10 1 [10, 7], .jump 2 []] },
      { id := 2, key := 12, invalid := false, params := [],
        instrs := [.div .udiv 11 .i32 7 1 0, .ret [7]] },
      { id := 3, key := 14, invalid := false, params := [],
        instrs := [.iconst 12 .i32 9, .jump 2 []] } ],
    alias := [] }

/-- what the passes make of it: the block parameter, the shift, its amount and the dead constant are gone, the
uses of `v7` and `v4` read `v1`, the unreachable block is invalid, the division stays -/
def ssaExampleOpt : List Block := [
  { id := 0, key := 1, invalid := false, params := [(0, .i64), (1, .i32)],
    instrs := [.iconst 5 .i32 3, .jump 1 [5]] },
  { id := 1, key := 6, invalid := false, params := [(6, .i32)],
    instrs := [.bin .iadd 8 .i32 1 6, .store .store .i32 8 0 0, .iconst 9 .i32 1, .bin .isub 10 .i32 6 9,
               .brnz 10 1 [10], .jump 2 []] },
  { id := 2, key := 12, invalid := false, params := [],
    instrs := [.div .udiv 11 .i32 1 1 0, .ret [1]] },
  { id := 3, key := 14, invalid := true, params := [],
    instrs := [.iconst 12 .i32 9, .jump 2 []] } ]

/-- a callee that leaves the memory alone and returns nothing -/
def ssaWorld : World := { call := fun _ _ m => some (m, []) }

example : wellFormed ssaExample = true := by decide
example : (runPasses ssaExample).blocks = ssaExampleOpt := by decide
example : (dceWithGids (nopElim (redundantPhiElim (deadBlockElim ssaExample)))).map (fun p => p.2.map (·.2)) =
    [[0, 0], [1, 1, 2, 2, 2, 3], [4, 4]] := by decide
/-- three rounds of the loop, three stores, the value of the parameter is returned -/
example : run ssaWorld ssaExample [4096, 5] 10 =
    .values [5] [(4099, 0), (4098, 0), (4097, 0), (4096, 6), (4099, 0), (4098, 0), (4097, 0), (4096, 7),
                 (4099, 0), (4098, 0), (4097, 0), (4096, 8)] [] := by decide
/-- with a zero argument the division traps, after the stores -/
example : run ssaWorld ssaExample [4096, 0] 10 =
    .trap codeDivByZero [(4099, 0), (4098, 0), (4097, 0), (4096, 1), (4099, 0), (4098, 0), (4097, 0), (4096, 2),
                 (4099, 0), (4098, 0), (4097, 0), (4096, 3)] [] := by decide
example : run ssaWorld ssaExample [4096, 5] 3 = .outOfFuel := by decide

/-! ### well-formedness -/

/-- `wellFormed f` is the decidable check `WF` of the function after dead-block elimination against the
certificate computed from it. -/
theorem ssa_wellFormed_spec {f : Func} (h : wellFormed f = true) :
    WF (computeCert (deadBlockElim f)) (deadBlockElim f) := of_decide_eq_true h

theorem ssa_deadBlockElim_ids (f : Func) : (deadBlockElim f).blocks.map (·.id) = f.blocks.map (·.id) := by
  unfold deadBlockElim
  cases reachable f with
  | none => rfl
  | some vis =>
    simp only [List.map_map]
    apply List.map_congr_left
    intro B _
    simp only [Function.comp]
    split <;> rfl

theorem ssa_wellFormed_uniqueIds {f : Func} (h : wellFormed f = true) : UniqueIds f := by
  have := (ssa_wellFormed_spec h).ids
  unfold UniqueIds at this ⊢
  rw [ssa_deadBlockElim_ids] at this
  exact this

/-! ### each pass preserves the semantics -/

/-- **Dead-block elimination** (every function with distinct block ids). -/
theorem ssa_deadBlockElim_sound (w : World) (f : Func) (hu : UniqueIds f) (args : List Nat) (fuel : Nat) :
    run w (deadBlockElim f) args fuel = run w f args fuel :=
  deadBlockElim_sound w f hu args fuel

/-- **Redundant block-parameter elimination**, including the aliasing of the parameter to its unique incoming
value (every function that is well-formed for some certificate). -/
theorem ssa_redundantPhiElim_sound (w : World) (c : Cert) (g : Func) (h : WF c g) (args : List Nat) (fuel : Nat) :
    run w (redundantPhiElim g) args fuel = run w g args fuel :=
  (redundantPhiElim_sound w h).1 args fuel

/-- the step the pass is made of: removing ONE parameter all of whose incoming values are the parameter itself
or one other value -/
theorem ssa_removeParam_sound (w : World) (c : Cert) (g : Func) (h : WF c g) (b : BlockId) (idx : Nat) (p u : Val)
    (pty : Ty) (B : Block) (hB : g.findBlock b = some B) (hb : b ≠ g.entry) (hp : B.params[idx]? = some (p, pty))
    (hred : ∀ a ∈ g.branchArgs b idx, a = p ∨ a = res g.alias u) (args : List Nat) (fuel : Nat) :
    run w (removeParam g b idx p u) args fuel = run w g args fuel :=
  removeParam_run h hB hb hp hred w args fuel

/-- non-vacuity: the second parameter `v7` of the loop header of the example; its incoming values are `v4` (from
the entry) and `v7` itself (from the back edge) -/
example (w : World) (args : List Nat) (fuel : Nat) :
    run w (removeParam (deadBlockElim ssaExample) 1 1 7 4) args fuel = run w (deadBlockElim ssaExample) args fuel :=
  ssa_removeParam_sound w (computeCert (deadBlockElim ssaExample)) (deadBlockElim ssaExample)
    (ssa_wellFormed_spec (by decide)) 1 1 7 4 .i32
    { id := 1, key := 6, invalid := false, params := [(6, .i32), (7, .i32)],
      instrs := [.bin .iadd 8 .i32 7 6, .store .store .i32 8 0 0, .iconst 9 .i32 1, .bin .isub 10 .i32 6 9,
                 .brnz 10 1 [10, 7], .jump 2 []] }
    (by decide) (by decide) (by decide) (by decide) args fuel

/-- **No-op elimination**: aliasing the result of `Ishl/Sshr/Ushr` by a constant multiple of the width to its
first operand. -/
theorem ssa_nopElim_sound (w : World) (c : Cert) (g : Func) (h : WF c g) (args : List Nat) (fuel : Nat) :
    run w (nopElim g) args fuel = run w g args fuel :=
  (nopElim_sound w h).1 args fuel

/-- **Dead-code elimination** driven by the side-effect table (every function whose alias table is in resolved
form; no SSA assumption). -/
theorem ssa_dce_sound (w : World) (g : Func) (h : AliasNF g.alias) (args : List Nat) (fuel : Nat) :
    run w (dce g) args fuel = run w g args fuel :=
  dce_sound w g h args fuel

/-- the passes keep the function well-formed for the same certificate -/
theorem ssa_passes_keep_wellFormed (w : World) (c : Cert) (g : Func) (h : WF c g) :
    WF c (redundantPhiElim g) ∧ WF c (nopElim (redundantPhiElim g)) := by
  have h2 := (redundantPhiElim_sound w h).2
  exact ⟨h2, (nopElim_sound w h2).2⟩

/-- **All passes, one after the other, each in its place in `runPreBlockLayoutPasses`.** -/
theorem ssa_each_pass_sound (w : World) (f : Func) (h : wellFormed f = true) (args : List Nat) (fuel : Nat) :
    run w (deadBlockElim f) args fuel = run w f args fuel ∧
    run w (redundantPhiElim (deadBlockElim f)) args fuel = run w (deadBlockElim f) args fuel ∧
    run w (nopElim (redundantPhiElim (deadBlockElim f))) args fuel =
      run w (redundantPhiElim (deadBlockElim f)) args fuel ∧
    run w (dce (nopElim (redundantPhiElim (deadBlockElim f)))) args fuel =
      run w (nopElim (redundantPhiElim (deadBlockElim f))) args fuel := by
  have hwf := ssa_wellFormed_spec h
  obtain ⟨hw2, hw3⟩ := ssa_passes_keep_wellFormed w _ _ hwf
  exact ⟨ssa_deadBlockElim_sound w f (ssa_wellFormed_uniqueIds h) args fuel,
    ssa_redundantPhiElim_sound w _ _ hwf args fuel,
    ssa_nopElim_sound w _ _ hw2 args fuel,
    ssa_dce_sound w _ ((aliasNF_iff _).mpr hw3.nf) args fuel⟩

/-- **The optimisation passes preserve the semantics**: for every well-formed function of the fragment, every
callee behaviour, every argument vector and every fuel, the function after all passes has the same outcome. -/
theorem ssa_passes_sound (w : World) (f : Func) (h : wellFormed f = true) (args : List Nat) (fuel : Nat) :
    run w (runPasses f) args fuel = run w f args fuel := by
  obtain ⟨h1, h2, h3, h4⟩ := ssa_each_pass_sound w f h args fuel
  unfold runPasses
  rw [h4, h3, h2, h1]

/-- … and the result does not need the alias table any more (every operand has been resolved), as for the
function the back end sees. -/
theorem ssa_passes_sound_without_alias (w : World) (f : Func) (h : wellFormed f = true) (args : List Nat)
    (fuel : Nat) : run w { runPasses f with alias := [] } args fuel = run w f args fuel := by
  have hwf := ssa_wellFormed_spec h
  obtain ⟨_, hw3⟩ := ssa_passes_keep_wellFormed w _ _ hwf
  rw [← ssa_passes_sound w f h args fuel]
  exact dceWith_no_alias w sideEffect _ ((aliasNF_iff _).mpr hw3.nf) args fuel

/-- non-vacuity: the theorem applies to the example, whose passes do all four kinds of change -/
example (w : World) (args : List Nat) (fuel : Nat) :
    run w { blocks := ssaExampleOpt, alias := (runPasses ssaExample).alias } args fuel = run w ssaExample args fuel := by
  have := ssa_passes_sound w ssaExample (by decide) args fuel
  have hb : (runPasses ssaExample) = { blocks := ssaExampleOpt, alias := (runPasses ssaExample).alias } := by
    have : (runPasses ssaExample).blocks = ssaExampleOpt := by decide
    rw [← this]
  rw [← hb]; exact this

/-! ### dead-code elimination and the side-effect table -/

/-- Dead-code elimination is sound for EVERY table that classifies as `sideEffectNone` only what the real table
classifies so. -/
theorem ssa_dce_sound_for_sound_tables (w : World) (tbl : Opcode → Eff) (htbl : SoundTable tbl) (g : Func)
    (h : AliasNF g.alias) (args : List Nat) (fuel : Nat) : run w (dceWith tbl g) args fuel = run w g args fuel :=
  dceWith_sound w tbl g h htbl args fuel

/-- **An instruction whose class is `sideEffectNone` and whose results nobody reads can be removed**: `i` is
removed from every valid block of `g`; no remaining instruction of a valid block reads (after alias resolution)
a result of `i`. -/
theorem ssa_remove_unused_pure_instr (w : World) (g : Func) (h : AliasNF g.alias) (i : Instr)
    (hpure : sideEffect i.opcode = .none)
    (hunused : ∀ j ∈ g.validInstrs, j ≠ i → ∀ o ∈ j.operands, res g.alias o ∉ i.results)
    (args : List Nat) (fuel : Nat) :
    run w { g with blocks := g.blocks.map (fun B =>
        if B.invalid then B
        else { B with instrs := (B.instrs.filter (fun j => decide (j ≠ i))).map (·.mapOperands (res g.alias)) }) }
      args fuel = run w g args fuel := by
  have hsel : Selection g (fun j => decide (j ≠ i)) (· ∉ i.results) :=
    ⟨fun j hj hk o ho => hunused j hj (by simpa using hk) o ho,
     fun j _ hk => by
       have : j = i := by simpa using hk
       subst this
       exact ⟨hpure, fun r hr hn => hn hr⟩⟩
  simp only [run]
  rw [entry_map]
  · exact (runFrom_dce w h hsel fuel _ args St.init St.init ⟨fun _ _ => rfl, rfl, rfl⟩).symm
  · intro B; by_cases hB : B.invalid = true <;> simp [hB]

/-- the table with one entry changed to `sideEffectNone` -/
def ssaTableWithNone (op : Opcode) : Opcode → Eff := fun o => if o = op then .none else sideEffect o

/-- store a value, load it back, return it -/
def ssaStoreLoad : Func :=
  { blocks := [
      { id := 0, key := 1, invalid := false, params := [(0, .i64)],
        instrs := [.iconst 1 .i64 7, .store .store .i64 1 0 0, .load 2 .i64 0 0, .ret [2]] } ],
    alias := [] }

/-- **The table matters (store)**: were `Store` classified `sideEffectNone`, dead-code elimination would remove
the store and the function would return 0 instead of 7. -/
theorem ssa_dce_unsound_if_store_none :
    run ssaWorld (dceWith (ssaTableWithNone .Store) ssaStoreLoad) [4096] 5 ≠ run ssaWorld ssaStoreLoad [4096] 5 := by
  decide

/-- call a function, return a constant -/
def ssaCallOnly : Func :=
  { blocks := [
      { id := 0, key := 1, invalid := false, params := [(0, .i64)],
        instrs := [.call 3 1 [] [], .iconst 1 .i32 1, .ret [1]] } ],
    alias := [] }

/-- **The table matters (call)**: were `Call` classified `sideEffectNone`, a call without results would be
removed and disappear from the trace. -/
theorem ssa_dce_unsound_if_call_none :
    run ssaWorld (dceWith (ssaTableWithNone .Call) ssaCallOnly) [4096] 5 ≠ run ssaWorld ssaCallOnly [4096] 5 := by
  decide

/-- divide by the argument, ignore the quotient -/
def ssaDivOnly : Func :=
  { blocks := [
      { id := 0, key := 1, invalid := false, params := [(0, .i64), (1, .i32)],
        instrs := [.div .udiv 2 .i32 1 1 0, .iconst 3 .i32 1, .ret [3]] } ],
    alias := [] }

/-- **The table matters (trapping instruction)**: were `Udiv` classified `sideEffectNone`, the unused division
would be removed and the trap on a zero divisor with it. -/
theorem ssa_dce_unsound_if_udiv_none :
    run ssaWorld (dceWith (ssaTableWithNone .Udiv) ssaDivOnly) [4096, 0] 5 ≠ run ssaWorld ssaDivOnly [4096, 0] 5 := by
  decide

/-- the real table keeps all three -/
example : run ssaWorld (dce ssaStoreLoad) [4096] 5 = run ssaWorld ssaStoreLoad [4096] 5 ∧
    run ssaWorld (dce ssaCallOnly) [4096] 5 = run ssaWorld ssaCallOnly [4096] 5 ∧
    run ssaWorld (dce ssaDivOnly) [4096, 0] 5 = run ssaWorld ssaDivOnly [4096, 0] 5 := by decide

/-- non-vacuity of `ssa_remove_unused_pure_instr`: the dead constant of the example -/
example : sideEffect (Instr.iconst 3 .i32 5).opcode = .none ∧
    ∀ j ∈ ssaExample.validInstrs, j ≠ Instr.iconst 3 .i32 5 → ∀ o ∈ j.operands,
      res ssaExample.alias o ∉ (Instr.iconst 3 .i32 5).results := by decide

/-! ### the no-op rules -/

/-- **The rule of `passNopInstElimination` is sound for all operand values**: a shift (left, right logical,
right arithmetic) of a value of the shifted type by a constant `c` with `c mod 2^64 mod width = 0` (the constant
may be of either integer type) returns the value. -/
theorem ssa_nop_rule_sound (op : BinOp) (hop : isShift op) (ty cty : Ty) (a c : Nat) (ha : a < 2 ^ ty.bits)
    (hc : c % 2 ^ 64 % ty.bits = 0) : evalBin op ty a (norm cty c) = a :=
  evalBin_shift_zero hop ty ha (amount_zero cty ty c hc)

/-- the condition of the model's rule is the regenerated condition of pass.go (`Wz.Gen.NopElim.fires`) -/
theorem ssa_nop_rule_is_regenerated (ty : Ty) (c : Nat) :
    (c % 2 ^ 64 % ty.bits = 0) ↔ Wz.Gen.NopElim.fires (ty == .i64) (c % 2 ^ 64) = true := by
  cases ty <;> simp [Wz.Gen.NopElim.fires, Wz.Gen.NopElim.mod64, Wz.Gen.NopElim.mod32, Ty.bits]

/-- … and so are the opcodes it applies to -/
theorem ssa_nop_opcodes (op : BinOp) : isShift op ↔ ssaOpcodeName op.opcode ∈ Wz.Gen.NopElim.opcodes := by
  cases op <;> simp [isShift, BinOp.opcode, ssaOpcodeName, Wz.Gen.NopElim.opcodes]

/-- non-vacuity, and the wrong modulus: an i64 shift by 32 is not a no-op, and the rule does not fire -/
example : evalBin .ishl .i64 1 (norm .i64 64) = 1 ∧ evalBin .ishl .i64 1 (norm .i64 32) ≠ 1 ∧
    nopRule ssaExample (.bin .ishl 4 .i32 1 2) = some (4, 1) ∧
    nopRule { ssaExample with blocks := ssaExample.blocks ++
      [{ id := 9, key := 99, invalid := false, params := [], instrs := [.iconst 20 .i64 32] }] }
      (.bin .ishl 21 .i64 0 20) = none := by decide

/-! ### instruction groups -/

/-- **Group-id invariant.**  In the list of the instructions that survive dead-code elimination, each with the
group id `passDeadCodeEliminationOpt` gave it (all valid blocks, in order): two instructions with the same group
id have no `sideEffectStrict` instruction between them, and the earlier of the two is not `sideEffectStrict`. -/
theorem ssa_same_gid_no_strict_between (f : Func) (l1 l2 l3 : List (Instr × Nat)) (a b : Instr × Nat)
    (h : (dceWithGids f).flatMap (·.2) = l1 ++ a :: l2 ++ b :: l3) (hg : a.2 = b.2) :
    sideEffect a.1.opcode ≠ .strict ∧ ∀ k ∈ l2, sideEffect k.1.opcode ≠ .strict :=
  no_strict_between_of_pairwise sideEffect (h ▸ dceWithGids_pairwise f) hg

/-- the same for the numbering itself, before anything is removed, from any start -/
theorem ssa_gids_no_strict_between (is : List Instr) (g0 : Nat) (l1 l2 l3 : List (Instr × Nat)) (a b : Instr × Nat)
    (h : is.zip (gidsFrom sideEffect g0 is) = l1 ++ a :: l2 ++ b :: l3) (hg : a.2 = b.2) :
    sideEffect a.1.opcode ≠ .strict ∧ ∀ k ∈ l2, sideEffect k.1.opcode ≠ .strict :=
  same_gid_no_strict_between sideEffect is g0 (fun _ => true) l1 l2 l3 a b
    (by rw [List.filter_eq_self.mpr (fun _ _ => rfl)]; exact h) hg

/-- non-vacuity: in the loop block of the example the addition and the store share group 1, the constant, the
subtraction and the conditional branch share group 2, the jump is alone in group 3 -/
example : ((dceWithGids (nopElim (redundantPhiElim (deadBlockElim ssaExample)))).flatMap (·.2)).map (·.2) =
    [0, 0, 1, 1, 2, 2, 2, 3, 4, 4] := by decide

end Wz.C01
