import Wz.Gen.Shapes

/-!
# C16 companion: a refused operation leaves the descriptor table as it found it

`fd_renumber` (and every table operation) is a list of steps: checks that may refuse the call with an errno, and
mutations of the table / of host files.  "Descriptors stay valid until closed" needs every refusal to happen before the
first mutation.  Model: steps over any state; execution stops at the first failing check.  If no check comes after a
mutation, a refused run returns the state it was given, for every state and every step list
(`refused_leaves_state_unchanged`); a mutation hoisted above a failing check changes the state although the call is
refused (`mutation_before_check_witness`: seeded change C16-7, `Delete(from)` moved above the test of the target).
The order of error returns and mutations in `FSContext.Renumber` is a regenerated shape: all reachable error returns
precede the first mutation (the `EBADF` after `InsertAt` cannot happen: `InsertAt` fails only for a negative target,
which the first check has refused).
-/

namespace Wz.C16

inductive Step (σ : Type) where
  | check (p : σ → Bool)
  | mutate (f : σ → σ)

/-- (accepted?, state afterwards) -/
def exec {σ : Type} : List (Step σ) → σ → Bool × σ
  | [], s => (true, s)
  | .check p :: rest, s => if p s then exec rest s else (false, s)
  | .mutate f :: rest, s => exec rest (f s)

/-- no check after a mutation -/
def checksFirst {σ : Type} : List (Step σ) → Bool
  | [] => true
  | .check _ :: rest => checksFirst rest
  | .mutate _ :: rest => rest.all fun st => match st with | .mutate _ => true | .check _ => false

theorem exec_mutations_only_accept {σ : Type} (steps : List (Step σ)) (s : σ)
    (h : steps.all (fun st => match st with | .mutate _ => true | .check _ => false) = true) : (exec steps s).1 = true := by
  induction steps generalizing s with
  | nil => rfl
  | cons st rest ih =>
    cases st with
    | check p => simp at h
    | mutate f =>
      simp only [List.all_cons, Bool.true_and] at h
      exact ih (f s) h

/-- **a refused call changes nothing**, for every state, when all checks precede all mutations -/
theorem refused_leaves_state_unchanged {σ : Type} (steps : List (Step σ)) (s : σ)
    (hc : checksFirst steps = true) (hr : (exec steps s).1 = false) : (exec steps s).2 = s := by
  induction steps generalizing s with
  | nil => simp [exec] at hr
  | cons st rest ih =>
    cases st with
    | check p =>
      simp only [exec] at hr ⊢
      by_cases hp : p s
      · simp only [hp, if_true] at hr ⊢
        exact ih s (by simpa [checksFirst] using hc) hr
      · simp [hp]
    | mutate f =>
      simp only [checksFirst] at hc
      have := exec_mutations_only_accept rest (f s) hc
      simp only [exec] at hr
      rw [this] at hr
      exact absurd hr (by decide)

/-- the hoisted mutation: [delete source; check target] on (source present?, target is a pre-open?) -/
theorem mutation_before_check_witness :
    exec [Step.mutate (fun (s : Bool × Bool) => (false, s.2)), Step.check (fun s => !s.2)] (true, true) = (false, (false, true)) := by
  rfl

/-- non-vacuity: check, check, mutate on a refusing state -/
example : checksFirst [Step.check (fun (n : Nat) => n != 3), Step.check (fun n => n < 10), Step.mutate (· + 1)] = true ∧
    exec [Step.check (fun (n : Nat) => n != 3), Step.check (fun n => n < 10), Step.mutate (· + 1)] 3 = (false, 3) := by
  constructor <;> rfl

set_option maxRecDepth 8192 in
/-- the order on the source, regenerated -/
theorem renumber_refuses_before_it_mutates :
    Wz.Gen.Shapes.get "c16.renumber_order" =
      some "ret:EBADF ; ret:ENOTSUP ; ret:ENOTSUP ; mut:Close ; mut:Delete ; mut:InsertAt ; ret:EBADF" := by
  decide

end Wz.C16
