import Wz.Gen.Shapes

/-!
# C16 companion: a path is a sequence of names, not a string

"`to` lies below `from`" (a directory cannot be moved into itself) is a statement about name sequences: `from` is a
proper prefix of `to` component by component.  A test on the joined path STRINGS is a different relation:
`string_prefix_is_not_below_witness` (`dir/e` is a string prefix of `dir/e2`, and `[dir, e]` is not an ancestor of
`[dir, e2]`); `sibling_never_below`: for EVERY base path and every two distinct names, neither child is below the other
- so a rename between siblings must never be refused as a move below itself (seeded change C16-9 refused `e -> e2`).
`dirFS.Rename` applies no such test of its own (it joins both paths and calls the host's rename): regenerated shape.
-/

namespace Wz.C16

/-- `from` is a proper ancestor of `to` -/
def below (from_ to : List String) : Bool := from_.isPrefixOf to && from_.length < to.length

/-- two entries of the same directory are never below one another -/
theorem sibling_never_below (base : List String) (a b : String) : below (base ++ [a]) (base ++ [b]) = false := by
  simp [below]

/-- and a rename onto a sibling whose name merely EXTENDS the source's name is such a rename -/
theorem string_prefix_is_not_below_witness :
    (['d', 'i', 'r', '/', 'e'].isPrefixOf ['d', 'i', 'r', '/', 'e', '2'] = true) ∧ below ["dir", "e"] ["dir", "e2"] = false ∧ below ["dir", "e"] ["dir", "e", "sub"] = true := by
  decide

theorem dirfs_rename_applies_no_test_of_its_own :
    Wz.Gen.Shapes.get "c16.dirfs_rename" = some "from, to = d.join(from), d.join(to) | return rename(from, to)" := by
  decide

end Wz.C16
