/-
C09 — Closing and collecting modules never endangers live ones.

Model: `Wz.Model.Lifetime` (object graph with permanent / registry Go pointers and raw addresses; the
collector as the op `gc keep` for ANY admissible `keep`; wazero's lifecycle ops as the edges the code
creates). Lemmas: `Wz.Proofs.C09_Graph`.

FULL STATEMENT (what the property asks of the model; FALSE on this tree, see `private_table_witness`):
    ∀ kind cache ops,  Ans.dangling ∉ outsW (W.init kind cache false) ops
  i.e. no history of instantiate / pass-a-reference / call / close / drop / gc ever makes a call use a
  collected function record or unmapped code.

PROVED (partial): the statement holds for every history in which each raw address was shadowed by
permanent Go pointers at the moment it was stored (`shadowOk`, an executable flag of the model that the
oracle reports per history). The syntactic discipline "references only enter tables that are
exported/imported and involve the defining instance, or tables/globals of the defining instance"
(`disciplined`) implies `shadowOk` on every history the harness generates (checked by the oracle on
each run: violation `C09:discipline-does-not-imply-shadow`) — that implication is TESTED, not proved
(it needs completeness of the executable reachability, only soundness is proved).
Missing beyond that: the real collector and finalizer timing, `mmap` address reuse (assumed).
-/
import Wz.Proofs.C09_Graph
import Wz.Proofs.C09_Pinned
import Wz.Gen.Cleanup
import Wz.Gen.Shapes

namespace Wz.C09
open Wz.Model.Lifetime

/-- NewRuntime establishes the invariant. -/
theorem init_inv (kind : EngineKind) (cache pin : Bool) : Inv (W.init kind cache pin).g := by
  unfold W.init
  exact prims_preserve_inv _ _ inv_empty

/-- Every operation changes the graph only through primitives, each of which preserves the invariant. -/
theorem step_inv (w : W) (op : Op) (I : Inv w.g) : Inv (stepW w op).1.g := by
  unfold stepW
  exact prims_preserve_inv _ _ I

theorem runW_inv (ops : List Op) : ∀ (w : W), Inv w.g → Inv (runW w ops).g := by
  induction ops with
  | nil => intro w I; exact I
  | cons op ops ih =>
    intro w I
    unfold runW
    rw [List.foldl_cons]
    exact ih _ (step_inv w op I)

/-- **raw_edges_covered_partial** — for all engines, cache settings, model variants and ALL histories
(any interleaving of instantiate, import, reference passing, calls, close of instance / compiled module /
cache / runtime, dropping host references, and collections with any admissible retained set):
if every raw address stored so far was shadowed when stored, then from every entry object (instance,
module engine, function record, compiled module, shared table …) each raw edge x ⇢ y it can reach
through Go pointers is doubled by a Go-pointer path to y.
Partial: the proviso `shadowOk`; see the header. -/
theorem raw_edges_covered_partial (kind : EngineKind) (cache pin : Bool) (ops : List Op) :
    let w := runW (W.init kind cache pin) ops
    w.g.shadowOk = true →
    ∀ a ∈ w.g.entries, ∀ x y, Path w.g.perm a x → (x, y) ∈ w.g.raw → Path w.g.perm a y := by
  intro w hs
  exact (runW_inv ops _ (init_inv kind cache pin)).cov hs

/-- **no_dangling_use_partial** — consequence: whatever a live entry object can reach by following Go
pointers and raw addresses in any order (a call through a table slot, then the callee's module
context, then its code segment …) is live: not collected, not unmapped. -/
theorem no_dangling_use_partial (kind : EngineKind) (cache pin : Bool) (ops : List Op) :
    let w := runW (W.init kind cache pin) ops
    w.g.shadowOk = true →
    ∀ a ∈ w.g.entries, a ∈ w.g.live → ∀ y, Path (w.g.perm ++ w.g.raw) a y → y ∈ w.g.live := by
  intro w hs a ha hl y p
  have I := runW_inv ops _ (init_inv kind cache pin)
  exact live_of_path I hl (perm_path_of_mixed I hs ha p)

/-- The collector model is not too generous: every admissible retained set contains everything
reachable from the host root through Go pointers (so the precise collector is the least admissible
one, and any object the theorems call live is one a correct collector must keep). -/
theorem gc_keeps_reachable (g : G) (keep : List Node) (h : validKeep g keep = true) :
    ∀ y, Path (g.perm ++ g.reg) 0 y → y ∈ keep := by
  intro y p
  simp only [validKeep, Bool.and_eq_true] at h
  obtain ⟨⟨h0, _⟩, hcl⟩ := h
  induction p with
  | refl => exact List.contains_iff_mem.1 h0
  | snoc _ he ih =>
    have := (List.all_eq_true.1 hcl) _ he
    have hl : keep.contains _ = true := List.contains_iff_mem.2 ih
    simp only [hl, Bool.not_true, Bool.false_or] at this
    exact List.contains_iff_mem.1 this

/-- The full statement of the property on the model. -/
def FullStatement (kind : EngineKind) (pin : Bool) : Prop :=
  ∀ ops : List Op, Ans.dangling ∉ outsW (W.init kind false pin) ops

/-- F7: B(1) and A(0) with private tables; A's `ref.func f` is stored in B's private table through the
host; A and its compiled module are closed, the host drops its handles, the (precise) collector runs;
B calls the slot. -/
def f7History : List Op :=
  [.inst 1 none .priv, .inst 0 none .priv, .pass 0 .own 1 (.tab 2), .call 1 (.tab 2) 5,
   .close 0, .closecm 0, .drop 0, .gc, .call 1 (.tab 2) 5]

set_option maxRecDepth 100000 in
/-- **private_table_witness** — the full statement is false for the code as it is (both engines):
the 9-op history above ends in a call through a dangling reference; before the collection the same
call returned 105. -/
theorem private_table_witness :
    ¬ FullStatement .compiler false ∧ ¬ FullStatement .interpreter false ∧
    outsW (W.init .compiler false false) f7History =
      [.ok, .ok, .ok, .val 105, .ok, .ok, .ok, .ok, .dangling] := by
  refine ⟨fun h => h f7History (by decide), fun h => h f7History (by decide), by decide⟩

set_option maxRecDepth 100000 in
/-- the witness is outside the proviso of the partial theorems (the stored address was not shadowed),
and the discipline flags exactly the offending op -/
theorem witness_not_shadowed :
    (runW (W.init .compiler false false) f7History).g.shadowOk = false ∧
    disciplined (runW (W.init .compiler false false) (f7History.take 2)) (.pass 0 .own 1 (.tab 2)) = false := by
  decide

set_option maxRecDepth 100000 in
/-- Finding switch (repaired variant `pinRefs`: the holder of a reference also keeps a Go pointer to the
record): the same history is safe, every raw address stays shadowed (test on the witness, not a
general theorem). -/
theorem witness_repaired :
    outsW (W.init .compiler false true) f7History =
      [.ok, .ok, .ok, .val 105, .ok, .ok, .ok, .ok, .val 105] ∧
    (runW (W.init .compiler false true) f7History).g.shadowOk = true := by
  decide

/-- **pass_shadowed_repaired** — finding switch, repaired variant (`pinRefs`), for ALL worlds and all
reference-passing ops (any source, any destination, whatever happened before): storing a reference never
clears `shadowOk`, provided the primitives of the step passed their guards (`stepOk`, reported by the
oracle per step as `primsok`). So in the repaired variant the only edges that can ever violate the proviso
of `raw_edges_covered_partial` / `no_dangling_use_partial` are the fixed ones laid down by `inst`
(evaluated to be shadowed on every history the harness runs). The as-is variant has no such theorem:
`witness_not_shadowed`. -/
theorem pass_shadowed_repaired (w : W) (hp : w.pinRefs = true) (s d : Nat) (how : How) (wh : Where)
    (hok : stepOk w (.pass s how d wh) = true) :
    (stepW w (.pass s how d wh)).1.g.shadowOk = w.g.shadowOk :=
  pinned_pass_shadowed_aux w hp s d how wh hok

set_option maxRecDepth 100000 in
/-- hypotheses of `pass_shadowed_repaired` are satisfiable by the offending op of the witness -/
example :
    let w := runW (W.init .compiler false true) (f7History.take 2)
    w.pinRefs = true ∧ stepOk w (.pass 0 .own 1 (.tab 2)) = true ∧
    disciplined w (.pass 0 .own 1 (.tab 2)) = false := by
  decide

/-- **close_is_error_not_crash** — a call into a closed instance the host still holds (model of
`FailIfClosed` being evaluated after the function ran): through the host API it is the ordinary
closed error; through any route it never produces a value, it leaves the object graph untouched, and
it can only go wrong if the slot's target has been collected (which `no_dangling_use_partial` excludes
under its proviso). -/
theorem close_is_error_not_crash (w : W) (j x : Nat) (via : Via) (rj : Inst)
    (hf : w.find j = some rj) (hh : rj.held = true) (hc : rj.closed = true) :
    (stepW w (.call j .host x)).2 = Ans.closed ∧
    (∀ n, (stepW w (.call j via x)).2 ≠ Ans.val n) ∧
    (stepW w (.call j via x)).2 ∈ [Ans.closed, Ans.trapTable, Ans.trapUnreachable, Ans.dangling] ∧
    (stepW w (.call j via x)).1.g = w.g := by
  refine ⟨?_, ?_, ?_, ?_⟩
  · simp [stepW, stepPrims, hf, hh, hc]
  · intro n
    cases via <;> simp only [stepW, stepPrims, hf, hh, hc] <;> (repeat' split) <;> simp_all
  · cases via <;> simp only [stepW, stepPrims, hf, hh, hc] <;> (repeat' split) <;> simp_all
  · cases via <;> simp only [stepW, stepPrims, hf, hh, hc] <;> (repeat' split) <;> simp_all [applyPrims]

/-! ### non-vacuity (tests on concrete histories, by evaluation) -/

/-- a history with imports, a shared table, cross-instance references, closes, drops and collections
that satisfies the discipline -/
def goodHistory : List Op :=
  [.inst 0 none .exp, .inst 1 (some 0) (.imp 0), .inst 2 (some 1) .priv,
   .pass 0 .own 1 (.tab 1), .pass 1 .own 0 (.tab 2), .pass 1 .imp 1 .glob, .pass 2 .own 2 (.tab 0),
   .pass 2 .imp 2 (.tab 1),
   .close 0, .closecm 0, .drop 0, .gc, .call 1 (.tab 1) 3, .call 1 (.tab 2) 3, .call 1 .imp 4,
   .call 2 (.tab 1) 7, .close 1, .drop 1, .gc, .call 2 .imp 1, .call 2 (.tab 1) 7]

set_option maxRecDepth 100000 in
/-- the proviso of the partial theorems is met by a non-trivial history: entries exist, raw edges exist,
objects were collected, and the closed-but-reachable exporter still serves calls -/
example :
    let w := runW (W.init .compiler false false) goodHistory
    w.g.shadowOk = true ∧ w.g.raw.length > 10 ∧ w.g.entries.length > 10 ∧
    w.g.live.length < w.g.next ∧
    outsW (W.init .compiler false false) goodHistory =
      [.ok, .ok, .ok, .ok, .ok, .ok, .ok, .ok, .ok, .ok, .ok, .ok, .val 103, .val 203, .val 104,
       .val 207, .ok, .ok, .ok, .val 201, .val 207] := by
  decide

set_option maxRecDepth 100000 in
/-- hypotheses of `close_is_error_not_crash` are satisfiable: instance 0 closed, still held -/
example :
    let w := runW (W.init .interpreter false false) [.inst 0 none .priv, .pass 0 .own 0 (.tab 1), .close 0]
    (∃ r, w.find 0 = some r ∧ r.held = true ∧ r.closed = true) ∧
    (stepW w (.call 0 (.tab 1) 5)).2 = Ans.closed ∧ (stepW w (.call 0 (.tab 0) 5)).2 = Ans.trapTable := by
  decide

set_option maxRecDepth 100000 in
/-- `gc_keeps_reachable` applies to the collector the oracle uses: its retained set is admissible -/
example : validKeep (runW (W.init .compiler false false) (f7History.take 7)).g
    (preciseKeep (runW (W.init .compiler false false) (f7History.take 7)).g) = true := by
  decide


/-! ### what Close releases -/

/-- **Regenerated obligation** (`ModuleInstance.ensureResourcesClosed`): closing an instance releases only what
no code that is still able to run can reach - the close notifier, the system context (file descriptors), the
externally allocated memory buffer's handle and the code closer.  It does not clear tables, globals, the memory
instance, the engine, or the data/element instances: a closed instance's functions still run when a live
instance imported them or holds them in a table (those are the `perm` edges of the model; a seeded change that
nil-ed `DataInstances`/`ElementInstances` "to save memory" made `memory.init` in an imported function read freed
memory). -/
theorem close_releases_only_unreachable_resources :
    Wz.Gen.Cleanup.closedFields = ["m.CloseNotifier", "m.Sys", "mem.expBuffer", "m.CodeCloser"] := by decide


/-- **Regenerated obligation** (wazevo/module_engine.go): when a memory grows, the owner's module context is
refreshed unconditionally - also when the owner is closed: its functions stay callable by instances that imported
them, and they read base and length from that context. -/
theorem memory_grown_refreshes_unconditionally :
    Wz.Gen.Shapes.get "c09.memory_grown" = some "m.putLocalMemory()" := by decide

end Wz.C09
