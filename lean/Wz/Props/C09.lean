/- C09: property theorems (none yet). -/
namespace Wz.C09
end Wz.C09
