/-
C15 — WASI calls are safe for any argument values.

Theorems about the footprint models of `Wz.Model.Wasi` (transcriptions of imports/wasi_snapshot_preview1/*.go
in wrap-around arithmetic; tie B: `hc15` compares errno, exact byte diff and descriptor table of every modelled
function with the real code on boundary grids; tie A: errno/event constants and `MemoryInstance.hasSize` are
regenerated) and of `Wz.Model.DescTable` (internal/descriptor/table.go).

Full statement of the property over the model, for reference:
  for every function fn, argument tuple a, memory m, descriptor table fds, host configuration h:
    (call fn a).err ≠ panic                                           (no_host_index_oob)
    ∧ every region in (call fn a).acc lies inside [0, m.size)          (footprint_in_bounds)
    ∧ every write of (call fn a).writes lies inside designated fn a    (writes_within_designated)
    ∧ the table invariant is preserved                                 (table_inv)
    ∧ (call fn a).alloc ≤ c · m.size + c'                              (table_space_bounded)
Proved below: no_host_index_oob for poll_oneoff (false on the pinned tree: `poll_overflow_witness`, F15; full for the
repaired variant; partial for the as-is variant), args_get/environ_get and the loop-free functions;
footprint_in_bounds for poll_oneoff and the loop-free functions; the shape part of table_inv over all
histories; table_space_bounded_partial (histories without InsertAt) and the witness that InsertAt is unbounded
(`renumber_alloc_witness`, F16).  Not proved (monitored by the harness only): writes_within_designated as a
theorem, footprint_in_bounds of the iovec walks, the bit⇔item part of table_inv.
-/
import Wz.Proofs.C15_PollLoop
import Wz.Proofs.C15_Table

namespace Wz.C15
open Wz.Model Wz.Model.Wasi Wz.Model.DescTable Wz.Gen.Wasi

/-- every region the call was granted by the memory API lies inside the memory -/
def AccInBounds (m : Mem) (r : Res) : Prop := ∀ x ∈ r.acc, x.1 + x.2 ≤ m.size

/-- a one-page memory whose content is all zero (for witnesses and non-vacuity examples) -/
def zeroPage : Mem := { size := 65536, data := #[] }
/-- descriptor table with stdin, stdout, stderr -/
def stdio : Fds := (insertAt (insertAt (insertAt empty Kind.stdin 0).1 Kind.stdout 1).1 Kind.stderr 2).1

/-! ## the memory guard -/

/-- `api.Memory` grants an access exactly when it lies inside the buffer (regenerated `hasSize`). -/
theorem mem_guard_iff (m : Mem) (off cnt : Nat) (ho : off < 4294967296) (hc : cnt < 4294967296)
    (hs : m.size < 9223372036854775808) : m.has off cnt = true ↔ off + cnt ≤ m.size :=
  has_iff m off cnt ho hc hs

example : zeroPage.has 65532 4 = true ∧ zeroPage.has 65533 4 = false := by decide  -- test (samples)

/-! ## poll_oneoff -/

/-- F15: on the pinned tree `nsubscriptions = 2^28` makes `nsubscriptions*48` wrap to 0; both bounds checks pass
on empty buffers and the first loop iteration indexes `inBuf[8]` out of range. -/
theorem poll_overflow_witness :
    (pollOneoff false stdio zeroPage 0 1024 268435456 2048).err = Err.panic := by decide

/-- the same call is rejected with EFAULT by the repaired variant (test, sample) -/
example : (pollOneoff true stdio zeroPage 0 1024 268435456 2048).err = Err.errno ErrnoFault := by decide

/-- no_host_index_oob for poll_oneoff, repaired variant: for ALL argument values, memories and tables. -/
theorem poll_no_host_index_oob (fds : Fds) (m : Mem) (inp out n res : Nat) :
    (pollOneoff true fds m inp out n res).err ≠ Err.panic := by
  by_cases h : n * 48 > 4294967295
  · unfold pollOneoff
    by_cases h0 : n = 0
    · simp [h0, einval]
    · simp [h0, h, efault]
  · exact pollOneoff_no_panic_of_exact true fds m inp out n res (by omega)

/-- no_host_index_oob for poll_oneoff as it is on the pinned tree — partial: only when the byte size of the
subscriptions does not wrap (`n*48 < 2^32`); `poll_overflow_witness` shows the rest is false. -/
theorem poll_no_host_index_oob_partial (fds : Fds) (m : Mem) (inp out n res : Nat) (h : n * 48 < 4294967296) :
    (pollOneoff false fds m inp out n res).err ≠ Err.panic :=
  pollOneoff_no_panic_of_exact false fds m inp out n res h

example : (3 : Nat) * 48 < 4294967296 := by decide  -- the hypothesis is met by ordinary calls

theorem pollAfter_acc (fds : Fds) (inp inLen out outLen n res : Nat) (acc : List (Nat × Nat)) (s0 : PollSt) :
    (pollAfter fds inp inLen out outLen n res acc s0).acc = acc := by
  unfold pollAfter
  repeat' split
  all_goals rfl

theorem in_of_has (m m' : Mem) (off cnt : Nat) (h : ¬ (!m'.has off cnt) = true) (hsz : m'.size = m.size)
    (ho : off < 4294967296) (hc : cnt < 4294967296) (hs : m.size < 9223372036854775808) : off + cnt ≤ m.size := by
  have h' : m'.has off cnt = true := by simpa using h
  have := (has_iff m' off cnt ho hc (by omega)).1 h'
  omega

/-- footprint_in_bounds for poll_oneoff, both variants: the three buffers are inside the memory (or EFAULT). -/
theorem poll_footprint_in_bounds (fixed : Bool) (fds : Fds) (m : Mem) (inp out n res : Nat)
    (hi : inp < 4294967296) (ho : out < 4294967296) (hr : res < 4294967296) (hs : m.size < 9223372036854775808) :
    AccInBounds m (pollOneoff fixed fds m inp out n res) := by
  have w1 : w32 (n * 48) < 4294967296 := by unfold w32; omega
  have w2 : w32 (n * 32) < 4294967296 := by unfold w32; omega
  unfold AccInBounds pollOneoff
  intro x hx
  dsimp only at hx
  repeat' split at hx
  all_goals simp only [pollAfter_acc, List.mem_cons, List.not_mem_nil, or_false] at hx
  all_goals first
    | (rcases hx with h | h | h <;> subst h <;> dsimp only <;> first
        | exact in_of_has m _ _ _ (by assumption) rfl hi w1 hs
        | exact in_of_has m _ _ _ (by assumption) rfl ho w2 hs
        | exact in_of_has m _ _ _ (by assumption) rfl hr (by decide) hs)
    | (rcases hx with h | h <;> subst h <;> dsimp only <;> first
        | exact in_of_has m _ _ _ (by assumption) rfl hi w1 hs
        | exact in_of_has m _ _ _ (by assumption) rfl ho w2 hs)
    | (subst hx; dsimp only; exact in_of_has m _ _ _ (by assumption) rfl hi w1 hs)

example : AccInBounds zeroPage (pollOneoff false stdio zeroPage 1024 4096 3 2048) :=
  poll_footprint_in_bounds false stdio zeroPage 1024 4096 3 2048 (by decide) (by decide) (by decide) (by decide)

/-! ## loop-free functions -/

theorem writeU64_in_bounds (m : Mem) (p v : Nat) (hp : p < 4294967296) (hs : m.size < 9223372036854775808) :
    AccInBounds m (writeU64 m p v) := by
  unfold AccInBounds writeU64
  intro x hx
  split at hx
  · simp at hx
  · simp only [List.mem_cons, List.not_mem_nil, or_false] at hx
    subst hx
    dsimp only
    exact in_of_has m _ _ _ (by assumption) rfl hp (by decide) hs

/-- footprint_in_bounds: clock_res_get, clock_time_get, fd_prestat_get (one 8-byte result). -/
theorem clock_footprint_in_bounds (h : Host) (m : Mem) (id res : Nat) (hr : res < 4294967296)
    (hs : m.size < 9223372036854775808) :
    AccInBounds m (clockResGet h m id res) ∧ AccInBounds m (clockTimeGet h m id res) := by
  constructor
  · unfold clockResGet
    repeat' split
    all_goals first
      | exact writeU64_in_bounds m res _ hr hs
      | (intro x hx; simp at hx)
  · unfold clockTimeGet
    repeat' split
    all_goals first
      | exact writeU64_in_bounds m res _ hr hs
      | (intro x hx; simp at hx)

/-- footprint_in_bounds: args_sizes_get / environ_sizes_get. -/
theorem sizes_footprint_in_bounds (m : Mem) (p1 v1 p2 v2 : Nat) (h1 : p1 < 4294967296) (h2 : p2 < 4294967296)
    (hs : m.size < 9223372036854775808) : AccInBounds m (write2xU32 m p1 v1 p2 v2) := by
  unfold AccInBounds write2xU32
  intro x hx
  dsimp only at hx
  repeat' split at hx
  all_goals simp only [List.mem_cons, List.not_mem_nil, or_false] at hx
  all_goals first
    | (rcases hx with h | h <;> subst h <;> dsimp only <;> first
        | exact in_of_has m _ _ _ (by assumption) rfl h1 (by decide) hs
        | exact in_of_has m _ _ _ (by assumption) rfl h2 (by decide) hs)
    | (subst hx; dsimp only; exact in_of_has m _ _ _ (by assumption) rfl h1 (by decide) hs)

/-- footprint_in_bounds: random_get (the whole requested buffer must be inside the memory). -/
theorem random_footprint_in_bounds (m : Mem) (buf len : Nat) (hb : buf < 4294967296) (hl : len < 4294967296)
    (hs : m.size < 9223372036854775808) : AccInBounds m (randomGet m buf len) := by
  unfold AccInBounds randomGet
  intro x hx
  split at hx
  · simp at hx
  · simp only [List.mem_cons, List.not_mem_nil, or_false] at hx
    subst hx
    dsimp only
    exact in_of_has m _ _ _ (by assumption) rfl hb hl hs

/-- no_host_index_oob: fd_prestat_dir_name — `name[:pathLen]` is guarded by the ENAMETOOLONG check. -/
theorem prestatDirName_no_host_index_oob (h : Host) (fds : Fds) (m : Mem) (fd path pathLen : Nat) :
    (fdPrestatDirName h fds m fd path pathLen).err ≠ Err.panic := by
  unfold fdPrestatDirName
  split
  · simp [ebadf]
  · rename_i name _
    split
    · simp
    · rename_i hlt
      have : w32 name.length ≤ name.length := by unfold w32; omega
      have hle : ¬ pathLen > name.length := by omega
      simp only [hle, if_false]
      split <;> simp [efault]

/-- footprint_in_bounds: fd_prestat_dir_name. -/
theorem prestatDirName_footprint_in_bounds (h : Host) (fds : Fds) (m : Mem) (fd path pathLen : Nat)
    (hp : path < 4294967296) (hl : pathLen < 4294967296) (hs : m.size < 9223372036854775808) :
    AccInBounds m (fdPrestatDirName h fds m fd path pathLen) := by
  unfold AccInBounds fdPrestatDirName
  intro x hx
  repeat' split at hx
  all_goals first
    | (simp at hx; done)
    | (simp only [List.mem_cons, List.not_mem_nil, or_false] at hx
       subst hx
       dsimp only
       exact in_of_has m _ _ _ (by assumption) rfl hp hl hs)

/-- footprint_in_bounds: fd_fdstat_get / fd_filestat_get (result buffer checked before the descriptor). -/
theorem statLike_footprint_in_bounds (fds : Fds) (m : Mem) (fd res size : Nat) (hr : res < 4294967296)
    (hz : size < 4294967296) (hs : m.size < 9223372036854775808) : AccInBounds m (statLike fds m fd res size) := by
  unfold AccInBounds statLike
  intro x hx
  repeat' split at hx
  all_goals first
    | (simp at hx; done)
    | (simp only [List.mem_cons, List.not_mem_nil, or_false] at hx
       subst hx
       dsimp only
       exact in_of_has m _ _ _ (by assumption) rfl hr hz hs)

example : AccInBounds zeroPage (randomGet zeroPage 65000 536) :=
  random_footprint_in_bounds zeroPage 65000 536 (by decide) (by decide) (by decide)

/-! ## descriptor table -/

/-- table_inv, shape part (`len items = 64·len masks`), preserved by every operation for every key
(negative, huge) over all histories. The bit⇔item part is checked on the real table after every operation by
the harness (reflection), not proved. -/
theorem table_inv_shape_partial {α} (ops : List (Op α)) : Shape (applyAll (empty : Table α) ops) :=
  shape_applyAll ops empty shape_empty

example : Shape (applyAll (empty : Table Nat) [.insert 1, .insertAt 2 (-5), .insertAt 3 200, .delete 0, .reset]) :=
  table_inv_shape_partial _

/-- table_space_bounded — partial: histories without `InsertAt` occupy at most 64 slots per `Insert`.
Full statement (false, see `renumber_alloc_witness`): the same bound for every history. -/
theorem table_space_bounded_partial {α} (ops : List (Op α)) (h : ∀ op ∈ ops, Op.isInsertAt op = false) :
    slots (applyAll (empty : Table α) ops) ≤ 64 * countInserts ops := by
  have := space_applyAll ops empty h
  simpa [slots, empty] using this

example : ∀ op ∈ ([.insert 1, .delete 0, .insert 2, .reset] : List (Op Nat)), Op.isInsertAt op = false := by decide

/-- `InsertAt` sizes the table by the key alone. -/
theorem insertAt_slots {α} (t : Table α) (x : α) (k : Int) (hk : 0 ≤ k) (h : Shape t) :
    slots (insertAt t x k).1 = max (slots t) (64 * (k.toNat / 64 + 1)) := slots_insertAt t x k hk h

/-- F16: one `InsertAt` (fd_renumber to 2^31-1) on an empty table occupies 2^31 item slots (16 GiB of pointers). -/
theorem renumber_alloc_witness {α} (x : α) : slots (insertAt (empty : Table α) x 2147483647).1 = 2147483648 := by
  rw [slots_insertAt _ _ _ (by decide) shape_empty]
  simp [slots, empty]

end Wz.C15
