/-
C15 — WASI calls are safe for any argument values.

Theorems about the footprint models of `Wz.Model.Wasi` (transcriptions of imports/wasi_snapshot_preview1/*.go
in wrap-around arithmetic; tie B: `hc15` compares errno, exact byte diff and descriptor table of every modelled
function with the real code on boundary grids; tie A: errno/event constants and `MemoryInstance.hasSize` are
regenerated) and of `Wz.Model.DescTable` (internal/descriptor/table.go).

Full statement of the property over the model, for reference:
  for every function fn, argument tuple a, memory m, descriptor table fds, host configuration h:
    (call fn a).err ≠ panic                                           (no_host_index_oob)
    ∧ every region in (call fn a).acc lies inside [0, m.size)          (footprint_in_bounds)
    ∧ every write of (call fn a).writes lies inside designated fn a    (writes_within_designated)
    ∧ the table invariant is preserved                                 (table_inv)
    ∧ (call fn a).alloc ≤ c · m.size + c'                              (table_space_bounded)
Proved below, first the per-function theorems of the first delivery (kept unchanged), then — "all 46 functions" —
one theorem per statement quantified over the function name in `modelled`, for every argument tuple, memory image,
descriptor table, host configuration and every alternative the host may select:
  all_no_host_panic                       (46; repaired poll_oneoff — F15 witness `poll_overflow_witness`)
  all_writes_in_memory_and_designated     (46; repaired sock_recv PEEK and readv — witnesses `sockRecv_peek_witness` = F61,
                                           `readv_alias_witness` = F62)
  all_failed_call_keeps_table             (46)
  all_alloc_bounded                       (45; fd_renumber is unbounded — `renumber_alloc_witness`, F16)
plus the shape part of table_inv over all histories and table_space_bounded_partial.  Not proved (checked on the real
code only): footprint_in_bounds (`acc`) of the iovec walks and of args_get, the bit⇔item part of table_inv.
-/
import Wz.Proofs.C15_PollLoop
import Wz.Proofs.C15_Table
import Wz.Proofs.C15_Fs2W
import Wz.Proofs.C15_All
import Wz.Proofs.C15_W1
import Wz.Proofs.C15_PollW

namespace Wz.C15
open Wz.Model Wz.Model.Wasi Wz.Model.DescTable Wz.Gen.Wasi

/-- every region the call was granted by the memory API lies inside the memory -/
def AccInBounds (m : Mem) (r : Res) : Prop := ∀ x ∈ r.acc, x.1 + x.2 ≤ m.size

/-- a one-page memory whose content is all zero (for witnesses and non-vacuity examples) -/
def zeroPage : Mem := { size := 65536, data := #[] }
/-- descriptor table with stdin, stdout, stderr -/
def stdio : Fds := (insertAt (insertAt (insertAt empty Kind.stdin 0).1 Kind.stdout 1).1 Kind.stderr 2).1

/-! ## the memory guard -/

/-- `api.Memory` grants an access exactly when it lies inside the buffer (regenerated `hasSize`). -/
theorem mem_guard_iff (m : Mem) (off cnt : Nat) (ho : off < 4294967296) (hc : cnt < 4294967296)
    (hs : m.size < 9223372036854775808) : m.has off cnt = true ↔ off + cnt ≤ m.size :=
  has_iff m off cnt ho hc hs

example : zeroPage.has 65532 4 = true ∧ zeroPage.has 65533 4 = false := by decide  -- test (samples)

/-! ## poll_oneoff -/

/-- F15: on the pinned tree `nsubscriptions = 2^28` makes `nsubscriptions*48` wrap to 0; both bounds checks pass
on empty buffers and the first loop iteration indexes `inBuf[8]` out of range. -/
theorem poll_overflow_witness :
    (pollOneoff false stdio zeroPage 0 1024 268435456 2048).err = Err.panic := by decide

/-- the same call is rejected with EFAULT by the repaired variant (test, sample) -/
example : (pollOneoff true stdio zeroPage 0 1024 268435456 2048).err = Err.errno ErrnoFault := by decide

/-- no_host_index_oob for poll_oneoff, repaired variant: for ALL argument values, memories and tables. -/
theorem poll_no_host_index_oob (fds : Fds) (m : Mem) (inp out n res : Nat) :
    (pollOneoff true fds m inp out n res).err ≠ Err.panic := by
  by_cases h : n * 48 > 4294967295
  · unfold pollOneoff
    by_cases h0 : n = 0
    · simp [h0, einval]
    · simp [h0, h, efault]
  · exact pollOneoff_no_panic_of_exact true fds m inp out n res (by omega)

/-- no_host_index_oob for poll_oneoff as it is on the pinned tree — partial: only when the byte size of the
subscriptions does not wrap (`n*48 < 2^32`); `poll_overflow_witness` shows the rest is false. -/
theorem poll_no_host_index_oob_partial (fds : Fds) (m : Mem) (inp out n res : Nat) (h : n * 48 < 4294967296) :
    (pollOneoff false fds m inp out n res).err ≠ Err.panic :=
  pollOneoff_no_panic_of_exact false fds m inp out n res h

example : (3 : Nat) * 48 < 4294967296 := by decide  -- the hypothesis is met by ordinary calls

theorem pollAfter_acc (fds : Fds) (inp inLen out outLen n res : Nat) (acc : List (Nat × Nat)) (s0 : PollSt) :
    (pollAfter fds inp inLen out outLen n res acc s0).acc = acc := by
  unfold pollAfter
  repeat' split
  all_goals rfl

theorem in_of_has (m m' : Mem) (off cnt : Nat) (h : ¬ (!m'.has off cnt) = true) (hsz : m'.size = m.size)
    (ho : off < 4294967296) (hc : cnt < 4294967296) (hs : m.size < 9223372036854775808) : off + cnt ≤ m.size := by
  have h' : m'.has off cnt = true := by simpa using h
  have := (has_iff m' off cnt ho hc (by omega)).1 h'
  omega

/-- footprint_in_bounds for poll_oneoff, both variants: the three buffers are inside the memory (or EFAULT). -/
theorem poll_footprint_in_bounds (fixed : Bool) (fds : Fds) (m : Mem) (inp out n res : Nat)
    (hi : inp < 4294967296) (ho : out < 4294967296) (hr : res < 4294967296) (hs : m.size < 9223372036854775808) :
    AccInBounds m (pollOneoff fixed fds m inp out n res) := by
  have w1 : w32 (n * 48) < 4294967296 := by unfold w32; omega
  have w2 : w32 (n * 32) < 4294967296 := by unfold w32; omega
  unfold AccInBounds pollOneoff
  intro x hx
  dsimp only at hx
  repeat' split at hx
  all_goals simp only [pollAfter_acc, List.mem_cons, List.not_mem_nil, or_false] at hx
  all_goals first
    | (rcases hx with h | h | h <;> subst h <;> dsimp only <;> first
        | exact in_of_has m _ _ _ (by assumption) rfl hi w1 hs
        | exact in_of_has m _ _ _ (by assumption) rfl ho w2 hs
        | exact in_of_has m _ _ _ (by assumption) rfl hr (by decide) hs)
    | (rcases hx with h | h <;> subst h <;> dsimp only <;> first
        | exact in_of_has m _ _ _ (by assumption) rfl hi w1 hs
        | exact in_of_has m _ _ _ (by assumption) rfl ho w2 hs)
    | (subst hx; dsimp only; exact in_of_has m _ _ _ (by assumption) rfl hi w1 hs)

example : AccInBounds zeroPage (pollOneoff false stdio zeroPage 1024 4096 3 2048) :=
  poll_footprint_in_bounds false stdio zeroPage 1024 4096 3 2048 (by decide) (by decide) (by decide) (by decide)

/-! ## loop-free functions -/

theorem writeU64_in_bounds (m : Mem) (p v : Nat) (hp : p < 4294967296) (hs : m.size < 9223372036854775808) :
    AccInBounds m (writeU64 m p v) := by
  unfold AccInBounds writeU64
  intro x hx
  split at hx
  · simp at hx
  · simp only [List.mem_cons, List.not_mem_nil, or_false] at hx
    subst hx
    dsimp only
    exact in_of_has m _ _ _ (by assumption) rfl hp (by decide) hs

/-- footprint_in_bounds: clock_res_get, clock_time_get, fd_prestat_get (one 8-byte result). -/
theorem clock_footprint_in_bounds (h : Host) (m : Mem) (id res : Nat) (hr : res < 4294967296)
    (hs : m.size < 9223372036854775808) :
    AccInBounds m (clockResGet h m id res) ∧ AccInBounds m (clockTimeGet h m id res) := by
  constructor
  · unfold clockResGet
    repeat' split
    all_goals first
      | exact writeU64_in_bounds m res _ hr hs
      | (intro x hx; simp at hx)
  · unfold clockTimeGet
    repeat' split
    all_goals first
      | exact writeU64_in_bounds m res _ hr hs
      | (intro x hx; simp at hx)

/-- footprint_in_bounds: args_sizes_get / environ_sizes_get. -/
theorem sizes_footprint_in_bounds (m : Mem) (p1 v1 p2 v2 : Nat) (h1 : p1 < 4294967296) (h2 : p2 < 4294967296)
    (hs : m.size < 9223372036854775808) : AccInBounds m (write2xU32 m p1 v1 p2 v2) := by
  unfold AccInBounds write2xU32
  intro x hx
  dsimp only at hx
  repeat' split at hx
  all_goals simp only [List.mem_cons, List.not_mem_nil, or_false] at hx
  all_goals first
    | (rcases hx with h | h <;> subst h <;> dsimp only <;> first
        | exact in_of_has m _ _ _ (by assumption) rfl h1 (by decide) hs
        | exact in_of_has m _ _ _ (by assumption) rfl h2 (by decide) hs)
    | (subst hx; dsimp only; exact in_of_has m _ _ _ (by assumption) rfl h1 (by decide) hs)

/-- footprint_in_bounds: random_get (the whole requested buffer must be inside the memory). -/
theorem random_footprint_in_bounds (m : Mem) (buf len : Nat) (hb : buf < 4294967296) (hl : len < 4294967296)
    (hs : m.size < 9223372036854775808) : AccInBounds m (randomGet m buf len) := by
  unfold AccInBounds randomGet
  intro x hx
  split at hx
  · simp at hx
  · simp only [List.mem_cons, List.not_mem_nil, or_false] at hx
    subst hx
    dsimp only
    exact in_of_has m _ _ _ (by assumption) rfl hb hl hs

/-- no_host_index_oob: fd_prestat_dir_name — `name[:pathLen]` is guarded by the ENAMETOOLONG check. -/
theorem prestatDirName_no_host_index_oob (h : Host) (fds : Fds) (m : Mem) (fd path pathLen : Nat) :
    (fdPrestatDirName h fds m fd path pathLen).err ≠ Err.panic := by
  unfold fdPrestatDirName
  split
  · simp [ebadf]
  · rename_i name _
    split
    · simp
    · rename_i hlt
      have : w32 name.length ≤ name.length := by unfold w32; omega
      have hle : ¬ pathLen > name.length := by omega
      simp only [hle, if_false]
      split <;> simp [efault]

/-- footprint_in_bounds: fd_prestat_dir_name. -/
theorem prestatDirName_footprint_in_bounds (h : Host) (fds : Fds) (m : Mem) (fd path pathLen : Nat)
    (hp : path < 4294967296) (hl : pathLen < 4294967296) (hs : m.size < 9223372036854775808) :
    AccInBounds m (fdPrestatDirName h fds m fd path pathLen) := by
  unfold AccInBounds fdPrestatDirName
  intro x hx
  repeat' split at hx
  all_goals first
    | (simp at hx; done)
    | (simp only [List.mem_cons, List.not_mem_nil, or_false] at hx
       subst hx
       dsimp only
       exact in_of_has m _ _ _ (by assumption) rfl hp hl hs)

/-- footprint_in_bounds: fd_fdstat_get / fd_filestat_get (result buffer checked before the descriptor). -/
theorem statLike_footprint_in_bounds (fds : Fds) (m : Mem) (fd res size : Nat) (hr : res < 4294967296)
    (hz : size < 4294967296) (hs : m.size < 9223372036854775808) : AccInBounds m (statLike fds m fd res size) := by
  unfold AccInBounds statLike
  intro x hx
  repeat' split at hx
  all_goals first
    | (simp at hx; done)
    | (simp only [List.mem_cons, List.not_mem_nil, or_false] at hx
       subst hx
       dsimp only
       exact in_of_has m _ _ _ (by assumption) rfl hr hz hs)

example : AccInBounds zeroPage (randomGet zeroPage 65000 536) :=
  random_footprint_in_bounds zeroPage 65000 536 (by decide) (by decide) (by decide)

/-! ## descriptor table -/

/-- table_inv, shape part (`len items = 64·len masks`), preserved by every operation for every key
(negative, huge) over all histories. The bit⇔item part is checked on the real table after every operation by
the harness (reflection), not proved. -/
theorem table_inv_shape_partial {α} (ops : List (Op α)) : Shape (applyAll (empty : Table α) ops) :=
  shape_applyAll ops empty shape_empty

example : Shape (applyAll (empty : Table Nat) [.insert 1, .insertAt 2 (-5), .insertAt 3 200, .delete 0, .reset]) :=
  table_inv_shape_partial _

/-- table_space_bounded — partial: histories without `InsertAt` occupy at most 64 slots per `Insert`.
Full statement (false, see `renumber_alloc_witness`): the same bound for every history. -/
theorem table_space_bounded_partial {α} (ops : List (Op α)) (h : ∀ op ∈ ops, Op.isInsertAt op = false) :
    slots (applyAll (empty : Table α) ops) ≤ 64 * countInserts ops := by
  have := space_applyAll ops empty h
  simpa [slots, empty] using this

example : ∀ op ∈ ([.insert 1, .delete 0, .insert 2, .reset] : List (Op Nat)), Op.isInsertAt op = false := by decide

/-- `InsertAt` sizes the table by the key alone. -/
theorem insertAt_slots {α} (t : Table α) (x : α) (k : Int) (hk : 0 ≤ k) (h : Shape t) :
    slots (insertAt t x k).1 = max (slots t) (64 * (k.toNat / 64 + 1)) := slots_insertAt t x k hk h

/-- F16: one `InsertAt` (fd_renumber to 2^31-1) on an empty table occupies 2^31 item slots (16 GiB of pointers). -/
theorem renumber_alloc_witness {α} (x : α) : slots (insertAt (empty : Table α) x 2147483647).1 = 2147483648 := by
  rw [slots_insertAt _ _ _ (by decide) shape_empty]
  simp [slots, empty]

/-! ## the remaining 24 functions (`Wz.Model.WasiFs2`): fd_readdir, path_*, fd_*set*, fd_allocate/advise/sync, sock_*,
proc_raise

A call is answered by a list of alternatives (the host file system / the network selects one); every statement
below holds for EVERY alternative, for every argument tuple (any naturals: the dispatcher reduces them to 32 / 64
bits as the ABI does), every memory image, every descriptor table and every host configuration. -/

/-- one constructor of `Fn2`: destructure the argument list and apply the function's lemma -/
macro "fs2_case" hc:ident t:term : tactic =>
  `(tactic| (simp only [call2e] at $hc:ident; split at $hc:ident <;>
      first | (cases $hc:ident; done) | (simp only [Option.some.injEq] at $hc:ident; subst $hc:ident; exact $t)))

theorem w32_lt (x : Nat) : w32 x < 4294967296 := by unfold w32; omega

/-- `Fn2` enumerates exactly the names in `modelled2`, and the by-name dispatcher / region table agree with the
enumerated ones. -/
theorem fn2_names : Fn2.all.map Fn2.name = modelled2 := rfl

theorem call2_by_name (fixedRecv fixedRead : Bool) (h : Host) (fds : Fds) (m : Mem) (f : Fn2) (a : List Nat) :
    call2 fixedRecv fixedRead h fds m f.name a = call2e fixedRecv fixedRead h fds m f a := by cases f <;> rfl

theorem designated_by_name (h : Host) (m : Mem) (f : Fn2) (a : List Nat) :
    designated h m f.name a = designated2e m f a := by
  cases f <;> simp [designated, Fn2.all, Fn2.name]

/-- All of `Safe` at once, for both variants of sock_recv (the F61 defect is about WHERE it writes, not about
host safety): no alternative is a host panic, every write lies inside the memory, an alternative that does not
answer errno 0 leaves the descriptor table untouched, and the predicted host allocation is ≤ 512 bytes. -/
theorem wasi_call_safe (fixedRecv fixedRead : Bool) (h : Host) (hh : HostNamesOk h) (fds : Fds) (m : Mem) (hb : Bytes m)
    (hs : m.size < 9223372036854775808) (f : Fn2) (a : List Nat) (rs : List Res)
    (hc : call2e fixedRecv fixedRead h fds m f a = some rs) : ∀ r ∈ rs, Safe m r := by
  cases f
  case fd_readdir => fs2_case hc (fdReaddir_safe h hh m fds _ _ _ _ _ (w32_lt _) (w32_lt _) (w32_lt _) hs)
  case path_open => fs2_case hc (pathOpen_safe m fds _ _ _ _ _ (w32_lt _) hs)
  case path_filestat_get => fs2_case hc (pathFilestatGet_safe m fds _ _ _ _ (w32_lt _) hs)
  case path_readlink => fs2_case hc (pathReadlink_safe m fds _ _ _ _ _ _ (w32_lt _) hs)
  case fd_fdstat_set_flags => fs2_case hc (fdFdstatSetFlags_safe m fds _ _)
  case fd_filestat_set_size => fs2_case hc (fdFilestatSetSize_safe m fds _)
  case fd_filestat_set_times => fs2_case hc (fdFilestatSetTimes_safe m fds _ _)
  case path_filestat_set_times => fs2_case hc (pathFilestatSetTimes_safe m fds _ _ _ _)
  case fd_allocate => fs2_case hc (fdAllocate_safe m fds _ _ _)
  case fd_advise => fs2_case hc (fdAdvise_safe m fds _ _)
  case fd_datasync => fs2_case hc (fdSyncLike_safe m fds _)
  case fd_sync => fs2_case hc (fdSyncLike_safe m fds _)
  case fd_fdstat_set_rights => fs2_case hc (allSafe_rE m enosys (by decide))
  case path_create_directory => fs2_case hc (pathOp_safe m fds _ _ _)
  case path_remove_directory => fs2_case hc (pathOp_safe m fds _ _ _)
  case path_unlink_file => fs2_case hc (pathOp_safe m fds _ _ _)
  case path_rename => fs2_case hc (pathOp2_safe m fds _ _ _ _ _ _)
  case path_symlink => fs2_case hc (pathSymlink_safe m fds _ _ _ _ _)
  case path_link => fs2_case hc (pathOp2_safe m fds _ _ _ _ _ _)
  case sock_accept => fs2_case hc (sockAccept_safe m fds _ _ (w32_lt _) hs)
  case sock_recv => fs2_case hc (sockRecv_safe _ _ m hb fds _ _ _ _ _ _ (w32_lt _) (w32_lt _) hs)
  case sock_send => fs2_case hc (sockSend_safe m fds _ _ _ _ _ (w32_lt _) hs)
  case sock_shutdown => fs2_case hc (sockShutdown_safe m fds _ _)
  case proc_raise => fs2_case hc (allSafe_rE m enosys (by decide))

/-- one constructor of `Fn2`, for the region statement -/
macro "fs2_wcase" hc:ident t:term : tactic =>
  `(tactic| (simp only [call2e] at $hc:ident; split at $hc:ident <;>
      first | (cases $hc:ident; done)
            | (simp only [Option.some.injEq] at $hc:ident; subst $hc:ident
               simp only [designated2e, List.map]; exact $t)))

/-- writes_within_designated, repaired variant of sock_recv: every write of every alternative lies inside the
regions the signature designates (`designated`, the table the harness monitor uses, compared with spec.go on every
generated case).  `m.size ≤ 2^32` is the wasm32 limit. -/
theorem wasi_writes_within_designated (h : Host) (hh : HostNamesOk h) (fds : Fds) (m : Mem)
    (hm : m.size ≤ 4294967296) (f : Fn2) (a : List Nat) (rs : List Res)
    (hc : call2e true true h fds m f a = some rs) :
    ∀ r ∈ rs, ∀ w ∈ r.writes, Wr.within w (designated2e m f (a.map w32)) := by
  show Within rs _
  cases f
  case fd_readdir => fs2_wcase hc (fdReaddir_within h hh fds m _ _ _ _ _ (w32_lt _))
  case path_open => fs2_wcase hc (pathOpen_within fds m _ _ _ _ _)
  case path_filestat_get => fs2_wcase hc (pathFilestatGet_within fds m _ _ _ _)
  case path_readlink => fs2_wcase hc (pathReadlink_within fds m _ _ _ _ _ _)
  case fd_fdstat_set_flags => fs2_wcase hc (fdFdstatSetFlags_within fds _ _ _)
  case fd_filestat_set_size => fs2_wcase hc (fdFilestatSetSize_within fds _ _)
  case fd_filestat_set_times => fs2_wcase hc (fdFilestatSetTimes_within fds _ _ _)
  case path_filestat_set_times => fs2_wcase hc (pathFilestatSetTimes_within fds m _ _ _ _ _)
  case fd_allocate => fs2_wcase hc (fdAllocate_within fds _ _ _ _)
  case fd_advise => fs2_wcase hc (fdAdvise_within fds _ _ _)
  case fd_datasync => fs2_wcase hc (fdSyncLike_within fds _ _)
  case fd_sync => fs2_wcase hc (fdSyncLike_within fds _ _)
  case fd_fdstat_set_rights => fs2_wcase hc (within_rE _ _)
  case path_create_directory => fs2_wcase hc (pathOp_within fds m _ _ _ _)
  case path_remove_directory => fs2_wcase hc (pathOp_within fds m _ _ _ _)
  case path_unlink_file => fs2_wcase hc (pathOp_within fds m _ _ _ _)
  case path_rename => fs2_wcase hc (pathOp2_within fds m _ _ _ _ _ _ _)
  case path_symlink => fs2_wcase hc (pathSymlink_within fds m _ _ _ _ _ _)
  case path_link => fs2_wcase hc (pathOp2_within fds m _ _ _ _ _ _ _)
  case sock_accept => fs2_wcase hc (sockAccept_within fds m _ _)
  case sock_recv => fs2_wcase hc (sockRecv_within fds m _ _ _ _ _ _ (w32_lt _) hm)
  case sock_send => fs2_wcase hc (sockSend_within fds m _ _ _ _ _)
  case sock_shutdown => fs2_wcase hc (sockShutdown_within fds _ _ _)
  case proc_raise => fs2_wcase hc (within_rE _ _)

/-! ### the same statements by function name, through the dispatcher `call` of all 46 functions -/

theorem modelled2_enumerated (fn : String) (hfn : fn ∈ modelled2) : ∃ f : Fn2, f.name = fn := by
  unfold modelled2 at hfn
  obtain ⟨f, _, hf⟩ := List.mem_map.1 hfn
  exact ⟨f, hf⟩

theorem call_by_name (fixed fixedRecv fixedRead : Bool) (h : Host) (fds : Fds) (m : Mem) (f : Fn2) (a : List Nat) :
    call fixed fixedRecv fixedRead h fds m f.name a = call2e fixedRecv fixedRead h fds m f a := by
  have h1 : call1 fixed fixedRead h fds m f.name a = none := by cases f <;> simp [call1, Fn2.name, Fn1.all, Fn1.name]
  unfold call
  rw [h1, call2_by_name]

/-- no_host_index_oob for every function of `modelled2`: no alternative is a Go runtime error. -/
theorem wasi_no_host_panic (fixed fixedRecv fixedRead : Bool) (h : Host) (hh : HostNamesOk h) (fds : Fds) (m : Mem)
    (hb : Bytes m) (hs : m.size < 9223372036854775808) (fn : String) (hfn : fn ∈ modelled2) (a : List Nat)
    (rs : List Res) (hc : call fixed fixedRecv fixedRead h fds m fn a = some rs) : ∀ r ∈ rs, r.err ≠ Err.panic := by
  obtain ⟨f, rfl⟩ := modelled2_enumerated fn hfn
  rw [call_by_name] at hc
  exact fun r hr => (wasi_call_safe fixedRecv fixedRead h hh fds m hb hs f a rs hc r hr).noPanic

/-- writes never extend beyond the memory. -/
theorem wasi_writes_in_memory (fixed fixedRecv fixedRead : Bool) (h : Host) (hh : HostNamesOk h) (fds : Fds) (m : Mem)
    (hb : Bytes m) (hs : m.size < 9223372036854775808) (fn : String) (hfn : fn ∈ modelled2) (a : List Nat)
    (rs : List Res) (hc : call fixed fixedRecv fixedRead h fds m fn a = some rs) :
    ∀ r ∈ rs, ∀ w ∈ r.writes, w.len = 0 ∨ w.off + w.len ≤ m.size := by
  obtain ⟨f, rfl⟩ := modelled2_enumerated fn hfn
  rw [call_by_name] at hc
  exact fun r hr => (wasi_call_safe fixedRecv fixedRead h hh fds m hb hs f a rs hc r hr).inMem

/-- a call that does not answer errno 0 (an errno, or "any"/"nz" of the host) leaves the descriptor table as it
was; no exception among these 24 functions (path_open that fails with EFAULT inserts and closes the new
descriptor again: the entries are the same). -/
theorem wasi_failed_call_keeps_table (fixed fixedRecv fixedRead : Bool) (h : Host) (hh : HostNamesOk h) (fds : Fds) (m : Mem)
    (hb : Bytes m) (hs : m.size < 9223372036854775808) (fn : String) (hfn : fn ∈ modelled2) (a : List Nat)
    (rs : List Res) (hc : call fixed fixedRecv fixedRead h fds m fn a = some rs) :
    ∀ r ∈ rs, r.err ≠ Err.errno 0 → r.fds = none := by
  obtain ⟨f, rfl⟩ := modelled2_enumerated fn hfn
  rw [call_by_name] at hc
  exact fun r hr => (wasi_call_safe fixedRecv fixedRead h hh fds m hb hs f a rs hc r hr).table

/-- the host allocation the model predicts is bounded by a linear function of the guest memory size (here even a
constant: one growth step of the descriptor table, 64 slots of 8 bytes). -/
theorem wasi_alloc_bounded (fixed fixedRecv fixedRead : Bool) (h : Host) (hh : HostNamesOk h) (fds : Fds) (m : Mem)
    (hb : Bytes m) (hs : m.size < 9223372036854775808) (fn : String) (hfn : fn ∈ modelled2) (a : List Nat)
    (rs : List Res) (hc : call fixed fixedRecv fixedRead h fds m fn a = some rs) : ∀ r ∈ rs, r.alloc ≤ 512 + 0 * m.size := by
  obtain ⟨f, rfl⟩ := modelled2_enumerated fn hfn
  rw [call_by_name] at hc
  intro r hr
  have := (wasi_call_safe fixedRecv fixedRead h hh fds m hb hs f a rs hc r hr).alloc
  omega

/-- writes_within_designated by name (repaired sock_recv). -/
theorem wasi_writes_within_designated_by_name (fixed : Bool) (h : Host) (hh : HostNamesOk h) (fds : Fds) (m : Mem)
    (hm : m.size ≤ 4294967296) (fn : String) (hfn : fn ∈ modelled2) (a : List Nat) (rs : List Res)
    (hc : call fixed true true h fds m fn a = some rs) :
    ∀ r ∈ rs, ∀ w ∈ r.writes, Wr.within w (designated h m fn (a.map w32)) := by
  obtain ⟨f, rfl⟩ := modelled2_enumerated fn hfn
  rw [call_by_name] at hc
  rw [designated_by_name]
  exact wasi_writes_within_designated h hh fds m hm f a rs hc

/-! ### F61 and non-vacuity -/

/-- an accepted connection at 4 besides stdio -/
def connFds : Fds := (insertAt stdio Kind.conn 4).1
/-- a memory whose first iovec names the 16 bytes at 256 -/
def iovPage : Mem := { size := 65536, data := #[0, 1, 0, 0, 16, 0, 0, 0] }

/-- F61: on the pinned tree sock_recv with RI_RECV_PEEK and ri_data_len = 0 has an alternative (data is waiting)
that writes the 16 bytes at 256 named by the bytes at ri_data — outside the designated regions, which for
ri_data_len = 0 are only the two result cells. -/
theorem sockRecv_peek_witness :
    ∃ r ∈ sockRecv false false connFds iovPage 4 0 0 1 16640 16704, ∃ w ∈ r.writes,
      ¬ Wr.within w (designated2e iovPage Fn2.sock_recv [4, 0, 0, 1, 16640, 16704]) := by
  have hmap : (sockRecv false false connFds iovPage 4 0 0 1 16640 16704).map (·.writes) =
      [[], [Wr.region 256 16, Wr.region 16640 4, Wr.bytes 16704 [0, 0]]] := by decide
  have hin : [Wr.region 256 16, Wr.region 16640 4, Wr.bytes 16704 [0, 0]] ∈
      (sockRecv false false connFds iovPage 4 0 0 1 16640 16704).map (·.writes) := by rw [hmap]; simp
  obtain ⟨r, hr, hrw⟩ := List.mem_map.1 hin
  refine ⟨r, hr, Wr.region 256 16, by rw [hrw]; simp, ?_⟩
  intro hw
  obtain ⟨r, hr, h1, h2⟩ := hw 256 (by decide) (by decide)
  simp only [designated2e, iovRegions, List.nil_append, List.mem_cons, List.not_mem_nil, or_false] at hr
  rcases hr with rfl | rfl
  · simp at h1
  · simp at h1

/-- a memory whose iovec array at 0 has two entries: the buffer of the first (8, 8) IS the second entry, which
names (3000, 4) when the call starts -/
def aliasPage : Mem := { size := 65536, data := #[8, 0, 0, 0, 8, 0, 0, 0, 184, 11, 0, 0, 4, 0, 0, 0] }
/-- a host whose stdin delivers the bytes of the iovec (4096, 4) followed by "ABCD" -/
def aliasHost : Host := { stdin := [0, 16, 0, 0, 4, 0, 0, 0, 65, 66, 67, 68] }

/-- F62: on the pinned tree `readv` reads every iovec from the live memory: the 8 bytes read into the first buffer
replace the second entry, and the next 4 bytes go to 4096 — a place that the iovec array named at call time
(`designated`: (8,8), (3000,4), the result cell) does not contain.  The data, not the arguments, decide. -/
theorem readv_alias_witness :
    Wr.bytes 4096 [65, 66, 67, 68] ∈ (fdRead false aliasHost stdio aliasPage 0 0 2 16576).writes ∧
    ¬ Wr.within (Wr.bytes 4096 [65, 66, 67, 68]) (designated1e aliasHost aliasPage Fn1.fd_read [0, 0, 2, 16576]) := by
  refine ⟨by decide, ?_⟩
  intro hw
  obtain ⟨r, hr, h1, h2⟩ := hw 4096 (by decide) (by decide)
  have hd : designated1e aliasHost aliasPage Fn1.fd_read [0, 0, 2, 16576] = [(8, 8), (3000, 4), (16576, 4)] := by
    decide
  rw [hd] at hr
  simp only [List.mem_cons, List.not_mem_nil, or_false] at hr
  rcases hr with rfl | rfl | rfl <;> simp at h1 h2 <;> omega

/-- the repaired `readv` (iovec array copied at the start) fills the two buffers named at call time (test, sample) -/
example : (fdRead true aliasHost stdio aliasPage 0 0 2 16576).writes =
    [Wr.bytes 8 [0, 16, 0, 0, 4, 0, 0, 0], Wr.bytes 3000 [65, 66, 67, 68], Wr.bytes 16576 [12, 0, 0, 0]] := by decide

/-- the repaired variant answers ro_datalen = 0 and writes nothing else (test, sample) -/
example : (sockRecv true true connFds iovPage 4 0 0 1 16640 16704).map (·.writes) =
    [[Wr.bytes 16640 [0, 0, 0, 0], Wr.bytes 16704 [0, 0]]] := by decide

/-- the hypotheses are met by ordinary states: a memory of bytes, a host with short names -/
example : Bytes iovPage := by
  intro a
  unfold Mem.get iovPage
  by_cases h : a < 8
  · have : a = 0 ∨ a = 1 ∨ a = 2 ∨ a = 3 ∨ a = 4 ∨ a = 5 ∨ a = 6 ∨ a = 7 := by omega
    rcases this with rfl | rfl | rfl | rfl | rfl | rfl | rfl | rfl <;> decide
  · simp [Array.getD, h]
example : HostNamesOk { preEntries := [1, 5, 4], dirEntries := [1] } := by unfold HostNamesOk; decide
example : "fd_readdir" ∈ modelled2 ∧ "sock_recv" ∈ modelled2 ∧ modelled2.length = 24 := by decide

/-- descriptor table of the harness state `dir`: stdio, the pre-opened directory, a file, a directory -/
def dirFds : Fds := (insertAt (insertAt (insertAt stdio Kind.pre 3).1 Kind.file 4).1 Kind.dir 5).1

/-- non-vacuity of the dispatcher: fd_readdir of the sub-directory (".", "..", "g") into a 256-byte buffer writes
76 bytes and bufused = 76; path_open has a successful alternative that hands out descriptor 6 (tests, samples) -/
example : (call true true true { preEntries := [1, 5, 4], dirEntries := [1] } dirFds zeroPage "fd_readdir" [5, 8192, 256, 0, 16384]).map
      (fun rs => rs.map (fun r => (r.err, r.writes)))
    = some [(Err.errno 0, [Wr.region 8192 76, Wr.bytes 16384 [76, 0, 0, 0]])] := by decide
/-- with the names known the dirents themselves are predicted: d_next = 1, 2, 3, d_namlen, d_type = directory,
directory, regular file, and the names ".", "..", "g" (test, sample) -/
example : (call true true true { dirEntries := [1], dirNames := [([103], 4)] } dirFds zeroPage "fd_readdir" [5, 8192, 256, 0, 16384]).map
      (fun rs => rs.map (fun r => (r.err, r.writes.length, r.writes.getLast?)))
    = some [(Err.errno 0, 11, some (Wr.bytes 16384 [76, 0, 0, 0]))] := by decide
example : ((pathOpen dirFds zeroPage 3 2048 0 0 16384).map (fun r => (r.err, r.writes))) =
    [(Err.errno 28, [])] := by decide   -- path_len = 0: EINVAL

/-! ## all 46 functions: one theorem per statement, quantified over the function name in `modelled`

`modelled = modelled1 ++ modelled2`; the first batch has one alternative per call.  Proved for all 46: no host panic
(repaired poll_oneoff; `HostArgsOk`: the sizes of the host's argument and environment lists fit 32 bits), failed
call keeps the table, allocation bounded (all but fd_renumber = F16, `renumber_alloc_witness`).  The two statements
about WHERE a call writes are proved for the 24 functions of the second batch only (above); for the first batch they
are checked on the real code by the harness (exact byte diff against the model; designated regions). -/

theorem call1_by_name (fixed : Bool) (h : Host) (fds : Fds) (m : Mem) (f : Fn1) (a : List Nat) :
    call1 fixed fixedRead h fds m f.name a = call1e fixed fixedRead h fds m f a := by
  cases f <;> simp [call1, Fn1.all, Fn1.name]

theorem call2_of_fn1 (fixedRecv fixedRead : Bool) (h : Host) (fds : Fds) (m : Mem) (f : Fn1) (a : List Nat) :
    call2 fixedRecv fixedRead h fds m f.name a = none := by
  cases f <;> simp [call2, Fn2.all, Fn2.name, Fn1.name]

theorem modelled1_enumerated (fn : String) (hfn : fn ∈ modelled1) : ∃ f : Fn1, f.name = fn := by
  unfold modelled1 at hfn
  obtain ⟨f, _, hf⟩ := List.mem_map.1 hfn
  exact ⟨f, hf⟩

theorem call_fn1 (fixed fixedRecv fixedRead : Bool) (h : Host) (fds : Fds) (m : Mem) (f : Fn1) (a : List Nat) (rs : List Res)
    (hc : call fixed fixedRecv fixedRead h fds m f.name a = some rs) : ∃ r, call1e fixed fixedRead h fds m f a = some r ∧ rs = [r] := by
  unfold call at hc
  rw [call1_by_name] at hc
  split at hc
  · rename_i r hr
    exact ⟨r, hr, by simpa using hc.symm⟩
  · rw [call2_of_fn1] at hc
    cases hc

/-- no host panic, first batch (repaired poll_oneoff) -/
theorem call1e_no_host_panic (h : Host) (ha : HostArgsOk h) (fds : Fds) (m : Mem) (f : Fn1) (a : List Nat) (r : Res)
    (hc : call1e true fixedRead h fds m f a = some r) : r.err ≠ Err.panic := by
  cases f
  case poll_oneoff => fs1_case hc (poll_no_host_index_oob _ _ _ _ _ _)
  case fd_read => fs1_case hc (fdRead_ne_panic _ _ _ _ _ _ _ _)
  case fd_pread => fs1_case hc (fdPread_ne_panic _ _ _ _ _ _ _)
  case fd_write => fs1_case hc (fdWrite_ne_panic _ _ _ _ _ _)
  case fd_pwrite => fs1_case hc (fdPwrite_ne_panic _ _ _ _ _ _)
  case args_get => fs1_case hc (writeOffsetsAndValues_ne_panic _ _ _ _ ha.1 ha.2.1)
  case environ_get => fs1_case hc (writeOffsetsAndValues_ne_panic _ _ _ _ ha.2.2.1 ha.2.2.2)
  case args_sizes_get => fs1_case hc (write2xU32_ne_panic _ _ _ _ _)
  case environ_sizes_get => fs1_case hc (write2xU32_ne_panic _ _ _ _ _)
  case clock_res_get => fs1_case hc (clockResGet_ne_panic _ _ _ _)
  case clock_time_get => fs1_case hc (clockTimeGet_ne_panic _ _ _ _)
  case random_get => fs1_case hc (randomGet_ne_panic _ _ _)
  case fd_prestat_get => fs1_case hc (fdPrestatGet_ne_panic _ _ _ _ _)
  case fd_prestat_dir_name => fs1_case hc (prestatDirName_no_host_index_oob _ _ _ _ _ _)
  case fd_renumber => fs1_case hc (renumber_ne_panic _ _ _ _)
  case fd_close => fs1_case hc (fdClose_ne_panic _ _)
  case fd_fdstat_get => fs1_case hc (statLike_ne_panic _ _ _ _ _)
  case fd_filestat_get => fs1_case hc (statLike_ne_panic _ _ _ _ _)
  case fd_seek => fs1_case hc (seekLike_ne_panic _ _ _ _)
  case fd_tell => fs1_case hc (seekLike_ne_panic _ _ _ _)
  case proc_exit => fs1_case hc (by simp)
  case sched_yield => fs1_case hc (by simp)

/-- **no_host_index_oob, all 46 functions**: whatever the arguments, the memory image and the descriptor table, no
alternative of any call is a Go runtime error in the host (repaired poll_oneoff, either variant of sock_recv). -/
theorem all_no_host_panic (fixedRecv fixedRead : Bool) (h : Host) (hh : HostNamesOk h) (ha : HostArgsOk h) (fds : Fds) (m : Mem)
    (hb : Bytes m) (hs : m.size < 9223372036854775808) (fn : String) (hfn : fn ∈ modelled) (a : List Nat)
    (rs : List Res) (hc : call true fixedRecv fixedRead h fds m fn a = some rs) : ∀ r ∈ rs, r.err ≠ Err.panic := by
  unfold modelled at hfn
  rcases List.mem_append.1 hfn with h1 | h2
  · obtain ⟨f, rfl⟩ := modelled1_enumerated fn h1
    obtain ⟨r, hr, rfl⟩ := call_fn1 true fixedRecv fixedRead h fds m f a rs hc
    intro r' hr'
    simp only [List.mem_cons, List.not_mem_nil, or_false] at hr'
    subst hr'
    exact call1e_no_host_panic h ha fds m f a _ hr
  · exact wasi_no_host_panic true fixedRecv fixedRead h hh fds m hb hs fn h2 a rs hc

/-- **descriptor table, all 46 functions**: an alternative that does not answer errno 0 leaves the descriptor table
as it was (no exception; proc_exit, which closes everything, answers `exit`, and its model leaves the table to the
engine). -/
theorem all_failed_call_keeps_table (fixed fixedRecv fixedRead : Bool) (h : Host) (hh : HostNamesOk h) (fds : Fds) (m : Mem)
    (hb : Bytes m) (hs : m.size < 9223372036854775808) (fn : String) (hfn : fn ∈ modelled) (a : List Nat)
    (rs : List Res) (hc : call fixed fixedRecv fixedRead h fds m fn a = some rs) :
    ∀ r ∈ rs, r.err ≠ Err.errno 0 → r.fds = none := by
  unfold modelled at hfn
  rcases List.mem_append.1 hfn with h1 | h2
  · obtain ⟨f, rfl⟩ := modelled1_enumerated fn h1
    obtain ⟨r, hr, rfl⟩ := call_fn1 fixed fixedRecv fixedRead h fds m f a rs hc
    intro r' hr'
    simp only [List.mem_cons, List.not_mem_nil, or_false] at hr'
    subst hr'
    exact call1e_table fixed fixedRead h fds m f a _ hr
  · exact wasi_failed_call_keeps_table fixed fixedRecv fixedRead h hh fds m hb hs fn h2 a rs hc

/-- **host allocation, 45 functions**: the allocation the model predicts is at most 512 bytes — a constant, a
fortiori linear in the guest memory size.  fd_renumber is the exception (F16, `renumber_alloc_witness`). -/
theorem all_alloc_bounded (fixed fixedRecv fixedRead : Bool) (h : Host) (hh : HostNamesOk h) (fds : Fds) (m : Mem)
    (hb : Bytes m) (hs : m.size < 9223372036854775808) (fn : String) (hfn : fn ∈ modelled) (hne : fn ≠ "fd_renumber")
    (a : List Nat) (rs : List Res) (hc : call fixed fixedRecv fixedRead h fds m fn a = some rs) :
    ∀ r ∈ rs, r.alloc ≤ 512 + 0 * m.size := by
  unfold modelled at hfn
  rcases List.mem_append.1 hfn with h1 | h2
  · obtain ⟨f, rfl⟩ := modelled1_enumerated fn h1
    obtain ⟨r, hr, rfl⟩ := call_fn1 fixed fixedRecv fixedRead h fds m f a rs hc
    intro r' hr'
    simp only [List.mem_cons, List.not_mem_nil, or_false] at hr'
    subst hr'
    have hf : f ≠ Fn1.fd_renumber := by
      intro hf
      subst hf
      exact hne rfl
    rw [call1e_alloc fixed fixedRead h fds m f hf a _ hr]
    omega
  · exact wasi_alloc_bounded fixed fixedRecv fixedRead h hh fds m hb hs fn h2 a rs hc

/-- one constructor of `Fn1`, for the two statements about where a call writes -/
macro "fs1_wcase" hc:ident t:term : tactic =>
  `(tactic| (simp only [call1e] at $hc:ident; split at $hc:ident <;>
      first | (cases $hc:ident; done)
            | (simp only [Option.some.injEq] at $hc:ident; subst $hc:ident
               simp only [designated1e, List.map]; exact $t)))

theorem designated_by_name1 (h : Host) (m : Mem) (f : Fn1) (a : List Nat) :
    designated h m f.name a = designated1e h m f a := by
  cases f <;> simp [designated, Fn2.all, Fn2.name, Fn1.all, Fn1.name]

/-- where the first batch writes: inside the memory and inside the designated regions — all 22 functions
(repaired `readv`, F62; `readv_alias_witness` shows the statement is false for fd_read on the pinned tree; either
variant of poll_oneoff). -/
theorem call1e_writes (fixed : Bool) (h : Host) (ha : HostArgsOk h) (fds : Fds) (m : Mem) (hb : Bytes m)
    (hs : m.size < 9223372036854775808) (f : Fn1) (a : List Nat) (r : Res)
    (hc : call1e fixed true h fds m f a = some r) : Wr1 m (designated1e h m f (a.map w32)) r := by
  cases f
  case poll_oneoff => fs1_wcase hc (pollOneoff_wr1 fixed fds m _ _ _ _ (w32_lt _) (w32_lt _) hs)
  case fd_read => fs1_wcase hc (fdRead_wr1 h fds m hb _ _ _ _ (w32_lt _) (w32_lt _) hs)
  case fd_pread => fs1_wcase hc (fdPread_wr1 fds m hb _ _ _ _ (w32_lt _) (w32_lt _) hs)
  case fd_write => fs1_wcase hc (fdWrite_wr1 fds m _ _ _ _ (w32_lt _) hs)
  case fd_pwrite => fs1_wcase hc (fdPwrite_wr1 fds m _ _ _ _ (w32_lt _) hs)
  case args_get => fs1_wcase hc (writeOffsetsAndValues_wr1 m h.args _ _ ha.1 ha.2.1 (w32_lt _) (w32_lt _) hs)
  case environ_get => fs1_wcase hc (writeOffsetsAndValues_wr1 m h.env _ _ ha.2.2.1 ha.2.2.2 (w32_lt _) (w32_lt _) hs)
  case args_sizes_get => fs1_wcase hc (write2xU32_wr1 m _ _ _ _ (w32_lt _) (w32_lt _) hs)
  case environ_sizes_get => fs1_wcase hc (write2xU32_wr1 m _ _ _ _ (w32_lt _) (w32_lt _) hs)
  case clock_res_get => fs1_wcase hc (clockResGet_wr1 h m _ _ (w32_lt _) hs)
  case clock_time_get => fs1_wcase hc (clockTimeGet_wr1 h m _ _ (w32_lt _) hs)
  case random_get => fs1_wcase hc (randomGet_wr1 m _ _ (w32_lt _) (w32_lt _) hs)
  case fd_prestat_get => fs1_wcase hc (fdPrestatGet_wr1 h fds m _ _ (w32_lt _) hs)
  case fd_prestat_dir_name => fs1_wcase hc (fdPrestatDirName_wr1 h fds m _ _ _ (w32_lt _) (w32_lt _) hs)
  case fd_renumber => fs1_wcase hc (renumber_wr1 _ fds m _ _)
  case fd_close => fs1_wcase hc (fdClose_wr1 fds m _)
  case fd_fdstat_get => fs1_wcase hc (statLike_wr1 fds m _ _ 24 (w32_lt _) (by decide) hs)
  case fd_filestat_get => fs1_wcase hc (statLike_wr1 fds m _ _ 64 (w32_lt _) (by decide) hs)
  case fd_seek => fs1_wcase hc (seekLike_wr1 fds m _ _ (w32_lt _) hs)
  case fd_tell => fs1_wcase hc (seekLike_wr1 fds m _ _ (w32_lt _) hs)
  case proc_exit => fs1_wcase hc (wr1_nil _ _ _ rfl)
  case sched_yield => fs1_wcase hc (wr1_nil _ _ _ rfl)

/-- **where a call writes, all 46 functions** (repaired sock_recv PEEK = F61 and readv = F62; either variant of
poll_oneoff): every write of every alternative lies inside the memory AND inside the regions `designated` gives for
the function (the table that mirrors spec.go).  `m.size ≤ 2^32` is the wasm32 limit. -/
theorem all_writes_in_memory_and_designated (fixed : Bool) (h : Host) (hh : HostNamesOk h) (ha : HostArgsOk h)
    (fds : Fds) (m : Mem) (hb : Bytes m) (hm : m.size ≤ 4294967296) (fn : String) (hfn : fn ∈ modelled)
    (a : List Nat) (rs : List Res) (hc : call fixed true true h fds m fn a = some rs) :
    ∀ r ∈ rs, ∀ w ∈ r.writes, (w.len = 0 ∨ w.off + w.len ≤ m.size) ∧ Wr.within w (designated h m fn (a.map w32)) := by
  have hs : m.size < 9223372036854775808 := by omega
  unfold modelled at hfn
  rcases List.mem_append.1 hfn with h1 | h2
  · obtain ⟨f, rfl⟩ := modelled1_enumerated fn h1
    obtain ⟨r, hr, rfl⟩ := call_fn1 fixed true true h fds m f a rs hc
    have := call1e_writes fixed h ha fds m hb hs f a r hr
    intro r' hr' w hw
    simp only [List.mem_cons, List.not_mem_nil, or_false] at hr'
    subst hr'
    rw [designated_by_name1]
    exact ⟨this.1 w hw, this.2 w hw⟩
  · intro r hr w hw
    exact ⟨wasi_writes_in_memory fixed true true h hh fds m hb hs fn h2 a rs hc r hr w hw,
      wasi_writes_within_designated_by_name fixed h hh fds m hm fn h2 a rs hc r hr w hw⟩

example : modelled.length = 46 ∧ modelled.Nodup := by decide

theorem zeroPage_bytes : Bytes zeroPage := by
  intro a
  simp [Mem.get, zeroPage]

/-- the side conditions of the all-46 theorems are met by an ordinary state (the harness state `dir` on a zeroed
page, an empty host configuration): the theorems apply to, e.g., path_open and fd_read there -/
example (rs : List Res) (hc : call true true true {} dirFds zeroPage "path_open" [3, 0, 2048, 5, 0, 0, 0, 0, 16384] = some rs) :
    ∀ r ∈ rs, ∀ w ∈ r.writes, (w.len = 0 ∨ w.off + w.len ≤ zeroPage.size) ∧
      Wr.within w (designated {} zeroPage "path_open" ([3, 0, 2048, 5, 0, 0, 0, 0, 16384].map w32)) :=
  all_writes_in_memory_and_designated true {} (by unfold HostNamesOk; decide) (by unfold HostArgsOk nulSize; decide)
    dirFds zeroPage zeroPage_bytes (by decide) "path_open" (by decide) _ rs hc
example (rs : List Res) (hc : call true false false {} dirFds zeroPage "fd_read" [4, 0, 2, 16384] = some rs) :
    ∀ r ∈ rs, r.err ≠ Err.panic :=
  all_no_host_panic false false {} (by unfold HostNamesOk; decide) (by unfold HostArgsOk nulSize; decide)
    dirFds zeroPage zeroPage_bytes (by decide) "fd_read" (by decide) _ rs hc
example : HostArgsOk { args := [[112, 114, 111, 103], [45, 120]], env := [[65, 61, 98]] } := by
  unfold HostArgsOk nulSize; decide

end Wz.C15
