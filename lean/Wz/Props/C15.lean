/- C15: property theorems (none yet). -/
namespace Wz.C15
end Wz.C15
