import Wz.Gen.Shapes

/-!
# C10 companion: closing an instance visits EVERY descriptor

`FSContext.Close` - the step of `Module.Close`, `CloseWithExitCode` and `Runtime.Close` that releases the files, directories
and sockets an instance still holds - walks the descriptor table with `Table.Range`: for every 64-bit mask word, for
every set bit, the callback.  A descriptor table may be SPARSE (`fd_renumber` places a descriptor anywhere; closing
descriptors empties words in the middle), so an all-zero word is skipped (`continue`), not taken as the end (`break`).
`range_visits_every_set_bit`: with `continue` the walk visits exactly the set positions, for every list of words;
`break_misses_descriptors_behind_a_gap_witness`: with `break` a descriptor behind an empty word is never visited (seeded
change C10-11).  The loop headers and what each skip condition does are a regenerated shape.
-/

namespace Wz.C10

/-- the positions visited inside one word (bits as booleans), numbered from `base` -/
def visitWord (base : Nat) : List Bool → List Nat
  | [] => []
  | b :: bs => (if b then [base] else []) ++ visitWord (base + 1) bs

/-- `Range` with `continue` on an empty word (words of `w` bits each) -/
def rangeContinue (w : Nat) : Nat → List (List Bool) → List Nat
  | _, [] => []
  | i, word :: rest => (if word.all (· == false) then [] else visitWord (i * w) word) ++ rangeContinue w (i + 1) rest

/-- `Range` with `break` on an empty word -/
def rangeBreak (w : Nat) : Nat → List (List Bool) → List Nat
  | _, [] => []
  | i, word :: rest => if word.all (· == false) then [] else visitWord (i * w) word ++ rangeBreak w (i + 1) rest

theorem visitWord_empty_of_all_false (base : Nat) (word : List Bool) (h : word.all (· == false) = true) : visitWord base word = [] := by
  induction word generalizing base with
  | nil => rfl
  | cons b bs ih =>
    simp only [List.all_cons, Bool.and_eq_true, beq_iff_eq] at h
    simp [visitWord, h.1, ih (base + 1) h.2]

/-- skipping an empty word loses nothing: the walk is the concatenation of the per-word visits, for EVERY table -/
theorem range_visits_every_set_bit (w : Nat) (words : List (List Bool)) (i : Nat) :
    rangeContinue w i words = (words.zipIdx i).flatMap (fun p => visitWord (p.2 * w) p.1) := by
  induction words generalizing i with
  | nil => rfl
  | cons word rest ih =>
    simp only [rangeContinue, List.zipIdx_cons, List.flatMap_cons, ih]
    by_cases h : word.all (· == false) = true
    · rw [if_pos h, visitWord_empty_of_all_false _ _ h]
    · rw [if_neg h]

/-- descriptors 0, 1 in word 0, nothing in word 1, descriptor 8 in word 2 (words of 4 bits): `break` never reaches 8 -/
theorem break_misses_descriptors_behind_a_gap_witness :
    rangeContinue 4 0 [[true, true, false, false], [false, false, false, false], [true, false, false, false]] = [0, 1, 8] ∧
    rangeBreak 4 0 [[true, true, false, false], [false, false, false, false], [true, false, false, false]] = [0, 1] := by
  decide

set_option maxRecDepth 16384 in
theorem table_range_shape :
    Wz.Gen.Shapes.get "c10.table_range" =
      some "range t.masks ;; if mask == 0 -> continue ;; for j := Key(0); j < 64; j++ ;; if (mask & (1 << j)) == 0 -> continue ;; if key := Key(i)*64 + j; !f(key, t.items[key]) -> return" := by
  decide

end Wz.C10
