import Wz.Gen.Shapes

/-!
# C05 companion: float equality fused into a conditional branch (amd64)

`f32/f64.eq` and `.ne` have no single x86 condition after `UCOMISS/UCOMISD`: "equal" is `ZF = 1 ∧ PF = 0` (an
unordered comparison - a NaN operand - sets ZF, PF and CF), "not equal" is `ZF = 0 ∨ PF = 1`.  When the comparison
feeds `br_if` / `if` directly, `LowerConditionalBranch` emits two conditional jumps and a label:

    and-form (eq):   jmp¬f1 → notTaken ; jmp f2 → target ; notTaken:
    or-form  (ne):   jmp f1 → target   ; jmp f2 → target ; notTaken:

Model: the flags a `UCOMIS` leaves for the four outcomes of a float comparison, conditions as predicates on flags,
and the execution of a list of conditional jumps and labels (fall through to the end = branch not taken).  For EVERY
outcome of the comparison the and-form with (NP, Z) branches exactly when the operands are equal, the or-form with
(P, NZ) exactly when they are not (`fused_eq_branches_iff_equal`, `fused_ne_branches_iff_not_equal`), and their
`brz` variants (conditions inverted, and/or swapped) exactly in the opposite cases.  With the label between the two
jumps - seeded change C05-6 - the and-form branches on `f2` alone, i.e. also for a NaN operand (witness).  The order
of the three instructions, the jumps of both forms and the flag pairs chosen for Equal / NotEqual are regenerated
shapes of machine.go.
-/

namespace Wz.C05.Fused

/-- outcome of comparing two floats -/
inductive Cmp where | lt | eq | gt | unordered
  deriving DecidableEq, Repr

structure Flags where
  zf : Bool
  pf : Bool
  cf : Bool
  deriving DecidableEq, Repr

/-- flags after UCOMISS / UCOMISD (Intel SDM): unordered 1,1,1; greater 0,0,0; less 0,0,1; equal 1,0,0 -/
def ucomis : Cmp → Flags
  | .unordered => ⟨true, true, true⟩
  | .gt => ⟨false, false, false⟩
  | .lt => ⟨false, false, true⟩
  | .eq => ⟨true, false, false⟩

inductive Cond where | z | nz | p | np
  deriving DecidableEq, Repr

def Cond.holds : Cond → Flags → Bool
  | .z, f => f.zf
  | .nz, f => !f.zf
  | .p, f => f.pf
  | .np, f => !f.pf

def Cond.invert : Cond → Cond
  | .z => .nz | .nz => .z | .p => .np | .np => .p

inductive Item where
  | jmpTarget (c : Cond)   -- conditional jump to the branch target
  | jmpLocal (c : Cond)    -- conditional jump to the local label
  | label                  -- the local label `notTaken`
  deriving DecidableEq, Repr

/-- does control reach the branch target?  `skipping`: a taken local jump is looking for the label -/
def taken (f : Flags) : List Item → Bool → Bool
  | [], _ => false
  | .label :: rest, _ => taken f rest false
  | _ :: rest, true => taken f rest true
  | .jmpTarget c :: rest, false => if c.holds f then true else taken f rest false
  | .jmpLocal c :: rest, false => if c.holds f then taken f rest true else taken f rest false

/-- the and-form as emitted: jmp1, jmp2, notTaken -/
def andForm (f1 f2 : Cond) : List Item := [.jmpLocal f1.invert, .jmpTarget f2, .label]
/-- the or-form -/
def orForm (f1 f2 : Cond) : List Item := [.jmpTarget f1, .jmpTarget f2, .label]

/-- the two forms compute conjunction / disjunction of their conditions, for all flag states -/
theorem andForm_is_and (f1 f2 : Cond) (fl : Flags) :
    taken fl (andForm f1 f2) false = (f1.holds fl && f2.holds fl) := by
  cases f1 <;> cases f2 <;> cases fl with | mk z p c => cases z <;> cases p <;> cases c <;> rfl

theorem orForm_is_or (f1 f2 : Cond) (fl : Flags) :
    taken fl (orForm f1 f2) false = (f1.holds fl || f2.holds fl) := by
  cases f1 <;> cases f2 <;> cases fl with | mk z p c => cases z <;> cases p <;> cases c <;> rfl

/-- **eq fused into brnz** (flags NP, Z, and-form): the branch is taken iff the operands compare equal -/
theorem fused_eq_branches_iff_equal (o : Cmp) :
    taken (ucomis o) (andForm .np .z) false = decide (o = .eq) := by cases o <;> rfl

/-- **ne fused into brnz** (flags P, NZ, or-form): taken iff not equal - in particular for a NaN operand -/
theorem fused_ne_branches_iff_not_equal (o : Cmp) :
    taken (ucomis o) (orForm .p .nz) false = decide (o ≠ .eq) := by cases o <;> rfl

/-- the `brz` variants: both conditions inverted and the form swapped (as `LowerConditionalBranch` does) -/
theorem fused_eq_brz_branches_iff_not_equal (o : Cmp) :
    taken (ucomis o) (orForm Cond.np.invert Cond.z.invert) false = decide (o ≠ .eq) := by cases o <;> rfl

theorem fused_ne_brz_branches_iff_equal (o : Cmp) :
    taken (ucomis o) (andForm Cond.p.invert Cond.nz.invert) false = decide (o = .eq) := by cases o <;> rfl

/-- the label between the two jumps (seeded change C05-6): `eq` with a NaN operand takes the branch -/
theorem label_between_the_jumps_witness :
    taken (ucomis .unordered) [.jmpLocal Cond.np.invert, .label, .jmpTarget .z] false = true := by decide

set_option maxRecDepth 8192 in
/-- the sequence on the source, regenerated: both jumps are inserted before the label; the jumps of the two forms;
the flag pairs of Equal (and-form) and NotEqual (or-form) -/
theorem fused_fcmp_sequence_is_the_modelled_one :
    Wz.Gen.Shapes.get "c05.fcmp_branch_order" =
      some "jmp1 jmp2 notTaken || and: jmp1.asJmpIf(f1.invert(), newOperandLabel(notTakenLabel)) ; jmp2.asJmpIf(f2, newOperandLabel(target)) | or: jmp1.asJmpIf(f1, newOperandLabel(target)) ; jmp2.asJmpIf(f2, newOperandLabel(target))" ∧
    Wz.Gen.Shapes.get "c05.fcmp_eq_ne_flags" =
      some "ssa.FloatCmpCondEqual: f1, f2 = condNP, condZ ; and = true || ssa.FloatCmpCondNotEqual: f1, f2 = condP, condNZ" := by
  decide

end Wz.C05.Fused
