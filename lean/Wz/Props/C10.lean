/- C10: property theorems (none yet). -/
namespace Wz.C10
end Wz.C10
