/-
C10 — Module lifecycle and name registry are linearizable.

Part A: the sequential specification `Reg` has the properties the statement lists, for every operation
        list (induction).
Part B: witness theorems: the implementation model as on the pinned tree (`Cfg.asIs`) does not refine
        `Reg` (F8, F9 sequentially; F10, F10b, F10c under concrete interleavings).
Part C: the repaired variant refines `Reg` on every sequential run (`seq_refinement`, all operation lists).
Part D: close effects under ALL interleavings (any number of threads, any programs, any schedule, any
        variant): resources are released at most once (`close_effects_once_partial`).
Part F: the repaired variant is linearizable w.r.t. `Reg` under ALL interleavings (any number of threads, any
        programs, any schedule, atomic-action granularity), for histories that respect the handle discipline of
        the real API (`conc_linearizable`; forward simulation `action` / `conc_step_sim` with one linearization
        action per operation); witnesses that the discipline and the repairs are needed
        (`stillborn_visible_witness`, `refused_record_witness`, `reused_handle_witness`,
        `asis_not_linearizable_witness`), decided by a complete search for linearizations (`linSearch_complete`,
        `not_linearizable_of_search`); sanity of the definition for one sequential client (`linearizable_sequential`).
-/
import Wz.Proofs.C10_Refine
import Wz.Gen.C10Sections
import Wz.Gen.Shapes

namespace Wz.C10
open Wz.Model.Registry

/-! ## Part A: the specification -/

/-- At most one open module owns a name; handles are unique; after the runtime is closed everything is closed. -/
structure RegInv (r : Reg) : Prop where
  uniqH : (r.mods.map (·.h)).Nodup
  oneOwner : ∀ a ∈ r.mods, ∀ b ∈ r.mods, a.isOpen = true → b.isOpen = true → a.name ≠ 0 →
    a.name = b.name → a.h = b.h
  closedAll : r.rtClosed = true → ∀ m ∈ r.mods, m.isOpen = false

theorem closeMods_map_h (h : Nat) (ms : List Mod) : (closeMods h ms).map (·.h) = ms.map (·.h) := by
  induction ms with
  | nil => rfl
  | cons m ms ih => simp only [closeMods, List.map_cons, ih]; split <;> rfl

theorem closeAllMods_map_h (ms : List Mod) : (closeAllMods ms).map (·.h) = ms.map (·.h) := by
  induction ms with
  | nil => rfl
  | cons m ms ih => simp only [closeAllMods, List.map_cons, ih]

theorem mem_closeMods {h : Nat} {ms : List Mod} {x : Mod} (hx : x ∈ closeMods h ms) :
    ∃ m ∈ ms, x.h = m.h ∧ x.name = m.name ∧ (x.isOpen = true → m.isOpen = true ∧ m.h ≠ h) := by
  induction ms with
  | nil => simp [closeMods] at hx
  | cons m ms ih =>
    simp only [closeMods, List.mem_cons] at hx
    cases hx with
    | inl e =>
      refine ⟨m, List.mem_cons_self, ?_⟩
      by_cases hm : (m.h == h) = true
      · simp only [hm, if_true] at e; subst e; simp
      · simp only [hm] at e; subst e
        refine ⟨rfl, rfl, fun ho => ⟨ho, ?_⟩⟩
        simpa using hm
    | inr e =>
      obtain ⟨m', hm', rest⟩ := ih e
      exact ⟨m', List.mem_cons_of_mem _ hm', rest⟩

theorem mem_closeAllMods {ms : List Mod} {x : Mod} (hx : x ∈ closeAllMods ms) : x.isOpen = false := by
  induction ms with
  | nil => simp [closeAllMods] at hx
  | cons m ms ih =>
    simp only [closeAllMods, List.mem_cons] at hx
    cases hx with
    | inl e => subst e; rfl
    | inr e => exact ih e

theorem has_false {r : Reg} {h : Nat} (hh : r.has h = false) : h ∉ r.mods.map (·.h) := by
  intro hm
  simp only [List.mem_map] at hm
  obtain ⟨m, hm, e⟩ := hm
  simp only [Reg.has, List.any_eq_false] at hh
  exact hh m hm (by simp [e])

theorem owner_find {r : Reg} {n : Nat} (hn : n ≠ 0) :
    r.owner n = (r.mods.find? (fun m => m.isOpen && m.name == n)).map (·.h) := by
  simp [Reg.owner, hn]

theorem owner_none {r : Reg} {n : Nat} (hn : n ≠ 0) (ho : r.owner n = none) :
    ∀ m ∈ r.mods, m.isOpen = true → m.name ≠ n := by
  intro m hm hopen e
  rw [owner_find hn] at ho
  have h1 : r.mods.find? (fun m => m.isOpen && m.name == n) = none := by simpa using ho
  have := List.find?_eq_none.mp h1 m hm
  simp [hopen, e] at this

theorem has_iff (r : Reg) (h : Nat) : r.has h = true ↔ h ∈ r.mods.map (·.h) := by
  simp only [Reg.has, List.any_eq_true, List.mem_map, beq_iff_eq]

/-- Every operation preserves the invariant. -/
theorem step_inv (r : Reg) (op : Op) (hi : RegInv r) : RegInv (r.step op).1 := by
  cases op with
  | instantiate h name pre =>
    simp only [Reg.step]
    by_cases hc : r.rtClosed = true
    · simp only [hc, if_true]; exact hi
    have hc' : r.rtClosed = false := by simpa using hc
    simp only [hc', Bool.false_eq_true, if_false]
    by_cases hh : r.has h = true
    · simp only [hh, if_true]; exact hi
    · have hh' : r.has h = false := by simpa using hh
      have hnot := has_false hh'
      simp only [hh', Bool.false_eq_true, if_false]
      by_cases ho : (r.owner name).isSome = true
      · simp only [ho, if_true]
        refine ⟨?_, ?_, ?_⟩
        · simpa [List.nodup_cons] using And.intro (by simpa using hnot) hi.uniqH
        · intro a ha b hb hao hbo hn e
          simp only [List.mem_cons] at ha hb
          rcases ha with rfl | ha
          · simp at hao
          rcases hb with rfl | hb
          · simp at hbo
          exact hi.oneOwner a ha b hb hao hbo hn e
        · intro hcl; simp [hc'] at hcl
      · have ho' : r.owner name = none := by
          cases hq : r.owner name with
          | none => rfl
          | some v => simp [hq] at ho
        simp only [ho', Option.isSome_none, Bool.false_eq_true, if_false]
        refine ⟨?_, ?_, ?_⟩
        · simpa [List.nodup_cons] using And.intro (by simpa using hnot) hi.uniqH
        · intro a ha b hb hao hbo hn e
          simp only [List.mem_cons] at ha hb
          rcases ha with rfl | ha
          · rcases hb with rfl | hb
            · rfl
            · exact absurd e.symm (owner_none hn ho' b hb hbo)
          · rcases hb with rfl | hb
            · have e' : a.name = name := e
              exact absurd e' (owner_none (by rw [← e']; exact hn) ho' a ha hao)
            · exact hi.oneOwner a ha b hb hao hbo hn e
        · intro hcl; simp [hc'] at hcl
  | lookup name => simp only [Reg.step]; split <;> exact hi
  | compile => exact hi
  | hostCompile f => exact hi
  | closeModule h code =>
    simp only [Reg.step]
    split
    · refine ⟨?_, ?_, ?_⟩
      · simpa [closeMods_map_h] using hi.uniqH
      · intro a ha b hb hao hbo hn e
        obtain ⟨a', ha', eh, en, hoa⟩ := mem_closeMods ha
        obtain ⟨b', hb', eh', en', hob⟩ := mem_closeMods hb
        rw [eh, eh']
        exact hi.oneOwner a' ha' b' hb' (hoa hao).1 (hob hbo).1 (by rw [← en]; exact hn) (by rw [← en, ← en']; exact e)
      · intro hcl m hm
        obtain ⟨m', hm', _, _, hom⟩ := mem_closeMods hm
        cases hmo : m.isOpen with
        | false => rfl
        | true => have := hi.closedAll hcl m' hm'; simp [(hom hmo).1] at this
    · exact hi
  | closeRuntime code =>
    simp only [Reg.step]
    refine ⟨?_, ?_, ?_⟩
    · simpa [closeAllMods_map_h] using hi.uniqH
    · intro a ha b hb hao; simp [mem_closeAllMods ha] at hao
    · intro _ m hm; exact mem_closeAllMods hm
  | isClosed h => simp only [Reg.step]; split <;> exact hi

theorem init_inv : RegInv Reg.init := ⟨by simp [Reg.init], by simp [Reg.init], by simp [Reg.init]⟩

theorem run_fst (r : Reg) (op : Op) (ops : List Op) :
    (Reg.run r (op :: ops)).1 = (Reg.run (r.step op).1 ops).1 := rfl

theorem run_inv (ops : List Op) (r : Reg) (hi : RegInv r) : RegInv (Reg.run r ops).1 := by
  induction ops generalizing r with
  | nil => exact hi
  | cons op ops ih => rw [run_fst]; exact ih _ (step_inv r op hi)

/-- **Specification invariants**, for every operation list: handles unique, at most one open owner per
name, everything closed once the runtime is closed. -/
theorem reg_spec_invariants (ops : List Op) : RegInv (Reg.run Reg.init ops).1 := run_inv ops _ init_inv

/-- Lookups return only open modules that carry the requested (non-anonymous) name. -/
theorem lookup_only_open (r : Reg) (n h : Nat) (hf : (r.step (.lookup n)).2 = .found h) :
    n ≠ 0 ∧ ∃ m ∈ r.mods, m.h = h ∧ m.isOpen = true ∧ m.name = n := by
  simp only [Reg.step] at hf
  split at hf
  · rename_i h' ho
    simp only [Res.found.injEq] at hf; subst hf
    simp only [Reg.owner] at ho
    split at ho
    · simp at ho
    · rename_i hn
      simp only [Option.map_eq_some_iff] at ho
      obtain ⟨m, hfind, e⟩ := ho
      have hmem := List.mem_of_find?_eq_some hfind
      have hp := List.find?_some hfind
      simp only [Bool.and_eq_true, beq_iff_eq] at hp
      exact ⟨by simpa using hn, m, hmem, e, hp.1, hp.2⟩
  · simp at hf

/-- Instantiating under a name succeeds exactly when the handle is fresh, the runtime is open and no open
module owns the name; it fails with `errDup` exactly when an open module owns it. -/
theorem instantiate_result (r : Reg) (h n : Nat) (p : Pre) (hh : r.has h = false) :
    ((r.step (.instantiate h n p)).2 = .ok ↔ r.rtClosed = false ∧ r.owner n = none) ∧
    ((r.step (.instantiate h n p)).2 = .errDup ↔ r.rtClosed = false ∧ (r.owner n).isSome = true) ∧
    ((r.step (.instantiate h n p)).2 = .errClosed ↔ r.rtClosed = true) := by
  simp only [Reg.step, hh, Bool.false_eq_true, if_false]
  cases hc : r.rtClosed <;> cases ho : r.owner n <;> simp

/-- A closed module's name can be taken again. -/
theorem closed_name_reusable (r : Reg) (hi : RegInv r) (n h c : Nat) (ho : r.owner n = some h) :
    (r.step (.closeModule h c)).1.owner n = none := by
  have hn : n ≠ 0 := by
    intro e; simp [Reg.owner, e] at ho
  rw [owner_find hn] at ho
  obtain ⟨m, hfind, e⟩ : ∃ m, r.mods.find? (fun m => m.isOpen && m.name == n) = some m ∧ m.h = h := by
    simpa using ho
  have hmem := List.mem_of_find?_eq_some hfind
  have hp := List.find?_some hfind
  simp only [Bool.and_eq_true, beq_iff_eq] at hp
  have hhas : r.has h = true := (has_iff r h).mpr (List.mem_map.mpr ⟨m, hmem, e⟩)
  have hstep : (r.step (.closeModule h c)).1 = { r with mods := closeMods h r.mods } := by
    simp [Reg.step, hhas]
  rw [hstep, owner_find hn]
  have : (closeMods h r.mods).find? (fun m => m.isOpen && m.name == n) = none := by
    apply List.find?_eq_none.mpr
    intro x hx hcon
    obtain ⟨x', hx', eh, en, hox⟩ := mem_closeMods hx
    simp only [Bool.and_eq_true, beq_iff_eq] at hcon
    have h1 := hox hcon.1
    have := hi.oneOwner x' hx' m hmem h1.1 hp.1 (by rw [← en, hcon.2]; exact hn) (by rw [← en, hcon.2, hp.2])
    exact h1.2 (by rw [this, e])
  simp [this]

theorem rtClosed_stable (r : Reg) (op : Op) (hc : r.rtClosed = true) : (r.step op).1.rtClosed = true := by
  cases op <;> simp only [Reg.step] <;> (repeat' split) <;> simp_all

/-- Requests that must fail once the runtime is closed. -/
def FailsIfRequest : Op → Res → Prop
  | .instantiate _ _ _, x => x = .errClosed ∨ x = .bad
  | .compile, x => x = .errClosed
  | .hostCompile _, x => x = .errClosed
  | .lookup _, x => x = .notFound
  | .isClosed _, x => x = .closedIs true ∨ x = .bad
  | _, _ => True

def AllFail : List Op → List Res → Prop
  | op :: ops, x :: xs => FailsIfRequest op x ∧ AllFail ops xs
  | [], [] => True
  | _, _ => False

theorem closed_step_fails (r : Reg) (hi : RegInv r) (op : Op) (hc : r.rtClosed = true) :
    FailsIfRequest op (r.step op).2 := by
  cases op with
  | instantiate h n p =>
    simp [Reg.step, FailsIfRequest, hc]
  | compile => simp [Reg.step, FailsIfRequest, hc]
  | hostCompile f => simp [Reg.step, FailsIfRequest, hc]
  | lookup n =>
    simp only [FailsIfRequest]
    cases hr : (r.step (.lookup n)).2 with
    | found h =>
      obtain ⟨_, m, hm, _, hopen, _⟩ := lookup_only_open r n h hr
      have := hi.closedAll hc m hm; simp [hopen] at this
    | notFound => rfl
    | _ => simp only [Reg.step] at hr; split at hr <;> simp at hr
  | isClosed h =>
    simp only [Reg.step, FailsIfRequest]
    split
    · left
      have : r.isOpen h = false := by
        simp only [Reg.isOpen, List.any_eq_false]
        intro m hm; simp [hi.closedAll hc m hm]
      simp [this]
    · right; rfl
  | closeModule h c => trivial
  | closeRuntime c => trivial

/-- Once the runtime is closed, EVERY later compile / host compile / instantiate fails with an error, every
lookup finds nothing and every module reports closed — for every continuation. -/
theorem after_close_all_fail (ops : List Op) (r : Reg) (hi : RegInv r) (hc : r.rtClosed = true) :
    AllFail ops (Reg.run r ops).2 := by
  induction ops generalizing r with
  | nil => simp [Reg.run, AllFail]
  | cons op ops ih =>
    simp only [Reg.run, AllFail]
    exact ⟨closed_step_fails r hi op hc, ih _ (step_inv r op hi) (rtClosed_stable r op hc)⟩

theorem close_runtime_closes (r : Reg) (c : Nat) :
    (r.step (.closeRuntime c)).1.rtClosed = true ∧ ∀ m ∈ (r.step (.closeRuntime c)).1.mods, m.isOpen = false :=
  ⟨rfl, fun _ hm => mem_closeAllMods hm⟩

theorem closeMods_idem (h : Nat) (ms : List Mod) : closeMods h (closeMods h ms) = closeMods h ms := by
  induction ms with
  | nil => rfl
  | cons m ms ih =>
    simp only [closeMods, ih]
    by_cases hm : (m.h == h) = true <;> simp [hm]

/-- Closing is idempotent. -/
theorem close_idempotent (r : Reg) (h c c' : Nat) (hh : r.has h = true) :
    (r.step (.closeModule h c)).1.step (.closeModule h c') = ((r.step (.closeModule h c)).1, .ok) := by
  have hstep : (r.step (.closeModule h c)).1 = { r with mods := closeMods h r.mods } := by
    simp [Reg.step, hh]
  have h2 : Reg.has { r with mods := closeMods h r.mods } h = true := by
    rw [has_iff]; simp only [closeMods_map_h]; exact (has_iff r h).mp hh
  rw [hstep]
  simp [Reg.step, h2, closeMods_idem]

/-- Non-vacuity: a reachable state with an open owner, a closed module and a reused name. -/
example : (Reg.run Reg.init [.instantiate 1 1 .none, .instantiate 2 1 .none, .closeModule 1 0,
    .instantiate 3 1 .bin, .lookup 1, .closeRuntime 0, .lookup 1, .compile]).2 =
    [.ok, .errDup, .ok, .ok, .found 3, .ok, .notFound, .errClosed] := by decide

/-! ## Part B: witnesses on the as-is model -/

/-- F8: instantiate x; instantiate x (fails, and unregisters the owner); lookup x; instantiate x. -/
def f8Ops : List Op := [.instantiate 1 1 .none, .instantiate 2 1 .none, .lookup 1, .instantiate 3 1 .none, .isClosed 1]

theorem dup_name_witness :
    (Impl.run Cfg.asIs Impl.init f8Ops).2 = [.ok, .errDup, .notFound, .ok, .closedIs false] ∧
    (Reg.run Reg.init f8Ops).2 = [.ok, .errDup, .found 1, .errDup, .closedIs false] ∧
    (Impl.run { Cfg.asIs with fixF8 := true } Impl.init f8Ops).2 = (Reg.run Reg.init f8Ops).2 := by decide

/-- F9: host compile after the runtime is closed panics (with functions) or succeeds (without). -/
def f9Ops : List Op := [.closeRuntime 0, .hostCompile true, .hostCompile false, .instantiate 1 1 .host]

theorem host_compile_witness :
    (Impl.run Cfg.asIs Impl.init f9Ops).2 = [.ok, .panic, .ok, .panic] ∧
    (Reg.run Reg.init f9Ops).2 = [.ok, .errClosed, .errClosed, .errClosed] ∧
    (Impl.run { Cfg.asIs with fixF9 := true } Impl.init f9Ops).2 = (Reg.run Reg.init f9Ops).2 := by decide

/-- All interleavings of two sequences (fuel = total length + 1 suffices: every step consumes one element). -/
def mergesF {α : Type} : Nat → List α → List α → List (List α)
  | 0, _, _ => []
  | _ + 1, [], ys => [ys]
  | _ + 1, xs, [] => [xs]
  | n + 1, x :: xs, y :: ys => (mergesF n xs (y :: ys)).map (x :: ·) ++ (mergesF n (x :: xs) ys).map (y :: ·)

def merges {α : Type} (xs ys : List α) : List (List α) := mergesF (xs.length + ys.length + 1) xs ys

/-- test: two sequences of length 2 have 6 interleavings -/
example : (merges [1, 2] [3, 4]).length = 6 := by decide

/-- Is there ANY sequential order of the two threads' operations (respecting only program order — weaker
than real-time order, so `false` is the stronger statement) in which `Reg` gives the observed results? -/
def linearizable2 (t0 t1 : List (Op × Res)) : Bool :=
  (merges t0 t1).any (fun seq => (Reg.run Reg.init (seq.map (·.1))).2 == seq.map (·.2))

def resultsOf (c : Conc) : List (List (Op × Res)) := c.threads.map (·.results)

/-- F10: thread 0 instantiates x and closes it; thread 1 closes the same module (CAS loser: returns at
once) and then still finds it under its name. No sequential order explains these results. -/
theorem double_close_witness :
    let c := (Conc.start [[.instantiate 1 1 .none, .closeModule 1 0], [.closeModule 1 0, .lookup 1]]).exec Cfg.asIs
      [0, 0, 0, 0, 0, 0, 0, 1, 1, 1, 1, 1, 1, 0, 0, 0]
    resultsOf c = [[(.instantiate 1 1 .none, .ok), (.closeModule 1 0, .ok)],
                   [(.closeModule 1 0, .ok), (.lookup 1, .found 1)]] ∧
    linearizable2 (resultsOf c)[0]! (resultsOf c)[1]! = false := by decide

/-- With CAS and deleteModule in one atomic action the same schedule gives a linearizable history. -/
theorem double_close_repaired :
    let c := (Conc.start [[.instantiate 1 1 .none, .closeModule 1 0], [.closeModule 1 0, .lookup 1]]).exec
      { Cfg.asIs with atomicClose := true } [0, 0, 0, 0, 0, 0, 0, 1, 1, 1, 1, 1, 1, 0, 0, 0]
    linearizable2 (resultsOf c)[0]! (resultsOf c)[1]! = true := by decide

/-- F10b: the runtime's closed flag is set before the store is closed: a compile fails with "closed" and a
lookup afterwards still finds an open module. -/
theorem rt_close_window_witness :
    let c := (Conc.start [[.instantiate 1 1 .none, .closeRuntime 0], [.compile, .lookup 1]]).exec Cfg.asIs
      [0, 0, 0, 0, 0, 0, 0, 1, 1, 1, 1, 1, 1, 0, 0]
    resultsOf c = [[(.instantiate 1 1 .none, .ok), (.closeRuntime 0, .ok)],
                   [(.compile, .errClosed), (.lookup 1, .found 1)]] ∧
    linearizable2 (resultsOf c)[0]! (resultsOf c)[1]! = false := by decide

/-- F10c: the close notifier is attached after registration: a runtime close in between closes the
instance without notification, although instantiate returns ok. -/
theorem notifier_lost_witness :
    let c := (Conc.start [[.instantiate 1 1 .none], [.closeRuntime 3]]).exec Cfg.asIs
      [0, 0, 0, 1, 1, 1, 1, 0, 0]
    resultsOf c = [[(.instantiate 1 1 .none, .ok)], [(.closeRuntime 3, .ok)]] ∧
    c.shared.insts.map (fun i => (i.h, i.closed, i.notified)) = [(1, some 3, [])] := by decide

/-! ### simulation between the repaired implementation model and `Reg` (sequential runs) -/

def absInst (i : Inst) : Mod := ⟨i.h, i.name, i.closed.isNone⟩
def abs (s : Impl) : Reg := ⟨s.insts.map absInst, s.rtClosed.isSome⟩

structure Good (s : Impl) : Prop where
  rt : s.names = none ↔ s.rtClosed.isSome = true
  nm : ∀ m, s.names = some m → ∀ n, n ≠ 0 → nameLookup n m = (abs s).owner n
  lst : ∀ i ∈ s.insts, i.closed = none → i.h ∈ s.list
  inv : RegInv (abs s)

theorem absInst_ensureRes (i : Inst) : absInst (ensureRes i) = absInst i := by
  unfold ensureRes absInst
  cases hn : i.notifier <;> cases hs : i.sys <;> simp [hs]

theorem abs_has (s : Impl) (h : Nat) : (abs s).has h = s.has h := by
  simp [abs, Reg.has, Impl.has, List.any_map, Function.comp_def, absInst]

theorem map_updInst_same (h : Nat) (f : Inst → Inst) (hf : ∀ i, absInst (f i) = absInst i) (l : List Inst) :
    (updInst h f l).map absInst = l.map absInst := by
  induction l with
  | nil => rfl
  | cons a l ih => simp only [updInst, List.map_cons, ih]; split <;> simp [hf]

theorem map_updInst_close (h c : Nat) (l : List Inst) :
    (updInst h (fun i => { i with closed := some c }) l).map absInst = closeMods h (l.map absInst) := by
  induction l with
  | nil => rfl
  | cons a l ih =>
    simp only [updInst, List.map_cons, closeMods, ih]
    by_cases ha : (a.h == h) = true <;> simp [ha, absInst]

theorem get_none_has (s : Impl) (h : Nat) : s.get h = none ↔ s.has h = false := by
  simp [Impl.get, Impl.has, List.find?_eq_none, List.any_eq_false]

theorem nameLookup_erase_ne (n k : Nat) (hk : n ≠ k) (m : List (Nat × Nat)) :
    nameLookup n (nameErase k m) = nameLookup n m := by
  induction m with
  | nil => rfl
  | cons a m ih =>
    obtain ⟨a1, a2⟩ := a
    simp only [nameErase, nameLookup]
    by_cases h1 : (a1 == k) = true
    · have : (a1 == n) = false := by
        have : a1 = k := by simpa using h1
        subst this; simpa using (Ne.symm hk)
      simp [h1, this, ih]
    · have h1' : (a1 == k) = false := by simpa using h1
      simp [h1', nameLookup, ih]

theorem nameLookup_erase_self (k : Nat) (m : List (Nat × Nat)) : nameLookup k (nameErase k m) = none := by
  induction m with
  | nil => rfl
  | cons a m ih =>
    obtain ⟨a1, a2⟩ := a
    simp only [nameErase]
    by_cases h1 : (a1 == k) = true
    · simp [h1, ih]
    · have h1' : (a1 == k) = false := by simpa using h1
      simp [h1', nameLookup, ih]

/-- closing handle `h` does not change the owner of `n` when no open module with handle `h` has name `n` -/
theorem find_closeMods (h n : Nat) (ms : List Mod) (hne : ∀ m ∈ ms, m.h = h → ¬ (m.isOpen = true ∧ m.name = n)) :
    (closeMods h ms).find? (fun m => m.isOpen && m.name == n) = ms.find? (fun m => m.isOpen && m.name == n) := by
  induction ms with
  | nil => rfl
  | cons a ms ih =>
    have ih' := ih (fun m hm => hne m (List.mem_cons_of_mem _ hm))
    simp only [closeMods]
    by_cases ha : (a.h == h) = true
    · have := hne a List.mem_cons_self (by simpa using ha)
      have hp : (a.isOpen && a.name == n) = false := by
        cases ho : a.isOpen <;> simp_all
      simp [ha, List.find?_cons, hp, ih']
    · simp [ha, List.find?_cons, ih']

theorem closeAll_id (ms : List Mod) (hc : ∀ m ∈ ms, m.isOpen = false) : closeAllMods ms = ms := by
  induction ms with
  | nil => rfl
  | cons a ms ih =>
    simp only [closeAllMods, ih (fun m hm => hc m (List.mem_cons_of_mem _ hm))]
    have := hc a List.mem_cons_self
    cases a; simp_all

theorem closeMods_id (h : Nat) (ms : List Mod) (hc : ∀ m ∈ ms, m.h = h → m.isOpen = false) : closeMods h ms = ms := by
  induction ms with
  | nil => rfl
  | cons a ms ih =>
    simp only [closeMods, ih (fun m hm => hc m (List.mem_cons_of_mem _ hm))]
    by_cases ha : (a.h == h) = true
    · have := hc a List.mem_cons_self (by simpa using ha)
      cases a; simp_all
    · simp [ha]

theorem owner_allClosed (r : Reg) (n : Nat) (hc : ∀ m ∈ r.mods, m.isOpen = false) : r.owner n = none := by
  by_cases hn : n = 0
  · simp [Reg.owner, hn]
  · rw [owner_find hn]
    have : r.mods.find? (fun m => m.isOpen && m.name == n) = none :=
      List.find?_eq_none.mpr (fun m hm => by simp [hc m hm])
    simp [this]

theorem map_closeListed (c : Nat) (list : List Nat) (l : List Inst)
    (hl : ∀ i ∈ l, i.closed = none → i.h ∈ list) :
    (closeListed c list l).map absInst = closeAllMods (l.map absInst) := by
  induction l with
  | nil => rfl
  | cons a l ih =>
    simp only [closeListed, List.map_cons, closeAllMods, ih (fun i hi => hl i (List.mem_cons_of_mem _ hi))]
    congr 1
    by_cases hin : list.contains a.h = true
    · simp only [hin, if_true]
      unfold closeFromStore
      split
      · rename_i hs; cases hcl : a.closed <;> simp_all [absInst]
      · rw [absInst_ensureRes]; simp [absInst]
    · simp only [hin]
      cases hcl : a.closed with
      | none => exact absurd (by simpa using hl a List.mem_cons_self hcl) hin
      | some v => simp [absInst, hcl]

theorem closeListed_closed (c : Nat) (list : List Nat) (l : List Inst)
    (hl : ∀ i ∈ l, i.closed = none → i.h ∈ list) : ∀ i ∈ closeListed c list l, i.closed ≠ none := by
  intro i hi
  have h1 : absInst i ∈ (closeListed c list l).map absInst := List.mem_map_of_mem hi
  rw [map_closeListed c list l hl] at h1
  have := mem_closeAllMods h1
  simp [absInst] at this
  intro e; simp [e] at this

def Sim (s : Impl) (op : Op) : Prop :=
  (s.runOp Cfg.repaired op).2 = ((abs s).step op).2 ∧ abs (s.runOp Cfg.repaired op).1 = ((abs s).step op).1 ∧
    Good (s.runOp Cfg.repaired op).1

theorem names_some_of_open {s : Impl} (hg : Good s) (ho : s.rtClosed = none) : ∃ m, s.names = some m := by
  cases hn : s.names with
  | none => have := hg.rt.mp hn; simp [ho] at this
  | some m => exact ⟨m, rfl⟩

theorem sim_compile (s : Impl) (hg : Good s) : Sim s .compile := by
  unfold Sim
  cases hrt : s.rtClosed with
  | some c => simp [Impl.runOp, runOpFuel, startPc, stepOp, hrt, Reg.step, abs]; exact hg
  | none =>
    obtain ⟨m, hm⟩ := names_some_of_open hg hrt
    simp [Impl.runOp, runOpFuel, startPc, stepOp, hrt, Reg.step, abs, typesSection, hm, afterCompile]; exact hg

theorem sim_hostCompile (s : Impl) (hg : Good s) (f : Bool) : Sim s (.hostCompile f) := by
  unfold Sim
  cases hrt : s.rtClosed with
  | some c => simp [Impl.runOp, runOpFuel, startPc, stepOp, hrt, Reg.step, abs, Cfg.repaired]; exact hg
  | none =>
    obtain ⟨m, hm⟩ := names_some_of_open hg hrt
    cases f <;>
      (simp [Impl.runOp, runOpFuel, startPc, stepOp, hrt, Reg.step, abs, typesSection, hm, afterCompile, Cfg.repaired]; exact hg)

theorem sim_lookup (s : Impl) (hg : Good s) (n : Nat) : Sim s (.lookup n) := by
  unfold Sim
  by_cases hn : n = 0
  · subst hn
    simp [Impl.runOp, runOpFuel, startPc, stepOp, Reg.step, Reg.owner]; exact hg
  · have hn' : (n == 0) = false := by simpa using hn
    cases hm : s.names with
    | none =>
      have hc := hg.rt.mp hm
      have hall := hg.inv.closedAll (by simpa [abs] using hc)
      have := owner_allClosed (abs s) n hall
      simp [Impl.runOp, runOpFuel, startPc, stepOp, Reg.step, hn', hm, this]; exact hg
    | some m =>
      have := hg.nm m hm n hn
      cases ho : (abs s).owner n with
      | none => simp [Impl.runOp, runOpFuel, startPc, stepOp, Reg.step, hn', hm, this ▸ ho, ho]; exact hg
      | some h => simp [Impl.runOp, runOpFuel, startPc, stepOp, Reg.step, hn', hm, this ▸ ho, ho]; exact hg

theorem sim_closeRuntime (s : Impl) (hg : Good s) (c : Nat) : Sim s (.closeRuntime c) := by
  have hinv := step_inv (abs s) (.closeRuntime c) hg.inv
  unfold Sim
  cases hrt : s.rtClosed with
  | some c0 =>
    have hall := hg.inv.closedAll (by simp [abs, hrt])
    have hid := closeAll_id (abs s).mods hall
    have habs : abs s = ((abs s).step (.closeRuntime c)).1 := by
      simp only [Reg.step, hid]; simp [abs, hrt]
    simp only [Impl.runOp, runOpFuel, startPc, stepOp, hrt, Option.isSome_some, if_true]
    exact ⟨rfl, habs, hg⟩
  | none =>
    have hmap := map_closeListed c s.list s.insts hg.lst
    have habs : abs (storeClose { s with rtClosed := some c } c) = ((abs s).step (.closeRuntime c)).1 := by
      simp [abs, storeClose, Reg.step, hmap]
    simp only [Impl.runOp, runOpFuel, startPc, stepOp, hrt, Option.isSome_none, Bool.false_eq_true, if_false,
      Cfg.repaired, if_true]
    refine ⟨rfl, habs, ?_⟩
    refine ⟨by simp [storeClose], by simp [storeClose], ?_, by rw [habs]; exact hinv⟩
    intro i hi hcl
    exact absurd hcl (closeListed_closed c s.list s.insts hg.lst i (by simpa [storeClose] using hi))

theorem find_isOpen (l : List Inst) (h : Nat) (i : Inst) (hnd : (l.map (·.h)).Nodup)
    (hf : l.find? (fun i => i.h == h) = some i) :
    (l.map absInst).any (fun m => m.h == h && m.isOpen) = i.closed.isNone := by
  induction l with
  | nil => simp at hf
  | cons a l ih =>
    simp only [List.map_cons, List.nodup_cons] at hnd
    simp only [List.find?_cons] at hf
    by_cases ha : (a.h == h) = true
    · simp only [ha] at hf
      have : a = i := by simpa using hf
      subst this
      have hrest : (l.map absInst).any (fun m => m.h == h && m.isOpen) = false := by
        simp only [List.any_eq_false, List.mem_map]
        rintro m ⟨j, hj, rfl⟩
        have : j.h ≠ h := by
          intro e
          have ha' : a.h = h := by simpa using ha
          exact hnd.1 (List.mem_map.mpr ⟨j, hj, by rw [e, ha']⟩)
        simp [absInst, this]
      simp [List.any_cons, hrest, absInst, ha]
    · have ha' : (a.h == h) = false := by simpa using ha
      simp only [ha'] at hf
      simp [List.any_cons, absInst, ha', ih hnd.2 hf]

theorem abs_nodup (s : Impl) (hg : Good s) : (s.insts.map (·.h)).Nodup := by
  have := hg.inv.uniqH
  simpa [abs, List.map_map, Function.comp_def, absInst] using this

theorem sim_isClosed (s : Impl) (hg : Good s) (h : Nat) : Sim s (.isClosed h) := by
  unfold Sim
  cases hget : s.get h with
  | none =>
    have hh : (abs s).has h = false := by rw [abs_has]; exact (get_none_has s h).mp hget
    simp [Impl.runOp, runOpFuel, startPc, stepOp, hget, Reg.step, hh]; exact hg
  | some i =>
    have hh : (abs s).has h = true := by
      rw [abs_has]
      cases hx : s.has h with
      | true => rfl
      | false => have := (get_none_has s h).mpr hx; simp [hget] at this
    have hopen : (abs s).isOpen h = i.closed.isNone := find_isOpen s.insts h i (abs_nodup s hg) hget
    simp [Impl.runOp, runOpFuel, startPc, stepOp, hget, Reg.step, hh, hopen]
    first
      | exact hg
      | exact ⟨by cases i.closed <;> simp, hg⟩

/-! ### the two operations that change the name map: closeModule and instantiate -/

theorem mem_updInst {h : Nat} {f : Inst → Inst} {l : List Inst} {x : Inst} (hx : x ∈ updInst h f l) :
    ∃ y ∈ l, (y.h = h ∧ x = f y) ∨ (y.h ≠ h ∧ x = y) := by
  induction l with
  | nil => simp [updInst] at hx
  | cons a l ih =>
    simp only [updInst, List.mem_cons] at hx
    rcases hx with e | hx
    · refine ⟨a, List.mem_cons_self, ?_⟩
      by_cases ha : (a.h == h) = true
      · simp only [ha, if_true] at e; exact Or.inl ⟨by simpa using ha, e⟩
      · simp only [ha] at e; exact Or.inr ⟨by simpa using ha, e⟩
    · obtain ⟨y, hy, r⟩ := ih hx
      exact ⟨y, List.mem_cons_of_mem _ hy, r⟩

theorem get_some {s : Impl} {h : Nat} {i : Inst} (hget : s.get h = some i) : i ∈ s.insts ∧ i.h = h := by
  refine ⟨List.mem_of_find?_eq_some hget, ?_⟩
  have := List.find?_some hget
  simpa using this

/-- an open, named instance is the owner of its name -/
theorem owner_of_open {s : Impl} (hg : Good s) {i : Inst} (hi : i ∈ s.insts) (ho : i.closed = none)
    (hn : i.name ≠ 0) : (abs s).owner i.name = some i.h := by
  rw [owner_find hn]
  cases hf : (abs s).mods.find? (fun m => m.isOpen && m.name == i.name) with
  | none =>
    have := List.find?_eq_none.mp hf (absInst i) (by simp only [abs]; exact List.mem_map_of_mem hi)
    simp [absInst, ho] at this
  | some m =>
    have hm := List.mem_of_find?_eq_some hf
    have hp := List.find?_some hf
    simp only [Bool.and_eq_true, beq_iff_eq] at hp
    have := hg.inv.oneOwner m hm (absInst i) (by simp only [abs]; exact List.mem_map_of_mem hi) hp.1
      (by simp [absInst, ho]) (by rw [hp.2]; exact hn) (by rw [hp.2]; rfl)
    simp only [Option.map_some]
    exact congrArg some this

theorem insts_same_h {s : Impl} (hg : Good s) {i j : Inst} (hi : i ∈ s.insts) (hj : j ∈ s.insts)
    (e : i.h = j.h) : i = j := by
  have hnd := abs_nodup s hg
  generalize s.insts = l at *
  induction l with
  | nil => simp at hi
  | cons a l ih =>
    simp only [List.map_cons, List.nodup_cons] at hnd
    simp only [List.mem_cons] at hi hj
    rcases hi with rfl | hi <;> rcases hj with rfl | hj
    · rfl
    · exact absurd (List.mem_map.mpr ⟨j, hj, e.symm⟩) hnd.1
    · exact absurd (List.mem_map.mpr ⟨i, hi, e⟩) hnd.1
    · exact ih hi hj hnd.2

theorem ensureRes_closed (i : Inst) : (ensureRes i).closed = i.closed := by
  unfold ensureRes; cases i.notifier <;> cases hs : i.sys <;> simp [hs]

theorem ensureRes_h (i : Inst) : (ensureRes i).h = i.h := by
  unfold ensureRes; cases i.notifier <;> cases hs : i.sys <;> simp [hs]

theorem find_updInst (h : Nat) (f : Inst → Inst) (hf : ∀ i, (f i).h = i.h) (l : List Inst) :
    (updInst h f l).find? (fun i => i.h == h) = (l.find? (fun i => i.h == h)).map f := by
  induction l with
  | nil => rfl
  | cons a l ih =>
    simp only [updInst, List.find?_cons]
    by_cases ha : (a.h == h) = true
    · simp [ha, hf]
    · simp [ha, ih]

def closeNames (s : Impl) (h : Nat) (i : Inst) : Option (List (Nat × Nat)) :=
  if i.name == 0 then s.names else
  match s.names with
  | none => none
  | some nm => if nameLookup i.name nm == some h then some (nameErase i.name nm) else some nm

theorem runOp_close_open (s : Impl) (h c : Nat) (i : Inst) (hget : s.get h = some i) (hcl : i.closed = none) :
    s.runOp Cfg.repaired (.closeModule h c) =
      (⟨updInst h ensureRes (updInst h (fun i => { i with closed := some c }) s.insts),
        s.list.filter (· != h), closeNames s h i, s.rtClosed⟩, .ok) := by
  have hget' : Impl.get { s with insts := updInst h (fun i => { i with closed := some c }) s.insts } h
      = some { i with closed := some c } := by
    simp only [Impl.get] at hget ⊢
    rw [find_updInst h (fun i => { i with closed := some c }) (fun _ => rfl), hget]; rfl
  simp only [Impl.runOp, runOpFuel, startPc, stepOp, hget, hcl, Option.isSome_none, Bool.false_eq_true, if_false,
    Cfg.repaired, if_true, deleteModule, hget', closeNames]
  cases hn : (i.name == 0) <;> cases hnm : s.names <;> simp

theorem sim_closeModule (s : Impl) (hg : Good s) (h c : Nat) : Sim s (.closeModule h c) := by
  unfold Sim
  cases hget : s.get h with
  | none =>
    have hh : (abs s).has h = false := by rw [abs_has]; exact (get_none_has s h).mp hget
    simp [Impl.runOp, runOpFuel, startPc, stepOp, hget, Reg.step, hh]; exact hg
  | some i =>
    obtain ⟨himem, hih⟩ := get_some hget
    have hh : (abs s).has h = true := by
      rw [abs_has]
      cases hx : s.has h with
      | true => rfl
      | false => have := (get_none_has s h).mpr hx; simp [hget] at this
    have hinv := step_inv (abs s) (.closeModule h c) hg.inv
    have honly : ∀ m ∈ (abs s).mods, m.h = h → m = absInst i := by
      intro m hm e
      simp only [abs, List.mem_map] at hm
      obtain ⟨j, hj, rfl⟩ := hm
      have : j = i := insts_same_h hg hj himem (by simpa [absInst, hih] using e)
      rw [this]
    cases hcl : i.closed with
    | some c0 =>
      have hid : closeMods h (abs s).mods = (abs s).mods := by
        apply closeMods_id
        intro m hm e
        rw [honly m hm e]; simp [absInst, hcl]
      have habs : abs s = ((abs s).step (.closeModule h c)).1 := by
        simp only [Reg.step, hh, if_true, hid]
      simp only [Impl.runOp, runOpFuel, startPc, stepOp, hget, hcl, Option.isSome_some, if_true]
      refine ⟨by simp [Reg.step, hh], habs, hg⟩
    | none =>
      rw [runOp_close_open s h c i hget hcl]
      have hstep : (abs s).step (.closeModule h c) = (⟨closeMods h (abs s).mods, (abs s).rtClosed⟩, .ok) := by
        simp [Reg.step, hh]
      rw [hstep] at hinv ⊢
      have habs : abs ⟨updInst h ensureRes (updInst h (fun i => { i with closed := some c }) s.insts),
          s.list.filter (· != h), closeNames s h i, s.rtClosed⟩ = ⟨closeMods h (abs s).mods, (abs s).rtClosed⟩ := by
        simp only [abs, map_updInst_same h ensureRes absInst_ensureRes, map_updInst_close]
      refine ⟨rfl, habs, ?_⟩
      refine ⟨?_, ?_, ?_, by rw [habs]; exact hinv⟩
      · -- rt
        show closeNames s h i = none ↔ s.rtClosed.isSome = true
        rw [← hg.rt]
        unfold closeNames
        cases hn : (i.name == 0) <;> cases hnm : s.names <;> simp
        split <;> simp
      · -- nm
        intro m hm n hn
        rw [habs]
        show nameLookup n m = Reg.owner ⟨closeMods h (abs s).mods, (abs s).rtClosed⟩ n
        rw [owner_find hn]
        show nameLookup n m = ((closeMods h (abs s).mods).find? _).map _
        by_cases hne : i.name = n
        · -- the closed module's own name
          subst hne
          have hown := owner_of_open hg himem hcl hn
          have hreuse := closed_name_reusable (abs s) hg.inv i.name h c (by rw [hown, hih])
          rw [hstep, owner_find hn] at hreuse
          rw [show ((closeMods h (abs s).mods).find? _).map _ = none from hreuse]
          have hn0 : (i.name == 0) = false := by simpa using hn
          obtain ⟨nm, hnm⟩ : ∃ nm, s.names = some nm := by
            cases hq : s.names with
            | none => simp [closeNames, hn0, hq] at hm
            | some nm => exact ⟨nm, rfl⟩
          have hl : nameLookup i.name nm = some h := by rw [hg.nm nm hnm i.name hn, hown, hih]
          simp only [closeNames, hn0, hnm, hl, beq_self_eq_true, if_true] at hm
          have : m = nameErase i.name nm := by simpa using hm.symm
          rw [this]; exact nameLookup_erase_self _ _
        · have hfind := find_closeMods h n (abs s).mods (by
            intro m' hm' e
            rw [honly m' hm' e]; simp [absInst, hne])
          rw [hfind, ← owner_find hn]
          cases hq : s.names with
          | none =>
            simp only [closeNames, hq] at hm
            split at hm <;> simp at hm
          | some nm =>
            rw [← hg.nm nm hq n hn]
            simp only [closeNames, hq] at hm
            split at hm
            · have : m = nm := by simpa using hm.symm
              rw [this]
            · split at hm
              · have : m = nameErase i.name nm := by simpa using hm.symm
                rw [this]; exact nameLookup_erase_ne n i.name (Ne.symm hne) nm
              · have : m = nm := by simpa using hm.symm
                rw [this]
      · -- lst
        intro j hj hjc
        show j.h ∈ s.list.filter (· != h)
        obtain ⟨y, hy, hyj⟩ := mem_updInst hj
        obtain ⟨z, hz, hzy⟩ := mem_updInst hy
        have hjh : j.h ≠ h ∧ j = z := by
          rcases hzy with ⟨e1, e2⟩ | ⟨e1, e2⟩ <;> rcases hyj with ⟨e3, e4⟩ | ⟨e3, e4⟩
          · subst e2 e4
            exfalso
            rw [ensureRes_closed] at hjc; simp at hjc
          · subst e2; exact absurd e1 e3
          · subst e2; exact absurd e3 e1
          · subst e2 e4; exact ⟨e1, rfl⟩
        obtain ⟨hne, rfl⟩ := hjh
        have := hg.lst j hz hjc
        simp [List.mem_filter, this, hne]

def freshI (h n : Nat) : Inst := ⟨h, n, none, false, true, [], 0⟩

theorem updInst_not_has (h : Nat) (f : Inst → Inst) (l : List Inst) (hh : l.any (fun i => i.h == h) = false) :
    updInst h f l = l := by
  induction l with
  | nil => rfl
  | cons a l ih =>
    simp only [List.any_cons, Bool.or_eq_false_iff] at hh
    simp [updInst, hh.1, ih hh.2]

theorem runOp_inst_closed (s : Impl) (h n c : Nat) (p : Pre) (hrt : s.rtClosed = some c) :
    s.runOp Cfg.repaired (.instantiate h n p) = (s, .errClosed) := by
  cases p <;> simp [Impl.runOp, runOpFuel, startPc, stepOp, hrt, Cfg.repaired]

theorem runOp_inst_has (s : Impl) (h n : Nat) (p : Pre) (nm : List (Nat × Nat)) (hrt : s.rtClosed = none)
    (hnm : s.names = some nm) (hh : s.has h = true) :
    s.runOp Cfg.repaired (.instantiate h n p) = (s, .bad) := by
  cases p <;> simp [Impl.runOp, runOpFuel, startPc, stepOp, hrt, Cfg.repaired, typesSection, hnm, afterCompile, hh]

theorem runOp_inst_ok (s : Impl) (h n : Nat) (p : Pre) (nm : List (Nat × Nat)) (hrt : s.rtClosed = none)
    (hnm : s.names = some nm) (hh : s.has h = false) (hfree : (n != 0 && (nameLookup n nm).isSome) = false) :
    s.runOp Cfg.repaired (.instantiate h n p) =
      (⟨{ freshI h n with notifier := true } :: s.insts, h :: s.list,
        some (if n != 0 then (n, h) :: nm else nm), s.rtClosed⟩, .ok) := by
  cases p <;> simp [Impl.runOp, runOpFuel, startPc, stepOp, hrt, Cfg.repaired, typesSection, hnm, afterCompile, hh,
    hfree, freshI]

theorem runOp_inst_dup (s : Impl) (h n : Nat) (p : Pre) (nm : List (Nat × Nat)) (hrt : s.rtClosed = none)
    (hnm : s.names = some nm) (hh : s.has h = false) (hdup : (n != 0 && (nameLookup n nm).isSome) = true)
    (hother : nameLookup n nm ≠ some h) :
    s.runOp Cfg.repaired (.instantiate h n p) =
      (⟨ensureRes { freshI h n with closed := some 0 } :: s.insts, s.list.filter (· != h),
        some nm, s.rtClosed⟩, .errDup) := by
  have hu : ∀ f, updInst h f s.insts = s.insts := fun f => updInst_not_has h f s.insts hh
  have hn0 : (n == 0) = false := by
    cases hq : (n == 0) with
    | false => rfl
    | true => simp [show n = 0 by simpa using hq] at hdup
  have hne : (nameLookup n nm == some h) = false := by simpa using hother
  cases p <;> simp [Impl.runOp, runOpFuel, startPc, stepOp, hrt, Cfg.repaired, typesSection, hnm, afterCompile, hh,
    hdup, freshI, updInst, hu, deleteModule, Impl.get, hn0, hne]

theorem owner_has {r : Reg} {n h : Nat} (ho : r.owner n = some h) : r.has h = true := by
  have hn : n ≠ 0 := by intro e; simp [Reg.owner, e] at ho
  rw [owner_find hn] at ho
  obtain ⟨m, hfind, e⟩ : ∃ m, r.mods.find? (fun m => m.isOpen && m.name == n) = some m ∧ m.h = h := by
    simpa using ho
  exact (has_iff r h).mpr (List.mem_map.mpr ⟨m, List.mem_of_find?_eq_some hfind, e⟩)

theorem owner_cons_closed (r : Reg) (h n k : Nat) :
    Reg.owner { r with mods := ⟨h, n, false⟩ :: r.mods } k = r.owner k := by
  simp [Reg.owner]

theorem owner_cons_open (r : Reg) (h n k : Nat) (hk : k ≠ 0) :
    Reg.owner { r with mods := ⟨h, n, true⟩ :: r.mods } k = if n == k then some h else r.owner k := by
  simp only [Reg.owner, List.find?_cons, Bool.true_and]
  have : (k == 0) = false := by simpa using hk
  simp only [this, Bool.false_eq_true, if_false]
  by_cases hnk : (n == k) = true <;> simp [hnk]

theorem sim_instantiate (s : Impl) (hg : Good s) (h n : Nat) (p : Pre) : Sim s (.instantiate h n p) := by
  unfold Sim
  have hinv := step_inv (abs s) (.instantiate h n p) hg.inv
  cases hrt : s.rtClosed with
  | some c =>
    rw [runOp_inst_closed s h n c p hrt]
    have : (abs s).rtClosed = true := by simp [abs, hrt]
    simp only [Reg.step, this, if_true]
    exact ⟨trivial, trivial, hg⟩
  | none =>
    obtain ⟨nm, hnm⟩ := names_some_of_open hg hrt
    have hrc : (abs s).rtClosed = false := by simp [abs, hrt]
    cases hh : s.has h with
    | true =>
      rw [runOp_inst_has s h n p nm hrt hnm hh]
      have : (abs s).has h = true := by rw [abs_has]; exact hh
      simp only [Reg.step, hrc, this, if_true, Bool.false_eq_true, if_false]
      exact ⟨trivial, trivial, hg⟩
    | false =>
      have hah : (abs s).has h = false := by rw [abs_has]; exact hh
      have hne_h : ∀ j ∈ s.insts, j.h ≠ h := by
        intro j hj e
        simp only [Impl.has, List.any_eq_false] at hh
        exact hh j hj (by simp [e])
      have hlook : (n != 0 && (nameLookup n nm).isSome) = ((abs s).owner n).isSome := by
        by_cases hn : n = 0
        · subst hn; simp [Reg.owner]
        · rw [hg.nm nm hnm n hn]; simp [hn]
      cases hown : ((abs s).owner n).isSome with
      | true =>
        rw [hown] at hlook
        have hn : n ≠ 0 := by intro e; subst e; simp at hlook
        have hother : nameLookup n nm ≠ some h := by
          intro e
          rw [hg.nm nm hnm n hn] at e
          have := owner_has e
          rw [hah] at this; exact absurd this (by simp)
        rw [runOp_inst_dup s h n p nm hrt hnm hh hlook hother]
        have hstep : (abs s).step (.instantiate h n p) = ({ (abs s) with mods := ⟨h, n, false⟩ :: (abs s).mods }, .errDup) := by
          simp [Reg.step, hrc, hah, hown]
        rw [hstep] at hinv ⊢
        have habs : abs ⟨ensureRes { freshI h n with closed := some 0 } :: s.insts, s.list.filter (· != h), some nm, s.rtClosed⟩
            = { (abs s) with mods := ⟨h, n, false⟩ :: (abs s).mods } := by
          simp only [abs, List.map_cons, absInst_ensureRes]; rfl
        refine ⟨rfl, habs, ?_⟩
        refine ⟨by simp [hrt], ?_, ?_, by rw [habs]; exact hinv⟩
        · intro m hm k hk
          rw [habs, owner_cons_closed]
          have : m = nm := by simpa using hm.symm
          rw [this]; exact hg.nm nm hnm k hk
        · intro j hj hjc
          simp only [List.mem_cons] at hj
          rcases hj with rfl | hj
          · rw [ensureRes_closed] at hjc; simp at hjc
          · have := hg.lst j hj hjc
            simp [List.mem_filter, this, hne_h j hj]
      | false =>
        rw [hown] at hlook
        rw [runOp_inst_ok s h n p nm hrt hnm hh hlook]
        have hstep : (abs s).step (.instantiate h n p) = ({ (abs s) with mods := ⟨h, n, true⟩ :: (abs s).mods }, .ok) := by
          simp [Reg.step, hrc, hah, hown]
        rw [hstep] at hinv ⊢
        have habs : abs ⟨{ freshI h n with notifier := true } :: s.insts, h :: s.list,
            some (if n != 0 then (n, h) :: nm else nm), s.rtClosed⟩
            = { (abs s) with mods := ⟨h, n, true⟩ :: (abs s).mods } := by
          simp only [abs, List.map_cons]; rfl
        refine ⟨rfl, habs, ?_⟩
        refine ⟨by simp [hrt], ?_, ?_, by rw [habs]; exact hinv⟩
        · intro m hm k hk
          rw [habs, owner_cons_open _ _ _ _ hk]
          have hm' : m = if n != 0 then (n, h) :: nm else nm := by simpa using hm.symm
          rw [hm']
          by_cases hn : n = 0
          · subst hn
            have : (0 == k) = false := by simpa using (Ne.symm hk)
            simp [this]; exact hg.nm nm hnm k hk
          · have hn' : (n != 0) = true := by simpa using hn
            simp only [hn', if_true, nameLookup]
            by_cases hnk : (n == k) = true
            · simp [hnk]
            · simp only [hnk, Bool.false_eq_true, if_false]; exact hg.nm nm hnm k hk
        · intro j hj hjc
          simp only [List.mem_cons] at hj
          rcases hj with rfl | hj
          · simp [freshI]
          · exact List.mem_cons_of_mem _ (hg.lst j hj hjc)

/-! ## Part C: sequential refinement of the repaired variant -/

/-- **Sequential refinement, one operation.** From EVERY state satisfying the simulation invariant `Good`
(name map = owners, list ⊇ open instances, closed flags consistent, `RegInv`) and for EVERY operation, running
the operation to completion on the repaired implementation model returns exactly what the atomic registry
returns on the abstraction of the state, the abstraction commutes with the step, and the invariant is
preserved. No precondition on handles or names is needed: a reused handle is answered `bad` by both sides. -/
theorem seq_refinement_step (s : Impl) (hg : Good s) (op : Op) :
    (s.runOp Cfg.repaired op).2 = ((abs s).step op).2 ∧
    abs (s.runOp Cfg.repaired op).1 = ((abs s).step op).1 ∧ Good (s.runOp Cfg.repaired op).1 := by
  cases op with
  | instantiate h n p => exact sim_instantiate s hg h n p
  | closeModule h c => exact sim_closeModule s hg h c
  | lookup n => exact sim_lookup s hg n
  | compile => exact sim_compile s hg
  | hostCompile f => exact sim_hostCompile s hg f
  | closeRuntime c => exact sim_closeRuntime s hg c
  | isClosed h => exact sim_isClosed s hg h

/-- The simulation step restricted to the operations that do not change the name map (kept under its old
name; now a corollary of `seq_refinement_step`, which has no restriction on the operation). -/
theorem seq_refinement_partial (s : Impl) (hg : Good s) (op : Op)
    (hop : match op with | .instantiate _ _ _ => False | .closeModule _ _ => False | _ => True) :
    (s.runOp Cfg.repaired op).2 = ((abs s).step op).2 ∧
    abs (s.runOp Cfg.repaired op).1 = ((abs s).step op).1 ∧ Good (s.runOp Cfg.repaired op).1 :=
  seq_refinement_step s hg op

/-- Non-vacuity: the initial state is `Good`, and so is a state with an open named module. -/
theorem good_init : Good Impl.init :=
  ⟨by simp [Impl.init], by intro m hm n hn; simp [Impl.init] at hm; subst hm; simp [nameLookup, abs, Impl.init, Reg.owner, hn],
   by simp [Impl.init], (show RegInv (abs Impl.init) from (rfl : abs Impl.init = Reg.init) ▸ init_inv)⟩

/-- Sequential refinement from any `Good` state: results, final abstraction and invariant. -/
theorem seq_refinement_from (ops : List Op) (s : Impl) (hg : Good s) :
    (Impl.run Cfg.repaired s ops).2 = (Reg.run (abs s) ops).2 ∧
    abs (Impl.run Cfg.repaired s ops).1 = (Reg.run (abs s) ops).1 ∧ Good (Impl.run Cfg.repaired s ops).1 := by
  induction ops generalizing s with
  | nil => exact ⟨rfl, rfl, hg⟩
  | cons op ops ih =>
    obtain ⟨h1, h2, h3⟩ := seq_refinement_step s hg op
    obtain ⟨i1, i2, i3⟩ := ih _ h3
    simp only [Impl.run, Reg.run]
    rw [h2] at i1 i2
    exact ⟨by rw [h1, i1], i2, i3⟩

/-- **Sequential refinement.** EVERY sequential run of the repaired implementation model (all five finding
switches on) returns exactly what the atomic registry returns — for every operation list, with no
well-formedness hypothesis (false for `Cfg.asIs`: `dup_name_witness`, `host_compile_witness`). -/
theorem seq_refinement (ops : List Op) :
    (Impl.run Cfg.repaired Impl.init ops).2 = (Reg.run Reg.init ops).2 :=
  (seq_refinement_from ops Impl.init good_init).1

/-- Non-vacuity of `seq_refinement`: the common result list is not degenerate. The list exercises
instantiate (success, duplicate name, host pre-compiled), a reused handle, closeModule (twice), re-instantiation
of the freed name, lookup, isClosed, closeRuntime, and requests after the runtime is closed. -/
example : (Impl.run Cfg.repaired Impl.init [.instantiate 1 1 .none, .instantiate 2 1 .bin, .instantiate 1 2 .none,
    .lookup 1, .closeModule 1 3, .closeModule 1 4, .lookup 1, .instantiate 3 1 .host, .lookup 1, .isClosed 1,
    .isClosed 2, .isClosed 3, .closeRuntime 0, .isClosed 3, .lookup 1, .instantiate 4 5 .host, .hostCompile true]).2 =
  [.ok, .errDup, .bad, .found 1, .ok, .ok, .notFound, .ok, .found 3, .closedIs true, .closedIs true,
    .closedIs false, .ok, .closedIs true, .notFound, .errClosed, .errClosed] ∧
  (Reg.run Reg.init [.instantiate 1 1 .none, .instantiate 2 1 .bin, .instantiate 1 2 .none,
    .lookup 1, .closeModule 1 3, .closeModule 1 4, .lookup 1, .instantiate 3 1 .host, .lookup 1, .isClosed 1,
    .isClosed 2, .isClosed 3, .closeRuntime 0, .isClosed 3, .lookup 1, .instantiate 4 5 .host, .hostCompile true]).2 =
  [.ok, .errDup, .bad, .found 1, .ok, .ok, .notFound, .ok, .found 3, .closedIs true, .closedIs true,
    .closedIs false, .ok, .closedIs true, .notFound, .errClosed, .errClosed] := by decide

/-- test (sample): on this operation list the repaired model and the specification agree -/
example : (Impl.run Cfg.repaired Impl.init [.instantiate 1 1 .none, .instantiate 2 1 .bin, .lookup 1, .closeModule 1 3,
    .instantiate 3 1 .host, .lookup 1, .closeRuntime 0, .isClosed 3, .hostCompile true]).2 =
  (Reg.run Reg.init [.instantiate 1 1 .none, .instantiate 2 1 .bin, .lookup 1, .closeModule 1 3,
    .instantiate 3 1 .host, .lookup 1, .closeRuntime 0, .isClosed 3, .hostCompile true]).2 := by decide

/-! ## Part E (tie A): the atomic actions of the model are single critical sections in the source -/

/-- Regenerated from the source on every run (`translate/facts/c10_sections`): each of the four functions
the model treats as ONE atomic action takes `Store.mux` in its first statement, defers the release in its
second, and contains no other Lock/Unlock. A change that splits one of these critical sections (or adds a
second one) breaks this obligation. -/
theorem critical_sections_atomic :
    Wz.Gen.C10Sections.table =
      [("Store.registerModule", 1, 1, true, true), ("Store.deleteModule", 1, 1, true, true),
       ("Store.module", 1, 1, true, true), ("Store.CloseWithExitCode", 1, 1, true, true)] := by decide

/-- **Regenerated obligation**: the first thing `registerModule` does inside its critical section is to refuse
when the store is closed (`nameToModule == nil`) - for every module, named or anonymous.  This is the model's
`iReg` step on a closed store (a fresh, closed instance and the "closed" error); a seeded change that moved the
check into the named-module branch let anonymous modules be registered after `Runtime.Close` had returned. -/
theorem register_refuses_on_closed_store : Wz.Gen.C10Sections.registerRefusesWhenClosed = true := by decide

/-! ## Part D: close effects under all interleavings -/

/-- **Close effects, all interleavings** (partial: the at-most-once half and the FS half of exactly-once).
For every variant, any number of threads with any programs and any schedule: every instance's resources
are released at most once, and never while `Sys` is still attached.
Full statement (not proved): additionally `notified.length ≤ 1`, and `= 1` / `fsCloses = 1` for closed
instances at quiescence. The notifier half is false on the pinned tree in the "= 1" direction
(`notifier_lost_witness`); "≤ 1" needs the thread-level fact that only the creating thread executes the
late attachment `iNote` once, which is not proved here (covered by the harness monitor). -/
theorem close_effects_once_partial (cfg : Cfg) (progs : List (List Op)) (sched : List Nat) :
    ∀ i ∈ ((Conc.start progs).exec cfg sched).shared.insts,
      i.fsCloses ≤ 1 ∧ (i.sys = true → i.fsCloses = 0) :=
  Wz.C10.Refine.exec_res_once cfg progs sched

/-- Every atomic action except the late notifier attachment keeps "fired + still armed ≤ 1". -/
theorem notifier_once_step_partial (cfg : Cfg) (s : Impl) (op : Op) (pc : Pc) (hpc : pc ≠ .iNote)
    (hs : ∀ i ∈ s.insts, i.notified.length + (if i.notifier then 1 else 0) ≤ 1) :
    ∀ i ∈ (stepOp cfg s op pc).1.insts, i.notified.length + (if i.notifier then 1 else 0) ≤ 1 :=
  Wz.C10.Refine.step_note_once cfg s op pc hpc hs


/-- **Regenerated obligation** (wasm/module_instance.go): `CloseWithExitCode` unregisters the instance BEFORE it
releases the resources and does not let a failing release skip anything: the name is free and lookups no longer
find the instance whatever `ensureResourcesClosed` returns (the model's `mDel` before `mRes`). -/
theorem close_unregisters_before_releasing :
    Wz.Gen.Shapes.get "c10.close_tail" = some "_ = m.s.deleteModule(m) ;; return m.ensureResourcesClosed(ctx)" := by decide

/-! ## Part F: linearizability of the repaired variant under all interleavings -/

/-! ### the abstraction with ghost sets -/

/-- Abstraction of one instance: it counts as closed also while it is `dy`ing (created by an instantiate that
lost the name race: the registry records it closed from the start, the implementation closes it two actions
later). -/
def absI (dy : List Nat) (i : Inst) : Mod := ⟨i.h, i.name, i.closed.isNone && !decide (i.h ∈ dy)⟩

/-- Instances the registry knows: all but the `hid`den ones (created by an instantiate that found the store
closed: the registry refuses it without a record). -/
def vis (hid : List Nat) (l : List Inst) : List Inst := l.filter (fun i => !decide (i.h ∈ hid))

def absG (hid dy : List Nat) (s : Impl) : Reg := ⟨(vis hid s.insts).map (absI dy), s.rtClosed.isSome⟩

theorem absG_nil (s : Impl) : absG [] [] s = abs s := by
  have : absI [] = absInst := by funext i; simp [absI, absInst]
  have hf : ∀ l : List Inst, l.filter (fun _ => true) = l := fun l => by induction l <;> simp_all
  simp [absG, abs, vis, this, hf]

theorem mem_vis {hid : List Nat} {l : List Inst} {i : Inst} : i ∈ vis hid l ↔ i ∈ l ∧ i.h ∉ hid := by
  simp [vis, List.mem_filter]

theorem vis_updInst (hid : List Nat) (h : Nat) (f : Inst → Inst) (hf : ∀ i, (f i).h = i.h) (l : List Inst) :
    vis hid (updInst h f l) = updInst h f (vis hid l) := by
  induction l with
  | nil => rfl
  | cons a l ih =>
    simp only [vis] at ih ⊢
    simp only [updInst, List.filter_cons]
    by_cases ha : (a.h == h) = true
    · simp only [ha, if_true, hf]
      by_cases hv : (!decide (a.h ∈ hid)) = true
      · simp only [hv, if_true, updInst, ha, ih]
      · simp [hv, ih]
    · simp only [ha]
      by_cases hv : (!decide (a.h ∈ hid)) = true
      · simp [hv, updInst, ha, ih]
      · simp [hv, ih]

theorem updInst_not_mem (h : Nat) (f : Inst → Inst) (l : List Inst) (hh : ∀ i ∈ l, i.h ≠ h) :
    updInst h f l = l := by
  apply updInst_not_has
  simp only [List.any_eq_false]
  intro i hi; simpa using hh i hi

theorem map_absI_updInst_same (dy : List Nat) (h : Nat) (f : Inst → Inst)
    (hf : ∀ i, i.h = h → absI dy (f i) = absI dy i) (l : List Inst) :
    (updInst h f l).map (absI dy) = l.map (absI dy) := by
  induction l with
  | nil => rfl
  | cons a l ih =>
    simp only [updInst, List.map_cons, ih]
    by_cases ha : (a.h == h) = true
    · simp [ha, hf a (by simpa using ha)]
    · simp [ha]

theorem map_absI_updInst_close (dy : List Nat) (h c : Nat) (l : List Inst) :
    (updInst h (fun i => { i with closed := some c }) l).map (absI dy) = closeMods h (l.map (absI dy)) := by
  induction l with
  | nil => rfl
  | cons a l ih =>
    simp only [updInst, List.map_cons, closeMods, ih]
    by_cases ha : (a.h == h) = true <;> simp [ha, absI]

theorem absI_ensureRes (dy : List Nat) (i : Inst) : absI dy (ensureRes i) = absI dy i := by
  simp [absI, ensureRes_closed, ensureRes_h]
  unfold ensureRes
  cases hn : i.notifier <;> cases hs : i.sys <;> simp [hs]

theorem has_iff_mem (s : Impl) (h : Nat) : s.has h = true ↔ ∃ i ∈ s.insts, i.h = h := by
  simp [Impl.has, List.any_eq_true]

theorem has_false_iff (s : Impl) (h : Nat) : s.has h = false ↔ ∀ i ∈ s.insts, i.h ≠ h := by
  simp [Impl.has, List.any_eq_false]

theorem absG_has (hid dy : List Nat) (s : Impl) (h : Nat) :
    (absG hid dy s).has h = (s.has h && !decide (h ∈ hid)) := by
  rw [Bool.eq_iff_iff]
  simp only [has_iff, absG, List.mem_map, Bool.and_eq_true, has_iff_mem, mem_vis]
  constructor
  · rintro ⟨m, ⟨i, ⟨hi, hv⟩, rfl⟩, e⟩
    have e' : i.h = h := e
    exact ⟨⟨i, hi, e'⟩, by simpa [e'] using hv⟩
  · rintro ⟨⟨i, hi, e⟩, hv⟩
    exact ⟨absI dy i, ⟨i, ⟨hi, by simpa [e] using hv⟩, rfl⟩, e⟩

/-! ### the simulation invariant with ghost sets -/

structure GInv (hid dy : List Nat) (s : Impl) : Prop where
  rt : s.names = none ↔ s.rtClosed.isSome = true
  nm : ∀ m, s.names = some m → ∀ n, n ≠ 0 → nameLookup n m = (absG hid dy s).owner n
  lst : ∀ i ∈ s.insts, i.closed = none → i.h ∉ hid → i.h ∉ dy → i.h ∈ s.list
  inv : RegInv (absG hid dy s)
  nd : (s.insts.map (·.h)).Nodup
  hidIn : ∀ h ∈ hid, s.has h = true
  dyIn : ∀ h ∈ dy, s.has h = true

theorem ginv_init : GInv [] [] Impl.init := by
  refine ⟨good_init.rt, ?_, by simp [Impl.init], ?_, by simp [Impl.init], by simp, by simp⟩
  · rw [absG_nil]; exact good_init.nm
  · rw [absG_nil]; exact good_init.inv

theorem insts_same_hL {l : List Inst} (hnd : (l.map (·.h)).Nodup) {i j : Inst} (hi : i ∈ l) (hj : j ∈ l)
    (e : i.h = j.h) : i = j := by
  induction l with
  | nil => simp at hi
  | cons a l ih =>
    simp only [List.map_cons, List.nodup_cons] at hnd
    simp only [List.mem_cons] at hi hj
    rcases hi with rfl | hi <;> rcases hj with rfl | hj
    · rfl
    · exact absurd (List.mem_map.mpr ⟨j, hj, e.symm⟩) hnd.1
    · exact absurd (List.mem_map.mpr ⟨i, hi, e⟩) hnd.1
    · exact ih hnd.2 hi hj

/-- a visible, open, not dying, named instance is the owner of its name -/
theorem owner_of_openG {hid dy : List Nat} {s : Impl} (hg : GInv hid dy s) {i : Inst} (hi : i ∈ s.insts)
    (ho : i.closed = none) (hh : i.h ∉ hid) (hd : i.h ∉ dy) (hn : i.name ≠ 0) :
    (absG hid dy s).owner i.name = some i.h := by
  have hmem : absI dy i ∈ (absG hid dy s).mods := by
    simp only [absG]; exact List.mem_map_of_mem (mem_vis.mpr ⟨hi, hh⟩)
  rw [owner_find hn]
  cases hf : (absG hid dy s).mods.find? (fun m => m.isOpen && m.name == i.name) with
  | none =>
    have := List.find?_eq_none.mp hf (absI dy i) hmem
    simp [absI, ho, hd] at this
  | some m =>
    have hm := List.mem_of_find?_eq_some hf
    have hp := List.find?_some hf
    simp only [Bool.and_eq_true, beq_iff_eq] at hp
    have := hg.inv.oneOwner m hm (absI dy i) hmem hp.1
      (by simp [absI, ho, hd]) (by rw [hp.2]; exact hn) (by rw [hp.2]; rfl)
    simp only [Option.map_some]
    exact congrArg some this

/-- the owner of a name is a visible, open, not dying instance -/
theorem owner_someG {hid dy : List Nat} {s : Impl} {n h : Nat} (ho : (absG hid dy s).owner n = some h) :
    ∃ i ∈ s.insts, i.h = h ∧ i.closed = none ∧ h ∉ hid ∧ h ∉ dy ∧ i.name = n := by
  have hn : n ≠ 0 := by intro e; simp [Reg.owner, e] at ho
  rw [owner_find hn] at ho
  obtain ⟨m, hfind, e⟩ : ∃ m, (absG hid dy s).mods.find? (fun m => m.isOpen && m.name == n) = some m ∧ m.h = h := by
    simpa using ho
  have hm := List.mem_of_find?_eq_some hfind
  have hp := List.find?_some hfind
  simp only [Bool.and_eq_true, beq_iff_eq] at hp
  simp only [absG, List.mem_map] at hm
  obtain ⟨i, hi, rfl⟩ := hm
  obtain ⟨hi1, hi2⟩ := mem_vis.mp hi
  have e' : i.h = h := e
  have h1 : i.closed.isNone = true ∧ i.h ∉ dy := by simpa [absI] using hp.1
  refine ⟨i, hi1, e', ?_, e' ▸ hi2, e' ▸ h1.2, hp.2⟩
  cases hc : i.closed with
  | none => rfl
  | some v => simp [hc] at h1

/-! ### linearization points, thread-local invariants, the per-action obligation -/

/-- The result an operation is committed to once it is past its linearization action (`none` = not yet
linearized). Only program counters reachable in the repaired variant matter. -/
def post : Pc → Option Res
  | .fCas e => some e
  | .fDel e => some e
  | .fRes e => some e
  | .done e => some e
  | .mRes => some .ok
  | _ => none

/-- The program counters an operation can be at in the repaired variant. -/
def Compat : Op → Pc → Bool
  | _, .done _ => true
  | .compile, .cFail => true
  | .compile, .cTypes => true
  | .hostCompile _, .hFail _ => true
  | .hostCompile _, .hTypes => true
  | .instantiate _ _ _, .cFail => true
  | .instantiate _ _ _, .cTypes => true
  | .instantiate _ _ _, .hFail _ => true
  | .instantiate _ _ _, .hTypes => true
  | .instantiate _ _ _, .iFail => true
  | .instantiate _ _ _, .iReg => true
  | .instantiate _ _ _, .fCas e => e != .ok
  | .instantiate _ _ _, .fDel e => e != .ok
  | .instantiate _ _ _, .fRes e => e != .ok
  | .lookup _, .look => true
  | .closeModule _ _, .mCas => true
  | .closeModule _ _, .mRes => true
  | .closeRuntime _, .rCas => true
  | .isClosed _, .isCl => true
  | _, _ => false

/-- before the instance record is created -/
def preReg : Pc → Bool
  | .cFail | .cTypes | .hFail _ | .hTypes | .iFail | .iReg => true
  | _ => false

/-- the failed-registration tail -/
def fPhase : Pc → Bool
  | .fCas _ | .fDel _ | .fRes _ => true
  | _ => false

/-- A handle the registry and the implementation agree on. -/
def Safe (hid dy : List Nat) (s : Impl) (h : Nat) : Prop := s.has h = true ∧ h ∉ hid ∧ h ∉ dy

/-- What an operation in progress needs from the shared state (all of it is stable under the actions of the
other threads, given that instantiate handles are pairwise distinct). -/
def TInv (hid dy : List Nat) (s : Impl) : Op → Pc → Prop
  | .instantiate h _ _, pc =>
      (preReg pc = true → s.has h = false) ∧
      (fPhase pc = true → s.has h = true ∧ (h ∈ hid ∨ h ∈ dy)) ∧
      (pc = .done .ok → Safe hid dy s h)
  | .closeModule h _, pc => pc = .mCas → Safe hid dy s h
  | .isClosed h, pc => pc = .isCl → Safe hid dy s h
  | .lookup _, pc => ∀ h, pc = .done (.found h) → Safe hid dy s h
  | _, _ => True

/-- Ghost sets after an action: only a failing registration adds a handle. -/
def ghostStep (s : Impl) (op : Op) (pc : Pc) (g : List Nat × List Nat) : List Nat × List Nat :=
  match pc, op with
  | .iReg, .instantiate h n _ =>
    if s.has h then g else
    match s.names with
    | none => (h :: g.1, g.2)
    | some nm => if n != 0 && (nameLookup n nm).isSome then (g.1, h :: g.2) else g
  | _, _ => g

/-- How one action relates the registry before and after: nothing happens before and after the linearization
action; AT the linearization action the registry executes the whole operation and returns the result the
operation is from then on committed to. -/
def LinRel (r r' : Reg) (op : Op) : Option Res → Option Res → Prop
  | none, none => r' = r
  | none, some x => r.step op = (r', x)
  | some x, y => y = some x ∧ r' = r

/-- The obligation of one atomic action of one operation. -/
structure Act (hid dy : List Nat) (s : Impl) (op : Op) (pc : Pc) : Prop where
  ginv : GInv (ghostStep s op pc (hid, dy)).1 (ghostStep s op pc (hid, dy)).2 (stepOp Cfg.repaired s op pc).1
  compat : Compat op (stepOp Cfg.repaired s op pc).2 = true
  tinv : TInv (ghostStep s op pc (hid, dy)).1 (ghostStep s op pc (hid, dy)).2 (stepOp Cfg.repaired s op pc).1 op
    (stepOp Cfg.repaired s op pc).2
  lin : LinRel (absG hid dy s)
    (absG (ghostStep s op pc (hid, dy)).1 (ghostStep s op pc (hid, dy)).2 (stepOp Cfg.repaired s op pc).1) op
    (post pc) (post (stepOp Cfg.repaired s op pc).2)
  hasMono : ∀ h, s.has h = true → (stepOp Cfg.repaired s op pc).1.has h = true
  newH : ∀ h, (stepOp Cfg.repaired s op pc).1.has h = true →
    s.has h = true ∨ (pc = .iReg ∧ ∃ n p, op = .instantiate h n p)
  hidMono : ∀ h ∈ hid, h ∈ (ghostStep s op pc (hid, dy)).1
  dyMono : ∀ h ∈ dy, h ∈ (ghostStep s op pc (hid, dy)).2
  hidNew : ∀ h ∈ (ghostStep s op pc (hid, dy)).1, h ∈ hid ∨ s.has h = false
  dyNew : ∀ h ∈ (ghostStep s op pc (hid, dy)).2, h ∈ dy ∨ s.has h = false

/-- An action that changes neither the shared state nor the ghost sets. -/
theorem Act.same {hid dy : List Nat} {s : Impl} {op : Op} {pc : Pc} (hg : GInv hid dy s)
    (hs : (stepOp Cfg.repaired s op pc).1 = s) (hgh : ghostStep s op pc (hid, dy) = (hid, dy))
    (hc : Compat op (stepOp Cfg.repaired s op pc).2 = true)
    (ht : TInv hid dy s op (stepOp Cfg.repaired s op pc).2)
    (hl : LinRel (absG hid dy s) (absG hid dy s) op (post pc) (post (stepOp Cfg.repaired s op pc).2)) :
    Act hid dy s op pc := by
  refine ⟨?_, hc, ?_, ?_, ?_, ?_, ?_, ?_, ?_, ?_⟩
  · rw [hgh, hs]; exact hg
  · rw [hgh, hs]; exact ht
  · rw [hgh, hs]; exact hl
  · rw [hs]; intro h hh; exact hh
  · rw [hs]; intro h hh; exact Or.inl hh
  · rw [hgh]; intro h hh; exact hh
  · rw [hgh]; intro h hh; exact hh
  · rw [hgh]; intro h hh; exact Or.inl hh
  · rw [hgh]; intro h hh; exact Or.inl hh

theorem Act.of_eq {hid dy : List Nat} {s : Impl} {op : Op} {pc : Pc} {s' : Impl} {pc' : Pc} {hid' dy' : List Nat}
    (hstep : stepOp Cfg.repaired s op pc = (s', pc')) (hgh : ghostStep s op pc (hid, dy) = (hid', dy'))
    (ginv : GInv hid' dy' s') (compat : Compat op pc' = true) (tinv : TInv hid' dy' s' op pc')
    (lin : LinRel (absG hid dy s) (absG hid' dy' s') op (post pc) (post pc'))
    (hasMono : ∀ h, s.has h = true → s'.has h = true)
    (newH : ∀ h, s'.has h = true → s.has h = true ∨ (pc = .iReg ∧ ∃ n p, op = .instantiate h n p))
    (hidMono : ∀ h ∈ hid, h ∈ hid') (dyMono : ∀ h ∈ dy, h ∈ dy')
    (hidNew : ∀ h ∈ hid', h ∈ hid ∨ s.has h = false) (dyNew : ∀ h ∈ dy', h ∈ dy ∨ s.has h = false) :
    Act hid dy s op pc := by
  constructor <;> simp only [hstep, hgh] <;> assumption

/-- same ghost sets, same set of handles -/
theorem Act.of_eq_sameH {hid dy : List Nat} {s : Impl} {op : Op} {pc : Pc} {s' : Impl} {pc' : Pc}
    (hstep : stepOp Cfg.repaired s op pc = (s', pc')) (hgh : ghostStep s op pc (hid, dy) = (hid, dy))
    (ginv : GInv hid dy s') (compat : Compat op pc' = true) (tinv : TInv hid dy s' op pc')
    (lin : LinRel (absG hid dy s) (absG hid dy s') op (post pc) (post pc'))
    (hhas : ∀ h, s'.has h = s.has h) : Act hid dy s op pc :=
  Act.of_eq hstep hgh ginv compat tinv lin (fun h hh => by rw [hhas]; exact hh)
    (fun h hh => Or.inl (by rw [← hhas]; exact hh)) (fun _ hh => hh) (fun _ hh => hh)
    (fun _ hh => Or.inl hh) (fun _ hh => Or.inl hh)

/-! ### the actions that only read -/

theorem absG_rtClosed (hid dy : List Nat) (s : Impl) : (absG hid dy s).rtClosed = s.rtClosed.isSome := rfl

theorem act_compile {hid dy : List Nat} {s : Impl} (hg : GInv hid dy s) (pc : Pc)
    (hc : Compat .compile pc = true) (hnd : ∀ r, pc ≠ .done r) : Act hid dy s .compile pc := by
  cases pc <;> simp [Compat] at hc
  · -- cFail
    cases hrt : s.rtClosed with
    | some c =>
      exact Act.same hg (by simp [stepOp, hrt]) rfl (by simp [stepOp, hrt, Compat]) (by simp [TInv])
        (by simp [stepOp, hrt, post, LinRel, Reg.step, absG])
    | none =>
      exact Act.same hg (by simp [stepOp, hrt]) rfl (by simp [stepOp, hrt, Compat]) (by simp [TInv])
        (by simp [stepOp, hrt, post, LinRel])
  · -- cTypes
    cases hnm : s.names with
    | none =>
      have hrt := hg.rt.mp hnm
      exact Act.same hg (by simp [stepOp]) rfl (by simp [stepOp, typesSection, hnm, Compat]) (by simp [TInv])
        (by simp [stepOp, typesSection, hnm, post, LinRel, Reg.step, absG, hrt, Cfg.repaired])
    | some nm =>
      have hrt : s.rtClosed.isSome = false := by
        cases hq : s.rtClosed.isSome with
        | false => rfl
        | true => have := hg.rt.mpr hq; simp [hnm] at this
      exact Act.same hg (by simp [stepOp]) rfl (by simp [stepOp, typesSection, hnm, Compat, afterCompile]) (by simp [TInv])
        (by simp [stepOp, typesSection, hnm, post, LinRel, Reg.step, absG, hrt, afterCompile])
  · exact absurd rfl (hnd _)

theorem rt_false_of_names {hid dy : List Nat} {s : Impl} (hg : GInv hid dy s) {nm : List (Nat × Nat)}
    (hnm : s.names = some nm) : s.rtClosed.isSome = false := by
  cases hq : s.rtClosed.isSome with
  | false => rfl
  | true => have := hg.rt.mpr hq; simp [hnm] at this

theorem names_of_rt_none {hid dy : List Nat} {s : Impl} (hg : GInv hid dy s) (hrt : s.rtClosed = none) :
    ∃ nm, s.names = some nm := by
  cases hn : s.names with
  | none => have := hg.rt.mp hn; simp [hrt] at this
  | some m => exact ⟨m, rfl⟩

theorem act_hostCompile {hid dy : List Nat} {s : Impl} (hg : GInv hid dy s) (f : Bool) (pc : Pc)
    (hc : Compat (.hostCompile f) pc = true) (hnd : ∀ r, pc ≠ .done r) : Act hid dy s (.hostCompile f) pc := by
  cases pc <;> simp [Compat] at hc
  · -- hFail g
    rename_i g
    cases hrt : s.rtClosed with
    | some c =>
      exact Act.same hg (by simp [stepOp, hrt]) rfl (by simp [stepOp, hrt, Compat]) (by simp [TInv])
        (by simp [stepOp, hrt, post, LinRel, Reg.step, absG])
    | none =>
      cases g with
      | true =>
        exact Act.same hg (by simp [stepOp, hrt]) rfl (by simp [stepOp, hrt, Compat]) (by simp [TInv])
          (by simp [stepOp, hrt, post, LinRel])
      | false =>
        exact Act.same hg (by simp [stepOp, hrt]) rfl (by simp [stepOp, hrt, Compat, afterCompile]) (by simp [TInv])
          (by simp [stepOp, hrt, post, LinRel, afterCompile, Reg.step, absG])
  · -- hTypes
    cases hnm : s.names with
    | none =>
      have hrt := hg.rt.mp hnm
      exact Act.same hg (by simp [stepOp]) rfl (by simp [stepOp, typesSection, hnm, Compat]) (by simp [TInv])
        (by simp [stepOp, typesSection, hnm, post, LinRel, Reg.step, absG, hrt, Cfg.repaired])
    | some nm =>
      have hrt := rt_false_of_names hg hnm
      exact Act.same hg (by simp [stepOp]) rfl (by simp [stepOp, typesSection, hnm, Compat, afterCompile]) (by simp [TInv])
        (by simp [stepOp, typesSection, hnm, post, LinRel, Reg.step, absG, hrt, afterCompile])
  · exact absurd rfl (hnd _)

theorem act_lookup {hid dy : List Nat} {s : Impl} (hg : GInv hid dy s) (n : Nat) (pc : Pc)
    (hc : Compat (.lookup n) pc = true) (hnd : ∀ r, pc ≠ .done r) : Act hid dy s (.lookup n) pc := by
  cases pc <;> simp [Compat] at hc
  · -- look
    by_cases hn : n = 0
    · subst hn
      exact Act.same hg (by simp [stepOp]) rfl (by simp [stepOp, Compat]) (by simp [TInv, stepOp])
        (by simp [stepOp, post, LinRel, Reg.step, Reg.owner])
    · have hn' : (n == 0) = false := by simpa using hn
      cases hm : s.names with
      | none =>
        have hcl := hg.rt.mp hm
        have hall := hg.inv.closedAll (by simpa [absG] using hcl)
        have := owner_allClosed (absG hid dy s) n hall
        exact Act.same hg (by simp [stepOp, hn', hm]) rfl (by simp [stepOp, Compat, hn', hm]) (by simp [TInv, stepOp, hn', hm])
          (by simp [stepOp, post, LinRel, Reg.step, hn', hm, this])
      | some m =>
        have hl := hg.nm m hm n hn
        cases ho : (absG hid dy s).owner n with
        | none =>
          rw [ho] at hl
          exact Act.same hg (by simp [stepOp, hn', hm, hl]) rfl (by simp [stepOp, Compat, hn', hm, hl])
            (by simp [TInv, stepOp, hn', hm, hl]) (by simp [stepOp, post, LinRel, Reg.step, hn', hm, hl, ho])
        | some h =>
          rw [ho] at hl
          obtain ⟨i, hi, hih, _, hh1, hh2, _⟩ := owner_someG ho
          have hsafe : Safe hid dy s h := ⟨(has_iff_mem s h).mpr ⟨i, hi, hih⟩, hh1, hh2⟩
          exact Act.same hg (by simp [stepOp, hn', hm, hl]) rfl (by simp [stepOp, Compat, hn', hm, hl])
            (by simp only [TInv, stepOp, hn', hm, hl]; intro h' e; simp at e; subst e; exact hsafe)
            (by simp [stepOp, post, LinRel, Reg.step, hn', hm, hl, ho])
  · exact absurd rfl (hnd _)

theorem get_of_has {s : Impl} {h : Nat} (hh : s.has h = true) : ∃ i, s.get h = some i := by
  cases hg : s.get h with
  | none => have := (get_none_has s h).mp hg; simp [hh] at this
  | some i => exact ⟨i, rfl⟩

theorem isOpenG {hid dy : List Nat} {s : Impl} (hg : GInv hid dy s) {h : Nat} {i : Inst}
    (hget : s.get h = some i) (hh : h ∉ hid) :
    (absG hid dy s).isOpen h = (i.closed.isNone && !decide (h ∈ dy)) := by
  obtain ⟨hi, hih⟩ := get_some hget
  rw [Bool.eq_iff_iff]
  simp only [Reg.isOpen, absG, List.any_eq_true, List.mem_map, Bool.and_eq_true, beq_iff_eq]
  constructor
  · rintro ⟨m, ⟨j, hj, rfl⟩, e1, e2⟩
    have : j = i := insts_same_hL hg.nd (mem_vis.mp hj).1 hi (by rw [hih]; exact e1)
    subst this
    simpa [absI, hih] using e2
  · intro e
    exact ⟨absI dy i, ⟨i, mem_vis.mpr ⟨hi, by rw [hih]; exact hh⟩, rfl⟩, hih, by simpa [absI, hih] using e⟩

theorem act_isClosed {hid dy : List Nat} {s : Impl} (hg : GInv hid dy s) (h : Nat) (pc : Pc)
    (hc : Compat (.isClosed h) pc = true) (ht : TInv hid dy s (.isClosed h) pc) (hnd : ∀ r, pc ≠ .done r) :
    Act hid dy s (.isClosed h) pc := by
  cases pc <;> simp [Compat] at hc
  · -- isCl
    obtain ⟨hhas, hh1, hh2⟩ := ht rfl
    obtain ⟨i, hget⟩ := get_of_has hhas
    have hah : (absG hid dy s).has h = true := by rw [absG_has]; simp [hhas, hh1]
    have hopen := isOpenG hg hget hh1
    exact Act.same hg (by simp [stepOp, hget]) rfl (by simp [stepOp, Compat, hget]) (by simp [TInv, stepOp, hget])
      (by simp [stepOp, post, LinRel, Reg.step, hget, hah, hopen, hh2])
  · exact absurd rfl (hnd _)

/-! ### closeRuntime -/

theorem closeFromStore_h (c : Nat) (i : Inst) : (closeFromStore c i).h = i.h := by
  unfold closeFromStore; split
  · rfl
  · rw [ensureRes_h]

theorem closeListed_map_h (c : Nat) (list : List Nat) (l : List Inst) :
    (closeListed c list l).map (·.h) = l.map (·.h) := by
  induction l with
  | nil => rfl
  | cons a l ih =>
    simp only [closeListed, List.map_cons, ih]
    split
    · rw [closeFromStore_h]
    · rfl

theorem has_congr {s1 s2 : Impl} (e : s1.insts.map (·.h) = s2.insts.map (·.h)) (h : Nat) : s1.has h = s2.has h := by
  have : ∀ s : Impl, s.has h = (s.insts.map (·.h)).any (· == h) := by
    intro s; simp [Impl.has, List.any_map, Function.comp_def]
  rw [this, this, e]

theorem updInst_map_h (h : Nat) (f : Inst → Inst) (hf : ∀ i, (f i).h = i.h) (l : List Inst) :
    (updInst h f l).map (·.h) = l.map (·.h) := by
  induction l with
  | nil => rfl
  | cons a l ih =>
    simp only [updInst, List.map_cons, ih]
    split
    · rw [hf]
    · rfl

theorem vis_closeListed (hid : List Nat) (c : Nat) (list : List Nat) (l : List Inst) :
    vis hid (closeListed c list l) = closeListed c list (vis hid l) := by
  induction l with
  | nil => rfl
  | cons a l ih =>
    simp only [vis] at ih ⊢
    simp only [closeListed, List.filter_cons]
    have hh : (if list.contains a.h = true then closeFromStore c a else a).h = a.h := by
      split
      · rw [closeFromStore_h]
      · rfl
    rw [hh]
    by_cases hv : (!decide (a.h ∈ hid)) = true
    · simp only [hv, if_true, closeListed, ih]
    · simp only [hv, ih]; simp

theorem map_absI_closeListed (dy : List Nat) (c : Nat) (list : List Nat) (l : List Inst)
    (hl : ∀ i ∈ l, i.closed = none → i.h ∉ dy → i.h ∈ list) :
    (closeListed c list l).map (absI dy) = closeAllMods (l.map (absI dy)) := by
  induction l with
  | nil => rfl
  | cons a l ih =>
    simp only [closeListed, List.map_cons, closeAllMods, ih (fun i hi => hl i (List.mem_cons_of_mem _ hi))]
    congr 1
    by_cases hin : list.contains a.h = true
    · simp only [hin, if_true]
      unfold closeFromStore
      split
      · rename_i hs; cases hcl : a.closed <;> simp_all [absI]
      · rw [absI_ensureRes]; simp [absI]
    · simp only [hin]
      cases hcl : a.closed with
      | none =>
        by_cases hd : a.h ∈ dy
        · simp [absI, hd]
        · exact absurd (by simpa using hl a List.mem_cons_self hcl hd) hin
      | some v => simp [absI, hcl]

theorem mem_closeListed {c : Nat} {list : List Nat} {l : List Inst} {x : Inst} (hx : x ∈ closeListed c list l) :
    ∃ y ∈ l, x.h = y.h ∧ (x.closed = none → y.closed = none ∧ y.h ∉ list) := by
  induction l with
  | nil => simp [closeListed] at hx
  | cons a l ih =>
    simp only [closeListed, List.mem_cons] at hx
    rcases hx with e | hx
    · refine ⟨a, List.mem_cons_self, ?_⟩
      by_cases hin : list.contains a.h = true
      · simp only [hin, if_true] at e
        subst e
        refine ⟨closeFromStore_h c a, ?_⟩
        unfold closeFromStore
        split
        · rename_i hs; intro e; simp [e] at hs
        · rw [ensureRes_closed]; intro e; simp at e
      · simp only [hin] at e
        subst e
        exact ⟨rfl, fun e => ⟨e, by simpa using hin⟩⟩
    · obtain ⟨y, hy, r⟩ := ih hx
      exact ⟨y, List.mem_cons_of_mem _ hy, r⟩

theorem act_closeRuntime {hid dy : List Nat} {s : Impl} (hg : GInv hid dy s) (c : Nat) (pc : Pc)
    (hc : Compat (.closeRuntime c) pc = true) (hnd : ∀ r, pc ≠ .done r) : Act hid dy s (.closeRuntime c) pc := by
  cases pc <;> simp [Compat] at hc
  · -- rCas
    have hinv := step_inv (absG hid dy s) (.closeRuntime c) hg.inv
    cases hrt : s.rtClosed with
    | some c0 =>
      have hall := hg.inv.closedAll (by simp [absG, hrt])
      have hid' := closeAll_id (absG hid dy s).mods hall
      exact Act.same hg (by simp [stepOp, hrt]) rfl (by simp [stepOp, hrt, Compat]) (by simp [TInv])
        (by simp only [stepOp, hrt, post, LinRel, Reg.step, hid', Option.isSome_some, if_true]; simp [absG, hrt])
    | none =>
      have hstep : stepOp Cfg.repaired s (.closeRuntime c) .rCas =
          (⟨closeListed c s.list s.insts, [], none, some c⟩, .done .ok) := by
        simp [stepOp, hrt, Cfg.repaired, storeClose]
      have hgh : ghostStep s (.closeRuntime c) .rCas (hid, dy) = (hid, dy) := rfl
      have habs : absG hid dy ⟨closeListed c s.list s.insts, [], none, some c⟩ =
          ((absG hid dy s).step (.closeRuntime c)).1 := by
        simp only [absG, Reg.step, vis_closeListed]
        rw [map_absI_closeListed dy c s.list (vis hid s.insts)
          (fun i hi h1 h2 => hg.lst i (mem_vis.mp hi).1 h1 (mem_vis.mp hi).2 h2)]
        rfl
      have hmaph : (closeListed c s.list s.insts).map (·.h) = s.insts.map (·.h) := closeListed_map_h _ _ _
      have hhas : ∀ h, Impl.has ⟨closeListed c s.list s.insts, [], none, some c⟩ h = s.has h :=
        fun h => has_congr hmaph h
      refine Act.of_eq_sameH hstep hgh ?_ (by simp [Compat]) (by simp [TInv])
        (by simp only [post, LinRel, habs]; rfl) hhas
      refine ⟨by simp, by simp, ?_, by rw [habs]; exact hinv, by rw [hmaph]; exact hg.nd,
        fun h hh => by rw [hhas]; exact hg.hidIn h hh, fun h hh => by rw [hhas]; exact hg.dyIn h hh⟩
      intro i hi hcl h1 h2
      obtain ⟨y, hy, e1, e2⟩ := mem_closeListed hi
      obtain ⟨e3, e4⟩ := e2 hcl
      exact absurd (hg.lst y hy e3 (e1 ▸ h1) (e1 ▸ h2)) e4
  · exact absurd rfl (hnd _)

/-! ### closeModule -/

/-- An update of the records with handle `h` that the abstraction does not see. -/
theorem ginv_updInst {hid dy : List Nat} {s : Impl} (hg : GInv hid dy s) (h : Nat) (f : Inst → Inst)
    (hfh : ∀ i, (f i).h = i.h)
    (hfa : (vis hid (updInst h f s.insts)).map (absI dy) = (vis hid s.insts).map (absI dy))
    (hfl : ∀ i ∈ s.insts, i.h = h → (f i).closed = none → i.closed = none ∨ h ∈ hid ∨ h ∈ dy) :
    GInv hid dy { s with insts := updInst h f s.insts } ∧
    absG hid dy { s with insts := updInst h f s.insts } = absG hid dy s := by
  have habs : absG hid dy { s with insts := updInst h f s.insts } = absG hid dy s := by
    simp only [absG, hfa]
  have hmaph := updInst_map_h h f hfh s.insts
  have hhas : ∀ k, Impl.has { s with insts := updInst h f s.insts } k = s.has k := fun k => has_congr hmaph k
  refine ⟨⟨hg.rt, ?_, ?_, by rw [habs]; exact hg.inv, by rw [hmaph]; exact hg.nd,
    fun k hk => by rw [hhas]; exact hg.hidIn k hk, fun k hk => by rw [hhas]; exact hg.dyIn k hk⟩, habs⟩
  · intro m hm n hn; rw [habs]; exact hg.nm m hm n hn
  · intro x hx hcl h1 h2
    obtain ⟨y, hy, r⟩ := mem_updInst hx
    rcases r with ⟨e1, e2⟩ | ⟨e1, e2⟩
    · subst e2
      have hxh : (f y).h = h := by rw [hfh]; exact e1
      rcases hfl y hy e1 hcl with e | e | e
      · have := hg.lst y hy e (by rw [← hfh]; exact h1) (by rw [← hfh]; exact h2)
        rw [hfh]; exact this
      · exact absurd (hxh ▸ e) h1
      · exact absurd (hxh ▸ e) h2
    · subst e2; exact hg.lst x hy hcl h1 h2

theorem absG_updInst_ensureRes (hid dy : List Nat) (h : Nat) (l : List Inst) :
    (vis hid (updInst h ensureRes l)).map (absI dy) = (vis hid l).map (absI dy) := by
  rw [vis_updInst hid h ensureRes ensureRes_h, map_absI_updInst_same dy h ensureRes (fun i _ => absI_ensureRes dy i)]

/-- all records of the registry with a visible handle come from the one instance with that handle -/
theorem modsG_only {hid dy : List Nat} {s : Impl} (hg : GInv hid dy s) {h : Nat} {i : Inst}
    (hi : i ∈ s.insts) (hih : i.h = h) : ∀ m ∈ (absG hid dy s).mods, m.h = h → m = absI dy i := by
  intro m hm e
  simp only [absG, List.mem_map] at hm
  obtain ⟨j, hj, rfl⟩ := hm
  have : j = i := insts_same_hL hg.nd (mem_vis.mp hj).1 hi (by rw [hih]; exact e)
  rw [this]

theorem act_closeModule {hid dy : List Nat} {s : Impl} (hg : GInv hid dy s) (h c : Nat) (pc : Pc)
    (hc : Compat (.closeModule h c) pc = true) (ht : TInv hid dy s (.closeModule h c) pc)
    (hnd : ∀ r, pc ≠ .done r) : Act hid dy s (.closeModule h c) pc := by
  cases pc <;> simp [Compat] at hc
  · -- mCas
    obtain ⟨hhas, hh1, hh2⟩ := ht rfl
    obtain ⟨i, hget⟩ := get_of_has hhas
    obtain ⟨himem, hih⟩ := get_some hget
    have hah : (absG hid dy s).has h = true := by rw [absG_has]; simp [hhas, hh1]
    have hinv := step_inv (absG hid dy s) (.closeModule h c) hg.inv
    have honly := modsG_only hg himem hih
    cases hcl : i.closed with
    | some c0 =>
      have hidm : closeMods h (absG hid dy s).mods = (absG hid dy s).mods := by
        apply closeMods_id
        intro m hm e
        rw [honly m hm e]; simp [absI, hcl]
      exact Act.same hg (by simp [stepOp, hget, hcl]) rfl (by simp [stepOp, hget, hcl, Compat])
        (by simp [TInv, stepOp, hget, hcl]) (by simp [stepOp, hget, hcl, post, LinRel, Reg.step, hah, hidm])
    | none =>
      have hget' : Impl.get { s with insts := updInst h (fun i => { i with closed := some c }) s.insts } h
          = some { i with closed := some c } := by
        simp only [Impl.get] at hget ⊢
        rw [find_updInst h (fun i => { i with closed := some c }) (fun _ => rfl), hget]; rfl
      have hstep : stepOp Cfg.repaired s (.closeModule h c) .mCas =
          (⟨updInst h (fun i => { i with closed := some c }) s.insts, s.list.filter (· != h), closeNames s h i,
            s.rtClosed⟩, .mRes) := by
        simp only [stepOp, hget, hcl, Option.isSome_none, Bool.false_eq_true, if_false, Cfg.repaired, if_true,
          deleteModule, hget', closeNames]
        cases hn : (i.name == 0) <;> cases hnm : s.names <;> simp
      have hrstep : (absG hid dy s).step (.closeModule h c) =
          (⟨closeMods h (absG hid dy s).mods, (absG hid dy s).rtClosed⟩, .ok) := by
        simp [Reg.step, hah]
      rw [hrstep] at hinv
      have habs : absG hid dy ⟨updInst h (fun i => { i with closed := some c }) s.insts, s.list.filter (· != h),
          closeNames s h i, s.rtClosed⟩ = ⟨closeMods h (absG hid dy s).mods, (absG hid dy s).rtClosed⟩ := by
        simp only [absG, vis_updInst hid h (fun i => { i with closed := some c }) (fun _ => rfl),
          map_absI_updInst_close]
      have hmaph := updInst_map_h h (fun i => { i with closed := some c }) (fun _ => rfl) s.insts
      have hhas' : ∀ k, Impl.has ⟨updInst h (fun i => { i with closed := some c }) s.insts,
          s.list.filter (· != h), closeNames s h i, s.rtClosed⟩ k = s.has k := fun k => has_congr hmaph k
      refine Act.of_eq_sameH hstep rfl ?_ (by simp [Compat]) (by simp [TInv])
        (by simp only [post, LinRel, habs, hrstep]) hhas'
      refine ⟨?_, ?_, ?_, by rw [habs]; exact hinv, by rw [hmaph]; exact hg.nd,
        fun k hk => by rw [hhas']; exact hg.hidIn k hk, fun k hk => by rw [hhas']; exact hg.dyIn k hk⟩
      · -- rt
        show closeNames s h i = none ↔ s.rtClosed.isSome = true
        rw [← hg.rt]
        unfold closeNames
        cases hn : (i.name == 0) <;> cases hnm : s.names <;> simp
        split <;> simp
      · -- nm
        intro m hm n hn
        rw [habs]
        show nameLookup n m = Reg.owner ⟨closeMods h (absG hid dy s).mods, (absG hid dy s).rtClosed⟩ n
        rw [owner_find hn]
        show nameLookup n m = ((closeMods h (absG hid dy s).mods).find? _).map _
        by_cases hne : i.name = n
        · subst hne
          have hown := owner_of_openG hg himem hcl (hih ▸ hh1) (hih ▸ hh2) hn
          have hreuse := closed_name_reusable (absG hid dy s) hg.inv i.name h c (by rw [hown, hih])
          rw [hrstep, owner_find hn] at hreuse
          rw [show ((closeMods h (absG hid dy s).mods).find? _).map _ = none from hreuse]
          have hn0 : (i.name == 0) = false := by simpa using hn
          obtain ⟨nm, hnm⟩ : ∃ nm, s.names = some nm := by
            cases hq : s.names with
            | none => simp [closeNames, hn0, hq] at hm
            | some nm => exact ⟨nm, rfl⟩
          have hl : nameLookup i.name nm = some h := by rw [hg.nm nm hnm i.name hn, hown, hih]
          simp only [closeNames, hn0, hnm, hl, beq_self_eq_true, if_true] at hm
          have : m = nameErase i.name nm := by simpa using hm.symm
          rw [this]; exact nameLookup_erase_self _ _
        · have hfind := find_closeMods h n (absG hid dy s).mods (by
            intro m' hm' e
            rw [honly m' hm' e]; simp [absI, hne])
          rw [hfind, ← owner_find hn]
          cases hq : s.names with
          | none =>
            simp only [closeNames, hq] at hm
            split at hm <;> simp at hm
          | some nm =>
            rw [← hg.nm nm hq n hn]
            simp only [closeNames, hq] at hm
            split at hm
            · have : m = nm := by simpa using hm.symm
              rw [this]
            · split at hm
              · have : m = nameErase i.name nm := by simpa using hm.symm
                rw [this]; exact nameLookup_erase_ne n i.name (Ne.symm hne) nm
              · have : m = nm := by simpa using hm.symm
                rw [this]
      · -- lst
        intro j hj hjc h1 h2
        show j.h ∈ s.list.filter (· != h)
        obtain ⟨y, hy, hyj⟩ := mem_updInst hj
        rcases hyj with ⟨e1, e2⟩ | ⟨e1, e2⟩
        · subst e2; simp at hjc
        · subst e2
          have := hg.lst j hy hjc h1 h2
          simp [List.mem_filter, this, e1]
  · -- mRes
    have hstep : stepOp Cfg.repaired s (.closeModule h c) .mRes =
        ({ s with insts := updInst h ensureRes s.insts }, .done .ok) := by simp [stepOp]
    obtain ⟨hg', habs⟩ := ginv_updInst hg h ensureRes ensureRes_h (absG_updInst_ensureRes hid dy h s.insts)
      (fun i _ _ e => Or.inl (by rw [ensureRes_closed] at e; exact e))
    exact Act.of_eq_sameH hstep rfl hg' (by simp [Compat]) (by simp [TInv])
      (by simp only [post, LinRel, habs]; simp)
      (fun k => has_congr (updInst_map_h h ensureRes ensureRes_h s.insts) k)
  · exact absurd rfl (hnd _)

/-! ### instantiate -/

theorem vis_cons_not_mem (hid : List Nat) (h : Nat) (l : List Inst) (hl : ∀ i ∈ l, i.h ≠ h) :
    vis (h :: hid) l = vis hid l := by
  simp only [vis]
  apply List.filter_congr
  intro i hi
  simp [hl i hi]

theorem map_absI_cons_not_mem (dy : List Nat) (h : Nat) (l : List Inst) (hl : ∀ i ∈ l, i.h ≠ h) :
    l.map (absI (h :: dy)) = l.map (absI dy) := by
  apply List.map_congr_left
  intro i hi
  simp [absI, hl i hi]

theorem vis_cons_hidden (hid : List Nat) (i : Inst) (l : List Inst) (hi : i.h ∈ hid) :
    vis hid (i :: l) = vis hid l := by
  simp [vis, hi]

theorem vis_cons_visible (hid : List Nat) (i : Inst) (l : List Inst) (hi : i.h ∉ hid) :
    vis hid (i :: l) = i :: vis hid l := by
  simp [vis, hi]

theorem has_cons (s : Impl) (i : Inst) (k : Nat) (l : List Nat) (nm : Option (List (Nat × Nat))) (rc : Option Nat) :
    Impl.has ⟨i :: s.insts, l, nm, rc⟩ k = (i.h == k || s.has k) := by
  simp [Impl.has]

theorem act_fRes {hid dy : List Nat} {s : Impl} (hg : GInv hid dy s) (h n : Nat) (p : Pre) (e : Res)
    (he : e ≠ .ok) : Act hid dy s (.instantiate h n p) (.fRes e) := by
  have hstep : stepOp Cfg.repaired s (.instantiate h n p) (.fRes e) =
      ({ s with insts := updInst h ensureRes s.insts }, .done e) := by simp [stepOp]
  obtain ⟨hg', habs⟩ := ginv_updInst hg h ensureRes ensureRes_h (absG_updInst_ensureRes hid dy h s.insts)
    (fun i _ _ e => Or.inl (by rw [ensureRes_closed] at e; exact e))
  exact Act.of_eq_sameH hstep rfl hg' (by simp [Compat]) (by simp [TInv, preReg, fPhase, he])
    (by simp only [post, LinRel, habs]; simp)
    (fun k => has_congr (updInst_map_h h ensureRes ensureRes_h s.insts) k)

theorem act_fCas {hid dy : List Nat} {s : Impl} (hg : GInv hid dy s) (h n : Nat) (p : Pre) (e : Res)
    (he : e ≠ .ok) (hhas : s.has h = true) (hgh : h ∈ hid ∨ h ∈ dy) :
    Act hid dy s (.instantiate h n p) (.fCas e) := by
  have hstep : stepOp Cfg.repaired s (.instantiate h n p) (.fCas e) =
      ({ s with insts := updInst h (fun i => { i with closed := some 0 }) s.insts }, .fDel e) := by simp [stepOp]
  have hfa : (vis hid (updInst h (fun i => { i with closed := some 0 }) s.insts)).map (absI dy) =
      (vis hid s.insts).map (absI dy) := by
    rw [vis_updInst hid h (fun i => { i with closed := some 0 }) (fun _ => rfl)]
    by_cases h1 : h ∈ hid
    · rw [updInst_not_mem]
      intro i hi e; exact (mem_vis.mp hi).2 (e ▸ h1)
    · have h2 : h ∈ dy := by rcases hgh with h' | h'; exact absurd h' h1; exact h'
      apply map_absI_updInst_same
      intro i hi; simp [absI, hi, h2]
  obtain ⟨hg', habs⟩ := ginv_updInst hg h (fun i => { i with closed := some 0 }) (fun _ => rfl) hfa
    (fun i _ _ e => by simp at e)
  have hhas' : ∀ k, Impl.has { s with insts := updInst h (fun i => { i with closed := some 0 }) s.insts } k = s.has k :=
    fun k => has_congr (updInst_map_h h (fun i => { i with closed := some 0 }) (fun _ => rfl) s.insts) k
  exact Act.of_eq_sameH hstep rfl hg' (by simp [Compat, he]) (by simp [TInv, preReg, fPhase, hhas', hhas, hgh])
    (by simp only [post, LinRel, habs]; simp) hhas'

theorem act_fDel {hid dy : List Nat} {s : Impl} (hg : GInv hid dy s) (h n : Nat) (p : Pre) (e : Res)
    (he : e ≠ .ok) (hhas : s.has h = true) (hgh : h ∈ hid ∨ h ∈ dy) :
    Act hid dy s (.instantiate h n p) (.fDel e) := by
  obtain ⟨i, hget⟩ := get_of_has hhas
  obtain ⟨himem, hih⟩ := get_some hget
  have hnames : closeNames s h i = s.names := by
    unfold closeNames
    by_cases hn : i.name = 0
    · simp [hn]
    · have hn' : (i.name == 0) = false := by simpa using hn
      simp only [hn', Bool.false_eq_true, if_false]
      cases hq : s.names with
      | none => rfl
      | some nm =>
        have hne : (nameLookup i.name nm == some h) = false := by
          cases hb : (nameLookup i.name nm == some h) with
          | false => rfl
          | true =>
            have hl : nameLookup i.name nm = some h := by simpa using hb
            rw [hg.nm nm hq i.name hn] at hl
            obtain ⟨_, _, _, _, h1, h2, _⟩ := owner_someG hl
            rcases hgh with h' | h'
            · exact absurd h' h1
            · exact absurd h' h2
        simp [hne]
  have hstep : stepOp Cfg.repaired s (.instantiate h n p) (.fDel e) =
      (⟨s.insts, s.list.filter (· != h), s.names, s.rtClosed⟩, .fRes e) := by
    rw [← hnames]
    simp only [stepOp, deleteModule, hget, Cfg.repaired, if_true, closeNames]
    cases hn : (i.name == 0) <;> cases hnm : s.names <;> simp
  have habs : absG hid dy ⟨s.insts, s.list.filter (· != h), s.names, s.rtClosed⟩ = absG hid dy s := rfl
  have hhas' : ∀ k, Impl.has ⟨s.insts, s.list.filter (· != h), s.names, s.rtClosed⟩ k = s.has k := fun _ => rfl
  refine Act.of_eq_sameH hstep rfl ?_ (by simp [Compat, he]) (by simp [TInv, preReg, fPhase, hhas', hhas, hgh])
    (by simp only [post, LinRel, habs]; simp) hhas'
  refine ⟨hg.rt, fun m hm k hk => by rw [habs]; exact hg.nm m hm k hk, ?_, by rw [habs]; exact hg.inv, hg.nd,
    hg.hidIn, hg.dyIn⟩
  intro j hj hjc h1 h2
  have := hg.lst j hj hjc h1 h2
  have hne : j.h ≠ h := by
    intro e'
    rcases hgh with h' | h'
    · exact h1 (e' ▸ h')
    · exact h2 (e' ▸ h')
  simp [List.mem_filter, this, hne]

theorem act_iReg {hid dy : List Nat} {s : Impl} (hg : GInv hid dy s) (h n : Nat) (p : Pre)
    (hnh : s.has h = false) : Act hid dy s (.instantiate h n p) .iReg := by
  have hne_h : ∀ j ∈ s.insts, j.h ≠ h := (has_false_iff s h).mp hnh
  have hh1 : h ∉ hid := fun e => by have := hg.hidIn h e; rw [hnh] at this; exact absurd this (by simp)
  have hh2 : h ∉ dy := fun e => by have := hg.dyIn h e; rw [hnh] at this; exact absurd this (by simp)
  have hah : (absG hid dy s).has h = false := by rw [absG_has]; simp [hnh]
  have hinv := step_inv (absG hid dy s) (.instantiate h n p) hg.inv
  have hnd' : ∀ (i : Inst), i.h = h → ((i :: s.insts).map (·.h)).Nodup := by
    intro i hi
    simp only [List.map_cons, List.nodup_cons, hi]
    refine ⟨?_, hg.nd⟩
    intro hm
    obtain ⟨j, hj, e⟩ := List.mem_map.mp hm
    exact hne_h j hj e
  cases hnm : s.names with
  | none =>
    -- the store was closed after `iFail`: refused, a hidden stillborn record
    have hrt := hg.rt.mp hnm
    have hstep : stepOp Cfg.repaired s (.instantiate h n p) .iReg =
        (⟨freshI h n :: s.insts, s.list, s.names, s.rtClosed⟩, .fCas .errClosed) := by
      simp [stepOp, hnh, hnm, freshI]
    have hgh : ghostStep s (.instantiate h n p) .iReg (hid, dy) = (h :: hid, dy) := by
      simp [ghostStep, hnh, hnm]
    have habs : absG (h :: hid) dy ⟨freshI h n :: s.insts, s.list, s.names, s.rtClosed⟩ = absG hid dy s := by
      simp only [absG]
      rw [vis_cons_hidden (h :: hid) (freshI h n) s.insts (by simp [freshI]), vis_cons_not_mem hid h s.insts hne_h]
    have hhas' : ∀ k, Impl.has ⟨freshI h n :: s.insts, s.list, s.names, s.rtClosed⟩ k = (h == k || s.has k) :=
      fun k => has_cons s (freshI h n) k _ _ _
    refine Act.of_eq hstep hgh ?_ (by simp [Compat]) (by simp [TInv, preReg, fPhase, hhas'])
      (by simp only [post, LinRel, habs, Reg.step, absG_rtClosed, hrt, if_true])
      (fun k hk => by rw [hhas']; simp [hk])
      (fun k hk => by
        rw [hhas'] at hk
        rcases Bool.or_eq_true_iff.mp hk with e | e
        · exact Or.inr ⟨rfl, n, p, by rw [show h = k by simpa using e]⟩
        · exact Or.inl e)
      (fun k hk => List.mem_cons_of_mem _ hk) (fun _ hk => hk)
      (fun k hk => by
        rcases List.mem_cons.mp hk with e | e
        · exact Or.inr (e ▸ hnh)
        · exact Or.inl e)
      (fun _ hk => Or.inl hk)
    refine ⟨hg.rt, fun m hm => by simp [hnm] at hm, ?_, by rw [habs]; exact hg.inv, hnd' _ rfl, ?_, ?_⟩
    · intro j hj hjc h1 h2
      rcases List.mem_cons.mp hj with e | e
      · subst e; simp [freshI] at h1
      · exact hg.lst j e hjc (fun e' => h1 (List.mem_cons_of_mem _ e')) h2
    · intro k hk
      rw [hhas']
      rcases List.mem_cons.mp hk with e | e
      · simp [e]
      · simp [hg.hidIn k e]
    · intro k hk; rw [hhas']; simp [hg.dyIn k hk]
  | some nm =>
    have hrt := rt_false_of_names hg hnm
    have hrc : (absG hid dy s).rtClosed = false := hrt
    have hlook : (n != 0 && (nameLookup n nm).isSome) = ((absG hid dy s).owner n).isSome := by
      by_cases hn : n = 0
      · subst hn; simp [Reg.owner]
      · rw [hg.nm nm hnm n hn]; simp [hn]
    cases hown : ((absG hid dy s).owner n).isSome with
    | true =>
      -- the name is taken: a dying stillborn record
      rw [hown] at hlook
      have hstep : stepOp Cfg.repaired s (.instantiate h n p) .iReg =
          (⟨freshI h n :: s.insts, s.list, s.names, s.rtClosed⟩, .fCas .errDup) := by
        simp [stepOp, hnh, hnm, freshI, hlook]
      have hgh : ghostStep s (.instantiate h n p) .iReg (hid, dy) = (hid, h :: dy) := by
        simp [ghostStep, hnh, hnm, hlook]
      have hrstep : (absG hid dy s).step (.instantiate h n p) =
          ({ (absG hid dy s) with mods := ⟨h, n, false⟩ :: (absG hid dy s).mods }, .errDup) := by
        simp [Reg.step, hrc, hah, hown]
      rw [hrstep] at hinv
      have habs : absG hid (h :: dy) ⟨freshI h n :: s.insts, s.list, s.names, s.rtClosed⟩ =
          { (absG hid dy s) with mods := ⟨h, n, false⟩ :: (absG hid dy s).mods } := by
        simp only [absG]
        rw [vis_cons_visible hid (freshI h n) s.insts (by simpa [freshI] using hh1), List.map_cons,
          map_absI_cons_not_mem dy h (vis hid s.insts) (fun i hi => hne_h i (mem_vis.mp hi).1)]
        simp [freshI, absI]
      have hhas' : ∀ k, Impl.has ⟨freshI h n :: s.insts, s.list, s.names, s.rtClosed⟩ k = (h == k || s.has k) :=
        fun k => has_cons s (freshI h n) k _ _ _
      refine Act.of_eq hstep hgh ?_ (by simp [Compat]) (by simp [TInv, preReg, fPhase, hhas'])
        (by simp only [post, LinRel, habs, hrstep])
        (fun k hk => by rw [hhas']; simp [hk])
        (fun k hk => by
          rw [hhas'] at hk
          rcases Bool.or_eq_true_iff.mp hk with e | e
          · exact Or.inr ⟨rfl, n, p, by rw [show h = k by simpa using e]⟩
          · exact Or.inl e)
        (fun _ hk => hk) (fun k hk => List.mem_cons_of_mem _ hk)
        (fun _ hk => Or.inl hk)
        (fun k hk => by
          rcases List.mem_cons.mp hk with e | e
          · exact Or.inr (e ▸ hnh)
          · exact Or.inl e)
      refine ⟨hg.rt, ?_, ?_, by rw [habs]; exact hinv, hnd' _ rfl, ?_, ?_⟩
      · intro m hm k hk
        rw [habs, owner_cons_closed]
        exact hg.nm m hm k hk
      · intro j hj hjc h1 h2
        rcases List.mem_cons.mp hj with e | e
        · subst e; simp [freshI] at h2
        · exact hg.lst j e hjc h1 (fun e' => h2 (List.mem_cons_of_mem _ e'))
      · intro k hk; rw [hhas']; simp [hg.hidIn k hk]
      · intro k hk
        rw [hhas']
        rcases List.mem_cons.mp hk with e | e
        · simp [e]
        · simp [hg.dyIn k e]
    | false =>
      rw [hown] at hlook
      have hstep : stepOp Cfg.repaired s (.instantiate h n p) .iReg =
          (⟨{ freshI h n with notifier := true } :: s.insts, h :: s.list,
            some (if n != 0 then (n, h) :: nm else nm), s.rtClosed⟩, .done .ok) := by
        simp [stepOp, hnh, hnm, freshI, hlook, Cfg.repaired]
      have hgh : ghostStep s (.instantiate h n p) .iReg (hid, dy) = (hid, dy) := by
        simp [ghostStep, hnh, hnm, hlook]
      have hrstep : (absG hid dy s).step (.instantiate h n p) =
          ({ (absG hid dy s) with mods := ⟨h, n, true⟩ :: (absG hid dy s).mods }, .ok) := by
        simp [Reg.step, hrc, hah, hown]
      rw [hrstep] at hinv
      have habs : absG hid dy ⟨{ freshI h n with notifier := true } :: s.insts, h :: s.list,
          some (if n != 0 then (n, h) :: nm else nm), s.rtClosed⟩ =
          { (absG hid dy s) with mods := ⟨h, n, true⟩ :: (absG hid dy s).mods } := by
        simp only [absG]
        rw [vis_cons_visible hid _ s.insts (by simpa [freshI] using hh1), List.map_cons]
        simp [freshI, absI, hh2]
      have hhas' : ∀ k, Impl.has ⟨{ freshI h n with notifier := true } :: s.insts, h :: s.list,
          some (if n != 0 then (n, h) :: nm else nm), s.rtClosed⟩ k = (h == k || s.has k) :=
        fun k => has_cons s _ k _ _ _
      refine Act.of_eq hstep hgh ?_ (by simp [Compat])
        ⟨by simp [preReg], by simp [fPhase], fun _ => ⟨by rw [hhas']; simp, hh1, hh2⟩⟩
        (by simp only [post, LinRel, habs, hrstep])
        (fun k hk => by rw [hhas']; simp [hk])
        (fun k hk => by
          rw [hhas'] at hk
          rcases Bool.or_eq_true_iff.mp hk with e | e
          · exact Or.inr ⟨rfl, n, p, by rw [show h = k by simpa using e]⟩
          · exact Or.inl e)
        (fun _ hk => hk) (fun _ hk => hk) (fun _ hk => Or.inl hk) (fun _ hk => Or.inl hk)
      refine ⟨by simp [hrt], ?_, ?_, by rw [habs]; exact hinv, hnd' _ rfl, ?_, ?_⟩
      · intro m hm k hk
        rw [habs, owner_cons_open _ _ _ _ hk]
        have hm' : m = if n != 0 then (n, h) :: nm else nm := by simpa using hm.symm
        rw [hm']
        by_cases hn : n = 0
        · subst hn
          have : (0 == k) = false := by simpa using (Ne.symm hk)
          simp [this]; exact hg.nm nm hnm k hk
        · have hn' : (n != 0) = true := by simpa using hn
          simp only [hn', if_true, nameLookup]
          by_cases hnk : (n == k) = true
          · simp [hnk]
          · simp only [hnk, Bool.false_eq_true, if_false]; exact hg.nm nm hnm k hk
      · intro j hj hjc h1 h2
        rcases List.mem_cons.mp hj with e | e
        · subst e; simp [freshI]
        · exact List.mem_cons_of_mem _ (hg.lst j e hjc h1 h2)
      · intro k hk; rw [hhas']; simp [hg.hidIn k hk]
      · intro k hk; rw [hhas']; simp [hg.dyIn k hk]

theorem act_instantiate {hid dy : List Nat} {s : Impl} (hg : GInv hid dy s) (h n : Nat) (p : Pre) (pc : Pc)
    (hc : Compat (.instantiate h n p) pc = true) (ht : TInv hid dy s (.instantiate h n p) pc)
    (hnd : ∀ r, pc ≠ .done r) : Act hid dy s (.instantiate h n p) pc := by
  obtain ⟨ht1, ht2, ht3⟩ := ht
  cases pc <;> simp [Compat] at hc
  · -- cFail
    have hnh := ht1 rfl
    cases hrt : s.rtClosed with
    | some c =>
      exact Act.same hg (by simp [stepOp, hrt]) rfl (by simp [stepOp, hrt, Compat]) (by simp [TInv, stepOp, hrt, preReg, fPhase])
        (by simp [stepOp, hrt, post, LinRel, Reg.step, absG])
    | none =>
      exact Act.same hg (by simp [stepOp, hrt]) rfl (by simp [stepOp, hrt, Compat])
        (by simp [TInv, stepOp, hrt, preReg, fPhase, hnh]) (by simp [stepOp, hrt, post, LinRel])
  · -- cTypes
    have hnh := ht1 rfl
    cases hnm : s.names with
    | none =>
      have hrt := hg.rt.mp hnm
      exact Act.same hg (by simp [stepOp]) rfl (by simp [stepOp, typesSection, hnm, Compat])
        (by simp [TInv, stepOp, typesSection, hnm, preReg, fPhase, Cfg.repaired])
        (by simp [stepOp, typesSection, hnm, post, LinRel, Reg.step, absG, hrt, Cfg.repaired])
    | some nm =>
      exact Act.same hg (by simp [stepOp]) rfl (by simp [stepOp, typesSection, hnm, Compat, afterCompile])
        (by simp [TInv, stepOp, typesSection, hnm, preReg, fPhase, afterCompile, hnh])
        (by simp [stepOp, typesSection, hnm, post, LinRel, afterCompile])
  · -- hFail g
    rename_i g
    have hnh := ht1 rfl
    cases hrt : s.rtClosed with
    | some c =>
      exact Act.same hg (by simp [stepOp, hrt]) rfl (by simp [stepOp, hrt, Compat]) (by simp [TInv, stepOp, hrt, preReg, fPhase])
        (by simp [stepOp, hrt, post, LinRel, Reg.step, absG])
    | none =>
      cases g with
      | true =>
        exact Act.same hg (by simp [stepOp, hrt]) rfl (by simp [stepOp, hrt, Compat])
          (by simp [TInv, stepOp, hrt, preReg, fPhase, hnh]) (by simp [stepOp, hrt, post, LinRel])
      | false =>
        exact Act.same hg (by simp [stepOp, hrt]) rfl (by simp [stepOp, hrt, Compat, afterCompile])
          (by simp [TInv, stepOp, hrt, preReg, fPhase, hnh, afterCompile]) (by simp [stepOp, hrt, post, LinRel, afterCompile])
  · -- hTypes
    have hnh := ht1 rfl
    cases hnm : s.names with
    | none =>
      have hrt := hg.rt.mp hnm
      exact Act.same hg (by simp [stepOp]) rfl (by simp [stepOp, typesSection, hnm, Compat])
        (by simp [TInv, stepOp, typesSection, hnm, preReg, fPhase, Cfg.repaired])
        (by simp [stepOp, typesSection, hnm, post, LinRel, Reg.step, absG, hrt, Cfg.repaired])
    | some nm =>
      exact Act.same hg (by simp [stepOp]) rfl (by simp [stepOp, typesSection, hnm, Compat, afterCompile])
        (by simp [TInv, stepOp, typesSection, hnm, preReg, fPhase, afterCompile, hnh])
        (by simp [stepOp, typesSection, hnm, post, LinRel, afterCompile])
  · -- iFail
    have hnh := ht1 rfl
    cases hrt : s.rtClosed with
    | some c =>
      exact Act.same hg (by simp [stepOp, hrt]) rfl (by simp [stepOp, hrt, Compat]) (by simp [TInv, stepOp, hrt, preReg, fPhase])
        (by simp [stepOp, hrt, post, LinRel, Reg.step, absG])
    | none =>
      exact Act.same hg (by simp [stepOp, hrt]) rfl (by simp [stepOp, hrt, Compat])
        (by simp [TInv, stepOp, hrt, preReg, fPhase, hnh]) (by simp [stepOp, hrt, post, LinRel])
  · -- iReg
    exact act_iReg hg h n p (ht1 rfl)
  · -- fCas e
    obtain ⟨h1, h2⟩ := ht2 rfl
    exact act_fCas hg h n p _ hc h1 h2
  · -- fDel e
    obtain ⟨h1, h2⟩ := ht2 rfl
    exact act_fDel hg h n p _ hc h1 h2
  · -- fRes e
    exact act_fRes hg h n p _ hc
  · exact absurd rfl (hnd _)

/-! ### every action; stability of the other threads' invariants -/

/-- **Every atomic action of the repaired variant** keeps the simulation invariant, keeps the operation on its
program, re-establishes what the operation needs next, and relates the registry before and after as `LinRel`
says: exactly one action per operation executes the registry's step and fixes the result. -/
theorem action {hid dy : List Nat} {s : Impl} (hg : GInv hid dy s) (op : Op) (pc : Pc)
    (hc : Compat op pc = true) (ht : TInv hid dy s op pc) (hnd : ∀ r, pc ≠ .done r) : Act hid dy s op pc := by
  cases op with
  | instantiate h n p => exact act_instantiate hg h n p pc hc ht hnd
  | lookup n => exact act_lookup hg n pc hc hnd
  | compile => exact act_compile hg pc hc hnd
  | hostCompile f => exact act_hostCompile hg f pc hc hnd
  | closeModule h c => exact act_closeModule hg h c pc hc ht hnd
  | closeRuntime c => exact act_closeRuntime hg c pc hc hnd
  | isClosed h => exact act_isClosed hg h pc hc ht hnd

theorem safe_stable {hid dy hid' dy' : List Nat} {s s' : Impl} {h : Nat}
    (hasMono : ∀ h, s.has h = true → s'.has h = true)
    (hidNew : ∀ h ∈ hid', h ∈ hid ∨ s.has h = false) (dyNew : ∀ h ∈ dy', h ∈ dy ∨ s.has h = false)
    (hs : Safe hid dy s h) : Safe hid' dy' s' h := by
  obtain ⟨h1, h2, h3⟩ := hs
  refine ⟨hasMono h h1, ?_, ?_⟩
  · intro e; rcases hidNew h e with e' | e'
    · exact h2 e'
    · rw [h1] at e'; exact absurd e' (by simp)
  · intro e; rcases dyNew h e with e' | e'
    · exact h3 e'
    · rw [h1] at e'; exact absurd e' (by simp)

/-- What an operation in progress needs survives an action of ANOTHER operation, provided the two are not
instantiate requests with the same handle. -/
theorem tinv_stable {hid dy : List Nat} {s : Impl} {op : Op} {pc : Pc} (ha : Act hid dy s op pc)
    (op2 : Op) (pc2 : Pc) (ht : TInv hid dy s op2 pc2)
    (hdist : ∀ h n p n' p', op = .instantiate h n p → op2 = .instantiate h n' p' → False) :
    TInv (ghostStep s op pc (hid, dy)).1 (ghostStep s op pc (hid, dy)).2 (stepOp Cfg.repaired s op pc).1 op2 pc2 := by
  have hsafe : ∀ h, Safe hid dy s h →
      Safe (ghostStep s op pc (hid, dy)).1 (ghostStep s op pc (hid, dy)).2 (stepOp Cfg.repaired s op pc).1 h :=
    fun h hs => safe_stable ha.hasMono ha.hidNew ha.dyNew hs
  cases op2 with
  | instantiate h n p =>
    obtain ⟨h1, h2, h3⟩ := ht
    refine ⟨?_, ?_, fun e => hsafe h (h3 e)⟩
    · intro e
      have hn := h1 e
      cases hq : (stepOp Cfg.repaired s op pc).1.has h with
      | false => rfl
      | true =>
        rcases ha.newH h hq with e' | ⟨_, n', p', e'⟩
        · rw [hn] at e'; exact absurd e' (by simp)
        · exact absurd (hdist h n' p' n p e' rfl) id
    · intro e
      obtain ⟨e1, e2⟩ := h2 e
      refine ⟨ha.hasMono h e1, ?_⟩
      rcases e2 with e2 | e2
      · exact Or.inl (ha.hidMono h e2)
      · exact Or.inr (ha.dyMono h e2)
  | lookup n => intro h e; exact hsafe h (ht h e)
  | compile => trivial
  | hostCompile f => trivial
  | closeModule h c => intro e; exact hsafe h (ht e)
  | closeRuntime c => trivial
  | isClosed h => intro e; exact hsafe h (ht e)

/-! ### histories, linearizability, the handle discipline -/

/-- Events of an execution: invocation and return are observable; `lin t` marks the linearization point of the
operation thread `t` has in progress (chosen by the prover, not observable). -/
inductive Ev
  | inv (t : Nat) (op : Op)
  | lin (t : Nat)
  | ret (t : Nat) (op : Op) (r : Res)
deriving Repr, DecidableEq

def Ev.isLin : Ev → Bool
  | .lin _ => true
  | _ => false

/-- The observable event of thread `t`'s next step: it invokes its next operation, or returns from the one that
is done; atomic actions are silent. -/
def threadHist (t : Nat) (th : Thread) : List Ev :=
  match th.cur with
  | none =>
    match th.todo with
    | [] => []
    | op :: _ => [.inv t op]
  | some (op, pc) =>
    match pc with
    | .done r => [.ret t op r]
    | _ => []

def stepHist (c : Conc) (t : Nat) : List Ev :=
  match c.threads[t]? with
  | none => []
  | some th => threadHist t th

/-- The history (invocations and returns, in real-time order) of running schedule `sched` from `c`. -/
def history (cfg : Cfg) (c : Conc) : List Nat → List Ev
  | [] => []
  | t :: sched => stepHist c t ++ history cfg (c.step cfg t) sched

/-- State of the linearizability checker: the atomic registry, and per thread the operation in progress with
its result once it has been linearized. -/
structure LinSt where
  reg : Reg
  pend : Nat → Option (Op × Option Res)

def LinSt.step (st : LinSt) : Ev → Option LinSt
  | .inv t op =>
    match st.pend t with
    | none => some { st with pend := fun u => if u = t then some (op, none) else st.pend u }
    | some _ => none
  | .lin t =>
    match st.pend t with
    | some (op, none) =>
      some { reg := (st.reg.step op).1,
             pend := fun u => if u = t then some (op, some (st.reg.step op).2) else st.pend u }
    | _ => none
  | .ret t op x =>
    match st.pend t with
    | some (op', some x') =>
      if op' = op ∧ x' = x then some { st with pend := fun u => if u = t then none else st.pend u } else none
    | _ => none

def LinSt.run (st : LinSt) : List Ev → Option LinSt
  | [] => some st
  | e :: es =>
    match st.step e with
    | none => none
    | some st' => LinSt.run st' es

def LinSt.init : LinSt := ⟨Reg.init, fun _ => none⟩

/-- **Linearizability** of a history w.r.t. the atomic registry `Reg`: linearization points can be inserted —
for every returned operation exactly one, between its invocation and its return (for a pending operation at most
one, after its invocation) — such that the registry, executing the operations atomically in the order of their
linearization points, returns to every operation exactly the result the history shows. (Real-time order and
per-thread program order are respected because each point lies inside its operation's interval.) -/
def Linearizable (hist : List Ev) : Prop :=
  ∃ l : List Ev, l.filter (fun e => !e.isLin) = hist ∧ (LinSt.init.run l).isSome = true

/-- State of the handle discipline: handles used by instantiate requests so far; handles the clients have
obtained (from an instantiate that returned ok, or from a lookup). -/
structure DiscSt where
  used : List Nat := []
  okH : List Nat := []
deriving Repr, DecidableEq

def DiscSt.step (d : DiscSt) : Ev → Option DiscSt
  | .inv _ (.instantiate h _ _) => if h ∈ d.used then none else some { d with used := h :: d.used }
  | .inv _ (.closeModule h _) => if h ∈ d.okH then some d else none
  | .inv _ (.isClosed h) => if h ∈ d.okH then some d else none
  | .ret _ (.instantiate h _ _) .ok => some { d with okH := h :: d.okH }
  | .ret _ (.lookup _) (.found h) => some { d with okH := h :: d.okH }
  | _ => some d

def DiscSt.run (d : DiscSt) : List Ev → Option DiscSt
  | [] => some d
  | e :: es =>
    match d.step e with
    | none => none
    | some d' => DiscSt.run d' es

/-- **Handle discipline** of a history (how module handles arise in the real API): every instantiate request
creates a new handle, and `closeModule h` / `isClosed h` are only invoked on a handle that an instantiate has
already RETURNED successfully or that a lookup has already returned. (Without it the model is not linearizable
even when repaired: `stillborn_visible_witness`.) -/
def Disciplined (hist : List Ev) : Prop := (DiscSt.run {} hist).isSome = true

instance (hist : List Ev) : Decidable (Disciplined hist) := by unfold Disciplined; infer_instance

/-! ### the instrumented execution -/

/-- Events of thread `t`'s next step including the linearization mark: the action that takes the operation from
"not committed" (`post = none`) to "committed" is its linearization point. -/
def threadLin (s : Impl) (t : Nat) (th : Thread) : List Ev :=
  match th.cur with
  | none =>
    match th.todo with
    | [] => []
    | op :: _ => [.inv t op]
  | some (op, pc) =>
    match pc with
    | .done r => [.ret t op r]
    | _ => if (post pc).isNone && (post (stepOp Cfg.repaired s op pc).2).isSome then [.lin t] else []

def stepLin (c : Conc) (t : Nat) : List Ev :=
  match c.threads[t]? with
  | none => []
  | some th => threadLin c.shared t th

def ltrace (c : Conc) : List Nat → List Ev
  | [] => []
  | t :: sched => stepLin c t ++ ltrace (c.step Cfg.repaired t) sched

theorem threadLin_filter (s : Impl) (t : Nat) (th : Thread) :
    (threadLin s t th).filter (fun e => !e.isLin) = threadHist t th := by
  unfold threadLin threadHist
  split
  · split <;> simp [Ev.isLin]
  · split
    · simp [Ev.isLin]
    · split <;> simp [Ev.isLin]

theorem ltrace_filter (c : Conc) (sched : List Nat) :
    (ltrace c sched).filter (fun e => !e.isLin) = history Cfg.repaired c sched := by
  induction sched generalizing c with
  | nil => rfl
  | cons t sched ih =>
    simp only [ltrace, history, List.filter_append, ih]
    congr 1
    unfold stepLin stepHist
    split
    · rfl
    · exact threadLin_filter _ _ _

/-! ### the forward simulation over interleavings -/

theorem getElemOpt_updThread_self (t : Nat) (f : Thread → Thread) (l : List Thread) (th : Thread)
    (h : l[t]? = some th) : (updThread t f l)[t]? = some (f th) := by
  induction l generalizing t with
  | nil => simp at h
  | cons a l ih =>
    cases t with
    | zero => simp at h; simp [updThread, h]
    | succ t => simp at h; simp [updThread, ih t h]

theorem getElemOpt_updThread_ne (t u : Nat) (f : Thread → Thread) (l : List Thread) (hne : u ≠ t) :
    (updThread t f l)[u]? = l[u]? := by
  induction l generalizing t u with
  | nil => simp [updThread]
  | cons a l ih =>
    cases t with
    | zero =>
      cases u with
      | zero => exact absurd rfl hne
      | succ u => simp [updThread]
    | succ t =>
      cases u with
      | zero => simp [updThread]
      | succ u => simp [updThread, ih t u (by omega)]

theorem updThread_same (t : Nat) (l : List Thread) (th : Thread) (h : l[t]? = some th) :
    updThread t (fun _ => th) l = l := by
  induction l generalizing t with
  | nil => simp at h
  | cons a l ih =>
    cases t with
    | zero => simp at h; simp [updThread, h]
    | succ t => simp at h; simp [updThread, ih t h]

/-- thread `t` replaced by `th1`, shared state replaced by `s'` -/
def updConc (c : Conc) (s' : Impl) (t : Nat) (th1 : Thread) : Conc :=
  { shared := s', threads := updThread t (fun _ => th1) c.threads }

theorem conc_step_some (cfg : Cfg) (c : Conc) (t : Nat) (th : Thread) (h : c.threads[t]? = some th) :
    c.step cfg t = updConc c (stepThread cfg c.shared th).1 t (stepThread cfg c.shared th).2 := by
  simp [Conc.step, h, updConc]

theorem conc_step_none (cfg : Cfg) (c : Conc) (t : Nat) (h : c.threads[t]? = none) : c.step cfg t = c := by
  simp [Conc.step, h]

theorem stepThread_idle (cfg : Cfg) (s : Impl) (th : Thread) (h1 : th.cur = none) (h2 : th.todo = []) :
    stepThread cfg s th = (s, th) := by
  simp [stepThread, h1, h2]

theorem stepThread_inv (cfg : Cfg) (s : Impl) (th : Thread) (op : Op) (rest : List Op) (h1 : th.cur = none)
    (h2 : th.todo = op :: rest) :
    stepThread cfg s th = (s, { th with cur := some (op, startPc cfg op), todo := rest }) := by
  simp [stepThread, h1, h2]

theorem stepThread_ret (cfg : Cfg) (s : Impl) (th : Thread) (op : Op) (r : Res) (h1 : th.cur = some (op, .done r)) :
    stepThread cfg s th = (s, { th with cur := none, results := th.results ++ [(op, r)] }) := by
  simp [stepThread, h1]

theorem stepThread_act (cfg : Cfg) (s : Impl) (th : Thread) (op : Op) (pc : Pc) (h1 : th.cur = some (op, pc))
    (hnd : ∀ r, pc ≠ .done r) :
    stepThread cfg s th = ((stepOp cfg s op pc).1, { th with cur := some (op, (stepOp cfg s op pc).2) }) := by
  cases pc <;> first | exact absurd rfl (hnd _) | simp [stepThread, h1]

/-- The operation in progress of thread `u` with the result it is committed to. -/
def pendOf (c : Conc) (u : Nat) : Option (Op × Option Res) :=
  match c.threads[u]? with
  | none => none
  | some th =>
    match th.cur with
    | none => none
    | some (op, pc) => some (op, post pc)

/-- The checker state that corresponds to a configuration. -/
def Rel (st : LinSt) (c : Conc) (hid dy : List Nat) : Prop :=
  st.reg = absG hid dy c.shared ∧ ∀ u, st.pend u = pendOf c u

/-- The invariant of the whole configuration (with the ghost sets and the discipline state). -/
structure WInv (c : Conc) (hid dy : List Nat) (d : DiscSt) : Prop where
  g : GInv hid dy c.shared
  t : ∀ (t : Nat) (th : Thread) (op : Op) (pc : Pc), c.threads[t]? = some th → th.cur = some (op, pc) →
    Compat op pc = true ∧ TInv hid dy c.shared op pc
  usedI : ∀ h, c.shared.has h = true → h ∈ d.used
  usedC : ∀ (t : Nat) (th : Thread) (h n : Nat) (p : Pre) (pc : Pc), c.threads[t]? = some th →
    th.cur = some (.instantiate h n p, pc) → h ∈ d.used
  pw : ∀ (t t' : Nat) (th th' : Thread) (h n : Nat) (p : Pre) (pc : Pc) (n' : Nat) (p' : Pre) (pc' : Pc), t ≠ t' →
    c.threads[t]? = some th → c.threads[t']? = some th' →
    th.cur = some (.instantiate h n p, pc) → th'.cur = some (.instantiate h n' p', pc') → False
  okS : ∀ h ∈ d.okH, Safe hid dy c.shared h

theorem post_startPc (op : Op) : post (startPc Cfg.repaired op) = none := by
  cases op with
  | instantiate h n p => cases p <;> rfl
  | hostCompile f => rfl
  | _ => rfl

theorem compat_startPc (op : Op) : Compat op (startPc Cfg.repaired op) = true := by
  cases op with
  | instantiate h n p => cases p <;> rfl
  | hostCompile f => rfl
  | _ => rfl

theorem preReg_startPc (h n : Nat) (p : Pre) : preReg (startPc Cfg.repaired (.instantiate h n p)) = true := by
  cases p <;> rfl

theorem winv_upd {c : Conc} {hid dy : List Nat} {d : DiscSt} (hw : WInv c hid dy d) {t : Nat} {th : Thread}
    (hth : c.threads[t]? = some th) {s' : Impl} {hid' dy' : List Nat} {d' : DiscSt} {th1 : Thread}
    (hg : GInv hid' dy' s')
    (hself : ∀ op pc, th1.cur = some (op, pc) → Compat op pc = true ∧ TInv hid' dy' s' op pc)
    (hother : ∀ (u : Nat) (thu : Thread) (op : Op) (pc : Pc), u ≠ t → c.threads[u]? = some thu →
      thu.cur = some (op, pc) → TInv hid' dy' s' op pc)
    (husedI : ∀ h, s'.has h = true → h ∈ d'.used)
    (husedMono : ∀ h ∈ d.used, h ∈ d'.used)
    (hselfUsed : ∀ h n p pc, th1.cur = some (.instantiate h n p, pc) → h ∈ d'.used)
    (hselfPw : ∀ h n p pc, th1.cur = some (.instantiate h n p, pc) → ∀ (u : Nat) (thu : Thread) n' p' pc', u ≠ t →
      c.threads[u]? = some thu → thu.cur = some (.instantiate h n' p', pc') → False)
    (hok : ∀ h ∈ d'.okH, Safe hid' dy' s' h) :
    WInv (updConc c s' t th1) hid' dy' d' := by
  show WInv { shared := s', threads := updThread t (fun _ => th1) c.threads } hid' dy' d'
  have hget : ∀ u thu, (updThread t (fun _ => th1) c.threads)[u]? = some thu →
      (u = t ∧ thu = th1) ∨ (u ≠ t ∧ c.threads[u]? = some thu) := by
    intro u thu h
    by_cases e : u = t
    · subst e
      rw [getElemOpt_updThread_self _ _ _ th hth] at h
      exact Or.inl ⟨rfl, by simpa using h.symm⟩
    · rw [getElemOpt_updThread_ne _ _ _ _ e] at h
      exact Or.inr ⟨e, h⟩
  refine ⟨hg, ?_, husedI, ?_, ?_, hok⟩
  · intro u thu op pc h1 h2
    rcases hget u thu h1 with ⟨_, rfl⟩ | ⟨e, h1'⟩
    · exact hself op pc h2
    · exact ⟨(hw.t u thu op pc h1' h2).1, hother u thu op pc e h1' h2⟩
  · intro u thu h n p pc h1 h2
    rcases hget u thu h1 with ⟨_, rfl⟩ | ⟨e, h1'⟩
    · exact hselfUsed h n p pc h2
    · exact husedMono h (hw.usedC u thu h n p pc h1' h2)
  · intro u u' thu thu' h n p pc n' p' pc' hne h1 h1' h2 h2'
    rcases hget u thu h1 with ⟨e, rfl⟩ | ⟨e, g1⟩ <;> rcases hget u' thu' h1' with ⟨e', rfl⟩ | ⟨e', g1'⟩
    · exact hne (e.trans e'.symm)
    · exact hselfPw h n p pc h2 u' thu' n' p' pc' e' g1' h2'
    · exact hselfPw h n' p' pc' h2' u thu n p pc e g1 h2
    · exact hw.pw u u' thu thu' h n p pc n' p' pc' hne g1 g1' h2 h2'

theorem pendOf_upd {c : Conc} {t : Nat} {th : Thread} (hth : c.threads[t]? = some th) (s' : Impl) (th1 : Thread)
    (u : Nat) :
    pendOf (updConc c s' t th1) u =
      if u = t then (match th1.cur with | none => none | some (op, pc) => some (op, post pc)) else pendOf c u := by
  by_cases e : u = t
  · subst e; simp [pendOf, updConc, getElemOpt_updThread_self _ _ _ th hth]
  · simp [pendOf, updConc, getElemOpt_updThread_ne _ _ _ _ e, e]

theorem pendOf_self {c : Conc} {t : Nat} {th : Thread} (hth : c.threads[t]? = some th) :
    pendOf c t = (match th.cur with | none => none | some (op, pc) => some (op, post pc)) := by
  simp [pendOf, hth]

theorem disc_run_single {d d' : DiscSt} {e : Ev} (h : d.run [e] = some d') : d.step e = some d' := by
  simp only [DiscSt.run] at h
  split at h
  · simp at h
  · rename_i d1 hd1; rw [hd1]; simpa [DiscSt.run] using h

theorem disc_inv {d d' : DiscSt} {t : Nat} {op : Op} (h : d.step (.inv t op) = some d') :
    d'.okH = d.okH ∧ (∀ k, k ∈ d'.used ↔ k ∈ d.used ∨ ∃ n p, op = .instantiate k n p) ∧
    (∀ k n p, op = .instantiate k n p → k ∉ d.used) ∧
    (∀ k c, op = .closeModule k c → k ∈ d.okH) ∧ (∀ k, op = .isClosed k → k ∈ d.okH) := by
  cases op with
  | instantiate h0 n p =>
    simp only [DiscSt.step] at h
    split at h
    · simp at h
    · rename_i hn
      have : d' = { d with used := h0 :: d.used } := by simpa using h.symm
      subst this
      refine ⟨rfl, ?_, ?_, by simp, by simp⟩
      · intro k; simp only [List.mem_cons]
        constructor
        · rintro (e | e)
          · exact Or.inr ⟨n, p, by rw [e]⟩
          · exact Or.inl e
        · rintro (e | ⟨n', p', e⟩)
          · exact Or.inr e
          · simp only [Op.instantiate.injEq] at e; exact Or.inl e.1.symm
      · intro k n' p' e
        simp only [Op.instantiate.injEq] at e; rw [← e.1]; exact hn
  | closeModule h0 c =>
    simp only [DiscSt.step] at h
    split at h
    · rename_i hm
      have : d' = d := by simpa using h.symm
      subst this
      exact ⟨rfl, by simp, by simp, by intro k c' e; simp only [Op.closeModule.injEq] at e; rw [← e.1]; exact hm, by simp⟩
    · simp at h
  | isClosed h0 =>
    simp only [DiscSt.step] at h
    split at h
    · rename_i hm
      have : d' = d := by simpa using h.symm
      subst this
      exact ⟨rfl, by simp, by simp, by simp, by intro k e; simp only [Op.isClosed.injEq] at e; rw [← e]; exact hm⟩
    · simp at h
  | lookup n =>
    have : d' = d := by simpa [DiscSt.step] using h.symm
    subst this; exact ⟨rfl, by simp, by simp, by simp, by simp⟩
  | compile =>
    have : d' = d := by simpa [DiscSt.step] using h.symm
    subst this; exact ⟨rfl, by simp, by simp, by simp, by simp⟩
  | hostCompile f =>
    have : d' = d := by simpa [DiscSt.step] using h.symm
    subst this; exact ⟨rfl, by simp, by simp, by simp, by simp⟩
  | closeRuntime c =>
    have : d' = d := by simpa [DiscSt.step] using h.symm
    subst this; exact ⟨rfl, by simp, by simp, by simp, by simp⟩

theorem disc_ret {d d' : DiscSt} {t : Nat} {op : Op} {r : Res} (h : d.step (.ret t op r) = some d') :
    d'.used = d.used ∧ ∀ k ∈ d'.okH, k ∈ d.okH ∨ (∃ n p, op = .instantiate k n p ∧ r = .ok) ∨
      (∃ n, op = .lookup n ∧ r = .found k) := by
  cases op with
  | instantiate h0 n p =>
    cases r with
    | ok =>
      have : d' = { d with okH := h0 :: d.okH } := by simpa [DiscSt.step] using h.symm
      subst this
      refine ⟨rfl, ?_⟩
      intro k hk
      rcases List.mem_cons.mp hk with e | e
      · exact Or.inr (Or.inl ⟨n, p, by rw [e], rfl⟩)
      · exact Or.inl e
    | _ =>
      have : d' = d := by simpa [DiscSt.step] using h.symm
      subst this; exact ⟨rfl, fun k hk => Or.inl hk⟩
  | lookup n =>
    cases r with
    | found h0 =>
      have : d' = { d with okH := h0 :: d.okH } := by simpa [DiscSt.step] using h.symm
      subst this
      refine ⟨rfl, ?_⟩
      intro k hk
      rcases List.mem_cons.mp hk with e | e
      · exact Or.inr (Or.inr ⟨n, rfl, by rw [e]⟩)
      · exact Or.inl e
    | _ =>
      have : d' = d := by simpa [DiscSt.step] using h.symm
      subst this; exact ⟨rfl, fun k hk => Or.inl hk⟩
  | compile =>
    have : d' = d := by simpa [DiscSt.step] using h.symm
    subst this; exact ⟨rfl, fun k hk => Or.inl hk⟩
  | hostCompile f =>
    have : d' = d := by simpa [DiscSt.step] using h.symm
    subst this; exact ⟨rfl, fun k hk => Or.inl hk⟩
  | closeRuntime c =>
    have : d' = d := by simpa [DiscSt.step] using h.symm
    subst this; exact ⟨rfl, fun k hk => Or.inl hk⟩
  | closeModule h0 c =>
    have : d' = d := by simpa [DiscSt.step] using h.symm
    subst this; exact ⟨rfl, fun k hk => Or.inl hk⟩
  | isClosed h0 =>
    have : d' = d := by simpa [DiscSt.step] using h.symm
    subst this; exact ⟨rfl, fun k hk => Or.inl hk⟩

theorem sim_invoke {c : Conc} {hid dy : List Nat} {d d' : DiscSt} {st : LinSt} {t : Nat} {th : Thread}
    (hw : WInv c hid dy d) (hr : Rel st c hid dy) (hth : c.threads[t]? = some th) (hcur : th.cur = none)
    (op : Op) (rest : List Op) (hd : d.step (.inv t op) = some d') :
    ∃ st', WInv (updConc c c.shared t { th with cur := some (op, startPc Cfg.repaired op), todo := rest }) hid dy d' ∧
      Rel st' (updConc c c.shared t { th with cur := some (op, startPc Cfg.repaired op), todo := rest }) hid dy ∧
      st.run [.inv t op] = some st' := by
  obtain ⟨dok, dused, dfresh, dclose, dis⟩ := disc_inv hd
  have hpend : st.pend t = none := by rw [hr.2 t, pendOf_self hth, hcur]
  refine ⟨{ st with pend := fun u => if u = t then some (op, none) else st.pend u }, ?_, ?_, ?_⟩
  · refine winv_upd hw hth hw.g ?_ ?_ ?_ ?_ ?_ ?_ ?_
    · intro op' pc' e
      simp only [Option.some.injEq, Prod.mk.injEq] at e
      obtain ⟨rfl, rfl⟩ := e
      refine ⟨compat_startPc _, ?_⟩
      cases op with
      | instantiate h n p =>
        have hn : c.shared.has h = false := by
          cases hq : c.shared.has h with
          | false => rfl
          | true => exact absurd (hw.usedI h hq) (dfresh h n p rfl)
        refine ⟨fun _ => hn, ?_, ?_⟩
        · intro e; cases p <;> simp [startPc, fPhase, Cfg.repaired] at e
        · intro e; cases p <;> simp [startPc, Cfg.repaired] at e
      | closeModule h cc => intro _; exact hw.okS h (dclose h cc rfl)
      | isClosed h => intro _; exact hw.okS h (dis h rfl)
      | lookup n => intro h e; simp [startPc] at e
      | compile => trivial
      | hostCompile f => trivial
      | closeRuntime cc => trivial
    · intro u thu op' pc' _ h1 h2; exact (hw.t u thu op' pc' h1 h2).2
    · intro h hh; exact (dused h).mpr (Or.inl (hw.usedI h hh))
    · intro h hh; exact (dused h).mpr (Or.inl hh)
    · intro h n p pc' e
      simp only [Option.some.injEq, Prod.mk.injEq] at e
      exact (dused h).mpr (Or.inr ⟨n, p, e.1⟩)
    · intro h n p pc' e u thu n' p' pc'' _ h1 h2
      simp only [Option.some.injEq, Prod.mk.injEq] at e
      exact dfresh h n p e.1 (hw.usedC u thu h n' p' pc'' h1 h2)
    · intro h hh; rw [dok] at hh; exact hw.okS h hh
  · refine ⟨hr.1, ?_⟩
    intro u
    rw [pendOf_upd hth]
    by_cases e : u = t
    · simp [e, post_startPc]
    · simp [e, hr.2 u]
  · simp [LinSt.run, LinSt.step, hpend]

theorem sim_return {c : Conc} {hid dy : List Nat} {d d' : DiscSt} {st : LinSt} {t : Nat} {th : Thread}
    (hw : WInv c hid dy d) (hr : Rel st c hid dy) (hth : c.threads[t]? = some th) (op : Op) (r : Res)
    (hcur : th.cur = some (op, .done r)) (hd : d.step (.ret t op r) = some d') :
    ∃ st', WInv (updConc c c.shared t { th with cur := none, results := th.results ++ [(op, r)] }) hid dy d' ∧
      Rel st' (updConc c c.shared t { th with cur := none, results := th.results ++ [(op, r)] }) hid dy ∧
      st.run [.ret t op r] = some st' := by
  obtain ⟨dused, dok⟩ := disc_ret hd
  have hpend : st.pend t = some (op, some r) := by rw [hr.2 t, pendOf_self hth, hcur]; rfl
  have htinv := (hw.t t th op (.done r) hth hcur).2
  refine ⟨{ st with pend := fun u => if u = t then none else st.pend u }, ?_, ?_, ?_⟩
  · refine winv_upd hw hth hw.g ?_ ?_ ?_ ?_ ?_ ?_ ?_
    · intro op' pc' e; simp at e
    · intro u thu op' pc' _ h1 h2; exact (hw.t u thu op' pc' h1 h2).2
    · intro h hh; rw [dused]; exact hw.usedI h hh
    · intro h hh; rw [dused]; exact hh
    · intro h n p pc' e; simp at e
    · intro h n p pc' e; simp at e
    · intro h hh
      rcases dok h hh with e | ⟨n, p, e1, e2⟩ | ⟨n, e1, e2⟩
      · exact hw.okS h e
      · subst e1 e2; exact htinv.2.2 rfl
      · subst e1 e2; exact htinv h rfl
  · refine ⟨hr.1, ?_⟩
    intro u
    rw [pendOf_upd hth]
    by_cases e : u = t
    · simp [e]
    · simp [e, hr.2 u]
  · simp [LinSt.run, LinSt.step, hpend]

theorem sim_action {c : Conc} {hid dy : List Nat} {d : DiscSt} {st : LinSt} {t : Nat} {th : Thread}
    (hw : WInv c hid dy d) (hr : Rel st c hid dy) (hth : c.threads[t]? = some th) (op : Op) (pc : Pc)
    (hcur : th.cur = some (op, pc)) (hnd : ∀ r, pc ≠ .done r) :
    ∃ hid' dy' st', WInv (updConc c (stepOp Cfg.repaired c.shared op pc).1 t { th with cur := some (op, (stepOp Cfg.repaired c.shared op pc).2) }) hid' dy' d ∧
      Rel st' (updConc c (stepOp Cfg.repaired c.shared op pc).1 t { th with cur := some (op, (stepOp Cfg.repaired c.shared op pc).2) }) hid' dy' ∧
      st.run (if (post pc).isNone && (post (stepOp Cfg.repaired c.shared op pc).2).isSome then [.lin t] else [])
        = some st' := by
  obtain ⟨hcomp, htinv⟩ := hw.t t th op pc hth hcur
  have ha := action hw.g op pc hcomp htinv hnd
  have hpend : st.pend t = some (op, post pc) := by rw [hr.2 t, pendOf_self hth, hcur]
  have hW : WInv (updConc c (stepOp Cfg.repaired c.shared op pc).1 t { th with cur := some (op, (stepOp Cfg.repaired c.shared op pc).2) })
        (ghostStep c.shared op pc (hid, dy)).1 (ghostStep c.shared op pc (hid, dy)).2 d := by
    refine winv_upd hw hth ha.ginv ?_ ?_ ?_ ?_ ?_ ?_ ?_
    · intro op' pc' e
      simp only [Option.some.injEq, Prod.mk.injEq] at e
      obtain ⟨rfl, rfl⟩ := e
      exact ⟨ha.compat, ha.tinv⟩
    · intro u thu op' pc' hne h1 h2
      refine tinv_stable ha op' pc' (hw.t u thu op' pc' h1 h2).2 ?_
      intro h n p n' p' e1 e2
      subst e1 e2
      exact hw.pw t u th thu h n p pc n' p' pc' (Ne.symm hne) hth h1 hcur h2
    · intro h hh
      rcases ha.newH h hh with e | ⟨_, n, p, e⟩
      · exact hw.usedI h e
      · subst e; exact hw.usedC t th h n p pc hth hcur
    · intro h hh; exact hh
    · intro h n p pc' e
      simp only [Option.some.injEq, Prod.mk.injEq] at e
      obtain ⟨rfl, _⟩ := e
      exact hw.usedC t th h n p pc hth hcur
    · intro h n p pc' e u thu n' p' pc'' hne h1 h2
      simp only [Option.some.injEq, Prod.mk.injEq] at e
      obtain ⟨rfl, _⟩ := e
      exact hw.pw t u th thu h n p pc n' p' pc'' (Ne.symm hne) hth h1 hcur h2
    · intro h hh; exact safe_stable ha.hasMono ha.hidNew ha.dyNew (hw.okS h hh)
  have hlin := ha.lin
  rw [← hr.1] at hlin
  have hpu : ∀ u, u ≠ t → pendOf (updConc c (stepOp Cfg.repaired c.shared op pc).1 t
      { th with cur := some (op, (stepOp Cfg.repaired c.shared op pc).2) }) u = pendOf c u := by
    intro u hu; rw [pendOf_upd hth]; simp [hu]
  have hpt : pendOf (updConc c (stepOp Cfg.repaired c.shared op pc).1 t
      { th with cur := some (op, (stepOp Cfg.repaired c.shared op pc).2) }) t =
      some (op, post (stepOp Cfg.repaired c.shared op pc).2) := by
    rw [pendOf_upd hth]; simp
  cases hp : post pc with
  | some x =>
    rw [hp] at hlin hpend
    simp only [LinRel] at hlin
    obtain ⟨hy, hreg⟩ := hlin
    refine ⟨_, _, st, hW, ⟨hreg.symm, ?_⟩, by simp [LinSt.run]⟩
    intro u
    by_cases e : u = t
    · subst e; rw [hpt, hpend, hy]
    · rw [hpu u e]; exact hr.2 u
  | none =>
    rw [hp] at hlin hpend
    cases hp' : post (stepOp Cfg.repaired c.shared op pc).2 with
    | none =>
      rw [hp'] at hlin
      simp only [LinRel] at hlin
      refine ⟨_, _, st, hW, ⟨hlin.symm, ?_⟩, by simp [LinSt.run]⟩
      intro u
      by_cases e : u = t
      · subst e; rw [hpt, hpend, hp']
      · rw [hpu u e]; exact hr.2 u
    | some x =>
      rw [hp'] at hlin
      simp only [LinRel] at hlin
      refine ⟨_, _, LinSt.mk (st.reg.step op).1
          (fun u => if u = t then some (op, some (st.reg.step op).2) else st.pend u), hW, ⟨?_, ?_⟩, ?_⟩
      · simp [hlin, updConc]
      · intro u
        by_cases e : u = t
        · subst e; rw [hpt, hp']; simp [hlin]
        · rw [hpu u e]; simp [e, hr.2 u]
      · simp [LinSt.run, LinSt.step, hpend]

/-- **One scheduler step.** From a configuration satisfying the invariant, with the checker in the corresponding
state, a step whose observable event respects the handle discipline leads to a configuration satisfying the
invariant (with new ghost sets), and the checker accepts the step's events (with the linearization mark) and
ends in the corresponding state. -/
theorem conc_step_sim (c : Conc) (hid dy : List Nat) (d d' : DiscSt) (st : LinSt) (t : Nat)
    (hw : WInv c hid dy d) (hr : Rel st c hid dy) (hd : d.run (stepHist c t) = some d') :
    ∃ hid' dy' st', WInv (c.step Cfg.repaired t) hid' dy' d' ∧ Rel st' (c.step Cfg.repaired t) hid' dy' ∧
      st.run (stepLin c t) = some st' := by
  cases hth : c.threads[t]? with
  | none =>
    simp only [stepHist, hth, DiscSt.run] at hd
    have : d' = d := by simpa using hd.symm
    subst this
    rw [conc_step_none _ _ _ hth]
    exact ⟨hid, dy, st, hw, hr, by simp [stepLin, hth, LinSt.run]⟩
  | some th =>
    rw [conc_step_some _ _ _ _ hth]
    simp only [stepHist, hth] at hd
    simp only [stepLin, hth]
    cases hcur : th.cur with
    | none =>
      cases htodo : th.todo with
      | nil =>
        simp only [threadHist, hcur, htodo, DiscSt.run] at hd
        have : d' = d := by simpa using hd.symm
        subst this
        rw [stepThread_idle _ _ _ hcur htodo]
        have hsame : updConc c c.shared t th = c := by simp [updConc, updThread_same _ _ _ hth]
        rw [hsame]
        exact ⟨hid, dy, st, hw, hr, by simp [threadLin, hcur, htodo, LinSt.run]⟩
      | cons op rest =>
        simp only [threadHist, hcur, htodo] at hd
        rw [stepThread_inv _ _ _ op rest hcur htodo]
        obtain ⟨st', h1, h2, h3⟩ := sim_invoke hw hr hth hcur op rest (disc_run_single hd)
        exact ⟨hid, dy, st', h1, h2, by simpa [threadLin, hcur, htodo] using h3⟩
    | some cur =>
      obtain ⟨op, pc⟩ := cur
      by_cases hdone : ∃ r, pc = .done r
      · obtain ⟨r, rfl⟩ := hdone
        simp only [threadHist, hcur] at hd
        rw [stepThread_ret _ _ _ op r hcur]
        obtain ⟨st', h1, h2, h3⟩ := sim_return hw hr hth op r hcur (disc_run_single hd)
        exact ⟨hid, dy, st', h1, h2, by simpa [threadLin, hcur] using h3⟩
      · have hnd : ∀ r, pc ≠ .done r := fun r e => hdone ⟨r, e⟩
        have hd0 : d' = d := by
          have : threadHist t th = [] := by
            cases pc <;> first | exact absurd rfl (hnd _) | simp [threadHist, hcur]
          rw [this] at hd; simpa [DiscSt.run] using hd.symm
        subst hd0
        rw [stepThread_act _ _ _ op pc hcur hnd]
        obtain ⟨hid', dy', st', h1, h2, h3⟩ := sim_action hw hr hth op pc hcur hnd
        refine ⟨hid', dy', st', h1, h2, ?_⟩
        have : threadLin c.shared t th =
            (if (post pc).isNone && (post (stepOp Cfg.repaired c.shared op pc).2).isSome then [.lin t] else []) := by
          cases pc <;> first | exact absurd rfl (hnd _) | simp [threadLin, hcur]
        rw [this]; exact h3

theorem disc_run_append (d : DiscSt) (a b : List Ev) :
    d.run (a ++ b) = (d.run a).bind (fun d1 => d1.run b) := by
  induction a generalizing d with
  | nil => rfl
  | cons e a ih =>
    simp only [List.cons_append, DiscSt.run]
    cases d.step e with
    | none => rfl
    | some d1 => exact ih d1

theorem lin_run_append (st : LinSt) (a b : List Ev) :
    st.run (a ++ b) = (st.run a).bind (fun s1 => s1.run b) := by
  induction a generalizing st with
  | nil => rfl
  | cons e a ih =>
    simp only [List.cons_append, LinSt.run]
    cases st.step e with
    | none => rfl
    | some s1 => exact ih s1

/-- The forward simulation along a whole schedule. -/
theorem conc_sim (sched : List Nat) : ∀ (c : Conc) (hid dy : List Nat) (d : DiscSt) (st : LinSt),
    WInv c hid dy d → Rel st c hid dy → (d.run (history Cfg.repaired c sched)).isSome = true →
    (st.run (ltrace c sched)).isSome = true := by
  induction sched with
  | nil => intro c hid dy d st _ _ _; rfl
  | cons t sched ih =>
    intro c hid dy d st hw hr hd
    simp only [history, disc_run_append] at hd
    cases hd1 : d.run (stepHist c t) with
    | none => simp [hd1] at hd
    | some d' =>
      rw [hd1] at hd
      obtain ⟨hid', dy', st', hw', hr', hrun⟩ := conc_step_sim c hid dy d d' st t hw hr hd1
      simp only [ltrace, lin_run_append, hrun]
      exact ih _ hid' dy' d' st' hw' hr' hd

theorem winv_start (progs : List (List Op)) : WInv (Conc.start progs) [] [] {} := by
  have hcur : ∀ (t : Nat) (th : Thread), (Conc.start progs).threads[t]? = some th → th.cur = none := by
    intro t th h
    simp only [Conc.start, List.getElem?_map] at h
    cases hp : progs[t]? with
    | none => simp [hp] at h
    | some p => simp [hp] at h; rw [← h]
  refine ⟨ginv_init, ?_, ?_, ?_, ?_, ?_⟩
  · intro t th op pc h1 h2; rw [hcur t th h1] at h2; simp at h2
  · intro h hh; simp [Conc.start, Impl.has] at hh
  · intro t th h n p pc h1 h2; rw [hcur t th h1] at h2; simp at h2
  · intro t t' th th' h n p pc n' p' pc' _ h1 _ h2; rw [hcur t th h1] at h2; simp at h2
  · intro h hh; simp at hh

theorem rel_start (progs : List (List Op)) : Rel LinSt.init (Conc.start progs) [] [] := by
  refine ⟨?_, ?_⟩
  · show Reg.init = absG [] [] Impl.init
    rw [absG_nil]; rfl
  · intro u
    simp only [LinSt.init, pendOf, Conc.start, List.getElem?_map]
    cases hp : progs[u]? with
    | none => simp
    | some p => simp

/-- **Linearizability under all interleavings (repaired variant).** Any number of threads, any programs, any
schedule (interleaved at atomic-action granularity), any prefix of the execution, complete or not: if the
history respects the handle discipline, it is linearizable w.r.t. the atomic registry. The linearization points
are: the last read of a compile / host compile request; `failIfClosed` or the types section when they refuse,
else the `registerModule` critical section, for instantiate; the CAS + `deleteModule` action for closeModule;
the CAS + `Store.CloseWithExitCode` action for closeRuntime; the single action of lookup and isClosed. -/
theorem conc_linearizable (progs : List (List Op)) (sched : List Nat)
    (hd : Disciplined (history Cfg.repaired (Conc.start progs) sched)) :
    Linearizable (history Cfg.repaired (Conc.start progs) sched) :=
  ⟨ltrace (Conc.start progs) sched, ltrace_filter _ _,
    conc_sim sched _ [] [] {} LinSt.init (winv_start progs) (rel_start progs) hd⟩

/-! ### a complete search for linearizations (to REFUTE linearizability of concrete histories by `decide`) -/

/-- pending map as an association list, newest binding first -/
def lookupP (u : Nat) : List (Nat × Option (Op × Option Res)) → Option (Op × Option Res)
  | [] => none
  | (k, v) :: rest => if k = u then v else lookupP u rest

/-- Depth-first search over all ways to insert linearization points into `hist`: at every point either the next
observable event is consumed or one pending, not yet linearized operation is linearized. -/
def linSearch : Nat → Reg → List (Nat × Option (Op × Option Res)) → List Ev → Bool
  | 0, _, _, _ => false
  | fuel + 1, reg, pend, hist =>
    (match hist with
     | [] => true
     | .inv t op :: rest =>
       (match lookupP t pend with
        | none => linSearch fuel reg ((t, some (op, none)) :: pend) rest
        | some _ => false)
     | .ret t op x :: rest =>
       (match lookupP t pend with
        | some (op', some x') => decide (op' = op ∧ x' = x) && linSearch fuel reg ((t, none) :: pend) rest
        | _ => false)
     | .lin _ :: _ => false)
    || pend.any (fun kv =>
        match lookupP kv.1 pend with
        | some (op, none) =>
          linSearch fuel (reg.step op).1 ((kv.1, some (op, some (reg.step op).2)) :: pend) hist
        | _ => false)

theorem lookupP_mem {u : Nat} {pend : List (Nat × Option (Op × Option Res))} {v : Op × Option Res}
    (h : lookupP u pend = some v) : ∃ kv ∈ pend, kv.1 = u := by
  induction pend with
  | nil => simp [lookupP] at h
  | cons a pend ih =>
    obtain ⟨k, w⟩ := a
    simp only [lookupP] at h
    by_cases e : k = u
    · exact ⟨(k, w), List.mem_cons_self, e⟩
    · simp only [e, if_false] at h
      obtain ⟨kv, hkv, e'⟩ := ih h
      exact ⟨kv, List.mem_cons_of_mem _ hkv, e'⟩

theorem pend_cons {f : Nat → Option (Op × Option Res)} {pend : List (Nat × Option (Op × Option Res))}
    (hp : ∀ u, f u = lookupP u pend) (t : Nat) (v : Option (Op × Option Res)) (u : Nat) :
    (if u = t then v else f u) = lookupP u ((t, v) :: pend) := by
  by_cases e : u = t
  · subst e; simp [lookupP]
  · have e' : ¬ t = u := fun h => e h.symm
    simp [lookupP, e, e', hp u]

/-- The search finds every linearization. -/
theorem linSearch_complete (l : List Ev) : ∀ (st : LinSt) (pend : List (Nat × Option (Op × Option Res)))
    (hist : List Ev) (fuel : Nat), (∀ u, st.pend u = lookupP u pend) → l.filter (fun e => !e.isLin) = hist →
    (st.run l).isSome = true → l.length < fuel → linSearch fuel st.reg pend hist = true := by
  induction l with
  | nil =>
    intro st pend hist fuel _ hf _ hlen
    cases fuel with
    | zero => omega
    | succ fuel => simp at hf; subst hf; simp [linSearch]
  | cons e l ih =>
    intro st pend hist fuel hp hf hrun hlen
    cases fuel with
    | zero => omega
    | succ fuel =>
      have hlen' : l.length < fuel := by simp at hlen; omega
      simp only [LinSt.run] at hrun
      cases hstep : st.step e with
      | none => simp [hstep] at hrun
      | some st1 =>
        have hrun1 : (st1.run l).isSome = true := by simpa [hstep] using hrun
        clear hrun
        cases e with
        | inv t op =>
          simp only [List.filter_cons, Ev.isLin, Bool.not_false, if_true] at hf
          subst hf
          simp only [LinSt.step] at hstep
          cases hpt : st.pend t with
          | some v => simp [hpt] at hstep
          | none =>
            simp only [hpt, Option.some.injEq] at hstep
            subst hstep
            have hl : lookupP t pend = none := by rw [← hp t]; exact hpt
            simp only [linSearch, hl]
            apply Bool.or_eq_true_iff.mpr; left
            exact ih ⟨st.reg, fun u => if u = t then some (op, none) else st.pend u⟩
              ((t, some (op, none)) :: pend) _ fuel (pend_cons hp t _) rfl hrun1 hlen'
        | ret t op x =>
          simp only [List.filter_cons, Ev.isLin, Bool.not_false, if_true] at hf
          subst hf
          simp only [LinSt.step] at hstep
          cases hpt : st.pend t with
          | none => simp [hpt] at hstep
          | some v =>
            obtain ⟨op', r'⟩ := v
            cases r' with
            | none => simp [hpt] at hstep
            | some x' =>
              simp only [hpt] at hstep
              by_cases hc : op' = op ∧ x' = x
              · simp only [hc, and_self, if_true, Option.some.injEq] at hstep
                subst hstep
                have hl : lookupP t pend = some (op', some x') := by rw [← hp t]; exact hpt
                simp only [linSearch, hl]
                apply Bool.or_eq_true_iff.mpr; left
                simp only [hc, and_self, decide_true, Bool.true_and]
                exact ih ⟨st.reg, fun u => if u = t then none else st.pend u⟩
                  ((t, none) :: pend) _ fuel (pend_cons hp t _) rfl hrun1 hlen'
              · simp [hc] at hstep
        | lin t =>
          have hf' : l.filter (fun e => !e.isLin) = hist := by
            have : (Ev.lin t :: l).filter (fun e => !e.isLin) = l.filter (fun e => !e.isLin) := by
              rw [List.filter_cons]; rfl
            rw [← this]; exact hf
          simp only [LinSt.step] at hstep
          cases hpt : st.pend t with
          | none => simp [hpt] at hstep
          | some v =>
            obtain ⟨op, r⟩ := v
            cases r with
            | some x => simp [hpt] at hstep
            | none =>
              simp only [hpt, Option.some.injEq] at hstep
              subst hstep
              have hl : lookupP t pend = some (op, none) := by rw [← hp t]; exact hpt
              obtain ⟨kv, hkv, hk⟩ := lookupP_mem hl
              simp only [linSearch]
              apply Bool.or_eq_true_iff.mpr; right
              apply List.any_eq_true.mpr
              refine ⟨kv, hkv, ?_⟩
              rw [hk, hl]
              exact ih ⟨(st.reg.step op).1, fun u => if u = t then some (op, some (st.reg.step op).2) else st.pend u⟩
                ((t, some (op, some (st.reg.step op).2)) :: pend) _ fuel (pend_cons hp t _) hf'
                hrun1 hlen'

/-- An accepted list has at most as many linearization marks as invocations (plus the operations that were
pending and not linearized at the start). -/
theorem lin_count_bound (l : List Ev) : ∀ (st : LinSt) (S : List Nat),
    (∀ u op, st.pend u = some (op, none) → u ∈ S) → (st.run l).isSome = true →
    (l.filter Ev.isLin).length ≤ (l.filter (fun e => !e.isLin)).length + S.length := by
  induction l with
  | nil => intro st S _ _; simp
  | cons e l ih =>
    intro st S hS hrun
    simp only [LinSt.run] at hrun
    cases hstep : st.step e with
    | none => simp [hstep] at hrun
    | some st1 =>
      have hrun1 : (st1.run l).isSome = true := by simpa [hstep] using hrun
      cases e with
      | inv t op =>
        simp only [LinSt.step] at hstep
        cases hpt : st.pend t with
        | some v => simp [hpt] at hstep
        | none =>
          simp only [hpt, Option.some.injEq] at hstep
          subst hstep
          have := ih _ (t :: S) (by
            intro u op' h
            by_cases e : u = t
            · simp [e]
            · simp only [e, if_false] at h; exact List.mem_cons_of_mem _ (hS u op' h)) hrun1
          simp [Ev.isLin] at this ⊢
          omega
      | ret t op x =>
        simp only [LinSt.step] at hstep
        cases hpt : st.pend t with
        | none => simp [hpt] at hstep
        | some v =>
          obtain ⟨op', r'⟩ := v
          cases r' with
          | none => simp [hpt] at hstep
          | some x' =>
            simp only [hpt] at hstep
            by_cases hc : op' = op ∧ x' = x
            · simp only [hc, and_self, if_true, Option.some.injEq] at hstep
              subst hstep
              have := ih _ S (by
                intro u op'' h
                by_cases e : u = t
                · simp [e] at h
                · simp only [e, if_false] at h; exact hS u op'' h) hrun1
              simp [Ev.isLin] at this ⊢
              omega
            · simp [hc] at hstep
      | lin t =>
        simp only [LinSt.step] at hstep
        cases hpt : st.pend t with
        | none => simp [hpt] at hstep
        | some v =>
          obtain ⟨op, r⟩ := v
          cases r with
          | some x => simp [hpt] at hstep
          | none =>
            simp only [hpt, Option.some.injEq] at hstep
            subst hstep
            have hmem : t ∈ S := hS t op hpt
            have := ih _ (S.erase t) (by
              intro u op' h
              by_cases e : u = t
              · simp [e] at h
              · simp only [e, if_false] at h
                exact (List.mem_erase_of_ne e).mpr (hS u op' h)) hrun1
            have hlen : (S.erase t).length = S.length - 1 := List.length_erase_of_mem hmem
            have hpos : 0 < S.length := List.length_pos_of_mem hmem
            simp [List.filter_cons, Ev.isLin] at this ⊢
            omega

theorem length_lin_split (l : List Ev) :
    l.length = (l.filter Ev.isLin).length + (l.filter (fun e => !e.isLin)).length := by
  induction l with
  | nil => rfl
  | cons e l ih => cases e <;> simp [List.filter_cons, Ev.isLin] at ih ⊢ <;> omega

/-- **Refutation**: if the search with fuel `2 * length + 1` fails, the history is not linearizable. -/
theorem not_linearizable_of_search (hist : List Ev)
    (hs : linSearch (2 * hist.length + 1) Reg.init [] hist = false) : ¬ Linearizable hist := by
  rintro ⟨l, hf, hrun⟩
  have hb := lin_count_bound l LinSt.init [] (by intro u op h; simp [LinSt.init] at h) hrun
  have hl := length_lin_split l
  rw [hf] at hb hl
  have := linSearch_complete l LinSt.init [] hist (2 * hist.length + 1) (fun u => rfl) hf hrun
    (by simp at hb; omega)
  rw [show LinSt.init.reg = Reg.init from rfl, hs] at this
  exact absurd this (by simp)

/-! ### witnesses: the hypotheses of `conc_linearizable` are needed, and satisfiable -/

/-- **Why the handle discipline is needed** (a model artefact: the model lets a client name an instance before
instantiate has handed it out). Even with all five switches repaired, an instance that loses the name race
exists, open, for two actions before it is closed; `isClosed` on its handle in that window answers `false`,
which the registry never does (it records the loser closed from the start). The history violates the
discipline and is not linearizable. -/
theorem stillborn_visible_witness :
    let hist := history Cfg.repaired
      (Conc.start [[.instantiate 1 1 .none, .instantiate 2 1 .none], [.isClosed 2]])
      [0, 0, 0, 0, 0, 0, 0, 1, 1, 1, 0, 0, 0, 0]
    hist = [.inv 0 (.instantiate 1 1 .none), .ret 0 (.instantiate 1 1 .none) .ok,
            .inv 0 (.instantiate 2 1 .none), .inv 1 (.isClosed 2), .ret 1 (.isClosed 2) (.closedIs false),
            .ret 0 (.instantiate 2 1 .none) .errDup] ∧
    ¬ Disciplined hist ∧ ¬ Linearizable hist := by
  refine ⟨by decide, by decide, ?_⟩
  exact not_linearizable_of_search _ (by decide)

/-- Second window: an instantiate that passed `failIfClosed` before the runtime was closed and reaches
`registerModule` after it is refused, but leaves a (closed) record under its handle; the registry has no such
record. A client that uses the handle of the refused request sees `closedIs true` instead of `bad`. -/
theorem refused_record_witness :
    let hist := history Cfg.repaired
      (Conc.start [[.instantiate 1 1 .none, .isClosed 1], [.closeRuntime 0]])
      [0, 0, 1, 1, 1, 0, 0, 0, 0, 0, 0, 0, 0]
    hist = [.inv 0 (.instantiate 1 1 .none), .inv 1 (.closeRuntime 0), .ret 1 (.closeRuntime 0) .ok,
            .ret 0 (.instantiate 1 1 .none) .errClosed, .inv 0 (.isClosed 1),
            .ret 0 (.isClosed 1) (.closedIs true)] ∧
    ¬ Disciplined hist ∧ ¬ Linearizable hist := by
  refine ⟨by decide, by decide, ?_⟩
  exact not_linearizable_of_search _ (by decide)

/-- **Why the repairs are needed**: on the pinned tree (`Cfg.asIs`) the F10 schedule gives a history that
respects the handle discipline and is NOT linearizable (same schedule as `double_close_witness`, now against the
real-time definition `Linearizable`). -/
theorem asis_not_linearizable_witness :
    let hist := history Cfg.asIs
      (Conc.start [[.instantiate 1 1 .none, .closeModule 1 0], [.closeModule 1 0, .lookup 1]])
      [0, 0, 0, 0, 0, 0, 0, 1, 1, 1, 1, 1, 1, 0, 0, 0]
    Disciplined hist ∧ ¬ Linearizable hist := by
  refine ⟨by decide, ?_⟩
  exact not_linearizable_of_search _ (by decide)

/-- Non-vacuity of `conc_linearizable`: two threads closing the same module concurrently, a lookup in between;
the history respects the discipline (so the theorem applies), all operations return, and the linearization the
proof constructs puts thread 0's close before thread 1's close before the lookup. -/
theorem conc_linearizable_example :
    let progs : List (List Op) := [[.instantiate 1 1 .none, .closeModule 1 0], [.closeModule 1 0, .lookup 1]]
    let sched := [0, 0, 0, 0, 0, 0, 1, 1, 1, 1, 1, 1, 0, 0, 1]
    history Cfg.repaired (Conc.start progs) sched =
      [.inv 0 (.instantiate 1 1 .none), .ret 0 (.instantiate 1 1 .none) .ok, .inv 0 (.closeModule 1 0),
       .inv 1 (.closeModule 1 0), .ret 1 (.closeModule 1 0) .ok, .inv 1 (.lookup 1),
       .ret 1 (.lookup 1) .notFound, .ret 0 (.closeModule 1 0) .ok] ∧
    Disciplined (history Cfg.repaired (Conc.start progs) sched) ∧
    Linearizable (history Cfg.repaired (Conc.start progs) sched) ∧
    ltrace (Conc.start progs) sched =
      [.inv 0 (.instantiate 1 1 .none), .lin 0, .ret 0 (.instantiate 1 1 .none) .ok, .inv 0 (.closeModule 1 0),
       .lin 0, .inv 1 (.closeModule 1 0), .lin 1, .ret 1 (.closeModule 1 0) .ok, .inv 1 (.lookup 1), .lin 1,
       .ret 1 (.lookup 1) .notFound, .ret 0 (.closeModule 1 0) .ok] := by
  refine ⟨by decide, by decide, conc_linearizable _ _ (by decide), by decide⟩

/-- **Why fresh handles are needed**: two instantiate requests with the same handle and a runtime close. The
first is refused by the closed store but leaves its record; the second then finds the handle taken and answers
`bad`, which the registry (that has no record of the refused request) never does. -/
theorem reused_handle_witness :
    let hist := history Cfg.repaired
      (Conc.start [[.instantiate 5 1 .none], [.instantiate 5 2 .none], [.closeRuntime 0]])
      [0, 0, 1, 1, 2, 2, 2, 0, 0, 0, 0, 0, 1, 1]
    hist = [.inv 0 (.instantiate 5 1 .none), .inv 1 (.instantiate 5 2 .none), .inv 2 (.closeRuntime 0),
            .ret 2 (.closeRuntime 0) .ok, .ret 0 (.instantiate 5 1 .none) .errClosed,
            .ret 1 (.instantiate 5 2 .none) .bad] ∧
    ¬ Disciplined hist ∧ ¬ Linearizable hist := by
  refine ⟨by decide, by decide, ?_⟩
  exact not_linearizable_of_search _ (by decide)

/-! ### sanity of the definition: for one sequential client, linearizable = what the registry returns -/

/-- the history of a single client (thread 0) that calls the operations one after the other -/
def seqHist : List (Op × Res) → List Ev
  | [] => []
  | (op, r) :: xs => .inv 0 op :: .ret 0 op r :: seqHist xs

theorem run_snd_cons (r : Reg) (op : Op) (ops : List Op) :
    (Reg.run r (op :: ops)).2 = (r.step op).2 :: (Reg.run (r.step op).1 ops).2 := rfl

theorem filter_cons_obs (e : Ev) (l : List Ev) (h : e.isLin = false) :
    (e :: l).filter (fun e => !e.isLin) = e :: l.filter (fun e => !e.isLin) := by
  simp [h]

theorem filter_cons_lin (t : Nat) (l : List Ev) :
    (Ev.lin t :: l).filter (fun e => !e.isLin) = l.filter (fun e => !e.isLin) := by
  rw [List.filter_cons]; rfl

theorem lin_sequential_aux (l : List Ev) : ∀ (st : LinSt) (xs : List (Op × Res)),
    (∀ u, u ≠ 0 → st.pend u = none) → (st.run l).isSome = true →
    (st.pend 0 = none → l.filter (fun e => !e.isLin) = seqHist xs →
      (Reg.run st.reg (xs.map (·.1))).2 = xs.map (·.2)) ∧
    (∀ op r, st.pend 0 = some (op, none) → l.filter (fun e => !e.isLin) = .ret 0 op r :: seqHist xs →
      (Reg.run st.reg (op :: xs.map (·.1))).2 = r :: xs.map (·.2)) ∧
    (∀ op x r, st.pend 0 = some (op, some x) → l.filter (fun e => !e.isLin) = .ret 0 op r :: seqHist xs →
      x = r ∧ (Reg.run st.reg (xs.map (·.1))).2 = xs.map (·.2)) := by
  induction l with
  | nil =>
    intro st xs _ _
    refine ⟨?_, ?_, ?_⟩
    · intro _ hf
      cases xs with
      | nil => rfl
      | cons a xs => obtain ⟨op, r⟩ := a; simp [seqHist] at hf
    · intro op r _ hf; simp at hf
    · intro op x r _ hf; simp at hf
  | cons e l ih =>
    intro st xs hoth hrun
    simp only [LinSt.run] at hrun
    cases hstep : st.step e with
    | none => simp [hstep] at hrun
    | some st1 =>
      have hrun1 : (st1.run l).isSome = true := by simpa [hstep] using hrun
      cases e with
      | inv t op =>
        rw [filter_cons_obs _ _ rfl]
        refine ⟨?_, ?_, ?_⟩
        · intro hp0 hf
          cases xs with
          | nil => simp [seqHist] at hf
          | cons a xs =>
            obtain ⟨op', r⟩ := a
            simp only [seqHist, List.cons.injEq, Ev.inv.injEq] at hf
            obtain ⟨⟨rfl, rfl⟩, hf⟩ := hf
            simp only [LinSt.step, hp0, Option.some.injEq] at hstep
            subst hstep
            have := (ih _ xs (by intro u hu; simp [hu, hoth u hu]) hrun1).2.1 op r (by simp) hf
            simpa using this
        · intro op' r _ hf; simp at hf
        · intro op' x r _ hf; simp at hf
      | ret t op x =>
        rw [filter_cons_obs _ _ rfl]
        refine ⟨?_, ?_, ?_⟩
        · intro _ hf
          cases xs with
          | nil => simp [seqHist] at hf
          | cons a xs => obtain ⟨op', r⟩ := a; simp [seqHist] at hf
        · intro op' r hp0 hf
          simp only [List.cons.injEq, Ev.ret.injEq] at hf
          obtain ⟨⟨rfl, rfl, rfl⟩, hf⟩ := hf
          simp [LinSt.step, hp0] at hstep
        · intro op' x' r hp0 hf
          simp only [List.cons.injEq, Ev.ret.injEq] at hf
          obtain ⟨⟨rfl, rfl, rfl⟩, hf⟩ := hf
          simp only [LinSt.step, hp0] at hstep
          split at hstep
          · rename_i hc
            simp only [Option.some.injEq] at hstep
            subst hstep
            refine ⟨hc.2, ?_⟩
            exact (ih _ xs (by intro u hu; simp [hu, hoth u hu]) hrun1).1 (by simp) hf
          · simp at hstep
      | lin t =>
        rw [filter_cons_lin]
        by_cases ht : t = 0
        · subst ht
          refine ⟨?_, ?_, ?_⟩
          · intro hp0 _; simp [LinSt.step, hp0] at hstep
          · intro op r hp0 hf
            simp only [LinSt.step, hp0, Option.some.injEq] at hstep
            subst hstep
            obtain ⟨e1, e2⟩ := (ih _ xs (by intro u hu; simp [hu, hoth u hu]) hrun1).2.2 op
              (st.reg.step op).2 r (by simp) hf
            rw [run_snd_cons, e1]
            exact congrArg _ e2
          · intro op x r hp0 _; simp [LinSt.step, hp0] at hstep
        · simp [LinSt.step, hoth t ht] at hstep

/-- **The definition is the right one for a sequential client**: the history of one thread calling operations
one after the other is linearizable only if every operation returned exactly what the atomic registry
returns. -/
theorem linearizable_sequential (xs : List (Op × Res)) (h : Linearizable (seqHist xs)) :
    (Reg.run Reg.init (xs.map (·.1))).2 = xs.map (·.2) := by
  obtain ⟨l, hf, hrun⟩ := h
  exact (lin_sequential_aux l LinSt.init xs (fun _ _ => rfl) hrun).1 rfl hf

end Wz.C10
