/-
C10 — Module lifecycle and name registry are linearizable.

Part A: the sequential specification `Reg` has the properties the statement lists, for every operation
        list (induction).
Part B: witness theorems: the implementation model as on the pinned tree (`Cfg.asIs`) does not refine
        `Reg` (F8, F9 sequentially; F10, F10b, F10c under concrete interleavings).
Part C: the repaired variant refines `Reg` on every sequential run (`seq_refinement`, all operation lists).
Part D: close effects under ALL interleavings (any number of threads, any programs, any schedule, any
        variant): resources are released at most once (`close_effects_once_partial`).
-/
import Wz.Proofs.C10_Refine
import Wz.Gen.C10Sections
import Wz.Gen.Shapes

namespace Wz.C10
open Wz.Model.Registry

/-! ## Part A: the specification -/

/-- At most one open module owns a name; handles are unique; after the runtime is closed everything is closed. -/
structure RegInv (r : Reg) : Prop where
  uniqH : (r.mods.map (·.h)).Nodup
  oneOwner : ∀ a ∈ r.mods, ∀ b ∈ r.mods, a.isOpen = true → b.isOpen = true → a.name ≠ 0 →
    a.name = b.name → a.h = b.h
  closedAll : r.rtClosed = true → ∀ m ∈ r.mods, m.isOpen = false

theorem closeMods_map_h (h : Nat) (ms : List Mod) : (closeMods h ms).map (·.h) = ms.map (·.h) := by
  induction ms with
  | nil => rfl
  | cons m ms ih => simp only [closeMods, List.map_cons, ih]; split <;> rfl

theorem closeAllMods_map_h (ms : List Mod) : (closeAllMods ms).map (·.h) = ms.map (·.h) := by
  induction ms with
  | nil => rfl
  | cons m ms ih => simp only [closeAllMods, List.map_cons, ih]

theorem mem_closeMods {h : Nat} {ms : List Mod} {x : Mod} (hx : x ∈ closeMods h ms) :
    ∃ m ∈ ms, x.h = m.h ∧ x.name = m.name ∧ (x.isOpen = true → m.isOpen = true ∧ m.h ≠ h) := by
  induction ms with
  | nil => simp [closeMods] at hx
  | cons m ms ih =>
    simp only [closeMods, List.mem_cons] at hx
    cases hx with
    | inl e =>
      refine ⟨m, List.mem_cons_self, ?_⟩
      by_cases hm : (m.h == h) = true
      · simp only [hm, if_true] at e; subst e; simp
      · simp only [hm] at e; subst e
        refine ⟨rfl, rfl, fun ho => ⟨ho, ?_⟩⟩
        simpa using hm
    | inr e =>
      obtain ⟨m', hm', rest⟩ := ih e
      exact ⟨m', List.mem_cons_of_mem _ hm', rest⟩

theorem mem_closeAllMods {ms : List Mod} {x : Mod} (hx : x ∈ closeAllMods ms) : x.isOpen = false := by
  induction ms with
  | nil => simp [closeAllMods] at hx
  | cons m ms ih =>
    simp only [closeAllMods, List.mem_cons] at hx
    cases hx with
    | inl e => subst e; rfl
    | inr e => exact ih e

theorem has_false {r : Reg} {h : Nat} (hh : r.has h = false) : h ∉ r.mods.map (·.h) := by
  intro hm
  simp only [List.mem_map] at hm
  obtain ⟨m, hm, e⟩ := hm
  simp only [Reg.has, List.any_eq_false] at hh
  exact hh m hm (by simp [e])

theorem owner_find {r : Reg} {n : Nat} (hn : n ≠ 0) :
    r.owner n = (r.mods.find? (fun m => m.isOpen && m.name == n)).map (·.h) := by
  simp [Reg.owner, hn]

theorem owner_none {r : Reg} {n : Nat} (hn : n ≠ 0) (ho : r.owner n = none) :
    ∀ m ∈ r.mods, m.isOpen = true → m.name ≠ n := by
  intro m hm hopen e
  rw [owner_find hn] at ho
  have h1 : r.mods.find? (fun m => m.isOpen && m.name == n) = none := by simpa using ho
  have := List.find?_eq_none.mp h1 m hm
  simp [hopen, e] at this

theorem has_iff (r : Reg) (h : Nat) : r.has h = true ↔ h ∈ r.mods.map (·.h) := by
  simp only [Reg.has, List.any_eq_true, List.mem_map, beq_iff_eq]

/-- Every operation preserves the invariant. -/
theorem step_inv (r : Reg) (op : Op) (hi : RegInv r) : RegInv (r.step op).1 := by
  cases op with
  | instantiate h name pre =>
    simp only [Reg.step]
    by_cases hc : r.rtClosed = true
    · simp only [hc, if_true]; exact hi
    have hc' : r.rtClosed = false := by simpa using hc
    simp only [hc', Bool.false_eq_true, if_false]
    by_cases hh : r.has h = true
    · simp only [hh, if_true]; exact hi
    · have hh' : r.has h = false := by simpa using hh
      have hnot := has_false hh'
      simp only [hh', Bool.false_eq_true, if_false]
      by_cases ho : (r.owner name).isSome = true
      · simp only [ho, if_true]
        refine ⟨?_, ?_, ?_⟩
        · simpa [List.nodup_cons] using And.intro (by simpa using hnot) hi.uniqH
        · intro a ha b hb hao hbo hn e
          simp only [List.mem_cons] at ha hb
          rcases ha with rfl | ha
          · simp at hao
          rcases hb with rfl | hb
          · simp at hbo
          exact hi.oneOwner a ha b hb hao hbo hn e
        · intro hcl; simp [hc'] at hcl
      · have ho' : r.owner name = none := by
          cases hq : r.owner name with
          | none => rfl
          | some v => simp [hq] at ho
        simp only [ho', Option.isSome_none, Bool.false_eq_true, if_false]
        refine ⟨?_, ?_, ?_⟩
        · simpa [List.nodup_cons] using And.intro (by simpa using hnot) hi.uniqH
        · intro a ha b hb hao hbo hn e
          simp only [List.mem_cons] at ha hb
          rcases ha with rfl | ha
          · rcases hb with rfl | hb
            · rfl
            · exact absurd e.symm (owner_none hn ho' b hb hbo)
          · rcases hb with rfl | hb
            · have e' : a.name = name := e
              exact absurd e' (owner_none (by rw [← e']; exact hn) ho' a ha hao)
            · exact hi.oneOwner a ha b hb hao hbo hn e
        · intro hcl; simp [hc'] at hcl
  | lookup name => simp only [Reg.step]; split <;> exact hi
  | compile => exact hi
  | hostCompile f => exact hi
  | closeModule h code =>
    simp only [Reg.step]
    split
    · refine ⟨?_, ?_, ?_⟩
      · simpa [closeMods_map_h] using hi.uniqH
      · intro a ha b hb hao hbo hn e
        obtain ⟨a', ha', eh, en, hoa⟩ := mem_closeMods ha
        obtain ⟨b', hb', eh', en', hob⟩ := mem_closeMods hb
        rw [eh, eh']
        exact hi.oneOwner a' ha' b' hb' (hoa hao).1 (hob hbo).1 (by rw [← en]; exact hn) (by rw [← en, ← en']; exact e)
      · intro hcl m hm
        obtain ⟨m', hm', _, _, hom⟩ := mem_closeMods hm
        cases hmo : m.isOpen with
        | false => rfl
        | true => have := hi.closedAll hcl m' hm'; simp [(hom hmo).1] at this
    · exact hi
  | closeRuntime code =>
    simp only [Reg.step]
    refine ⟨?_, ?_, ?_⟩
    · simpa [closeAllMods_map_h] using hi.uniqH
    · intro a ha b hb hao; simp [mem_closeAllMods ha] at hao
    · intro _ m hm; exact mem_closeAllMods hm
  | isClosed h => simp only [Reg.step]; split <;> exact hi

theorem init_inv : RegInv Reg.init := ⟨by simp [Reg.init], by simp [Reg.init], by simp [Reg.init]⟩

theorem run_fst (r : Reg) (op : Op) (ops : List Op) :
    (Reg.run r (op :: ops)).1 = (Reg.run (r.step op).1 ops).1 := rfl

theorem run_inv (ops : List Op) (r : Reg) (hi : RegInv r) : RegInv (Reg.run r ops).1 := by
  induction ops generalizing r with
  | nil => exact hi
  | cons op ops ih => rw [run_fst]; exact ih _ (step_inv r op hi)

/-- **Specification invariants**, for every operation list: handles unique, at most one open owner per
name, everything closed once the runtime is closed. -/
theorem reg_spec_invariants (ops : List Op) : RegInv (Reg.run Reg.init ops).1 := run_inv ops _ init_inv

/-- Lookups return only open modules that carry the requested (non-anonymous) name. -/
theorem lookup_only_open (r : Reg) (n h : Nat) (hf : (r.step (.lookup n)).2 = .found h) :
    n ≠ 0 ∧ ∃ m ∈ r.mods, m.h = h ∧ m.isOpen = true ∧ m.name = n := by
  simp only [Reg.step] at hf
  split at hf
  · rename_i h' ho
    simp only [Res.found.injEq] at hf; subst hf
    simp only [Reg.owner] at ho
    split at ho
    · simp at ho
    · rename_i hn
      simp only [Option.map_eq_some_iff] at ho
      obtain ⟨m, hfind, e⟩ := ho
      have hmem := List.mem_of_find?_eq_some hfind
      have hp := List.find?_some hfind
      simp only [Bool.and_eq_true, beq_iff_eq] at hp
      exact ⟨by simpa using hn, m, hmem, e, hp.1, hp.2⟩
  · simp at hf

/-- Instantiating under a name succeeds exactly when the handle is fresh, the runtime is open and no open
module owns the name; it fails with `errDup` exactly when an open module owns it. -/
theorem instantiate_result (r : Reg) (h n : Nat) (p : Pre) (hh : r.has h = false) :
    ((r.step (.instantiate h n p)).2 = .ok ↔ r.rtClosed = false ∧ r.owner n = none) ∧
    ((r.step (.instantiate h n p)).2 = .errDup ↔ r.rtClosed = false ∧ (r.owner n).isSome = true) ∧
    ((r.step (.instantiate h n p)).2 = .errClosed ↔ r.rtClosed = true) := by
  simp only [Reg.step, hh, Bool.false_eq_true, if_false]
  cases hc : r.rtClosed <;> cases ho : r.owner n <;> simp

/-- A closed module's name can be taken again. -/
theorem closed_name_reusable (r : Reg) (hi : RegInv r) (n h c : Nat) (ho : r.owner n = some h) :
    (r.step (.closeModule h c)).1.owner n = none := by
  have hn : n ≠ 0 := by
    intro e; simp [Reg.owner, e] at ho
  rw [owner_find hn] at ho
  obtain ⟨m, hfind, e⟩ : ∃ m, r.mods.find? (fun m => m.isOpen && m.name == n) = some m ∧ m.h = h := by
    simpa using ho
  have hmem := List.mem_of_find?_eq_some hfind
  have hp := List.find?_some hfind
  simp only [Bool.and_eq_true, beq_iff_eq] at hp
  have hhas : r.has h = true := (has_iff r h).mpr (List.mem_map.mpr ⟨m, hmem, e⟩)
  have hstep : (r.step (.closeModule h c)).1 = { r with mods := closeMods h r.mods } := by
    simp [Reg.step, hhas]
  rw [hstep, owner_find hn]
  have : (closeMods h r.mods).find? (fun m => m.isOpen && m.name == n) = none := by
    apply List.find?_eq_none.mpr
    intro x hx hcon
    obtain ⟨x', hx', eh, en, hox⟩ := mem_closeMods hx
    simp only [Bool.and_eq_true, beq_iff_eq] at hcon
    have h1 := hox hcon.1
    have := hi.oneOwner x' hx' m hmem h1.1 hp.1 (by rw [← en, hcon.2]; exact hn) (by rw [← en, hcon.2, hp.2])
    exact h1.2 (by rw [this, e])
  simp [this]

theorem rtClosed_stable (r : Reg) (op : Op) (hc : r.rtClosed = true) : (r.step op).1.rtClosed = true := by
  cases op <;> simp only [Reg.step] <;> (repeat' split) <;> simp_all

/-- Requests that must fail once the runtime is closed. -/
def FailsIfRequest : Op → Res → Prop
  | .instantiate _ _ _, x => x = .errClosed ∨ x = .bad
  | .compile, x => x = .errClosed
  | .hostCompile _, x => x = .errClosed
  | .lookup _, x => x = .notFound
  | .isClosed _, x => x = .closedIs true ∨ x = .bad
  | _, _ => True

def AllFail : List Op → List Res → Prop
  | op :: ops, x :: xs => FailsIfRequest op x ∧ AllFail ops xs
  | [], [] => True
  | _, _ => False

theorem closed_step_fails (r : Reg) (hi : RegInv r) (op : Op) (hc : r.rtClosed = true) :
    FailsIfRequest op (r.step op).2 := by
  cases op with
  | instantiate h n p =>
    simp [Reg.step, FailsIfRequest, hc]
  | compile => simp [Reg.step, FailsIfRequest, hc]
  | hostCompile f => simp [Reg.step, FailsIfRequest, hc]
  | lookup n =>
    simp only [FailsIfRequest]
    cases hr : (r.step (.lookup n)).2 with
    | found h =>
      obtain ⟨_, m, hm, _, hopen, _⟩ := lookup_only_open r n h hr
      have := hi.closedAll hc m hm; simp [hopen] at this
    | notFound => rfl
    | _ => simp only [Reg.step] at hr; split at hr <;> simp at hr
  | isClosed h =>
    simp only [Reg.step, FailsIfRequest]
    split
    · left
      have : r.isOpen h = false := by
        simp only [Reg.isOpen, List.any_eq_false]
        intro m hm; simp [hi.closedAll hc m hm]
      simp [this]
    · right; rfl
  | closeModule h c => trivial
  | closeRuntime c => trivial

/-- Once the runtime is closed, EVERY later compile / host compile / instantiate fails with an error, every
lookup finds nothing and every module reports closed — for every continuation. -/
theorem after_close_all_fail (ops : List Op) (r : Reg) (hi : RegInv r) (hc : r.rtClosed = true) :
    AllFail ops (Reg.run r ops).2 := by
  induction ops generalizing r with
  | nil => simp [Reg.run, AllFail]
  | cons op ops ih =>
    simp only [Reg.run, AllFail]
    exact ⟨closed_step_fails r hi op hc, ih _ (step_inv r op hi) (rtClosed_stable r op hc)⟩

theorem close_runtime_closes (r : Reg) (c : Nat) :
    (r.step (.closeRuntime c)).1.rtClosed = true ∧ ∀ m ∈ (r.step (.closeRuntime c)).1.mods, m.isOpen = false :=
  ⟨rfl, fun _ hm => mem_closeAllMods hm⟩

theorem closeMods_idem (h : Nat) (ms : List Mod) : closeMods h (closeMods h ms) = closeMods h ms := by
  induction ms with
  | nil => rfl
  | cons m ms ih =>
    simp only [closeMods, ih]
    by_cases hm : (m.h == h) = true <;> simp [hm]

/-- Closing is idempotent. -/
theorem close_idempotent (r : Reg) (h c c' : Nat) (hh : r.has h = true) :
    (r.step (.closeModule h c)).1.step (.closeModule h c') = ((r.step (.closeModule h c)).1, .ok) := by
  have hstep : (r.step (.closeModule h c)).1 = { r with mods := closeMods h r.mods } := by
    simp [Reg.step, hh]
  have h2 : Reg.has { r with mods := closeMods h r.mods } h = true := by
    rw [has_iff]; simp only [closeMods_map_h]; exact (has_iff r h).mp hh
  rw [hstep]
  simp [Reg.step, h2, closeMods_idem]

/-- Non-vacuity: a reachable state with an open owner, a closed module and a reused name. -/
example : (Reg.run Reg.init [.instantiate 1 1 .none, .instantiate 2 1 .none, .closeModule 1 0,
    .instantiate 3 1 .bin, .lookup 1, .closeRuntime 0, .lookup 1, .compile]).2 =
    [.ok, .errDup, .ok, .ok, .found 3, .ok, .notFound, .errClosed] := by decide

/-! ## Part B: witnesses on the as-is model -/

/-- F8: instantiate x; instantiate x (fails, and unregisters the owner); lookup x; instantiate x. -/
def f8Ops : List Op := [.instantiate 1 1 .none, .instantiate 2 1 .none, .lookup 1, .instantiate 3 1 .none, .isClosed 1]

theorem dup_name_witness :
    (Impl.run Cfg.asIs Impl.init f8Ops).2 = [.ok, .errDup, .notFound, .ok, .closedIs false] ∧
    (Reg.run Reg.init f8Ops).2 = [.ok, .errDup, .found 1, .errDup, .closedIs false] ∧
    (Impl.run { Cfg.asIs with fixF8 := true } Impl.init f8Ops).2 = (Reg.run Reg.init f8Ops).2 := by decide

/-- F9: host compile after the runtime is closed panics (with functions) or succeeds (without). -/
def f9Ops : List Op := [.closeRuntime 0, .hostCompile true, .hostCompile false, .instantiate 1 1 .host]

theorem host_compile_witness :
    (Impl.run Cfg.asIs Impl.init f9Ops).2 = [.ok, .panic, .ok, .panic] ∧
    (Reg.run Reg.init f9Ops).2 = [.ok, .errClosed, .errClosed, .errClosed] ∧
    (Impl.run { Cfg.asIs with fixF9 := true } Impl.init f9Ops).2 = (Reg.run Reg.init f9Ops).2 := by decide

/-- All interleavings of two sequences (fuel = total length + 1 suffices: every step consumes one element). -/
def mergesF {α : Type} : Nat → List α → List α → List (List α)
  | 0, _, _ => []
  | _ + 1, [], ys => [ys]
  | _ + 1, xs, [] => [xs]
  | n + 1, x :: xs, y :: ys => (mergesF n xs (y :: ys)).map (x :: ·) ++ (mergesF n (x :: xs) ys).map (y :: ·)

def merges {α : Type} (xs ys : List α) : List (List α) := mergesF (xs.length + ys.length + 1) xs ys

/-- test: two sequences of length 2 have 6 interleavings -/
example : (merges [1, 2] [3, 4]).length = 6 := by decide

/-- Is there ANY sequential order of the two threads' operations (respecting only program order — weaker
than real-time order, so `false` is the stronger statement) in which `Reg` gives the observed results? -/
def linearizable2 (t0 t1 : List (Op × Res)) : Bool :=
  (merges t0 t1).any (fun seq => (Reg.run Reg.init (seq.map (·.1))).2 == seq.map (·.2))

def resultsOf (c : Conc) : List (List (Op × Res)) := c.threads.map (·.results)

/-- F10: thread 0 instantiates x and closes it; thread 1 closes the same module (CAS loser: returns at
once) and then still finds it under its name. No sequential order explains these results. -/
theorem double_close_witness :
    let c := (Conc.start [[.instantiate 1 1 .none, .closeModule 1 0], [.closeModule 1 0, .lookup 1]]).exec Cfg.asIs
      [0, 0, 0, 0, 0, 0, 0, 1, 1, 1, 1, 1, 1, 0, 0, 0]
    resultsOf c = [[(.instantiate 1 1 .none, .ok), (.closeModule 1 0, .ok)],
                   [(.closeModule 1 0, .ok), (.lookup 1, .found 1)]] ∧
    linearizable2 (resultsOf c)[0]! (resultsOf c)[1]! = false := by decide

/-- With CAS and deleteModule in one atomic action the same schedule gives a linearizable history. -/
theorem double_close_repaired :
    let c := (Conc.start [[.instantiate 1 1 .none, .closeModule 1 0], [.closeModule 1 0, .lookup 1]]).exec
      { Cfg.asIs with atomicClose := true } [0, 0, 0, 0, 0, 0, 0, 1, 1, 1, 1, 1, 1, 0, 0, 0]
    linearizable2 (resultsOf c)[0]! (resultsOf c)[1]! = true := by decide

/-- F10b: the runtime's closed flag is set before the store is closed: a compile fails with "closed" and a
lookup afterwards still finds an open module. -/
theorem rt_close_window_witness :
    let c := (Conc.start [[.instantiate 1 1 .none, .closeRuntime 0], [.compile, .lookup 1]]).exec Cfg.asIs
      [0, 0, 0, 0, 0, 0, 0, 1, 1, 1, 1, 1, 1, 0, 0]
    resultsOf c = [[(.instantiate 1 1 .none, .ok), (.closeRuntime 0, .ok)],
                   [(.compile, .errClosed), (.lookup 1, .found 1)]] ∧
    linearizable2 (resultsOf c)[0]! (resultsOf c)[1]! = false := by decide

/-- F10c: the close notifier is attached after registration: a runtime close in between closes the
instance without notification, although instantiate returns ok. -/
theorem notifier_lost_witness :
    let c := (Conc.start [[.instantiate 1 1 .none], [.closeRuntime 3]]).exec Cfg.asIs
      [0, 0, 0, 1, 1, 1, 1, 0, 0]
    resultsOf c = [[(.instantiate 1 1 .none, .ok)], [(.closeRuntime 3, .ok)]] ∧
    c.shared.insts.map (fun i => (i.h, i.closed, i.notified)) = [(1, some 3, [])] := by decide

/-! ### simulation between the repaired implementation model and `Reg` (sequential runs) -/

def absInst (i : Inst) : Mod := ⟨i.h, i.name, i.closed.isNone⟩
def abs (s : Impl) : Reg := ⟨s.insts.map absInst, s.rtClosed.isSome⟩

structure Good (s : Impl) : Prop where
  rt : s.names = none ↔ s.rtClosed.isSome = true
  nm : ∀ m, s.names = some m → ∀ n, n ≠ 0 → nameLookup n m = (abs s).owner n
  lst : ∀ i ∈ s.insts, i.closed = none → i.h ∈ s.list
  inv : RegInv (abs s)

theorem absInst_ensureRes (i : Inst) : absInst (ensureRes i) = absInst i := by
  unfold ensureRes absInst
  cases hn : i.notifier <;> cases hs : i.sys <;> simp [hs]

theorem abs_has (s : Impl) (h : Nat) : (abs s).has h = s.has h := by
  simp [abs, Reg.has, Impl.has, List.any_map, Function.comp_def, absInst]

theorem map_updInst_same (h : Nat) (f : Inst → Inst) (hf : ∀ i, absInst (f i) = absInst i) (l : List Inst) :
    (updInst h f l).map absInst = l.map absInst := by
  induction l with
  | nil => rfl
  | cons a l ih => simp only [updInst, List.map_cons, ih]; split <;> simp [hf]

theorem map_updInst_close (h c : Nat) (l : List Inst) :
    (updInst h (fun i => { i with closed := some c }) l).map absInst = closeMods h (l.map absInst) := by
  induction l with
  | nil => rfl
  | cons a l ih =>
    simp only [updInst, List.map_cons, closeMods, ih]
    by_cases ha : (a.h == h) = true <;> simp [ha, absInst]

theorem get_none_has (s : Impl) (h : Nat) : s.get h = none ↔ s.has h = false := by
  simp [Impl.get, Impl.has, List.find?_eq_none, List.any_eq_false]

theorem nameLookup_erase_ne (n k : Nat) (hk : n ≠ k) (m : List (Nat × Nat)) :
    nameLookup n (nameErase k m) = nameLookup n m := by
  induction m with
  | nil => rfl
  | cons a m ih =>
    obtain ⟨a1, a2⟩ := a
    simp only [nameErase, nameLookup]
    by_cases h1 : (a1 == k) = true
    · have : (a1 == n) = false := by
        have : a1 = k := by simpa using h1
        subst this; simpa using (Ne.symm hk)
      simp [h1, this, ih]
    · have h1' : (a1 == k) = false := by simpa using h1
      simp [h1', nameLookup, ih]

theorem nameLookup_erase_self (k : Nat) (m : List (Nat × Nat)) : nameLookup k (nameErase k m) = none := by
  induction m with
  | nil => rfl
  | cons a m ih =>
    obtain ⟨a1, a2⟩ := a
    simp only [nameErase]
    by_cases h1 : (a1 == k) = true
    · simp [h1, ih]
    · have h1' : (a1 == k) = false := by simpa using h1
      simp [h1', nameLookup, ih]

/-- closing handle `h` does not change the owner of `n` when no open module with handle `h` has name `n` -/
theorem find_closeMods (h n : Nat) (ms : List Mod) (hne : ∀ m ∈ ms, m.h = h → ¬ (m.isOpen = true ∧ m.name = n)) :
    (closeMods h ms).find? (fun m => m.isOpen && m.name == n) = ms.find? (fun m => m.isOpen && m.name == n) := by
  induction ms with
  | nil => rfl
  | cons a ms ih =>
    have ih' := ih (fun m hm => hne m (List.mem_cons_of_mem _ hm))
    simp only [closeMods]
    by_cases ha : (a.h == h) = true
    · have := hne a List.mem_cons_self (by simpa using ha)
      have hp : (a.isOpen && a.name == n) = false := by
        cases ho : a.isOpen <;> simp_all
      simp [ha, List.find?_cons, hp, ih']
    · simp [ha, List.find?_cons, ih']

theorem closeAll_id (ms : List Mod) (hc : ∀ m ∈ ms, m.isOpen = false) : closeAllMods ms = ms := by
  induction ms with
  | nil => rfl
  | cons a ms ih =>
    simp only [closeAllMods, ih (fun m hm => hc m (List.mem_cons_of_mem _ hm))]
    have := hc a List.mem_cons_self
    cases a; simp_all

theorem closeMods_id (h : Nat) (ms : List Mod) (hc : ∀ m ∈ ms, m.h = h → m.isOpen = false) : closeMods h ms = ms := by
  induction ms with
  | nil => rfl
  | cons a ms ih =>
    simp only [closeMods, ih (fun m hm => hc m (List.mem_cons_of_mem _ hm))]
    by_cases ha : (a.h == h) = true
    · have := hc a List.mem_cons_self (by simpa using ha)
      cases a; simp_all
    · simp [ha]

theorem owner_allClosed (r : Reg) (n : Nat) (hc : ∀ m ∈ r.mods, m.isOpen = false) : r.owner n = none := by
  by_cases hn : n = 0
  · simp [Reg.owner, hn]
  · rw [owner_find hn]
    have : r.mods.find? (fun m => m.isOpen && m.name == n) = none :=
      List.find?_eq_none.mpr (fun m hm => by simp [hc m hm])
    simp [this]

theorem map_closeListed (c : Nat) (list : List Nat) (l : List Inst)
    (hl : ∀ i ∈ l, i.closed = none → i.h ∈ list) :
    (closeListed c list l).map absInst = closeAllMods (l.map absInst) := by
  induction l with
  | nil => rfl
  | cons a l ih =>
    simp only [closeListed, List.map_cons, closeAllMods, ih (fun i hi => hl i (List.mem_cons_of_mem _ hi))]
    congr 1
    by_cases hin : list.contains a.h = true
    · simp only [hin, if_true]
      unfold closeFromStore
      split
      · rename_i hs; cases hcl : a.closed <;> simp_all [absInst]
      · rw [absInst_ensureRes]; simp [absInst]
    · simp only [hin]
      cases hcl : a.closed with
      | none => exact absurd (by simpa using hl a List.mem_cons_self hcl) hin
      | some v => simp [absInst, hcl]

theorem closeListed_closed (c : Nat) (list : List Nat) (l : List Inst)
    (hl : ∀ i ∈ l, i.closed = none → i.h ∈ list) : ∀ i ∈ closeListed c list l, i.closed ≠ none := by
  intro i hi
  have h1 : absInst i ∈ (closeListed c list l).map absInst := List.mem_map_of_mem hi
  rw [map_closeListed c list l hl] at h1
  have := mem_closeAllMods h1
  simp [absInst] at this
  intro e; simp [e] at this

def Sim (s : Impl) (op : Op) : Prop :=
  (s.runOp Cfg.repaired op).2 = ((abs s).step op).2 ∧ abs (s.runOp Cfg.repaired op).1 = ((abs s).step op).1 ∧
    Good (s.runOp Cfg.repaired op).1

theorem names_some_of_open {s : Impl} (hg : Good s) (ho : s.rtClosed = none) : ∃ m, s.names = some m := by
  cases hn : s.names with
  | none => have := hg.rt.mp hn; simp [ho] at this
  | some m => exact ⟨m, rfl⟩

theorem sim_compile (s : Impl) (hg : Good s) : Sim s .compile := by
  unfold Sim
  cases hrt : s.rtClosed with
  | some c => simp [Impl.runOp, runOpFuel, startPc, stepOp, hrt, Reg.step, abs]; exact hg
  | none =>
    obtain ⟨m, hm⟩ := names_some_of_open hg hrt
    simp [Impl.runOp, runOpFuel, startPc, stepOp, hrt, Reg.step, abs, typesSection, hm, afterCompile]; exact hg

theorem sim_hostCompile (s : Impl) (hg : Good s) (f : Bool) : Sim s (.hostCompile f) := by
  unfold Sim
  cases hrt : s.rtClosed with
  | some c => simp [Impl.runOp, runOpFuel, startPc, stepOp, hrt, Reg.step, abs, Cfg.repaired]; exact hg
  | none =>
    obtain ⟨m, hm⟩ := names_some_of_open hg hrt
    cases f <;>
      (simp [Impl.runOp, runOpFuel, startPc, stepOp, hrt, Reg.step, abs, typesSection, hm, afterCompile, Cfg.repaired]; exact hg)

theorem sim_lookup (s : Impl) (hg : Good s) (n : Nat) : Sim s (.lookup n) := by
  unfold Sim
  by_cases hn : n = 0
  · subst hn
    simp [Impl.runOp, runOpFuel, startPc, stepOp, Reg.step, Reg.owner]; exact hg
  · have hn' : (n == 0) = false := by simpa using hn
    cases hm : s.names with
    | none =>
      have hc := hg.rt.mp hm
      have hall := hg.inv.closedAll (by simpa [abs] using hc)
      have := owner_allClosed (abs s) n hall
      simp [Impl.runOp, runOpFuel, startPc, stepOp, Reg.step, hn', hm, this]; exact hg
    | some m =>
      have := hg.nm m hm n hn
      cases ho : (abs s).owner n with
      | none => simp [Impl.runOp, runOpFuel, startPc, stepOp, Reg.step, hn', hm, this ▸ ho, ho]; exact hg
      | some h => simp [Impl.runOp, runOpFuel, startPc, stepOp, Reg.step, hn', hm, this ▸ ho, ho]; exact hg

theorem sim_closeRuntime (s : Impl) (hg : Good s) (c : Nat) : Sim s (.closeRuntime c) := by
  have hinv := step_inv (abs s) (.closeRuntime c) hg.inv
  unfold Sim
  cases hrt : s.rtClosed with
  | some c0 =>
    have hall := hg.inv.closedAll (by simp [abs, hrt])
    have hid := closeAll_id (abs s).mods hall
    have habs : abs s = ((abs s).step (.closeRuntime c)).1 := by
      simp only [Reg.step, hid]; simp [abs, hrt]
    simp only [Impl.runOp, runOpFuel, startPc, stepOp, hrt, Option.isSome_some, if_true]
    exact ⟨rfl, habs, hg⟩
  | none =>
    have hmap := map_closeListed c s.list s.insts hg.lst
    have habs : abs (storeClose { s with rtClosed := some c } c) = ((abs s).step (.closeRuntime c)).1 := by
      simp [abs, storeClose, Reg.step, hmap]
    simp only [Impl.runOp, runOpFuel, startPc, stepOp, hrt, Option.isSome_none, Bool.false_eq_true, if_false,
      Cfg.repaired, if_true]
    refine ⟨rfl, habs, ?_⟩
    refine ⟨by simp [storeClose], by simp [storeClose], ?_, by rw [habs]; exact hinv⟩
    intro i hi hcl
    exact absurd hcl (closeListed_closed c s.list s.insts hg.lst i (by simpa [storeClose] using hi))

theorem find_isOpen (l : List Inst) (h : Nat) (i : Inst) (hnd : (l.map (·.h)).Nodup)
    (hf : l.find? (fun i => i.h == h) = some i) :
    (l.map absInst).any (fun m => m.h == h && m.isOpen) = i.closed.isNone := by
  induction l with
  | nil => simp at hf
  | cons a l ih =>
    simp only [List.map_cons, List.nodup_cons] at hnd
    simp only [List.find?_cons] at hf
    by_cases ha : (a.h == h) = true
    · simp only [ha] at hf
      have : a = i := by simpa using hf
      subst this
      have hrest : (l.map absInst).any (fun m => m.h == h && m.isOpen) = false := by
        simp only [List.any_eq_false, List.mem_map]
        rintro m ⟨j, hj, rfl⟩
        have : j.h ≠ h := by
          intro e
          have ha' : a.h = h := by simpa using ha
          exact hnd.1 (List.mem_map.mpr ⟨j, hj, by rw [e, ha']⟩)
        simp [absInst, this]
      simp [List.any_cons, hrest, absInst, ha]
    · have ha' : (a.h == h) = false := by simpa using ha
      simp only [ha'] at hf
      simp [List.any_cons, absInst, ha', ih hnd.2 hf]

theorem abs_nodup (s : Impl) (hg : Good s) : (s.insts.map (·.h)).Nodup := by
  have := hg.inv.uniqH
  simpa [abs, List.map_map, Function.comp_def, absInst] using this

theorem sim_isClosed (s : Impl) (hg : Good s) (h : Nat) : Sim s (.isClosed h) := by
  unfold Sim
  cases hget : s.get h with
  | none =>
    have hh : (abs s).has h = false := by rw [abs_has]; exact (get_none_has s h).mp hget
    simp [Impl.runOp, runOpFuel, startPc, stepOp, hget, Reg.step, hh]; exact hg
  | some i =>
    have hh : (abs s).has h = true := by
      rw [abs_has]
      cases hx : s.has h with
      | true => rfl
      | false => have := (get_none_has s h).mpr hx; simp [hget] at this
    have hopen : (abs s).isOpen h = i.closed.isNone := find_isOpen s.insts h i (abs_nodup s hg) hget
    simp [Impl.runOp, runOpFuel, startPc, stepOp, hget, Reg.step, hh, hopen]
    first
      | exact hg
      | exact ⟨by cases i.closed <;> simp, hg⟩

/-! ### the two operations that change the name map: closeModule and instantiate -/

theorem mem_updInst {h : Nat} {f : Inst → Inst} {l : List Inst} {x : Inst} (hx : x ∈ updInst h f l) :
    ∃ y ∈ l, (y.h = h ∧ x = f y) ∨ (y.h ≠ h ∧ x = y) := by
  induction l with
  | nil => simp [updInst] at hx
  | cons a l ih =>
    simp only [updInst, List.mem_cons] at hx
    rcases hx with e | hx
    · refine ⟨a, List.mem_cons_self, ?_⟩
      by_cases ha : (a.h == h) = true
      · simp only [ha, if_true] at e; exact Or.inl ⟨by simpa using ha, e⟩
      · simp only [ha] at e; exact Or.inr ⟨by simpa using ha, e⟩
    · obtain ⟨y, hy, r⟩ := ih hx
      exact ⟨y, List.mem_cons_of_mem _ hy, r⟩

theorem get_some {s : Impl} {h : Nat} {i : Inst} (hget : s.get h = some i) : i ∈ s.insts ∧ i.h = h := by
  refine ⟨List.mem_of_find?_eq_some hget, ?_⟩
  have := List.find?_some hget
  simpa using this

/-- an open, named instance is the owner of its name -/
theorem owner_of_open {s : Impl} (hg : Good s) {i : Inst} (hi : i ∈ s.insts) (ho : i.closed = none)
    (hn : i.name ≠ 0) : (abs s).owner i.name = some i.h := by
  rw [owner_find hn]
  cases hf : (abs s).mods.find? (fun m => m.isOpen && m.name == i.name) with
  | none =>
    have := List.find?_eq_none.mp hf (absInst i) (by simp only [abs]; exact List.mem_map_of_mem hi)
    simp [absInst, ho] at this
  | some m =>
    have hm := List.mem_of_find?_eq_some hf
    have hp := List.find?_some hf
    simp only [Bool.and_eq_true, beq_iff_eq] at hp
    have := hg.inv.oneOwner m hm (absInst i) (by simp only [abs]; exact List.mem_map_of_mem hi) hp.1
      (by simp [absInst, ho]) (by rw [hp.2]; exact hn) (by rw [hp.2]; rfl)
    simp only [Option.map_some]
    exact congrArg some this

theorem insts_same_h {s : Impl} (hg : Good s) {i j : Inst} (hi : i ∈ s.insts) (hj : j ∈ s.insts)
    (e : i.h = j.h) : i = j := by
  have hnd := abs_nodup s hg
  generalize s.insts = l at *
  induction l with
  | nil => simp at hi
  | cons a l ih =>
    simp only [List.map_cons, List.nodup_cons] at hnd
    simp only [List.mem_cons] at hi hj
    rcases hi with rfl | hi <;> rcases hj with rfl | hj
    · rfl
    · exact absurd (List.mem_map.mpr ⟨j, hj, e.symm⟩) hnd.1
    · exact absurd (List.mem_map.mpr ⟨i, hi, e⟩) hnd.1
    · exact ih hi hj hnd.2

theorem ensureRes_closed (i : Inst) : (ensureRes i).closed = i.closed := by
  unfold ensureRes; cases i.notifier <;> cases hs : i.sys <;> simp [hs]

theorem ensureRes_h (i : Inst) : (ensureRes i).h = i.h := by
  unfold ensureRes; cases i.notifier <;> cases hs : i.sys <;> simp [hs]

theorem find_updInst (h : Nat) (f : Inst → Inst) (hf : ∀ i, (f i).h = i.h) (l : List Inst) :
    (updInst h f l).find? (fun i => i.h == h) = (l.find? (fun i => i.h == h)).map f := by
  induction l with
  | nil => rfl
  | cons a l ih =>
    simp only [updInst, List.find?_cons]
    by_cases ha : (a.h == h) = true
    · simp [ha, hf]
    · simp [ha, ih]

def closeNames (s : Impl) (h : Nat) (i : Inst) : Option (List (Nat × Nat)) :=
  if i.name == 0 then s.names else
  match s.names with
  | none => none
  | some nm => if nameLookup i.name nm == some h then some (nameErase i.name nm) else some nm

theorem runOp_close_open (s : Impl) (h c : Nat) (i : Inst) (hget : s.get h = some i) (hcl : i.closed = none) :
    s.runOp Cfg.repaired (.closeModule h c) =
      (⟨updInst h ensureRes (updInst h (fun i => { i with closed := some c }) s.insts),
        s.list.filter (· != h), closeNames s h i, s.rtClosed⟩, .ok) := by
  have hget' : Impl.get { s with insts := updInst h (fun i => { i with closed := some c }) s.insts } h
      = some { i with closed := some c } := by
    simp only [Impl.get] at hget ⊢
    rw [find_updInst h (fun i => { i with closed := some c }) (fun _ => rfl), hget]; rfl
  simp only [Impl.runOp, runOpFuel, startPc, stepOp, hget, hcl, Option.isSome_none, Bool.false_eq_true, if_false,
    Cfg.repaired, if_true, deleteModule, hget', closeNames]
  cases hn : (i.name == 0) <;> cases hnm : s.names <;> simp

theorem sim_closeModule (s : Impl) (hg : Good s) (h c : Nat) : Sim s (.closeModule h c) := by
  unfold Sim
  cases hget : s.get h with
  | none =>
    have hh : (abs s).has h = false := by rw [abs_has]; exact (get_none_has s h).mp hget
    simp [Impl.runOp, runOpFuel, startPc, stepOp, hget, Reg.step, hh]; exact hg
  | some i =>
    obtain ⟨himem, hih⟩ := get_some hget
    have hh : (abs s).has h = true := by
      rw [abs_has]
      cases hx : s.has h with
      | true => rfl
      | false => have := (get_none_has s h).mpr hx; simp [hget] at this
    have hinv := step_inv (abs s) (.closeModule h c) hg.inv
    have honly : ∀ m ∈ (abs s).mods, m.h = h → m = absInst i := by
      intro m hm e
      simp only [abs, List.mem_map] at hm
      obtain ⟨j, hj, rfl⟩ := hm
      have : j = i := insts_same_h hg hj himem (by simpa [absInst, hih] using e)
      rw [this]
    cases hcl : i.closed with
    | some c0 =>
      have hid : closeMods h (abs s).mods = (abs s).mods := by
        apply closeMods_id
        intro m hm e
        rw [honly m hm e]; simp [absInst, hcl]
      have habs : abs s = ((abs s).step (.closeModule h c)).1 := by
        simp only [Reg.step, hh, if_true, hid]
      simp only [Impl.runOp, runOpFuel, startPc, stepOp, hget, hcl, Option.isSome_some, if_true]
      refine ⟨by simp [Reg.step, hh], habs, hg⟩
    | none =>
      rw [runOp_close_open s h c i hget hcl]
      have hstep : (abs s).step (.closeModule h c) = (⟨closeMods h (abs s).mods, (abs s).rtClosed⟩, .ok) := by
        simp [Reg.step, hh]
      rw [hstep] at hinv ⊢
      have habs : abs ⟨updInst h ensureRes (updInst h (fun i => { i with closed := some c }) s.insts),
          s.list.filter (· != h), closeNames s h i, s.rtClosed⟩ = ⟨closeMods h (abs s).mods, (abs s).rtClosed⟩ := by
        simp only [abs, map_updInst_same h ensureRes absInst_ensureRes, map_updInst_close]
      refine ⟨rfl, habs, ?_⟩
      refine ⟨?_, ?_, ?_, by rw [habs]; exact hinv⟩
      · -- rt
        show closeNames s h i = none ↔ s.rtClosed.isSome = true
        rw [← hg.rt]
        unfold closeNames
        cases hn : (i.name == 0) <;> cases hnm : s.names <;> simp
        split <;> simp
      · -- nm
        intro m hm n hn
        rw [habs]
        show nameLookup n m = Reg.owner ⟨closeMods h (abs s).mods, (abs s).rtClosed⟩ n
        rw [owner_find hn]
        show nameLookup n m = ((closeMods h (abs s).mods).find? _).map _
        by_cases hne : i.name = n
        · -- the closed module's own name
          subst hne
          have hown := owner_of_open hg himem hcl hn
          have hreuse := closed_name_reusable (abs s) hg.inv i.name h c (by rw [hown, hih])
          rw [hstep, owner_find hn] at hreuse
          rw [show ((closeMods h (abs s).mods).find? _).map _ = none from hreuse]
          have hn0 : (i.name == 0) = false := by simpa using hn
          obtain ⟨nm, hnm⟩ : ∃ nm, s.names = some nm := by
            cases hq : s.names with
            | none => simp [closeNames, hn0, hq] at hm
            | some nm => exact ⟨nm, rfl⟩
          have hl : nameLookup i.name nm = some h := by rw [hg.nm nm hnm i.name hn, hown, hih]
          simp only [closeNames, hn0, hnm, hl, beq_self_eq_true, if_true] at hm
          have : m = nameErase i.name nm := by simpa using hm.symm
          rw [this]; exact nameLookup_erase_self _ _
        · have hfind := find_closeMods h n (abs s).mods (by
            intro m' hm' e
            rw [honly m' hm' e]; simp [absInst, hne])
          rw [hfind, ← owner_find hn]
          cases hq : s.names with
          | none =>
            simp only [closeNames, hq] at hm
            split at hm <;> simp at hm
          | some nm =>
            rw [← hg.nm nm hq n hn]
            simp only [closeNames, hq] at hm
            split at hm
            · have : m = nm := by simpa using hm.symm
              rw [this]
            · split at hm
              · have : m = nameErase i.name nm := by simpa using hm.symm
                rw [this]; exact nameLookup_erase_ne n i.name (Ne.symm hne) nm
              · have : m = nm := by simpa using hm.symm
                rw [this]
      · -- lst
        intro j hj hjc
        show j.h ∈ s.list.filter (· != h)
        obtain ⟨y, hy, hyj⟩ := mem_updInst hj
        obtain ⟨z, hz, hzy⟩ := mem_updInst hy
        have hjh : j.h ≠ h ∧ j = z := by
          rcases hzy with ⟨e1, e2⟩ | ⟨e1, e2⟩ <;> rcases hyj with ⟨e3, e4⟩ | ⟨e3, e4⟩
          · subst e2 e4
            exfalso
            rw [ensureRes_closed] at hjc; simp at hjc
          · subst e2; exact absurd e1 e3
          · subst e2; exact absurd e3 e1
          · subst e2 e4; exact ⟨e1, rfl⟩
        obtain ⟨hne, rfl⟩ := hjh
        have := hg.lst j hz hjc
        simp [List.mem_filter, this, hne]

def freshI (h n : Nat) : Inst := ⟨h, n, none, false, true, [], 0⟩

theorem updInst_not_has (h : Nat) (f : Inst → Inst) (l : List Inst) (hh : l.any (fun i => i.h == h) = false) :
    updInst h f l = l := by
  induction l with
  | nil => rfl
  | cons a l ih =>
    simp only [List.any_cons, Bool.or_eq_false_iff] at hh
    simp [updInst, hh.1, ih hh.2]

theorem runOp_inst_closed (s : Impl) (h n c : Nat) (p : Pre) (hrt : s.rtClosed = some c) :
    s.runOp Cfg.repaired (.instantiate h n p) = (s, .errClosed) := by
  cases p <;> simp [Impl.runOp, runOpFuel, startPc, stepOp, hrt, Cfg.repaired]

theorem runOp_inst_has (s : Impl) (h n : Nat) (p : Pre) (nm : List (Nat × Nat)) (hrt : s.rtClosed = none)
    (hnm : s.names = some nm) (hh : s.has h = true) :
    s.runOp Cfg.repaired (.instantiate h n p) = (s, .bad) := by
  cases p <;> simp [Impl.runOp, runOpFuel, startPc, stepOp, hrt, Cfg.repaired, typesSection, hnm, afterCompile, hh]

theorem runOp_inst_ok (s : Impl) (h n : Nat) (p : Pre) (nm : List (Nat × Nat)) (hrt : s.rtClosed = none)
    (hnm : s.names = some nm) (hh : s.has h = false) (hfree : (n != 0 && (nameLookup n nm).isSome) = false) :
    s.runOp Cfg.repaired (.instantiate h n p) =
      (⟨{ freshI h n with notifier := true } :: s.insts, h :: s.list,
        some (if n != 0 then (n, h) :: nm else nm), s.rtClosed⟩, .ok) := by
  cases p <;> simp [Impl.runOp, runOpFuel, startPc, stepOp, hrt, Cfg.repaired, typesSection, hnm, afterCompile, hh,
    hfree, freshI]

theorem runOp_inst_dup (s : Impl) (h n : Nat) (p : Pre) (nm : List (Nat × Nat)) (hrt : s.rtClosed = none)
    (hnm : s.names = some nm) (hh : s.has h = false) (hdup : (n != 0 && (nameLookup n nm).isSome) = true)
    (hother : nameLookup n nm ≠ some h) :
    s.runOp Cfg.repaired (.instantiate h n p) =
      (⟨ensureRes { freshI h n with closed := some 0 } :: s.insts, s.list.filter (· != h),
        some nm, s.rtClosed⟩, .errDup) := by
  have hu : ∀ f, updInst h f s.insts = s.insts := fun f => updInst_not_has h f s.insts hh
  have hn0 : (n == 0) = false := by
    cases hq : (n == 0) with
    | false => rfl
    | true => simp [show n = 0 by simpa using hq] at hdup
  have hne : (nameLookup n nm == some h) = false := by simpa using hother
  cases p <;> simp [Impl.runOp, runOpFuel, startPc, stepOp, hrt, Cfg.repaired, typesSection, hnm, afterCompile, hh,
    hdup, freshI, updInst, hu, deleteModule, Impl.get, hn0, hne]

theorem owner_has {r : Reg} {n h : Nat} (ho : r.owner n = some h) : r.has h = true := by
  have hn : n ≠ 0 := by intro e; simp [Reg.owner, e] at ho
  rw [owner_find hn] at ho
  obtain ⟨m, hfind, e⟩ : ∃ m, r.mods.find? (fun m => m.isOpen && m.name == n) = some m ∧ m.h = h := by
    simpa using ho
  exact (has_iff r h).mpr (List.mem_map.mpr ⟨m, List.mem_of_find?_eq_some hfind, e⟩)

theorem owner_cons_closed (r : Reg) (h n k : Nat) :
    Reg.owner { r with mods := ⟨h, n, false⟩ :: r.mods } k = r.owner k := by
  simp [Reg.owner]

theorem owner_cons_open (r : Reg) (h n k : Nat) (hk : k ≠ 0) :
    Reg.owner { r with mods := ⟨h, n, true⟩ :: r.mods } k = if n == k then some h else r.owner k := by
  simp only [Reg.owner, List.find?_cons, Bool.true_and]
  have : (k == 0) = false := by simpa using hk
  simp only [this, Bool.false_eq_true, if_false]
  by_cases hnk : (n == k) = true <;> simp [hnk]

theorem sim_instantiate (s : Impl) (hg : Good s) (h n : Nat) (p : Pre) : Sim s (.instantiate h n p) := by
  unfold Sim
  have hinv := step_inv (abs s) (.instantiate h n p) hg.inv
  cases hrt : s.rtClosed with
  | some c =>
    rw [runOp_inst_closed s h n c p hrt]
    have : (abs s).rtClosed = true := by simp [abs, hrt]
    simp only [Reg.step, this, if_true]
    exact ⟨trivial, trivial, hg⟩
  | none =>
    obtain ⟨nm, hnm⟩ := names_some_of_open hg hrt
    have hrc : (abs s).rtClosed = false := by simp [abs, hrt]
    cases hh : s.has h with
    | true =>
      rw [runOp_inst_has s h n p nm hrt hnm hh]
      have : (abs s).has h = true := by rw [abs_has]; exact hh
      simp only [Reg.step, hrc, this, if_true, Bool.false_eq_true, if_false]
      exact ⟨trivial, trivial, hg⟩
    | false =>
      have hah : (abs s).has h = false := by rw [abs_has]; exact hh
      have hne_h : ∀ j ∈ s.insts, j.h ≠ h := by
        intro j hj e
        simp only [Impl.has, List.any_eq_false] at hh
        exact hh j hj (by simp [e])
      have hlook : (n != 0 && (nameLookup n nm).isSome) = ((abs s).owner n).isSome := by
        by_cases hn : n = 0
        · subst hn; simp [Reg.owner]
        · rw [hg.nm nm hnm n hn]; simp [hn]
      cases hown : ((abs s).owner n).isSome with
      | true =>
        rw [hown] at hlook
        have hn : n ≠ 0 := by intro e; subst e; simp at hlook
        have hother : nameLookup n nm ≠ some h := by
          intro e
          rw [hg.nm nm hnm n hn] at e
          have := owner_has e
          rw [hah] at this; exact absurd this (by simp)
        rw [runOp_inst_dup s h n p nm hrt hnm hh hlook hother]
        have hstep : (abs s).step (.instantiate h n p) = ({ (abs s) with mods := ⟨h, n, false⟩ :: (abs s).mods }, .errDup) := by
          simp [Reg.step, hrc, hah, hown]
        rw [hstep] at hinv ⊢
        have habs : abs ⟨ensureRes { freshI h n with closed := some 0 } :: s.insts, s.list.filter (· != h), some nm, s.rtClosed⟩
            = { (abs s) with mods := ⟨h, n, false⟩ :: (abs s).mods } := by
          simp only [abs, List.map_cons, absInst_ensureRes]; rfl
        refine ⟨rfl, habs, ?_⟩
        refine ⟨by simp [hrt], ?_, ?_, by rw [habs]; exact hinv⟩
        · intro m hm k hk
          rw [habs, owner_cons_closed]
          have : m = nm := by simpa using hm.symm
          rw [this]; exact hg.nm nm hnm k hk
        · intro j hj hjc
          simp only [List.mem_cons] at hj
          rcases hj with rfl | hj
          · rw [ensureRes_closed] at hjc; simp at hjc
          · have := hg.lst j hj hjc
            simp [List.mem_filter, this, hne_h j hj]
      | false =>
        rw [hown] at hlook
        rw [runOp_inst_ok s h n p nm hrt hnm hh hlook]
        have hstep : (abs s).step (.instantiate h n p) = ({ (abs s) with mods := ⟨h, n, true⟩ :: (abs s).mods }, .ok) := by
          simp [Reg.step, hrc, hah, hown]
        rw [hstep] at hinv ⊢
        have habs : abs ⟨{ freshI h n with notifier := true } :: s.insts, h :: s.list,
            some (if n != 0 then (n, h) :: nm else nm), s.rtClosed⟩
            = { (abs s) with mods := ⟨h, n, true⟩ :: (abs s).mods } := by
          simp only [abs, List.map_cons]; rfl
        refine ⟨rfl, habs, ?_⟩
        refine ⟨by simp [hrt], ?_, ?_, by rw [habs]; exact hinv⟩
        · intro m hm k hk
          rw [habs, owner_cons_open _ _ _ _ hk]
          have hm' : m = if n != 0 then (n, h) :: nm else nm := by simpa using hm.symm
          rw [hm']
          by_cases hn : n = 0
          · subst hn
            have : (0 == k) = false := by simpa using (Ne.symm hk)
            simp [this]; exact hg.nm nm hnm k hk
          · have hn' : (n != 0) = true := by simpa using hn
            simp only [hn', if_true, nameLookup]
            by_cases hnk : (n == k) = true
            · simp [hnk]
            · simp only [hnk, Bool.false_eq_true, if_false]; exact hg.nm nm hnm k hk
        · intro j hj hjc
          simp only [List.mem_cons] at hj
          rcases hj with rfl | hj
          · simp [freshI]
          · exact List.mem_cons_of_mem _ (hg.lst j hj hjc)

/-! ## Part C: sequential refinement of the repaired variant -/

/-- **Sequential refinement, one operation.** From EVERY state satisfying the simulation invariant `Good`
(name map = owners, list ⊇ open instances, closed flags consistent, `RegInv`) and for EVERY operation, running
the operation to completion on the repaired implementation model returns exactly what the atomic registry
returns on the abstraction of the state, the abstraction commutes with the step, and the invariant is
preserved. No precondition on handles or names is needed: a reused handle is answered `bad` by both sides. -/
theorem seq_refinement_step (s : Impl) (hg : Good s) (op : Op) :
    (s.runOp Cfg.repaired op).2 = ((abs s).step op).2 ∧
    abs (s.runOp Cfg.repaired op).1 = ((abs s).step op).1 ∧ Good (s.runOp Cfg.repaired op).1 := by
  cases op with
  | instantiate h n p => exact sim_instantiate s hg h n p
  | closeModule h c => exact sim_closeModule s hg h c
  | lookup n => exact sim_lookup s hg n
  | compile => exact sim_compile s hg
  | hostCompile f => exact sim_hostCompile s hg f
  | closeRuntime c => exact sim_closeRuntime s hg c
  | isClosed h => exact sim_isClosed s hg h

/-- The simulation step restricted to the operations that do not change the name map (kept under its old
name; now a corollary of `seq_refinement_step`, which has no restriction on the operation). -/
theorem seq_refinement_partial (s : Impl) (hg : Good s) (op : Op)
    (hop : match op with | .instantiate _ _ _ => False | .closeModule _ _ => False | _ => True) :
    (s.runOp Cfg.repaired op).2 = ((abs s).step op).2 ∧
    abs (s.runOp Cfg.repaired op).1 = ((abs s).step op).1 ∧ Good (s.runOp Cfg.repaired op).1 :=
  seq_refinement_step s hg op

/-- Non-vacuity: the initial state is `Good`, and so is a state with an open named module. -/
theorem good_init : Good Impl.init :=
  ⟨by simp [Impl.init], by intro m hm n hn; simp [Impl.init] at hm; subst hm; simp [nameLookup, abs, Impl.init, Reg.owner, hn],
   by simp [Impl.init], (show RegInv (abs Impl.init) from (rfl : abs Impl.init = Reg.init) ▸ init_inv)⟩

/-- Sequential refinement from any `Good` state: results, final abstraction and invariant. -/
theorem seq_refinement_from (ops : List Op) (s : Impl) (hg : Good s) :
    (Impl.run Cfg.repaired s ops).2 = (Reg.run (abs s) ops).2 ∧
    abs (Impl.run Cfg.repaired s ops).1 = (Reg.run (abs s) ops).1 ∧ Good (Impl.run Cfg.repaired s ops).1 := by
  induction ops generalizing s with
  | nil => exact ⟨rfl, rfl, hg⟩
  | cons op ops ih =>
    obtain ⟨h1, h2, h3⟩ := seq_refinement_step s hg op
    obtain ⟨i1, i2, i3⟩ := ih _ h3
    simp only [Impl.run, Reg.run]
    rw [h2] at i1 i2
    exact ⟨by rw [h1, i1], i2, i3⟩

/-- **Sequential refinement.** EVERY sequential run of the repaired implementation model (all five finding
switches on) returns exactly what the atomic registry returns — for every operation list, with no
well-formedness hypothesis (false for `Cfg.asIs`: `dup_name_witness`, `host_compile_witness`). -/
theorem seq_refinement (ops : List Op) :
    (Impl.run Cfg.repaired Impl.init ops).2 = (Reg.run Reg.init ops).2 :=
  (seq_refinement_from ops Impl.init good_init).1

/-- Non-vacuity of `seq_refinement`: the common result list is not degenerate. The list exercises
instantiate (success, duplicate name, host pre-compiled), a reused handle, closeModule (twice), re-instantiation
of the freed name, lookup, isClosed, closeRuntime, and requests after the runtime is closed. -/
example : (Impl.run Cfg.repaired Impl.init [.instantiate 1 1 .none, .instantiate 2 1 .bin, .instantiate 1 2 .none,
    .lookup 1, .closeModule 1 3, .closeModule 1 4, .lookup 1, .instantiate 3 1 .host, .lookup 1, .isClosed 1,
    .isClosed 2, .isClosed 3, .closeRuntime 0, .isClosed 3, .lookup 1, .instantiate 4 5 .host, .hostCompile true]).2 =
  [.ok, .errDup, .bad, .found 1, .ok, .ok, .notFound, .ok, .found 3, .closedIs true, .closedIs true,
    .closedIs false, .ok, .closedIs true, .notFound, .errClosed, .errClosed] ∧
  (Reg.run Reg.init [.instantiate 1 1 .none, .instantiate 2 1 .bin, .instantiate 1 2 .none,
    .lookup 1, .closeModule 1 3, .closeModule 1 4, .lookup 1, .instantiate 3 1 .host, .lookup 1, .isClosed 1,
    .isClosed 2, .isClosed 3, .closeRuntime 0, .isClosed 3, .lookup 1, .instantiate 4 5 .host, .hostCompile true]).2 =
  [.ok, .errDup, .bad, .found 1, .ok, .ok, .notFound, .ok, .found 3, .closedIs true, .closedIs true,
    .closedIs false, .ok, .closedIs true, .notFound, .errClosed, .errClosed] := by decide

/-- test (sample): on this operation list the repaired model and the specification agree -/
example : (Impl.run Cfg.repaired Impl.init [.instantiate 1 1 .none, .instantiate 2 1 .bin, .lookup 1, .closeModule 1 3,
    .instantiate 3 1 .host, .lookup 1, .closeRuntime 0, .isClosed 3, .hostCompile true]).2 =
  (Reg.run Reg.init [.instantiate 1 1 .none, .instantiate 2 1 .bin, .lookup 1, .closeModule 1 3,
    .instantiate 3 1 .host, .lookup 1, .closeRuntime 0, .isClosed 3, .hostCompile true]).2 := by decide

/-! ## Part E (tie A): the atomic actions of the model are single critical sections in the source -/

/-- Regenerated from the source on every run (`translate/facts/c10_sections`): each of the four functions
the model treats as ONE atomic action takes `Store.mux` in its first statement, defers the release in its
second, and contains no other Lock/Unlock. A change that splits one of these critical sections (or adds a
second one) breaks this obligation. -/
theorem critical_sections_atomic :
    Wz.Gen.C10Sections.table =
      [("Store.registerModule", 1, 1, true, true), ("Store.deleteModule", 1, 1, true, true),
       ("Store.module", 1, 1, true, true), ("Store.CloseWithExitCode", 1, 1, true, true)] := by decide

/-- **Regenerated obligation**: the first thing `registerModule` does inside its critical section is to refuse
when the store is closed (`nameToModule == nil`) - for every module, named or anonymous.  This is the model's
`iReg` step on a closed store (a fresh, closed instance and the "closed" error); a seeded change that moved the
check into the named-module branch let anonymous modules be registered after `Runtime.Close` had returned. -/
theorem register_refuses_on_closed_store : Wz.Gen.C10Sections.registerRefusesWhenClosed = true := by decide

/-! ## Part D: close effects under all interleavings -/

/-- **Close effects, all interleavings** (partial: the at-most-once half and the FS half of exactly-once).
For every variant, any number of threads with any programs and any schedule: every instance's resources
are released at most once, and never while `Sys` is still attached.
Full statement (not proved): additionally `notified.length ≤ 1`, and `= 1` / `fsCloses = 1` for closed
instances at quiescence. The notifier half is false on the pinned tree in the "= 1" direction
(`notifier_lost_witness`); "≤ 1" needs the thread-level fact that only the creating thread executes the
late attachment `iNote` once, which is not proved here (covered by the harness monitor). -/
theorem close_effects_once_partial (cfg : Cfg) (progs : List (List Op)) (sched : List Nat) :
    ∀ i ∈ ((Conc.start progs).exec cfg sched).shared.insts,
      i.fsCloses ≤ 1 ∧ (i.sys = true → i.fsCloses = 0) :=
  Wz.C10.Refine.exec_res_once cfg progs sched

/-- Every atomic action except the late notifier attachment keeps "fired + still armed ≤ 1". -/
theorem notifier_once_step_partial (cfg : Cfg) (s : Impl) (op : Op) (pc : Pc) (hpc : pc ≠ .iNote)
    (hs : ∀ i ∈ s.insts, i.notified.length + (if i.notifier then 1 else 0) ≤ 1) :
    ∀ i ∈ (stepOp cfg s op pc).1.insts, i.notified.length + (if i.notifier then 1 else 0) ≤ 1 :=
  Wz.C10.Refine.step_note_once cfg s op pc hpc hs


/-- **Regenerated obligation** (wasm/module_instance.go): `CloseWithExitCode` unregisters the instance BEFORE it
releases the resources and does not let a failing release skip anything: the name is free and lookups no longer
find the instance whatever `ensureResourcesClosed` returns (the model's `mDel` before `mRes`). -/
theorem close_unregisters_before_releasing :
    Wz.Gen.Shapes.get "c10.close_tail" = some "_ = m.s.deleteModule(m) ;; return m.ensureResourcesClosed(ctx)" := by decide

end Wz.C10
